(** Proofs about clone() after a history of assignments (C15). *)
From Coq Require Import List Bool String ZArith Lia.
From Cheetah Require Import Ops.ClassTableSpec Ops.Clone Ops.CloneProofs Ops.CloneHistory.
Import ListNotations.
Open Scope string_scope.

(* ================================================================ 1. generic: the history is irrelevant *)
Section Generic.
Variables (S A V : Type).
Variable get : A -> S -> V.
Variable set : A -> V -> S -> S.
Variable init : (A -> V) -> S.
Variable copy : V -> V.
Hypothesis copy_eq : forall v, copy v = v.
Hypothesis init_ext : forall k k' : A -> V, (forall a, k a = k' a) -> init k = init k'.
Variable inv : S -> Prop.                                   (* class invariant *)
Hypothesis inv_set : forall a v s, inv s -> inv (set a v s).
(* the one-state obligation: the constructor rebuilds the stored state from the values of the features read through the
   getters, i.e. the class stores nothing that the features do not determine *)
Hypothesis rebuilds : forall s, inv s -> init (fun f => get f s) = s.
Notation hclone := (hclone S A V get init copy).
Notation run := (run S A V set).

Lemma run_inv ops : forall s, inv s -> inv (run ops s).
Proof. induction ops as [|op r IH]; intros s H; [exact H|]. cbn. apply IH, inv_set, H. Qed.

Lemma hclone_id s : inv s -> hclone s = s.
Proof.
  intros H. unfold CloneHistory.hclone. transitivity (init (fun f => get f s)); [|now apply rebuilds].
  apply init_ext. intros a. apply copy_eq.
Qed.

Theorem clone_after_history_gen : forall ops s, inv s -> hclone (run ops s) = run ops s.
Proof. intros ops s H. apply hclone_id, run_inv, H. Qed.

Corollary observe_after_history_gen : forall pub ops s, inv s ->
  observe S A V get pub (hclone (run ops s)) = observe S A V get pub (run ops s).
Proof. intros pub ops s H. now rewrite clone_after_history_gen. Qed.

Corollary track_after_history_gen : forall (B : Type) (track : S -> B -> B) ops s b, inv s ->
  track (hclone (run ops s)) b = track (run ops s) b.
Proof. intros B track ops s b H. now rewrite clone_after_history_gen. Qed.
End Generic.

(* ================================================================ 2. class-table elements *)
Section Elem.
Variable V : Type.
Variable dflt : cls_rec -> string -> V.
Variable other : cls_rec -> list (string * V) -> string -> V.
Variable copy : V -> V.
Hypothesis copy_eq : forall v, copy v = v.

Lemma aupdate_keys (d : list (string * V)) k v : map fst (aupdate V d k v) = map fst d.
Proof.
  induction d as [|[k' w] r IH]; [reflexivity|]. cbn. destruct (String.eqb k k'); cbn; [reflexivity|now rewrite IH].
Qed.
Lemma setattr_wf p v (e : element V) : wf e -> wf (setattr V p v e).
Proof. intros [H1 H2]. split; cbn; rewrite aupdate_keys; assumption. Qed.
Lemma run_elem_cls ops : forall e : element V, ecls (run_elem V ops e) = ecls e.
Proof.
  induction ops as [|op r IH]; intros e; [reflexivity|].
  change (run_elem V (op :: r) e) with (run_elem V r (setattr V (fst op) (snd op) e)). now rewrite IH.
Qed.
Lemma run_elem_wf ops : forall e : element V, wf e -> wf (run_elem V ops e).
Proof.
  induction ops as [|op r IH]; intros e H; [exact H|].
  change (run_elem V (op :: r) e) with (run_elem V r (setattr V (fst op) (snd op) e)). apply IH, setattr_wf, H.
Qed.
(* an assignment is visible: reading back the assigned attribute gives the assigned value *)
Lemma aupdate_lookup (d : list (string * V)) k v : In k (map fst d) -> alookup (aupdate V d k v) k = Some v.
Proof.
  induction d as [|[k' w] r IH]; cbn; [tauto|]. intros H. destruct (String.eqb_spec k k') as [->|Hne].
  - cbn. now rewrite String.eqb_refl.
  - cbn. destruct (String.eqb_spec k k') as [E|_]; [contradiction|]. apply IH. destruct H as [H|H]; [congruence|exact H].
Qed.

(* whatever assignments to constructor-settable attributes were made, clone() returns the CURRENT state *)
Theorem clone_after_history_elem : forall ops (e : element V),
  class_ok (ecls e) = true -> required_passed (ecls e) = true -> wf e ->
  clone_elem V dflt other copy (run_elem V ops e) = Some (run_elem V ops e).
Proof.
  intros ops e H1 H2 H3. apply (clone_equal V dflt other copy copy_eq); try rewrite run_elem_cls; auto.
  now apply run_elem_wf.
Qed.
Theorem clone_sees_last_assignment : forall ops (e : element V) p v e',
  class_ok (ecls e) = true -> required_passed (ecls e) = true -> wf e -> In p (settable (ecls e)) ->
  clone_elem V dflt other copy (run_elem V (ops ++ [(p, v)]) e) = Some e' -> alookup (eattrs e') p = Some v.
Proof.
  intros ops e p v e' H1 H2 H3 Hp H. rewrite clone_after_history_elem in H by assumption. inversion H; subst e'. clear H.
  unfold run_elem. rewrite fold_left_app. cbn. apply aupdate_lookup.
  destruct (run_elem_wf ops e H3) as [Hk _]. unfold run_elem in Hk. rewrite Hk.
  fold (run_elem V ops e). now rewrite run_elem_cls.
Qed.
End Elem.

(* ================================================================ 3. Dipole / RBend *)
Section Bend.
Variable V : Type.
Variables (add sub : V -> V -> V) (half : V -> V).
Variable copy : V -> V.
Hypothesis copy_eq : forall v, copy v = v.
Hypothesis sub_add : forall x h, add (sub x h) h = x.        (* exact arithmetic: (e - a/2) + a/2 = e *)
Notation bget := (bget V sub half).
Notation bset := (bset V add half).
Notation rbend_init := (rbend_init V add half).
Notation dipole_init := (dipole_init V).

Lemma rbend_rebuilds (s : bend V) : rbend_init (fun f => bget f s) = s.
Proof. destruct s as [a e1 e2]. unfold CloneHistory.rbend_init. cbn. now rewrite !sub_add. Qed.
Lemma dipole_rebuilds (s : bend V) : dipole_init (fun f => bget f s) = s.
Proof. now destruct s. Qed.

(* RBend: clone after ANY history of assignments through angle, dipole_e1/2, rbend_e1/2 is the current state *)
Theorem rbend_clone_after_history : forall ops s,
  hclone (bend V) battr V bget rbend_init copy (run (bend V) battr V bset ops s) = run (bend V) battr V bset ops s.
Proof.
  intros ops s.
  apply (clone_after_history_gen (bend V) battr V bget bset rbend_init copy copy_eq) with (inv := fun _ => True); auto.
  - intros k k' H. unfold CloneHistory.rbend_init. now rewrite !H.
  - intros s' _. apply rbend_rebuilds.
Qed.
Theorem dipole_clone_after_history : forall ops s,
  hclone (bend V) battr V bget dipole_init copy (run (bend V) battr V bset ops s) = run (bend V) battr V bset ops s.
Proof.
  intros ops s.
  apply (clone_after_history_gen (bend V) battr V bget bset dipole_init copy copy_eq) with (inv := fun _ => True); auto.
  - intros k k' H. unfold CloneHistory.dipole_init. now rewrite !H.
  - intros s' _. apply dipole_rebuilds.
Qed.
Corollary rbend_observe_after_history : forall ops s,
  observe (bend V) battr V bget bend_public (hclone (bend V) battr V bget rbend_init copy (run (bend V) battr V bset ops s))
  = observe (bend V) battr V bget bend_public (run (bend V) battr V bset ops s).
Proof. intros. now rewrite rbend_clone_after_history. Qed.
End Bend.

(* ================================================================ 4. a stored copy of a derived attribute breaks it *)
Open Scope Z_scope.
Notation zcget := (cget Z).
Notation zcset := (cset Z Z.add zhalf).
Notation zcinit := (cbend_init Z Z.add zhalf).
Notation zcclone := (hclone (cbend Z) battr Z zcget zcinit (fun v => v)).
Notation zcrun := (run (cbend Z) battr Z zcset).

(* freshly constructed, or modified only through rbend_e1/2, the caching class clones correctly ... *)
Lemma cached_rbend_fresh_ok : forall kw, zcclone (zcinit kw) = zcinit kw.
Proof. intros kw. reflexivity. Qed.
Lemma cached_rbend_own_setter_ok : forall kw v, zcclone (zcset RbendE1 v (zcinit kw)) = zcset RbendE1 v (zcinit kw).
Proof. intros kw v. reflexivity. Qed.

(* ... but one assignment to the underlying [angle] (or to dipole_e1) leaves the copy stale: the clone has another dipole_e1 *)
Theorem cached_rbend_refuted_angle : forall kw a',
  zhalf a' <> zhalf (kw Angle) ->
  zcget DipoleE1 (zcclone (zcrun [(Angle, a')] (zcinit kw))) <> zcget DipoleE1 (zcrun [(Angle, a')] (zcinit kw))
  /\ zcget RbendE1 (zcclone (zcrun [(Angle, a')] (zcinit kw))) = zcget RbendE1 (zcrun [(Angle, a')] (zcinit kw)).
Proof.
  intros kw a' H. cbn. split; [|reflexivity]. generalize dependent (zhalf a'). generalize (zhalf (kw Angle)). intros; lia.
Qed.
Theorem cached_rbend_refuted_dipole_e1 : forall kw v,
  v <> kw RbendE1 + zhalf (kw Angle) ->
  zcget DipoleE1 (zcclone (zcrun [(DipoleE1, v)] (zcinit kw))) <> zcget DipoleE1 (zcrun [(DipoleE1, v)] (zcinit kw)).
Proof. intros kw v H. cbn. intros E. apply H. symmetry. exact E. Qed.
(* a concrete witness (units of 2^-10 rad): RBend(angle=200, rbend_e1=50); angle := 320; clone *)
Lemma cached_rbend_witness :
  let kw := fun a => match a with Angle => 200 | RbendE1 => 50 | _ => 0 end in
  zcget DipoleE1 (zcrun [(Angle, 320)] (zcinit kw)) = 150 /\ zcget DipoleE1 (zcclone (zcrun [(Angle, 320)] (zcinit kw))) = 210.
Proof. vm_compute. split; reflexivity. Qed.
(* the same history on the real class (derived attributes computed, not stored) *)
Lemma rbend_witness :
  let kw := fun a => match a with Angle => 200 | RbendE1 => 50 | _ => 0 end in
  let s := run (bend Z) battr Z zset [(Angle, 320)] (rbend_init Z Z.add zhalf kw) in
  stored s = [320; 150; 100] /\ stored (hclone (bend Z) battr Z zget (rbend_init Z Z.add zhalf) (fun v => v) s) = [320; 150; 100].
Proof. vm_compute. split; reflexivity. Qed.
(* the executable instance satisfies the arithmetic hypothesis of section Bend *)
Lemma z_sub_add : forall x h : Z, (x - h) + h = x.
Proof. intros; lia. Qed.
