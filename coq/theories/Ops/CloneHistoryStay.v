(** "Equal objects stay equal under equal operations" (C15, round 5).

    Model part (no proofs; Ops/CloneHistoryStayProofs.v): a class with two boolean constructor arguments in which the value of
    one is READ BACK THROUGH A GETTER THAT DEPENDS ON THE OTHER -- the shape of a Screen whose `is_blocking` is turned into a
    property returning `self._is_blocking and self.is_active` (seeded change C15-6).  State: the two stored flags.

      class Gated:                                   class Plain:           (cheetah's Screen as it is)
          def __init__(self, blocking, active):          def __init__(self, blocking, active):
              self._blocking = blocking                      self.blocking = blocking
              self.active = active                           self.active = active
          blocking = property(lambda s: s._blocking and s.active,
                              lambda s, v: setattr(s, "_blocking", v))

    and what the beam sees: it is stopped iff the screen is in (active) and blocking. *)
From Coq Require Import List Bool.
From Cheetah Require Import Ops.CloneHistory.
Import ListNotations.

Inductive gattr := Blocking | Active.
Record gstate := mkg { g_blocking : bool; g_active : bool }.

(* plain stored attributes *)
Definition pget (a : gattr) (s : gstate) : bool := match a with Blocking => g_blocking s | Active => g_active s end.
(* the gated getter *)
Definition gget (a : gattr) (s : gstate) : bool :=
  match a with Blocking => g_blocking s && g_active s | Active => g_active s end.
(* both classes store what is assigned *)
Definition gset (a : gattr) (v : bool) (s : gstate) : gstate :=
  match a with Blocking => mkg v (g_active s) | Active => mkg (g_blocking s) v end.
Definition ginit (kw : gattr -> bool) : gstate := mkg (kw Blocking) (kw Active).
Definition gpublic : list gattr := [Blocking; Active].
(* Screen.track: the beam is stopped iff the screen is active and blocking (identical for both classes) *)
Definition stops (s : gstate) : bool := g_active s && g_blocking s.

Definition plain_clone := hclone gstate gattr bool pget ginit (fun v => v).
Definition gated_clone := hclone gstate gattr bool gget ginit (fun v => v).
Definition grun := run gstate gattr bool gset.

(* executable check used by the correspondence (harness/props/c15.py, flag_history_cases): a real Screen built with the two flags,
   assignments before cloning, clone, the SAME assignments on both afterwards; observed (is_blocking, is_active, beam stopped?) of
   original and clone after every later assignment *)
Record gcase := mkgcase {
  gc_blocking : bool; gc_active : bool; gc_pre : list (gattr * bool); gc_post : list (gattr * bool);
  gc_obs : list ((bool * bool * bool) * (bool * bool * bool)) }.
Definition gview (s : gstate) : bool * bool * bool := (pget Blocking s, pget Active s, stops s).
Fixpoint gtrace (ops : list (gattr * bool)) (a c : gstate) : list ((bool * bool * bool) * (bool * bool * bool)) :=
  (gview a, gview c) :: match ops with
                        | [] => []
                        | op :: r => gtrace r (gset (fst op) (snd op) a) (gset (fst op) (snd op) c)
                        end.
Definition view_eqb (x y : bool * bool * bool) : bool :=
  let '(a, b, c) := x in let '(a', b', c') := y in Bool.eqb a a' && Bool.eqb b b' && Bool.eqb c c'.
Fixpoint trace_eqb (l l' : list ((bool * bool * bool) * (bool * bool * bool))) : bool :=
  match l, l' with
  | [], [] => true
  | (x, y) :: r, (x', y') :: r' => view_eqb x x' && view_eqb y y' && trace_eqb r r'
  | _, _ => false
  end.
Definition gate_check (c : gcase) : bool :=
  let s := grun (gc_pre c) (ginit (fun a => match a with Blocking => gc_blocking c | Active => gc_active c end)) in
  trace_eqb (gtrace (gc_post c) s (plain_clone s)) (gc_obs c).
