(** Proofs: a clone that equals the original in STATE stays equal under equal later assignments (congruence); a clone that is
    equal only on the OBSERVATIONS need not (the gated getter of Ops/CloneHistoryStay.v). *)
From Coq Require Import List Bool String.
From Cheetah Require Import Ops.ClassTableSpec Ops.Clone Ops.CloneProofs Ops.CloneHistory Ops.CloneHistoryProofs Ops.CloneHistoryStay.
Import ListNotations.

(* ================================================================ 1. generic *)
Section Generic.
Variables (S A V : Type).
Variable get : A -> S -> V.
Variable set : A -> V -> S -> S.
Variable init : (A -> V) -> S.
Variable copy : V -> V.
Notation hclone := (hclone S A V get init copy).
Notation run := (run S A V set).

(* pure congruence: the same assignment list applied to equal states gives equal states -- and equal observations and equal
   tracking after EVERY prefix of it (no hypothesis on the class at all) *)
Lemma run_congr : forall ops s s', s = s' -> run ops s = run ops s'.
Proof. intros ops s s' H. now rewrite H. Qed.

Lemma equal_states_stay_equal : forall (B : Type) (track : S -> B -> B) pub ops k s s', s = s' ->
  run (firstn k ops) s = run (firstn k ops) s'
  /\ observe S A V get pub (run (firstn k ops) s) = observe S A V get pub (run (firstn k ops) s')
  /\ forall b, track (run (firstn k ops) s) b = track (run (firstn k ops) s') b.
Proof. intros B track pub ops k s s' H. now rewrite H. Qed.

Hypothesis copy_eq : forall v, copy v = v.
Hypothesis init_ext : forall k k' : A -> V, (forall a, k a = k' a) -> init k = init k'.
Variable inv : S -> Prop.
Hypothesis inv_set : forall a v s, inv s -> inv (set a v s).
Hypothesis rebuilds : forall s, inv s -> init (fun f => get f s) = s.

(* history, clone, then the same later assignments on both: the two objects are the same after every step *)
Theorem clone_stays_equal_gen : forall pre post s, inv s ->
  run post (hclone (run pre s)) = run post (run pre s).
Proof.
  intros pre post s H. apply run_congr.
  exact (clone_after_history_gen S A V get set init copy copy_eq init_ext inv inv_set rebuilds pre s H).
Qed.

Corollary clone_stays_equal_stepwise : forall (B : Type) (track : S -> B -> B) pub pre post k s, inv s ->
  observe S A V get pub (run (firstn k post) (hclone (run pre s))) = observe S A V get pub (run (firstn k post) (run pre s))
  /\ forall b, track (run (firstn k post) (hclone (run pre s))) b = track (run (firstn k post) (run pre s)) b.
Proof.
  intros B track pub pre post k s H.
  destruct (equal_states_stay_equal B track pub post k (hclone (run pre s)) (run pre s)) as [_ [H1 H2]]; [|now split].
  exact (clone_after_history_gen S A V get set init copy copy_eq init_ext inv inv_set rebuilds pre s H).
Qed.
End Generic.

(* ================================================================ 2. class-table elements *)
Section Elem.
Variable V : Type.
Variable dflt : cls_rec -> string -> V.
Variable other : cls_rec -> list (string * V) -> string -> V.
Variable copy : V -> V.
Hypothesis copy_eq : forall v, copy v = v.

Theorem clone_stays_equal_elem : forall pre post (e c : element V),
  class_ok (ecls e) = true -> required_passed (ecls e) = true -> wf e ->
  clone_elem V dflt other copy (run_elem V pre e) = Some c ->
  run_elem V post c = run_elem V post (run_elem V pre e).
Proof.
  intros pre post e c H1 H2 H3 H.
  rewrite (clone_after_history_elem V dflt other copy copy_eq pre e H1 H2 H3) in H. now inversion H.
Qed.
End Elem.

(* ================================================================ 3. the plain class (stored flags) *)
Lemma plain_clone_id : forall s, plain_clone s = s.
Proof. now intros [b a]. Qed.

Theorem plain_stays_equal : forall pre post s, grun post (plain_clone (grun pre s)) = grun post (grun pre s).
Proof. intros pre post s. now rewrite plain_clone_id. Qed.

Lemma gtrace_plain : forall post s, gtrace post s (plain_clone s) = gtrace post s s.
Proof. intros post s. now rewrite plain_clone_id. Qed.

(* ================================================================ 4. the gated getter: equal on observation, not in state *)
(* right after cloning nothing distinguishes the two: every public attribute reads the same and the beam is treated the same *)
Lemma gated_clone_observably_equal : forall s,
  observe gstate gattr bool gget gpublic (gated_clone s) = observe gstate gattr bool gget gpublic s
  /\ stops (gated_clone s) = stops s.
Proof. intros [[|] [|]]; split; reflexivity. Qed.

(* the one-state obligation `rebuilds` of clone_after_history_gen fails exactly on a blocking screen that is moved out *)
Lemma gated_rebuilds_iff : forall s,
  ginit (fun f => gget f s) = s <-> (g_blocking s = false \/ g_active s = true).
Proof.
  intros [[|] [|]]; cbn; split; intros H; try reflexivity; try discriminate; try (now left); try (now right).
  destruct H; discriminate.
Qed.

(* the clone stays equal to the original under ALL later assignment lists iff it was built from such a state *)
Theorem gated_stays_equal_iff : forall s,
  (forall post, observe gstate gattr bool gget gpublic (grun post (gated_clone s))
                = observe gstate gattr bool gget gpublic (grun post s))
  <-> (g_blocking s = false \/ g_active s = true).
Proof.
  intros s. split.
  - intros H. specialize (H [(Active, true)]). destruct s as [[|] [|]]; cbn in H; try (now left); try (now right); discriminate.
  - intros H post. assert (E : gated_clone s = s) by (apply gated_rebuilds_iff, H). now rewrite E.
Qed.

(* the witness of seeded change C15-6: Screen(is_blocking=True, is_active=False); clone; is_active := True on both *)
Theorem gated_refuted :
  let s := mkg true false in
  let c := gated_clone s in
  observe gstate gattr bool gget gpublic c = observe gstate gattr bool gget gpublic s /\ stops c = stops s
  /\ c <> s
  /\ gget Blocking (grun [(Active, true)] s) = true /\ gget Blocking (grun [(Active, true)] c) = false
  /\ stops (grun [(Active, true)] s) = true /\ stops (grun [(Active, true)] c) = false.
Proof. cbn. repeat split; try reflexivity. discriminate. Qed.

(* the plain class on the same history *)
Lemma plain_witness :
  let s := mkg true false in
  pget Blocking (grun [(Active, true)] (plain_clone s)) = true /\ stops (grun [(Active, true)] (plain_clone s)) = true.
Proof. cbn. split; reflexivity. Qed.
