(** Proofs about clone() and the per-element LatticeJSON round trip over the class table (C15, C14). *)
From Coq Require Import List Bool String Lia.
From Cheetah Require Import Ops.ClassTableSpec Ops.Json Ops.JsonProofs Ops.Clone.
Import ListNotations.
Open Scope string_scope.

(* ---------------------------------------------------------------- string-list facts *)
Lemma mem_In s l : mem s l = true <-> In s l.
Proof.
  unfold mem. rewrite existsb_exists. split.
  - intros (x & Hx & He). apply String.eqb_eq in He. now subst.
  - intros H. exists s. split; [exact H|apply String.eqb_refl].
Qed.
Lemma subset_In a b : subset a b = true <-> (forall x, In x a -> In x b).
Proof.
  unfold subset. rewrite forallb_forall. split; intros H x Hx; [apply mem_In|apply mem_In]; auto.
Qed.
Lemma minus_In a b x : In x (minus a b) <-> In x a /\ ~ In x b.
Proof.
  unfold minus. rewrite filter_In, negb_true_iff. split; intros [H1 H2]; split; auto.
  - intros Hb. apply mem_In in Hb. congruence.
  - destruct (mem x b) eqn:E; [apply mem_In in E; tauto|reflexivity].
Qed.

Section Proofs.
Variable V : Type.
Variable dflt : cls_rec -> string -> V.
Variable other : cls_rec -> list (string * V) -> string -> V.
Notation element := (element V).

Lemma alookup_map (g : string -> V) l p :
  alookup (map (fun f => (f, g f)) l) p = if mem p l then Some (g p) else None.
Proof.
  induction l as [|a r IH]; [reflexivity|]. cbn. destruct (String.eqb_spec p a) as [->|Hne]; [reflexivity|].
  cbn. exact IH.
Qed.
Lemma alookup_In (d : list (string * V)) p : In p (map fst d) -> exists v, alookup d p = Some v.
Proof.
  induction d as [|[k v] r IH]; cbn; [tauto|]. intros [->|H].
  - rewrite String.eqb_refl. eauto.
  - destruct (String.eqb p k); eauto.
Qed.
Lemma rebuild (d : list (string * V)) (z : string -> V) : NoDup (map fst d) ->
  map (fun p => (p, match alookup d p with Some v => v | None => z p end)) (map fst d) = d.
Proof.
  induction d as [|[k v] r IH]; intros Hnd; [reflexivity|]. cbn in *. inversion Hnd as [|? ? Hni Hnd']; subst.
  rewrite String.eqb_refl. f_equal. rewrite <- (IH Hnd') at 2. apply map_ext_in. intros p Hp.
  destruct (String.eqb_spec p k) as [->|Hne]; [tauto|reflexivity].
Qed.

(* ================================================================ the constructor call of clone()/load *)
(* calling the class with {f: cp(getattr(e,f))} rebuilds e, provided the class table row is consistent
   and cp keeps the values of e *)
Lemma construct_fvals (cp : V -> V) (e : element) :
  class_ok (ecls e) = true -> required_passed (ecls e) = true -> wf e ->
  (forall f v, In (f, v) (eattrs e) -> cp v = v) ->
  construct dflt (ecls e) (fvals other cp e) = Some e.
Proof.
  destruct e as [c attrs]. cbn [ecls eattrs]. intros Hok Hreq [Hwf Hnd] Hcp. cbn [ecls eattrs] in Hwf, Hnd.
  unfold class_ok in Hok. apply andb_prop in Hok as [H1 H2].
  unfold construct, fvals. cbn [ecls eattrs]. rewrite map_map. cbn [fst]. rewrite map_id.
  assert (Hk : subset (minus (features c) ["name"]) (ctor_params c) = true).
  { apply subset_In. intros x Hx. apply minus_In in Hx as [Hx _]. revert x Hx. now apply subset_In. }
  rewrite Hk. unfold required_passed in Hreq. rewrite Hreq. cbn [andb]. f_equal. f_equal.
  rewrite <- Hwf. rewrite <- (rebuild attrs (dflt c) Hnd) at 2. apply map_ext_in. intros p Hp. f_equal.
  rewrite (alookup_map (fun f => cp (getattr other (mkel c attrs) f))).
  assert (Hm : mem p (minus (features c) ["name"]) = true).
  { apply mem_In, minus_In. rewrite Hwf in Hp. split.
    - revert p Hp. now apply subset_In.
    - unfold settable in Hp. apply minus_In in Hp as [_ Hn]. intros [<-|[]]. apply Hn. cbn. tauto. }
  rewrite Hm. unfold getattr. cbn [eattrs].
  destruct (alookup_In attrs p Hp) as [v Hv]. rewrite Hv. apply (Hcp p).
  clear - Hv. induction attrs as [|[k w] r IH]; [discriminate|]. cbn in Hv.
  destruct (String.eqb_spec p k) as [->|Hne]; [inversion Hv; now left|right; now apply IH].
Qed.

(* a constructor parameter that is not a defining feature comes back as the constructor default *)
Lemma construct_drops (cp : V -> V) (e : element) p :
  subset (features (ecls e)) (ctor_params (ecls e)) = true -> required_passed (ecls e) = true ->
  In p (settable (ecls e)) -> mem p (features (ecls e)) = false ->
  exists e', construct dflt (ecls e) (fvals other cp e) = Some e' /\ ecls e' = ecls e /\
             alookup (eattrs e') p = Some (dflt (ecls e) p).
Proof.
  destruct e as [c attrs]. cbn [ecls eattrs]. intros H2 Hreq Hp Hnf.
  unfold construct, fvals. cbn [ecls eattrs]. rewrite map_map. cbn [fst]. rewrite map_id.
  assert (Hk : subset (minus (features c) ["name"]) (ctor_params c) = true).
  { apply subset_In. intros x Hx. apply minus_In in Hx as [Hx _]. revert x Hx. now apply subset_In. }
  rewrite Hk. unfold required_passed in Hreq. rewrite Hreq. cbn [andb]. eexists. split; [reflexivity|].
  cbn [ecls eattrs]. split; [reflexivity|].
  rewrite (alookup_map (fun p => match alookup (map (fun f => (f, cp (getattr other (mkel c attrs) f))) (minus (features c) ["name"])) p with
                                | Some v => v | None => dflt c p end)).
  apply mem_In in Hp. rewrite Hp.
  rewrite (alookup_map (fun f => cp (getattr other (mkel c attrs) f))).
  assert (Hm : mem p (minus (features c) ["name"]) = false).
  { destruct (mem p (minus (features c) ["name"])) eqn:E; [|reflexivity].
    apply mem_In, minus_In in E as [E _]. apply mem_In in E. congruence. }
  rewrite Hm. reflexivity.
Qed.

(* a defining feature that is not a constructor parameter makes the constructor call raise *)
Lemma construct_raises (cp : V -> V) (e : element) f :
  In f (features (ecls e)) -> f <> "name" -> mem f (ctor_params (ecls e)) = false ->
  construct dflt (ecls e) (fvals other cp e) = None.
Proof.
  destruct e as [c attrs]. cbn [ecls eattrs]. intros Hf Hn Hnc.
  unfold construct, fvals. cbn [ecls eattrs]. rewrite map_map. cbn [fst]. rewrite map_id.
  assert (Hk : subset (minus (features c) ["name"]) (ctor_params c) = false).
  { destruct (subset (minus (features c) ["name"]) (ctor_params c)) eqn:E; [|reflexivity].
    rewrite subset_In in E. assert (In f (ctor_params c)).
    { apply E, minus_In. split; [exact Hf|]. intros [<-|[]]. congruence. }
    apply mem_In in H. congruence. }
  rewrite Hk. reflexivity.
Qed.

(* ================================================================ C15: clone *)
Section WithCopy.
Variable autoname : string.
Variable copy : V -> V.
Hypothesis copy_eq : forall v, copy v = v.       (* a copy carries the same data *)
Notation clone_elem := (clone_elem V dflt other copy).
Notation clone_tree := (clone_tree V dflt other autoname copy).

Theorem clone_equal : forall e : element,
  class_ok (ecls e) = true -> required_passed (ecls e) = true -> wf e -> clone_elem e = Some e.
Proof. intros e H1 H2 H3. apply construct_fvals; auto. Qed.

Theorem clone_tracks_same : forall (B : Type) (track : element -> B -> B) (e e' : element) b,
  class_ok (ecls e) = true -> required_passed (ecls e) = true -> wf e ->
  clone_elem e = Some e' -> track e' b = track e b.
Proof. intros B track e e' b H1 H2 H3 H. rewrite (clone_equal e H1 H2 H3) in H. inversion H. reflexivity. Qed.

Definition good_leaf (ne : string * element) : Prop :=
  class_ok (ecls (snd ne)) = true /\ required_passed (ecls (snd ne)) = true /\ wf (snd ne) /\
  mem "name" (features (ecls (snd ne))) = true.

Theorem clone_segment : forall t : tree element,
  (forall ne, In ne (payloads t) -> good_leaf ne) -> clone_tree t = Some t.
Proof.
  induction t as [n e|n ts IH] using tree_ind'; intros Hg.
  - destruct (Hg (n, e) (or_introl eq_refl)) as (H1 & H2 & H3 & H4). cbn in *.
    rewrite (clone_equal e H1 H2 H3). unfold clone_name. rewrite H4. reflexivity.
  - cbn [Clone.clone_tree].
    match goal with |- option_map _ (?g ts) = _ => assert (G : g ts = Some ts) end.
    { induction ts as [|t r IHr]; [reflexivity|]. inversion IH as [|? ? Ht Hr]; subst.
      rewrite Ht by (intros ne Hne; apply Hg; cbn; apply in_or_app; now left).
      rewrite IHr; [reflexivity|exact Hr|]. intros ne Hne. apply Hg. cbn. apply in_or_app. now right. }
    rewrite G. reflexivity.
Qed.

Theorem clone_beam : (forall b : pbeam V, clone_pbeam V copy b = b) /\ (forall b : mbeam V, clone_mbeam V copy b = b).
Proof. split; intros []; unfold clone_pbeam, clone_mbeam; cbn; now rewrite !copy_eq. Qed.

(* what clone() loses, for any class whose feature list omits a constructor parameter *)
Theorem clone_drops : forall (e : element) p v,
  subset (features (ecls e)) (ctor_params (ecls e)) = true -> required_passed (ecls e) = true ->
  In p (settable (ecls e)) -> mem p (features (ecls e)) = false ->
  alookup (eattrs e) p = Some v -> v <> dflt (ecls e) p ->
  exists e', clone_elem e = Some e' /\ alookup (eattrs e') p = Some (dflt (ecls e) p) /\ e' <> e.
Proof.
  intros e p v H1 H2 H3 H4 Hv Hne.
  destruct (construct_drops copy e p H1 H2 H3 H4) as (e' & Hc & _ & Ha).
  exists e'. split; [exact Hc|]. split; [exact Ha|]. intros ->. congruence.
Qed.
Theorem clone_raises : forall (e : element) f,
  In f (features (ecls e)) -> f <> "name" -> mem f (ctor_params (ecls e)) = false -> clone_elem e = None.
Proof. intros. eapply construct_raises; eauto. Qed.

(* ---- finding F12, per offending class of the pinned tree *)
Theorem clone_refuted_quadrupole : forall e v, ecls e = quadrupole_cls ->
  alookup (eattrs e) "tracking_method" = Some v -> v <> dflt quadrupole_cls "tracking_method" ->
  exists e', clone_elem e = Some e' /\
    alookup (eattrs e') "tracking_method" = Some (dflt quadrupole_cls "tracking_method") /\ e' <> e.
Proof.
  intros e v Hc Hv Hne. rewrite <- Hc in *. apply (clone_drops e "tracking_method" v); auto; rewrite Hc; vm_compute; auto 10.
Qed.
Theorem clone_refuted_quadrupole_steps : forall e v, ecls e = quadrupole_cls ->
  alookup (eattrs e) "num_steps" = Some v -> v <> dflt quadrupole_cls "num_steps" ->
  exists e', clone_elem e = Some e' /\
    alookup (eattrs e') "num_steps" = Some (dflt quadrupole_cls "num_steps") /\ e' <> e.
Proof.
  intros e v Hc Hv Hne. rewrite <- Hc in *. apply (clone_drops e "num_steps" v); auto; rewrite Hc; vm_compute; auto 10.
Qed.
Theorem clone_refuted_screen : forall e v, ecls e = screen_cls ->
  alookup (eattrs e) "is_blocking" = Some v -> v <> dflt screen_cls "is_blocking" ->
  exists e', clone_elem e = Some e' /\
    alookup (eattrs e') "is_blocking" = Some (dflt screen_cls "is_blocking") /\ e' <> e.
Proof.
  intros e v Hc Hv Hne. rewrite <- Hc in *. apply (clone_drops e "is_blocking" v); auto; rewrite Hc; vm_compute; auto 10.
Qed.
Theorem clone_refuted_undulator : forall e v, ecls e = undulator_cls ->
  alookup (eattrs e) "is_active" = Some v -> v <> dflt undulator_cls "is_active" ->
  exists e', clone_elem e = Some e' /\
    alookup (eattrs e') "is_active" = Some (dflt undulator_cls "is_active") /\ e' <> e.
Proof.
  intros e v Hc Hv Hne. rewrite <- Hc in *. apply (clone_drops e "is_active" v); auto; rewrite Hc; vm_compute; auto 10.
Qed.
Theorem clone_spacecharge_raises : forall e, ecls e = spacechargekick_cls -> clone_elem e = None.
Proof.
  intros e Hc. apply (clone_raises e "grid_shape"); try rewrite Hc; [vm_compute; auto 10|discriminate|reflexivity].
Qed.
End WithCopy.

(* ================================================================ C14: one element through LatticeJSON *)
Section WithJson.
Variable JV : Type.
Variables (enc : V -> JV) (dec : JV -> V).
Variable table : list cls_rec.
Notation save_elem := (save_elem V other JV enc).
Notation load_elem := (load_elem V dflt JV dec table).

Lemma load_save_is_construct (e : element) n :
  find_class table (cname (ecls e)) = Some (ecls e) ->
  load_elem n (save_elem e) = construct dflt (ecls e) (fvals other (fun v => dec (enc v)) e).
Proof.
  intros Hf. unfold Clone.load_elem, Clone.save_elem. cbn [fst snd]. rewrite Hf. unfold fvals.
  rewrite map_map. reflexivity.
Qed.

(* values that survive tolist()/torch.tensor(): float32 tensors, strings, booleans *)
Definition json_stable (e : element) : Prop := forall f v, In (f, v) (eattrs e) -> dec (enc v) = v.

Theorem elem_roundtrip : forall (e : element) n,
  class_ok (ecls e) = true -> required_passed (ecls e) = true -> wf e -> json_stable e ->
  find_class table (cname (ecls e)) = Some (ecls e) ->
  load_elem n (save_elem e) = Some e.
Proof.
  intros e n H1 H2 H3 H4 H5. rewrite load_save_is_construct by exact H5. now apply construct_fvals.
Qed.
Theorem elem_roundtrip_drops : forall (e : element) n p v,
  subset (features (ecls e)) (ctor_params (ecls e)) = true -> required_passed (ecls e) = true ->
  find_class table (cname (ecls e)) = Some (ecls e) ->
  In p (settable (ecls e)) -> mem p (features (ecls e)) = false ->
  alookup (eattrs e) p = Some v -> v <> dflt (ecls e) p ->
  exists e', load_elem n (save_elem e) = Some e' /\ alookup (eattrs e') p = Some (dflt (ecls e) p) /\ e' <> e.
Proof.
  intros e n p v H1 H2 H5 H3 H4 Hv Hne. rewrite load_save_is_construct by exact H5.
  destruct (construct_drops (fun v => dec (enc v)) e p H1 H2 H3 H4) as (e' & Hc & _ & Ha).
  exists e'. split; [exact Hc|]. split; [exact Ha|]. intros ->. congruence.
Qed.
Theorem elem_roundtrip_raises : forall (e : element) n f,
  find_class table (cname (ecls e)) = Some (ecls e) ->
  In f (features (ecls e)) -> f <> "name" -> mem f (ctor_params (ecls e)) = false ->
  load_elem n (save_elem e) = None.
Proof. intros e n f H5 H1 H2 H3. rewrite load_save_is_construct by exact H5. eapply construct_raises; eauto. Qed.

(* ---- whole lattices of real elements: tree round trip composed with the per-element round trip *)
Definition json_leaf_ok (ne : string * element) : Prop :=
  class_ok (ecls (snd ne)) = true /\ required_passed (ecls (snd ne)) = true /\ wf (snd ne) /\ json_stable (snd ne) /\
  find_class table (cname (ecls (snd ne))) = Some (ecls (snd ne)).
Lemma leaves_loadable (t : tree element) :
  (forall ne, In ne (payloads t) -> json_leaf_ok ne) -> loadable element _ save_elem load_elem t.
Proof.
  intros H n e Hin. destruct (H (n, e) Hin) as (H1 & H2 & H3 & H4 & H5). now apply elem_roundtrip.
Qed.
Theorem lattice_roundtrip_repaired : forall n ts title info fuel,
  NoDup (names (Sg n ts)) -> (forall ne, In ne (payloads (Sg n ts)) -> json_leaf_ok ne) -> depth (Sg n ts) <= fuel ->
  match snd (save_repaired element _ save_elem (Sg n ts) title info) with
  | Some doc => load element _ load_elem fuel doc = Some (Sg n ts)
  | None => False
  end.
Proof. intros. apply save_load_repaired; auto. now apply leaves_loadable. Qed.
Theorem lattice_roundtrip_flat : forall n ts title info fuel, flat (Sg n ts) = true ->
  NoDup (names (Sg n ts)) -> (forall ne, In ne (payloads (Sg n ts)) -> json_leaf_ok ne) -> 1 <= fuel ->
  match snd (save element _ save_elem (Sg n ts) title info) with
  | Some doc => load element _ load_elem fuel doc = Some (Sg n ts)
  | None => False
  end.
Proof. intros. apply save_load_flat; auto. now apply leaves_loadable. Qed.
End WithJson.
End Proofs.

(* ================================================================ the class-table obligation on the pinned rows *)
Lemma classes_ok_refuted :
  class_ok quadrupole_cls = false /\ class_ok screen_cls = false /\ class_ok undulator_cls = false /\
  class_ok spacechargekick_cls = false /\ class_ok drift_cls = true /\
  missing quadrupole_cls = ["num_steps"; "tracking_method"] /\ missing screen_cls = ["is_blocking"] /\
  missing undulator_cls = ["is_active"] /\ extra spacechargekick_cls = ["grid_shape"].
Proof. vm_compute. repeat split. Qed.
(* since fix b273117 the exception list is empty: the four offending rows of the pinned tree are rejected by the per-run
   obligation (a regression of F12 breaks [table_ok]); a consistent class (Drift) is accepted *)
Lemma pinned_offenders_now_rejected :
  forallb (fun c => negb (class_accepted c)) [quadrupole_cls; screen_cls; undulator_cls; spacechargekick_cls] = true
  /\ class_accepted drift_cls = true.
Proof. vm_compute. split; reflexivity. Qed.
(* the exception list excuses nothing else: Quadrupole that additionally drops k1 is rejected *)
Lemma exception_list_is_exact :
  class_accepted (mkcls "Quadrupole" (ctor_params quadrupole_cls) (required quadrupole_cls)
                        ["name"; "length"; "misalignment"; "tilt"]
                        [("name", "str"); ("length", "tensor"); ("misalignment", "tensor"); ("tilt", "tensor")]
                        (echoed quadrupole_cls) "ok") = false /\
  class_accepted (mkcls "Drift" (ctor_params drift_cls) (required drift_cls) ["name"; "length"]
                        [("name", "str"); ("length", "tensor")] (echoed drift_cls) "ok") = false.
Proof. vm_compute. split; reflexivity. Qed.
