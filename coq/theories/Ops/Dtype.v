(** Model of cheetah/utils/argument_verification.py (dtype part) and of PyTorch's dtype
    propagation for the floating dtypes cheetah uses (C12). *)
From Coq Require Import List Bool.
Import ListNotations.

Inductive dtype := F32 | F64.
Definition dtype_eqb (a b : dtype) : bool := match a, b with F32, F32 | F64, F64 => true | _, _ => false end.

(* are_all_the_same_dtype: assertion when the tensors disagree (None), default dtype when there are none *)
Definition all_same (default : dtype) (ts : list dtype) : option dtype :=
  match ts with
  | [] => Some default
  | d :: r => if forallb (dtype_eqb d) r then Some d else None
  end.

Fixpoint not_nones (ts : list (option dtype)) : list dtype :=
  match ts with [] => [] | Some d :: r => d :: not_nones r | None :: r => not_nones r end.

(* verify_device_and_dtype(tensors, _, desired_dtype) -> chosen dtype, None = AssertionError *)
Definition verify (default : dtype) (ts : list (option dtype)) (desired : option dtype) : option dtype :=
  match desired with
  | Some d => Some d
  | None => all_same default (not_nones ts)
  end.

(** PyTorch type promotion between floating tensors: a dimensioned tensor is not promoted by a
    0-dim tensor of the same category; otherwise the wider dtype wins. *)
Definition wider (a b : dtype) : dtype := match a, b with F32, F32 => F32 | _, _ => F64 end.
Record operand := mkop { od : dtype; zero_dim : bool }.
Definition result_type (a b : operand) : dtype :=
  match zero_dim a, zero_dim b with
  | false, true => od a
  | true, false => od b
  | _, _ => wider (od a) (od b)
  end.
