From Coq Require Import List Bool.
From Cheetah Require Import Ops.Dtype.
Import ListNotations.

Lemma dtype_eqb_eq a b : dtype_eqb a b = true <-> a = b.
Proof. destruct a, b; cbn; split; congruence. Qed.

(* a requested dtype always wins, whatever the tensors are *)
Theorem verify_desired : forall default ts d, verify default ts (Some d) = Some d.
Proof. reflexivity. Qed.

(* without a request: the common dtype of the given tensors, the default if there are none *)
Theorem verify_inferred : forall default ts d,
  not_nones ts <> [] -> (forall x, In x (not_nones ts) -> x = d) -> verify default ts None = Some d.
Proof.
  intros default ts d Hne Hall. unfold verify, all_same. destruct (not_nones ts) as [|x r]; [congruence|].
  assert (x = d) by (apply Hall; now left). subst x.
  replace (forallb (dtype_eqb d) r) with true; [reflexivity|]. symmetry. apply forallb_forall.
  intros y Hy. apply dtype_eqb_eq. symmetry. apply Hall. now right.
Qed.

Theorem verify_no_tensors : forall default ts, not_nones ts = [] -> verify default ts None = Some default.
Proof. intros default ts H. unfold verify. rewrite H. reflexivity. Qed.

(* conflicting tensors are rejected (assertion), never silently resolved *)
Theorem verify_conflict_rejected : forall default ts a b,
  In a (not_nones ts) -> In b (not_nones ts) -> a <> b -> verify default ts None = None.
Proof.
  intros default ts a b Ha Hb Hab. unfold verify, all_same. destruct (not_nones ts) as [|x r]; [destruct Ha|].
  destruct (forallb (dtype_eqb x) r) eqn:Hf; [|reflexivity]. exfalso.
  rewrite forallb_forall in Hf.
  assert (G : forall y, In y (x :: r) -> y = x).
  { intros y [->|Hy]; [reflexivity|]. symmetry. apply dtype_eqb_eq, Hf, Hy. }
  apply Hab. rewrite (G a Ha), (G b Hb). reflexivity.
Qed.

(* whenever verify succeeds without a request, every given tensor already has the chosen dtype *)
Theorem verify_sound : forall default ts d, verify default ts None = Some d ->
  forall x, In x (not_nones ts) -> x = d.
Proof.
  intros default ts d H x Hx. unfold verify, all_same in H. destruct (not_nones ts) as [|y r]; [destruct Hx|].
  destruct (forallb (dtype_eqb y) r) eqn:Hf; [|discriminate]. injection H as <-.
  destruct Hx as [->|Hx]; [reflexivity|]. rewrite forallb_forall in Hf. symmetry. apply dtype_eqb_eq, Hf, Hx.
Qed.

(* operations between tensors of one dtype stay in that dtype; a float64 operand of full dimension always wins *)
Theorem result_type_closed : forall d z1 z2, result_type (mkop d z1) (mkop d z2) = d.
Proof. destruct d, z1, z2; reflexivity. Qed.
Theorem result_type_comm : forall a b, result_type a b = result_type b a.
Proof. intros [[] []] [[] []]; reflexivity. Qed.
(* the only way a float64 computation loses precision: a dimensioned float32 operand meets a 0-dim float64 one *)
Theorem result_type_demotion_iff : forall a b,
  (od a = F64 \/ od b = F64) -> (result_type a b = F32 <->
  (od a = F32 /\ zero_dim a = false /\ zero_dim b = true) \/ (od b = F32 /\ zero_dim b = false /\ zero_dim a = true)).
Proof. intros [[] []] [[] []]; cbn; intuition congruence. Qed.
