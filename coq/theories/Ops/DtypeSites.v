(** Reviewed inventory of tensor creations that do NOT take the simulation's dtype (no `dtype=` and no
    `**factory_kwargs`), with the reason each is harmless or the finding it causes.  The inventory is
    regenerated from /repo by harness/ast_sites.py on every run and must be a subset of this list. *)
From Coq Require Import List Bool String.
Import ListNotations.
Open Scope string_scope.

Inductive dclass :=
| IntegerIndex          (* integer index tensors: no floating dtype involved *)
| PromotedByOperand     (* default-dtype tensor combined with a dimensioned tensor of the right dtype: result keeps that dtype *)
| PlaceholderLength     (* Element.__init__'s length = 0.0 placeholder, overwritten by subclasses that have a length *)
| OutOfScope            (* plotting / device probing *)
| ImportPath            (* values read from foreign files / JSON in the default dtype, then cast by the constructor *)
| DefaultDtypeThenCast  (* created in float32 and only then cast: a float64 simulation carries float32-rounded values (finding F16a/F16c) *)
| Float32Constant       (* module-level float32 physical constants (finding F16b) *)
| Float32Grid           (* screen pixel grids in float32 (finding F16d) *)
| DefaultDtypeResult.   (* result returned in the default dtype (finding F16e) *)

Definition reviewed_sites : list (string * string * string * dclass) := [
 ("cheetah/converters/bmad.py", "convert_element", "torch.tensor( bmad_parsed[""angle""] if ""angle"" in bmad_parsed else bmad_parsed.get(""g"", 0.0) * bmad_parsed[""l""] )", DefaultDtypeThenCast);
 ("cheetah/converters/bmad.py", "convert_element", "torch.tensor(bmad_parsed.get(""e1"", 0.0))", DefaultDtypeThenCast);
 ("cheetah/accelerator/segment.py", "Segment.length", "torch.tensor(0.0)", PlaceholderLength);
 ("cheetah/accelerator/element.py", "Element.__init__", "torch.tensor(0.0)", PlaceholderLength);
 ("cheetah/accelerator/screen.py", "Screen.pixel_bin_edges", "torch.linspace( -self.resolution[0] * self.pixel_size[0] / 2, self.resolution[0] * self.pixel_size[0] / 2, int(self.effective_resolution[0]) + 1, )", Float32Grid);
 ("cheetah/accelerator/screen.py", "Screen.pixel_bin_edges", "torch.linspace( -self.resolution[1] * self.pixel_size[1] / 2, self.resolution[1] * self.pixel_size[1] / 2, int(self.effective_resolution[1]) + 1, )", Float32Grid);
 ("cheetah/accelerator/screen.py", "Screen.reading", "torch.arange(bottom, top, vstep)", Float32Grid);
 ("cheetah/accelerator/screen.py", "Screen.reading", "torch.arange(left, right, hstep)", Float32Grid);
 ("cheetah/accelerator/segment.py", "Segment.plot", "torch.tensor(0.0)", OutOfScope);
 ("cheetah/accelerator/segment.py", "Segment.plot_reference_particle_traces", "torch.tensor(0.0)", OutOfScope);
 ("cheetah/accelerator/segment.py", "Segment.plot_reference_particle_traces", "torch.tensor(resolution)", OutOfScope);
 ("cheetah/accelerator/segment.py", "Segment.plot_twiss", "torch.tensor(0.0)", OutOfScope);
 ("cheetah/accelerator/space_charge_kick.py", "SpaceChargeKick._compute_forces", "torch.arange(beam.num_particles)", IntegerIndex);
 ("cheetah/accelerator/space_charge_kick.py", "SpaceChargeKick._compute_forces", "torch.arange(cell_indices.shape[0])", IntegerIndex);
 ("cheetah/accelerator/space_charge_kick.py", "SpaceChargeKick._compute_forces", "torch.tensor( [ [0, 0, 0], [0, 0, 1], [0, 1, 0], [0, 1, 1], [1, 0, 0], [1, 0, 1], [1, 1, 0], [1, 1, 1], ] )", IntegerIndex);
 ("cheetah/accelerator/space_charge_kick.py", "SpaceChargeKick._deposit_charge_on_grid", "torch.arange(cell_indices.shape[0])", IntegerIndex);
 ("cheetah/accelerator/space_charge_kick.py", "SpaceChargeKick._deposit_charge_on_grid", "torch.tensor( [ [0, 0, 0], [0, 0, 1], [0, 1, 0], [0, 1, 1], [1, 0, 0], [1, 0, 1], [1, 1, 0], [1, 1, 1], ] )", IntegerIndex);
 ("cheetah/converters/bmad.py", "convert_element", "torch.tensor( -np.degrees(bmad_parsed.get(""phi0"", 0.0) * 2 * np.pi) )", DefaultDtypeThenCast);
 ("cheetah/converters/bmad.py", "convert_element", "torch.tensor(2 * bmad_parsed.get(""hgap"", 0.0))", DefaultDtypeThenCast);
 ("cheetah/converters/bmad.py", "convert_element", "torch.tensor(bmad_parsed.get(""angle"", 0.0))", DefaultDtypeThenCast);
 ("cheetah/converters/bmad.py", "convert_element", "torch.tensor(bmad_parsed.get(""e2"", 0.0))", DefaultDtypeThenCast);
 ("cheetah/converters/bmad.py", "convert_element", "torch.tensor(bmad_parsed.get(""fint"", 0.0))", DefaultDtypeThenCast);
 ("cheetah/converters/bmad.py", "convert_element", "torch.tensor(bmad_parsed.get(""kick"", 0.0))", DefaultDtypeThenCast);
 ("cheetah/converters/bmad.py", "convert_element", "torch.tensor(bmad_parsed.get(""l"", 0.0))", DefaultDtypeThenCast);
 ("cheetah/converters/bmad.py", "convert_element", "torch.tensor(bmad_parsed.get(""ref_tilt"", 0.0))", DefaultDtypeThenCast);
 ("cheetah/converters/bmad.py", "convert_element", "torch.tensor(bmad_parsed.get(""tilt"", 0.0))", DefaultDtypeThenCast);
 ("cheetah/converters/bmad.py", "convert_element", "torch.tensor(bmad_parsed.get(""voltage"", 0.0))", DefaultDtypeThenCast);
 ("cheetah/converters/bmad.py", "convert_element", "torch.tensor(bmad_parsed.get(""x_limit"", np.inf))", DefaultDtypeThenCast);
 ("cheetah/converters/bmad.py", "convert_element", "torch.tensor(bmad_parsed.get(""y_limit"", np.inf))", DefaultDtypeThenCast);
 ("cheetah/converters/bmad.py", "convert_element", "torch.tensor(bmad_parsed[""e1""])", DefaultDtypeThenCast);
 ("cheetah/converters/bmad.py", "convert_element", "torch.tensor(bmad_parsed[""fintx""])", DefaultDtypeThenCast);
 ("cheetah/converters/bmad.py", "convert_element", "torch.tensor(bmad_parsed[""k1""])", DefaultDtypeThenCast);
 ("cheetah/converters/bmad.py", "convert_element", "torch.tensor(bmad_parsed[""ks""])", DefaultDtypeThenCast);
 ("cheetah/converters/bmad.py", "convert_element", "torch.tensor(bmad_parsed[""l""])", DefaultDtypeThenCast);
 ("cheetah/converters/bmad.py", "convert_element", "torch.tensor(bmad_parsed[""rf_frequency""])", DefaultDtypeThenCast);
 ("cheetah/converters/elegant.py", "convert_element", "torch.tensor(parsed.get(""angle"", 0.0))", DefaultDtypeThenCast);
 ("cheetah/converters/elegant.py", "convert_element", "torch.tensor(parsed.get(""e1"", 0.0))", DefaultDtypeThenCast);
 ("cheetah/converters/elegant.py", "convert_element", "torch.tensor(parsed.get(""e2"", 0.0))", DefaultDtypeThenCast);
 ("cheetah/converters/elegant.py", "convert_element", "torch.tensor(parsed.get(""k1"", 0.0))", DefaultDtypeThenCast);
 ("cheetah/converters/elegant.py", "convert_element", "torch.tensor(parsed.get(""kick"", 0.0))", DefaultDtypeThenCast);
 ("cheetah/converters/elegant.py", "convert_element", "torch.tensor(parsed.get(""l"", 0.0))", DefaultDtypeThenCast);
 ("cheetah/converters/elegant.py", "convert_element", "torch.tensor(parsed.get(""tilt"", 0.0))", DefaultDtypeThenCast);
 ("cheetah/converters/elegant.py", "convert_element", "torch.tensor(parsed.get(""x_max"", torch.inf))", DefaultDtypeThenCast);
 ("cheetah/converters/elegant.py", "convert_element", "torch.tensor(parsed.get(""y_max"", torch.inf))", DefaultDtypeThenCast);
 ("cheetah/converters/elegant.py", "convert_element", "torch.tensor(parsed[""freq""])", DefaultDtypeThenCast);
 ("cheetah/converters/elegant.py", "convert_element", "torch.tensor(parsed[""frequency""])", DefaultDtypeThenCast);
 ("cheetah/converters/elegant.py", "convert_element", "torch.tensor(parsed[""k1""])", DefaultDtypeThenCast);
 ("cheetah/converters/elegant.py", "convert_element", "torch.tensor(parsed[""l""] / 2)", DefaultDtypeThenCast);
 ("cheetah/converters/elegant.py", "convert_element", "torch.tensor(parsed[""l""])", DefaultDtypeThenCast);
 ("cheetah/converters/elegant.py", "convert_element", "torch.tensor(parsed[""phase""] - 90)", DefaultDtypeThenCast);
 ("cheetah/converters/elegant.py", "convert_element", "torch.tensor(parsed[""volt""])", DefaultDtypeThenCast);
 ("cheetah/converters/elegant.py", "convert_element", "torch.tensor(parsed[""voltage""])", DefaultDtypeThenCast);
 ("cheetah/converters/nxtables.py", "convert_lattice_to_cheetah", "torch.as_tensor([drift_length])", DefaultDtypeThenCast);
 ("cheetah/converters/nxtables.py", "translate_element", "torch.tensor((0.00343e-3, 0.00247e-3))", DefaultDtypeThenCast);
 ("cheetah/converters/nxtables.py", "translate_element", "torch.tensor((0.00998e-3, 0.00715e-3))", DefaultDtypeThenCast);
 ("cheetah/converters/nxtables.py", "translate_element", "torch.tensor(-0.7504915783575616)", DefaultDtypeThenCast);
 ("cheetah/converters/nxtables.py", "translate_element", "torch.tensor(0.0)", DefaultDtypeThenCast);
 ("cheetah/converters/nxtables.py", "translate_element", "torch.tensor(0.02)", DefaultDtypeThenCast);
 ("cheetah/converters/nxtables.py", "translate_element", "torch.tensor(0.122)", DefaultDtypeThenCast);
 ("cheetah/converters/nxtables.py", "translate_element", "torch.tensor(0.22)", DefaultDtypeThenCast);
 ("cheetah/converters/nxtables.py", "translate_element", "torch.tensor(0.25)", DefaultDtypeThenCast);
 ("cheetah/converters/nxtables.py", "translate_element", "torch.tensor(0.322)", DefaultDtypeThenCast);
 ("cheetah/converters/nxtables.py", "translate_element", "torch.tensor(0.43852543421396856)", DefaultDtypeThenCast);
 ("cheetah/converters/nxtables.py", "translate_element", "torch.tensor(0.8203047484373349)", DefaultDtypeThenCast);
 ("cheetah/converters/nxtables.py", "translate_element", "torch.tensor(1.0)", DefaultDtypeThenCast);
 ("cheetah/converters/nxtables.py", "translate_element", "torch.tensor(11.9952e9)", DefaultDtypeThenCast);
 ("cheetah/converters/nxtables.py", "translate_element", "torch.tensor(2.998e9)", DefaultDtypeThenCast);
 ("cheetah/converters/nxtables.py", "translate_element", "torch.tensor(4.139)", DefaultDtypeThenCast);
 ("cheetah/converters/nxtables.py", "translate_element", "torch.tensor(5e-05)", DefaultDtypeThenCast);
 ("cheetah/converters/nxtables.py", "translate_element", "torch.tensor(76e6)", DefaultDtypeThenCast);
 ("cheetah/converters/nxtables.py", "translate_element", "torch.tensor([3.5488e-6, 2.5003e-6])", DefaultDtypeThenCast);
 ("cheetah/converters/nxtables.py", "translate_element", "torch.tensor(float(""inf""))", DefaultDtypeThenCast);
 ("cheetah/converters/ocelot.py", "convert_element_to_cheetah", "torch.tensor([3.5488e-6, 2.5003e-6])", DefaultDtypeThenCast);
 ("cheetah/latticejson.py", "nontorch2feature", "torch.tensor(value)", ImportPath);
 ("cheetah/particles/parameter_beam.py", "ParameterBeam.from_astra", "torch.ones(7)", ImportPath);
 ("cheetah/particles/parameter_beam.py", "ParameterBeam.from_astra", "torch.tensor(particles.mean(axis=0))", ImportPath);
 ("cheetah/particles/parameter_beam.py", "ParameterBeam.from_astra", "torch.zeros(7, 7)", ImportPath);
 ("cheetah/particles/parameter_beam.py", "ParameterBeam.from_ocelot", "torch.ones(7)", ImportPath);
 ("cheetah/particles/parameter_beam.py", "ParameterBeam.from_ocelot", "torch.zeros(7, 7)", ImportPath);
 ("cheetah/particles/particle_beam.py", "<module>", "torch.tensor(constants.electron_mass)", Float32Constant);
 ("cheetah/particles/particle_beam.py", "<module>", "torch.tensor(constants.speed_of_light)", Float32Constant);
 ("cheetah/particles/particle_beam.py", "ParticleBeam.from_astra", "torch.from_numpy(particle_charges)", ImportPath);
 ("cheetah/particles/particle_beam.py", "ParticleBeam.from_astra", "torch.from_numpy(particles)", ImportPath);
 ("cheetah/particles/particle_beam.py", "ParticleBeam.from_astra", "torch.ones((particles.shape[0], 7))", ImportPath);
 ("cheetah/particles/particle_beam.py", "ParticleBeam.from_astra", "torch.tensor(energy)", ImportPath);
 ("cheetah/particles/particle_beam.py", "ParticleBeam.from_ocelot", "torch.ones((num_particles, 7))", ImportPath);
 ("cheetah/particles/particle_beam.py", "ParticleBeam.from_ocelot", "torch.tensor(1e9 * parray.E)", ImportPath);
 ("cheetah/particles/particle_beam.py", "ParticleBeam.from_ocelot", "torch.tensor(parray.q_array)", ImportPath);
 ("cheetah/particles/particle_beam.py", "ParticleBeam.from_ocelot", "torch.tensor(parray.rparticles.transpose())", ImportPath);
 ("cheetah/particles/particle_beam.py", "ParticleBeam.to_xyz_pxpypz", "torch.ones(self.particles.shape[:-1])", PromotedByOperand);
 ("cheetah/particles/particle_beam.py", "ParticleBeam.transformed_to", "torch.ones(*phase_space.shape[:-1], 7)", DefaultDtypeThenCast);
 ("cheetah/utils/device.py", "is_mps_available_and_functional", "torch.tensor([1.0], device=""mps"")", OutOfScope);
 ("cheetah/utils/elementwise_linspace.py", "elementwise_linspace", "torch.linspace(a_flat[i], b_flat[i], steps)", DefaultDtypeResult)
].

Definition key_eqb (a b : string * string * string) : bool :=
  let '(a1, a2, a3) := a in let '(b1, b2, b3) := b in String.eqb a1 b1 && String.eqb a2 b2 && String.eqb a3 b3.
Definition sites_reviewed (found : list (string * string * string)) : bool :=
  forallb (fun f => existsb (fun m => key_eqb f (fst m)) reviewed_sites) found.
