(** State-machine model of "tracking has no hidden state" (C11).

    A lattice has a fixed vector of assignable parameters (positions 0..n-1, values are opaque
    value identifiers), a vector of diagnostics (screens / BPMs, each with an activity flag),
    and per diagnostic the last recorded beam and a reading cache (Screen.cached_reading).
    Tracking is an uninterpreted function of (parameters, activity flags, beam): its result is
    represented by the *token* (params, flags, beam id).  The implementation is consistent with
    the model iff equal tokens always come with bit-identical observed results. *)
From Coq Require Import List Bool ZArith Lia.
Import ListNotations.
Open Scope Z_scope.

Definition token := (list Z * list bool * Z)%type.

Inductive op :=
| Assign (i : nat) (v : Z)        (* element.param = value, directly or through the segment's by-name handle *)
| SetActive (d : nat) (b : bool)  (* diagnostic.is_active = b *)
| Track (b : Z)                   (* segment.track(beam b) *)
| Read (d : nat)                  (* screen.reading / bpm.reading *)
| CloneTrack (b : Z)              (* segment.clone().track(beam b): must not touch the original's diagnostics *)
| Optim (k : nat) (b : Z).        (* build an optimised lattice (merged maps, ...) and track b through it: parameters untouched; the
                                     optimised lattice SHARES the retained element objects, so active diagnostics record this beam too *)

Inductive out := OTrack (t : token) | ORead (d : nat) (r : option token) | ONone.

Record state := mkst { params : list Z; act : list bool; recd : list (option token); cache : list (option token) }.

Fixpoint set_nth {A} (l : list A) (i : nat) (x : A) : list A :=
  match l, i with
  | [], _ => []
  | _ :: r, O => x :: r
  | a :: r, S i' => a :: set_nth r i' x
  end.

Definition tok (s : state) (b : Z) : token := (params s, act s, b).

(* an active diagnostic records the beam and drops its cached reading (Screen.set_read_beam) *)
Fixpoint record (acts : list bool) (old : list (option token)) (t : token) : list (option token) :=
  match acts, old with
  | a :: ar, o :: orr => (if a then Some t else o) :: record ar orr t
  | _, _ => old
  end.
Fixpoint drop_cache (acts : list bool) (old : list (option token)) : list (option token) :=
  match acts, old with
  | a :: ar, o :: orr => (if a then None else o) :: drop_cache ar orr
  | _, _ => old
  end.

Definition step (s : state) (o : op) : state * out :=
  match o with
  | Assign i v => (mkst (set_nth (params s) i v) (act s) (recd s) (cache s), ONone)
  | SetActive d b => (mkst (params s) (set_nth (act s) d b) (recd s) (cache s), ONone)
  | Track b =>
    let t := tok s b in
    (mkst (params s) (act s) (record (act s) (recd s) t) (drop_cache (act s) (cache s)), OTrack t)
  | Read d =>
    match nth d (cache s) None with
    | Some t => (s, ORead d (Some t))
    | None => let r := nth d (recd s) None in
              (mkst (params s) (act s) (recd s) (set_nth (cache s) d r), ORead d r)
    end
  | CloneTrack b => (s, OTrack (tok s b))
  | Optim k b =>   (* the optimised lattice's own result is C08's business (ONone); diagnostics are shared objects and record *)
    let t := tok s b in
    (mkst (params s) (act s) (record (act s) (recd s) t) (drop_cache (act s) (cache s)), ONone)
  end.

Fixpoint run (s : state) (ops : list op) : state * list out :=
  match ops with
  | [] => (s, [])
  | o :: r => let '(s1, x) := step s o in let '(s2, xs) := run s1 r in (s2, x :: xs)
  end.

Definition init (p : list Z) (a : list bool) : state :=
  mkst p a (map (fun _ => None) a) (map (fun _ => None) a).

(** consistency of observed result identifiers with the model's tokens *)
Definition token_eqb (a b : token) : bool :=
  let '(p1, a1, b1) := a in let '(p2, a2, b2) := b in
  (if list_eq_dec Z.eq_dec p1 p2 then true else false) && (if list_eq_dec bool_dec a1 a2 then true else false) && (b1 =? b2).
Definition out_eqb (a b : out) : bool :=
  match a, b with
  | OTrack t1, OTrack t2 => token_eqb t1 t2
  | ORead d1 (Some t1), ORead d2 (Some t2) => Nat.eqb d1 d2 && token_eqb t1 t2
  | ORead d1 None, ORead d2 None => Nat.eqb d1 d2
  | ONone, ONone => true
  | _, _ => false
  end.
(* obs: per op, the identifier (hash class) of what the implementation returned; 0 for "nothing" *)
Fixpoint consistent (xs : list (out * Z)) : bool :=
  match xs with
  | [] => true
  | (o, v) :: r => forallb (fun '(o', v') => implb (out_eqb o o') (v =? v')) r && consistent r
  end.
Definition history_check (p : list Z) (a : list bool) (ops : list op) (obs : list Z) : bool :=
  let outs := snd (run (init p a) ops) in
  (length outs =? length obs)%nat && consistent (combine outs obs).
