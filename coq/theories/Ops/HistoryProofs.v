(** Proofs about the history model (C11). *)
From Coq Require Import List Bool ZArith Lia.
From Cheetah Require Import Ops.History.
Import ListNotations.
Open Scope Z_scope.

(** parameters and activity flags are changed by assignments only *)
Definition apply_param (p : list Z) (o : op) : list Z := match o with Assign i v => set_nth p i v | _ => p end.
Definition apply_act (a : list bool) (o : op) : list bool := match o with SetActive d b => set_nth a d b | _ => a end.

Lemma step_params s o : params (fst (step s o)) = apply_param (params s) o.
Proof. destruct o; cbn; try reflexivity. destruct (nth d (cache s) None); reflexivity. Qed.
Lemma step_act s o : act (fst (step s o)) = apply_act (act s) o.
Proof. destruct o; cbn; try reflexivity. destruct (nth d (cache s) None); reflexivity. Qed.

Lemma run_cons s o r : run s (o :: r) = (fst (run (fst (step s o)) r), snd (step s o) :: snd (run (fst (step s o)) r)).
Proof. cbn [run]. destruct (step s o) as [s1 x]. cbn. destruct (run s1 r) as [s2 xs]. reflexivity. Qed.

Lemma run_params s ops : params (fst (run s ops)) = fold_left apply_param ops (params s).
Proof.
  revert s. induction ops as [|o r IH]; intros s; [reflexivity|].
  rewrite run_cons. cbn [fst fold_left]. rewrite IH, step_params. reflexivity.
Qed.
Lemma run_act s ops : act (fst (run s ops)) = fold_left apply_act ops (act s).
Proof.
  revert s. induction ops as [|o r IH]; intros s; [reflexivity|].
  rewrite run_cons. cbn [fst fold_left]. rewrite IH, step_act. reflexivity.
Qed.

(** a track after ANY history equals the track through a freshly built lattice holding the
    final parameter values and activity flags *)
Theorem track_equals_fresh : forall p a h b,
  snd (step (fst (run (init p a) h)) (Track b)) =
  snd (step (init (fold_left apply_param h p) (fold_left apply_act h a)) (Track b)).
Proof.
  intros. cbn [step snd]. unfold tok. rewrite run_params, run_act. reflexivity.
Qed.

Theorem repeat_track_same : forall s b,
  snd (step (fst (step s (Track b))) (Track b)) = snd (step s (Track b)).
Proof. reflexivity. Qed.

Theorem clone_and_optim_track_like_original : forall s b k,
  snd (step s (CloneTrack b)) = snd (step s (Track b))
  /\ fst (step s (CloneTrack b)) = s
  /\ params (fst (step s (Optim k b))) = params s /\ act (fst (step s (Optim k b))) = act s
  /\ fst (step s (Optim k b)) = fst (step s (Track b)).
Proof. intros. repeat split. Qed.

(** cache coherence: a cached reading is always the reading of the last recorded beam *)
Definition cache_inv (s : state) : Prop :=
  forall d t, nth d (cache s) None = Some t -> nth d (recd s) None = Some t.

Lemma nth_set_nth {A} (l : list A) i j x dflt :
  nth j (set_nth l i x) dflt = if Nat.eqb i j then (if Nat.ltb i (length l) then x else nth j l dflt) else nth j l dflt.
Proof.
  revert i j. induction l as [|a r IH]; intros i j; cbn.
  - destruct (Nat.eqb i j); destruct j; reflexivity.
  - destruct i, j; cbn; try reflexivity. rewrite IH. destruct (Nat.eqb i j); [|reflexivity].
    change (S i <? S (length r))%nat with (i <? length r)%nat. reflexivity.
Qed.

Lemma nth_record acts old t d :
  nth d (record acts old t) None =
  if nth d acts false && Nat.ltb d (length old) then Some t else nth d old None.
Proof.
  revert old d. induction acts as [|a ar IH]; intros old d; cbn.
  - destruct d; reflexivity.
  - destruct old as [|o orr]; cbn.
    + destruct d; cbn; [destruct a; reflexivity|]. rewrite andb_false_r. reflexivity.
    + destruct d; cbn; [destruct a; reflexivity|]. rewrite IH. reflexivity.
Qed.
Lemma nth_drop_cache acts old d :
  nth d (drop_cache acts old) None = if nth d acts false then None else nth d old None.
Proof.
  revert old d. induction acts as [|a ar IH]; intros old d; cbn.
  - destruct d; reflexivity.
  - destruct old as [|o orr]; cbn; [destruct d; cbn; [destruct a|destruct (nth d ar false)]; reflexivity|].
    destruct d; cbn; [destruct a; reflexivity|]. apply IH.
Qed.

Lemma init_inv p a : cache_inv (init p a).
Proof.
  intros d t H. unfold init in H. cbn in H. exfalso.
  assert (G : forall (l : list bool) d, nth d (map (fun _ : bool => @None token) l) None = None).
  { induction l; destruct d0; cbn; auto. }
  rewrite G in H. discriminate.
Qed.

Lemma step_inv s o : cache_inv s -> cache_inv (fst (step s o)).
Proof.
  intros Hs. destruct o; cbn; try exact Hs.
  - (* Track *) intros d t. cbn. rewrite nth_drop_cache, nth_record.
    destruct (nth d (act s) false); [discriminate|]. cbn. apply Hs.
  - (* Read *) destruct (nth d (cache s) None) eqn:Hc; cbn; [exact Hs|].
    intros d' t. cbn. rewrite nth_set_nth. destruct (Nat.eqb_spec d d') as [<-|Hne]; [|apply Hs].
    destruct (Nat.ltb d (length (cache s))); [tauto|]. rewrite Hc. discriminate.
  - (* Optim *) intros d t. cbn. rewrite nth_drop_cache, nth_record.
    destruct (nth d (act s) false); [discriminate|]. cbn. apply Hs.
Qed.

Lemma run_inv s ops : cache_inv s -> cache_inv (fst (run s ops)).
Proof.
  revert s. induction ops as [|o r IH]; intros s Hs; [exact Hs|].
  rewrite run_cons. cbn [fst]. apply IH, step_inv, Hs.
Qed.

(** a read-out always returns the beam most recently recorded by that diagnostic *)
Theorem read_returns_recorded : forall p a h d,
  let s := fst (run (init p a) h) in
  snd (step s (Read d)) = ORead d (nth d (recd s) None).
Proof.
  intros p a h d s. pose proof (run_inv (init p a) h (init_inv p a)) as Hinv. fold s in Hinv.
  cbn [step]. destruct (nth d (cache s) None) eqn:Hc; cbn; [|reflexivity].
  rewrite (Hinv d t Hc). reflexivity.
Qed.

(** ... and that is the beam of the most recent track while the diagnostic was active *)
Theorem track_records_when_active : forall s b d,
  (d < length (recd s))%nat ->
  nth d (recd (fst (step s (Track b)))) None =
  if nth d (act s) false then Some (tok s b) else nth d (recd s) None.
Proof.
  intros s b d Hd. cbn. rewrite nth_record. destruct (Nat.ltb_spec d (length (recd s))); [|lia].
  rewrite andb_true_r. reflexivity.
Qed.

Theorem only_track_changes_recorded : forall s o,
  (forall b, o <> Track b) -> (forall k b, o <> Optim k b) -> recd (fst (step s o)) = recd s.
Proof.
  intros s o Hn Ho. destruct o; cbn; try reflexivity.
  - exfalso; eapply Hn; reflexivity.
  - destruct (nth d (cache s) None); reflexivity.
  - exfalso; eapply Ho; reflexivity.
Qed.
