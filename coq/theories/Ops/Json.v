(** Model of cheetah/latticejson.py (C14): convert_segment / parse_segment / save layout.

    A lattice is a tree of named leaves (payload [P] = class + parameters) and named sub-segments.
    Python dictionaries are association lists with the NEWEST binding at the head and first-match
    lookup ([d[k] = v] is [(k,v) :: d], [d.update(d')] is [d' ++ d]); [pyitems] gives Python's own
    view (insertion order, a re-assigned key keeps its place) and is what is compared with the
    file written by the real code.

    Two converters are modelled:
      [conv_buggy]  the code AS IT IS: after the if/else the statement [cell.append(element_name)]
                    uses the variable assigned in the *leaf* branch only, so for a sub-segment child
                    the name of the previous leaf is appended (finding F11); when no leaf came before,
                    Python raises UnboundLocalError ([None]).
      [conv]        the repaired converter ([cell.append(element.name)]).
    No proofs in this file. *)
From Coq Require Import List Bool String Arith.
Import ListNotations.

Section Tree.
Variable P : Type.
Inductive tree := Lf (n : string) (p : P) | Sg (n : string) (ts : list tree).

Section Ind.
  Variable Q : tree -> Prop.
  Hypothesis HL : forall n p, Q (Lf n p).
  Hypothesis HS : forall n ts, Forall Q ts -> Q (Sg n ts).
  Fixpoint tree_ind' (t : tree) : Q t :=
    match t with
    | Lf n p => HL n p
    | Sg n ts => HS n ts ((fix go ts : Forall Q ts :=
         match ts with [] => Forall_nil _ | t :: r => Forall_cons _ (tree_ind' t) (go r) end) ts)
    end.
End Ind.

Definition tname t := match t with Lf n _ => n | Sg n _ => n end.
Definition is_leaf t := match t with Lf _ _ => true | Sg _ _ => false end.
Fixpoint names (t : tree) : list string :=
  match t with Lf n _ => [n] | Sg n ts => n :: flat_map names ts end.
Fixpoint depth (t : tree) : nat :=
  match t with Lf _ _ => 0 | Sg _ ts => S (fold_right (fun t d => Nat.max (depth t) d) 0 ts) end.
Fixpoint payloads (t : tree) : list (string * P) :=
  match t with Lf n p => [(n, p)] | Sg _ ts => flat_map payloads ts end.
Fixpoint segs (t : tree) : list (string * list string) :=
  match t with Lf _ _ => [] | Sg n ts => (n, map tname ts) :: flat_map segs ts end.
(* a flat segment: the root's children are all leaves (no nested sub-segment anywhere) *)
Definition flat (t : tree) : bool := match t with Lf _ _ => true | Sg _ ts => forallb is_leaf ts end.
End Tree.
Arguments Lf {P}. Arguments Sg {P}. Arguments tname {P}. Arguments is_leaf {P}. Arguments names {P}.
Arguments depth {P}. Arguments payloads {P}. Arguments segs {P}. Arguments flat {P}.

(* ---------------------------------------------------------------- dictionaries *)
Definition dict (A : Type) := list (string * A).
Fixpoint lookup {A} (d : dict A) (k : string) : option A :=
  match d with [] => None | (k', v) :: r => if String.eqb k k' then Some v else lookup r k end.
(* Python's view of the same sequence of assignments: insertion order, re-assignment in place *)
Fixpoint dset {A} (d : dict A) (k : string) (v : A) : dict A :=
  match d with
  | [] => [(k, v)]
  | (k', v') :: r => if String.eqb k k' then (k', v) :: r else (k', v') :: dset r k v
  end.
Definition pyitems {A} (d : dict A) : dict A := fold_right (fun kv acc => dset acc (fst kv) (snd kv)) [] d.

Fixpoint mapM {A B} (f : A -> option B) (l : list A) : option (list B) :=
  match l with [] => Some [] | a :: r =>
    match f a, mapM f r with Some b, Some bs => Some (b :: bs) | _, _ => None end end.

Section J.
Variables (P J : Type).
Variable sv : P -> J.                       (* convert_element: class name + {feature: value} *)
Variable ld : string -> J -> option P.      (* parse_element(name, ...): constructor call, may raise *)

(* ---- convert_segment, repaired *)
Fixpoint conv (t : tree P) : dict J * dict (list string) :=
  match t with
  | Lf n p => ([(n, sv p)], [])
  | Sg n ts =>
    let r := (fix go (ts : list (tree P)) (E : dict J) (LL : dict (list string)) (cell : list string) :=
      match ts with
      | [] => (E, LL, cell)
      | t' :: r =>
        match t' with
        | Lf m p => go r ((m, sv p) :: E) LL (cell ++ [m])
        | Sg m _ => let '(E', L') := conv t' in go r (E' ++ E) (L' ++ LL) (cell ++ [m])
        end
      end) ts [] [] [] in
    let '(E, LL, cell) := r in (E, (n, cell) :: LL)
  end.

(* ---- convert_segment as coded.  [cur] is the local variable [element_name]: unbound ([None]) until
   the first leaf of THIS segment has been converted; the recursive call has its own. *)
Fixpoint conv_buggy (t : tree P) : option (dict J * dict (list string)) :=
  match t with
  | Lf n p => Some ([(n, sv p)], [])
  | Sg n ts =>
    match (fix go (ts : list (tree P)) (E : dict J) (LL : dict (list string)) (cell : list string)
                  (cur : option string) :=
      match ts with
      | [] => Some (E, LL, cell)
      | t' :: r =>
        match t' with
        | Lf m p => go r ((m, sv p) :: E) LL (cell ++ [m]) (Some m)
        | Sg m _ =>
          match conv_buggy t' with
          | None => None
          | Some (E', L') =>
            match cur with
            | None => None                                   (* UnboundLocalError *)
            | Some c => go r (E' ++ E) (L' ++ LL) (cell ++ [c]) cur   (* stale name appended *)
            end
          end
        end
      end) ts [] [] [] None with
    | None => None
    | Some (E, LL, cell) => Some (E, (n, cell) :: LL)
    end
  end.

(* ---- parse_segment / parse_element; [fuel] bounds Python's recursion *)
Fixpoint parse (fuel : nat) (E : dict J) (LL : dict (list string)) (n : string) : option (tree P) :=
  match fuel with
  | O => None
  | S f =>
    match lookup LL n with
    | None => None                                           (* KeyError *)
    | Some cell =>
      option_map (Sg n)
        (mapM (fun m => match lookup LL m with
                        | Some _ => parse f E LL m           (* `if element_name in lattices` first *)
                        | None => match lookup E m with
                                  | Some j => option_map (Lf m) (ld m j)
                                  | None => None             (* KeyError *)
                                  end
                        end) cell)
    end
  end.

(* ---- save_cheetah_model / load_cheetah_model on a named root segment *)
Inductive jval := JStr (s : string) | JElements (E : dict J) | JLattices (L : dict (list string)).
Definition document (E : dict J) (LL : dict (list string)) (root : string) (title : option string) (info : string)
  : dict jval :=
  (* metadata = {version,title,info,root}; lattice_dict = metadata.copy(); then elements, lattices.
     Listed here in insertion order (this is an ordered view, not a lookup list). *)
  [ ("version"%string, JStr "cheetah-0.7");
    ("title"%string, JStr (match title with Some s => s | None => root end));
    ("info"%string, JStr info);
    ("root"%string, JStr root);
    ("elements"%string, JElements (pyitems E));
    ("lattices"%string, JLattices (pyitems LL)) ].

(* saving returns the segment it was given together with the document: the writer has no access
   that could change the segment (convert_pure is by construction of this signature) *)
Definition save_with (cv : tree P -> option (dict J * dict (list string))) (t : tree P) (title : option string) (info : string)
  : tree P * option (dict jval) :=
  (t, match cv t with Some (E, LL) => Some (document E LL (tname t) title info) | None => None end).
Definition save := save_with conv_buggy.
Definition save_repaired := save_with (fun t => Some (conv t)).

Definition load (fuel : nat) (doc : dict jval) : option (tree P) :=
  match lookup doc "root", lookup doc "elements", lookup doc "lattices" with
  | Some (JStr root), Some (JElements E), Some (JLattices LL) => parse fuel E LL root
  | _, _, _ => None
  end.
End J.

(* ---------------------------------------------------------------- skeleton instance used by the
   correspondence check: payload = class name, stored and loaded unchanged *)
Definition sk_conv := conv string string (fun c => c).
Definition sk_conv_buggy := conv_buggy string string (fun c => c).
(* [bad]: classes whose constructor rejects the saved keywords (rows of the regenerated class table with a
   defining feature that is not a constructor parameter): parse_element raises for them *)
Definition sk_parse (bad : list string) :=
  parse string string (fun _ c => if existsb (String.eqb c) bad then None else Some c).

Fixpoint tree_eqb (a b : tree string) : bool :=
  match a, b with
  | Lf n p, Lf m q => String.eqb n m && String.eqb p q
  | Sg n ts, Sg m us =>
      String.eqb n m &&
      (fix go (ts us : list (tree string)) : bool :=
         match ts, us with
         | [], [] => true
         | t :: r, u :: s => tree_eqb t u && go r s
         | _, _ => false
         end) ts us
  | _, _ => false
  end.
Definition opt_tree_eqb (a b : option (tree string)) :=
  match a, b with Some x, Some y => tree_eqb x y | None, None => true | _, _ => false end.
Definition sdict_eqb (a b : dict string) :=
  (List.length a =? List.length b) && forallb (fun p => String.eqb (fst (fst p)) (fst (snd p)) && String.eqb (snd (fst p)) (snd (snd p))) (combine a b).
Definition slist_eqb (a b : list string) :=
  (List.length a =? List.length b) && forallb (fun p => String.eqb (fst p) (snd p)) (combine a b).
Definition ldict_eqb (a b : dict (list string)) :=
  (List.length a =? List.length b) && forallb (fun p => String.eqb (fst (fst p)) (fst (snd p)) && slist_eqb (snd (fst p)) (snd (snd p))) (combine a b).

(* one observation of the real code: the lattice skeleton, what json.loads found in the written file
   (None: saving raised), and the skeleton of what from_lattice_json returned (None: loading raised) *)
Record c14_case := mkc14 {
  c_tree : tree string;
  c_saved : option (dict string * dict (list string));   (* "elements" as (name, class), "lattices", file order *)
  c_loaded : option (tree string);
  c_unloadable : list string
}.
Definition saved_eqb (m : option (dict string * dict (list string))) (o : option (dict string * dict (list string))) :=
  match m, o with
  | Some (E, LL), Some (E', LL') => sdict_eqb (pyitems E) E' && ldict_eqb (pyitems LL) LL'
  | None, None => true
  | _, _ => false
  end.
Definition loaded_ok (c : c14_case) :=
  match c_saved c with
  | Some (E, LL) => opt_tree_eqb (sk_parse (c_unloadable c) (S (List.length LL)) E LL (tname (c_tree c))) (c_loaded c)
  | None => match c_loaded c with None => true | Some _ => false end
  end.
(* the code behaves like the faithful model / like the repaired model on this case *)
Definition c14_check_faithful (c : c14_case) := saved_eqb (sk_conv_buggy (c_tree c)) (c_saved c) && loaded_ok c.
Definition c14_check_repaired (c : c14_case) := saved_eqb (Some (sk_conv (c_tree c))) (c_saved c) && loaded_ok c.
