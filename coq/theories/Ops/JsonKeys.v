(** Names as dictionary KEYS of the LatticeJSON file (C14).

    cheetah/latticejson.py, CompactJSONEncoder.encode: the two indented dictionary levels (the top-level
    fields, and the "elements" / "lattices" tables whose keys are the element / segment names) are written
    by hand, one item per line, as

        f"{items_indent}{json.dumps(key)}: {self.encode(value, level=level + 1)}"

    so every NAME reaches the file through [json.dumps(key)] and comes back through the string-literal
    parser of [json.load].  Everything below level 2 (cell lists, [class, {parameters}]) goes through the
    standard library's json.dumps as a whole.

    This file models that layer.  Strings are Coq [string]s = sequences of BYTES (the UTF-8 bytes of the
    Python str).
      - Section KeyCodec: the written form of a dictionary for ANY key writer [encode_key] and key reader
        [decode_key] ([None] = json.JSONDecodeError); [save_text] / [load_text] wrap the converter and the
        parser of Ops/Json.v with it.  The round-trip theorem (JsonKeysProofs.v) assumes exactly
        [forall k, decode_key (encode_key k) = Some k].
      - [json_encode_key] / [json_decode_key]: the concrete codec, a transcription of json.dumps on a str
        (ESCAPE_ASCII / ESCAPE_DCT of json/encoder.py) and of json.decoder.py_scanstring (strict mode) on
        byte strings.  Difference to the code, stated: the model encoder passes bytes >= 0x80 through
        unchanged (json.dumps with ensure_ascii=True writes \uXXXX of the code point instead; the model
        DECODER understands those, surrogate pairs included, and produces the UTF-8 bytes), so the
        correspondence check compares [json_encode_key name] with the text in the file for ASCII names and
        [json_decode_key text] with the name for all names.
      - [raw_key]: the writer of seeded change C14-6 (the key between two quotes, no escaping), kept as the
        refuted variant.
    No proofs in this file. *)
From Coq Require Import List Bool String Ascii Arith NArith.
From Cheetah Require Import Ops.Json.
Import ListNotations.
Local Open Scope N_scope.

(* a string given by its bytes (how the harness writes names: no quoting issues for control characters, quotes,
   non-ASCII) *)
Definition sb (l : list N) : string := string_of_list_ascii (map ascii_of_N l).

(* ---------------------------------------------------------------- any key codec *)
Section KeyCodec.
Variable encode_key : string -> string.            (* text written for a key *)
Variable decode_key : string -> option string.     (* what the JSON parser makes of that text *)

Definition write_keys {A} (d : dict A) : list (string * A) := map (fun kv => (encode_key (fst kv), snd kv)) d.
Definition read_keys {A} (l : list (string * A)) : option (dict A) :=
  mapM (fun kv => match decode_key (fst kv) with Some k => Some (k, snd kv) | None => None end) l.

Section Doc.
Variables (P J : Type) (sv : P -> J) (ld : string -> J -> option P).
(* the part of the file that carries names: the value of "root" (a VALUE: written by json.dumps as a whole, read back
   unchanged), and the two tables with their keys as written text, in file order *)
Definition text_file : Type := string * list (string * J) * list (string * list string).
Definition save_text (t : tree P) : text_file :=
  let '(E, LL) := conv P J sv t in (tname t, write_keys (pyitems E), write_keys (pyitems LL)).
Definition load_text (fuel : nat) (f : text_file) : option (tree P) :=
  let '(root, Etxt, Ltxt) := f in
  match read_keys Etxt, read_keys Ltxt with
  | Some E, Some LL => parse P J ld fuel E LL root
  | _, _ => None                                   (* the file is not valid JSON *)
  end.
End Doc.
End KeyCodec.

(* ---------------------------------------------------------------- the concrete codec *)
Definition hexdig (n : N) : ascii := ascii_of_N (if n <? 10 then 48 + n else 87 + n).       (* '{0:04x}': lower case *)
Definition quote : ascii := ascii_of_N 34.
Definition bslash : ascii := ascii_of_N 92.
Definition esc2 (c : N) : string := String bslash (String (ascii_of_N c) EmptyString).

(* json.encoder.py_encode_basestring_ascii, one character of the BMP below 0x80 *)
Definition esc_byte (a : ascii) : string :=
  let n := N_of_ascii a in
  if n =? 34 then esc2 34                                   (* backslash, quote *)
  else if n =? 92 then esc2 92                              (* \\ *)
  else if n =? 8 then esc2 98                               (* \b *)
  else if n =? 9 then esc2 116                              (* \t *)
  else if n =? 10 then esc2 110                             (* \n *)
  else if n =? 12 then esc2 102                             (* \f *)
  else if n =? 13 then esc2 114                             (* \r *)
  else if (n <? 32) || (n =? 127) then
    String bslash (String (ascii_of_N 117) (String (ascii_of_N 48) (String (ascii_of_N 48)
      (String (hexdig (n / 16)) (String (hexdig (n mod 16)) EmptyString)))))     (* \u00XX *)
  else String a EmptyString.
Fixpoint enc_body (s : string) : string :=
  match s with EmptyString => String quote EmptyString | String a r => append (esc_byte a) (enc_body r) end.
Definition json_encode_key (s : string) : string := String quote (enc_body s).

(* seeded change C14-6: f'"{key}"' *)
Definition raw_key (s : string) : string := String quote (append s (String quote EmptyString)).

Definition hexval (a : ascii) : option N :=
  let n := N_of_ascii a in
  if (48 <=? n) && (n <=? 57) then Some (n - 48)
  else if (97 <=? n) && (n <=? 102) then Some (n - 87)
  else if (65 <=? n) && (n <=? 70) then Some (n - 55)
  else None.
Definition hex4 (a b c d : ascii) : option N :=
  match hexval a, hexval b, hexval c, hexval d with
  | Some x, Some y, Some z, Some w => Some (((x * 16 + y) * 16 + z) * 16 + w)
  | _, _, _, _ => None
  end.
(* UTF-8 bytes of a code point (surrogates excluded by the caller) *)
Definition utf8 (cp : N) : string :=
  if cp <? 128 then String (ascii_of_N cp) EmptyString
  else if cp <? 2048 then String (ascii_of_N (192 + cp / 64)) (String (ascii_of_N (128 + cp mod 64)) EmptyString)
  else if cp <? 65536 then
    String (ascii_of_N (224 + cp / 4096)) (String (ascii_of_N (128 + (cp / 64) mod 64)) (String (ascii_of_N (128 + cp mod 64)) EmptyString))
  else String (ascii_of_N (240 + cp / 262144)) (String (ascii_of_N (128 + (cp / 4096) mod 64))
         (String (ascii_of_N (128 + (cp / 64) mod 64)) (String (ascii_of_N (128 + cp mod 64)) EmptyString))).
Definition opt_app (p : string) (o : option string) : option string :=
  match o with Some r => Some (append p r) | None => None end.

(* json.decoder.py_scanstring, strict: the text after the opening quote up to and including the closing quote, which
   must be the end of the token.  A raw control character, an unknown escape, a truncated \u escape, a lone surrogate
   (not representable in UTF-8 bytes) and anything after the closing quote give None. *)
Fixpoint dec_body (s : string) : option string :=
  match s with
  | EmptyString => None
  | String c r =>
    let n := N_of_ascii c in
    if n =? 34 then (match r with EmptyString => Some EmptyString | _ => None end)
    else if n =? 92 then
      match r with
      | EmptyString => None
      | String e r1 =>
        let m := N_of_ascii e in
        if m =? 117 then
          match r1 with
          | String h1 (String h2 (String h3 (String h4 r2))) =>
            match hex4 h1 h2 h3 h4 with
            | None => None
            | Some cp =>
              if (55296 <=? cp) && (cp <=? 56319) then           (* high surrogate: needs \uDC00..\uDFFF next *)
                match r2 with
                | String b1 (String u1 (String g1 (String g2 (String g3 (String g4 r3))))) =>
                  if (N_of_ascii b1 =? 92) && (N_of_ascii u1 =? 117) then
                    match hex4 g1 g2 g3 g4 with
                    | Some lo => if (56320 <=? lo) && (lo <=? 57343)
                                 then opt_app (utf8 (65536 + (cp - 55296) * 1024 + (lo - 56320))) (dec_body r3)
                                 else None
                    | None => None
                    end
                  else None
                | _ => None
                end
              else if (56320 <=? cp) && (cp <=? 57343) then None
              else opt_app (utf8 cp) (dec_body r2)
            end
          | _ => None
          end
        else
          let one (b : N) := opt_app (String (ascii_of_N b) EmptyString) (dec_body r1) in
          if m =? 34 then one 34 else if m =? 92 then one 92 else if m =? 47 then one 47
          else if m =? 98 then one 8 else if m =? 102 then one 12 else if m =? 110 then one 10
          else if m =? 114 then one 13 else if m =? 116 then one 9 else None
      end
    else if n <? 32 then None                                    (* strict: raw control character *)
    else opt_app (String c EmptyString) (dec_body r)
  end.
Definition json_decode_key (s : string) : option string :=
  match s with
  | String c r => if N_of_ascii c =? 34 then dec_body r else None
  | EmptyString => None
  end.

(* ---------------------------------------------------------------- correspondence (vm_compute) *)
Definition all_ascii (s : string) : bool := forallb (fun a => N_of_ascii a <? 128) (list_ascii_of_string s).
(* one key: the name the lattice has, and the text found in the file at that key's place *)
Definition key_ok (c : string * string) : bool :=
  let '(name, text) := c in
  (match json_decode_key text with Some s => String.eqb s name | None => false end)
  && (if all_ascii name then String.eqb (json_encode_key name) text else true).
(* one saved lattice: all its keys (top-level field names, element names, segment names), in file order *)
Definition c14_keys_check (keys : list (string * string)) : bool := forallb key_ok keys.

(* skeleton instance of the text layer (payload = class name), used by the refutation examples *)
Definition sk_save_text (enc : string -> string) := save_text enc string string (fun c => c).
Definition sk_load_text (dec : string -> option string) :=
  load_text dec string string (fun _ c => Some c).
