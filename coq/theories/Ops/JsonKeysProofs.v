(** Proofs about the key layer of the LatticeJSON file (model: Ops/JsonKeys.v).
      text_roundtrip        : for ANY key writer / reader with [decode_key (encode_key k) = Some k], saving a uniquely
                              named lattice through the written keys and loading it returns the lattice
      json_codec_roundtrip  : the transcription of json.dumps / the JSON string-literal parser satisfies that hypothesis
                              for EVERY byte string (quotes, backslashes, control characters, non-ASCII bytes, empty, long)
      raw_key_*             : the writer that puts the key between two quotes without escaping (seeded change C14-6)
                              does not: witnesses with a quote (file not valid JSON) and with a backslash (another name) *)
From Coq Require Import List Bool String Ascii Arith NArith Lia.
From Cheetah Require Import Ops.Json Ops.JsonProofs Ops.JsonKeys.
Import ListNotations.

Section Codec.
Variable encode_key : string -> string.
Variable decode_key : string -> option string.
Hypothesis decode_encode : forall k, decode_key (encode_key k) = Some k.

Lemma encode_key_injective : forall a b, encode_key a = encode_key b -> a = b.
Proof.
  intros a b H. pose proof (decode_encode a) as Ha. rewrite H, decode_encode in Ha. now inversion Ha.
Qed.

Lemma read_write_keys {A} (d : dict A) : read_keys decode_key (write_keys encode_key d) = Some d.
Proof.
  unfold read_keys, write_keys. induction d as [|[k v] r IH]; cbn [map mapM fst snd]; [reflexivity|].
  rewrite decode_encode. unfold read_keys, write_keys in IH. rewrite IH. reflexivity.
Qed.

Section Doc.
Variables (P J : Type) (sv : P -> J) (ld : string -> J -> option P).

Theorem text_roundtrip : forall n ts fuel,
  NoDup (names (Sg n ts)) ->
  (forall m p, In (m, p) (payloads (Sg n ts)) -> ld m (sv p) = Some p) ->
  depth (Sg n ts) <= fuel ->
  load_text decode_key P J ld fuel (save_text encode_key P J sv (Sg n ts)) = Some (Sg n ts).
Proof.
  intros n ts fuel Hnd Hl Hf. unfold save_text, load_text.
  set (t := Sg n ts) in *. pose proof (conv_agrees P J sv ld t Hnd) as Ha.
  destruct (conv P J sv t) as [E LL]. cbn [fst snd] in Ha. apply agrees_pyitems in Ha.
  rewrite !read_write_keys.
  pose proof (pone_ok P J sv ld _ _ t fuel Ha Hl Hf) as G. unfold pone in G. cbn [tname t] in G.
  destruct Ha as [_ HS]. rewrite (HS n (map tname ts)) in G by (cbn; auto). exact G.
Qed.
End Doc.
End Codec.

(* ---------------------------------------------------------------- the concrete codec *)
Lemma opt_app_one a o : opt_app (String a EmptyString) o = match o with Some r => Some (String a r) | None => None end.
Proof. destruct o; reflexivity. Qed.

(* one encoded character, followed by any text, decodes to that character followed by the decoding of the text *)
Lemma dec_esc_byte : forall a t,
  dec_body (append (esc_byte a) t) = match dec_body t with Some r => Some (String a r) | None => None end.
Proof.
  intros a t. rewrite <- opt_app_one.
  destruct a as [b0 b1 b2 b3 b4 b5 b6 b7];
  destruct b0, b1, b2, b3, b4, b5, b6, b7; cbn; reflexivity.
Qed.

Lemma dec_enc_body : forall s, dec_body (enc_body s) = Some s.
Proof.
  induction s as [|a r IH]; [vm_compute; reflexivity|].
  cbn [enc_body]. rewrite dec_esc_byte, IH. reflexivity.
Qed.

Theorem json_codec_roundtrip : forall s, json_decode_key (json_encode_key s) = Some s.
Proof. intros s. unfold json_encode_key, json_decode_key. change (N_of_ascii quote =? 34)%N with true. cbv iota. apply dec_enc_body. Qed.

Theorem json_encode_key_injective : forall a b, json_encode_key a = json_encode_key b -> a = b.
Proof. exact (encode_key_injective json_encode_key json_decode_key json_codec_roundtrip). Qed.

(* whole lattices through the transcribed codec *)
Theorem text_roundtrip_json : forall (P J : Type) (sv : P -> J) (ld : string -> J -> option P) n ts fuel,
  NoDup (names (Sg n ts)) ->
  (forall m p, In (m, p) (payloads (Sg n ts)) -> ld m (sv p) = Some p) ->
  depth (Sg n ts) <= fuel ->
  load_text json_decode_key P J ld fuel (save_text json_encode_key P J sv (Sg n ts)) = Some (Sg n ts).
Proof. exact (text_roundtrip json_encode_key json_decode_key json_codec_roundtrip). Qed.

(* ---------------------------------------------------------------- the unescaped writer (seeded change C14-6) *)
(* the names of the demonstration: B P M backslash t 1, and  arc "A"  *)
Definition name_backslash : string := sb [66; 80; 77; 92; 116; 49]%N.
Definition name_tab : string := sb [66; 80; 77; 9; 49]%N.
Definition name_quote : string := sb [97; 114; 99; 32; 34; 65; 34]%N.
Definition witness_names : tree string :=
  Sg "root" [Lf "D1" "Drift"; Sg name_quote [Lf "Q1" "Quadrupole"]; Lf name_backslash "BPM"].
Definition witness_backslash : tree string := Sg "root" [Lf "D1" "Drift"; Lf name_backslash "BPM"].

Lemma raw_key_refuted :
  json_decode_key (raw_key name_backslash) = Some name_tab /\ name_tab <> name_backslash /\
  json_decode_key (raw_key name_quote) = None /\
  json_decode_key (json_encode_key name_backslash) = Some name_backslash /\
  json_decode_key (json_encode_key name_quote) = Some name_quote.
Proof. vm_compute. repeat split; try reflexivity. discriminate. Qed.

Lemma raw_key_roundtrip_refuted :
  NoDup (names witness_names) /\ NoDup (names witness_backslash) /\
  (* a quote in a name: the file is not valid JSON *)
  sk_load_text json_decode_key 5 (sk_save_text raw_key witness_names) = None /\
  (* a backslash in a name: valid JSON, but the key is another name; the cell list (a value) still has the real one: KeyError *)
  (let '(_, Etxt, _) := sk_save_text raw_key witness_backslash in
   option_map (map fst) (read_keys json_decode_key Etxt)) = Some ["D1"%string; name_tab] /\
  sk_load_text json_decode_key 5 (sk_save_text raw_key witness_backslash) = None /\
  (* the escaping writer reproduces both *)
  sk_load_text json_decode_key 5 (sk_save_text json_encode_key witness_names) = Some witness_names /\
  sk_load_text json_decode_key 5 (sk_save_text json_encode_key witness_backslash) = Some witness_backslash.
Proof.
  split; [|split].
  - vm_compute. repeat constructor; cbn; intuition discriminate.
  - vm_compute. repeat constructor; cbn; intuition discriminate.
  - vm_compute. repeat split; reflexivity.
Qed.
