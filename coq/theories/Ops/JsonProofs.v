(** Proofs about the LatticeJSON model (C14).  Ported from DESIGN.md Appendix A.4 and generalised to
    string names, a payload converter [sv] / loader [ld], and the converter as coded. *)
From Coq Require Import List Bool String Arith Lia.
From Cheetah Require Import Ops.Json.
Import ListNotations.

Section J.
Variables (P J : Type).
Variable sv : P -> J.
Variable ld : string -> J -> option P.
Notation tree := (tree P).
Notation conv := (conv P J sv).
Notation conv_buggy := (conv_buggy P J sv).
Notation parse := (parse P J ld).

Fixpoint jleaves (t : tree) : list (string * J) :=
  match t with Lf n p => [(n, sv p)] | Sg _ ts => flat_map jleaves ts end.

Definition go_conv :=
  (fix go (ts : list tree) (E : dict J) (LL : dict (list string)) (cell : list string) :=
      match ts with
      | [] => (E, LL, cell)
      | t' :: r =>
        match t' with
        | Lf m p => go r ((m, sv p) :: E) LL (cell ++ [m])
        | Sg m _ => let '(E', L') := conv t' in go r (E' ++ E) (L' ++ LL) (cell ++ [m])
        end
      end).

Definition go_buggy :=
  (fix go (ts : list tree) (E : dict J) (LL : dict (list string)) (cell : list string) (cur : option string) :=
      match ts with
      | [] => Some (E, LL, cell)
      | t' :: r =>
        match t' with
        | Lf m p => go r ((m, sv p) :: E) LL (cell ++ [m]) (Some m)
        | Sg m _ =>
          match conv_buggy t' with
          | None => None
          | Some (E', L') =>
            match cur with
            | None => None
            | Some c => go r (E' ++ E) (L' ++ LL) (cell ++ [c]) cur
            end
          end
        end
      end).

Lemma conv_Sg n ts : conv (Sg n ts) = let '(E, LL, cell) := go_conv ts [] [] [] in (E, (n, cell) :: LL).
Proof. reflexivity. Qed.
Lemma conv_buggy_Sg n ts : conv_buggy (Sg n ts) =
  match go_buggy ts [] [] [] None with None => None | Some (E, LL, cell) => Some (E, (n, cell) :: LL) end.
Proof. reflexivity. Qed.

Definition conv_ok (t : tree) :=
  (forall x, In x (fst (conv t)) <-> In x (jleaves t)) /\
  (forall y, In y (snd (conv t)) <-> In y (segs t)).

Lemma go_spec : forall ts, Forall conv_ok ts ->
  forall E LL cell,
  let '(E', LL', cell') := go_conv ts E LL cell in
  (forall x, In x E' <-> In x E \/ In x (flat_map jleaves ts)) /\
  (forall y, In y LL' <-> In y LL \/ In y (flat_map (@segs P) ts)) /\
  cell' = cell ++ map tname ts.
Proof.
  induction ts as [|t r IH]; intros HF E LL cell; cbn.
  - repeat split; try tauto. now rewrite app_nil_r.
  - inversion HF as [|? ? Ht HFr]; subst. destruct t as [m p|m ts'].
    + specialize (IH HFr ((m, sv p) :: E) LL (cell ++ [m])).
      destruct (go_conv r ((m, sv p) :: E) LL (cell ++ [m])) as [[E' LL'] cell'].
      destruct IH as (H1 & H2 & H3). split; [|split].
      * intros z. rewrite H1. cbn. tauto.
      * intros y. rewrite H2. cbn. tauto.
      * rewrite H3, <- app_assoc. reflexivity.
    + destruct Ht as [HtE HtL].
      destruct (conv (Sg m ts')) as [Et Lt'] eqn:Hc. cbn [fst snd] in HtE, HtL.
      specialize (IH HFr (Et ++ E) (Lt' ++ LL) (cell ++ [m])).
      destruct (go_conv r (Et ++ E) (Lt' ++ LL) (cell ++ [m])) as [[E' LL'] cell'].
      destruct IH as (H1 & H2 & H3). split; [|split].
      * intros z. rewrite H1, !in_app_iff, HtE. tauto.
      * intros y. rewrite H2, !in_app_iff, HtL. tauto.
      * rewrite H3, <- app_assoc. reflexivity.
Qed.

Lemma conv_spec : forall t, conv_ok t.
Proof.
  induction t as [n p|n ts IH] using tree_ind'; unfold conv_ok.
  - cbn. split; intros; tauto.
  - rewrite conv_Sg.
    pose proof (go_spec ts IH [] [] []) as G.
    destruct (go_conv ts [] [] []) as [[E LL] cell]. destruct G as (H1 & H2 & H3).
    cbn [fst snd jleaves segs]. split.
    + intros z. rewrite H1. cbn. tauto.
    + intros y. cbn [In]. rewrite H2, H3. cbn. tauto.
Qed.

(* ---------------------------------------------------------------- lookup facts *)
Lemma lookup_in_fun {A} (d : dict A) k v :
  (forall v', In (k, v') d -> v' = v) -> In (k, v) d -> lookup d k = Some v.
Proof.
  induction d as [|[k' v'] r IH]; intros Hf Hin; [destruct Hin|]. cbn.
  destruct (String.eqb_spec k k') as [->|Hne].
  - f_equal. apply Hf. now left.
  - apply IH; [intros v'' H; apply Hf; now right|].
    destruct Hin as [Heq|Hin]; [inversion Heq; congruence|exact Hin].
Qed.
Lemma lookup_none_fun {A} (d : dict A) k :
  (forall v, ~ In (k, v) d) -> lookup d k = None.
Proof.
  induction d as [|[k' v'] r IH]; intros Hn; [reflexivity|]. cbn.
  destruct (String.eqb_spec k k') as [->|Hne]; [exfalso; apply (Hn v'); now left|].
  apply IH. intros v H. apply (Hn v). now right.
Qed.
Lemma nodup_fun {A} (d : dict A) k v v' :
  NoDup (map fst d) -> In (k, v) d -> In (k, v') d -> v' = v.
Proof.
  induction d as [|[k0 v0] r IH]; intros Hnd H1 H2; [destruct H1|].
  cbn in Hnd. inversion Hnd as [|? ? Hni Hnd']; subst.
  destruct H1 as [E1|H1], H2 as [E2|H2].
  - congruence.
  - inversion E1; subst. exfalso. apply Hni. change k with (fst (k, v')). now apply in_map.
  - inversion E2; subst. exfalso. apply Hni. change k with (fst (k, v)). now apply in_map.
  - now apply IH.
Qed.

(* ---------------------------------------------------------------- parsing a dictionary that agrees with a tree *)
Section Parse.
Variables (E : dict J) (LL : dict (list string)).
Definition agrees (t : tree) :=
  (forall n j, In (n, j) (jleaves t) -> lookup E n = Some j /\ lookup LL n = None) /\
  (forall n c, In (n, c) (segs t) -> lookup LL n = Some c).
Definition loadable (t : tree) := forall n p, In (n, p) (payloads t) -> ld n (sv p) = Some p.
Definition pone (f : nat) (m : string) : option tree :=
  match lookup LL m with
  | Some _ => parse f E LL m
  | None => match lookup E m with Some j => option_map (Lf m) (ld m j) | None => None end
  end.

Lemma agrees_child n ts t : agrees (Sg n ts) -> In t ts -> agrees t.
Proof.
  intros [HL HS] Hin. split.
  - intros m p Hm. apply HL. cbn. apply in_flat_map. eauto.
  - intros m c Hm. apply HS. cbn. right. apply in_flat_map. eauto.
Qed.
Lemma loadable_child n ts t : loadable (Sg n ts) -> In t ts -> loadable t.
Proof. intros H Hin m p Hm. apply H. cbn. apply in_flat_map. eauto. Qed.

Lemma depth_child n ts (t : tree) : In t ts -> depth t < depth (Sg n ts).
Proof.
  intros Hin. cbn. induction ts as [|t' r IH]; [destruct Hin|].
  cbn. destruct Hin as [->|Hin]; [lia|]. specialize (IH Hin). lia.
Qed.

Lemma pone_ok : forall t f, agrees t -> loadable t -> depth t <= f -> pone f (tname t) = Some t.
Proof.
  induction t as [n p|n ts IH] using tree_ind'; intros f Ha Hl Hd; unfold pone.
  - destruct Ha as [HL _]. destruct (HL n (sv p) (or_introl eq_refl)) as [H1 H2].
    cbn. rewrite H2, H1. rewrite (Hl n p (or_introl eq_refl)). reflexivity.
  - pose proof Ha as [_ HS]. cbn [tname].
    rewrite (HS n (map tname ts)) by (cbn; auto).
    destruct f as [|f]; [cbn in Hd; lia|]. cbn [Json.parse].
    rewrite (HS n (map tname ts)) by (cbn; auto).
    assert (G : mapM (pone f) (map tname ts) = Some ts).
    { assert (Hc : forall t, In t ts -> agrees t /\ loadable t /\ depth t <= f).
      { intros t Hin. split; [eapply agrees_child; eauto|]. split; [eapply loadable_child; eauto|].
        pose proof (depth_child n ts t Hin). lia. }
      clear Ha HS Hd Hl. induction ts as [|t r IHr]; [reflexivity|].
      inversion IH as [|? ? Ht Hr]; subst. cbn [map mapM].
      destruct (Hc t (or_introl eq_refl)) as (Hat & Hlt & Hdt).
      rewrite (Ht f Hat Hlt Hdt). rewrite IHr; [reflexivity|exact Hr|].
      intros t' Hin. apply Hc. now right. }
    unfold pone in G. rewrite G. reflexivity.
Qed.

(* whatever parse returns for a name carries that name; a parsed segment's children carry the names of its cell *)
Lemma pone_name : forall f m t, pone f m = Some t -> tname t = m.
Proof.
  intros f m t. unfold pone. destruct (lookup LL m).
  - destruct f as [|f]; cbn; [discriminate|]. destruct (lookup LL m); [|discriminate].
    destruct (mapM _ _); cbn; [|discriminate]. intros H; inversion H; reflexivity.
  - destruct (lookup E m); [|discriminate]. destruct (ld m j); cbn; [|discriminate].
    intros H; inversion H; reflexivity.
Qed.
Lemma mapM_pone_names : forall f cell ts, mapM (pone f) cell = Some ts -> map tname ts = cell.
Proof.
  induction cell as [|m r IH]; cbn; intros ts H.
  - inversion H. reflexivity.
  - destruct (pone f m) as [t|] eqn:Hp; [|discriminate]. destruct (mapM (pone f) r) as [us|]; [|discriminate].
    inversion H; subst. cbn. rewrite (pone_name _ _ _ Hp). f_equal. now apply IH.
Qed.
Lemma parse_cell : forall f n t, parse f E LL n = Some t ->
  exists cell ts, lookup LL n = Some cell /\ t = Sg n ts /\ map tname ts = cell.
Proof.
  intros [|f] n t; cbn; [discriminate|]. destruct (lookup LL n) as [cell|]; [|discriminate].
  intros H. destruct (mapM _ cell) as [ts|] eqn:Hm; cbn in H; [|discriminate].
  inversion H; subst. exists cell, ts. repeat split. exact (mapM_pone_names f cell ts Hm).
Qed.
End Parse.

(* ---------------------------------------------------------------- unique names => well-formed dictionaries *)
Lemma names_keys (t : tree) :
  (forall k, In k (map fst (jleaves t)) -> In k (names t)) /\
  (forall k, In k (map fst (segs t)) -> In k (names t)).
Proof.
  induction t as [n p|n ts IH] using tree_ind'; cbn; [split; tauto|].
  split; intros k Hk.
  - right. rewrite flat_map_concat_map, concat_map, map_map in Hk.
    apply in_concat in Hk as (l & Hl & Hkl). apply in_map_iff in Hl as (t & <- & Ht).
    apply in_flat_map. exists t. split; [exact Ht|].
    rewrite Forall_forall in IH. now apply (proj1 (IH t Ht)).
  - destruct Hk as [->|Hk]; [now left|]. right.
    rewrite flat_map_concat_map, concat_map, map_map in Hk.
    apply in_concat in Hk as (l & Hl & Hkl). apply in_map_iff in Hl as (t & <- & Ht).
    apply in_flat_map. exists t. split; [exact Ht|].
    rewrite Forall_forall in IH. now apply (proj2 (IH t Ht)).
Qed.

Lemma NoDup_app_intro {A} (l1 l2 : list A) : NoDup l1 -> NoDup l2 ->
  (forall x, In x l1 -> In x l2 -> False) -> NoDup (l1 ++ l2).
Proof.
  induction l1 as [|a l IH]; cbn; intros H1 H2 H3; [exact H2|].
  inversion H1; subst. constructor.
  - rewrite in_app_iff. intros [?|?]; [tauto| eapply H3; eauto].
  - apply IH; auto. intros x Hx. apply H3. now right.
Qed.
Lemma NoDup_app_inv {A} (l1 l2 : list A) : NoDup (l1 ++ l2) ->
  NoDup l1 /\ NoDup l2 /\ (forall x, In x l1 -> ~ In x l2).
Proof.
  induction l1 as [|a l IH]; cbn; intros H.
  - repeat split; [constructor|exact H|tauto].
  - inversion H as [|? ? Hni Hnd]; subst. destruct (IH Hnd) as (H1 & H2 & H3).
    repeat split; [constructor; [rewrite in_app_iff in Hni; tauto|exact H1] | exact H2 |].
    intros x [->|Hx]; [rewrite in_app_iff in Hni; tauto| now apply H3].
Qed.

Lemma keys_nodup (t : tree) : NoDup (names t) ->
  NoDup (map fst (jleaves t)) /\ NoDup (map fst (segs t)) /\
  (forall k, In k (map fst (jleaves t)) -> ~ In k (map fst (segs t))).
Proof.
  induction t as [n p|n ts IH] using tree_ind'; cbn; intros Hnd.
  - repeat split; [constructor; [tauto|constructor] | constructor | tauto].
  - inversion Hnd as [|? ? Hn Hnd']; subst. clear Hnd.
    assert (G : NoDup (map fst (flat_map jleaves ts)) /\ NoDup (map fst (flat_map (@segs P) ts)) /\
      (forall k, In k (map fst (flat_map jleaves ts)) -> ~ In k (map fst (flat_map (@segs P) ts))) /\
      (forall k, In k (map fst (flat_map jleaves ts)) \/ In k (map fst (flat_map (@segs P) ts)) -> In k (flat_map (@names P) ts))).
    { clear Hn. induction ts as [|t r IHr]; cbn in *.
      - repeat split; try constructor; tauto.
      - inversion IH as [|? ? Ht Hr]; subst.
        apply NoDup_app_inv in Hnd' as (Hd1 & Hd2 & Hd3).
        destruct (Ht Hd1) as (A1 & A2 & A3). destruct (IHr Hr Hd2) as (B1 & B2 & B3 & B4).
        destruct (names_keys t) as [K1 K2].
        rewrite !map_app. repeat split.
        + apply NoDup_app_intro; auto. intros k Hk1 Hk2. apply (Hd3 k); [now apply K1| apply B4; now left].
        + apply NoDup_app_intro; auto. intros k Hk1 Hk2. apply (Hd3 k); [now apply K2| apply B4; now right].
        + intros k Hk Hk'. rewrite in_app_iff in Hk, Hk'.
          destruct Hk as [Hk|Hk], Hk' as [Hk'|Hk'].
          * now apply (A3 k).
          * apply (Hd3 k); [now apply K1| apply B4; now right].
          * apply (Hd3 k); [now apply K2| apply B4; now left].
          * now apply (B3 k).
        + intros k Hk. rewrite !in_app_iff in *. destruct Hk as [[Hk|Hk]|[Hk|Hk]];
            [left; now apply K1 | right; apply B4; now left | left; now apply K2 | right; apply B4; now right]. }
    destruct G as (G1 & G2 & G3 & G4). repeat split; [exact G1 | | ].
    + constructor; [|exact G2]. intros Hin. apply Hn, G4. now right.
    + intros k Hk [<-|Hk']; [apply Hn, G4; now left | now apply (G3 k)].
Qed.

Lemma conv_agrees (t : tree) : NoDup (names t) -> agrees (fst (conv t)) (snd (conv t)) t.
Proof.
  intros Hnd. destruct (conv_spec t) as [HE HL].
  destruct (keys_nodup t Hnd) as (K1 & K2 & K3). split.
  - intros m j Hm. split.
    + apply lookup_in_fun; [|now apply HE].
      intros j' Hj'. apply HE in Hj'. eapply nodup_fun; eauto.
    + apply lookup_none_fun. intros c Hc'. apply HL in Hc'.
      apply (K3 m); [change m with (fst (m, j)); now apply in_map
                    | change m with (fst (m, c)); now apply in_map].
  - intros m c Hm. apply lookup_in_fun; [|now apply HL].
    intros c' Hc'. apply HL in Hc'. eapply nodup_fun; eauto.
Qed.

(* ================================================================ the round trip, repaired converter *)
Theorem roundtrip : forall n ts, NoDup (names (Sg n ts)) -> loadable (Sg n ts) ->
  forall fuel, depth (Sg n ts) <= fuel ->
  let '(E, LL) := conv (Sg n ts) in parse fuel E LL n = Some (Sg n ts).
Proof.
  intros n ts Hnd Hl fuel Hf. set (t := Sg n ts) in *.
  pose proof (conv_agrees t Hnd) as Ha.
  destruct (conv t) as [E LL] eqn:Hc. cbn [fst snd] in Ha.
  pose proof (pone_ok E LL t fuel Ha Hl Hf) as G.
  unfold pone in G. cbn [tname t] in G.
  destruct Ha as [_ HS]. rewrite (HS n (map tname ts)) in G by (cbn; auto). exact G.
Qed.

(* ================================================================ the converter as coded *)
(* on a flat segment (no sub-segment child) the pinned code equals the repaired one *)
Lemma go_buggy_flat : forall ts E LL cell cur, forallb is_leaf ts = true ->
  go_buggy ts E LL cell cur = Some (go_conv ts E LL cell).
Proof.
  induction ts as [|t r IH]; intros E LL cell cur Hf; [reflexivity|].
  cbn in Hf. apply andb_prop in Hf as [Ht Hr]. destruct t as [m p|m ts']; [|discriminate].
  cbn. now apply IH.
Qed.
Theorem conv_buggy_flat : forall n ts, flat (Sg n ts) = true -> conv_buggy (Sg n ts) = Some (conv (Sg n ts)).
Proof.
  intros n ts Hf. rewrite conv_buggy_Sg, conv_Sg. cbn in Hf.
  rewrite (go_buggy_flat ts [] [] [] None Hf).
  destruct (go_conv ts [] [] []) as [[E LL] cell]. reflexivity.
Qed.

Theorem roundtrip_faithful_flat : forall n ts, flat (Sg n ts) = true ->
  NoDup (names (Sg n ts)) -> loadable (Sg n ts) ->
  forall fuel, 1 <= fuel ->
  exists E LL, conv_buggy (Sg n ts) = Some (E, LL) /\ parse fuel E LL n = Some (Sg n ts).
Proof.
  intros n ts Hf Hnd Hl fuel Hfu. rewrite (conv_buggy_flat n ts Hf).
  assert (Hd : depth (Sg n ts) <= fuel).
  { cbn. cbn in Hf. clear - Hf Hfu. enough (fold_right (fun t d => Nat.max (depth t) d) 0 ts = 0) by lia.
    induction ts as [|t r IH]; [reflexivity|]. cbn in Hf. apply andb_prop in Hf as [Ht Hr].
    destruct t; [|discriminate]. cbn. now apply IH. }
  pose proof (roundtrip n ts Hnd Hl fuel Hd) as G.
  destruct (conv (Sg n ts)) as [E LL]. eauto.
Qed.

(* the cell list the pinned code writes: a sub-segment is represented by the previous leaf of the same segment *)
Fixpoint stale_cell (ts : list tree) (cur : option string) : option (list string) :=
  match ts with
  | [] => Some []
  | Lf m _ :: r => option_map (cons m) (stale_cell r (Some m))
  | Sg _ _ :: r => match cur with None => None | Some c => option_map (cons c) (stale_cell r cur) end
  end.

Lemma go_buggy_cell : forall ts E LL cell cur E' LL' cell',
  go_buggy ts E LL cell cur = Some (E', LL', cell') ->
  exists s, stale_cell ts cur = Some s /\ cell' = cell ++ s.
Proof.
  induction ts as [|t r IH]; intros E LL cell cur E' LL' cell' H.
  - cbn in H. inversion H; subst. exists []. split; [reflexivity|now rewrite app_nil_r].
  - destruct t as [m p|m ts'].
    + cbn in H. apply IH in H as (s & Hs & ->). exists (m :: s). cbn. rewrite Hs. split; [reflexivity|].
      now rewrite <- app_assoc.
    + change (go_buggy (Sg m ts' :: r) E LL cell cur) with
        (match conv_buggy (Sg m ts') with
         | None => None
         | Some (E0, L0) => match cur with None => None | Some c => go_buggy r (E0 ++ E) (L0 ++ LL) (cell ++ [c]) cur end
         end) in H.
      destruct (conv_buggy (Sg m ts')) as [[E0 L0]|]; [|discriminate].
      destruct cur as [c|]; [|discriminate].
      apply IH in H as (s & Hs & ->). exists (c :: s). cbn. rewrite Hs. split; [reflexivity|].
      now rewrite <- app_assoc.
Qed.

(* a stale cell never names a sub-segment child when all names are distinct *)
Lemma stale_cell_in : forall ts cur s x, stale_cell ts cur = Some s -> In x s ->
  cur = Some x \/ exists p, In (Lf x p) ts.
Proof.
  induction ts as [|t r IH]; intros cur s x Hs Hx.
  - cbn in Hs. inversion Hs; subst. destruct Hx.
  - destruct t as [m p|m ts'].
    + cbn in Hs. destruct (stale_cell r (Some m)) as [s'|] eqn:Hr; [|discriminate]. inversion Hs; subst.
      destruct Hx as [<-|Hx]; [right; exists p; now left|].
      destruct (IH _ _ _ Hr Hx) as [Hc|[q Hq]]; [inversion Hc; subst; right; exists p; now left|right; exists q; now right].
    + cbn in Hs. destruct cur as [c|]; [|discriminate].
      destruct (stale_cell r (Some c)) as [s'|] eqn:Hr; [|discriminate]. inversion Hs; subst.
      destruct Hx as [<-|Hx]; [now left|].
      destruct (IH _ _ _ Hr Hx) as [Hc|[q Hq]]; [now left|right; exists q; now right].
Qed.

Lemma in_names_child (ts : list tree) t x : In t ts -> In x (names t) -> In x (flat_map (@names P) ts).
Proof. intros. apply in_flat_map. eauto. Qed.

(* EVERY lattice whose root has a sub-segment child is mis-saved by the pinned code: either saving raises,
   or the file's root cell differs from the children's names, so no loader can give the lattice back *)
Theorem conv_buggy_nested_wrong : forall n ts m us, In (Sg m us) ts -> NoDup (names (Sg n ts)) ->
  forall E LL, conv_buggy (Sg n ts) = Some (E, LL) ->
  exists cell, In (n, cell) LL /\ cell <> map tname ts /\ ~ In m cell.
Proof.
  intros n ts m us Hin Hnd E LL H. rewrite conv_buggy_Sg in H.
  destruct (go_buggy ts [] [] [] None) as [[[E0 L0] cell]|] eqn:Hg; [|discriminate].
  inversion H; subst. exists cell. split; [now left|].
  apply go_buggy_cell in Hg as (s & Hs & ->). cbn [app].
  assert (Hm : ~ In m s).
  { intros Hms. destruct (stale_cell_in _ _ _ _ Hs Hms) as [Hc|[p Hp]]; [discriminate|].
    cbn in Hnd. inversion Hnd as [|? ? _ Hnd']; subst. clear - Hin Hp Hnd'.
    induction ts as [|t r IH]; [destruct Hin|]. cbn in Hnd'. apply NoDup_app_inv in Hnd' as (H1 & H2 & H3).
    destruct Hin as [Ei|Hin], Hp as [Ep|Hp].
    - congruence.
    - subst t. apply (H3 m); [cbn; now left|]. eapply in_names_child; [exact Hp|cbn; now left].
    - subst t. apply (H3 m); [cbn; now left|]. eapply in_names_child; [exact Hin|cbn; now left].
    - now apply IH. }
  split; [|exact Hm]. intros Heq. apply Hm. rewrite Heq. apply in_map_iff. exists (Sg m us). split; [reflexivity|exact Hin].
Qed.

(* ... hence loading what the pinned code wrote never returns the lattice (unique keys in the file) *)
Theorem roundtrip_faithful_nested_fails : forall n ts m us, In (Sg m us) ts -> NoDup (names (Sg n ts)) ->
  forall E LL, conv_buggy (Sg n ts) = Some (E, LL) -> NoDup (map fst LL) ->
  forall fuel, parse fuel E LL n <> Some (Sg n ts).
Proof.
  intros n ts m us Hin Hnd E LL H Hk fuel Hp.
  destruct (conv_buggy_nested_wrong n ts m us Hin Hnd E LL H) as (cell & Hc & Hne & _).
  apply parse_cell in Hp as (cell' & ts' & Hl & Ht & Hn). inversion Ht; subst ts'.
  assert (lookup LL n = Some cell) by (apply lookup_in_fun; [intros v' Hv'; eapply nodup_fun; eauto|exact Hc]).
  congruence.
Qed.

(* ---------------------------------------------------------------- saving is pure; documented layout *)
Theorem convert_pure : forall cv (t : tree) title info, fst (save_with P J cv t title info) = t.
Proof. reflexivity. Qed.

Theorem top_level_layout : forall (t : tree) title info doc,
  snd (save P J sv t title info) = Some doc ->
  map fst doc = ["version"; "title"; "info"; "root"; "elements"; "lattices"]%string /\
  lookup doc "root" = Some (JStr J (tname t)) /\
  lookup doc "version" = Some (JStr J "cheetah-0.7") /\
  lookup doc "title" = Some (JStr J (match title with Some s => s | None => tname t end)).
Proof.
  intros t title info doc. unfold save, save_with. cbn [snd].
  destruct (conv_buggy t) as [[E LL]|]; [|discriminate].
  intros H; inversion H; subst. repeat split.
Qed.

(* Python's ordered view of a dictionary answers lookups like the assignment list *)
Lemma lookup_dset {A} (d : dict A) k' v k :
  lookup (dset d k' v) k = if String.eqb k k' then Some v else lookup d k.
Proof.
  induction d as [|[k0 v0] r IH]; cbn.
  - reflexivity.
  - destruct (String.eqb_spec k' k0) as [->|Hne]; cbn.
    + destruct (String.eqb k k0); reflexivity.
    + rewrite IH. destruct (String.eqb_spec k k0) as [->|Hne2]; [|reflexivity].
      destruct (String.eqb_spec k0 k'); [congruence|reflexivity].
Qed.
Lemma lookup_pyitems {A} (d : dict A) k : lookup (pyitems d) k = lookup d k.
Proof.
  induction d as [|[k0 v0] r IH]; [reflexivity|].
  change (pyitems ((k0, v0) :: r)) with (dset (pyitems r) k0 v0). rewrite lookup_dset, IH. reflexivity.
Qed.
Lemma agrees_pyitems E LL (t : tree) : agrees E LL t -> agrees (pyitems E) (pyitems LL) t.
Proof.
  intros [H1 H2]. split.
  - intros n j Hn. rewrite !lookup_pyitems. now apply H1.
  - intros n c Hn. rewrite lookup_pyitems. now apply H2.
Qed.

(* save to a document and load it: repaired converter on every lattice, pinned code on flat ones *)
Theorem save_load_repaired : forall n ts title info fuel, NoDup (names (Sg n ts)) -> loadable (Sg n ts) ->
  depth (Sg n ts) <= fuel ->
  match snd (save_repaired P J sv (Sg n ts) title info) with
  | Some doc => load P J ld fuel doc = Some (Sg n ts)
  | None => False
  end.
Proof.
  intros n ts title info fuel Hnd Hl Hf. unfold save_repaired, save_with. cbn [snd].
  set (t := Sg n ts) in *. pose proof (conv_agrees t Hnd) as Ha.
  destruct (conv t) as [E LL]. cbn [fst snd] in Ha. apply agrees_pyitems in Ha.
  unfold load, document. cbn [lookup String.eqb Ascii.eqb Bool.eqb tname t].
  pose proof (pone_ok _ _ t fuel Ha Hl Hf) as G. unfold pone in G. cbn [tname t] in G.
  destruct Ha as [_ HS]. rewrite (HS n (map tname ts)) in G by (cbn; auto). exact G.
Qed.
Theorem save_load_flat : forall n ts title info fuel, flat (Sg n ts) = true ->
  NoDup (names (Sg n ts)) -> loadable (Sg n ts) -> 1 <= fuel ->
  match snd (save P J sv (Sg n ts) title info) with
  | Some doc => load P J ld fuel doc = Some (Sg n ts)
  | None => False
  end.
Proof.
  intros n ts title info fuel Hf Hnd Hl Hfu.
  assert (Hd : depth (Sg n ts) <= fuel).
  { cbn. cbn in Hf. clear - Hf Hfu. enough (fold_right (fun t d => Nat.max (depth t) d) 0 ts = 0) by lia.
    induction ts as [|t r IH]; [reflexivity|]. cbn in Hf. apply andb_prop in Hf as [Ht Hr].
    destruct t; [|discriminate]. cbn. now apply IH. }
  pose proof (save_load_repaired n ts title info fuel Hnd Hl Hd) as G.
  unfold save, save_repaired, save_with in *. cbn [snd] in *. rewrite (conv_buggy_flat n ts Hf). exact G.
Qed.
End J.

(* ================================================================ refutation on the code as it is *)
Open Scope string_scope.
(* measured on the real code: Segment([d2, Segment([d1], "inner"), d3], "outer") is written as
   "outer": ["d2","d2","d3"] and loads as [d2, d2, d3] *)
Definition witness_later : tree string := Sg "outer" [Lf "d2" "Drift"; Sg "inner" [Lf "d1" "Drift"]; Lf "d3" "Drift"].
Definition witness_first : tree string := Sg "outer" [Sg "inner" [Lf "d1" "Drift"]; Lf "d2" "Drift"].

Lemma roundtrip_refuted_later :
  exists E LL, sk_conv_buggy witness_later = Some (E, LL) /\
    lookup LL "outer" = Some ["d2"; "d2"; "d3"] /\
    sk_parse [] 5 E LL "outer" = Some (Sg "outer" [Lf "d2" "Drift"; Lf "d2" "Drift"; Lf "d3" "Drift"]) /\
    sk_parse [] 5 E LL "outer" <> Some witness_later /\
    NoDup (names witness_later).
Proof.
  eexists. eexists. split; [vm_compute; reflexivity|]. repeat split; try (vm_compute; reflexivity).
  - vm_compute. discriminate.
  - vm_compute. repeat constructor; cbn; intuition discriminate.
Qed.
Lemma roundtrip_refuted_first : sk_conv_buggy witness_first = None /\ NoDup (names witness_first).
Proof. split; [vm_compute; reflexivity|]. vm_compute. repeat constructor; cbn; intuition discriminate. Qed.
(* the repaired converter is right on both *)
Lemma roundtrip_repaired_witness :
  (let '(E, LL) := sk_conv witness_later in sk_parse [] 5 E LL "outer") = Some witness_later /\
  (let '(E, LL) := sk_conv witness_first in sk_parse [] 5 E LL "outer") = Some witness_first.
Proof. split; vm_compute; reflexivity. Qed.
