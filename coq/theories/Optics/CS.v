(** Facts about the cosine-like / sine-like pair [Cf k L], [Sf k L] of Maps.v, uniformly in the
    sign of k: branch lemmas, values at L = 0, C^2 + k S^2 = 1, C' = -k S, S' = C. *)
From Coq Require Import Reals Lra Psatz.
From Coquelicot Require Import Coquelicot.
From Cheetah Require Import Base.Mat Base.RealAux Optics.Maps.
Open Scope R_scope.

Lemma Cf_pos k L : 0 < k -> Cf k L = cos (sqrt k * L).
Proof. intros H. unfold Cf. destruct (Rlt_dec 0 k); [reflexivity|contradiction]. Qed.
Lemma Sf_pos k L : 0 < k -> Sf k L = sin (sqrt k * L) / sqrt k.
Proof. intros H. unfold Sf. destruct (Rlt_dec 0 k); [reflexivity|contradiction]. Qed.
Lemma Cf_neg k L : k < 0 -> Cf k L = cosh (sqrt (- k) * L).
Proof. intros H. unfold Cf. destruct (Rlt_dec 0 k); [lra|]. destruct (Rlt_dec k 0); [reflexivity|contradiction]. Qed.
Lemma Sf_neg k L : k < 0 -> Sf k L = sinh (sqrt (- k) * L) / sqrt (- k).
Proof. intros H. unfold Sf. destruct (Rlt_dec 0 k); [lra|]. destruct (Rlt_dec k 0); [reflexivity|contradiction]. Qed.
Lemma Cf_zero L : Cf 0 L = 1.
Proof. unfold Cf. destruct (Rlt_dec 0 0); [lra|]. destruct (Rlt_dec 0 0); [lra|reflexivity]. Qed.
Lemma Sf_zero L : Sf 0 L = L.
Proof. unfold Sf. destruct (Rlt_dec 0 0); [lra|]. destruct (Rlt_dec 0 0); [lra|reflexivity]. Qed.

Lemma Cf_0 k : Cf k 0 = 1.
Proof.
  unfold Cf. destruct (Rlt_dec 0 k); [rewrite Rmult_0_r; apply cos_0|].
  destruct (Rlt_dec k 0); [rewrite Rmult_0_r; apply cosh_0|reflexivity].
Qed.
Lemma Sf_0 k : Sf k 0 = 0.
Proof.
  unfold Sf. destruct (Rlt_dec 0 k); [rewrite Rmult_0_r, sin_0; unfold Rdiv; ring|].
  destruct (Rlt_dec k 0); [rewrite Rmult_0_r, sinh_0; unfold Rdiv; ring|reflexivity].
Qed.

Lemma Cf_Sf_id k L : Cf k L * Cf k L + k * Sf k L * Sf k L = 1.
Proof.
  unfold Cf, Sf. destruct (Rlt_dec 0 k); [apply cs_id_pos; assumption|].
  destruct (Rlt_dec k 0); [apply cs_id_neg; assumption|].
  assert (k = 0) by lra. subst. ring.
Qed.

Lemma is_derive_Cf k L : is_derive (Cf k) L (- k * Sf k L).
Proof.
  unfold Cf, Sf. destruct (Rlt_dec 0 k); [apply d_cos_sqrt; assumption|].
  destruct (Rlt_dec k 0); [apply d_cosh_sqrt; assumption|].
  assert (k = 0) by lra. subst. replace (- 0 * L) with 0 by ring. apply d_const_one.
Qed.
Lemma is_derive_Sf k L : is_derive (Sf k) L (Cf k L).
Proof.
  unfold Cf, Sf. destruct (Rlt_dec 0 k); [apply d_sin_sqrt; assumption|].
  destruct (Rlt_dec k 0); [apply d_sinh_sqrt; assumption|]. apply d_id.
Qed.

(** guards *)
Lemma k1_guard_nz k1 : k1 <> 0 -> k1_guard k1 = k1.
Proof. intros H. unfold k1_guard. destruct (Req_EM_T k1 0); [contradiction|reflexivity]. Qed.
Lemma k1_guard_0 : k1_guard 0 = 1e-12.
Proof. unfold k1_guard. destruct (Req_EM_T 0 0); [reflexivity|contradiction]. Qed.
Lemma k1_guard_neq0 k1 : k1_guard k1 <> 0.
Proof. unfold k1_guard. destruct (Req_EM_T k1 0); [lra|assumption]. Qed.
