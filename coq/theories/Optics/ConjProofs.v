(** Conjugation of flows (tilt, misalignment), and the flow theorems with the generator spelled S6 . Hess(H). *)
From Coq Require Import Reals Lra Psatz.
From Coquelicot Require Import Coquelicot.
From Cheetah Require Import Base.Mat Base.RealAux Optics.Maps Optics.CS Optics.Flow Optics.FlowProofs Optics.SolProofs.
Open Scope R_scope.

Lemma Dfun (f : R -> R) (s d : R) : is_derive f s d -> Derive (fun x : R => f x) s = d.
Proof. intros H. apply is_derive_unique. exact H. Qed.

Lemma lin7 (f0 f1 f2 f3 f4 f5 f6 : R -> R) (d0 d1 d2 d3 d4 d5 d6 a0 a1 a2 a3 a4 a5 a6 s : R) :
  is_derive f0 s d0 -> is_derive f1 s d1 -> is_derive f2 s d2 -> is_derive f3 s d3 ->
  is_derive f4 s d4 -> is_derive f5 s d5 -> is_derive f6 s d6 ->
  is_derive (fun t => a0 * f0 t + a1 * f1 t + a2 * f2 t + a3 * f3 t + a4 * f4 t + a5 * f5 t + a6 * f6 t) s
            (a0 * d0 + a1 * d1 + a2 * d2 + a3 * d3 + a4 * d4 + a5 * d5 + a6 * d6).
Proof.
  intros H0 H1 H2 H3 H4 H5 H6. auto_derive.
  - repeat split; try exact I; eexists; eassumption.
  - rewrite (Dfun f0 s d0 H0), (Dfun f1 s d1 H1), (Dfun f2 s d2 H2), (Dfun f3 s d3 H3), (Dfun f4 s d4 H4),
      (Dfun f5 s d5 H5), (Dfun f6 s d6 H6). ring.
Qed.
Lemma lin7r (f0 f1 f2 f3 f4 f5 f6 : R -> R) (d0 d1 d2 d3 d4 d5 d6 a0 a1 a2 a3 a4 a5 a6 s : R) :
  is_derive f0 s d0 -> is_derive f1 s d1 -> is_derive f2 s d2 -> is_derive f3 s d3 ->
  is_derive f4 s d4 -> is_derive f5 s d5 -> is_derive f6 s d6 ->
  is_derive (fun t => f0 t * a0 + f1 t * a1 + f2 t * a2 + f3 t * a3 + f4 t * a4 + f5 t * a5 + f6 t * a6) s
            (d0 * a0 + d1 * a1 + d2 * a2 + d3 * a3 + d4 * a4 + d5 * a5 + d6 * a6).
Proof.
  intros H0 H1 H2 H3 H4 H5 H6. auto_derive.
  - repeat split; try exact I; eexists; eassumption.
  - rewrite (Dfun f0 s d0 H0), (Dfun f1 s d1 H1), (Dfun f2 s d2 H2), (Dfun f3 s d3 H3), (Dfun f4 s d4 H4),
      (Dfun f5 s d5 H5), (Dfun f6 s d6 H6). ring.
Qed.

Lemma m7_derive_mmul_l Q M s D : m7_derive M s D -> m7_derive (fun t => rmmul Q (M t)) s (rmmul Q D).
Proof.
  intros H i j Hi Hj. split49 i j Hi Hj; mcbv;
  (eapply lin7; [ first [exact (H 0%nat 0%nat ltac:(lia) ltac:(lia)) | exact (H 0%nat 1%nat ltac:(lia) ltac:(lia)) | exact (H 0%nat 2%nat ltac:(lia) ltac:(lia)) | exact (H 0%nat 3%nat ltac:(lia) ltac:(lia)) | exact (H 0%nat 4%nat ltac:(lia) ltac:(lia)) | exact (H 0%nat 5%nat ltac:(lia) ltac:(lia)) | exact (H 0%nat 6%nat ltac:(lia) ltac:(lia))]
   | first [exact (H 1%nat 0%nat ltac:(lia) ltac:(lia)) | exact (H 1%nat 1%nat ltac:(lia) ltac:(lia)) | exact (H 1%nat 2%nat ltac:(lia) ltac:(lia)) | exact (H 1%nat 3%nat ltac:(lia) ltac:(lia)) | exact (H 1%nat 4%nat ltac:(lia) ltac:(lia)) | exact (H 1%nat 5%nat ltac:(lia) ltac:(lia)) | exact (H 1%nat 6%nat ltac:(lia) ltac:(lia))]
   | first [exact (H 2%nat 0%nat ltac:(lia) ltac:(lia)) | exact (H 2%nat 1%nat ltac:(lia) ltac:(lia)) | exact (H 2%nat 2%nat ltac:(lia) ltac:(lia)) | exact (H 2%nat 3%nat ltac:(lia) ltac:(lia)) | exact (H 2%nat 4%nat ltac:(lia) ltac:(lia)) | exact (H 2%nat 5%nat ltac:(lia) ltac:(lia)) | exact (H 2%nat 6%nat ltac:(lia) ltac:(lia))]
   | first [exact (H 3%nat 0%nat ltac:(lia) ltac:(lia)) | exact (H 3%nat 1%nat ltac:(lia) ltac:(lia)) | exact (H 3%nat 2%nat ltac:(lia) ltac:(lia)) | exact (H 3%nat 3%nat ltac:(lia) ltac:(lia)) | exact (H 3%nat 4%nat ltac:(lia) ltac:(lia)) | exact (H 3%nat 5%nat ltac:(lia) ltac:(lia)) | exact (H 3%nat 6%nat ltac:(lia) ltac:(lia))]
   | first [exact (H 4%nat 0%nat ltac:(lia) ltac:(lia)) | exact (H 4%nat 1%nat ltac:(lia) ltac:(lia)) | exact (H 4%nat 2%nat ltac:(lia) ltac:(lia)) | exact (H 4%nat 3%nat ltac:(lia) ltac:(lia)) | exact (H 4%nat 4%nat ltac:(lia) ltac:(lia)) | exact (H 4%nat 5%nat ltac:(lia) ltac:(lia)) | exact (H 4%nat 6%nat ltac:(lia) ltac:(lia))]
   | first [exact (H 5%nat 0%nat ltac:(lia) ltac:(lia)) | exact (H 5%nat 1%nat ltac:(lia) ltac:(lia)) | exact (H 5%nat 2%nat ltac:(lia) ltac:(lia)) | exact (H 5%nat 3%nat ltac:(lia) ltac:(lia)) | exact (H 5%nat 4%nat ltac:(lia) ltac:(lia)) | exact (H 5%nat 5%nat ltac:(lia) ltac:(lia)) | exact (H 5%nat 6%nat ltac:(lia) ltac:(lia))]
   | first [exact (H 6%nat 0%nat ltac:(lia) ltac:(lia)) | exact (H 6%nat 1%nat ltac:(lia) ltac:(lia)) | exact (H 6%nat 2%nat ltac:(lia) ltac:(lia)) | exact (H 6%nat 3%nat ltac:(lia) ltac:(lia)) | exact (H 6%nat 4%nat ltac:(lia) ltac:(lia)) | exact (H 6%nat 5%nat ltac:(lia) ltac:(lia)) | exact (H 6%nat 6%nat ltac:(lia) ltac:(lia))] ]).
Qed.
Lemma m7_derive_mmul_r P M s D : m7_derive M s D -> m7_derive (fun t => rmmul (M t) P) s (rmmul D P).
Proof.
  intros H i j Hi Hj. split49 i j Hi Hj; mcbv;
  (eapply lin7r; [ first [exact (H 0%nat 0%nat ltac:(lia) ltac:(lia)) | exact (H 1%nat 0%nat ltac:(lia) ltac:(lia)) | exact (H 2%nat 0%nat ltac:(lia) ltac:(lia)) | exact (H 3%nat 0%nat ltac:(lia) ltac:(lia)) | exact (H 4%nat 0%nat ltac:(lia) ltac:(lia)) | exact (H 5%nat 0%nat ltac:(lia) ltac:(lia)) | exact (H 6%nat 0%nat ltac:(lia) ltac:(lia))]
   | first [exact (H 0%nat 1%nat ltac:(lia) ltac:(lia)) | exact (H 1%nat 1%nat ltac:(lia) ltac:(lia)) | exact (H 2%nat 1%nat ltac:(lia) ltac:(lia)) | exact (H 3%nat 1%nat ltac:(lia) ltac:(lia)) | exact (H 4%nat 1%nat ltac:(lia) ltac:(lia)) | exact (H 5%nat 1%nat ltac:(lia) ltac:(lia)) | exact (H 6%nat 1%nat ltac:(lia) ltac:(lia))]
   | first [exact (H 0%nat 2%nat ltac:(lia) ltac:(lia)) | exact (H 1%nat 2%nat ltac:(lia) ltac:(lia)) | exact (H 2%nat 2%nat ltac:(lia) ltac:(lia)) | exact (H 3%nat 2%nat ltac:(lia) ltac:(lia)) | exact (H 4%nat 2%nat ltac:(lia) ltac:(lia)) | exact (H 5%nat 2%nat ltac:(lia) ltac:(lia)) | exact (H 6%nat 2%nat ltac:(lia) ltac:(lia))]
   | first [exact (H 0%nat 3%nat ltac:(lia) ltac:(lia)) | exact (H 1%nat 3%nat ltac:(lia) ltac:(lia)) | exact (H 2%nat 3%nat ltac:(lia) ltac:(lia)) | exact (H 3%nat 3%nat ltac:(lia) ltac:(lia)) | exact (H 4%nat 3%nat ltac:(lia) ltac:(lia)) | exact (H 5%nat 3%nat ltac:(lia) ltac:(lia)) | exact (H 6%nat 3%nat ltac:(lia) ltac:(lia))]
   | first [exact (H 0%nat 4%nat ltac:(lia) ltac:(lia)) | exact (H 1%nat 4%nat ltac:(lia) ltac:(lia)) | exact (H 2%nat 4%nat ltac:(lia) ltac:(lia)) | exact (H 3%nat 4%nat ltac:(lia) ltac:(lia)) | exact (H 4%nat 4%nat ltac:(lia) ltac:(lia)) | exact (H 5%nat 4%nat ltac:(lia) ltac:(lia)) | exact (H 6%nat 4%nat ltac:(lia) ltac:(lia))]
   | first [exact (H 0%nat 5%nat ltac:(lia) ltac:(lia)) | exact (H 1%nat 5%nat ltac:(lia) ltac:(lia)) | exact (H 2%nat 5%nat ltac:(lia) ltac:(lia)) | exact (H 3%nat 5%nat ltac:(lia) ltac:(lia)) | exact (H 4%nat 5%nat ltac:(lia) ltac:(lia)) | exact (H 5%nat 5%nat ltac:(lia) ltac:(lia)) | exact (H 6%nat 5%nat ltac:(lia) ltac:(lia))]
   | first [exact (H 0%nat 6%nat ltac:(lia) ltac:(lia)) | exact (H 1%nat 6%nat ltac:(lia) ltac:(lia)) | exact (H 2%nat 6%nat ltac:(lia) ltac:(lia)) | exact (H 3%nat 6%nat ltac:(lia) ltac:(lia)) | exact (H 4%nat 6%nat ltac:(lia) ltac:(lia)) | exact (H 5%nat 6%nat ltac:(lia) ltac:(lia)) | exact (H 6%nat 6%nat ltac:(lia) ltac:(lia))] ]).
Qed.

Notation rassoc := (@mmul_assoc R 0 1 Rplus Rmult Rminus Ropp RRth).
Notation rI_l := (@mmul_I_l R 0 1 Rplus Rmult Rminus Ropp RRth).
Notation rI_r := (@mmul_I_r R 0 1 Rplus Rmult Rminus Ropp RRth).

Theorem conj_flow (P Q A : M7 R) (M : R -> M7 R) :
  rmmul Q P = rI -> rmmul P Q = rI -> is_flow A M ->
  is_flow (rmmul Q (rmmul A P)) (fun s => rmmul Q (rmmul (M s) P)).
Proof.
  intros HQP HPQ [F0 F1]. split.
  - rewrite F0. unfold rI. rewrite rI_l. exact HQP.
  - intros s.
    replace (rmmul (rmmul Q (rmmul A P)) (rmmul Q (rmmul (M s) P))) with (rmmul Q (rmmul (rmmul A (M s)) P)).
    + apply (m7_derive_mmul_l Q (fun t => rmmul (M t) P)). apply m7_derive_mmul_r. apply F1.
    + rewrite !rassoc. f_equal. f_equal. rewrite <- (rassoc P Q). rewrite HPQ. unfold rI. rewrite rI_l. reflexivity.
Qed.

Lemma is_flow_ext A (M M' : R -> M7 R) : (forall s, M s = M' s) -> is_flow A M -> is_flow A M'.
Proof.
  intros He [F0 F1]. split; [rewrite <- He; exact F0|].
  intros s i j Hi Hj. rewrite <- He. eapply is_derive_ext; [|apply (F1 s i j Hi Hj)].
  intros t. cbv beta. rewrite He. reflexivity.
Qed.

(** * generators spelled as S6 . Hess(H) *)
Lemma gsb kx ky h b ig : rmmul S6 (hess_sbend kx ky h b ig) = gen_sbend kx ky h b ig.
Proof. exact (generator_sbend kx ky h b ig). Qed.
Lemma gsol k b ig : rmmul S6 (hess_sol k b ig) = gen_sol k b ig.
Proof. exact (generator_sol k b ig). Qed.

Theorem drift_flow_H E : is_flow (rmmul S6 (hess_sbend 0 0 0 (beta_of E) (igamma2_of E))) (fun L => drift_map L E).
Proof. rewrite gsb. apply drift_flow. Qed.
Theorem quad_map_flow_H k1 E : k1 <> 0 ->
  is_flow (rmmul S6 (hess_sbend k1 (- k1) 0 (beta_of E) (igamma2_of E))) (fun L => quad_map L k1 0 0 0 E).
Proof. intros H. rewrite gsb. apply quad_map_flow. exact H. Qed.
Theorem sbend_flow_H k1 h E : k1 <> 0 -> k1 + h² <> 0 ->
  is_flow (rmmul S6 (hess_sbend (k1 + h²) (- k1) h (beta_of E) (igamma2_of E))) (fun L => base_untilted L k1 h E).
Proof. intros H1 H2. rewrite gsb. apply sbend_flow_k1; assumption. Qed.
Theorem sbend_flow_coded_H k1 h E : kx2 k1 h <> 0 ->
  is_flow (rmmul S6 (hess_sbend (kx2 k1 h) (ky2 k1) h (beta_of E) (igamma2_of E))) (fun L => base_untilted L k1 h E).
Proof. intros H. rewrite gsb. apply sbend_flow. exact H. Qed.
Theorem solenoid_flow_H k E : m_e < E -> k <> 0 ->
  is_flow (rmmul S6 (hess_sol k (beta_of E) (igamma2_of E))) (fun L => sol_body L k E).
Proof. intros H1 H2. rewrite gsol. apply solenoid_flow; assumption. Qed.

(** * tilted / misaligned quadrupole *)
Theorem tilted_quad_flow k1 t E : k1 <> 0 -> t <> 0 ->
  is_flow (rmmul (rot (- t)) (rmmul (rmmul S6 (hess_sbend k1 (- k1) 0 (beta_of E) (igamma2_of E))) (rot t)))
          (fun L => quad_map L k1 0 0 t E).
Proof.
  intros Hk Ht. rewrite gsb.
  apply (is_flow_ext _ (fun L => rmmul (rot (- t)) (rmmul (base_untilted L k1 0 E) (rot t)))).
  - intros s. unfold quad_map. rewrite misaligned_0, base_rmatrix_tilted by exact Ht. reflexivity.
  - apply (conj_flow (rot t) (rot (- t))); [apply rot_inv|apply rot_inv'|apply quad_flow; exact Hk].
Qed.
Theorem misaligned_tilted_quad_flow k1 mx my t E : k1 <> 0 -> t <> 0 -> (mx <> 0 \/ my <> 0) ->
  is_flow (rmmul (mis_exit mx my)
            (rmmul (rmmul (rot (- t)) (rmmul (rmmul S6 (hess_sbend k1 (- k1) 0 (beta_of E) (igamma2_of E))) (rot t)))
                   (mis_entry mx my)))
          (fun L => quad_map L k1 mx my t E).
Proof.
  intros Hk Ht Hm.
  apply (is_flow_ext _ (fun L => rmmul (mis_exit mx my) (rmmul (quad_map L k1 0 0 t E) (mis_entry mx my)))).
  - intros s. unfold quad_map. rewrite misaligned_0, misaligned_nz by exact Hm. reflexivity.
  - apply (conj_flow (mis_entry mx my) (mis_exit mx my)); [apply mis_inv|apply mis_inv'|apply tilted_quad_flow; assumption].
Qed.

Lemma nonvacuous :
  m_e < 5e6 /\ kx2 (-3) (3 / 5) <> 0 /\
  is_derive (fun L => m7nth (base_untilted L 2 (1 / 2) 5e6) 0 5) 1 (m7nth (base_untilted 1 2 (1 / 2) 5e6) 1 5).
Proof.
  split; [unfold m_e; lra|]. split.
  - unfold kx2. rewrite k1_guard_nz by lra. unfold Rsqr. lra.
  - assert (Hk : kx2 2 (1 / 2) <> 0) by (unfold kx2; rewrite k1_guard_nz by lra; unfold Rsqr; lra).
    destruct (sbend_flow 2 (1 / 2) 5e6 Hk) as [_ F].
    pose proof (F 1 0%nat 5%nat ltac:(lia) ltac:(lia)) as D. cbv beta in D.
    replace (m7nth (base_untilted 1 2 (1 / 2) 5e6) 1 5) with
      (m7nth (rmmul (gen_sbend (kx2 2 (1 / 2)) (ky2 2) (1 / 2) (beta_of 5e6) (igamma2_of 5e6)) (base_untilted 1 2 (1 / 2) 5e6)) 0 5).
    + exact D.
    + cbv [gen_sbend base_untilted]. mcbv. ring.
Qed.
