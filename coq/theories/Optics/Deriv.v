(** C05, definitions only: closed-form parameter derivatives of the linear maps of Maps.v, the values the
    derivatives tend to at the removable points, a model of what reverse-mode AD differentiates at a guarded
    point (the straight-line program selected there), and a NaN-propagating partial arithmetic used to state
    the definedness refutations.  Proofs: DerivProofs.v (derivatives), DerivLimits.v (removable points),
    DerivRefute.v (refutations). *)
From Coq Require Import Reals.
From Cheetah Require Import Base.Mat Optics.Maps Optics.Flow.
Open Scope R_scope.

Notation rmadd := (@madd R Rplus).
Notation rmscale := (@mscale R Rmult).
Definition rZ : M7 R := @Z7 R 0.
Definition zrow : V7 R := row 0 0 0 0 0 0 0.

(** * d/dk of the cosine-like / sine-like pair (k <> 0, both signs):
      d/dk C(k,L) = - L/2 * S(k,L),    d/dk S(k,L) = (L*C(k,L) - S(k,L)) / (2k) *)
Definition dCf_dk (k L : R) : R := - L / 2 * Sf k L.
Definition dSf_dk (k L : R) : R := (L * Cf k L - Sf k L) / (2 * k).

(** * Quadrupole body  base_untilted L k1 0 E  (k1 <> 0) *)
Definition dquad_dk1 (L k1 E : R) : M7 R :=
  mk7 (row (dCf_dk k1 L) (dSf_dk k1 L) 0 0 0 0 0)
      (row (- Sf k1 L - k1 * dSf_dk k1 L) (dCf_dk k1 L) 0 0 0 0 0)
      (row 0 0 (- dCf_dk (- k1) L) (- dSf_dk (- k1) L) 0 0 0)
      (row 0 0 (Sf (- k1) L - k1 * dSf_dk (- k1) L) (- dCf_dk (- k1) L) 0 0 0)
      zrow zrow zrow.
(* what dquad_dk1 tends to as k1 -> 0: the derivative of the un-guarded map at k1 = 0 *)
Definition dquad_dk1_lim (L : R) : M7 R :=
  mk7 (row (- (L * L) / 2) (- (L * L * L) / 6) 0 0 0 0 0)
      (row (- L) (- (L * L) / 2) 0 0 0 0 0)
      (row 0 0 (L * L / 2) (L * L * L / 6) 0 0 0)
      (row 0 0 L (L * L / 2) 0 0 0)
      zrow zrow zrow.
(* d/dL: the generator times the map (C02) *)
Definition dquad_dL (L k1 E : R) : M7 R :=
  rmmul (gen_sbend k1 (- k1) 0 (beta_of E) (igamma2_of E)) (base_untilted L k1 0 E).
Definition dsbend_dL (L k1 hx E : R) : M7 R :=
  rmmul (gen_sbend (k1 + hx²) (- k1) hx (beta_of E) (igamma2_of E)) (base_untilted L k1 hx E).

(** * Combined-function sector-bend body  base_untilted L k1 hx E  (k1 <> 0, k1 + hx^2 <> 0): d/dk1 and d/dhx *)
Definition dsbend_dk1 (L k1 hx E : R) : M7 R :=
  let kx := k1 + hx² in let b := beta_of E in
  let C := Cf kx L in let S := Sf kx L in let dC := dCf_dk kx L in let dS := dSf_dk kx L in
  let ddx := - hx / (kx * kx) * (1 - C) - hx / kx * dC in
  mk7 (row dC dS 0 0 0 (ddx / b) 0)
      (row (- S - kx * dS) dC 0 0 0 (dS * hx / b) 0)
      (row 0 0 (- dCf_dk (- k1) L) (- dSf_dk (- k1) L) 0 0 0)
      (row 0 0 (Sf (- k1) L - k1 * dSf_dk (- k1) L) (- dCf_dk (- k1) L) 0 0 0)
      (row (dS * hx / b) (ddx / b) 0 0 0 (- (hx * hx) * dS / kx / (b * b) - hx * hx * (L - S) / (kx * kx) / (b * b)) 0)
      zrow zrow.
Definition dsbend_dhx (L k1 hx E : R) : M7 R :=
  let kx := k1 + hx² in let b := beta_of E in
  let C := Cf kx L in let S := Sf kx L in let dC := 2 * hx * dCf_dk kx L in let dS := 2 * hx * dSf_dk kx L in
  let ddx := (1 - C) / kx - hx * (2 * hx) / (kx * kx) * (1 - C) - hx / kx * dC in
  mk7 (row dC dS 0 0 0 (ddx / b) 0)
      (row (- (2 * hx) * S - kx * dS) dC 0 0 0 ((dS * hx + S) / b) 0)
      zrow zrow
      (row ((dS * hx + S) / b) (ddx / b) 0 0 0
           ((2 * hx * (L - S) / kx - hx * hx * dS / kx - hx * hx * (L - S) * (2 * hx) / (kx * kx)) / (b * b)) 0)
      zrow zrow.

(** * Drift, correctors *)
Definition ddrift_dL (E : R) : M7 R :=
  mk7 (row 0 1 0 0 0 0 0) zrow (row 0 0 0 1 0 0 0) zrow (row 0 0 0 0 0 (- igamma2_of E / (beta_of E)²) 0) zrow zrow.
Definition dhcor_dangle : M7 R := mk7 zrow (row 0 0 0 0 0 0 1) zrow zrow zrow zrow zrow.
Definition dvcor_dangle : M7 R := mk7 zrow zrow zrow (row 0 0 0 0 0 0 1) zrow zrow zrow.

(** * Solenoid body, d/dk (k <> 0) and d/dL *)
Definition dsol_dk (L k E : R) : M7 R :=
  let c := cos (L * k) in let s := sin (L * k) in let sk := s / k in
  let dc := - L * s in let ds := L * c in let dsk := (L * c * k - s) / (k * k) in
  mk7 (row (2 * c * dc) (dc * sk + c * dsk) (ds * c + s * dc) (ds * sk + s * dsk) 0 0 0)
      (row (- (s * c) - k * (ds * c + s * dc)) (2 * c * dc) (- (s * s) - k * (2 * s * ds)) (ds * c + s * dc) 0 0 0)
      (row (- (ds * c + s * dc)) (- (ds * sk + s * dsk)) (2 * c * dc) (dc * sk + c * dsk) 0 0 0)
      (row (s * s + k * (2 * s * ds)) (- (ds * c + s * dc)) (- (s * c) - k * (ds * c + s * dc)) (2 * c * dc) 0 0 0)
      zrow zrow zrow.
(* the derivative of the k -> 0 continuation [sol_sk L] (= L at k = 0) at k = 0 is 0, and of the whole body: *)
Definition dsol_dk_lim (L : R) : M7 R :=
  mk7 (row 0 0 L (L * L) 0 0 0) (row 0 0 0 L 0 0 0) (row (- L) (- (L * L)) 0 0 0 0 0) (row 0 (- L) 0 0 0 0 0) zrow zrow zrow.
Definition dsol_dL (L k E : R) : M7 R := rmmul (gen_sol k (beta_of E) (igamma2_of E)) (sol_body L k E).

(** * Tilt: rot and the conjugation  rot(-t) . M . rot(t) *)
Definition drot (a : R) : M7 R :=
  mk7 (row (- sin a) 0 (cos a) 0 0 0 0) (row 0 (- sin a) 0 (cos a) 0 0 0)
      (row (- cos a) 0 (- sin a) 0 0 0 0) (row 0 (- cos a) 0 (- sin a) 0 0 0) zrow zrow zrow.
Definition tilt_conj (M : M7 R) (t : R) : M7 R := rmmul (rot (- t)) (rmmul M (rot t)).
Definition dtilt_conj (M : M7 R) (t : R) : M7 R :=
  rmadd (rmmul (rmscale (-1) (drot (- t))) (rmmul M (rot t))) (rmmul (rot (- t)) (rmmul M (drot t))).
(* at t = 0 this is the commutator [M, J] with J = drot 0 *)
Definition dtilt_conj_0 (M : M7 R) : M7 R := rmadd (rmmul (rmscale (-1) (drot 0)) M) (rmmul M (drot 0)).

(** * Misalignment:  mis_exit mx my . M . mis_entry mx my *)
Definition dshift_x : M7 R := mk7 (row 0 0 0 0 0 0 1) zrow zrow zrow zrow zrow zrow.
Definition dshift_y : M7 R := mk7 zrow zrow (row 0 0 0 0 0 0 1) zrow zrow zrow zrow.
Definition mis_conj (M : M7 R) (mx my : R) : M7 R := rmmul (mis_exit mx my) (rmmul M (mis_entry mx my)).
Definition dmis_dmx (M : M7 R) (mx my : R) : M7 R :=
  rmadd (rmmul dshift_x (rmmul M (mis_entry mx my))) (rmmul (mis_exit mx my) (rmmul M (rmscale (-1) dshift_x))).
Definition dmis_dmy (M : M7 R) (mx my : R) : M7 R :=
  rmadd (rmmul dshift_y (rmmul M (mis_entry mx my))) (rmmul (mis_exit mx my) (rmmul M (rmscale (-1) dshift_y))).
(* a map is affine when its last row is (0 0 0 0 0 0 1) *)
Definition affine (M : M7 R) : Prop := c6 M = row 0 0 0 0 0 0 1.
Definition delta (i j : nat) : R := if Nat.eqb i j then 1 else 0.

(** * finiteness: every entry of a derivative matrix is a real number whose absolute value is bounded by
      the largest one (trivial over R; what it says is that the closed forms have no pole in the stated domain:
      the statement is the existence of the derivative) *)
Definition m7_bounded (D : M7 R) : Prop := exists B, forall i j, (i < 7)%nat -> (j < 7)%nat -> Rabs (m7nth D i j) <= B.

(** * What reverse-mode AD differentiates at a guarded point.
    `k1 = k1.clone(); k1[k1 == 0] = 1e-12` : at a masked point the value is the constant 1e-12, with no
    dependence on the input; elsewhere the identity.  The trace selected at evaluation point k0: *)
Definition k1_guard_trace (k0 : R) : R -> R := if Req_EM_T k0 0 then (fun _ => 1e-12) else (fun k => k).
Definition quad_trace (L k0 E : R) : R -> M7 R := fun k => base_untilted L (k1_guard_trace k0 k) 0 E.
(* `if torch.all(misalignment == 0): return R` and `if torch.any(tilt != 0)`: at an all-zero point the
   returned tensor does not depend on the parameter at all (autograd reports None / zero) *)
Definition mis_trace (M : M7 R) (mx0 my0 : R) : R -> R -> M7 R :=
  if Req_EM_T mx0 0 then (if Req_EM_T my0 0 then (fun _ _ => M) else mis_conj M) else mis_conj M.
Definition tilt_trace (M : M7 R) (t0 : R) : R -> M7 R := if Req_EM_T t0 0 then (fun _ => M) else tilt_conj M.

(** * NaN-propagating partial arithmetic (None = NaN), just enough to state where the backward pass of
      `torch.where(cond, a, b)` is undefined: the gradient of the unselected branch is multiplied by 0, and
      0 * NaN = NaN. *)
Definition pR := option R.
Definition pmul (x y : pR) : pR := match x, y with Some a, Some b => Some (a * b) | _, _ => None end.
Definition padd (x y : pR) : pR := match x, y with Some a, Some b => Some (a + b) | _, _ => None end.
Definition psub (x y : pR) : pR := match x, y with Some a, Some b => Some (a - b) | _, _ => None end.
Definition pdiv (x y : pR) : pR :=
  match x, y with Some a, Some b => if Req_EM_T b 0 then None else Some (a / b) | _, _ => None end.
(* backward of where(sel, a, b) for upstream gradient 1: mask * ga + (1 - mask) * gb *)
Definition where_bwd (sel : bool) (ga gb : pR) : pR :=
  padd (pmul (Some (if sel then 1 else 0)) ga) (pmul (Some (if sel then 0 else 1)) gb).

(* Solenoid: s_k = where(k == 0, L, sin(L k)/k); backward w.r.t. k as the code's graph computes it *)
Definition sol_sk_grad_ad (L k : R) : pR :=
  where_bwd (if Req_EM_T k 0 then true else false) (Some 0)
            (psub (pdiv (Some (L * cos (L * k))) (Some k)) (pdiv (Some (sin (L * k))) (Some (k * k)))).
(* Cavity.transfer_map = where(V != 0, _cavity_rmatrix, base_rmatrix): r12 = sqrt 8 * Ei / Ep * cos phi * sin alpha,
   backward w.r.t. Ep (through which voltage, phase and length enter): - sqrt 8 Ei cos phi sin alpha / Ep^2 *)
Definition cav_r12_grad_Ep_ad (L V phi E : R) : pR :=
  pdiv (Some (- (sqrt 8 * cav_Ei E * cos phi * sin (cav_alpha V phi E)))) (Some (cav_Ep L V phi E * cav_Ep L V phi E)).
Definition cav_r12_grad_ad (L V phi E : R) (g_off : pR) : pR :=
  where_bwd (if Req_EM_T V 0 then false else true) (cav_r12_grad_Ep_ad L V phi E) g_off.
