(** C05 proofs, part 4: the combined-function sector-bend body (Dipole / RBend, cheetah method) as a function of the
    gradient k1 and of the curvature hx = angle / length. *)
From Coq Require Import Reals Lra Psatz Lia.
From Coquelicot Require Import Coquelicot.
From Cheetah Require Import Base.Mat Base.RealAux Optics.Maps Optics.CS Optics.Flow Optics.FlowProofs Optics.Deriv Optics.DerivProofs.
Open Scope R_scope.

Lemma sbend_body_nz L k hx E : k <> 0 ->
  base_untilted L k hx E =
  let kx := k + hx² in
  mk7 (row (Cf kx L) (Sf kx L) 0 0 0 (hx / kx * (1 - Cf kx L) / beta_of E) 0)
      (row (- kx * Sf kx L) (Cf kx L) 0 0 0 (Sf kx L * hx / beta_of E) 0)
      (row 0 0 (Cf (- k) L) (Sf (- k) L) 0 0 0)
      (row 0 0 (- - k * Sf (- k) L) (Cf (- k) L) 0 0 0)
      (row (Sf kx L * hx / beta_of E) (hx / kx * (1 - Cf kx L) / beta_of E) 0 0 1
           (hx² * (L - Sf kx L) / kx / (beta_of E)² - L / (beta_of E)² * igamma2_of E) 0)
      (row 0 0 0 0 0 1 0) (row 0 0 0 0 0 0 1).
Proof.
  intros Hk. unfold base_untilted, dx, r56, cx, sx, cy, sy, kx2, ky2. rewrite k1_guard_nz by exact Hk. reflexivity.
Qed.

Ltac fin_b E := unfold Rdiv, Rsqr; rewrite ?Rinv_mult; try ring; generalize (/ beta_of E); intros; field; assumption.

Theorem deriv_sbend_k1 L k1 hx E : k1 <> 0 -> k1 + hx² <> 0 ->
  m7_derive (fun k => base_untilted L k hx E) k1 (dsbend_dk1 L k1 hx E).
Proof.
  intros Hk Hkx i j Hi Hj.
  assert (HC : is_derive (fun x => Cf x L) (k1 + hx²) (dCf_dk (k1 + hx²) L)) by (apply is_derive_Cf_dk; exact Hkx).
  assert (HS : is_derive (fun x => Sf x L) (k1 + hx²) (dSf_dk (k1 + hx²) L)) by (apply is_derive_Sf_dk; exact Hkx).
  assert (HC' : is_derive (fun x => Cf x L) (- k1) (dCf_dk (- k1) L)) by (apply is_derive_Cf_dk; lra).
  assert (HS' : is_derive (fun x => Sf x L) (- k1) (dSf_dk (- k1) L)) by (apply is_derive_Sf_dk; lra).
  eapply is_derive_ext_loc.
  { apply locally_nz; [exact Hk|]. intros t Ht. rewrite (sbend_body_nz L t hx E Ht). reflexivity. }
  assert (Hkx' : k1 + hx * hx <> 0) by exact Hkx.
  split49 i j Hi Hj; cbv zeta; cbv [dsbend_dk1 zrow]; mcbv;
  first
  [ eapply is_derive_cst_ext; intros t; reflexivity
  | auto_derive;
    [ repeat split; first [exact I | exact Hkx | exact Hkx' | eexists; exact HC | eexists; exact HS | eexists; exact HC' | eexists; exact HS']
    | rewrite ?(Dfun' _ _ _ HC), ?(Dfun' _ _ _ HS), ?(Dfun' _ _ _ HC'), ?(Dfun' _ _ _ HS'); fin_b E ] ].
Qed.

Theorem deriv_sbend_hx L k1 hx E : k1 <> 0 -> k1 + hx² <> 0 ->
  m7_derive (fun h => base_untilted L k1 h E) hx (dsbend_dhx L k1 hx E).
Proof.
  intros Hk Hkx i j Hi Hj.
  assert (HC : is_derive (fun x => Cf x L) (k1 + hx²) (dCf_dk (k1 + hx²) L)) by (apply is_derive_Cf_dk; exact Hkx).
  assert (HS : is_derive (fun x => Sf x L) (k1 + hx²) (dSf_dk (k1 + hx²) L)) by (apply is_derive_Sf_dk; exact Hkx).
  eapply is_derive_ext.
  { intros t. rewrite (sbend_body_nz L k1 t E Hk). reflexivity. }
  assert (Hkx' : k1 + hx * hx <> 0) by exact Hkx.
  unfold Rsqr in HC, HS.
  split49 i j Hi Hj; cbv zeta; cbv [dsbend_dhx zrow]; mcbv; unfold Rsqr;
  first
  [ eapply is_derive_cst_ext; intros t; reflexivity
  | auto_derive;
    [ repeat split; first [exact I | exact Hkx | exact Hkx' | eexists; exact HC | eexists; exact HS]
    | rewrite ?(Dfun' _ _ _ HC), ?(Dfun' _ _ _ HS); fin_b E ] ].
Qed.

(** chain rule for hx = angle / length (length <> 0): d/dangle = (1/length) d/dhx *)
Lemma m7nth_mscale c (D : M7 R) i j : (i < 7)%nat -> (j < 7)%nat -> m7nth (rmscale c D) i j = c * m7nth D i j.
Proof. intros Hi Hj. split49 i j Hi Hj; reflexivity. Qed.
Theorem deriv_sbend_angle L k1 angle E : L <> 0 -> k1 <> 0 -> k1 + (angle / L)² <> 0 ->
  m7_derive (fun a => base_untilted L k1 (a / L) E) angle (rmscale (/ L) (dsbend_dhx L k1 (angle / L) E)).
Proof.
  intros HL Hk Hkx i j Hi Hj. rewrite m7nth_mscale by assumption.
  evar_last.
  - apply (is_derive_comp (fun h => m7nth (base_untilted L k1 h E) i j) (fun a => a / L) angle
                          (m7nth (dsbend_dhx L k1 (angle / L) E) i j) (/ L)).
    + apply deriv_sbend_hx; assumption.
    + auto_derive; [exact I|]. field. exact HL.
  - unfold scal; simpl. unfold mult; simpl. ring.
Qed.
