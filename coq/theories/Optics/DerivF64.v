(** C05 proofs, part 5: finding F64 -- the value the derivative of the dispersion entries R16 = R52 = dx / beta of the
    sector-bend body takes with respect to the bending angle at angle = 0, k1 = 0 in the program as written.

    base_rmatrix replaces k1 = 0 by 1e-12, so at hx = 0 it evaluates  dx = hx / kx2 * (1 - cos (sqrt kx2 * L))  with
    kx2 = 1e-12, and reverse-mode AD returns  d dx / d hx = (1 - cos (1e-6 L)) / 1e-12  =: [disp_guard L].
      - In exact arithmetic this is L^2/2 up to 1e-12 L^4 / 24 ([disp_guard_bound]): harmless.
      - In float64 cos (1e-6 L) = 1 - 5e-13 L^2 is stored on the grid of spacing 2^-53 just below 1; the subtraction
        1 - c is exact, so an error eta of the stored cosine appears as eta / 1e-12 in the quotient
        ([disp_float_bound]): with |eta| <= 2^-51 (four units in the last place, generous for libm's complex cos)
        that is an ABSOLUTE error <= 2^-51 / 1e-12 = 4.5e-4 on d dx / d hx, i.e. a RELATIVE error
        <= 2^-50 / (1e-12 L^2) = 8.9e-4 / L^2 of the true L^2/2 ([disp_float_rel]).
    This band is the characterised wrong value of F64: the harness accepts an observation as F64 only inside it
    (harness/props/c05.py: F64_ETA, the `bend_angle_zero` correspondence goals and the oracle-level signature). *)
From Coq Require Import Reals Lra Psatz Lia.
From Coquelicot Require Import Coquelicot.
From Cheetah Require Import Base.Mat Base.RealAux Optics.Maps Optics.CS Optics.Flow Optics.FlowProofs Optics.GuardProofs
  Optics.Deriv Optics.DerivProofs Optics.DerivLimits Optics.DerivBend Optics.DerivRefute.
Open Scope R_scope.

(** what the guarded program's d dx / d hx is at hx = 0, k1 = 0: exactly, and with the cosine perturbed by eta *)
Definition disp_guard (L : R) : R := (1 - cos (1e-6 * L)) / 1e-12.
Definition disp_float (L eta : R) : R := (1 - (cos (1e-6 * L) + eta)) / 1e-12.
(** the derivative of the un-guarded map at angle = 0, k1 = 0 with respect to hx (the limit): only the dispersion
    entries and the R26 = R51 pair are non-zero *)
Definition dsbend_dhx_lim (L E : R) : M7 R :=
  mk7 (row 0 0 0 0 0 (L * L / 2 / beta_of E) 0)
      (row 0 0 0 0 0 (L / beta_of E) 0)
      zrow zrow
      (row (L / beta_of E) (L * L / 2 / beta_of E) 0 0 0 0 0)
      zrow zrow.

Lemma Rabs_div_pos a g : 0 < g -> Rabs (a / g) = Rabs a / g.
Proof.
  intros Hg. unfold Rdiv. rewrite Rabs_mult, (Rabs_pos_eq (/ g)); [reflexivity|left; apply Rinv_0_lt_compat; exact Hg].
Qed.

Lemma sqrt_guard : sqrt 1e-12 = 1e-6.
Proof. replace 1e-12 with (1e-6 * 1e-6) by lra. apply sqrt_square. lra. Qed.

Lemma cos_le_quartic u : 0 <= u -> 0 <= (1 - cos u) - (u * u / 2 - u * u * u * u / 24).
Proof.
  intros Hu.
  apply (nonneg_of_deriv (fun u => (1 - cos u) - (u * u / 2 - u * u * u * u / 24))
                         (fun u => u * u * u / 6 - (u - sin u)) u); [rewrite cos_0; field| | |lra].
  - intros x _. auto_derive; [exact I|field].
  - intros x Hx. apply sin_ge_cubic. lra.
Qed.

(** exact arithmetic: the guard moves the derivative by at most 1e-12 L^4 / 24 *)
Theorem disp_guard_bound L : 0 <= L -> 0 <= L * L / 2 - disp_guard L <= 1e-12 * (L * L * L * L) / 24.
Proof.
  intros HL. unfold disp_guard.
  assert (Hu : 0 <= 1e-6 * L) by nra.
  pose proof (cos_ge_quad _ Hu) as H1. pose proof (cos_le_quartic _ Hu) as H2.
  set (c := cos (1e-6 * L)) in *.
  replace (L * L / 2 - (1 - c) / 1e-12) with ((1e-6 * L * (1e-6 * L) / 2 - (1 - c)) / 1e-12) by (field; lra).
  replace (1e-12 * (L * L * L * L) / 24) with ((1e-6 * L * (1e-6 * L) * (1e-6 * L) * (1e-6 * L) / 24) / 1e-12) by (field; lra).
  split.
  - apply div_nonneg; lra.
  - apply div_le_compat; lra.
Qed.

(** float effect: an absolute error eta of the stored cosine appears divided by the guard *)
Theorem disp_float_bound L eta : 0 <= L ->
  Rabs (disp_float L eta - L * L / 2) <= 1e-12 * (L * L * L * L) / 24 + Rabs eta / 1e-12.
Proof.
  intros HL. pose proof (disp_guard_bound L HL) as B. unfold disp_guard in B. unfold disp_float.
  replace ((1 - (cos (1e-6 * L) + eta)) / 1e-12 - L * L / 2)
    with (- (L * L / 2 - (1 - cos (1e-6 * L)) / 1e-12) + - (eta / 1e-12)) by (field; lra).
  eapply Rle_trans; [apply Rabs_triang|]. rewrite !Rabs_Ropp.
  apply Rplus_le_compat.
  - rewrite Rabs_pos_eq; lra.
  - rewrite Rabs_div_pos by lra. lra.
Qed.

(** the band of F64: relative to the true value L^2/2, for a cosine stored within four units in the last place *)
Theorem disp_float_rel L eta : 0 < L -> Rabs eta <= / 2 ^ 51 ->
  Rabs (disp_float L eta / (L * L / 2) - 1) <= 1e-12 * (L * L) / 12 + / 2 ^ 50 / 1e-12 / (L * L).
Proof.
  intros HL He. pose proof (disp_float_bound L eta (Rlt_le _ _ HL)) as B.
  assert (L2 : 0 < L * L / 2) by nra.
  replace (disp_float L eta / (L * L / 2) - 1) with ((disp_float L eta - L * L / 2) / (L * L / 2)) by (field; lra).
  rewrite Rabs_div_pos by exact L2.
  replace (1e-12 * (L * L) / 12 + / 2 ^ 50 / 1e-12 / (L * L))
    with ((1e-12 * (L * L * L * L) / 24 + / 2 ^ 51 / 1e-12) / (L * L / 2)) by (field; lra).
  apply div_le_compat; [exact L2|].
  eapply Rle_trans; [exact B|]. apply Rplus_le_compat_l.
  apply div_le_compat; [lra|exact He].
Qed.

(** the guarded program IS differentiable w.r.t. the angle at angle = 0, k1 = 0 (the guard makes k1 = 1e-12): *)
Lemma base_untilted_at_k0 L hx E : base_untilted L 0 hx E = base_untilted L 1e-12 hx E.
Proof. rewrite <- (base_untilted_guard L 0 hx E), k1_guard_0. reflexivity. Qed.

Theorem sbend_dangle_guard_00 L E : L <> 0 ->
  m7_derive (fun a => base_untilted L 0 (a / L) E) 0 (rmscale (/ L) (dsbend_dhx L 1e-12 (0 / L) E)).
Proof.
  intros HL i j Hi Hj.
  apply (is_derive_ext (fun a => m7nth (base_untilted L 1e-12 (a / L) E) i j)).
  - intros t. rewrite base_untilted_at_k0. reflexivity.
  - apply (deriv_sbend_angle L 1e-12 0 E HL); try assumption; [lra|].
    unfold Rdiv. rewrite Rmult_0_l. unfold Rsqr. lra.
Qed.

(** ... and its dispersion entries are [disp_guard L / beta] (d/dhx; d/dangle carries the factor 1/L) *)
Theorem dsbend_dhx_guard_disp L E :
  m7nth (dsbend_dhx L 1e-12 0 E) 0 5 = disp_guard L / beta_of E /\
  m7nth (dsbend_dhx L 1e-12 0 E) 4 1 = disp_guard L / beta_of E /\
  m7nth (dsbend_dhx L 1e-12 0 E) 1 5 = sin (1e-6 * L) / 1e-6 / beta_of E /\
  m7nth (dsbend_dhx L 1e-12 0 E) 4 0 = sin (1e-6 * L) / 1e-6 / beta_of E /\
  m7nth (dsbend_dhx L 1e-12 0 E) 4 5 = 0 /\ m7nth (dsbend_dhx L 1e-12 0 E) 0 0 = 0 /\ m7nth (dsbend_dhx L 1e-12 0 E) 0 1 = 0.
Proof.
  assert (K : 1e-12 + 0² = 1e-12) by (unfold Rsqr; lra).
  assert (P : 0 < 1e-12) by lra.
  cbv [m7nth v7nth dsbend_dhx row c0 c1 c2 c3 c4 c5 c6]. cbv zeta. rewrite K.
  rewrite (Cf_pos _ _ P), (Sf_pos _ _ P), sqrt_guard. unfold disp_guard.
  repeat split; unfold Rdiv; ring.
Qed.

(** distance of the guarded derivative matrix to the limit matrix in the dispersion entries, exact arithmetic *)
Theorem dsbend_dhx_guard_near_lim L E : 0 <= L -> 0 < beta_of E ->
  Rabs (m7nth (dsbend_dhx L 1e-12 0 E) 0 5 - m7nth (dsbend_dhx_lim L E) 0 5) <= 1e-12 * (L * L * L * L) / 24 / beta_of E /\
  Rabs (m7nth (dsbend_dhx L 1e-12 0 E) 4 1 - m7nth (dsbend_dhx_lim L E) 4 1) <= 1e-12 * (L * L * L * L) / 24 / beta_of E.
Proof.
  intros HL Hb. destruct (dsbend_dhx_guard_disp L E) as (E1 & E2 & _). rewrite E1, E2.
  pose proof (disp_guard_bound L HL) as B.
  assert (G : Rabs (disp_guard L / beta_of E - L * L / 2 / beta_of E) <= 1e-12 * (L * L * L * L) / 24 / beta_of E).
  { replace (disp_guard L / beta_of E - L * L / 2 / beta_of E) with (- (L * L / 2 - disp_guard L) / beta_of E) by (field; lra).
    rewrite Rabs_div_pos by exact Hb. rewrite Rabs_Ropp, (Rabs_pos_eq (L * L / 2 - disp_guard L)) by lra.
    apply div_le_compat; [exact Hb|lra]. }
  split; exact G.
Qed.

Theorem sbend_dangle_guard_at0 L E : L <> 0 ->
  m7_derive (fun a => base_untilted L 0 (a / L) E) 0 (rmscale (/ L) (dsbend_dhx L 1e-12 0 E)).
Proof.
  intros HL. pose proof (sbend_dangle_guard_00 L E HL) as H.
  replace (0 / L) with 0 in H by (unfold Rdiv; ring). exact H.
Qed.

(** * the interface to the harness: an observed value [obs] of d R16 / d angle (= d R52 / d angle) at angle = 0, k1 = 0 is
      explained by F64 iff it is the guarded quotient evaluated with a cosine that is off by [f64_eta L E obs], and that
      perturbation is at most four units in the last place of a double below 1.  The generated correspondence goal is
      [Rabs (f64_eta L E obs) <= / 2 ^ 51] (closed by interval); [f64_observation_band] turns it into the band. *)
Definition f64_eta (L E obs : R) : R := 1 - cos (1e-6 * L) - obs * L * beta_of E * 1e-12.

Lemma f64_eta_spec L E obs : L <> 0 -> beta_of E <> 0 ->
  obs = disp_float L (f64_eta L E obs) / L / beta_of E.
Proof. intros HL Hb. unfold disp_float, f64_eta. field. repeat split; try assumption; lra. Qed.

Theorem f64_observation_band L E obs : 0 < L -> 0 < beta_of E -> Rabs (f64_eta L E obs) <= / 2 ^ 51 ->
  Rabs (obs - L / 2 / beta_of E) <= (1e-12 * (L * L * L * L) / 24 + / 2 ^ 51 / 1e-12) / (L * beta_of E).
Proof.
  intros HL Hb He.
  assert (LB : 0 < L * beta_of E) by nra.
  rewrite (f64_eta_spec L E obs) at 1 by lra.
  replace (disp_float L (f64_eta L E obs) / L / beta_of E - L / 2 / beta_of E)
    with ((disp_float L (f64_eta L E obs) - L * L / 2) / (L * beta_of E)) by (field; split; lra).
  rewrite Rabs_div_pos by exact LB. apply div_le_compat; [exact LB|].
  eapply Rle_trans; [apply disp_float_bound; lra|]. apply Rplus_le_compat_l.
  apply div_le_compat; [lra|exact He].
Qed.

(** the same observation with the guard constant replaced by a much smaller one is NOT in the band: if the stored cosine is
    exactly 1 (which is what any guard g with g L^2 < 2^-53 produces) the observed derivative is 0 and the required
    perturbation is the whole 1 - cos (1e-6 L) >= 1e-12 L^2 / 2 - 1e-24 L^4 / 24, far above 2^-51 for L >= 0.05 *)
Theorem f64_zero_observation_outside_band L E : 0.05 <= L <= 100 -> / 2 ^ 51 < Rabs (f64_eta L E 0).
Proof.
  intros HL. unfold f64_eta. rewrite !Rmult_0_l, Rminus_0_r.
  assert (Hu : 0 <= 1e-6 * L) by nra.
  pose proof (cos_le_quartic _ Hu) as H.
  assert (Q : 1e-6 * L * (1e-6 * L) / 2 - 1e-6 * L * (1e-6 * L) * (1e-6 * L) * (1e-6 * L) / 24 <= 1 - cos (1e-6 * L)) by lra.
  assert (P : / 2 ^ 51 < 1e-6 * L * (1e-6 * L) / 2 - 1e-6 * L * (1e-6 * L) * (1e-6 * L) * (1e-6 * L) / 24).
  { assert (L2 : 0.0025 <= L * L) by nra. assert (L2' : L * L <= 10000) by nra.
    replace (1e-6 * L * (1e-6 * L) / 2 - 1e-6 * L * (1e-6 * L) * (1e-6 * L) * (1e-6 * L) / 24)
      with (1e-12 * (L * L) * (1 / 2 - 1e-12 * (L * L) / 24)) by field.
    assert (A : 0.49 <= 1 / 2 - 1e-12 * (L * L) / 24) by lra.
    assert (B : 0.0025 * 1e-12 * 0.49 <= 1e-12 * (L * L) * (1 / 2 - 1e-12 * (L * L) / 24)) by nra.
    assert (C : / 2 ^ 51 < 0.0025 * 1e-12 * 0.49).
    { apply Rmult_lt_reg_r with (2 ^ 51); [apply pow_lt; lra|]. rewrite Rinv_l by (apply pow_nonzero; lra).
      replace (2 ^ 51) with 2251799813685248 by (simpl; ring). lra. }
    lra. }
  rewrite Rabs_pos_eq; lra.
Qed.
