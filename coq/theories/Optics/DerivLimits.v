(** C05 proofs, part 2: the removable points.  Explicit bounds
      |d/dk C(k,L) + L^2/2| <= |k| L^4 / 6,    |d/dk S(k,L) + L^3/6| <= |k| L^5 / 30
    for 0 <= L, k <> 0, |k| L^2 <= 1, hence the limits of the quadrupole's d/dk1 entries as k1 -> 0;
    the derivative of the solenoid's continued sin(Lk)/k at k = 0. *)
From Coq Require Import Reals Lra Psatz Lia.
From Coquelicot Require Import Coquelicot.
From Cheetah Require Import Base.Mat Base.RealAux Optics.Maps Optics.CS Optics.Flow Optics.FlowProofs Optics.GuardProofs
  Optics.Deriv Optics.DerivProofs.
Open Scope R_scope.

(** * fifth-order Taylor remainders *)
Lemma ucos_lo u : 0 <= u -> 0 <= u * cos u - sin u + u * u * u / 3.
Proof.
  intros Hu. apply (nonneg_of_deriv (fun u => u * cos u - sin u + u * u * u / 3) (fun u => u * (u - sin u)) u);
    [rewrite cos_0, sin_0; field| | |lra].
  - intros x _. auto_derive; [exact I|field].
  - intros x Hx. pose proof (sin_le_u x (proj1 Hx)). nra.
Qed.
Lemma ucos_hi u : 0 <= u -> 0 <= u * u * u * u * u / 30 - (u * cos u - sin u + u * u * u / 3).
Proof.
  intros Hu.
  apply (nonneg_of_deriv (fun u => u * u * u * u * u / 30 - (u * cos u - sin u + u * u * u / 3))
                         (fun u => u * (u * u * u / 6 - (u - sin u))) u); [rewrite cos_0, sin_0; field| | |lra].
  - intros x _. auto_derive; [exact I|field].
  - intros x Hx. pose proof (sin_ge_cubic x (proj1 Hx)). nra.
Qed.
Lemma ucosh_lo u : 0 <= u -> 0 <= u * cosh u - sinh u - u * u * u / 3.
Proof.
  intros Hu. apply (nonneg_of_deriv (fun u => u * cosh u - sinh u - u * u * u / 3) (fun u => u * (sinh u - u)) u);
    [rewrite cosh_0, sinh_0; field| | |lra].
  - intros x _. unfold cosh, sinh. auto_derive; [exact I|field].
  - intros x Hx. pose proof (sinh_ge_u x (proj1 Hx)). nra.
Qed.
Lemma ucosh_hi u : 0 <= u <= 1 -> 0 <= u * u * u * u * u / 15 - (u * cosh u - sinh u - u * u * u / 3).
Proof.
  intros Hu.
  apply (nonneg_of_deriv (fun u => u * u * u * u * u / 15 - (u * cosh u - sinh u - u * u * u / 3))
                         (fun u => u * (u * u * u / 3 - (sinh u - u))) 1); [rewrite cosh_0, sinh_0; field| | |exact Hu].
  - intros x _. unfold cosh, sinh. auto_derive; [exact I|field].
  - intros x Hx. pose proof (sinh_le_cubic x Hx). nra.
Qed.

Lemma div_le_compat a b w : 0 < w -> a <= b -> a / w <= b / w.
Proof. intros Hw H. unfold Rdiv. apply Rmult_le_compat_r; [left; apply Rinv_0_lt_compat; exact Hw|exact H]. Qed.
Lemma div_nonneg a w : 0 < w -> 0 <= a -> 0 <= a / w.
Proof. intros Hw H. unfold Rdiv. apply Rmult_le_pos; [exact H|left; apply Rinv_0_lt_compat; exact Hw]. Qed.

(** * focusing side, k > 0 *)
Section Pos.
Variables (k L : R).
Hypothesis Hk : 0 < k.
Hypothesis HL : 0 <= L.
Let w := sqrt k.
Let u := w * L.
Lemma pw_pos : 0 < w. Proof. apply sqrt_lt_R0. exact Hk. Qed.
Lemma pw_sq : w * w = k. Proof. apply sqrt_sqrt. lra. Qed.
Lemma pu_nonneg : 0 <= u. Proof. unfold u. pose proof pw_pos. nra. Qed.

Lemma dC_pos_eq : dCf_dk k L + L * L / 2 = L / 2 * ((u - sin u) / w).
Proof. unfold dCf_dk. rewrite Sf_pos by exact Hk. fold w. fold u. pose proof pw_pos. unfold u. field. lra. Qed.
Lemma dC_pos_bound : 0 <= dCf_dk k L + L * L / 2 <= k * (L * L * L * L) / 12.
Proof.
  rewrite dC_pos_eq. pose proof pw_pos as Hw. pose proof pu_nonneg as Hu.
  pose proof (sin_le_u u Hu) as H1. pose proof (sin_ge_cubic u Hu) as H2.
  assert (A : 0 <= (u - sin u) / w) by (apply div_nonneg; lra).
  assert (B : (u - sin u) / w <= (u * u * u / 6) / w) by (apply div_le_compat; lra).
  assert (E : (u * u * u / 6) / w = k * (L * L * L) / 6) by (unfold u; rewrite <- pw_sq; field; lra).
  rewrite E in B. split; [nra|]. 
  replace (k * (L * L * L * L) / 12) with (L / 2 * (k * (L * L * L) / 6)) by field. 
  apply Rmult_le_compat_l; lra.
Qed.
Lemma dS_pos_eq : dSf_dk k L + L * L * L / 6 = (u * cos u - sin u + u * u * u / 3) / (2 * (w * w * w)).
Proof.
  unfold dSf_dk. rewrite Sf_pos, Cf_pos by exact Hk. fold w. fold u. pose proof pw_pos. rewrite <- pw_sq. unfold u. field. lra.
Qed.
Lemma dS_pos_bound : 0 <= dSf_dk k L + L * L * L / 6 <= k * (L * L * L * L * L) / 60.
Proof.
  rewrite dS_pos_eq. pose proof pw_pos as Hw. pose proof pu_nonneg as Hu.
  pose proof (ucos_lo u Hu) as H1. pose proof (ucos_hi u Hu) as H2.
  assert (W : 0 < 2 * (w * w * w)) by (assert (0 < w * w) by nra; nra).
  split; [apply div_nonneg; lra|].
  replace (k * (L * L * L * L * L) / 60) with ((u * u * u * u * u / 30) / (2 * (w * w * w)))
    by (unfold u; rewrite <- pw_sq; field; lra).
  apply div_le_compat; lra.
Qed.
End Pos.

(** * defocusing side, k < 0 *)
Section Neg.
Variables (k L : R).
Hypothesis Hk : k < 0.
Hypothesis HL : 0 <= L.
Hypothesis Hbox : - k * (L * L) <= 1.
Let w := sqrt (- k).
Let u := w * L.
Lemma nw_pos : 0 < w. Proof. apply sqrt_lt_R0. lra. Qed.
Lemma nw_sq : w * w = - k. Proof. apply sqrt_sqrt. lra. Qed.
Lemma nu_range : 0 <= u <= 1.
Proof.
  pose proof nw_pos. pose proof nw_sq. assert (0 <= u) by (unfold u; nra). split; [assumption|].
  assert (u * u <= 1) by (unfold u; replace (w * L * (w * L)) with (w * w * (L * L)) by ring; rewrite nw_sq; exact Hbox).
  destruct (Rle_dec u 1); [assumption|]. exfalso. nra.
Qed.
Lemma dC_neg_eq : dCf_dk k L + L * L / 2 = - (L / 2 * ((sinh u - u) / w)).
Proof. unfold dCf_dk. rewrite Sf_neg by exact Hk. fold w. fold u. pose proof nw_pos. unfold u. field. lra. Qed.
Lemma dC_neg_bound : - (- k * (L * L * L * L) / 6) <= dCf_dk k L + L * L / 2 <= 0.
Proof.
  rewrite dC_neg_eq. pose proof nw_pos as Hw. pose proof nu_range as Hu.
  pose proof (sinh_ge_u u (proj1 Hu)) as H1. pose proof (sinh_le_cubic u Hu) as H2.
  assert (A : 0 <= (sinh u - u) / w) by (apply div_nonneg; lra).
  assert (B : (sinh u - u) / w <= (u * u * u / 3) / w) by (apply div_le_compat; lra).
  assert (E : (u * u * u / 3) / w = - k * (L * L * L) / 3) by (unfold u; rewrite <- nw_sq; field; lra).
  rewrite E in B. split; [|nra].
  replace (- k * (L * L * L * L) / 6) with (L / 2 * (- k * (L * L * L) / 3)) by field.
  apply Ropp_le_contravar. apply Rmult_le_compat_l; lra.
Qed.
Lemma dS_neg_eq : dSf_dk k L + L * L * L / 6 = - ((u * cosh u - sinh u - u * u * u / 3) / (2 * (w * w * w))).
Proof.
  unfold dSf_dk. rewrite Sf_neg, Cf_neg by exact Hk. fold w. fold u. pose proof nw_pos.
  replace k with (- (w * w)) by (rewrite nw_sq; ring). unfold u. field. lra.
Qed.
Lemma dS_neg_bound : - (- k * (L * L * L * L * L) / 30) <= dSf_dk k L + L * L * L / 6 <= 0.
Proof.
  rewrite dS_neg_eq. pose proof nw_pos as Hw. pose proof nu_range as Hu.
  pose proof (ucosh_lo u (proj1 Hu)) as H1. pose proof (ucosh_hi u Hu) as H2.
  assert (W : 0 < 2 * (w * w * w)) by (assert (0 < w * w) by nra; nra).
  assert (A : 0 <= (u * cosh u - sinh u - u * u * u / 3) / (2 * (w * w * w))) by (apply div_nonneg; lra).
  split; [|lra]. apply Ropp_le_contravar.
  replace (- k * (L * L * L * L * L) / 30) with ((u * u * u * u * u / 15) / (2 * (w * w * w)))
    by (unfold u; rewrite <- nw_sq; field; lra).
  apply div_le_compat; lra.
Qed.
End Neg.

(** * both signs *)
Theorem dCf_dk_bound k L : k <> 0 -> 0 <= L -> Rabs k * (L * L) <= 1 ->
  Rabs (dCf_dk k L + L * L / 2) <= Rabs k * (L * L * L * L) / 6.
Proof.
  intros Hk HL Hb. assert (L4 : 0 <= L * L * L * L) by (assert (0 <= L * L) by nra; nra).
  destruct (Rlt_dec 0 k) as [Hp|Hn].
  - rewrite (Rabs_pos_eq k) in * by lra. pose proof (dC_pos_bound k L Hp HL). apply Rabs_le. split; nra.
  - assert (Hk' : k < 0) by lra. rewrite (Rabs_left k) in * by exact Hk'.
    pose proof (dC_neg_bound k L Hk' HL Hb). apply Rabs_le. split; lra.
Qed.
Theorem dSf_dk_bound k L : k <> 0 -> 0 <= L -> Rabs k * (L * L) <= 1 ->
  Rabs (dSf_dk k L + L * L * L / 6) <= Rabs k * (L * L * L * L * L) / 30.
Proof.
  intros Hk HL Hb. assert (L5 : 0 <= L * L * L * L * L) by (assert (0 <= L * L) by nra; assert (0 <= L * L * L * L) by nra; nra).
  destruct (Rlt_dec 0 k) as [Hp|Hn].
  - rewrite (Rabs_pos_eq k) in * by lra. pose proof (dS_pos_bound k L Hp HL). apply Rabs_le. split; nra.
  - assert (Hk' : k < 0) by lra. rewrite (Rabs_left k) in * by exact Hk'.
    pose proof (dS_neg_bound k L Hk' HL Hb). apply Rabs_le. split; lra.
Qed.

(** * a bound |f k - l| <= C |k| near 0 gives the limit *)
Definition tends_to_at0 (f : R -> R) (l : R) : Prop :=
  forall eps, 0 < eps -> exists delta, 0 < delta /\ forall k, k <> 0 -> Rabs k < delta -> Rabs (f k - l) < eps.
Lemma bound_gives_limit (f : R -> R) (l C b : R) : 0 < b -> 0 <= C ->
  (forall k, k <> 0 -> Rabs k <= b -> Rabs (f k - l) <= C * Rabs k) -> tends_to_at0 f l.
Proof.
  intros Hb HC H eps He.
  exists (Rmin b (eps / (C + 1))). 
  assert (Hd : 0 < eps / (C + 1)) by (apply Rdiv_lt_0_compat; lra).
  split; [apply Rmin_glb_lt; assumption|].
  intros k Hk Hlt. pose proof (Rmin_l b (eps / (C + 1))). pose proof (Rmin_r b (eps / (C + 1))).
  assert (Hkb : Rabs k <= b) by lra. pose proof (H k Hk Hkb) as Hf.
  assert (Hk2 : Rabs k < eps / (C + 1)) by lra.
  assert (Hm : (C + 1) * Rabs k < eps).
  { replace eps with ((C + 1) * (eps / (C + 1))) by (field; lra). apply Rmult_lt_compat_l; lra. }
  pose proof (Rabs_pos k). nra.
Qed.

Theorem quad_dk1_R11_limit L E : 0 < L -> tends_to_at0 (fun k1 => m7nth (dquad_dk1 L k1 E) 0 0) (m7nth (dquad_dk1_lim L) 0 0).
Proof.
  intros HL. cbv [m7nth v7nth dquad_dk1 dquad_dk1_lim row c0 c1 c2 c3 c4 c5 c6].
  assert (L2 : 0 < L * L) by nra.
  apply (bound_gives_limit _ _ (L * L * L * L / 6) (1 / (L * L))); [apply Rdiv_lt_0_compat; lra|nra|].
  intros k Hk Hb.
  assert (Hbox : Rabs k * (L * L) <= 1).
  { replace 1 with (1 / (L * L) * (L * L)) by (field; lra). apply Rmult_le_compat_r; lra. }
  pose proof (dCf_dk_bound k L Hk (Rlt_le _ _ HL) Hbox) as B.
  replace (dCf_dk k L - - (L * L) / 2) with (dCf_dk k L + L * L / 2) by field. lra.
Qed.
Theorem quad_dk1_R12_limit L E : 0 < L -> tends_to_at0 (fun k1 => m7nth (dquad_dk1 L k1 E) 0 1) (m7nth (dquad_dk1_lim L) 0 1).
Proof.
  intros HL. cbv [m7nth v7nth dquad_dk1 dquad_dk1_lim row c0 c1 c2 c3 c4 c5 c6].
  assert (L2 : 0 < L * L) by nra. assert (L5 : 0 <= L * L * L * L * L) by (assert (0 < L * L * L * L) by nra; nra).
  apply (bound_gives_limit _ _ (L * L * L * L * L / 30) (1 / (L * L))); [apply Rdiv_lt_0_compat; lra|lra|].
  intros k Hk Hb.
  assert (Hbox : Rabs k * (L * L) <= 1).
  { replace 1 with (1 / (L * L) * (L * L)) by (field; lra). apply Rmult_le_compat_r; lra. }
  pose proof (dSf_dk_bound k L Hk (Rlt_le _ _ HL) Hbox) as B.
  replace (dSf_dk k L - - (L * L * L) / 6) with (dSf_dk k L + L * L * L / 6) by field. lra.
Qed.

(** * solenoid: the continued s_k(k) = sin(L k)/k (= L at k = 0) is differentiable at k = 0 with derivative 0 *)
Lemma sin_cubic_abs x : Rabs (sin x - x) <= Rabs x * Rabs x * Rabs x / 6.
Proof.
  destruct (Rle_dec 0 x) as [Hx|Hx].
  - rewrite (Rabs_pos_eq x) by exact Hx. pose proof (sin_le_u x Hx). pose proof (sin_ge_cubic x Hx). apply Rabs_le. split; lra.
  - assert (Hx' : 0 <= - x) by lra. rewrite (Rabs_left x) by lra.
    pose proof (sin_le_u (- x) Hx') as H1. pose proof (sin_ge_cubic (- x) Hx') as H2. rewrite sin_neg in *.
    apply Rabs_le. split; lra.
Qed.
Theorem sol_sk_derive_0 L : is_derive (sol_sk L) 0 0.
Proof.
  (* |s_k(h) - L| <= |h|^2 |L|^3 / 6, so the difference quotient tends to 0 *)
  apply is_derive_Reals. intros eps He.
  set (C := Rabs L * Rabs L * Rabs L / 6 + 1).
  assert (HL3 : 0 <= Rabs L * Rabs L * Rabs L / 6) by (pose proof (Rabs_pos L); assert (0 <= Rabs L * Rabs L) by nra; nra).
  assert (HC : 0 < C) by (unfold C; lra).
  assert (Hd : 0 < eps / C) by (apply Rdiv_lt_0_compat; assumption).
  exists (mkposreal _ Hd). intros h Hh0 Hh. simpl in Hh.
  rewrite Rplus_0_l. unfold sol_sk. destruct (Req_EM_T 0 0) as [_|n]; [|contradiction].
  destruct (Req_EM_T h 0) as [e|_]; [contradiction|].
  replace ((sin (L * h) / h - L) / h - 0) with ((sin (L * h) - L * h) * / (h * h)) by (field; exact Hh0).
  pose proof (sin_cubic_abs (L * h)) as Hs. rewrite Rabs_mult in Hs.
  assert (Hak : 0 < Rabs h) by (apply Rabs_pos_lt; exact Hh0).
  rewrite Rabs_mult, Rabs_inv, Rabs_mult.
  assert (Hq : Rabs (sin (L * h) - L * h) * / (Rabs h * Rabs h) <= Rabs L * Rabs L * Rabs L / 6 * Rabs h).
  { apply (Rmult_le_reg_r (Rabs h * Rabs h)); [nra|].
    replace (Rabs (sin (L * h) - L * h) * / (Rabs h * Rabs h) * (Rabs h * Rabs h)) with (Rabs (sin (L * h) - L * h)) by (field; lra).
    nra. }
  assert (Hk2 : Rabs h * C < eps).
  { replace eps with (eps / C * C) by (field; lra). apply Rmult_lt_compat_r; [exact HC|exact Hh]. }
  unfold C in Hk2. nra.
Qed.
