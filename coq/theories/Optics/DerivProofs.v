(** C05 proofs, part 1: the closed-form parameter derivatives of Deriv.v ARE the derivatives of the maps of
    Maps.v (Coquelicot [is_derive]), for all parameter values of the stated domains; product rule for 7x7
    matrix products. *)
From Coq Require Import Reals Lra Psatz Lia.
From Coquelicot Require Import Coquelicot.
From Cheetah Require Import Base.Mat Base.RealAux Optics.Maps Optics.CS Optics.Flow Optics.FlowProofs Optics.SolProofs
  Optics.ConjProofs Optics.Deriv.
Open Scope R_scope.

(** * locality helpers *)
Lemma locally_pos (k : R) (P : R -> Prop) : 0 < k -> (forall t, 0 < t -> P t) -> locally k P.
Proof.
  intros Hk H. exists (mkposreal k Hk). intros t Ht. apply H.
  unfold ball in Ht; simpl in Ht. unfold AbsRing_ball, abs, minus, plus, opp in Ht; simpl in Ht.
  apply Rabs_def2 in Ht. lra.
Qed.
Lemma locally_neg (k : R) (P : R -> Prop) : k < 0 -> (forall t, t < 0 -> P t) -> locally k P.
Proof.
  intros Hk H. assert (Hk' : 0 < - k) by lra. exists (mkposreal (- k) Hk'). intros t Ht. apply H.
  unfold ball in Ht; simpl in Ht. unfold AbsRing_ball, abs, minus, plus, opp in Ht; simpl in Ht.
  apply Rabs_def2 in Ht. lra.
Qed.
Lemma locally_nz (k : R) (P : R -> Prop) : k <> 0 -> (forall t, t <> 0 -> P t) -> locally k P.
Proof.
  intros Hk H. destruct (Rlt_dec 0 k).
  - apply locally_pos; [assumption|]. intros t Ht. apply H. lra.
  - apply locally_neg; [lra|]. intros t Ht. apply H. lra.
Qed.

Ltac dsc := repeat split; first [exact I | assumption | lra].

(** * d/dk of the pair, branch by branch *)
Lemma d_cos_sqrt_dk k L : 0 < k ->
  is_derive (fun t => cos (sqrt t * L)) k (- L / 2 * (sin (sqrt k * L) / sqrt k)).
Proof.
  intros Hk. pose proof (sqrt_pos_neq0 _ Hk) as Hs.
  auto_derive; [dsc|]. field. exact Hs.
Qed.
Lemma d_sin_sqrt_dk k L : 0 < k ->
  is_derive (fun t => sin (sqrt t * L) / sqrt t) k ((L * cos (sqrt k * L) - sin (sqrt k * L) / sqrt k) / (2 * k)).
Proof.
  intros Hk. pose proof (sqrt_pos_neq0 _ Hk) as Hs. pose proof (sqrt_sq _ Hk) as Hk2.
  auto_derive; [dsc|].
  set (s := sqrt k) in *. rewrite Hk2. field. exact Hs.
Qed.
Lemma d_cosh_sqrt_dk k L : k < 0 ->
  is_derive (fun t => cosh (sqrt (- t) * L)) k (- L / 2 * (sinh (sqrt (- k) * L) / sqrt (- k))).
Proof.
  intros Hk. assert (Hk' : 0 < - k) by lra. pose proof (sqrt_pos_neq0 _ Hk') as Hs.
  unfold cosh, sinh. auto_derive; [dsc|]. field. exact Hs.
Qed.
Lemma d_sinh_sqrt_dk k L : k < 0 ->
  is_derive (fun t => sinh (sqrt (- t) * L) / sqrt (- t)) k
            ((L * cosh (sqrt (- k) * L) - sinh (sqrt (- k) * L) / sqrt (- k)) / (2 * k)).
Proof.
  intros Hk. assert (Hk' : 0 < - k) by lra. pose proof (sqrt_pos_neq0 _ Hk') as Hs. pose proof (sqrt_sq _ Hk') as Hk2.
  unfold cosh, sinh. auto_derive; [dsc|].
  set (s := sqrt (- k)) in *. replace k with (- (s * s)) by lra. field. exact Hs.
Qed.

Theorem is_derive_Cf_dk k L : k <> 0 -> is_derive (fun t => Cf t L) k (dCf_dk k L).
Proof.
  intros Hk. unfold dCf_dk. destruct (Rlt_dec 0 k) as [Hp|Hn].
  - apply (is_derive_ext_loc (fun t => cos (sqrt t * L))).
    + apply locally_pos; [exact Hp|]. intros t Ht. symmetry. apply Cf_pos. exact Ht.
    + rewrite Sf_pos by exact Hp. apply d_cos_sqrt_dk. exact Hp.
  - assert (Hk' : k < 0) by lra.
    apply (is_derive_ext_loc (fun t => cosh (sqrt (- t) * L))).
    + apply locally_neg; [exact Hk'|]. intros t Ht. symmetry. apply Cf_neg. exact Ht.
    + rewrite Sf_neg by exact Hk'. apply d_cosh_sqrt_dk. exact Hk'.
Qed.
Theorem is_derive_Sf_dk k L : k <> 0 -> is_derive (fun t => Sf t L) k (dSf_dk k L).
Proof.
  intros Hk. unfold dSf_dk. destruct (Rlt_dec 0 k) as [Hp|Hn].
  - apply (is_derive_ext_loc (fun t => sin (sqrt t * L) / sqrt t)).
    + apply locally_pos; [exact Hp|]. intros t Ht. symmetry. apply Sf_pos. exact Ht.
    + rewrite Sf_pos, Cf_pos by exact Hp. apply d_sin_sqrt_dk. exact Hp.
  - assert (Hk' : k < 0) by lra.
    apply (is_derive_ext_loc (fun t => sinh (sqrt (- t) * L) / sqrt (- t))).
    + apply locally_neg; [exact Hk'|]. intros t Ht. symmetry. apply Sf_neg. exact Ht.
    + rewrite Sf_neg, Cf_neg by exact Hk'. apply d_sinh_sqrt_dk. exact Hk'.
Qed.
(* the same at -k (the y plane of a quadrupole) *)
Lemma is_derive_Cf_dk_opp k L : k <> 0 -> is_derive (fun t => Cf (- t) L) k (- dCf_dk (- k) L).
Proof.
  intros Hk. assert (Hk' : - k <> 0) by lra.
  evar_last. apply (is_derive_comp (fun u => Cf u L) (fun t => - t) k (dCf_dk (- k) L) (-1)).
  - apply is_derive_Cf_dk. exact Hk'.
  - auto_derive; [exact I|ring].
  - unfold scal; simpl. unfold mult; simpl. ring.
Qed.
Lemma is_derive_Sf_dk_opp k L : k <> 0 -> is_derive (fun t => Sf (- t) L) k (- dSf_dk (- k) L).
Proof.
  intros Hk. assert (Hk' : - k <> 0) by lra.
  evar_last. apply (is_derive_comp (fun u => Sf u L) (fun t => - t) k (dSf_dk (- k) L) (-1)).
  - apply is_derive_Sf_dk. exact Hk'.
  - auto_derive; [exact I|ring].
  - unfold scal; simpl. unfold mult; simpl. ring.
Qed.

(** * Quadrupole body: d/dk1 for k1 <> 0, all 49 entries *)
Lemma Dfun' (f : R -> R) (s d : R) : is_derive f s d -> Derive (fun x : R => f x) s = d.
Proof. intros H. apply is_derive_unique. exact H. Qed.

Lemma is_derive_cst_ext (f : R -> R) (a x : R) : (forall t, f t = a) -> is_derive f x 0.
Proof. intros H. apply (is_derive_ext (fun _ => a)); [intros t; symmetry; apply H|]. apply @is_derive_const. Qed.

Lemma quad_body_nz L k E : k <> 0 ->
  base_untilted L k 0 E =
  mk7 (row (Cf k L) (Sf k L) 0 0 0 (0 / k * (1 - Cf k L) / beta_of E) 0)
      (row (- k * Sf k L) (Cf k L) 0 0 0 (Sf k L * 0 / beta_of E) 0)
      (row 0 0 (Cf (- k) L) (Sf (- k) L) 0 0 0)
      (row 0 0 (- - k * Sf (- k) L) (Cf (- k) L) 0 0 0)
      (row (Sf k L * 0 / beta_of E) (0 / k * (1 - Cf k L) / beta_of E) 0 0 1
           (0² * (L - Sf k L) / k / (beta_of E)² - L / (beta_of E)² * igamma2_of E) 0)
      (row 0 0 0 0 0 1 0) (row 0 0 0 0 0 0 1).
Proof.
  intros Hk. unfold base_untilted, dx, r56, cx, sx, cy, sy. rewrite kx2_quad, ky2_nz by exact Hk. reflexivity.
Qed.

Theorem deriv_quad_k1 L k1 E : k1 <> 0 ->
  m7_derive (fun k => base_untilted L k 0 E) k1 (dquad_dk1 L k1 E).
Proof.
  intros Hk i j Hi Hj.
  pose proof (is_derive_Cf_dk k1 L Hk) as HC. pose proof (is_derive_Sf_dk k1 L Hk) as HS.
  pose proof (is_derive_Cf_dk_opp k1 L Hk) as HCo. pose proof (is_derive_Sf_dk_opp k1 L Hk) as HSo.
  eapply is_derive_ext_loc.
  { apply locally_nz; [exact Hk|]. intros t Ht. rewrite (quad_body_nz L t E Ht). reflexivity. }
  assert (HS' : is_derive (fun x => Sf x L) (- k1) (dSf_dk (- k1) L)) by (apply is_derive_Sf_dk; lra).
  split49 i j Hi Hj; cbv [dquad_dk1 zrow]; mcbv;
  first
  [ exact HC | exact HS | exact HCo | exact HSo
  | eapply is_derive_cst_ext; intros t; reflexivity
  | apply (is_derive_cst_ext _ 0); intros t; unfold Rdiv, Rsqr; ring
  | apply (is_derive_cst_ext _ (- L / (beta_of E)² * igamma2_of E)); intros t; unfold Rdiv, Rsqr; ring
  | (* -k S(k) *)
    auto_derive; [eexists; exact HS | rewrite (Dfun' _ _ _ HS); ring]
  | (* - - k S(-k) *)
    auto_derive; [eexists; exact HS' | rewrite (Dfun' _ _ _ HS'); ring] ].
Qed.

(** * d/dL: the C02 flow theorems, re-read as derivative statements *)
Theorem deriv_quad_L L k1 E : k1 <> 0 -> m7_derive (fun s => base_untilted s k1 0 E) L (dquad_dL L k1 E).
Proof. intros H. exact (proj2 (quad_flow k1 E H) L). Qed.
Theorem deriv_sbend_L L k1 hx E : k1 <> 0 -> k1 + hx² <> 0 ->
  m7_derive (fun s => base_untilted s k1 hx E) L (dsbend_dL L k1 hx E).
Proof. intros H1 H2. exact (proj2 (sbend_flow_k1 k1 hx E H1 H2) L). Qed.
Theorem deriv_sol_L L k E : m_e < E -> k <> 0 -> m7_derive (fun s => sol_body s k E) L (dsol_dL L k E).
Proof. intros HE Hk. exact (proj2 (solenoid_flow k E HE Hk) L). Qed.

Ltac dlin := mcbv; auto_derive; [ repeat split; exact I | unfold Rdiv, Rsqr; rewrite ?Rinv_mult; ring ].

Theorem deriv_drift_L L E : m7_derive (fun s => drift_map s E) L (ddrift_dL E).
Proof. intros i j Hi Hj. split49 i j Hi Hj; cbv [drift_map drift_r56 ddrift_dL zrow]; dlin. Qed.
Theorem deriv_hcor_L L a E : m7_derive (fun s => hcor_map s a E) L (ddrift_dL E).
Proof. intros i j Hi Hj. split49 i j Hi Hj; cbv [hcor_map drift_r56 ddrift_dL zrow]; dlin. Qed.
Theorem deriv_vcor_L L a E : m7_derive (fun s => vcor_map s a E) L (ddrift_dL E).
Proof. intros i j Hi Hj. split49 i j Hi Hj; cbv [vcor_map drift_r56 ddrift_dL zrow]; dlin. Qed.
Theorem deriv_hcor_angle L a E : m7_derive (fun t => hcor_map L t E) a dhcor_dangle.
Proof. intros i j Hi Hj. split49 i j Hi Hj; cbv [hcor_map dhcor_dangle zrow]; dlin. Qed.
Theorem deriv_vcor_angle L a E : m7_derive (fun t => vcor_map L t E) a dvcor_dangle.
Proof. intros i j Hi Hj. split49 i j Hi Hj; cbv [vcor_map dvcor_dangle zrow]; dlin. Qed.

(** * Solenoid body: d/dk for k <> 0 *)
Lemma sol_body_nz L k E : k <> 0 ->
  sol_body L k E =
  let c := cos (L * k) in let s := sin (L * k) in let sk := s / k in
  mk7 (row (c²) (c * sk) (s * c) (s * sk) 0 0 0)
      (row (- k * s * c) (c²) (- k * s²) (s * c) 0 0 0)
      (row (- s * c) (- s * sk) (c²) (c * sk) 0 0 0)
      (row (k * s²) (- s * c) (- k * s * c) (c²) 0 0 0)
      (row 0 0 0 0 1 (sol_r56 L E) 0) (row 0 0 0 0 0 1 0) (row 0 0 0 0 0 0 1).
Proof. intros H. unfold sol_body, sol_sk. destruct (Req_EM_T k 0); [contradiction|reflexivity]. Qed.

Theorem deriv_sol_k L k E : k <> 0 -> m7_derive (fun t => sol_body L t E) k (dsol_dk L k E).
Proof.
  intros Hk i j Hi Hj.
  eapply is_derive_ext_loc.
  { apply locally_nz; [exact Hk|]. intros t Ht. rewrite (sol_body_nz L t E Ht). reflexivity. }
  split49 i j Hi Hj; cbv [dsol_dk zrow]; mcbv;
  (auto_derive; [ repeat split; first [exact I | exact Hk] | unfold Rsqr; try ring; field; exact Hk ]).
Qed.

(** * rotation *)
Theorem deriv_rot a : m7_derive rot a (drot a).
Proof. intros i j Hi Hj. split49 i j Hi Hj; cbv [rot drot zrow]; mcbv; (auto_derive; [ repeat split; exact I | ring ]). Qed.
Lemma deriv_rot_opp a : m7_derive (fun t => rot (- t)) a (rmscale (-1) (drot (- a))).
Proof.
  intros i j Hi Hj. split49 i j Hi Hj; cbv [rot drot zrow mscale vscale v7map]; mcbv; (auto_derive; [ repeat split; exact I | ring ]).
Qed.

(** * product rule for 7x7 matrix products *)
Lemma m7nth_mmul (A B : M7 R) i j : (i < 7)%nat -> (j < 7)%nat ->
  m7nth (rmmul A B) i j =
  m7nth A i 0 * m7nth B 0 j + m7nth A i 1 * m7nth B 1 j + m7nth A i 2 * m7nth B 2 j + m7nth A i 3 * m7nth B 3 j
  + m7nth A i 4 * m7nth B 4 j + m7nth A i 5 * m7nth B 5 j + m7nth A i 6 * m7nth B 6 j.
Proof. intros Hi Hj. split49 i j Hi Hj; reflexivity. Qed.
Lemma m7nth_madd (A B : M7 R) i j : (i < 7)%nat -> (j < 7)%nat -> m7nth (rmadd A B) i j = m7nth A i j + m7nth B i j.
Proof. intros Hi Hj. split49 i j Hi Hj; reflexivity. Qed.

Lemma bil7 (f0 f1 f2 f3 f4 f5 f6 g0 g1 g2 g3 g4 g5 g6 : R -> R) (a0 a1 a2 a3 a4 a5 a6 b0 b1 b2 b3 b4 b5 b6 s : R) :
  is_derive f0 s a0 -> is_derive f1 s a1 -> is_derive f2 s a2 -> is_derive f3 s a3 ->
  is_derive f4 s a4 -> is_derive f5 s a5 -> is_derive f6 s a6 ->
  is_derive g0 s b0 -> is_derive g1 s b1 -> is_derive g2 s b2 -> is_derive g3 s b3 ->
  is_derive g4 s b4 -> is_derive g5 s b5 -> is_derive g6 s b6 ->
  is_derive (fun t => f0 t * g0 t + f1 t * g1 t + f2 t * g2 t + f3 t * g3 t + f4 t * g4 t + f5 t * g5 t + f6 t * g6 t) s
    ((a0 * g0 s + a1 * g1 s + a2 * g2 s + a3 * g3 s + a4 * g4 s + a5 * g5 s + a6 * g6 s)
     + (f0 s * b0 + f1 s * b1 + f2 s * b2 + f3 s * b3 + f4 s * b4 + f5 s * b5 + f6 s * b6)).
Proof.
  intros F0 F1 F2 F3 F4 F5 F6 G0 G1 G2 G3 G4 G5 G6. auto_derive.
  - repeat split; try exact I; eexists; eassumption.
  - rewrite (Dfun' f0 s a0 F0), (Dfun' f1 s a1 F1), (Dfun' f2 s a2 F2), (Dfun' f3 s a3 F3), (Dfun' f4 s a4 F4),
      (Dfun' f5 s a5 F5), (Dfun' f6 s a6 F6), (Dfun' g0 s b0 G0), (Dfun' g1 s b1 G1), (Dfun' g2 s b2 G2), (Dfun' g3 s b3 G3),
      (Dfun' g4 s b4 G4), (Dfun' g5 s b5 G5), (Dfun' g6 s b6 G6). ring.
Qed.

Theorem deriv_mmul (A B : R -> M7 R) (s : R) (DA DB : M7 R) :
  m7_derive A s DA -> m7_derive B s DB ->
  m7_derive (fun t => rmmul (A t) (B t)) s (rmadd (rmmul DA (B s)) (rmmul (A s) DB)).
Proof.
  intros HA HB i j Hi Hj.
  eapply is_derive_ext. { intros t. symmetry. apply m7nth_mmul; assumption. }
  rewrite m7nth_madd, !m7nth_mmul by assumption.
  apply (bil7 (fun t => m7nth (A t) i 0) (fun t => m7nth (A t) i 1) (fun t => m7nth (A t) i 2) (fun t => m7nth (A t) i 3)
              (fun t => m7nth (A t) i 4) (fun t => m7nth (A t) i 5) (fun t => m7nth (A t) i 6)
              (fun t => m7nth (B t) 0 j) (fun t => m7nth (B t) 1 j) (fun t => m7nth (B t) 2 j) (fun t => m7nth (B t) 3 j)
              (fun t => m7nth (B t) 4 j) (fun t => m7nth (B t) 5 j) (fun t => m7nth (B t) 6 j));
  first [ apply HA; (assumption || lia) | apply HB; (assumption || lia) ].
Qed.
Lemma deriv_const (M : M7 R) s : m7_derive (fun _ => M) s rZ.
Proof. intros i j Hi Hj. split49 i j Hi Hj; apply @is_derive_const. Qed.

(* derivative through a whole segment: if every element map M_k(theta) is entrywise derivable, so is the product *)
Theorem deriv_segment2 (M1 M2 : R -> M7 R) s D1 D2 : m7_derive M1 s D1 -> m7_derive M2 s D2 ->
  m7_derive (fun t => rmmul (M2 t) (M1 t)) s (rmadd (rmmul D2 (M1 s)) (rmmul (M2 s) D1)).
Proof. intros H1 H2. apply deriv_mmul; assumption. Qed.
Theorem deriv_segment3 (M1 M2 M3 : R -> M7 R) s D1 D2 D3 : m7_derive M1 s D1 -> m7_derive M2 s D2 -> m7_derive M3 s D3 ->
  m7_derive (fun t => rmmul (M3 t) (rmmul (M2 t) (M1 t))) s
            (rmadd (rmmul D3 (rmmul (M2 s) (M1 s))) (rmmul (M3 s) (rmadd (rmmul D2 (M1 s)) (rmmul (M2 s) D1)))).
Proof. intros H1 H2 H3. apply (deriv_mmul M3 (fun t => rmmul (M2 t) (M1 t))); [assumption|]. apply deriv_mmul; assumption. Qed.

(** * tilt conjugation *)
Theorem deriv_tilt_conj (M : M7 R) t : m7_derive (tilt_conj M) t (dtilt_conj M t).
Proof.
  unfold tilt_conj, dtilt_conj.
  apply (deriv_mmul (fun t => rot (- t)) (fun t => rmmul M (rot t))).
  - apply deriv_rot_opp.
  - apply m7_derive_mmul_l. apply deriv_rot.
Qed.
Lemma dtilt_conj_at0 (M : M7 R) : dtilt_conj M 0 = dtilt_conj_0 M.
Proof.
  unfold dtilt_conj, dtilt_conj_0. rewrite Ropp_0, rot_0. unfold rI. rewrite rI_r, rI_l. reflexivity.
Qed.

(** * misalignment conjugation *)
Lemma deriv_shift_x mx my : m7_derive (fun t => shift t my) mx dshift_x.
Proof. intros i j Hi Hj. split49 i j Hi Hj; cbv [shift dshift_x zrow]; dlin. Qed.
Lemma deriv_shift_y mx my : m7_derive (fun t => shift mx t) my dshift_y.
Proof. intros i j Hi Hj. split49 i j Hi Hj; cbv [shift dshift_y zrow]; dlin. Qed.
Lemma deriv_shift_x_opp mx my : m7_derive (fun t => shift (- t) (- my)) mx (rmscale (-1) dshift_x).
Proof. intros i j Hi Hj. split49 i j Hi Hj; cbv [shift dshift_x zrow mscale vscale v7map]; dlin. Qed.
Lemma deriv_shift_y_opp mx my : m7_derive (fun t => shift (- mx) (- t)) my (rmscale (-1) dshift_y).
Proof. intros i j Hi Hj. split49 i j Hi Hj; cbv [shift dshift_y zrow mscale vscale v7map]; dlin. Qed.

Theorem deriv_mis_mx (M : M7 R) mx my : m7_derive (fun t => mis_conj M t my) mx (dmis_dmx M mx my).
Proof.
  unfold mis_conj, dmis_dmx, mis_exit, mis_entry.
  apply (deriv_mmul (fun t => shift t my) (fun t => rmmul M (shift (- t) (- my)))).
  - apply deriv_shift_x.
  - apply m7_derive_mmul_l. apply deriv_shift_x_opp.
Qed.
Theorem deriv_mis_my (M : M7 R) mx my : m7_derive (fun t => mis_conj M mx t) my (dmis_dmy M mx my).
Proof.
  unfold mis_conj, dmis_dmy, mis_exit, mis_entry.
  apply (deriv_mmul (fun t => shift mx t) (fun t => rmmul M (shift (- mx) (- t)))).
  - apply deriv_shift_y.
  - apply m7_derive_mmul_l. apply deriv_shift_y_opp.
Qed.
(* the affine column, explicitly: d/dmx (mis_conj M)[i][6] = delta i 0 - M[i][0],  d/dmy = delta i 2 - M[i][2] *)
Theorem dmis_col6 (M : M7 R) mx my i : affine M -> (i < 7)%nat ->
  m7nth (dmis_dmx M mx my) i 6 = delta i 0 - m7nth M i 0 /\ m7nth (dmis_dmy M mx my) i 6 = delta i 2 - m7nth M i 2.
Proof.
  intros HA Hi. unfold affine in HA. destruct M as [r0 r1 r2 r3 r4 r5 r6]. cbv [c6] in HA. subst r6.
  destruct r0, r1, r2, r3, r4, r5.
  revert i Hi. apply lt7_cases;
  cbv [dmis_dmx dmis_dmy dshift_x dshift_y mis_entry mis_exit shift zrow madd vadd v7map2 mscale vscale v7map delta Nat.eqb]; mcbv; split; ring.
Qed.
