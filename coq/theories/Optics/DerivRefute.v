(** C05 proofs, part 3: where the faithful model of the code does NOT have the property.
    - F6: at k1 = 0 the program autograd differentiates is constant in k1 (masked in-place write), so the AD value is
      exactly 0, while the derivative of the physical map tends to -L^2/2 (entry R11) as k1 -> 0.
    - F60/F61: the all-zero shortcuts for misalignment / tilt return a tensor that does not depend on the parameter.
    - F7: the backward pass of torch.where multiplies the gradient of the unselected branch by 0; that gradient contains
      a division by zero (Solenoid: sin(Lk)/k at k = 0; Cavity: Ei/Ep at voltage = 0), and 0 * NaN = NaN. *)
From Coq Require Import Reals Lra Psatz Lia.
From Coquelicot Require Import Coquelicot.
From Cheetah Require Import Base.Mat Base.RealAux Optics.Maps Optics.CS Optics.Flow Optics.FlowProofs Optics.ConjProofs
  Optics.Deriv Optics.DerivProofs Optics.DerivLimits.
Open Scope R_scope.

(** * F6 *)
Lemma k1_guard_trace_0 k : k1_guard_trace 0 k = 1e-12.
Proof. unfold k1_guard_trace. destruct (Req_EM_T 0 0); [reflexivity|contradiction]. Qed.
Lemma k1_guard_trace_nz k0 k : k0 <> 0 -> k1_guard_trace k0 k = k.
Proof. intros H. unfold k1_guard_trace. destruct (Req_EM_T k0 0); [contradiction|reflexivity]. Qed.

(* the trace evaluated at its own point is the map of Maps.v *)
Lemma base_untilted_guard L k hx E : base_untilted L (k1_guard k) hx E = base_untilted L k hx E.
Proof.
  assert (G : k1_guard (k1_guard k) = k1_guard k) by (apply k1_guard_nz, k1_guard_neq0).
  unfold base_untilted, dx, r56, cx, sx, cy, sy, kx2, ky2. rewrite G. reflexivity.
Qed.
Theorem quad_trace_self L k0 E : quad_trace L k0 E k0 = base_untilted L k0 0 E.
Proof.
  unfold quad_trace, k1_guard_trace. destruct (Req_EM_T k0 0) as [->|n]; [|reflexivity].
  rewrite <- (base_untilted_guard L 0 0 E), k1_guard_0. reflexivity.
Qed.
(* away from the guard the trace IS the map, so AD of the trace is the true derivative *)
Theorem quad_trace_deriv_nz L k0 E : k0 <> 0 -> m7_derive (quad_trace L k0 E) k0 (dquad_dk1 L k0 E).
Proof.
  intros H i j Hi Hj.
  apply (is_derive_ext (fun k => m7nth (base_untilted L k 0 E) i j)).
  - intros t. unfold quad_trace. rewrite k1_guard_trace_nz by exact H. reflexivity.
  - apply deriv_quad_k1; assumption.
Qed.
(* at the guard the trace is constant *)
Theorem quad_trace_deriv_0 L E : m7_derive (quad_trace L 0 E) 0 rZ.
Proof.
  intros i j Hi Hj.
  apply (is_derive_ext (fun _ => m7nth (base_untilted L 1e-12 0 E) i j)).
  - intros t. unfold quad_trace. rewrite k1_guard_trace_0. reflexivity.
  - apply (deriv_const (base_untilted L 1e-12 0 E) 0); assumption.
Qed.

Theorem quad_dk1_guard_refuted L E : 0 < L ->
  (* what autograd computes at k1 = 0: the derivative of the constant trace, exactly 0 in every entry *)
  m7_derive (quad_trace L 0 E) 0 rZ /\ m7nth rZ 0 0 = 0 /\ m7nth rZ 0 1 = 0 /\
  (* what the derivative of the map tends to *)
  tends_to_at0 (fun k1 => m7nth (dquad_dk1 L k1 E) 0 0) (- (L * L) / 2) /\
  tends_to_at0 (fun k1 => m7nth (dquad_dk1 L k1 E) 0 1) (- (L * L * L) / 6) /\
  - (L * L) / 2 <> 0 /\ - (L * L * L) / 6 <> 0.
Proof.
  intros HL. assert (0 < L * L) by nra. assert (0 < L * L * L) by nra.
  split; [apply quad_trace_deriv_0|]. split; [reflexivity|]. split; [reflexivity|].
  split; [exact (quad_dk1_R11_limit L E HL)|]. split; [exact (quad_dk1_R12_limit L E HL)|]. split; lra.
Qed.

(** * F60: misalignment == 0 shortcut *)
Lemma mis_trace_00 M : mis_trace M 0 0 = fun _ _ => M.
Proof. unfold mis_trace. destruct (Req_EM_T 0 0); [reflexivity|contradiction]. Qed.
Lemma mis_trace_nz M mx my : (mx <> 0 \/ my <> 0) -> mis_trace M mx my = mis_conj M.
Proof.
  intros H. unfold mis_trace. destruct (Req_EM_T mx 0) as [->|]; [|reflexivity].
  destruct (Req_EM_T my 0) as [->|]; [|reflexivity]. destruct H; contradiction.
Qed.
Theorem mis_zero_shortcut_refuted (M : M7 R) : affine M -> m7nth M 0 0 <> 1 ->
  m7_derive (fun t => mis_trace M 0 0 t 0) 0 rZ /\ m7nth rZ 0 6 = 0 /\
  m7_derive (fun t => mis_conj M t 0) 0 (dmis_dmx M 0 0) /\ m7nth (dmis_dmx M 0 0) 0 6 = 1 - m7nth M 0 0 /\
  m7nth (dmis_dmx M 0 0) 0 6 <> 0.
Proof.
  intros HA HM.
  destruct (dmis_col6 M 0 0 0 HA ltac:(lia)) as [E _]. change (delta 0 0) with 1 in E.
  split; [rewrite mis_trace_00; apply deriv_const|]. split; [reflexivity|].
  split; [apply deriv_mis_mx|]. split; [exact E|]. rewrite E. lra.
Qed.

(** * F61: tilt == 0 shortcut *)
Lemma tilt_trace_0 M : tilt_trace M 0 = fun _ => M.
Proof. unfold tilt_trace. destruct (Req_EM_T 0 0); [reflexivity|contradiction]. Qed.
Lemma dtilt_conj_0_02 (M : M7 R) : m7nth (dtilt_conj_0 M) 0 2 = m7nth M 0 0 - m7nth M 2 2.
Proof.
  destruct M as [r0 r1 r2 r3 r4 r5 r6]. destruct r0, r1, r2, r3, r4, r5, r6.
  cbv [dtilt_conj_0 drot zrow madd vadd v7map2 mscale vscale v7map]. mcbv. rewrite cos_0, sin_0. ring.
Qed.
Theorem tilt_zero_shortcut_refuted (M : M7 R) : m7nth M 0 0 <> m7nth M 2 2 ->
  m7_derive (tilt_trace M 0) 0 rZ /\ m7nth rZ 0 2 = 0 /\
  m7_derive (tilt_conj M) 0 (dtilt_conj_0 M) /\ m7nth (dtilt_conj_0 M) 0 2 <> 0.
Proof.
  intros HM. split; [rewrite tilt_trace_0; apply deriv_const|]. split; [reflexivity|].
  split; [rewrite <- dtilt_conj_at0; apply deriv_tilt_conj|]. rewrite dtilt_conj_0_02. lra.
Qed.

(** * F7: definedness *)
Lemma pdiv_by_0 x : pdiv x (Some 0) = None.
Proof. destruct x; simpl; [destruct (Req_EM_T 0 0); [reflexivity|contradiction]|reflexivity]. Qed.
Lemma where_bwd_nan_r sel ga : where_bwd sel ga None = None.
Proof. unfold where_bwd. destruct sel, ga; reflexivity. Qed.
Lemma where_bwd_nan_l sel gb : where_bwd sel None gb = None.
Proof. unfold where_bwd. destruct sel, gb; reflexivity. Qed.
Lemma where_bwd_def sel a b : where_bwd sel (Some a) (Some b) = Some (if sel then a else b).
Proof. unfold where_bwd. destruct sel; simpl; f_equal; ring. Qed.

Theorem sol_sk_grad_ad_nz L k : k <> 0 ->
  sol_sk_grad_ad L k = Some (L * cos (L * k) / k - sin (L * k) / (k * k)) /\
  is_derive (sol_sk L) k (L * cos (L * k) / k - sin (L * k) / (k * k)).
Proof.
  intros Hk. split.
  - unfold sol_sk_grad_ad, pdiv, psub. destruct (Req_EM_T k 0); [contradiction|].
    destruct (Req_EM_T (k * k) 0) as [e|_]; [exfalso; nra|]. rewrite where_bwd_def. reflexivity.
  - apply (is_derive_ext_loc (fun t => sin (L * t) / t)).
    + apply locally_nz; [exact Hk|]. intros t Ht. unfold sol_sk. destruct (Req_EM_T t 0); [contradiction|reflexivity].
    + auto_derive; [repeat split; first [exact I|exact Hk]|field; exact Hk].
Qed.
Theorem solenoid_dk_at0_refuted L :
  sol_sk_grad_ad L 0 = None /\ is_derive (sol_sk L) 0 0.
Proof.
  split; [|apply sol_sk_derive_0].
  unfold sol_sk_grad_ad. rewrite pdiv_by_0. simpl. apply where_bwd_nan_r.
Qed.

Lemma cav_Ep_V0 L phi E : cav_Ep L 0 phi E = 0.
Proof. unfold cav_Ep, cav_Ef, cav_Ei, cav_dE. unfold Rdiv. ring. Qed.
Theorem cavity_grad_at_V0_refuted L phi E (g_off : pR) : cav_r12_grad_ad L 0 phi E g_off = None.
Proof.
  unfold cav_r12_grad_ad, cav_r12_grad_Ep_ad. rewrite cav_Ep_V0, Rmult_0_l, pdiv_by_0. apply where_bwd_nan_l.
Qed.
Theorem cavity_grad_on_defined L V phi E g : V <> 0 -> L <> 0 -> cos phi <> 0 ->
  exists d, cav_r12_grad_ad L V phi E (Some g) = Some d.
Proof.
  intros HV HL Hc. unfold cav_r12_grad_ad, cav_r12_grad_Ep_ad, pdiv.
  assert (Hm : m_e <> 0) by (unfold m_e; lra).
  assert (HEp : cav_Ep L V phi E <> 0).
  { unfold cav_Ep, cav_Ef, cav_Ei, cav_dE. replace ((E + V * cos phi) / m_e - E / m_e) with (V * cos phi / m_e) by (field; exact Hm).
    unfold Rdiv. repeat apply Rmult_integral_contrapositive_currified; try assumption; apply Rinv_neq_0_compat; assumption. }
  destruct (Req_EM_T (cav_Ep L V phi E * cav_Ep L V phi E) 0) as [e|_]; [exfalso; apply Rmult_integral in e; tauto|].
  destruct (Req_EM_T V 0); [contradiction|]. rewrite where_bwd_def. eexists. reflexivity.
Qed.

(** non-vacuity: the limit matrix at L = 1 *)
Lemma dquad_dk1_lim_at1 : m7nth (dquad_dk1_lim 1) 0 0 = - (1 / 2) /\ m7nth (dquad_dk1_lim 1) 0 1 = - (1 / 6).
Proof. cbv [m7nth v7nth dquad_dk1_lim row c0 c1 c2 c3 c4 c5 c6]. split; field. Qed.

(** * finiteness: in the stated domains every entry of the maps is differentiable (the derivative exists as a real number),
      and the derivative w.r.t. k1 stays bounded on the whole punctured box around the removable point *)
Theorem quad_dk1_finite L k1 E i j : k1 <> 0 -> (i < 7)%nat -> (j < 7)%nat ->
  ex_derive (fun k => m7nth (base_untilted L k 0 E) i j) k1.
Proof. intros H Hi Hj. eexists. apply (deriv_quad_k1 L k1 E H i j Hi Hj). Qed.
Theorem sol_dk_finite L k E i j : k <> 0 -> (i < 7)%nat -> (j < 7)%nat ->
  ex_derive (fun t => m7nth (sol_body L t E) i j) k.
Proof. intros H Hi Hj. eexists. apply (deriv_sol_k L k E H i j Hi Hj). Qed.
Theorem quad_dk1_R11_R12_bounded L k1 E : k1 <> 0 -> 0 <= L -> Rabs k1 * (L * L) <= 1 ->
  Rabs (m7nth (dquad_dk1 L k1 E) 0 0) <= L * L / 2 + L * L / 6 /\
  Rabs (m7nth (dquad_dk1 L k1 E) 0 1) <= L * L * L / 6 + L * L * L / 30.
Proof.
  intros Hk HL Hb. cbv [m7nth v7nth dquad_dk1 row c0 c1 c2 c3 c4 c5 c6].
  pose proof (dCf_dk_bound k1 L Hk HL Hb) as B1. pose proof (dSf_dk_bound k1 L Hk HL Hb) as B2.
  assert (L2 : 0 <= L * L) by nra. assert (L3 : 0 <= L * L * L) by nra.
  assert (E1 : Rabs k1 * (L * L * L * L) / 6 <= L * L / 6).
  { replace (Rabs k1 * (L * L * L * L) / 6) with (Rabs k1 * (L * L) * (L * L) / 6) by field. nra. }
  assert (E2 : Rabs k1 * (L * L * L * L * L) / 30 <= L * L * L / 30).
  { replace (Rabs k1 * (L * L * L * L * L) / 30) with (Rabs k1 * (L * L) * (L * L * L) / 30) by field. nra. }
  split.
  - replace (dCf_dk k1 L) with ((dCf_dk k1 L + L * L / 2) + - (L * L / 2)) by ring.
    eapply Rle_trans; [apply Rabs_triang|]. rewrite Rabs_Ropp, (Rabs_pos_eq (L * L / 2)) by lra. lra.
  - replace (dSf_dk k1 L) with ((dSf_dk k1 L + L * L * L / 6) + - (L * L * L / 6)) by ring.
    eapply Rle_trans; [apply Rabs_triang|]. rewrite Rabs_Ropp, (Rabs_pos_eq (L * L * L / 6)) by lra. lra.
Qed.
