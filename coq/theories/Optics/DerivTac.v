(** Tactics for the generated C05 correspondence goals (harness/props/c05.py):
      forall pL pk1 ..., lit <= pL <= lit -> ... -> Rabs (m7nth (D pL pk1 ...) i j - observed) <= tol /\ ...
    where D is one of the derivative matrices of Deriv.v.  [c05_num] unfolds D down to cos/sin/exp/sqrt atoms, decides the
    guards ([Req_EM_T]) and sign tests ([Rlt_dec]) from the pinned parameters, and closes the goal by [interval]. *)
From Coq Require Import Reals Lra Psatz.
From Interval Require Import Tactic.
From Cheetah Require Import Base.Mat Base.RealAux Optics.Maps Optics.CS Optics.Flow Optics.Deriv.
Open Scope R_scope.

Lemma c05_m_e_pos : 0 < m_e. Proof. unfold m_e. lra. Qed.
Lemma c05_gamma_nz E : E <> 0 -> gamma_of E <> 0.
Proof.
  intros H e. apply H. pose proof c05_m_e_pos. unfold gamma_of in e.
  replace E with (E / m_e * m_e) by (field; lra). rewrite e. ring.
Qed.

Ltac c05_reduce :=
  cbv [m7nth v7nth dquad_dk1 dquad_dk1_lim dquad_dL dsbend_dL dsbend_dk1 dsbend_dhx ddrift_dL dhcor_dangle dvcor_dangle dsol_dk dsol_dk_lim dsol_dL
       drot tilt_conj dtilt_conj dtilt_conj_0 dshift_x dshift_y mis_conj dmis_dmx dmis_dmy rZ Z7 zrow
       gen_sbend gen_sol gen_drift base_untilted drift_map hcor_map vcor_map sol_body rot shift mis_entry mis_exit
       mmul madd vadd mscale vscale mvec transpose col v7map v7map2 dot
       row c0 c1 c2 c3 c4 c5 c6].
Ltac c05_atoms :=
  unfold dCf_dk, dSf_dk, r56, dx, drift_r56, sol_r56, sol_sk;
  unfold cx, sx, cy, sy, beta_of;
  unfold Cf, Sf, kx2, ky2, igamma2_of;
  unfold k1_guard.
Ltac c05_lit := solve [ lra | unfold gamma_of, m_e; lra | apply c05_gamma_nz; lra ].
Ltac c05_sgn := unfold Rsqr; first [ lra | interval with (i_prec 80) ].
Ltac c05_guards :=
  repeat match goal with
  | |- context [Req_EM_T ?a ?b] =>
      let H := fresh "Hg" in let n := fresh "n" in
      first [ assert (H : a = b) by c05_lit; destruct (Req_EM_T a b) as [_|n]; [ | case (n H) ]
            | assert (H : a <> b) by c05_lit; destruct (Req_EM_T a b) as [n|_]; [ case (H n) | ] ]
  end.
Ltac c05_signs :=
  repeat match goal with
  | |- context [Rlt_dec ?a ?b] =>
      let H := fresh "Hs" in let n := fresh "n" in
      first [ assert (H : a < b) by c05_sgn; destruct (Rlt_dec a b) as [_|n]; [ | case (n H) ]
            | assert (H : b <= a) by c05_sgn; destruct (Rlt_dec a b) as [n|_]; [ case (Rle_not_lt _ _ H n) | ] ]
  end.
Ltac c05_num := c05_reduce; c05_atoms; c05_guards; c05_signs; unfold gamma_of, m_e, cosh, sinh, Rsqr; repeat split; interval with (i_prec 90).
(* exact entries (structural zeros / ones / the constant-trace derivative) *)
Ltac c05_exact := c05_reduce; repeat split; unfold Rdiv; ring.
