(** Closed forms of the composite maps of Maps.v (tilt conjugation, misalignment conjugation, dipole edges)
    as sparse entrywise formulas, proved once for all parameters, plus the tactics the correspondence
    harness (harness/optics.py) uses to evaluate one entry of a model map at a literal parameter point
    with [interval].  Never unfold a 7x7 triple product in a generated goal: rewrite with the [*_eq]
    lemmas below and reduce with [c02_reduce]. *)
From Coq Require Import Reals Lra Psatz.
From Interval Require Import Tactic.
From Cheetah Require Import Base.Mat Base.RealAux Optics.Maps Optics.CS.
Open Scope R_scope.

Ltac mcbv := cbv [m7nth v7nth row mmul mvec transpose col v7map v7map2 dot c0 c1 c2 c3 c4 c5 c6 rI I7 e0 e1 e2 e3 e4 e5 e6].
Ltac meq := apply v7_eq; cbv [c0 c1 c2 c3 c4 c5 c6]; apply v7_eq; cbv [c0 c1 c2 c3 c4 c5 c6].

(** rot(-t) . M . rot(t) with c = cos t, s = sin t *)
Definition vlin (a : R) (u : V7 R) (b : R) (v : V7 R) : V7 R := v7map2 (fun x y => a * x + b * y) u v.
Definition rot_l (c s : R) (M : M7 R) : M7 R :=
  mk7 (vlin c (c0 M) (- s) (c2 M)) (vlin c (c1 M) (- s) (c3 M)) (vlin s (c0 M) c (c2 M)) (vlin s (c1 M) c (c3 M))
      (c4 M) (c5 M) (c6 M).
Definition rot_r (c s : R) (N : M7 R) : M7 R :=
  v7map (fun r => mk7 (c * c0 r + - s * c2 r) (c * c1 r + - s * c3 r) (s * c0 r + c * c2 r) (s * c1 r + c * c3 r)
                      (c4 r) (c5 r) (c6 r)) N.
Definition rotconj (c s : R) (M : M7 R) : M7 R := rot_l c s (rot_r c s M).

(** R_exit . M . R_entry *)
Definition shift_r (mx my : R) (M : M7 R) : M7 R :=
  v7map (fun r => mk7 (c0 r) (c1 r) (c2 r) (c3 r) (c4 r) (c5 r) (c6 r + - mx * c0 r + - my * c2 r)) M.
Definition shift_l (mx my : R) (N : M7 R) : M7 R :=
  mk7 (vlin 1 (c0 N) mx (c6 N)) (c1 N) (vlin 1 (c2 N) my (c6 N)) (c3 N) (c4 N) (c5 N) (c6 N).
Definition shiftconj (mx my : R) (M : M7 R) : M7 R := shift_l mx my (shift_r mx my M).

(** edge(a2,b2) . M . edge(a1,b1), where edge(a,b) = I + a E10 + b E32 *)
Definition edge_r (a b : R) (M : M7 R) : M7 R :=
  v7map (fun r => mk7 (c0 r + a * c1 r) (c1 r) (c2 r + b * c3 r) (c3 r) (c4 r) (c5 r) (c6 r)) M.
Definition edge_l (a b : R) (N : M7 R) : M7 R :=
  mk7 (c0 N) (vlin 1 (c1 N) a (c0 N)) (c2 N) (vlin 1 (c3 N) b (c2 N)) (c4 N) (c5 N) (c6 N).
Definition edgeconj (a2 b2 a1 b1 : R) (M : M7 R) : M7 R := edge_l a2 b2 (edge_r a1 b1 M).

Ltac destr_m M :=
  let r0 := fresh "r" in let r1 := fresh "r" in let r2 := fresh "r" in let r3 := fresh "r" in
  let r4 := fresh "r" in let r5 := fresh "r" in let r6 := fresh "r" in
  destruct M as [r0 r1 r2 r3 r4 r5 r6];
  destruct r0 as [? ? ? ? ? ? ?]; destruct r1 as [? ? ? ? ? ? ?]; destruct r2 as [? ? ? ? ? ? ?];
  destruct r3 as [? ? ? ? ? ? ?]; destruct r4 as [? ? ? ? ? ? ?]; destruct r5 as [? ? ? ? ? ? ?];
  destruct r6 as [? ? ? ? ? ? ?].

Lemma rotconj_eq t M : rmmul (rot (- t)) (rmmul M (rot t)) = rotconj (cos t) (sin t) M.
Proof.
  unfold rot. rewrite cos_neg, sin_neg. generalize (cos t) (sin t). intros c s.
  destr_m M. unfold rotconj, rot_l, rot_r, vlin. mcbv. meq; ring.
Qed.
Lemma shiftconj_eq mx my M : rmmul (mis_exit mx my) (rmmul M (mis_entry mx my)) = shiftconj mx my M.
Proof. destr_m M. unfold mis_exit, mis_entry, shift, shiftconj, shift_l, shift_r, vlin. mcbv. meq; ring. Qed.
Lemma edgeconj_eq h e2 p2 e1 p1 M :
  rmmul (edge_map h e2 p2) (rmmul M (edge_map h e1 p1)) =
  edgeconj (h * tan e2) (- h * tan (e2 - p2)) (h * tan e1) (- h * tan (e1 - p1)) M.
Proof.
  unfold edge_map. generalize (h * tan e2) (- h * tan (e2 - p2)) (h * tan e1) (- h * tan (e1 - p1)). intros a2 b2 a1 b1.
  destr_m M. unfold edgeconj, edge_l, edge_r, vlin. mcbv. meq; ring.
Qed.

(** which formula the code path selects, per class *)
Lemma quad_map_00 L k1 E : quad_map L k1 0 0 0 E = base_untilted L k1 0 E.
Proof. unfold quad_map, misaligned, base_rmatrix. destruct (Req_EM_T 0 0); [reflexivity|contradiction]. Qed.
Lemma quad_map_t0 L k1 t E : t <> 0 -> quad_map L k1 0 0 t E = rotconj (cos t) (sin t) (base_untilted L k1 0 E).
Proof.
  intros H. unfold quad_map, misaligned, base_rmatrix. destruct (Req_EM_T 0 0); [|contradiction].
  destruct (Req_EM_T t 0); [contradiction|]. apply rotconj_eq.
Qed.
Lemma quad_map_0m L k1 mx my E : (mx <> 0 \/ my <> 0) ->
  quad_map L k1 mx my 0 E = shiftconj mx my (base_untilted L k1 0 E).
Proof.
  intros H. unfold quad_map, misaligned, base_rmatrix. destruct (Req_EM_T 0 0); [|contradiction].
  rewrite <- shiftconj_eq. destruct (Req_EM_T mx 0); [|reflexivity]. destruct (Req_EM_T my 0); [tauto|reflexivity].
Qed.
Lemma quad_map_tm L k1 mx my t E : t <> 0 -> (mx <> 0 \/ my <> 0) ->
  quad_map L k1 mx my t E = shiftconj mx my (rotconj (cos t) (sin t) (base_untilted L k1 0 E)).
Proof.
  intros Ht H. unfold quad_map, misaligned, base_rmatrix. destruct (Req_EM_T t 0); [contradiction|].
  rewrite <- rotconj_eq, <- shiftconj_eq. destruct (Req_EM_T mx 0); [|reflexivity]. destruct (Req_EM_T my 0); [tauto|reflexivity].
Qed.
Lemma sol_map_0 L k E : sol_map L k 0 0 E = sol_body L k E.
Proof. unfold sol_map, misaligned. destruct (Req_EM_T 0 0); [reflexivity|contradiction]. Qed.
Lemma sol_map_m L k mx my E : (mx <> 0 \/ my <> 0) -> sol_map L k mx my E = shiftconj mx my (sol_body L k E).
Proof.
  intros H. unfold sol_map, misaligned. rewrite <- shiftconj_eq.
  destruct (Req_EM_T mx 0); [|reflexivity]. destruct (Req_EM_T my 0); [tauto|reflexivity].
Qed.
Lemma dip_map_eq L angle k1 e1 e2 tilt gap fint fint_exit E : L <> 0 ->
  dip_map L angle k1 e1 e2 tilt gap fint fint_exit E =
  rotconj (cos tilt) (sin tilt)
    (edgeconj (angle / L * tan e2) (- (angle / L) * tan (e2 - edge_phi fint_exit (angle / L) gap e2))
              (angle / L * tan e1) (- (angle / L) * tan (e1 - edge_phi fint (angle / L) gap e1))
              (base_untilted L k1 (angle / L) E)).
Proof.
  intros H. unfold dip_map, dip_body, dip_hx. destruct (Req_EM_T L 0); [contradiction|].
  rewrite rotconj_eq, edgeconj_eq. reflexivity.
Qed.
Lemma dip_map_L0 angle k1 e1 e2 tilt gap fint fint_exit E :
  dip_map 0 angle k1 e1 e2 tilt gap fint fint_exit E =
  rotconj (cos tilt) (sin tilt)
    (edgeconj (0 * tan e2) (- 0 * tan (e2 - edge_phi fint_exit 0 gap e2))
              (0 * tan e1) (- 0 * tan (e1 - edge_phi fint 0 gap e1)) (dip_thin 0 angle)).
Proof.
  unfold dip_map, dip_body, dip_hx. destruct (Req_EM_T 0 0); [|contradiction].
  rewrite rotconj_eq, edgeconj_eq. reflexivity.
Qed.
Lemma cavity_off_eq L E : cavity_off_map L E = base_untilted L 0 0 E.
Proof. unfold cavity_off_map, base_rmatrix. destruct (Req_EM_T 0 0); [reflexivity|contradiction]. Qed.

