(** Tactics used by the generated correspondence goals of harness/optics.py (see Entries.v). *)
From Coq Require Import Reals Lra Psatz.
From Interval Require Import Tactic.
From Cheetah Require Import Base.Mat Base.RealAux Optics.Maps Optics.CS Optics.Entries.
Open Scope R_scope.

(** reduction of [m7nth (composite) i j] to an arithmetic expression in the scalar atoms *)
Ltac c02_reduce :=
  cbv [m7nth v7nth rotconj rot_l rot_r shiftconj shift_l shift_r edgeconj edge_l edge_r vlin v7map v7map2
       base_untilted drift_map hcor_map vcor_map und_map sol_body dip_thin identity_map rI I7 e0 e1 e2 e3 e4 e5 e6
       row c0 c1 c2 c3 c4 c5 c6].
Ltac c02_atoms :=
  unfold r56, dx, drift_r56, sol_r56, sol_sk, edge_phi;
  unfold cx, sx, cy, sy, beta_of, und_igamma2;
  unfold Cf, Sf, kx2, ky2, igamma2_of;
  unfold k1_guard.

(* decide the guards [Req_EM_T lit 0] and the sign tests [Rlt_dec 0 k] at a literal parameter point *)
Ltac c02_false := solve [ contradiction | lra | unfold gamma_of, m_e in *; lra ].
Ltac c02_guards :=
  repeat match goal with
  | |- context [Req_EM_T ?a ?b] =>
      let H := fresh "Hg" in destruct (Req_EM_T a b) as [H|H]; [ try (exfalso; c02_false) | try (exfalso; c02_false) ]
  end.
Ltac c02_signs :=
  repeat match goal with
  | |- context [Rlt_dec ?a ?b] =>
      let H := fresh "Hs" in
      destruct (Rlt_dec a b) as [H|H];
      [ try (exfalso; revert H; apply Rle_not_lt; unfold Rsqr; interval with (i_prec 80))
      | try (exfalso; apply H; unfold Rsqr; interval with (i_prec 80)) ]
  end.
Ltac c02_eval := c02_reduce; c02_atoms; c02_guards; c02_signs; unfold gamma_of, m_e, cosh, sinh, Rsqr.
(* numeric entry: |model - observed| <= tol *)
Ltac c02_num := c02_eval; interval with (i_prec 90).
(* structural entries: exact 0 / 1 *)
Ltac c02_exact := c02_reduce; repeat split; unfold Rdiv; ring.
