(** Tactics used by the generated correspondence goals of harness/optics.py (see Entries.v). *)
From Coq Require Import Reals Lra Psatz.
From Interval Require Import Tactic.
From Cheetah Require Import Base.Mat Base.RealAux Optics.Maps Optics.CS Optics.Entries.
Open Scope R_scope.

(** untilted dipole: rot(0) = I *)
Lemma rot_0' : rot 0 = rI.
Proof. unfold rot. rewrite cos_0, sin_0, Ropp_0. reflexivity. Qed.
Lemma conj_rot_0 M : rmmul (rot (- 0)) (rmmul M (rot 0)) = M.
Proof.
  rewrite Ropp_0, rot_0'. unfold rI.
  rewrite (@mmul_I_r R 0 1 Rplus Rmult Rminus Ropp RRth), (@mmul_I_l R 0 1 Rplus Rmult Rminus Ropp RRth). reflexivity.
Qed.
Lemma dip_map_eq_t0 L angle k1 e1 e2 gap fint fint_exit E : L <> 0 ->
  dip_map L angle k1 e1 e2 0 gap fint fint_exit E =
    edgeconj (angle / L * tan e2) (- (angle / L) * tan (e2 - edge_phi fint_exit (angle / L) gap e2))
             (angle / L * tan e1) (- (angle / L) * tan (e1 - edge_phi fint (angle / L) gap e1))
             (base_untilted L k1 (angle / L) E).
Proof.
  intros H. unfold dip_map, dip_body, dip_hx. destruct (Req_EM_T L 0); [contradiction|].
  rewrite conj_rot_0, edgeconj_eq. reflexivity.
Qed.
Lemma dip_map_L0_t0 angle k1 e1 e2 gap fint fint_exit E :
  dip_map 0 angle k1 e1 e2 0 gap fint fint_exit E =
    edgeconj (0 * tan e2) (- 0 * tan (e2 - edge_phi fint_exit 0 gap e2))
             (0 * tan e1) (- 0 * tan (e1 - edge_phi fint 0 gap e1)) (dip_thin 0 angle).
Proof.
  unfold dip_map, dip_body, dip_hx. destruct (Req_EM_T 0 0); [|contradiction].
  rewrite conj_rot_0, edgeconj_eq. reflexivity.
Qed.

(** guard lemmas at literal points *)
Lemma m_e_pos' : 0 < m_e. Proof. unfold m_e. lra. Qed.
Lemma gamma_nz E : E <> 0 -> gamma_of E <> 0.
Proof.
  intros H e. apply H. pose proof m_e_pos'. unfold gamma_of in e.
  replace E with (E / m_e * m_e) by (field; lra). rewrite e. ring.
Qed.
Lemma igamma2_nz' E : E <> 0 -> igamma2_of E = 1 / (E / m_e * (E / m_e)).
Proof. intros H. unfold igamma2_of. destruct (Req_EM_T (gamma_of E) 0) as [e|n]; [exfalso; exact (gamma_nz E H e)|reflexivity]. Qed.
Lemma und_igamma2_nz E : E <> 0 -> und_igamma2 E = 1 / (E / m_e * (E / m_e)).
Proof. intros H. unfold und_igamma2. destruct (Req_EM_T (gamma_of E) 0) as [e|n]; [exfalso; exact (gamma_nz E H e)|reflexivity]. Qed.
Lemma sol_r56_nz L E : E <> 0 -> sol_r56 L E = L / (1 - E / m_e * (E / m_e)).
Proof. intros H. unfold sol_r56. destruct (Req_EM_T (gamma_of E) 0) as [e|n]; [exfalso; exact (gamma_nz E H e)|reflexivity]. Qed.
Lemma sol_sk_0 L : sol_sk L 0 = L.
Proof. unfold sol_sk. destruct (Req_EM_T 0 0); [reflexivity|contradiction]. Qed.
Lemma sol_sk_nz L k : k <> 0 -> sol_sk L k = sin (L * k) / k.
Proof. intros H. unfold sol_sk. destruct (Req_EM_T k 0); [contradiction|reflexivity]. Qed.

(** reduction of [m7nth (composite) i j] to an arithmetic expression in the scalar atoms *)
Ltac c02_reduce :=
  cbv [m7nth v7nth rotconj rot_l rot_r shiftconj shift_l shift_r edgeconj edge_l edge_r vlin v7map v7map2
       base_untilted drift_map hcor_map vcor_map und_map sol_body dip_thin identity_map rI I7 e0 e1 e2 e3 e4 e5 e6
       row c0 c1 c2 c3 c4 c5 c6].

Ltac c02_atoms :=
  unfold r56, dx, drift_r56, sol_r56, sol_sk, edge_phi;
  unfold cx, sx, cy, sy, beta_of, und_igamma2;
  unfold Cf, Sf, kx2, ky2, igamma2_of;
  unfold k1_guard.

(* decide the guards [Req_EM_T lit 0] and the sign tests [Rlt_dec 0 k] at a literal parameter point;
   the decision is proved first (small goal), then the [if] is eliminated without [exfalso] on the big goal *)
Ltac c02_lit := solve [ lra | unfold gamma_of, m_e; lra | apply gamma_nz; lra ].
Ltac c02_sgn := unfold Rsqr; first [ lra | interval with (i_prec 80) ].
Ltac c02_guards :=
  repeat match goal with
  | |- context [Req_EM_T ?a ?b] =>
      let H := fresh "Hg" in let n := fresh "n" in
      first [ assert (H : a = b) by c02_lit; destruct (Req_EM_T a b) as [_|n]; [ | case (n H) ]
            | assert (H : a <> b) by c02_lit; destruct (Req_EM_T a b) as [n|_]; [ case (H n) | ] ]
  end.
Ltac c02_signs :=
  repeat match goal with
  | |- context [Rlt_dec ?a ?b] =>
      let H := fresh "Hs" in let n := fresh "n" in
      first [ assert (H : a < b) by c02_sgn; destruct (Rlt_dec a b) as [_|n]; [ | case (n H) ]
            | assert (H : b <= a) by c02_sgn; destruct (Rlt_dec a b) as [n|_]; [ case (Rle_not_lt _ _ H n) | ] ]
  end.
Ltac c02_eval := c02_reduce; c02_atoms; c02_guards; c02_signs; unfold gamma_of, m_e, cosh, sinh, Rsqr.
(* numeric entries: a conjunction of |model - observed| <= tol at one parameter point *)
Ltac c02_num := c02_eval; repeat split; interval with (i_prec 90).
(* structural entries: exact 0 / 1 *)
Ltac c02_exact := c02_reduce; repeat split; unfold dx, Rdiv; ring.
