(** Proofs for C02: every linear transfer map of Maps.v is the exact flow of its quadratic Hamiltonian. *)
From Coq Require Import Reals Lra Psatz.
From Coquelicot Require Import Coquelicot.
From Cheetah Require Import Base.Mat Base.RealAux Optics.Maps Optics.CS Optics.Flow.
Open Scope R_scope.

Lemma lt7_cases (P : nat -> Prop) :
  P 0%nat -> P 1%nat -> P 2%nat -> P 3%nat -> P 4%nat -> P 5%nat -> P 6%nat -> forall i, (i < 7)%nat -> P i.
Proof. intros. do 7 (destruct i as [|i]; [assumption|]). exfalso; lia. Qed.

(* split [forall i j < 7, P i j] (i, j, Hi, Hj in the context) into the 49 concrete goals *)
Ltac split49 i j Hi Hj :=
  revert j Hj; pattern i; (apply lt7_cases; [..|exact Hi]); cbv beta;
  intros j Hj; pattern j; (apply lt7_cases; [..|exact Hj]); cbv beta.

Ltac mcbv := cbv [m7nth v7nth row mmul mvec transpose col v7map dot c0 c1 c2 c3 c4 c5 c6 rI I7 e0 e1 e2 e3 e4 e5 e6].

Ltac meq := apply v7_eq; cbv [c0 c1 c2 c3 c4 c5 c6]; apply v7_eq; cbv [c0 c1 c2 c3 c4 c5 c6].

(** * the generators are S6 . Hess(H), and the Hessians are those of the stated Hamiltonians *)
Lemma qform_sbend kx ky h b ig v : qform (hess_sbend kx ky h b ig) v = H_sbend kx ky h b ig v.
Proof. destruct v as [v0 v1 v2 v3 v4 v5 v6]. unfold qform, H_sbend, hess_sbend. mcbv. unfold Rdiv, Rsqr. rewrite ?Rinv_mult. generalize (/ b). intros. field. Qed.
Lemma qform_sol k b ig v : qform (hess_sol k b ig) v = H_sol k b ig v.
Proof. destruct v as [v0 v1 v2 v3 v4 v5 v6]. unfold qform, H_sol, hess_sol. mcbv. unfold Rdiv, Rsqr. rewrite ?Rinv_mult. generalize (/ b). intros. field. Qed.
Lemma generator_sbend kx ky h b ig : generator (hess_sbend kx ky h b ig) = gen_sbend kx ky h b ig.
Proof. unfold generator, S6, hess_sbend, gen_sbend. mcbv. unfold Rdiv. meq; ring. Qed.
Lemma generator_sol k b ig : generator (hess_sol k b ig) = gen_sol k b ig.
Proof. unfold generator, S6, hess_sol, gen_sol. mcbv. unfold Rdiv. meq; ring. Qed.

(** * combined-function sector magnet, for an abstract cosine/sine-like pair *)
Section Abs.
Variables (Cx Sx Cy Sy : R -> R) (kx ky h b ig : R).
Hypothesis HCx : forall s, is_derive Cx s (- kx * Sx s).
Hypothesis HSx : forall s, is_derive Sx s (Cx s).
Hypothesis HCy : forall s, is_derive Cy s (- ky * Sy s).
Hypothesis HSy : forall s, is_derive Sy s (Cy s).
Hypothesis Cx0 : Cx 0 = 1. Hypothesis Sx0 : Sx 0 = 0.
Hypothesis Cy0 : Cy 0 = 1. Hypothesis Sy0 : Sy 0 = 0.
Hypothesis Hkx : kx <> 0.

Definition adx (s : R) := h / kx * (1 - Cx s).
Definition ar56 (s : R) := h² * (s - Sx s) / kx / b² - s / b² * ig.
Definition Mabs (s : R) : M7 R :=
  mk7 (row (Cx s) (Sx s) 0 0 0 (adx s / b) 0)
      (row (- kx * Sx s) (Cx s) 0 0 0 (Sx s * h / b) 0)
      (row 0 0 (Cy s) (Sy s) 0 0 0)
      (row 0 0 (- ky * Sy s) (Cy s) 0 0 0)
      (row (Sx s * h / b) (adx s / b) 0 0 1 (ar56 s) 0)
      (row 0 0 0 0 0 1 0)
      (row 0 0 0 0 0 0 1).

Lemma DCx s : Derive (fun x => Cx x) s = - kx * Sx s. Proof. apply is_derive_unique, HCx. Qed.
Lemma DSx s : Derive (fun x => Sx x) s = Cx s. Proof. apply is_derive_unique, HSx. Qed.
Lemma DCy s : Derive (fun x => Cy x) s = - ky * Sy s. Proof. apply is_derive_unique, HCy. Qed.
Lemma DSy s : Derive (fun x => Sy x) s = Cy s. Proof. apply is_derive_unique, HSy. Qed.
Lemma ECx s : ex_derive (fun x => Cx x) s. Proof. eexists; apply HCx. Qed.
Lemma ESx s : ex_derive (fun x => Sx x) s. Proof. eexists; apply HSx. Qed.
Lemma ECy s : ex_derive (fun x => Cy x) s. Proof. eexists; apply HCy. Qed.
Lemma ESy s : ex_derive (fun x => Sy x) s. Proof. eexists; apply HSy. Qed.

Ltac fin := unfold Rdiv, Rsqr; rewrite ?Rinv_mult; try ring; generalize (/ b); intros; field; assumption.
Ltac dentry :=
  cbv [Mabs gen_sbend adx ar56]; mcbv; auto_derive;
  [ repeat split; try exact I; first [apply ECx|apply ESx|apply ECy|apply ESy]
  | rewrite ?DCx, ?DSx, ?DCy, ?DSy; fin ].

Lemma Mabs_flow : is_flow (gen_sbend kx ky h b ig) Mabs.
Proof.
  split.
  - unfold Mabs, adx, ar56. rewrite Cx0, Sx0, Cy0, Sy0. unfold rI, I7, e0, e1, e2, e3, e4, e5, e6, row. meq; try reflexivity; fin.
  - intros s; unfold m7_derive; intros i j Hi Hj. split49 i j Hi Hj; dentry.
Qed.
End Abs.

(** * instances: sector bend body, quadrupole, drift *)
Lemma base_untilted_Mabs L k1 hx E :
  base_untilted L k1 hx E =
  Mabs (Cf (kx2 k1 hx)) (Sf (kx2 k1 hx)) (Cf (ky2 k1)) (Sf (ky2 k1)) (kx2 k1 hx) (ky2 k1) hx (beta_of E) (igamma2_of E) L.
Proof. reflexivity. Qed.

Theorem sbend_flow k1 hx E : kx2 k1 hx <> 0 ->
  is_flow (gen_sbend (kx2 k1 hx) (ky2 k1) hx (beta_of E) (igamma2_of E)) (fun L => base_untilted L k1 hx E).
Proof.
  intros Hk.
  apply (Mabs_flow (Cf (kx2 k1 hx)) (Sf (kx2 k1 hx)) (Cf (ky2 k1)) (Sf (ky2 k1)) (kx2 k1 hx) (ky2 k1) hx (beta_of E) (igamma2_of E));
    auto using is_derive_Cf, is_derive_Sf, Cf_0, Sf_0.
Qed.

Lemma kx2_quad k1 : k1 <> 0 -> kx2 k1 0 = k1.
Proof. intros H. unfold kx2. rewrite k1_guard_nz by assumption. unfold Rsqr. ring. Qed.
Lemma ky2_nz k1 : k1 <> 0 -> ky2 k1 = - k1.
Proof. intros H. unfold ky2. rewrite k1_guard_nz by assumption. reflexivity. Qed.

(* for k1 <> 0 and hx^2 <> -k1 the sector map is the flow of H with the user's k1 *)
Theorem sbend_flow_k1 k1 hx E : k1 <> 0 -> k1 + hx² <> 0 ->
  is_flow (gen_sbend (k1 + hx²) (- k1) hx (beta_of E) (igamma2_of E)) (fun L => base_untilted L k1 hx E).
Proof.
  intros H1 H2. pose proof (sbend_flow k1 hx E) as F. unfold kx2, ky2 in F. rewrite k1_guard_nz in F by assumption.
  apply F. exact H2.
Qed.

Theorem quad_flow k1 E : k1 <> 0 ->
  is_flow (gen_sbend k1 (- k1) 0 (beta_of E) (igamma2_of E)) (fun L => base_untilted L k1 0 E).
Proof.
  intros H. pose proof (sbend_flow k1 0 E) as F. rewrite kx2_quad, ky2_nz in F by assumption. apply F. exact H.
Qed.

(* what the two sign regimes look like *)
Lemma quad_entries_pos L k1 E : 0 < k1 ->
  m7nth (base_untilted L k1 0 E) 0 0 = cos (sqrt k1 * L) /\ m7nth (base_untilted L k1 0 E) 0 1 = sin (sqrt k1 * L) / sqrt k1 /\
  m7nth (base_untilted L k1 0 E) 2 2 = cosh (sqrt k1 * L) /\ m7nth (base_untilted L k1 0 E) 2 3 = sinh (sqrt k1 * L) / sqrt k1.
Proof.
  intros H. assert (k1 <> 0) by lra. cbv [m7nth v7nth base_untilted row c0 c1 c2 c3 c4 c5 c6 cx sx cy sy].
  rewrite kx2_quad, ky2_nz by assumption. rewrite (Cf_pos k1), (Sf_pos k1), (Cf_neg (- k1)), (Sf_neg (- k1)) by lra.
  replace (- - k1) with k1 by ring. auto.
Qed.
Lemma quad_entries_neg L k1 E : k1 < 0 ->
  m7nth (base_untilted L k1 0 E) 0 0 = cosh (sqrt (- k1) * L) /\ m7nth (base_untilted L k1 0 E) 0 1 = sinh (sqrt (- k1) * L) / sqrt (- k1) /\
  m7nth (base_untilted L k1 0 E) 2 2 = cos (sqrt (- k1) * L) /\ m7nth (base_untilted L k1 0 E) 2 3 = sin (sqrt (- k1) * L) / sqrt (- k1).
Proof.
  intros H. assert (k1 <> 0) by lra. cbv [m7nth v7nth base_untilted row c0 c1 c2 c3 c4 c5 c6 cx sx cy sy].
  rewrite kx2_quad, ky2_nz by assumption. rewrite (Cf_neg k1), (Sf_neg k1), (Cf_pos (- k1)), (Sf_pos (- k1)) by lra. auto.
Qed.

Ltac dsimple :=
  mcbv; auto_derive; [ repeat split; exact I | unfold Rdiv, Rsqr; rewrite ?Rinv_mult; ring ].

Theorem drift_flow E : is_flow (gen_drift (beta_of E) (igamma2_of E)) (fun L => drift_map L E).
Proof.
  split.
  - unfold drift_map, drift_r56, rI, I7, e0, e1, e2, e3, e4, e5, e6, row. unfold Rdiv. meq; try reflexivity; ring.
  - intros s; unfold m7_derive; intros i j Hi Hj.
    split49 i j Hi Hj; cbv [drift_map drift_r56 gen_drift gen_sbend]; dsimple.
Qed.

(** * relativistic factors *)
Lemma m_e_pos : 0 < m_e. Proof. unfold m_e. lra. Qed.

Lemma gamma_gt1 E : m_e < E -> 1 < gamma_of E.
Proof.
  intros H. pose proof m_e_pos as Hm. unfold gamma_of.
  apply (Rmult_lt_reg_r m_e); [exact Hm|]. unfold Rdiv. rewrite Rmult_assoc, Rinv_l by lra. lra.
Qed.

Lemma igamma2_nz E : E <> 0 -> igamma2_of E = 1 / (gamma_of E)².
Proof.
  intros H. unfold igamma2_of. destruct (Req_EM_T (gamma_of E) 0) as [e|n]; [|reflexivity].
  exfalso. pose proof m_e_pos as Hm. unfold gamma_of in e. apply H.
  replace E with (E / m_e * m_e) by (field; lra). rewrite e. ring.
Qed.

Theorem rel_factors E L : m_e < E ->
  let g := gamma_of E in let b := beta_of E in
  g = E / m_e /\ 1 < g /\ igamma2_of E = 1 / g² /\ b² = 1 - 1 / g² /\ 0 < b < 1 /\ b² * g² = g² - 1 /\
  drift_r56 L E = - L / (b² * g²).
Proof.
  intros H g b. pose proof (gamma_gt1 E H) as Hg. fold g in Hg. pose proof m_e_pos as Hm.
  assert (HE : E <> 0) by lra.
  assert (Hig : igamma2_of E = 1 / g²) by (apply igamma2_nz; exact HE).
  assert (Hg2 : 1 < g²) by (unfold Rsqr; nra).
  assert (Hi01 : 0 < 1 / g² < 1).
  { split; [apply Rdiv_lt_0_compat; lra|]. apply (Rmult_lt_reg_r g²); [lra|]. unfold Rdiv. rewrite Rmult_assoc, Rinv_l by lra. lra. }
  assert (Hb2 : b² = 1 - 1 / g²).
  { unfold b, beta_of. rewrite Hig. apply Rsqr_sqrt. lra. }
  assert (Hb : 0 < b < 1).
  { assert (Hb0 : 0 < b) by (unfold b, beta_of; rewrite Hig; apply sqrt_lt_R0; lra).
    split; [exact Hb0|]. assert (Hbb : b * b < 1) by (fold (Rsqr b); rewrite Hb2; lra). nra. }
  assert (Hbg : b² * g² = g² - 1) by (rewrite Hb2; field; lra).
  repeat split; try assumption; try reflexivity; try tauto.
  unfold drift_r56. fold b. rewrite Hig. field. split; [lra|]. rewrite Hb2. lra.
Qed.

(** * correctors: a drift followed by a kick of exactly the set angle *)
Theorem hcor_is_drift_then_kick L a E : hcor_map L a E = rmmul (kick_x a) (drift_map L E).
Proof. unfold hcor_map, kick_x, drift_map. mcbv. meq; ring. Qed.
Theorem vcor_is_drift_then_kick L a E : vcor_map L a E = rmmul (kick_y a) (drift_map L E).
Proof. unfold vcor_map, kick_y, drift_map. mcbv. meq; ring. Qed.
Lemma kick_x_spec a v : c6 v = 1 -> rmvec (kick_x a) v = mk7 (c0 v) (c1 v + a) (c2 v) (c3 v) (c4 v) (c5 v) (c6 v).
Proof. destruct v as [v0 v1 v2 v3 v4 v5 v6]; cbv [c6]; intros ->. unfold kick_x. mcbv. f_equal; ring. Qed.
Lemma kick_y_spec a v : c6 v = 1 -> rmvec (kick_y a) v = mk7 (c0 v) (c1 v) (c2 v) (c3 v + a) (c4 v) (c5 v) (c6 v).
Proof. destruct v as [v0 v1 v2 v3 v4 v5 v6]; cbv [c6]; intros ->. unfold kick_y. mcbv. f_equal; ring. Qed.

(** * tilt and misalignment: the conjugating matrices are mutually inverse; trivial cases *)
Theorem rot_inv t : rmmul (rot (- t)) (rot t) = rI.
Proof.
  unfold rot. rewrite cos_neg, sin_neg. pose proof (sin2_cos2 t) as H. unfold Rsqr in H.
  mcbv. meq; try ring; ring_simplify; nra.
Qed.
Theorem rot_inv' t : rmmul (rot t) (rot (- t)) = rI.
Proof. pose proof (rot_inv (- t)) as H. rewrite Ropp_involutive in H. exact H. Qed.
Theorem mis_inv mx my : rmmul (mis_exit mx my) (mis_entry mx my) = rI.
Proof. unfold mis_exit, mis_entry, shift. mcbv. meq; ring. Qed.
Theorem mis_inv' mx my : rmmul (mis_entry mx my) (mis_exit mx my) = rI.
Proof. unfold mis_exit, mis_entry, shift. mcbv. meq; ring. Qed.
Lemma rot_0 : rot 0 = rI.
Proof. unfold rot. rewrite cos_0, sin_0, Ropp_0. reflexivity. Qed.
Lemma mis_entry_spec mx my v : c6 v = 1 ->
  rmvec (mis_entry mx my) v = mk7 (c0 v - mx) (c1 v) (c2 v - my) (c3 v) (c4 v) (c5 v) (c6 v).
Proof. destruct v as [v0 v1 v2 v3 v4 v5 v6]; cbv [c6]; intros ->. unfold mis_entry, shift. mcbv. f_equal; ring. Qed.
Lemma rot_spec t v :
  rmvec (rot t) v = mk7 (cos t * c0 v + sin t * c2 v) (cos t * c1 v + sin t * c3 v)
                        (- sin t * c0 v + cos t * c2 v) (- sin t * c1 v + cos t * c3 v) (c4 v) (c5 v) (c6 v).
Proof. destruct v as [v0 v1 v2 v3 v4 v5 v6]. unfold rot. mcbv. f_equal; ring. Qed.

Lemma base_rmatrix_untilted L k1 hx E : base_rmatrix L k1 hx 0 E = base_untilted L k1 hx E.
Proof. unfold base_rmatrix. destruct (Req_EM_T 0 0); [reflexivity|contradiction]. Qed.
Lemma base_rmatrix_tilted L k1 hx t E : t <> 0 ->
  base_rmatrix L k1 hx t E = rmmul (rot (- t)) (rmmul (base_untilted L k1 hx E) (rot t)).
Proof. intros H. unfold base_rmatrix. destruct (Req_EM_T t 0); [contradiction|reflexivity]. Qed.
Lemma misaligned_0 Rm : misaligned 0 0 Rm = Rm.
Proof. unfold misaligned. destruct (Req_EM_T 0 0); [reflexivity|contradiction]. Qed.
Lemma misaligned_nz mx my Rm : (mx <> 0 \/ my <> 0) ->
  misaligned mx my Rm = rmmul (mis_exit mx my) (rmmul Rm (mis_entry mx my)).
Proof.
  intros H. unfold misaligned. destruct (Req_EM_T mx 0); [|reflexivity].
  destruct (Req_EM_T my 0); [|reflexivity]. tauto.
Qed.

(* the aligned, untilted quadrupole is the flow; Quadrupole.transfer_map in full *)
Theorem quad_map_flow k1 E : k1 <> 0 ->
  is_flow (gen_sbend k1 (- k1) 0 (beta_of E) (igamma2_of E)) (fun L => quad_map L k1 0 0 0 E).
Proof.
  intros H. pose proof (quad_flow k1 E H) as [F0 F1]. split.
  - unfold quad_map. rewrite misaligned_0, base_rmatrix_untilted. exact F0.
  - intros s i j Hi Hj. unfold quad_map. rewrite misaligned_0, base_rmatrix_untilted.
    eapply is_derive_ext; [|apply (F1 s i j Hi Hj)]. intros t. cbv beta.
    rewrite misaligned_0, base_rmatrix_untilted. reflexivity.
Qed.
Theorem quad_map_decomposition L k1 mx my t E : t <> 0 -> (mx <> 0 \/ my <> 0) ->
  quad_map L k1 mx my t E =
  rmmul (mis_exit mx my) (rmmul (rmmul (rot (- t)) (rmmul (base_untilted L k1 0 E) (rot t))) (mis_entry mx my)).
Proof. intros Ht Hm. unfold quad_map. rewrite misaligned_nz, base_rmatrix_tilted by assumption. reflexivity. Qed.

(** * identity elements, zero-voltage cavity *)
Theorem identity_elements v : rmvec identity_map v = v.
Proof. destruct v as [v0 v1 v2 v3 v4 v5 v6]. unfold identity_map. mcbv. f_equal; ring. Qed.
Theorem cavity_off_is_quad_k0 L E : cavity_off_map L E = quad_map L 0 0 0 0 E.
Proof. unfold cavity_off_map, quad_map. rewrite misaligned_0. reflexivity. Qed.

(** * dipole: definition-level facts *)
Theorem rbend_edges L angle k1 re1 re2 tilt gap fint fint_exit E :
  rbend_map L angle k1 re1 re2 tilt gap fint fint_exit E =
  dip_map L angle k1 (re1 + angle / 2) (re2 + angle / 2) tilt gap fint fint_exit E.
Proof. reflexivity. Qed.
Theorem edge_map_spec h e phi v : rmvec (edge_map h e phi) v = edge_spec h e phi v.
Proof. destruct v as [v0 v1 v2 v3 v4 v5 v6]. unfold edge_map, edge_spec. mcbv. f_equal; ring. Qed.
Theorem dip_map_decomposition L angle k1 e1 e2 tilt gap fint fint_exit E : L <> 0 ->
  let hx := angle / L in
  dip_map L angle k1 e1 e2 tilt gap fint fint_exit E =
  rmmul (rot (- tilt))
    (rmmul (rmmul (edge_map hx e2 (edge_phi fint_exit hx gap e2))
                  (rmmul (base_untilted L k1 hx E) (edge_map hx e1 (edge_phi fint hx gap e1))))
           (rot tilt)).
Proof.
  intros HL hx. unfold dip_map, dip_body, dip_hx. destruct (Req_EM_T L 0); [contradiction|reflexivity].
Qed.
Theorem dip_body_flow angle k1 E L0 : L0 <> 0 -> kx2 k1 (angle / L0) <> 0 ->
  (* the body of a dipole of length L0 and bend angle [angle] (curvature h = angle/L0), followed for a path length s *)
  let h := angle / L0 in
  is_flow (gen_sbend (kx2 k1 h) (ky2 k1) h (beta_of E) (igamma2_of E)) (fun s => base_untilted s k1 h E)
  /\ dip_body L0 angle k1 E = base_untilted L0 k1 h E.
Proof.
  intros HL Hk h. split; [apply sbend_flow; exact Hk|].
  unfold dip_body, dip_hx. destruct (Req_EM_T L0 0); [contradiction|reflexivity].
Qed.

(** * refutations (genuine defects of the code, faithfully modelled) *)
(* F3: the Undulator's R56 is +L/gamma^2; the drift it should be has -L/(beta^2 gamma^2) *)
Theorem undulator_map_refuted L E : m_e < E -> 0 < L ->
  m7nth (und_map L E) 4 5 = L / (gamma_of E)² /\ 0 < m7nth (und_map L E) 4 5 /\
  m7nth (drift_map L E) 4 5 < 0 /\ und_map L E <> drift_map L E.
Proof.
  intros HE HL. pose proof (rel_factors E L HE) as (_ & Hg & Hig & Hb2 & Hb & Hbg & Hr).
  cbv zeta in *. assert (Hg2 : 1 < (gamma_of E)²) by (unfold Rsqr; nra).
  assert (H1 : m7nth (und_map L E) 4 5 = L / (gamma_of E)²).
  { cbv [m7nth v7nth und_map row c0 c1 c2 c3 c4 c5 c6]. unfold und_igamma2.
    destruct (Req_EM_T (gamma_of E) 0) as [e|n]; [lra|]. field. unfold Rsqr. nra. }
  assert (H2 : 0 < m7nth (und_map L E) 4 5) by (rewrite H1; apply Rdiv_lt_0_compat; lra).
  assert (H3 : m7nth (drift_map L E) 4 5 < 0).
  { cbv [m7nth v7nth drift_map row c0 c1 c2 c3 c4 c5 c6]. rewrite Hr, Hbg.
    unfold Rdiv. rewrite <- Ropp_mult_distr_l. apply Ropp_lt_gt_0_contravar. apply Rmult_lt_0_compat; [lra|apply Rinv_0_lt_compat; lra]. }
  repeat split; try assumption. intros Heq. rewrite Heq in H2. lra.
Qed.

(* F4: a zero-length Dipole with a non-zero angle writes the angle into entry [2][6], a vertical position offset;
   no flow of a quadratic Hamiltonian over length 0 (M(0) = I) and no horizontal kick does that *)
Theorem dipole_L0_refuted angle k1 E : angle <> 0 ->
  m7nth (dip_map 0 angle k1 0 0 0 0 0 0 E) 2 6 = angle /\
  m7nth (dip_map 0 angle k1 0 0 0 0 0 0 E) 1 6 = 0 /\
  dip_map 0 angle k1 0 0 0 0 0 0 E <> rI /\ dip_map 0 angle k1 0 0 0 0 0 0 E <> kick_x angle.
Proof.
  intros Ha.
  assert (Hm : dip_map 0 angle k1 0 0 0 0 0 0 E = dip_thin 0 angle).
  { unfold dip_map, dip_body, dip_hx. destruct (Req_EM_T 0 0); [|contradiction].
    rewrite Ropp_0, rot_0.
    assert (He : forall ee pp, edge_map 0 ee pp = rI).
    { intros. unfold edge_map, rI, I7, e0, e1, e2, e3, e4, e5, e6, row. meq; try reflexivity; ring. }
    rewrite !He. unfold rI.
    rewrite !(@mmul_I_l R 0 1 Rplus Rmult Rminus Ropp RRth), !(@mmul_I_r R 0 1 Rplus Rmult Rminus Ropp RRth). reflexivity. }
  rewrite Hm. cbv [m7nth v7nth dip_thin row c0 c1 c2 c3 c4 c5 c6].
  repeat split; try reflexivity.
  - intros H. apply (f_equal (fun m => m7nth m 2 6)) in H. cbv [m7nth v7nth dip_thin row c0 c1 c2 c3 c4 c5 c6 rI I7 e2] in H. contradiction.
  - intros H. apply (f_equal (fun m => m7nth m 2 6)) in H. cbv [m7nth v7nth dip_thin kick_x row c0 c1 c2 c3 c4 c5 c6] in H. contradiction.
Qed.
