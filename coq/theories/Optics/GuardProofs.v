(** The k1 = 0 -> 1e-12 guard of base_rmatrix: the switched-off quadrupole differs from the drift of the same
    length by at most [guard_bound L] = 2e-12 L (1 + L + L^2) in every entry, for 0 <= L <= 100. *)
From Coq Require Import Reals Lra Psatz.
From Coquelicot Require Import Coquelicot.
From Cheetah Require Import Base.Mat Base.RealAux Optics.Maps Optics.CS Optics.Flow Optics.FlowProofs.
Open Scope R_scope.

(* g(0) = 0 and g' >= 0 on [0,U]  ==>  g >= 0 on [0,U] *)
Lemma nonneg_of_deriv (g dg : R -> R) (U : R) :
  g 0 = 0 -> (forall x, 0 <= x <= U -> is_derive g x (dg x)) -> (forall x, 0 <= x <= U -> 0 <= dg x) ->
  forall x, 0 <= x <= U -> 0 <= g x.
Proof.
  intros g0 Hd Hp x Hx.
  destruct (MVT_gen g 0 x dg) as [c [Hc Heq]].
  - intros y Hy. rewrite Rmin_left, Rmax_right in Hy by lra. apply Hd. lra.
  - intros y Hy. rewrite Rmin_left, Rmax_right in Hy by lra.
    apply continuity_pt_filterlim. apply (ex_derive_continuous g y). eexists. apply Hd. lra.
  - rewrite Rmin_left, Rmax_right in Hc by lra. rewrite g0 in Heq.
    assert (0 <= dg c) by (apply Hp; lra). nra.
Qed.

Lemma sin_le_u u : 0 <= u -> 0 <= u - sin u.
Proof.
  intros Hu. apply (nonneg_of_deriv (fun u => u - sin u) (fun u => 1 - cos u) u); [rewrite sin_0; ring| | |lra].
  - intros x _. auto_derive; [exact I|ring].
  - intros x _. pose proof (COS_bound x). lra.
Qed.
Lemma cos_ge_quad u : 0 <= u -> 0 <= u * u / 2 - (1 - cos u).
Proof.
  intros Hu. apply (nonneg_of_deriv (fun u => u * u / 2 - (1 - cos u)) (fun u => u - sin u) u); [rewrite cos_0; field| | |lra].
  - intros x _. auto_derive; [exact I|field].
  - intros x Hx. apply sin_le_u. lra.
Qed.
Lemma sin_ge_cubic u : 0 <= u -> 0 <= u * u * u / 6 - (u - sin u).
Proof.
  intros Hu. apply (nonneg_of_deriv (fun u => u * u * u / 6 - (u - sin u)) (fun u => u * u / 2 - (1 - cos u)) u); [rewrite sin_0; field| | |lra].
  - intros x _. auto_derive; [exact I|field].
  - intros x Hx. apply cos_ge_quad. lra.
Qed.

Lemma cosh_ge_1 u : 1 <= cosh u.
Proof.
  unfold cosh. pose proof (exp_pos u) as H1. pose proof (exp_pos (- u)) as H2.
  assert (H : exp u * exp (- u) = 1) by (rewrite <- exp_plus, Rplus_opp_r; apply exp_0).
  pose proof (Rmult_le_pos _ _ (Rlt_le _ _ H2) (Rle_0_sqr (exp u - 1))) as H3. unfold Rsqr in H3. nra.
Qed.
Lemma cosh_le_2 u : 0 <= u <= 1 -> cosh u <= 2.
Proof.
  intros [H0 H1]. unfold cosh.
  assert (exp u <= exp 1) by (destruct (Req_dec u 1) as [->|]; [lra|left; apply exp_increasing; lra]).
  assert (exp (- u) <= exp 0) by (destruct (Req_dec u 0) as [->|]; [rewrite Ropp_0; lra|left; apply exp_increasing; lra]).
  rewrite exp_0 in *. pose proof exp_le_3. lra.
Qed.
Lemma sinh_ge_u u : 0 <= u -> 0 <= sinh u - u.
Proof.
  intros Hu. apply (nonneg_of_deriv (fun u => sinh u - u) (fun u => cosh u - 1) u); [rewrite sinh_0; ring| | |lra].
  - intros x _. unfold sinh, cosh. auto_derive; [exact I|field].
  - intros x _. pose proof (cosh_ge_1 x). lra.
Qed.
Lemma sinh_le_2u u : 0 <= u <= 1 -> 0 <= 2 * u - sinh u.
Proof.
  intros Hu. apply (nonneg_of_deriv (fun u => 2 * u - sinh u) (fun u => 2 - cosh u) 1); [rewrite sinh_0; ring| | |lra].
  - intros x _. unfold sinh, cosh. auto_derive; [exact I|field].
  - intros x Hx. pose proof (cosh_le_2 x Hx). lra.
Qed.
Lemma cosh_le_quad u : 0 <= u <= 1 -> 0 <= u * u - (cosh u - 1).
Proof.
  intros Hu. apply (nonneg_of_deriv (fun u => u * u - (cosh u - 1)) (fun u => 2 * u - sinh u) 1); [rewrite cosh_0; ring| | |lra].
  - intros x _. unfold sinh, cosh. auto_derive; [exact I|field].
  - intros x Hx. apply sinh_le_2u. exact Hx.
Qed.
Lemma sinh_le_cubic u : 0 <= u <= 1 -> 0 <= u * u * u / 3 - (sinh u - u).
Proof.
  intros Hu. apply (nonneg_of_deriv (fun u => u * u * u / 3 - (sinh u - u)) (fun u => u * u - (cosh u - 1)) 1); [rewrite sinh_0; field| | |lra].
  - intros x _. unfold sinh, cosh. auto_derive; [exact I|field].
  - intros x Hx. apply cosh_le_quad. exact Hx.
Qed.

Lemma kx2_00 : kx2 0 0 = 1e-12.
Proof. unfold kx2. rewrite k1_guard_0. unfold Rsqr. lra. Qed.
Lemma ky2_0 : ky2 0 = - (1e-12).
Proof. unfold ky2. rewrite k1_guard_0. reflexivity. Qed.

Lemma guard_bound_nonneg L : 0 <= L -> 0 <= guard_bound L.
Proof. intros H. unfold guard_bound. assert (0 <= L * L) by nra. assert (0 <= L * (1 + L + L * L)) by nra. lra. Qed.

Section Guard.
Variable L : R.
Hypothesis HL : 0 <= L <= 100.
Let w := sqrt 1e-12.
Let u := w * L.

Lemma w_pos : 0 < w. Proof. apply sqrt_lt_R0. lra. Qed.
Lemma w_sq : w * w = 1e-12. Proof. apply sqrt_sqrt. lra. Qed.
Lemma w_small : w <= 1e-2.
Proof. pose proof w_pos. pose proof w_sq. destruct (Rle_dec w 1e-2); [assumption|]. exfalso. nra. Qed.
Lemma u_range : 0 <= u <= 1.
Proof. unfold u. pose proof w_pos. pose proof w_small. split; nra. Qed.
Lemma u_sq : u * u = 1e-12 * (L * L).
Proof. unfold u. rewrite <- w_sq. ring. Qed.

Lemma atoms_k0 : cx L 0 0 = cos u /\ sx L 0 0 = sin u / w /\ cy L 0 = cosh u /\ sy L 0 = sinh u / w.
Proof.
  unfold cx, sx, cy, sy. rewrite kx2_00, ky2_0.
  rewrite Cf_pos, Sf_pos, Cf_neg, Sf_neg by lra. replace (- - (1e-12)) with 1e-12 by lra. auto.
Qed.

Lemma L2_nonneg : 0 <= L * L. Proof. nra. Qed.
Lemma L3_nonneg : 0 <= L * L * L. Proof. pose proof L2_nonneg. nra. Qed.
Lemma gb_ge : 2e-12 * L <= guard_bound L /\ 2e-12 * (L * L) <= guard_bound L /\ 2e-12 * (L * L * L) <= guard_bound L.
Proof. unfold guard_bound. pose proof L2_nonneg. pose proof L3_nonneg. repeat split; nra. Qed.

(* (u - sin u)/w and (sinh u - u)/w *)
Lemma ds_bound : 0 <= (u - sin u) / w <= 1e-12 * (L * L * L) / 6.
Proof.
  pose proof w_pos as Hw. pose proof u_range as Hu.
  pose proof (sin_le_u u (proj1 Hu)) as H1. pose proof (sin_ge_cubic u (proj1 Hu)) as H2.
  assert (Hi : 0 < / w) by (apply Rinv_0_lt_compat; exact Hw).
  split; [unfold Rdiv; apply Rmult_le_pos; lra|].
  replace (1e-12 * (L * L * L) / 6) with ((u * u * u / 6) / w).
  - unfold Rdiv at 1 3. apply Rmult_le_compat_r; lra.
  - unfold u. rewrite <- w_sq. field. lra.
Qed.
Lemma dsh_bound : 0 <= (sinh u - u) / w <= 1e-12 * (L * L * L) / 3.
Proof.
  pose proof w_pos as Hw. pose proof u_range as Hu.
  pose proof (sinh_ge_u u (proj1 Hu)) as H1. pose proof (sinh_le_cubic u Hu) as H2.
  assert (Hi : 0 < / w) by (apply Rinv_0_lt_compat; exact Hw).
  split; [unfold Rdiv; apply Rmult_le_pos; lra|].
  replace (1e-12 * (L * L * L) / 3) with ((u * u * u / 3) / w).
  - unfold Rdiv at 1 3. apply Rmult_le_compat_r; lra.
  - unfold u. rewrite <- w_sq. field. lra.
Qed.
Lemma sx_eq : sin u / w = L - (u - sin u) / w.
Proof. pose proof w_pos. unfold u. field. lra. Qed.
Lemma sy_eq : sinh u / w = L + (sinh u - u) / w.
Proof. pose proof w_pos. unfold u. field. lra. Qed.
Lemma L3_le : 1e-12 * (L * L * L) <= L.
Proof. pose proof L2_nonneg. assert (L * L <= 10000) by nra. nra. Qed.

Lemma G_cx : Rabs (cx L 0 0 - 1) <= guard_bound L.
Proof.
  destruct atoms_k0 as (-> & _). pose proof u_range as Hu. pose proof (cos_ge_quad u (proj1 Hu)) as H.
  pose proof (COS_bound u) as Hc. pose proof u_sq. pose proof gb_ge. pose proof L2_nonneg. apply Rabs_le. split; lra.
Qed.
Lemma G_sx : Rabs (sx L 0 0 - L) <= guard_bound L.
Proof.
  destruct atoms_k0 as (_ & -> & _). rewrite sx_eq. pose proof ds_bound. pose proof gb_ge. pose proof L3_nonneg.
  apply Rabs_le. split; lra.
Qed.
Lemma G_kx : Rabs (- kx2 0 0 * sx L 0 0 - 0) <= guard_bound L.
Proof.
  destruct atoms_k0 as (_ & -> & _). rewrite kx2_00, sx_eq. pose proof ds_bound. pose proof gb_ge. pose proof L3_nonneg. pose proof L3_le.
  apply Rabs_le. split; nra.
Qed.
Lemma G_cy : Rabs (cy L 0 - 1) <= guard_bound L.
Proof.
  destruct atoms_k0 as (_ & _ & -> & _). pose proof u_range as Hu. pose proof (cosh_le_quad u Hu) as H.
  pose proof (cosh_ge_1 u). pose proof u_sq. pose proof gb_ge. pose proof L2_nonneg. apply Rabs_le. split; lra.
Qed.
Lemma G_sy : Rabs (sy L 0 - L) <= guard_bound L.
Proof.
  destruct atoms_k0 as (_ & _ & _ & ->). rewrite sy_eq. pose proof dsh_bound. pose proof gb_ge. pose proof L3_nonneg.
  apply Rabs_le. split; lra.
Qed.
Lemma G_ky : Rabs (- ky2 0 * sy L 0 - 0) <= guard_bound L.
Proof.
  destruct atoms_k0 as (_ & _ & _ & ->). rewrite ky2_0, sy_eq. pose proof dsh_bound. pose proof gb_ge. pose proof L3_nonneg. pose proof L3_le.
  apply Rabs_le. split; nra.
Qed.
End Guard.

Theorem quad_k0_guard_bound L E i j : 0 <= L <= 100 -> (i < 7)%nat -> (j < 7)%nat ->
  Rabs (m7nth (quad_map L 0 0 0 0 E) i j - m7nth (drift_map L E) i j) <= 2e-12 * L * (1 + L + L * L).
Proof.
  intros HL Hi Hj. change (2e-12 * L * (1 + L + L * L)) with (guard_bound L).
  unfold quad_map. rewrite misaligned_0, base_rmatrix_untilted.
  split49 i j Hi Hj; cbv [m7nth v7nth base_untilted drift_map row c0 c1 c2 c3 c4 c5 c6];
  first [ exact (G_cx L HL) | exact (G_sx L HL) | exact (G_kx L HL) | exact (G_cy L HL) | exact (G_sy L HL) | exact (G_ky L HL)
        | match goal with |- Rabs ?t <= _ => replace t with 0 by (unfold dx, r56, drift_r56, Rsqr, Rdiv; ring) end;
          rewrite Rabs_R0; apply guard_bound_nonneg; lra ].
Qed.
