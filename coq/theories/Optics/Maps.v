(** The linear transfer maps of cheetah, transcribed formula by formula (guards included),
    over Coq's real numbers.  Definitions only; proofs live in the other Optics files.
    Sources: cheetah/utils/physics.py, cheetah/track_methods.py, accelerator/{drift,quadrupole,
    dipole,rbend,solenoid,horizontal_corrector,vertical_corrector,undulator,cavity,marker}.py *)
From Coq Require Import Reals.
From Cheetah Require Import Base.Mat.
Open Scope R_scope.

Notation rmmul := (@mmul R Rplus Rmult).
Notation rmvec := (@mvec R Rplus Rmult).
Notation rcong := (@cong R Rplus Rmult).
Definition rI : M7 R := @I7 R 0 1.
Definition RRth := RealField.RTheory.

(* matrix with given rows, helper *)
Definition row (a b c d e f g : R) : V7 R := mk7 a b c d e f g.

(** physics.py: electron rest energy in eV (scipy.constants, CODATA 2018 as float64) *)
Definition m_e : R := 510998.95069. (* physical_constants["electron mass energy equivalent in MeV"][0]*1e6 as installed here; the harness asserts this value on every run *)

(** compute_relativistic_factors *)
Definition gamma_of (E : R) : R := E / m_e.
Definition igamma2_of (E : R) : R := if Req_EM_T (gamma_of E) 0 then 0 else 1 / (gamma_of E)².
Definition beta_of (E : R) : R := sqrt (1 - igamma2_of E).

(** Drift.transfer_map *)
Definition drift_r56 (L E : R) : R := - L / (beta_of E)² * igamma2_of E.
Definition drift_map (L E : R) : M7 R :=
  mk7 (row 1 L 0 0 0 0 0) (row 0 1 0 0 0 0 0) (row 0 0 1 L 0 0 0) (row 0 0 0 1 0 0 0)
      (row 0 0 0 0 1 (drift_r56 L E) 0) (row 0 0 0 0 0 1 0) (row 0 0 0 0 0 0 1).

(** base_rmatrix: cos(sqrt(complex k) L).real and (sin(sqrt(complex k) L)/sqrt(complex k)).real *)
Definition Cf (k L : R) : R :=
  if Rlt_dec 0 k then cos (sqrt k * L) else if Rlt_dec k 0 then cosh (sqrt (- k) * L) else 1.
Definition Sf (k L : R) : R :=
  if Rlt_dec 0 k then sin (sqrt k * L) / sqrt k
  else if Rlt_dec k 0 then sinh (sqrt (- k) * L) / sqrt (- k) else L.
(* NB: at k = 0 exactly torch computes sin(0)/0 = nan; [Sf 0 L = L] is the limit. The k1 guard below makes
   ky2 <> 0 always; kx2 = k1' + hx^2 = 0 is an unspecified point (see DESIGN 2.6). *)

Definition k1_guard (k1 : R) : R := if Req_EM_T k1 0 then 1e-12 else k1.

Section BaseR.
Variables (L k1 hx E : R).
Let k1' := k1_guard k1.
Definition kx2 := k1' + hx².
Definition ky2 := - k1'.
Definition cx := Cf kx2 L.
Definition sx := Sf kx2 L.
Definition cy := Cf ky2 L.
Definition sy := Sf ky2 L.
Definition dx := hx / kx2 * (1 - cx).
Definition r56 := hx² * (L - sx) / kx2 / (beta_of E)² - L / (beta_of E)² * igamma2_of E.
Definition base_untilted : M7 R :=
  mk7 (row cx sx 0 0 0 (dx / beta_of E) 0)
      (row (- kx2 * sx) cx 0 0 0 (sx * hx / beta_of E) 0)
      (row 0 0 cy sy 0 0 0)
      (row 0 0 (- ky2 * sy) cy 0 0 0)
      (row (sx * hx / beta_of E) (dx / beta_of E) 0 0 1 r56 0)
      (row 0 0 0 0 0 1 0)
      (row 0 0 0 0 0 0 1).
End BaseR.

(** rotation_matrix(angle) *)
Definition rot (a : R) : M7 R :=
  mk7 (row (cos a) 0 (sin a) 0 0 0 0) (row 0 (cos a) 0 (sin a) 0 0 0)
      (row (- sin a) 0 (cos a) 0 0 0 0) (row 0 (- sin a) 0 (cos a) 0 0 0)
      (row 0 0 0 0 1 0 0) (row 0 0 0 0 0 1 0) (row 0 0 0 0 0 0 1).

(* base_rmatrix: `if torch.any(tilt != 0): R = rot(-tilt) R rot(tilt)`; for a scalar setting: *)
Definition base_rmatrix (L k1 hx tilt E : R) : M7 R :=
  if Req_EM_T tilt 0 then base_untilted L k1 hx E
  else rmmul (rot (- tilt)) (rmmul (base_untilted L k1 hx E) (rot tilt)).

(** misalignment_matrix *)
Definition shift (mx my : R) : M7 R :=
  mk7 (row 1 0 0 0 0 0 mx) (row 0 1 0 0 0 0 0) (row 0 0 1 0 0 0 my) (row 0 0 0 1 0 0 0)
      (row 0 0 0 0 1 0 0) (row 0 0 0 0 0 1 0) (row 0 0 0 0 0 0 1).
Definition mis_entry (mx my : R) := shift (- mx) (- my).
Definition mis_exit (mx my : R) := shift mx my.
Definition misaligned (mx my : R) (Rm : M7 R) : M7 R :=
  if Req_EM_T mx 0 then (if Req_EM_T my 0 then Rm else rmmul (mis_exit mx my) (rmmul Rm (mis_entry mx my)))
  else rmmul (mis_exit mx my) (rmmul Rm (mis_entry mx my)).

(** Quadrupole.transfer_map *)
Definition quad_map (L k1 mx my tilt E : R) : M7 R := misaligned mx my (base_rmatrix L k1 0 tilt E).

(** Horizontal/VerticalCorrector.transfer_map *)
Definition hcor_map (L angle E : R) : M7 R :=
  mk7 (row 1 L 0 0 0 0 0) (row 0 1 0 0 0 0 angle) (row 0 0 1 L 0 0 0) (row 0 0 0 1 0 0 0)
      (row 0 0 0 0 1 (drift_r56 L E) 0) (row 0 0 0 0 0 1 0) (row 0 0 0 0 0 0 1).
Definition vcor_map (L angle E : R) : M7 R :=
  mk7 (row 1 L 0 0 0 0 0) (row 0 1 0 0 0 0 0) (row 0 0 1 L 0 0 0) (row 0 0 0 1 0 0 angle)
      (row 0 0 0 0 1 (drift_r56 L E) 0) (row 0 0 0 0 0 1 0) (row 0 0 0 0 0 0 1).

(** Solenoid.transfer_map *)
Definition sol_sk (L k : R) : R := if Req_EM_T k 0 then L else sin (L * k) / k.
Definition sol_r56 (L E : R) : R := if Req_EM_T (gamma_of E) 0 then 0 else L / (1 - (gamma_of E)²).
Definition sol_body (L k E : R) : M7 R :=
  let c := cos (L * k) in let s := sin (L * k) in let sk := sol_sk L k in
  mk7 (row (c²) (c * sk) (s * c) (s * sk) 0 0 0)
      (row (- k * s * c) (c²) (- k * s²) (s * c) 0 0 0)
      (row (- s * c) (- s * sk) (c²) (c * sk) 0 0 0)
      (row (k * s²) (- s * c) (- k * s * c) (c²) 0 0 0)
      (row 0 0 0 0 1 (sol_r56 L E) 0) (row 0 0 0 0 0 1 0) (row 0 0 0 0 0 0 1).
Definition sol_map (L k mx my E : R) : M7 R := misaligned mx my (sol_body L k E).

(** Dipole.transfer_map (the linear map ignores fringe_at; exit edge uses `gap`, as the code does) *)
Definition dip_hx (L angle : R) : R := if Req_EM_T L 0 then 0 else angle / L.
Definition edge_phi (fint hx gap e : R) : R := fint * hx * gap * (1 / cos e) * (1 + (sin e)²).
Definition edge_map (hx e phi : R) : M7 R :=
  mk7 (row 1 0 0 0 0 0 0) (row (hx * tan e) 1 0 0 0 0 0) (row 0 0 1 0 0 0 0) (row 0 0 (- hx * tan (e - phi)) 1 0 0 0)
      (row 0 0 0 0 1 0 0) (row 0 0 0 0 0 1 0) (row 0 0 0 0 0 0 1).
Definition dip_thin (L angle : R) : M7 R :=
  mk7 (row 1 L 0 0 0 0 0) (row 0 1 0 0 0 0 0) (row 0 0 1 L 0 0 angle) (row 0 0 0 1 0 0 0)
      (row 0 0 0 0 1 0 0) (row 0 0 0 0 0 1 0) (row 0 0 0 0 0 0 1).
Definition dip_body (L angle k1 E : R) : M7 R :=
  if Req_EM_T L 0 then dip_thin L angle else base_untilted L k1 (dip_hx L angle) E.
Definition dip_map (L angle k1 e1 e2 tilt gap fint fint_exit E : R) : M7 R :=
  let hx := dip_hx L angle in
  let Ren := edge_map hx e1 (edge_phi fint hx gap e1) in
  let Rex := edge_map hx e2 (edge_phi fint_exit hx gap e2) in
  let Rm := rmmul Rex (rmmul (dip_body L angle k1 E) Ren) in
  rmmul (rot (- tilt)) (rmmul Rm (rot tilt)).
(* RBend: dipole_e1 = rbend_e1 + angle/2, dipole_e2 = rbend_e2 + angle/2 *)
Definition rbend_map (L angle k1 re1 re2 tilt gap fint fint_exit E : R) : M7 R :=
  dip_map L angle k1 (re1 + angle / 2) (re2 + angle / 2) tilt gap fint fint_exit E.

(** Undulator.transfer_map (as coded: R56 = + L * igamma2) *)
Definition und_igamma2 (E : R) : R := if Req_EM_T (gamma_of E) 0 then 0 else 1 / (gamma_of E)².
Definition und_map (L E : R) : M7 R :=
  mk7 (row 1 L 0 0 0 0 0) (row 0 1 0 0 0 0 0) (row 0 0 1 L 0 0 0) (row 0 0 0 1 0 0 0)
      (row 0 0 0 0 1 (L * und_igamma2 E) 0) (row 0 0 0 0 0 1 0) (row 0 0 0 0 0 0 1).
(** Undulator.transfer_map after the repair of finding F3:
      _, igamma2, beta = compute_relativistic_factors(energy);  tm[4,5] = -length / beta**2 * igamma2
    ([und_map] above is the map BEFORE the repair; which of the two the working tree computes is decided on every
    run by the correspondence harness, see harness/optics.py and Optics/UndFixed.v) *)
Definition und_map_fixed (L E : R) : M7 R :=
  mk7 (row 1 L 0 0 0 0 0) (row 0 1 0 0 0 0 0) (row 0 0 1 L 0 0 0) (row 0 0 0 1 0 0 0)
      (row 0 0 0 0 1 (- L / (beta_of E)² * igamma2_of E) 0) (row 0 0 0 0 0 1 0) (row 0 0 0 0 0 0 1).

(** Cavity.transfer_map at voltage = 0: base_rmatrix(k1=0, hx=0, tilt=0) *)
Definition cavity_off_map (L E : R) : M7 R := base_rmatrix L 0 0 0 E.

(** Cavity._cavity_rmatrix (voltage <> 0), eta = 1; phi in radians = deg2rad(phase); k = 2 pi f / c *)
Definition c_light : R := 299792458.
Section Cavity.
Variables (L V phi f E : R).
Definition cav_dE := V * cos phi.
Definition cav_Ei := E / m_e.
Definition cav_Ef := (E + cav_dE) / m_e.
Definition cav_Ep := (cav_Ef - cav_Ei) / L.
Definition cav_alpha := sqrt (1 / 8) / cos phi * ln (cav_Ef / cav_Ei).
Definition cav_r11 := cos cav_alpha - sqrt 2 * cos phi * sin cav_alpha.
Definition cav_r12 := sqrt 8 * cav_Ei / cav_Ep * cos phi * sin cav_alpha.
Definition cav_r21 := - cav_Ep / cav_Ef * (cos phi / sqrt 2 + sqrt (1 / 8) / cos phi) * sin cav_alpha.
Definition cav_r22 := cav_Ei / cav_Ef * (cos cav_alpha + sqrt 2 * cos phi * sin cav_alpha).
Definition cav_beta0 := sqrt (1 - 1 / cav_Ei²).
Definition cav_beta1 := sqrt (1 - 1 / cav_Ef²).
Definition cav_k := 2 * PI * f / c_light.
Definition cav_r56 := - L / (cav_Ef² * cav_Ei * cav_beta1) * (cav_Ef + cav_Ei) / (cav_beta1 + cav_beta0).
Definition cav_r55_cor :=
  cav_k * L * cav_beta0 * V / m_e * sin phi * (cav_Ei * cav_Ef * (cav_beta0 * cav_beta1 - 1) + 1)
  / (cav_beta1 * cav_Ef * (cav_Ei - cav_Ef)²).
Definition cav_r66 := cav_Ei / cav_Ef * cav_beta0 / cav_beta1.
Definition cav_r65 := cav_k * sin phi * V / (cav_Ef * cav_beta1 * m_e).
Definition cavity_on_map : M7 R :=
  mk7 (row cav_r11 cav_r12 0 0 0 0 0) (row cav_r21 cav_r22 0 0 0 0 0)
      (row 0 0 cav_r11 cav_r12 0 0 0) (row 0 0 cav_r21 cav_r22 0 0 0)
      (row 0 0 0 0 (1 + cav_r55_cor) cav_r56 0) (row 0 0 0 0 cav_r65 cav_r66 0) (row 0 0 0 0 0 0 1).
End Cavity.

(** Marker / BPM / Screen / Aperture: identity *)
Definition identity_map : M7 R := rI.
