(** C09 -- model side: notions used to state "a switched-off element behaves as a drift", and the parts of
    Cavity.track (voltage = 0) that are not a transfer-map multiplication.  Definitions only (proofs: OffScalar.v, OffProofs.v).
    The linear maps themselves are in Optics/Maps.v. *)
From Coq Require Import Reals.
From Cheetah Require Import Base.Mat Optics.Maps.
Open Scope R_scope.

(** entrywise closeness of 7-vectors / 7x7 matrices *)
Definition v7close (eps : R) (u v : V7 R) : Prop :=
  Rabs (c0 u - c0 v) <= eps /\ Rabs (c1 u - c1 v) <= eps /\ Rabs (c2 u - c2 v) <= eps /\ Rabs (c3 u - c3 v) <= eps /\
  Rabs (c4 u - c4 v) <= eps /\ Rabs (c5 u - c5 v) <= eps /\ Rabs (c6 u - c6 v) <= eps.
Definition m7close (eps : R) (a b : M7 R) : Prop :=
  v7close eps (c0 a) (c0 b) /\ v7close eps (c1 a) (c1 b) /\ v7close eps (c2 a) (c2 b) /\ v7close eps (c3 a) (c3 b) /\
  v7close eps (c4 a) (c4 b) /\ v7close eps (c5 a) (c5 b) /\ v7close eps (c6 a) (c6 b).
Definition norm1 (v : V7 R) : R :=
  Rabs (c0 v) + Rabs (c1 v) + Rabs (c2 v) + Rabs (c3 v) + Rabs (c4 v) + Rabs (c5 v) + Rabs (c6 v).

(** tilt conjugation rot(-t) M rot(t) and misalignment conjugation, as the code composes them *)
Definition rconj (t : R) (m : M7 R) : M7 R := rmmul (rot (- t)) (rmmul m (rot t)).
Definition sconj (mx my : R) (m : M7 R) : M7 R := rmmul (mis_exit mx my) (rmmul m (mis_entry mx my)).

(** two uncoupled 2x2 blocks + a longitudinal R56: the shape of base_untilted at hx = 0 and of a drift *)
Definition blockdiag (a b c d a' b' c' d' r : R) : M7 R :=
  mk7 (row a b 0 0 0 0 0) (row c d 0 0 0 0 0) (row 0 0 a' b' 0 0 0) (row 0 0 c' d' 0 0 0)
      (row 0 0 0 0 1 r 0) (row 0 0 0 0 0 1 0) (row 0 0 0 0 0 0 1).

(** the deviation bound of a "guarded" zero-strength map from a drift: kappa = |k1'| (1e-12 at k1 = 0) *)
Definition off_eps (kappa L : R) : R := 1.02 * kappa * (L + L * L + L * L * L).
Definition guard_eps (L : R) : R := off_eps 1e-12 L.

(** Cavity._track_beam at voltage = 0 and beam energy E > 0 (so `torch.any(E + dE > 0)` holds and
    `torch.any(dE > 0)` does not): tm = base_rmatrix(k1 = 0), then
      delta' = delta * E * beta0 / (E1 * beta1) + V * beta0 / (E1 * beta1) * (cos(-tau*beta0*k + phi) - cos phi)   (E1 = E, beta1 = beta0, V = 0)
      tau'   = (tm p)[4] + T566 delta^2 + T556 tau delta + T555 tau^2,  T566 = 1.5 L igamma2 / beta0^3, T556 = T555 = 0.
    k = 2 pi f / c and phi = deg2rad(phase) stay parameters. *)
Definition T566_off (L E : R) : R := 1.5 * L * igamma2_of E / (beta_of E) ^ 3.
Definition cav_off_delta (E k phi tau delta : R) : R :=
  delta * E * beta_of E / (E * beta_of E)
  + 0 * beta_of E / (E * beta_of E) * (cos (- tau * beta_of E * k + phi) - cos phi).
Definition cavity_off_track (L E k phi : R) (v : V7 R) : V7 R :=
  let w := rmvec (cavity_off_map L E) v in
  mk7 (c0 w) (c1 w) (c2 w) (c3 w)
      (c4 w + (T566_off L E * (c5 v) ^ 2 + 0 * c4 v * c5 v + 0 * (c4 v) ^ 2))
      (cav_off_delta E k phi (c4 v) (c5 v)) (c6 w).

(** ... and for a ParameterBeam: mu as above; cov = tm S tm^T with
      cov[5,5] := S55 ; cov[4,4] := cov[4,5] := cov[5,4] := T566 S55^2 + T556 S45 S55 + T555 S44^2   (overwritten, as coded) *)
Definition cavity_off_track_cov (L E : R) (S : M7 R) : M7 R :=
  let C := rcong (cavity_off_map L E) S in
  let s55 := c5 (c5 S) in let s45 := c5 (c4 S) in let s44 := c4 (c4 S) in
  let v := T566_off L E * s55 ^ 2 + 0 * s45 * s55 + 0 * s44 ^ 2 in
  mk7 (c0 C) (c1 C) (c2 C) (c3 C)
      (row (c0 (c4 C)) (c1 (c4 C)) (c2 (c4 C)) (c3 (c4 C)) v v (c6 (c4 C)))
      (row (c0 (c5 C)) (c1 (c5 C)) (c2 (c5 C)) (c3 (c5 C)) v s55 (c6 (c5 C)))
      (c6 C).
