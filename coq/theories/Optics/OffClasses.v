(** C09 -- the switched-off elements that track by a linear transfer map, as one family (definitions only). *)
From Coq Require Import Reals.
From Cheetah Require Import Base.Mat Optics.Maps Optics.Off.
Open Scope R_scope.

Inductive off_elem : Type :=
| OffQuadrupole (L mx my tilt : R)                 (* Quadrupole(k1 = 0) *)
| OffDipole (L e1 e2 tilt gap fint fintx : R)      (* Dipole(angle = 0, k1 = 0) *)
| OffRBend (L e1 e2 tilt gap fint fintx : R)       (* RBend(angle = 0, k1 = 0) *)
| OffSolenoid (L mx my : R)                        (* Solenoid(k = 0) *)
| OffHCorrector (L : R)                            (* HorizontalCorrector(angle = 0) *)
| OffVCorrector (L : R)                            (* VerticalCorrector(angle = 0) *)
| OffCavityMap (L : R)                             (* Cavity(voltage = 0).transfer_map (NOT Cavity.track, see cavity_off_track) *)
| OffUndulator (L : R).                            (* Undulator *)

Definition off_length (el : off_elem) : R :=
  match el with
  | OffQuadrupole L _ _ _ | OffDipole L _ _ _ _ _ _ | OffRBend L _ _ _ _ _ _ | OffSolenoid L _ _
  | OffHCorrector L | OffVCorrector L | OffCavityMap L | OffUndulator L => L
  end.
Definition off_mis (el : off_elem) : R :=
  match el with OffQuadrupole _ mx my _ => Rabs mx + Rabs my | _ => 0 end.
Definition off_map (el : off_elem) (E : R) : M7 R :=
  match el with
  | OffQuadrupole L mx my t => quad_map L 0 mx my t E
  | OffDipole L e1 e2 t gap fint fintx => dip_map L 0 0 e1 e2 t gap fint fintx E
  | OffRBend L e1 e2 t gap fint fintx => rbend_map L 0 0 e1 e2 t gap fint fintx E
  | OffSolenoid L mx my => sol_map L 0 mx my E
  | OffHCorrector L => hcor_map L 0 E
  | OffVCorrector L => vcor_map L 0 E
  | OffCavityMap L => cavity_off_map L E
  | OffUndulator L => und_map L E
  end.
Definition is_undulator (el : off_elem) : Prop := match el with OffUndulator _ => True | _ => False end.
