(** C09 -- lemmas used by the generated correspondence goals (closed forms without [if], entrywise reading of m7close). *)
From Coq Require Import Reals Lra Psatz Lia.
From Cheetah Require Import Base.Mat Optics.Maps Optics.Off Optics.OffScalar Optics.OffProofs Optics.OffElems Optics.OffRefute.
Open Scope R_scope.

Lemma m7close_tri e1 e2 a b c : m7close e1 a b -> m7close e2 b c -> m7close (e1 + e2) a c.
Proof.
  assert (Ht : forall x y z, Rabs (x - y) <= e1 -> Rabs (y - z) <= e2 -> Rabs (x - z) <= e1 + e2).
  { intros x y z H1 H2. replace (x - z) with ((x - y) + (y - z)) by ring. apply Rabs_sum_le; assumption. }
  unfold m7close, v7close. intros H1 H2.
  repeat match goal with H : _ /\ _ |- _ => destruct H end.
  repeat split; eapply Ht; eassumption.
Qed.

Lemma m7close_nth e a b :
  m7close e a b <-> (forall i j, (i < 7)%nat -> (j < 7)%nat -> Rabs (m7nth a i j - m7nth b i j) <= e).
Proof.
  split.
  - unfold m7close, v7close. intros H i j Hi Hj.
    repeat match goal with H : _ /\ _ |- _ => destruct H end.
    do 7 (destruct i as [|i]; [do 7 (destruct j as [|j]; [cbn; assumption|]); lia|]). lia.
  - intros H. unfold m7close, v7close.
    repeat split.
    all: first [ exact (H 0%nat 0%nat ltac:(lia) ltac:(lia)) | exact (H 0%nat 1%nat ltac:(lia) ltac:(lia)) | exact (H 0%nat 2%nat ltac:(lia) ltac:(lia)) | exact (H 0%nat 3%nat ltac:(lia) ltac:(lia)) | exact (H 0%nat 4%nat ltac:(lia) ltac:(lia)) | exact (H 0%nat 5%nat ltac:(lia) ltac:(lia)) | exact (H 0%nat 6%nat ltac:(lia) ltac:(lia)) | exact (H 1%nat 0%nat ltac:(lia) ltac:(lia)) | exact (H 1%nat 1%nat ltac:(lia) ltac:(lia)) | exact (H 1%nat 2%nat ltac:(lia) ltac:(lia)) | exact (H 1%nat 3%nat ltac:(lia) ltac:(lia)) | exact (H 1%nat 4%nat ltac:(lia) ltac:(lia)) | exact (H 1%nat 5%nat ltac:(lia) ltac:(lia)) | exact (H 1%nat 6%nat ltac:(lia) ltac:(lia)) | exact (H 2%nat 0%nat ltac:(lia) ltac:(lia)) | exact (H 2%nat 1%nat ltac:(lia) ltac:(lia)) | exact (H 2%nat 2%nat ltac:(lia) ltac:(lia)) | exact (H 2%nat 3%nat ltac:(lia) ltac:(lia)) | exact (H 2%nat 4%nat ltac:(lia) ltac:(lia)) | exact (H 2%nat 5%nat ltac:(lia) ltac:(lia)) | exact (H 2%nat 6%nat ltac:(lia) ltac:(lia)) | exact (H 3%nat 0%nat ltac:(lia) ltac:(lia)) | exact (H 3%nat 1%nat ltac:(lia) ltac:(lia)) | exact (H 3%nat 2%nat ltac:(lia) ltac:(lia)) | exact (H 3%nat 3%nat ltac:(lia) ltac:(lia)) | exact (H 3%nat 4%nat ltac:(lia) ltac:(lia)) | exact (H 3%nat 5%nat ltac:(lia) ltac:(lia)) | exact (H 3%nat 6%nat ltac:(lia) ltac:(lia)) | exact (H 4%nat 0%nat ltac:(lia) ltac:(lia)) | exact (H 4%nat 1%nat ltac:(lia) ltac:(lia)) | exact (H 4%nat 2%nat ltac:(lia) ltac:(lia)) | exact (H 4%nat 3%nat ltac:(lia) ltac:(lia)) | exact (H 4%nat 4%nat ltac:(lia) ltac:(lia)) | exact (H 4%nat 5%nat ltac:(lia) ltac:(lia)) | exact (H 4%nat 6%nat ltac:(lia) ltac:(lia)) | exact (H 5%nat 0%nat ltac:(lia) ltac:(lia)) | exact (H 5%nat 1%nat ltac:(lia) ltac:(lia)) | exact (H 5%nat 2%nat ltac:(lia) ltac:(lia)) | exact (H 5%nat 3%nat ltac:(lia) ltac:(lia)) | exact (H 5%nat 4%nat ltac:(lia) ltac:(lia)) | exact (H 5%nat 5%nat ltac:(lia) ltac:(lia)) | exact (H 5%nat 6%nat ltac:(lia) ltac:(lia)) | exact (H 6%nat 0%nat ltac:(lia) ltac:(lia)) | exact (H 6%nat 1%nat ltac:(lia) ltac:(lia)) | exact (H 6%nat 2%nat ltac:(lia) ltac:(lia)) | exact (H 6%nat 3%nat ltac:(lia) ltac:(lia)) | exact (H 6%nat 4%nat ltac:(lia) ltac:(lia)) | exact (H 6%nat 5%nat ltac:(lia) ltac:(lia)) | exact (H 6%nat 6%nat ltac:(lia) ltac:(lia)) ].
Qed.

(* closed forms (no [if]) above the rest energy *)
Definition ig_closed (E : R) : R := 1 / ((E / m_e) * (E / m_e)).
Definition drift_r56_closed (L E : R) : R := - L / (1 - ig_closed E) * ig_closed E.
Definition T566_closed (L E : R) : R := 1.5 * L * ig_closed E / (sqrt (1 - ig_closed E) * (1 - ig_closed E)).

Lemma igamma2_closed E : m_e < E -> igamma2_of E = ig_closed E.
Proof. intros HE. destruct (rel_facts E HE) as [_ [Hi _]]. exact Hi. Qed.

Lemma drift_r56_eq_closed L E : m_e < E -> drift_r56 L E = drift_r56_closed L E.
Proof.
  intros HE. destruct (rel_facts E HE) as [Hg [Hi [Hr [Hb Hb0]]]].
  unfold drift_r56, drift_r56_closed, Rsqr. rewrite Hb, <- (igamma2_closed E HE). reflexivity.
Qed.

Lemma drift_map_closed L E : m_e < E -> drift_map L E = blockdiag 1 L 0 1 1 L 0 1 (drift_r56_closed L E).
Proof. intros HE. unfold drift_map. rewrite (drift_r56_eq_closed L E HE). reflexivity. Qed.

Lemma und_map_closed L E : m_e < E -> und_map L E = blockdiag 1 L 0 1 1 L 0 1 (L * ig_closed E).
Proof. intros HE. unfold und_map. rewrite und_igamma2_eq, (igamma2_closed E HE). reflexivity. Qed.

Lemma T566_off_closed L E : m_e < E -> T566_off L E = T566_closed L E.
Proof.
  intros HE. destruct (rel_facts E HE) as [Hg [Hi [Hr [Hb Hb0]]]].
  unfold T566_off, T566_closed. rewrite <- (igamma2_closed E HE).
  replace (beta_of E ^ 3) with (beta_of E * (beta_of E * beta_of E)) by ring. rewrite Hb. reflexivity.
Qed.

(* Cavity.track at voltage 0, one particle, closed form of the longitudinal output *)
Lemma cavity_off_track_tau_closed L E k phi v : m_e < E ->
  c4 (cavity_off_track L E k phi v) = c4 v + drift_r56_closed L E * c5 v + T566_closed L E * (c5 v * c5 v).
Proof.
  intros HE. rewrite cavity_off_track_tau, (T566_off_closed L E HE), (drift_map_closed L E HE).
  destruct v as [v0 v1 v2 v3 v4 v5 v6]. cbn. unfold dot, row; cbn [c0 c1 c2 c3 c4 c5 c6]. ring.
Qed.

Lemma cavity_off_cov44_closed L E S : m_e < E ->
  c4 (c4 (cavity_off_track_cov L E S)) = T566_closed L E * (c5 (c5 S) * c5 (c5 S)).
Proof.
  intros HE. destruct (cavity_off_cov_overwritten L E S) as [H _]. rewrite H, T566_off_closed by assumption. ring.
Qed.
