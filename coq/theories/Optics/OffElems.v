(** C09 -- per-element statements: zero-strength maps versus the drift map of the same length. *)
From Coq Require Import Reals Lra Psatz.
From Cheetah Require Import Base.Mat Optics.Maps Optics.Off Optics.OffScalar Optics.OffProofs.
Open Scope R_scope.

(* ------------------------------------------------------------------ relativistic factors above the rest energy *)
Lemma m_e_pos : 0 < m_e.
Proof. unfold m_e. lra. Qed.

Lemma rel_facts E : m_e < E ->
  1 < gamma_of E /\ igamma2_of E = 1 / (gamma_of E * gamma_of E) /\ 0 < igamma2_of E < 1 /\
  beta_of E * beta_of E = 1 - igamma2_of E /\ 0 < beta_of E.
Proof.
  intros HE. generalize m_e_pos; intros Hm.
  assert (Hg : 1 < gamma_of E).
  { unfold gamma_of. apply Rmult_lt_reg_r with m_e; [assumption|]. unfold Rdiv. rewrite Rmult_assoc, Rinv_l by lra. lra. }
  assert (Hi : igamma2_of E = 1 / (gamma_of E * gamma_of E)).
  { unfold igamma2_of. destruct (Req_EM_T (gamma_of E) 0); [lra|reflexivity]. }
  assert (Hgg : 1 < gamma_of E * gamma_of E) by nra.
  assert (Hr : 0 < igamma2_of E < 1).
  { rewrite Hi. split.
    - apply Rdiv_lt_0_compat; lra.
    - apply Rmult_lt_reg_r with (gamma_of E * gamma_of E); [lra|]. unfold Rdiv. rewrite Rmult_assoc, Rinv_l by lra. lra. }
  repeat split; try assumption; try lra.
  - unfold beta_of. apply sqrt_sqrt. lra.
  - unfold beta_of. apply sqrt_lt_R0. lra.
Qed.

(* ------------------------------------------------------------------ the 1e-12 guard *)
Lemma k1_guard_0 : k1_guard 0 = 1e-12.
Proof. unfold k1_guard. destruct (Req_EM_T 0 0); [reflexivity|lra]. Qed.

Lemma k1_guard_nz k1 : k1 <> 0 -> k1_guard k1 = k1.
Proof. intros H. unfold k1_guard. destruct (Req_EM_T k1 0); [contradiction|reflexivity]. Qed.

Lemma guard_small L : 0 <= L <= 100 -> Rabs (k1_guard 0) * (L * L) <= 1 / 100.
Proof. intros [H0 H1]. rewrite k1_guard_0, Rabs_pos_eq by lra. assert (L * L <= 100 * 100) by nra. lra. Qed.

Lemma guard_eps_eq : forall L, off_eps (Rabs (k1_guard 0)) L = guard_eps L.
Proof. intros. unfold guard_eps. rewrite k1_guard_0, Rabs_pos_eq by lra. reflexivity. Qed.

Lemma guard_eps_0 : guard_eps 0 = 0.
Proof. unfold guard_eps, off_eps. ring. Qed.

Lemma guard_eps_nonneg L : 0 <= L -> 0 <= guard_eps L.
Proof. intros. unfold guard_eps, off_eps. assert (0 <= L * L) by nra. assert (0 <= L * L * L) by (apply Rmult_le_pos; lra). nra. Qed.

(* ------------------------------------------------------------------ Quadrupole k1 = 0 ; Cavity map at voltage = 0 *)
Theorem quad_off_bound L mx my t E : 0 <= L <= 100 ->
  m7close (guard_eps L * (1 + Rabs mx + Rabs my)) (quad_map L 0 mx my t E) (drift_map L E).
Proof. intros HL. rewrite <- guard_eps_eq. apply quad_map_close; [lra|apply guard_small; assumption]. Qed.

Theorem cavity_off_bound L E : 0 <= L <= 100 -> m7close (guard_eps L) (cavity_off_map L E) (drift_map L E).
Proof. intros HL. rewrite <- guard_eps_eq. unfold cavity_off_map. apply base_rmatrix_close; [lra|apply guard_small; assumption]. Qed.

(* continuity of the quadrupole map at k1 = 0 (Lipschitz-type bound; implies the limit k1 -> 0 from both signs) *)
Lemma m7close_trans e1 e2 a b c : m7close e1 a b -> m7close e2 c b -> m7close (e1 + e2) a c.
Proof.
  assert (Ht : forall x y z, Rabs (x - y) <= e1 -> Rabs (z - y) <= e2 -> Rabs (x - z) <= e1 + e2).
  { intros x y z H1 H2. replace (x - z) with ((x - y) + - (z - y)) by ring. apply Rabs_sum_le; [assumption|rewrite Rabs_Ropp; assumption]. }
  unfold m7close, v7close. intros H1 H2.
  repeat match goal with H : _ /\ _ |- _ => destruct H end.
  repeat split; eapply Ht; eassumption.
Qed.

Theorem quad_small_k1_bound L k1 mx my t E : 0 <= L -> k1 <> 0 -> Rabs k1 * (L * L) <= 1 / 100 ->
  m7close (off_eps (Rabs k1) L * (1 + Rabs mx + Rabs my)) (quad_map L k1 mx my t E) (drift_map L E).
Proof.
  intros HL Hk Hq. rewrite <- (k1_guard_nz k1 Hk) at 1. apply quad_map_close; [assumption|].
  rewrite k1_guard_nz; assumption.
Qed.

Theorem quad_continuous_at_0 L k1 mx my t E : 0 <= L <= 100 -> k1 <> 0 -> Rabs k1 * (L * L) <= 1 / 100 ->
  m7close ((off_eps (Rabs k1) L + guard_eps L) * (1 + Rabs mx + Rabs my)) (quad_map L k1 mx my t E) (quad_map L 0 mx my t E).
Proof.
  intros HL Hk Hq. rewrite Rmult_plus_distr_r.
  eapply m7close_trans; [apply quad_small_k1_bound; [lra|assumption|assumption] | apply quad_off_bound; assumption].
Qed.

(* off_eps is linear in the strength: the Lipschitz constant *)
Lemma off_eps_linear kappa L : off_eps kappa L = kappa * (1.02 * (L + L * L + L * L * L)).
Proof. unfold off_eps. ring. Qed.

(* ------------------------------------------------------------------ Solenoid k = 0, correctors angle = 0: exact *)
Lemma sol_r56_is_drift L E : m_e < E -> sol_r56 L E = drift_r56 L E.
Proof.
  intros HE. destruct (rel_facts E HE) as [Hg [Hi [Hr [Hb Hb0]]]].
  unfold sol_r56, drift_r56. destruct (Req_EM_T (gamma_of E) 0); [lra|].
  unfold Rsqr. rewrite Hb, Hi. field. split; nra.
Qed.

Lemma sol_body_off L E : m_e < E -> sol_body L 0 E = drift_map L E.
Proof.
  intros HE. unfold sol_body, drift_map, sol_sk. rewrite sol_r56_is_drift by assumption.
  destruct (Req_EM_T 0 0); [|lra]. rewrite Rmult_0_r, cos_0, sin_0.
  apply v7_eq; cbn [c0 c1 c2 c3 c4 c5 c6 row]; apply v7_eq; cbn [c0 c1 c2 c3 c4 c5 c6 row]; try reflexivity; unfold Rsqr; ring.
Qed.

Theorem solenoid_off L mx my E : m_e < E -> sol_map L 0 mx my E = drift_map L E.
Proof. intros HE. unfold sol_map. rewrite sol_body_off by assumption. apply misaligned_drift. Qed.

Theorem hcor_off L E : hcor_map L 0 E = drift_map L E.
Proof. reflexivity. Qed.
Theorem vcor_off L E : vcor_map L 0 E = drift_map L E.
Proof. reflexivity. Qed.

(* ------------------------------------------------------------------ Dipole / RBend angle = 0 *)
Lemma dip_hx_0 L : dip_hx L 0 = 0.
Proof. unfold dip_hx. destruct (Req_EM_T L 0); [reflexivity|unfold Rdiv; ring]. Qed.

Lemma edge_map_0 e phi : edge_map 0 e phi = rI.
Proof.
  unfold edge_map, rI, I7, e0, e1, e2, e3, e4, e5, e6, row.
  replace (0 * tan e) with 0 by ring. replace (- 0 * tan (e - phi)) with 0 by ring. reflexivity.
Qed.

Lemma rmmul_I_l m : rmmul rI m = m.
Proof. apply (mmul_I_l RRth). Qed.
Lemma rmmul_I_r m : rmmul m rI = m.
Proof. apply (mmul_I_r RRth). Qed.

(* both edges are the identity whatever e1, e2, fint, gap; what is left is the tilted body *)
Lemma dip_off_form L k1 e1 e2 t gap fint fintx E :
  dip_map L 0 k1 e1 e2 t gap fint fintx E = rconj t (if Req_EM_T L 0 then drift_map L E else base_untilted L k1 0 E).
Proof.
  unfold dip_map, rconj. rewrite dip_hx_0, !edge_map_0, rmmul_I_l, rmmul_I_r.
  unfold dip_body. rewrite dip_hx_0. destruct (Req_EM_T L 0) as [->|]; [|reflexivity].
  rewrite drift_zero_length. reflexivity.
Qed.

Theorem dipole_off_bound L e1 e2 t gap fint fintx E : 0 <= L <= 100 ->
  m7close (guard_eps L) (dip_map L 0 0 e1 e2 t gap fint fintx E) (drift_map L E).
Proof.
  intros HL. rewrite dip_off_form. destruct (Req_EM_T L 0).
  - rewrite drift_commutes_rot. apply m7close_refl. apply guard_eps_nonneg; lra.
  - rewrite <- guard_eps_eq. apply base_tilted_close; [lra|apply guard_small; assumption].
Qed.

Theorem rbend_off_bound L re1 re2 t gap fint fintx E : 0 <= L <= 100 ->
  m7close (guard_eps L) (rbend_map L 0 0 re1 re2 t gap fint fintx E) (drift_map L E).
Proof. intros. unfold rbend_map. apply dipole_off_bound; assumption. Qed.

(* ------------------------------------------------------------------ zero length and zero strength = identity *)
Theorem quad_zero_identity mx my t E : quad_map 0 0 mx my t E = rI.
Proof.
  rewrite <- (drift_zero_length E). apply m7close_0_eq.
  generalize (quad_off_bound 0 mx my t E). rewrite guard_eps_0, Rmult_0_l. intros H; apply H; lra.
Qed.
Theorem dipole_zero_identity e1 e2 t gap fint fintx E : dip_map 0 0 0 e1 e2 t gap fint fintx E = rI.
Proof.
  rewrite <- (drift_zero_length E). apply m7close_0_eq.
  generalize (dipole_off_bound 0 e1 e2 t gap fint fintx E). rewrite guard_eps_0. intros H; apply H; lra.
Qed.
Theorem rbend_zero_identity e1 e2 t gap fint fintx E : rbend_map 0 0 0 e1 e2 t gap fint fintx E = rI.
Proof. unfold rbend_map. apply dipole_zero_identity. Qed.
Theorem cavity_map_zero_identity E : cavity_off_map 0 E = rI.
Proof.
  rewrite <- (drift_zero_length E). apply m7close_0_eq.
  generalize (cavity_off_bound 0 E). rewrite guard_eps_0. intros H; apply H; lra.
Qed.
Theorem solenoid_zero_identity mx my E : sol_map 0 0 mx my E = rI.
Proof.
  assert (Hb : sol_body 0 0 E = rI).
  { unfold sol_body, sol_sk, sol_r56. destruct (Req_EM_T 0 0); [|lra]. rewrite Rmult_0_r, cos_0, sin_0.
    replace (if Req_EM_T (gamma_of E) 0 then 0 else 0 / (1 - (gamma_of E)²)) with 0
      by (destruct (Req_EM_T (gamma_of E) 0); [reflexivity|unfold Rdiv; ring]).
    apply v7_eq; cbn [c0 c1 c2 c3 c4 c5 c6 row]; apply v7_eq; cbn [c0 c1 c2 c3 c4 c5 c6 row rI I7 e0 e1 e2 e3 e4 e5 e6]; try reflexivity; unfold Rsqr; ring. }
  unfold sol_map. rewrite Hb, <- (drift_zero_length E). apply misaligned_drift.
Qed.
Theorem hcor_zero_identity E : hcor_map 0 0 E = rI.
Proof. rewrite hcor_off. apply drift_zero_length. Qed.
Theorem vcor_zero_identity E : vcor_map 0 0 E = rI.
Proof. rewrite vcor_off. apply drift_zero_length. Qed.
Theorem undulator_zero_identity E : und_map 0 E = rI.
Proof. unfold und_map. rewrite Rmult_0_l. reflexivity. Qed.
