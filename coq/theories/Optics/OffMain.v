(** C09 -- the family statement, with the refuted class excluded by hypothesis. *)
From Coq Require Import Reals Lra Psatz.
From Cheetah Require Import Base.Mat Optics.Maps Optics.Off Optics.OffScalar Optics.OffProofs Optics.OffElems Optics.OffRefute Optics.OffClasses.
Open Scope R_scope.

Theorem off_is_drift_like el E : ~ is_undulator el -> 0 <= off_length el <= 100 -> m_e < E ->
  m7close (guard_eps (off_length el) * (1 + off_mis el)) (off_map el E) (drift_map (off_length el) E).
Proof.
  intros Hu HL HE. destruct el; cbn [off_length off_mis off_map is_undulator] in *.
  - rewrite <- Rplus_assoc. apply quad_off_bound; assumption.
  - rewrite Rplus_0_r, Rmult_1_r. apply dipole_off_bound; assumption.
  - rewrite Rplus_0_r, Rmult_1_r. apply rbend_off_bound; assumption.
  - rewrite solenoid_off by assumption. apply m7close_refl. rewrite Rplus_0_r, Rmult_1_r. apply guard_eps_nonneg; lra.
  - rewrite hcor_off. apply m7close_refl. rewrite Rplus_0_r, Rmult_1_r. apply guard_eps_nonneg; lra.
  - rewrite vcor_off. apply m7close_refl. rewrite Rplus_0_r, Rmult_1_r. apply guard_eps_nonneg; lra.
  - rewrite Rplus_0_r, Rmult_1_r. apply cavity_off_bound; assumption.
  - contradiction.
Qed.

Theorem off_tracks_like_drift el E v : ~ is_undulator el -> 0 <= off_length el <= 100 -> m_e < E ->
  v7close (guard_eps (off_length el) * (1 + off_mis el) * norm1 v) (rmvec (off_map el E) v) (rmvec (drift_map (off_length el) E) v).
Proof. intros. apply mvec_close. apply off_is_drift_like; assumption. Qed.

Theorem off_zero_length_identity el E : off_length el = 0 -> off_map el E = rI.
Proof.
  destruct el; cbn [off_length off_map]; intros ->.
  - apply quad_zero_identity.
  - apply dipole_zero_identity.
  - apply rbend_zero_identity.
  - apply solenoid_zero_identity.
  - apply hcor_zero_identity.
  - apply vcor_zero_identity.
  - apply cavity_map_zero_identity.
  - apply undulator_zero_identity.
Qed.

(* the excluded class really fails *)
Theorem off_undulator_excluded_for_cause L E : 0 < L -> m_e < E -> off_map (OffUndulator L) E <> drift_map L E.
Proof. apply undulator_off_refuted. Qed.

Lemma guard_eps_example : guard_eps 1 = 3.06e-12.
Proof. unfold guard_eps, off_eps. lra. Qed.
