(** C09 -- proofs: zero-strength linear maps versus the drift map. *)
From Coq Require Import Reals Lra Psatz.
From Cheetah Require Import Base.Mat Optics.Maps Optics.Off Optics.OffScalar.
Open Scope R_scope.

Ltac mred := lazy beta iota zeta delta [mmul vmat mvec transpose col v7map v7map2 dot I7 e0 e1 e2 e3 e4 e5 e6 c0 c1 c2 c3 c4 c5 c6 row
                                        rot shift mis_entry mis_exit rconj sconj blockdiag drift_map rI cong].
Ltac mat_eq := apply v7_eq; mred; apply v7_eq; mred; try ring.

(* ------------------------------------------------------------------ closeness: basic facts *)
Lemma Rabs_le_inv x a : Rabs x <= a -> - a <= x <= a.
Proof. unfold Rabs. destruct (Rcase_abs x); lra. Qed.

Lemma close_refl x e : 0 <= e -> Rabs (x - x) <= e.
Proof. intros. replace (x - x) with 0 by ring. rewrite Rabs_R0. assumption. Qed.

Lemma close_weaken x e e' : e <= e' -> Rabs x <= e -> Rabs x <= e'.
Proof. intros; lra. Qed.

Lemma m7close_weaken e e' a b : e <= e' -> m7close e a b -> m7close e' a b.
Proof.
  intros He H. unfold m7close, v7close in *.
  repeat match goal with H : _ /\ _ |- _ => destruct H end.
  repeat split; eapply close_weaken; eauto.
Qed.

Lemma m7close_0_eq a b : m7close 0 a b -> a = b.
Proof.
  assert (Hz : forall x y, Rabs (x - y) <= 0 -> x = y).
  { intros x y H. generalize (Rabs_pos (x - y)). intros. assert (Rabs (x - y) = 0) by lra.
    destruct (Req_dec (x - y) 0) as [|Hn]; [lra|]. apply Rabs_no_R0 in Hn. lra. }
  unfold m7close, v7close. intros H.
  repeat match goal with H : _ /\ _ |- _ => destruct H end.
  destruct a as [[] [] [] [] [] [] []], b as [[] [] [] [] [] [] []]; cbn in *.
  repeat match goal with H : Rabs (_ - _) <= 0 |- _ => apply Hz in H; subst end.
  reflexivity.
Qed.

Lemma m7close_refl e a : 0 <= e -> m7close e a a.
Proof. intros. unfold m7close, v7close. repeat split; apply close_refl; assumption. Qed.

Lemma Rabs_sum_le a b x y : Rabs a <= x -> Rabs b <= y -> Rabs (a + b) <= x + y.
Proof. intros. eapply Rle_trans; [apply Rabs_triang|lra]. Qed.

(* a matrix close to D moves a vector close to where D moves it *)
Lemma dot_close e (r d v : V7 R) : v7close e r d ->
  Rabs (@dot R Rplus Rmult r v - @dot R Rplus Rmult d v) <= e * norm1 v.
Proof.
  unfold v7close, norm1, dot. destruct r, d, v; cbn. intros H.
  repeat match goal with H : _ /\ _ |- _ => destruct H end.
  match goal with |- Rabs ?x <= _ =>
    replace x with ((c0 - c7) * c14 + (c1 - c8) * c15 + (c2 - c9) * c16 + (c3 - c10) * c17 + (c4 - c11) * c18 + (c5 - c12) * c19 + (c6 - c13) * c20) by ring end.
  assert (Hm : forall a b, Rabs a <= e -> Rabs (a * b) <= e * Rabs b).
  { intros a b Ha. rewrite Rabs_mult. apply Rmult_le_compat_r; [apply Rabs_pos|assumption]. }
  repeat rewrite Rmult_plus_distr_l.
  repeat apply Rabs_sum_le; apply Hm; assumption.
Qed.

Lemma mvec_close e (a d : M7 R) (v : V7 R) : m7close e a d -> v7close (e * norm1 v) (rmvec a v) (rmvec d v).
Proof.
  unfold m7close. intros H. repeat match goal with H : _ /\ _ |- _ => destruct H end.
  destruct a as [a0 a1 a2 a3 a4 a5 a6], d as [d0 d1 d2 d3 d4 d5 d6]. unfold v7close, mvec, v7map; cbn [c0 c1 c2 c3 c4 c5 c6] in *.
  repeat split; apply dot_close; assumption.
Qed.

(* ------------------------------------------------------------------ tilt: rot(-t) M rot(t) for two uncoupled blocks *)
Definition conj_blockdiag_closed (C S a b c d a' b' c' d' r : R) : M7 R :=
  mk7 (row (C * C * a + S * S * a') (C * C * b + S * S * b') (C * S * (a - a')) (C * S * (b - b')) 0 0 0)
      (row (C * C * c + S * S * c') (C * C * d + S * S * d') (C * S * (c - c')) (C * S * (d - d')) 0 0 0)
      (row (C * S * (a - a')) (C * S * (b - b')) (C * C * a' + S * S * a) (C * C * b' + S * S * b) 0 0 0)
      (row (C * S * (c - c')) (C * S * (d - d')) (C * C * c' + S * S * c) (C * C * d' + S * S * d) 0 0 0)
      (row 0 0 0 0 1 r 0) (row 0 0 0 0 0 1 0) (row 0 0 0 0 0 0 1).

Lemma rconj_blockdiag t a b c d a' b' c' d' r :
  rconj t (blockdiag a b c d a' b' c' d' r) = conj_blockdiag_closed (cos t) (sin t) a b c d a' b' c' d' r.
Proof.
  unfold rconj, conj_blockdiag_closed. mred. rewrite cos_neg, sin_neg.
  set (C := cos t). set (S := sin t).
  apply v7_eq; mred; apply v7_eq; mred; ring.
Qed.

Lemma convex_close C S a a' x e : C * C + S * S = 1 -> Rabs (a - x) <= e -> Rabs (a' - x) <= e ->
  Rabs (C * C * a + S * S * a' - x) <= e.
Proof.
  intros H Ha Hb.
  replace (C * C * a + S * S * a' - x) with (C * C * (a - x) + S * S * (a' - x)) by (replace x with ((C * C + S * S) * x) at 3 by (rewrite H; ring); ring).
  assert (0 <= C * C) by nra. assert (0 <= S * S) by nra.
  apply Rabs_le. apply Rabs_le_inv in Ha. apply Rabs_le_inv in Hb. nra.
Qed.

Lemma cross_close C S a a' x e : C * C + S * S = 1 -> Rabs (a - x) <= e -> Rabs (a' - x) <= e ->
  Rabs (C * S * (a - a') - 0) <= e.
Proof.
  intros H Ha Hb.
  replace (C * S * (a - a') - 0) with (C * S * (a - x) - C * S * (a' - x)) by ring.
  assert (Hm : 0 <= (C - S) * (C - S)) by apply Rle_0_sqr.
  assert (Hp : 0 <= (C + S) * (C + S)) by apply Rle_0_sqr.
  assert (H1 : - (1 / 2) <= C * S <= 1 / 2) by (split; lra).
  apply Rabs_le_inv in Ha. apply Rabs_le_inv in Hb. assert (0 <= e) by lra.
  apply Rabs_le. split; nra.
Qed.

Lemma conj_blockdiag_close t e L a b c d a' b' c' d' r :
  Rabs (a - 1) <= e -> Rabs (b - L) <= e -> Rabs (c - 0) <= e -> Rabs (d - 1) <= e ->
  Rabs (a' - 1) <= e -> Rabs (b' - L) <= e -> Rabs (c' - 0) <= e -> Rabs (d' - 1) <= e ->
  m7close e (rconj t (blockdiag a b c d a' b' c' d' r)) (blockdiag 1 L 0 1 1 L 0 1 r).
Proof.
  intros. rewrite rconj_blockdiag. assert (He : 0 <= e) by (generalize (Rabs_pos (a - 1)); lra).
  assert (HCS : cos t * cos t + sin t * sin t = 1) by (generalize (sin2_cos2 t); unfold Rsqr; lra).
  unfold m7close, v7close, conj_blockdiag_closed, blockdiag, row; cbn [c0 c1 c2 c3 c4 c5 c6].
  repeat split; try (apply close_refl; assumption);
    solve [ eapply convex_close; eassumption | eapply cross_close; eassumption
          | rewrite Rplus_comm; eapply convex_close; [rewrite Rplus_comm; eassumption | eassumption | eassumption] ].
Qed.

(* ------------------------------------------------------------------ misalignment: R_exit M R_entry *)
Lemma lin3_close e mx my u v w : Rabs u <= e -> Rabs v <= e -> Rabs w <= e ->
  Rabs (u - mx * v - my * w) <= e * (1 + Rabs mx + Rabs my).
Proof.
  intros Hu Hv Hw.
  replace (u - mx * v - my * w) with (u + (- mx * v + - my * w)) by ring.
  replace (e * (1 + Rabs mx + Rabs my)) with (e + (Rabs mx * e + Rabs my * e)) by ring.
  repeat apply Rabs_sum_le; [assumption| |]; rewrite Rabs_mult, Rabs_Ropp; apply Rmult_le_compat_l; try apply Rabs_pos; assumption.
Qed.

Definition last_row_unit (m : M7 R) : Prop := c6 m = row 0 0 0 0 0 0 1.

Lemma sconj_closed mx my m00 m01 m02 m03 m04 m05 m06 m10 m11 m12 m13 m14 m15 m16 m20 m21 m22 m23 m24 m25 m26
      m30 m31 m32 m33 m34 m35 m36 m40 m41 m42 m43 m44 m45 m46 m50 m51 m52 m53 m54 m55 m56 :
  sconj mx my (mk7 (row m00 m01 m02 m03 m04 m05 m06) (row m10 m11 m12 m13 m14 m15 m16) (row m20 m21 m22 m23 m24 m25 m26)
                   (row m30 m31 m32 m33 m34 m35 m36) (row m40 m41 m42 m43 m44 m45 m46) (row m50 m51 m52 m53 m54 m55 m56)
                   (row 0 0 0 0 0 0 1))
  = mk7 (row m00 m01 m02 m03 m04 m05 (m06 + mx - mx * m00 - my * m02)) (row m10 m11 m12 m13 m14 m15 (m16 - mx * m10 - my * m12))
        (row m20 m21 m22 m23 m24 m25 (m26 + my - mx * m20 - my * m22)) (row m30 m31 m32 m33 m34 m35 (m36 - mx * m30 - my * m32))
        (row m40 m41 m42 m43 m44 m45 (m46 - mx * m40 - my * m42)) (row m50 m51 m52 m53 m54 m55 (m56 - mx * m50 - my * m52))
        (row 0 0 0 0 0 0 1).
Proof. unfold sconj. mat_eq. Qed.

Lemma sconj_close e mx my L r (m : M7 R) : last_row_unit m ->
  m7close e m (blockdiag 1 L 0 1 1 L 0 1 r) ->
  m7close (e * (1 + Rabs mx + Rabs my)) (sconj mx my m) (blockdiag 1 L 0 1 1 L 0 1 r).
Proof.
  destruct m as [[m00 m01 m02 m03 m04 m05 m06] [m10 m11 m12 m13 m14 m15 m16] [m20 m21 m22 m23 m24 m25 m26]
                 [m30 m31 m32 m33 m34 m35 m36] [m40 m41 m42 m43 m44 m45 m46] [m50 m51 m52 m53 m54 m55 m56] r6].
  unfold last_row_unit; cbn [c6]. intros ->.
  change (sconj mx my _) with (sconj mx my (mk7 (row m00 m01 m02 m03 m04 m05 m06) (row m10 m11 m12 m13 m14 m15 m16) (row m20 m21 m22 m23 m24 m25 m26)
                   (row m30 m31 m32 m33 m34 m35 m36) (row m40 m41 m42 m43 m44 m45 m46) (row m50 m51 m52 m53 m54 m55 m56)
                   (row 0 0 0 0 0 0 1))).
  rewrite sconj_closed.
  unfold m7close, v7close, blockdiag, row; cbn [c0 c1 c2 c3 c4 c5 c6]. intros H.
  repeat match goal with H : _ /\ _ |- _ => destruct H end.
  assert (He : 0 <= e) by (generalize (Rabs_pos (m00 - 1)); lra).
  assert (Hw : e <= e * (1 + Rabs mx + Rabs my)) by (generalize (Rabs_pos mx) (Rabs_pos my); nra).
  repeat split.
  all: try (apply close_weaken with e; [exact Hw|]; assumption).
  - replace (m06 + mx - mx * m00 - my * m02 - 0) with ((m06 - 0) - mx * (m00 - 1) - my * (m02 - 0)) by ring. apply lin3_close; assumption.
  - replace (m16 - mx * m10 - my * m12 - 0) with ((m16 - 0) - mx * (m10 - 0) - my * (m12 - 0)) by ring. apply lin3_close; assumption.
  - replace (m26 + my - mx * m20 - my * m22 - 0) with ((m26 - 0) - mx * (m20 - 0) - my * (m22 - 1)) by ring. apply lin3_close; assumption.
  - replace (m36 - mx * m30 - my * m32 - 0) with ((m36 - 0) - mx * (m30 - 0) - my * (m32 - 0)) by ring. apply lin3_close; assumption.
  - replace (m46 - mx * m40 - my * m42 - 0) with ((m46 - 0) - mx * (m40 - 0) - my * (m42 - 0)) by ring. apply lin3_close; assumption.
  - replace (m56 - mx * m50 - my * m52 - 0) with ((m56 - 0) - mx * (m50 - 0) - my * (m52 - 0)) by ring. apply lin3_close; assumption.
Qed.

(* ------------------------------------------------------------------ the drift and exact commutation *)
Lemma drift_is_blockdiag L E : drift_map L E = blockdiag 1 L 0 1 1 L 0 1 (drift_r56 L E).
Proof. reflexivity. Qed.

Lemma drift_commutes_rot t L E : rconj t (drift_map L E) = drift_map L E.
Proof.
  apply m7close_0_eq. rewrite drift_is_blockdiag.
  apply conj_blockdiag_close; apply close_refl; lra.
Qed.

Lemma drift_commutes_shift mx my L E : sconj mx my (drift_map L E) = drift_map L E.
Proof. unfold sconj. mat_eq. Qed.

Lemma misaligned_cases mx my m : misaligned mx my m = m \/ misaligned mx my m = sconj mx my m.
Proof. unfold misaligned, sconj. destruct (Req_EM_T mx 0); [destruct (Req_EM_T my 0)|]; auto. Qed.

Lemma misaligned_drift mx my L E : misaligned mx my (drift_map L E) = drift_map L E.
Proof. destruct (misaligned_cases mx my (drift_map L E)) as [->| ->]; [reflexivity|apply drift_commutes_shift]. Qed.

Lemma drift_zero_length E : drift_map 0 E = rI.
Proof. unfold drift_map. replace (drift_r56 0 E) with 0 by (unfold drift_r56, Rdiv; ring). reflexivity. Qed.

(* ------------------------------------------------------------------ base_rmatrix at hx = 0 *)
Lemma base_untilted_hx0 L k1 E :
  base_untilted L k1 0 E =
  blockdiag (cx L k1 0) (sx L k1 0) (- kx2 k1 0 * sx L k1 0) (cx L k1 0) (cy L k1) (sy L k1) (- ky2 k1 * sy L k1) (cy L k1) (drift_r56 L E).
Proof.
  unfold base_untilted, blockdiag, row, dx, r56, drift_r56.
  apply v7_eq; cbn [c0 c1 c2 c3 c4 c5 c6]; apply v7_eq; cbn [c0 c1 c2 c3 c4 c5 c6]; try reflexivity; unfold Rdiv, Rsqr; ring.
Qed.

Lemma off_eps_terms kappa L : 0 <= kappa -> 0 <= L ->
  1.02 * kappa * L <= off_eps kappa L /\ 1.02 * kappa * (L * L) <= off_eps kappa L /\ 1.02 * kappa * (L * L * L) <= off_eps kappa L.
Proof.
  intros Hk HL. unfold off_eps.
  assert (0 <= kappa * L) by (apply Rmult_le_pos; lra).
  assert (0 <= kappa * (L * L)) by (apply Rmult_le_pos; [lra|apply Rmult_le_pos; lra]).
  assert (0 <= kappa * (L * L * L)) by (apply Rmult_le_pos; [lra|repeat apply Rmult_le_pos; lra]).
  repeat split; lra.
Qed.

Section OffBase.
Variables (L k1 E : R).
Let kp := k1_guard k1.
Hypothesis HL : 0 <= L.
Hypothesis Hq : Rabs kp * (L * L) <= 1 / 100.

Lemma kx2_hx0 : kx2 k1 0 = kp.
Proof. unfold kx2, kp, Rsqr. ring. Qed.

Lemma base_entries_close :
  let e := off_eps (Rabs kp) L in
  Rabs (cx L k1 0 - 1) <= e /\ Rabs (sx L k1 0 - L) <= e /\ Rabs (- kx2 k1 0 * sx L k1 0 - 0) <= e /\
  Rabs (cy L k1 - 1) <= e /\ Rabs (sy L k1 - L) <= e /\ Rabs (- ky2 k1 * sy L k1 - 0) <= e.
Proof.
  intros e. unfold cx, sx, cy, sy. rewrite kx2_hx0. unfold ky2. fold kp.
  destruct (off_eps_terms (Rabs kp) L (Rabs_pos kp) HL) as [T1 [T2 T3]]. fold e in T1, T2, T3.
  assert (Hq' : Rabs (- kp) * (L * L) <= 1 / 100) by (rewrite Rabs_Ropp; exact Hq).
  repeat split.
  - eapply Rle_trans; [apply Cf_near_1; assumption | exact T2].
  - eapply Rle_trans; [apply Sf_near_L; assumption | exact T3].
  - replace (- kp * Sf kp L - 0) with (- (kp * Sf kp L)) by ring. rewrite Rabs_Ropp.
    eapply Rle_trans; [apply kSf_small; assumption | exact T1].
  - eapply Rle_trans; [apply Cf_near_1; assumption | rewrite Rabs_Ropp; exact T2].
  - eapply Rle_trans; [apply Sf_near_L; assumption | rewrite Rabs_Ropp; exact T3].
  - replace (- - kp * Sf (- kp) L - 0) with (- (- kp * Sf (- kp) L)) by ring. rewrite Rabs_Ropp.
    eapply Rle_trans; [apply kSf_small; assumption | rewrite Rabs_Ropp; exact T1].
Qed.

Lemma off_eps_nonneg : 0 <= off_eps (Rabs kp) L.
Proof. destruct (off_eps_terms (Rabs kp) L (Rabs_pos kp) HL) as [T1 _]. eapply Rle_trans; [|exact T1].
  apply Rmult_le_pos; [generalize (Rabs_pos kp); lra|assumption]. Qed.

Lemma base_untilted_close : m7close (off_eps (Rabs kp) L) (base_untilted L k1 0 E) (drift_map L E).
Proof.
  rewrite base_untilted_hx0, drift_is_blockdiag.
  destruct base_entries_close as [H1 [H2 [H3 [H4 [H5 H6]]]]].
  generalize off_eps_nonneg; intros He.
  unfold m7close, v7close, blockdiag, row; cbn [c0 c1 c2 c3 c4 c5 c6].
  repeat split; try (apply close_refl; assumption); assumption.
Qed.

Lemma base_tilted_close t : m7close (off_eps (Rabs kp) L) (rconj t (base_untilted L k1 0 E)) (drift_map L E).
Proof.
  rewrite base_untilted_hx0, drift_is_blockdiag.
  destruct base_entries_close as [H1 [H2 [H3 [H4 [H5 H6]]]]].
  apply conj_blockdiag_close; assumption.
Qed.

Lemma base_rmatrix_cases t : base_rmatrix L k1 0 t E = base_untilted L k1 0 E \/ base_rmatrix L k1 0 t E = rconj t (base_untilted L k1 0 E).
Proof. unfold base_rmatrix, rconj. destruct (Req_EM_T t 0); auto. Qed.

Lemma base_rmatrix_close t : m7close (off_eps (Rabs kp) L) (base_rmatrix L k1 0 t E) (drift_map L E).
Proof. destruct (base_rmatrix_cases t) as [-> | ->]; [apply base_untilted_close|apply base_tilted_close]. Qed.

Lemma base_rmatrix_last_row t : last_row_unit (base_rmatrix L k1 0 t E).
Proof.
  destruct (base_rmatrix_cases t) as [-> | ->]; rewrite base_untilted_hx0; [reflexivity|].
  rewrite rconj_blockdiag. reflexivity.
Qed.

(* Quadrupole.transfer_map for small |k1'|: any tilt, any misalignment *)
Lemma quad_map_close mx my t :
  m7close (off_eps (Rabs kp) L * (1 + Rabs mx + Rabs my)) (quad_map L k1 mx my t E) (drift_map L E).
Proof.
  unfold quad_map.
  destruct (misaligned_cases mx my (base_rmatrix L k1 0 t E)) as [-> | ->].
  - apply m7close_weaken with (off_eps (Rabs kp) L); [|apply base_rmatrix_close].
    generalize off_eps_nonneg (Rabs_pos mx) (Rabs_pos my). nra.
  - rewrite drift_is_blockdiag. apply sconj_close; [apply base_rmatrix_last_row|].
    rewrite <- drift_is_blockdiag. apply base_rmatrix_close.
Qed.
End OffBase.
