(** C09 -- where "switched off = drift" is false in the code as written (witnessed refutations), and what
    does hold for Cavity.track at voltage = 0. *)
From Coq Require Import Reals Lra Psatz.
From Cheetah Require Import Base.Mat Optics.Maps Optics.Off Optics.OffScalar Optics.OffProofs Optics.OffElems.
Open Scope R_scope.

(* ------------------------------------------------------------------ Undulator: R56 = + L/gamma^2, a drift has - L/(beta^2 gamma^2)  [F3] *)
Lemma und_igamma2_eq E : und_igamma2 E = igamma2_of E.
Proof. reflexivity. Qed.

Theorem undulator_r56_sign L E : 0 < L -> m_e < E ->
  c5 (c4 (drift_map L E)) < 0 < c5 (c4 (und_map L E)).
Proof.
  intros HL HE. destruct (rel_facts E HE) as [Hg [Hi [Hr [Hb Hb0]]]].
  cbn [c4 c5 und_map drift_map row]. rewrite und_igamma2_eq. unfold drift_r56, Rsqr. rewrite Hb.
  split; [|nra].
  assert (0 < L / (1 - igamma2_of E)) by (apply Rdiv_lt_0_compat; lra).
  replace (- L / (1 - igamma2_of E) * igamma2_of E) with (- (L / (1 - igamma2_of E) * igamma2_of E)) by (field; lra).
  nra.
Qed.

Theorem undulator_off_refuted L E : 0 < L -> m_e < E -> und_map L E <> drift_map L E.
Proof. intros HL HE Heq. generalize (undulator_r56_sign L E HL HE). rewrite Heq. lra. Qed.

Theorem undulator_off_transverse L E : forall v, let a := rmvec (und_map L E) v in let b := rmvec (drift_map L E) v in
  c0 a = c0 b /\ c1 a = c1 b /\ c2 a = c2 b /\ c3 a = c3 b /\ c5 a = c5 b /\ c6 a = c6 b.
Proof. intros v. cbv zeta. repeat split. Qed.

(* ------------------------------------------------------------------ Cavity.track at voltage = 0  [F1] *)
Lemma T566_off_pos L E : 0 < L -> m_e < E -> 0 < T566_off L E.
Proof.
  intros HL HE. destruct (rel_facts E HE) as [Hg [Hi [Hr [Hb Hb0]]]].
  unfold T566_off. apply Rdiv_lt_0_compat; [nra|]. simpl. repeat apply Rmult_lt_0_compat; lra.
Qed.

Lemma cavity_off_track_tau L E k phi v :
  c4 (cavity_off_track L E k phi v) = c4 (rmvec (drift_map L E) v) + T566_off L E * (c5 v) ^ 2.
Proof.
  unfold cavity_off_track, cavity_off_map, base_rmatrix. destruct (Req_EM_T 0 0); [|lra].
  rewrite base_untilted_hx0. destruct v. cbn. ring.
Qed.

Theorem cavity_off_track_refuted L E k phi v : 0 < L -> m_e < E -> c5 v <> 0 ->
  c4 (rmvec (drift_map L E) v) < c4 (cavity_off_track L E k phi v).
Proof.
  intros HL HE Hd. rewrite cavity_off_track_tau. generalize (T566_off_pos L E HL HE). intros.
  assert (0 < c5 v ^ 2) by (simpl; nra). nra.
Qed.

(* what does hold: delta is unchanged and the other coordinates follow the (guarded) linear map *)
Theorem cavity_off_track_delta E k phi tau delta : m_e < E -> cav_off_delta E k phi tau delta = delta.
Proof.
  intros HE. destruct (rel_facts E HE) as [Hg [Hi [Hr [Hb Hb0]]]]. generalize m_e_pos; intros.
  unfold cav_off_delta. field. lra.
Qed.

Theorem cavity_off_track_rest L E k phi v :
  let a := cavity_off_track L E k phi v in let b := rmvec (cavity_off_map L E) v in
  c0 a = c0 b /\ c1 a = c1 b /\ c2 a = c2 b /\ c3 a = c3 b /\ c6 a = c6 b.
Proof. cbv zeta. repeat split. Qed.

(* ------------------------------------------------------------------ Cavity.track(ParameterBeam) at voltage = 0  [F2] *)
Lemma rcong_I S : rcong rI S = S.
Proof. apply (cong_I RRth). Qed.

Theorem cavity_off_cov_overwritten L E S :
  let C := cavity_off_track_cov L E S in
  c4 (c4 C) = T566_off L E * (c5 (c5 S)) ^ 2 /\ c5 (c4 C) = T566_off L E * (c5 (c5 S)) ^ 2 /\ c4 (c5 C) = T566_off L E * (c5 (c5 S)) ^ 2.
Proof. cbv zeta. unfold cavity_off_track_cov. cbn [c4 c5 row]. repeat split; ring. Qed.

(* witness: at zero length a drift (the identity) keeps S44, the switched-off cavity replaces it by 0 *)
Theorem cavity_off_cov_refuted E S : c4 (c4 S) <> 0 ->
  cavity_off_track_cov 0 E S <> rcong (drift_map 0 E) S.
Proof.
  intros HS Heq. assert (H : c4 (c4 (cavity_off_track_cov 0 E S)) = c4 (c4 (rcong (drift_map 0 E) S))) by (rewrite Heq; reflexivity).
  rewrite drift_zero_length, rcong_I in H.
  destruct (cavity_off_cov_overwritten 0 E S) as [H1 _]. rewrite H1 in H. unfold T566_off in H.
  apply HS. rewrite <- H. unfold Rdiv. ring.
Qed.

(* ------------------------------------------------------------------ particles: a map close to the drift map moves every particle close to where the drift moves it *)
Theorem off_particle_close e m L E v : m7close e m (drift_map L E) -> v7close (e * norm1 v) (rmvec m v) (rmvec (drift_map L E) v).
Proof. apply mvec_close. Qed.
