(** C09 -- scalar analysis: how far cos/cosh/sin/sinh-type entries of base_rmatrix are from the drift entries
    when the focusing strength kappa is small (|kappa| L^2 <= 1/100).  Used both for the 1e-12 guard and for continuity at 0. *)
From Coq Require Import Reals Lra Psatz.
From Cheetah Require Import Base.Mat Optics.Maps.
Open Scope R_scope.


Lemma cos_lower u : 0 <= u <= 2 -> 1 - u * u / 2 <= cos u <= 1.
Proof.
  intros [H0 H2]. split; [|apply COS_bound].
  destruct (pre_cos_bound u 0) as [H _]; [lra|lra|].
  unfold cos_approx, cos_term in H. simpl in H. lra.
Qed.

Lemma sin_lower u : 0 <= u <= 4 -> u - u * u * u / 6 <= sin u <= u.
Proof.
  intros [H0 H4]. split.
  - destruct (pre_sin_bound u 0) as [H _]; [lra|lra|].
    unfold sin_approx, sin_term in H. simpl in H. lra.
  - destruct (Req_dec u 0) as [->|Hn]; [rewrite sin_0; lra|].
    left. apply sin_lt_x. lra.
Qed.

Lemma exp_neg_inv v : exp v * exp (- v) = 1.
Proof. rewrite <- exp_plus, Rplus_opp_r. apply exp_0. Qed.

Lemma exp_upper v : 0 <= v < 1 -> exp v <= 1 / (1 - v).
Proof.
  intros [H0 H1].
  assert (Hm : 1 - v <= exp (- v)).
  { destruct (Req_dec v 0) as [->|Hn]; [rewrite Ropp_0, exp_0; lra|].
    generalize (exp_ineq1 (- v)). intros H. lra. }
  generalize (exp_neg_inv v) (exp_pos v) (exp_pos (-v)). intros He Hp Hq.
  apply Rmult_le_reg_r with (1 - v); [lra|].
  unfold Rdiv. rewrite Rmult_assoc, Rmult_1_l, Rinv_l by lra. nra.
Qed.

Lemma exp_lower v : 1 + v <= exp v.
Proof. destruct (Req_dec v 0) as [->|Hn]; [rewrite exp_0; lra|]. left. apply exp_ineq1; lra. Qed.

Lemma cosh_bounds v : 0 <= v -> v * v <= 1 / 100 -> 1 <= cosh v <= 1 + 1.02 * (v * v).
Proof.
  intros H0 Hq. assert (Hv : v < 1) by nra.
  unfold cosh.
  generalize (exp_neg_inv v) (exp_pos v) (exp_pos (-v)). intros He Hp Hq'.
  split.
  { assert (Hs : 0 <= (exp v - exp (- v)) * (exp v - exp (- v))) by apply Rle_0_sqr.
    assert (Hs2 : 4 <= (exp v + exp (- v)) * (exp v + exp (- v))) by nra.
    assert (2 <= exp v + exp (- v)) by nra. lra. }
  assert (H1 : exp v <= 1 / (1 - v)) by (apply exp_upper; lra).
  assert (H2 : exp (- v) <= 1 / (1 + v)).
  { apply Rmult_le_reg_r with (1 + v); [lra|]. unfold Rdiv. rewrite Rmult_assoc, Rmult_1_l, Rinv_l by lra.
    generalize (exp_lower v). nra. }
  assert (H3 : 1 / (1 - v) + 1 / (1 + v) = 2 / (1 - v * v)) by (field; nra).
  assert (H4 : 2 / (1 - v * v) <= 2 + 2.04 * (v * v)).
  { apply Rmult_le_reg_r with (1 - v * v); [nra|]. unfold Rdiv. rewrite Rmult_assoc, Rinv_l by nra. nra. }
  lra.
Qed.

Lemma sinh_bounds v : 0 <= v -> v * v <= 1 / 100 -> v <= sinh v <= v + 1.02 * (v * v * v).
Proof.
  intros H0 Hq.
  destruct (Req_dec v 0) as [->|Hn]; [rewrite sinh_0; lra|].
  assert (Hv : 0 < v) by lra.
  destruct (MVT_cor2 (fun t => sinh t - t) (fun t => cosh t - 1) 0 v Hv) as [c [Hc1 Hc2]].
  { intros c _. apply derivable_pt_lim_minus; [apply derivable_pt_lim_sinh|apply derivable_pt_lim_id]. }
  rewrite sinh_0 in Hc1.
  assert (Hcc : c * c <= 1 / 100) by nra.
  destruct (cosh_bounds c) as [Ha Hb]; [lra|exact Hcc|].
  assert (0 <= (cosh c - 1) * v) by nra.
  assert (Hcv : c * c <= v * v) by nra.
  assert ((cosh c - 1) * v <= 1.02 * (v * v) * v) by (apply Rmult_le_compat_r; lra).
  lra.
Qed.

Lemma sqrt_sq_id k : 0 <= k -> sqrt k * sqrt k = k.
Proof. apply sqrt_sqrt. Qed.


Lemma le_div r a b : 0 < r -> a * r <= b -> a <= b / r.
Proof. intros Hr H. apply Rmult_le_reg_r with r; [lra|]. unfold Rdiv. rewrite Rmult_assoc, Rinv_l by lra. lra. Qed.
Lemma div_le r a b : 0 < r -> b <= a * r -> b / r <= a.
Proof. intros Hr H. apply Rmult_le_reg_r with r; [lra|]. unfold Rdiv. rewrite Rmult_assoc, Rinv_l by lra. lra. Qed.

Section CS.
Variables k L : R.
Hypothesis HL : 0 <= L.
Hypothesis Hq : Rabs k * (L * L) <= 1 / 100.

Lemma Cf_near_1 : Rabs (Cf k L - 1) <= 1.02 * Rabs k * (L * L).
Proof.
  unfold Cf. destruct (Rlt_dec 0 k) as [Hp|Hp]; [|destruct (Rlt_dec k 0) as [Hn|Hn]].
  - rewrite (Rabs_pos_eq k) in * by lra.
    set (u := sqrt k * L). assert (Hu : u * u = k * (L * L)) by (unfold u; generalize (sqrt_sqrt k); nra).
    assert (Hu0 : 0 <= u) by (unfold u; generalize (sqrt_pos k); nra).
    destruct (cos_lower u) as [Ha Hb]; [nra|].
    apply Rabs_le. nra.
  - rewrite (Rabs_left k) in * by lra.
    set (v := sqrt (- k) * L). assert (Hv : v * v = - k * (L * L)) by (unfold v; generalize (sqrt_sqrt (- k)); nra).
    assert (Hv0 : 0 <= v) by (unfold v; generalize (sqrt_pos (- k)); nra).
    destruct (cosh_bounds v) as [Ha Hb]; [lra|lra|].
    apply Rabs_le. nra.
  - replace (1 - 1) with 0 by ring. rewrite Rabs_R0. generalize (Rabs_pos k). nra.
Qed.

Lemma Sf_near_L : Rabs (Sf k L - L) <= 1.02 * Rabs k * (L * L * L).
Proof.
  unfold Sf. destruct (Rlt_dec 0 k) as [Hp|Hp]; [|destruct (Rlt_dec k 0) as [Hn|Hn]].
  - rewrite (Rabs_pos_eq k) in * by lra.
    set (r := sqrt k). assert (Hr : r * r = k) by (apply sqrt_sqrt; lra).
    assert (Hr0 : 0 < r) by (apply sqrt_lt_R0; lra).
    set (u := r * L). assert (Hu0 : 0 <= u) by (unfold u; nra).
    assert (Hu : u * u = k * (L * L)) by (unfold u; nra).
    destruct (sin_lower u) as [Ha Hb]; [nra|].
    replace (sin u / r - L) with ((sin u - u) / r) by (unfold u; field; lra).
    assert (Hd : - (k * (L * L * L) / 6) <= (sin u - u) / r <= 0).
    { split.
      - apply le_div; [lra|].
        replace (- (k * (L * L * L) / 6) * r) with (- (u * u * u / 6)) by (unfold u; rewrite <- Hr; field). lra.
      - apply div_le; lra. }
    apply Rabs_le. nra.
  - rewrite (Rabs_left k) in * by lra.
    set (r := sqrt (- k)). assert (Hr : r * r = - k) by (apply sqrt_sqrt; lra).
    assert (Hr0 : 0 < r) by (apply sqrt_lt_R0; lra).
    set (v := r * L). assert (Hv0 : 0 <= v) by (unfold v; nra).
    assert (Hv : v * v = - k * (L * L)) by (unfold v; nra).
    destruct (sinh_bounds v) as [Ha Hb]; [lra|lra|].
    replace (sinh v / r - L) with ((sinh v - v) / r) by (unfold v; field; lra).
    assert (Hd : 0 <= (sinh v - v) / r <= 1.02 * (- k) * (L * L * L)).
    { split.
      - apply le_div; lra.
      - apply div_le; [lra|].
        replace (1.02 * - k * (L * L * L) * r) with (1.02 * (v * v * v)) by (unfold v; rewrite <- Hr; field). lra. }
    apply Rabs_le. nra.
  - replace (L - L) with 0 by ring. rewrite Rabs_R0.
    apply Rmult_le_pos; [generalize (Rabs_pos k); lra | repeat apply Rmult_le_pos; lra].
Qed.

Lemma kSf_small : Rabs (k * Sf k L) <= 1.02 * Rabs k * L.
Proof.
  generalize Sf_near_L. intros H.
  assert (H' : - (1.02 * Rabs k * (L * L * L)) <= Sf k L - L <= 1.02 * Rabs k * (L * L * L)).
  { revert H. unfold Rabs at 1. destruct (Rcase_abs (Sf k L - L)); lra. }
  rewrite Rabs_mult. 
  assert (Hs : Rabs (Sf k L) <= L + 1.02 * Rabs k * (L * L * L)).
  { assert (0 <= Rabs k * (L * L * L)) by (apply Rmult_le_pos; [apply Rabs_pos | repeat apply Rmult_le_pos; lra]).
    apply Rabs_le. lra. }
  generalize (Rabs_pos k) (Rabs_pos (Sf k L)). intros.
  assert (H3 : Rabs k * Rabs (Sf k L) <= Rabs k * (L + 1.02 * Rabs k * (L * L * L))) by (apply Rmult_le_compat_l; lra).
  assert (Hx : Rabs k * L * (Rabs k * (L * L)) <= Rabs k * L * (1 / 100)).
  { apply Rmult_le_compat_l; [apply Rmult_le_pos; lra | lra]. }
  replace (Rabs k * (L + 1.02 * Rabs k * (L * L * L))) with (Rabs k * L + 1.02 * (Rabs k * L * (Rabs k * (L * L)))) in H3 by ring.
  assert (0 <= Rabs k * L) by (apply Rmult_le_pos; lra).
  lra.
Qed.
End CS.
