(** Solenoid: [sol_body] is the exact flow of H_sol (k <> 0), and a drift at k = 0. *)
From Coq Require Import Reals Lra Psatz.
From Coquelicot Require Import Coquelicot.
From Cheetah Require Import Base.Mat Base.RealAux Optics.Maps Optics.CS Optics.Flow Optics.FlowProofs.
Open Scope R_scope.

Lemma sol_r56_drift L E : m_e < E -> sol_r56 L E = L * (- igamma2_of E / (beta_of E)²).
Proof.
  intros HE. pose proof (rel_factors E L HE) as (_ & Hg & Hig & Hb2 & Hb & Hbg & Hr). cbv zeta in *.
  unfold sol_r56. destruct (Req_EM_T (gamma_of E) 0) as [e|n]; [lra|].
  assert (Hg2 : 1 < (gamma_of E)²) by (unfold Rsqr; nra).
  rewrite Hig. rewrite Hb2.
  assert (Hgg : (gamma_of E)² <> 0) by lra.
  assert (H1 : 1 - (gamma_of E)² <> 0) by lra.
  assert (H2 : 1 - 1 / (gamma_of E)² <> 0).
  { intros H0. apply H1. apply (f_equal (fun x => x * (gamma_of E)²)) in H0. field_simplify in H0; lra. }
  set (G := (gamma_of E)²) in *. field. repeat split; lra.
Qed.

Ltac dsol :=
  mcbv; auto_derive; [ repeat split; exact I | unfold Rdiv, Rsqr; rewrite ?Rinv_mult; try ring ].

Theorem solenoid_flow k E : m_e < E -> k <> 0 ->
  is_flow (gen_sol k (beta_of E) (igamma2_of E)) (fun L => sol_body L k E).
Proof.
  intros HE Hk. split.
  - unfold sol_body, sol_sk, sol_r56. destruct (Req_EM_T k 0); [contradiction|].
    destruct (Req_EM_T (gamma_of E) 0); rewrite Rmult_0_l, cos_0, sin_0;
    unfold rI, I7, e0, e1, e2, e3, e4, e5, e6, row; meq; unfold Rsqr, Rdiv; ring.
  - intros s; unfold m7_derive; intros i j Hi Hj.
    assert (Hr : forall L, sol_r56 L E = L * (- igamma2_of E / (beta_of E)²)) by (intros; apply sol_r56_drift; exact HE).
    split49 i j Hi Hj; cbv [sol_body sol_sk gen_sol]; destruct (Req_EM_T k 0); try contradiction; mcbv;
      try (eapply is_derive_ext; [intros t; symmetry; apply Hr|]; rewrite Hr);
      auto_derive; try (repeat split; exact I); unfold Rdiv, Rsqr; rewrite ?Rinv_mult; try ring; try (field; assumption).
Qed.

Theorem solenoid_k0_is_drift L E : m_e < E -> sol_body L 0 E = drift_map L E.
Proof.
  intros HE. pose proof (rel_factors E L HE) as (_ & Hg & Hig & Hb2 & Hb & Hbg & Hr). cbv zeta in *.
  unfold sol_body, sol_sk. destruct (Req_EM_T 0 0); [|contradiction].
  rewrite Rmult_0_r, cos_0, sin_0, sol_r56_drift by exact HE.
  unfold drift_map, drift_r56, row. meq; unfold Rsqr, Rdiv; try ring.
Qed.
