(** C03 -- definitions: the symplectic form of cheetah's coordinates, the symplectic condition on the
    6x6 linear part of a 7x7 affine map, the affine ("seventh row") condition, 2x2 block determinants and
    the geometric emittance of a plane.  Definitions only; proofs are in SymplProofs.v. *)
From Coq Require Import Reals.
From Cheetah Require Import Base.Mat Optics.Maps.
Open Scope R_scope.

(** S6 = diag(J2, J2, -J2), J2 = [[0,1],[-1,0]], on (x,px | y,py | tau,delta); embedded in 7x7 with a zero
    seventh row and column.  The tau pair carries the NEGATIVE sign (tau is time-like: tau' = -dH/d delta);
    with +J2 the dispersive sector map is not symplectic, see [sympl_plus_sign_refuted] in SymplProofs.v. *)
Definition S6 : M7 R :=
  mk7 (row 0 1 0 0 0 0 0) (row (-1) 0 0 0 0 0 0)
      (row 0 0 0 1 0 0 0) (row 0 0 (-1) 0 0 0 0)
      (row 0 0 0 0 0 (-1) 0) (row 0 0 0 0 1 0 0)
      (row 0 0 0 0 0 0 0).
(* the "wrong" form, all pairs positive: used only for the refutation lemma *)
Definition S6plus : M7 R :=
  mk7 (row 0 1 0 0 0 0 0) (row (-1) 0 0 0 0 0 0)
      (row 0 0 0 1 0 0 0) (row 0 0 (-1) 0 0 0 0)
      (row 0 0 0 0 0 1 0) (row 0 0 0 0 (-1) 0 0)
      (row 0 0 0 0 0 0 0).

(** the 6x6 linear part of an affine 7x7 map (seventh row and column, i.e. the constant offsets, dropped) *)
Definition lin_row (r : V7 R) : V7 R := row (c0 r) (c1 r) (c2 r) (c3 r) (c4 r) (c5 r) 0.
Definition lin6 (M : M7 R) : M7 R :=
  mk7 (lin_row (c0 M)) (lin_row (c1 M)) (lin_row (c2 M)) (lin_row (c3 M)) (lin_row (c4 M)) (lin_row (c5 M))
      (row 0 0 0 0 0 0 0).

(** M^T S M = S on the 6x6 part *)
Definition symplectic_wrt (S M : M7 R) : Prop := rmmul (transpose (lin6 M)) (rmmul S (lin6 M)) = S.
Definition symplectic (M : M7 R) : Prop := symplectic_wrt S6 M.

(** the constant seventh component stays one: last row is (0,...,0,1) *)
Definition affine (M : M7 R) : Prop := c6 M = row 0 0 0 0 0 0 1.

(** 2x2 determinants of the diagonal blocks *)
Definition det2 (a b c d : R) : R := a * d - b * c.
Definition xdet (M : M7 R) : R := det2 (c0 (c0 M)) (c1 (c0 M)) (c0 (c1 M)) (c1 (c1 M)).
Definition ydet (M : M7 R) : R := det2 (c2 (c2 M)) (c3 (c2 M)) (c2 (c3 M)) (c3 (c3 M)).

(** squared geometric emittance of a plane from second moments (beam.py: sqrt(sxx*spp - sxp^2)) *)
Definition emit2 (s11 s12 s22 : R) : R := s11 * s22 - s12 * s12.
Definition emit_x2 (Sg : M7 R) : R := emit2 (c0 (c0 Sg)) (c1 (c0 Sg)) (c1 (c1 Sg)).
Definition emit_y2 (Sg : M7 R) : R := emit2 (c2 (c2 Sg)) (c3 (c2 Sg)) (c3 (c3 Sg)).

(** rows 0,1 of M only see columns 0,1 (and the constant column): the x plane is not fed by other planes *)
Definition xrows_uncoupled (M : M7 R) : Prop :=
  c2 (c0 M) = 0 /\ c3 (c0 M) = 0 /\ c4 (c0 M) = 0 /\ c5 (c0 M) = 0 /\
  c2 (c1 M) = 0 /\ c3 (c1 M) = 0 /\ c4 (c1 M) = 0 /\ c5 (c1 M) = 0.
Definition yrows_uncoupled (M : M7 R) : Prop :=
  c0 (c2 M) = 0 /\ c1 (c2 M) = 0 /\ c4 (c2 M) = 0 /\ c5 (c2 M) = 0 /\
  c0 (c3 M) = 0 /\ c1 (c3 M) = 0 /\ c4 (c3 M) = 0 /\ c5 (c3 M) = 0.
(* columns 0,1 of rows 2..5 vanish: the other planes are not fed by x, px *)
Definition xcols_uncoupled (M : M7 R) : Prop :=
  c0 (c2 M) = 0 /\ c1 (c2 M) = 0 /\ c0 (c3 M) = 0 /\ c1 (c3 M) = 0 /\
  c0 (c4 M) = 0 /\ c1 (c4 M) = 0 /\ c0 (c5 M) = 0 /\ c1 (c5 M) = 0.
Definition ycols_uncoupled (M : M7 R) : Prop :=
  c2 (c0 M) = 0 /\ c3 (c0 M) = 0 /\ c2 (c1 M) = 0 /\ c3 (c1 M) = 0 /\
  c2 (c4 M) = 0 /\ c3 (c4 M) = 0 /\ c2 (c5 M) = 0 /\ c3 (c5 M) = 0.
(* a covariance matrix of (x,px,y,py,tau,delta,1): the constant component has no variance *)
Definition cov7 (Sg : M7 R) : Prop :=
  c6 Sg = row 0 0 0 0 0 0 0 /\ c6 (c0 Sg) = 0 /\ c6 (c1 Sg) = 0 /\ c6 (c2 Sg) = 0 /\ c6 (c3 Sg) = 0 /\
  c6 (c4 Sg) = 0 /\ c6 (c5 Sg) = 0.

(** generic shape of base_rmatrix's untilted map (a = dx/beta, b = sx*hx/beta) *)
Definition base_gen (cx sx cy sy kx2 ky2 a b r56 : R) : M7 R :=
  mk7 (row cx sx 0 0 0 a 0)
      (row (- kx2 * sx) cx 0 0 0 b 0)
      (row 0 0 cy sy 0 0 0)
      (row 0 0 (- ky2 * sy) cy 0 0 0)
      (row b a 0 0 1 r56 0)
      (row 0 0 0 0 0 1 0)
      (row 0 0 0 0 0 0 1).
