(** C03 -- correspondence support: branch lemmas that remove the guards of Optics/Maps.v at a concrete parameter
    point, and the tactic used by the generated [interval] goals (harness/props/c03.py) comparing entries of the
    code's float64 transfer_map with the model.  No property theorems here. *)
From Coq Require Import Reals Lra.
From Interval Require Import Tactic.
From Cheetah Require Import Base.Mat Optics.Maps Optics.Sympl Optics.SymplProofs.
Open Scope R_scope.

Lemma igamma2_pos E : 0 < E -> igamma2_of E = 1 / ((E / m_e) * (E / m_e)).
Proof.
  intros H. unfold igamma2_of, gamma_of. destruct (Req_EM_T (E / m_e) 0) as [e|n]; [|reflexivity].
  exfalso. assert (0 < E / m_e) by (apply Rdiv_lt_0_compat; [exact H|unfold m_e; lra]). lra.
Qed.
Lemma k1_guard_nz k : k <> 0 -> k1_guard k = k.
Proof. intros H. unfold k1_guard. destruct (Req_EM_T k 0); [contradiction|reflexivity]. Qed.
Lemma k1_guard_z : k1_guard 0 = 1e-12.
Proof. unfold k1_guard. destruct (Req_EM_T 0 0) as [_|n]; [reflexivity|contradiction n; reflexivity]. Qed.
Lemma Cf_pos k L : 0 < k -> Cf k L = cos (sqrt k * L).
Proof. intros H. unfold Cf. destruct (Rlt_dec 0 k); [reflexivity|contradiction]. Qed.
Lemma Sf_pos k L : 0 < k -> Sf k L = sin (sqrt k * L) / sqrt k.
Proof. intros H. unfold Sf. destruct (Rlt_dec 0 k); [reflexivity|contradiction]. Qed.
Lemma Cf_neg k L : k < 0 -> Cf k L = (exp (sqrt (- k) * L) + exp (- (sqrt (- k) * L))) / 2.
Proof. intros H. unfold Cf. destruct (Rlt_dec 0 k); [lra|]. destruct (Rlt_dec k 0); [reflexivity|contradiction]. Qed.
Lemma Sf_neg k L : k < 0 -> Sf k L = (exp (sqrt (- k) * L) - exp (- (sqrt (- k) * L))) / 2 / sqrt (- k).
Proof. intros H. unfold Sf. destruct (Rlt_dec 0 k); [lra|]. destruct (Rlt_dec k 0); [reflexivity|contradiction]. Qed.
Lemma sol_sk_nz L k : k <> 0 -> sol_sk L k = sin (L * k) / k.
Proof. intros H. unfold sol_sk. destruct (Req_EM_T k 0); [contradiction|reflexivity]. Qed.
Lemma sol_sk_z L : sol_sk L 0 = L.
Proof. unfold sol_sk. destruct (Req_EM_T 0 0) as [_|n]; [reflexivity|contradiction n; reflexivity]. Qed.
Lemma sol_r56_pos L E : 0 < E -> sol_r56 L E = L / (1 - (E / m_e) * (E / m_e)).
Proof.
  intros H. unfold sol_r56, gamma_of. destruct (Req_EM_T (E / m_e) 0) as [e|n]; [|reflexivity].
  exfalso. assert (0 < E / m_e) by (apply Rdiv_lt_0_compat; [exact H|unfold m_e; lra]). lra.
Qed.
Lemma sol_unmisaligned L k E : sol_map L k 0 0 E = sol_body L k E.
Proof. unfold sol_map, misaligned. destruct (Req_EM_T 0 0) as [_|n]; [reflexivity|contradiction n; reflexivity]. Qed.

Ltac c03_proj := lazy beta iota zeta delta [m7nth v7nth row c0 c1 c2 c3 c4 c5 c6
                   drift_map base_untilted sol_body cavity_on_map].
Ltac c03_side := unfold Rsqr; lra.
(* entry of drift_map *)
Ltac c03_drift := c03_proj; unfold drift_r56, beta_of; rewrite ?igamma2_pos by lra; unfold m_e, Rsqr;
                  interval with (i_prec 80).
(* entry of quad_map L k1 0 0 0 E, k1 a literal; guard and sign regime resolved by lra *)
Ltac c03_quad := rewrite quad_untilted_eq; c03_proj;
  unfold dx, r56, cx, sx, cy, sy, kx2, ky2, beta_of;
  first [rewrite k1_guard_z | rewrite !k1_guard_nz by lra];
  rewrite ?igamma2_pos by lra;
  rewrite ?Cf_pos by c03_side; rewrite ?Sf_pos by c03_side; rewrite ?Cf_neg by c03_side; rewrite ?Sf_neg by c03_side;
  unfold m_e, Rsqr; interval with (i_prec 80).
(* entry of sol_map L k 0 0 E *)
Ltac c03_sol := rewrite sol_unmisaligned; c03_proj;
  first [rewrite !sol_sk_z | rewrite ?sol_sk_nz by lra]; rewrite ?sol_r56_pos by lra; unfold m_e, Rsqr;
  interval with (i_prec 80).
(* transverse entries of cavity_on_map *)
Ltac c03_cav := c03_proj;
  unfold cav_r11, cav_r12, cav_r21, cav_r22, cav_alpha, cav_Ep, cav_Ef, cav_Ei, cav_dE, m_e;
  interval with (i_prec 80).
