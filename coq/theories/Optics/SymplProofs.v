(** C03 -- proofs: every linear transfer map of Optics/Maps.v is symplectic w.r.t. S6 = diag(J2,J2,-J2)
    on its 6x6 part and keeps the seventh component; the cavity's transverse block has determinant Ei/Ef. *)
From Coq Require Import Reals Lra Lia Nsatz.
From Cheetah Require Import Base.Mat Optics.Maps Optics.Sympl.
Open Scope R_scope.

Ltac sred := lazy beta iota zeta delta [symplectic symplectic_wrt lin6 lin_row S6 S6plus row mmul transpose col v7map dot
                                        c0 c1 c2 c3 c4 c5 c6].
(* split a 7x7 equation into its entries *)
Ltac entries := sred; apply v7_eq; sred; apply v7_eq; sred.

(** * closure: affine maps and products *)
Lemma affine_mul (A B : M7 R) : affine A -> affine B -> affine (rmmul A B).
Proof.
  unfold affine. destruct A as [a0 a1 a2 a3 a4 a5 a6], B as [b0 b1 b2 b3 b4 b5 b6].
  lazy beta iota zeta delta [c6]. intros -> ->.
  lazy beta iota zeta delta [row mmul transpose col v7map dot c0 c1 c2 c3 c4 c5 c6].
  apply v7_eq; lazy beta iota zeta delta [row c0 c1 c2 c3 c4 c5 c6]; ring.
Qed.

Lemma affine_I : affine rI.
Proof. reflexivity. Qed.

Lemma lin6_mul (A B : M7 R) : affine B -> lin6 (rmmul A B) = rmmul (lin6 A) (lin6 B).
Proof.
  unfold affine. destruct A as [a0 a1 a2 a3 a4 a5 a6], B as [b0 b1 b2 b3 b4 b5 b6].
  lazy beta iota zeta delta [c6]. intros ->.
  entries; ring.
Qed.

Lemma sympl_wrt_mul (S A B : M7 R) : affine B -> symplectic_wrt S A -> symplectic_wrt S B -> symplectic_wrt S (rmmul A B).
Proof.
  unfold symplectic_wrt. intros HB HA HS. rewrite (lin6_mul A B HB).
  rewrite (transpose_mmul RRth), (mmul_assoc RRth).
  rewrite <- (mmul_assoc RRth S (lin6 A) (lin6 B)).
  rewrite <- (mmul_assoc RRth (transpose (lin6 A)) (rmmul S (lin6 A)) (lin6 B)).
  rewrite HA. exact HS.
Qed.

Lemma sympl_mul (A B : M7 R) : affine B -> symplectic A -> symplectic B -> symplectic (rmmul A B).
Proof. apply sympl_wrt_mul. Qed.

Lemma sympl_I : symplectic rI.
Proof. unfold rI, I7, e0, e1, e2, e3, e4, e5, e6. entries; ring. Qed.
(** * Cf^2 + k Sf^2 = 1 in the three sign regimes *)
Lemma cosh2_sinh2 x : cosh x * cosh x - sinh x * sinh x = 1.
Proof.
  unfold cosh, sinh. 
  assert (H : exp x * exp (- x) = 1) by (rewrite <- exp_plus, Rplus_opp_r; apply exp_0).
  field_simplify. replace (4 * exp x * exp (- x)) with (4 * (exp x * exp (-x))) by ring. rewrite H. field.
Qed.

Lemma CS_pos k L : 0 < k -> Cf k L * Cf k L + k * Sf k L * Sf k L = 1.
Proof.
  intros Hk. unfold Cf, Sf. destruct (Rlt_dec 0 k) as [_|n]; [|contradiction].
  assert (Hs : sqrt k * sqrt k = k) by (apply sqrt_sqrt; lra).
  assert (Hs0 : sqrt k <> 0) by (intro H0; rewrite H0 in Hs; lra).
  generalize (sin2_cos2 (sqrt k * L)). unfold Rsqr.
  set (s := sqrt k) in *. set (sn := sin (s * L)). set (cs := cos (s * L)). intros H.
  assert (E : (sn / s) * (sn / s) = sn * sn / (s * s)) by (field; exact Hs0).
  rewrite Rmult_assoc, E, Hs.
  replace (k * (sn * sn / k)) with (sn * sn) by (field; lra). lra.
Qed.

Lemma CS_neg k L : k < 0 -> Cf k L * Cf k L + k * Sf k L * Sf k L = 1.
Proof.
  intros Hk. unfold Cf, Sf. destruct (Rlt_dec 0 k) as [p|_]; [lra|].
  destruct (Rlt_dec k 0) as [_|n]; [|contradiction].
  assert (Hs : sqrt (- k) * sqrt (- k) = - k) by (apply sqrt_sqrt; lra).
  assert (Hs0 : sqrt (- k) <> 0) by (intro H0; rewrite H0 in Hs; lra).
  generalize (cosh2_sinh2 (sqrt (- k) * L)).
  set (s := sqrt (- k)) in *. set (sh := sinh (s * L)). set (ch := cosh (s * L)). intros H.
  assert (E : (sh / s) * (sh / s) = sh * sh / (s * s)) by (field; exact Hs0).
  rewrite Rmult_assoc, E, Hs.
  replace (k * (sh * sh / - k)) with (- (sh * sh)) by (field; lra). lra.
Qed.

Lemma CS_zero L : Cf 0 L * Cf 0 L + 0 * Sf 0 L * Sf 0 L = 1.
Proof.
  unfold Cf. destruct (Rlt_dec 0 0) as [p|_]; [lra|]. ring.
Qed.

Lemma CS_one k L : Cf k L * Cf k L + k * Sf k L * Sf k L = 1.
Proof.
  destruct (Rtotal_order k 0) as [H|[H|H]].
  - now apply CS_neg.
  - subst. apply CS_zero.
  - now apply CS_pos.
Qed.

Lemma Cf_zero L : Cf 0 L = 1.
Proof. unfold Cf. destruct (Rlt_dec 0 0); [lra|reflexivity]. Qed.
(** * the sector / quadrupole body *)
Lemma sympl_base_gen cx sx cy sy kx2 ky2 a b r56 :
  cx * cx + kx2 * sx * sx = 1 -> cy * cy + ky2 * sy * sy = 1 ->
  cx * b + kx2 * sx * a = b -> sx * b = a * (1 + cx) ->
  symplectic (base_gen cx sx cy sy kx2 ky2 a b r56).
Proof.
  intros H1 H2 H3 H4. unfold base_gen. entries; try ring; try (ring_simplify; lra); nsatz.
Qed.

Lemma k1_guard_neq0 k1 : k1_guard k1 <> 0.
Proof. unfold k1_guard. destruct (Req_EM_T k1 0); lra. Qed.

Lemma base_untilted_gen L k1 hx E :
  base_untilted L k1 hx E =
  base_gen (cx L k1 hx) (sx L k1 hx) (cy L k1) (sy L k1) (kx2 k1 hx) (ky2 k1)
           (dx L k1 hx / beta_of E) (sx L k1 hx * hx / beta_of E) (r56 L k1 hx E).
Proof. reflexivity. Qed.

Lemma sympl_base_untilted L k1 hx E : kx2 k1 hx <> 0 -> symplectic (base_untilted L k1 hx E).
Proof.
  intros Hk. rewrite base_untilted_gen.
  pose proof (CS_one (kx2 k1 hx) L) as Hx. pose proof (CS_one (ky2 k1) L) as Hy.
  fold (cx L k1 hx) in Hx. fold (sx L k1 hx) in Hx.
  apply sympl_base_gen.
  - exact Hx.
  - exact Hy.
  - assert (K : kx2 k1 hx * dx L k1 hx = hx * (1 - cx L k1 hx)) by (unfold dx; field; exact Hk).
    unfold Rdiv.
    replace (cx L k1 hx * (sx L k1 hx * hx * / beta_of E) + kx2 k1 hx * sx L k1 hx * (dx L k1 hx * / beta_of E))
      with (sx L k1 hx * / beta_of E * (cx L k1 hx * hx + kx2 k1 hx * dx L k1 hx)) by ring.
    rewrite K. ring.
  - unfold dx. unfold Rdiv.
    assert (HH : sx L k1 hx * sx L k1 hx = / kx2 k1 hx * (1 - cx L k1 hx * cx L k1 hx)).
    { field_simplify_eq; [|exact Hk]. lra. }
    transitivity (sx L k1 hx * sx L k1 hx * hx * / beta_of E); [ring|]. rewrite HH. ring.
Qed.
(** * elementary maps *)
Lemma sympl_rot a : symplectic (rot a).
Proof.
  pose proof (sin2_cos2 a) as H. unfold Rsqr in H. unfold rot.
  entries; try ring; try (ring_simplify; lra).
Qed.

Lemma sympl_shift mx my : symplectic (shift mx my).
Proof. unfold shift. entries; ring. Qed.

Lemma sympl_drift L E : symplectic (drift_map L E).
Proof. unfold drift_map. entries; ring. Qed.

Lemma sympl_hcor L a E : symplectic (hcor_map L a E).
Proof. unfold hcor_map. entries; ring. Qed.
Lemma sympl_vcor L a E : symplectic (vcor_map L a E).
Proof. unfold vcor_map. entries; ring. Qed.
Lemma sympl_undulator L E : symplectic (und_map L E).
Proof. unfold und_map. entries; ring. Qed.
Lemma sympl_edge hx e phi : symplectic (edge_map hx e phi).
Proof. unfold edge_map. entries; ring. Qed.
Lemma sympl_dip_thin L a : symplectic (dip_thin L a).
Proof. unfold dip_thin. entries; ring. Qed.
Lemma sympl_identity : symplectic identity_map.
Proof. exact sympl_I. Qed.

(** * affine (seventh row) of every map *)
Lemma seventh_row_rot a : affine (rot a). Proof. reflexivity. Qed.
Lemma seventh_row_shift mx my : affine (shift mx my). Proof. reflexivity. Qed.
Lemma seventh_row_drift L E : affine (drift_map L E). Proof. reflexivity. Qed.
Lemma seventh_row_base_untilted L k1 hx E : affine (base_untilted L k1 hx E). Proof. reflexivity. Qed.
Lemma seventh_row_hcor L a E : affine (hcor_map L a E). Proof. reflexivity. Qed.
Lemma seventh_row_vcor L a E : affine (vcor_map L a E). Proof. reflexivity. Qed.
Lemma seventh_row_undulator L E : affine (und_map L E). Proof. reflexivity. Qed.
Lemma seventh_row_edge hx e phi : affine (edge_map hx e phi). Proof. reflexivity. Qed.
Lemma seventh_row_dip_thin L a : affine (dip_thin L a). Proof. reflexivity. Qed.
Lemma seventh_row_sol_body L k E : affine (sol_body L k E). Proof. reflexivity. Qed.
Lemma seventh_row_identity : affine identity_map. Proof. reflexivity. Qed.
Lemma seventh_row_cavity_on L V phi f E : affine (cavity_on_map L V phi f E). Proof. reflexivity. Qed.

Lemma seventh_row_base_rmatrix L k1 hx tilt E : affine (base_rmatrix L k1 hx tilt E).
Proof.
  unfold base_rmatrix. destruct (Req_EM_T tilt 0).
  - apply seventh_row_base_untilted.
  - apply affine_mul; [apply seventh_row_rot|apply affine_mul; [apply seventh_row_base_untilted|apply seventh_row_rot]].
Qed.

Lemma affine_misaligned mx my Rm : affine Rm -> affine (misaligned mx my Rm).
Proof.
  intros H. unfold misaligned, mis_exit, mis_entry.
  destruct (Req_EM_T mx 0); [destruct (Req_EM_T my 0)|]; try exact H;
    (apply affine_mul; [apply seventh_row_shift|apply affine_mul; [exact H|apply seventh_row_shift]]).
Qed.

Lemma seventh_row_quad L k1 mx my tilt E : affine (quad_map L k1 mx my tilt E).
Proof. apply affine_misaligned, seventh_row_base_rmatrix. Qed.
Lemma seventh_row_solenoid L k mx my E : affine (sol_map L k mx my E).
Proof. apply affine_misaligned, seventh_row_sol_body. Qed.
Lemma seventh_row_dip_body L angle k1 E : affine (dip_body L angle k1 E).
Proof. unfold dip_body. destruct (Req_EM_T L 0); reflexivity. Qed.
Lemma seventh_row_dipole L angle k1 e1 e2 tilt gap fint fint_exit E :
  affine (dip_map L angle k1 e1 e2 tilt gap fint fint_exit E).
Proof.
  unfold dip_map. lazy zeta.
  repeat (apply affine_mul); try apply seventh_row_rot; try apply seventh_row_edge; apply seventh_row_dip_body.
Qed.
Lemma seventh_row_rbend L angle k1 e1 e2 tilt gap fint fint_exit E :
  affine (rbend_map L angle k1 e1 e2 tilt gap fint fint_exit E).
Proof. apply seventh_row_dipole. Qed.
Lemma seventh_row_cavity_off L E : affine (cavity_off_map L E).
Proof. apply seventh_row_base_rmatrix. Qed.

(** * composites *)
Lemma sympl_conj_rot t M : affine M -> symplectic M -> symplectic (rmmul (rot (- t)) (rmmul M (rot t))).
Proof.
  intros HA HM. apply sympl_mul.
  - apply affine_mul; [exact HA|apply seventh_row_rot].
  - apply sympl_rot.
  - apply sympl_mul; [apply seventh_row_rot|exact HM|apply sympl_rot].
Qed.

Lemma sympl_base_rmatrix L k1 hx tilt E : kx2 k1 hx <> 0 -> symplectic (base_rmatrix L k1 hx tilt E).
Proof.
  intros Hk. unfold base_rmatrix. destruct (Req_EM_T tilt 0).
  - now apply sympl_base_untilted.
  - apply sympl_conj_rot; [apply seventh_row_base_untilted|now apply sympl_base_untilted].
Qed.

Lemma sympl_misaligned mx my M : affine M -> symplectic M -> symplectic (misaligned mx my M).
Proof.
  intros HA HM. unfold misaligned, mis_exit, mis_entry.
  destruct (Req_EM_T mx 0); [destruct (Req_EM_T my 0)|]; try exact HM;
  (apply sympl_mul; [apply affine_mul; [exact HA|apply seventh_row_shift] | apply sympl_shift |
                     apply sympl_mul; [apply seventh_row_shift|exact HM|apply sympl_shift]]).
Qed.

Lemma kx2_quad k1 : kx2 k1 0 <> 0.
Proof. unfold kx2. pose proof (k1_guard_neq0 k1). replace (k1_guard k1 + 0²) with (k1_guard k1) by (unfold Rsqr; ring). exact H. Qed.

(* Quadrupole: every length, strength (both signs, and 0 through the guard), tilt, misalignment, energy *)
Lemma sympl_quad L k1 mx my tilt E : symplectic (quad_map L k1 mx my tilt E).
Proof.
  unfold quad_map. apply sympl_misaligned; [apply seventh_row_base_rmatrix|apply sympl_base_rmatrix, kx2_quad].
Qed.

Lemma sympl_cavity_off L E : symplectic (cavity_off_map L E).
Proof. unfold cavity_off_map. apply sympl_base_rmatrix, kx2_quad. Qed.
(** * solenoid *)
Definition sol_gen (c s sk k r56 : R) : M7 R :=
  mk7 (row (c * c) (c * sk) (s * c) (s * sk) 0 0 0)
      (row (- k * s * c) (c * c) (- k * (s * s)) (s * c) 0 0 0)
      (row (- s * c) (- s * sk) (c * c) (c * sk) 0 0 0)
      (row (k * (s * s)) (- s * c) (- k * s * c) (c * c) 0 0 0)
      (row 0 0 0 0 1 r56 0) (row 0 0 0 0 0 1 0) (row 0 0 0 0 0 0 1).

Lemma sympl_sol_gen c s sk k r56 : c * c + s * s = 1 -> k * sk = s -> symplectic (sol_gen c s sk k r56).
Proof.
  intros H1 H2. unfold sol_gen. subst s. entries; try ring; nsatz.
Qed.

Lemma sol_sk_rel L k : k * sol_sk L k = sin (L * k).
Proof.
  unfold sol_sk. destruct (Req_EM_T k 0) as [->|n].
  - rewrite Rmult_0_r, sin_0. ring.
  - field. exact n.
Qed.

Lemma sympl_sol_body L k E : symplectic (sol_body L k E).
Proof.
  change (sol_body L k E) with (sol_gen (cos (L * k)) (sin (L * k)) (sol_sk L k) k (sol_r56 L E)).
  apply sympl_sol_gen.
  - pose proof (sin2_cos2 (L * k)) as H. unfold Rsqr in H. lra.
  - apply sol_sk_rel.
Qed.

Lemma sympl_solenoid L k mx my E : symplectic (sol_map L k mx my E).
Proof. apply sympl_misaligned; [apply seventh_row_sol_body|apply sympl_sol_body]. Qed.
(** * dipole / rbend *)
Lemma sympl_dip_body L angle k1 E :
  (L = 0 \/ kx2 k1 (dip_hx L angle) <> 0) -> symplectic (dip_body L angle k1 E).
Proof.
  intros H. unfold dip_body. destruct (Req_EM_T L 0) as [e|n].
  - apply sympl_dip_thin.
  - destruct H as [H|H]; [contradiction|]. now apply sympl_base_untilted.
Qed.

Lemma sympl_dipole L angle k1 e1 e2 tilt gap fint fint_exit E :
  (L = 0 \/ kx2 k1 (dip_hx L angle) <> 0) ->
  symplectic (dip_map L angle k1 e1 e2 tilt gap fint fint_exit E).
Proof.
  intros H. unfold dip_map. lazy zeta. apply sympl_conj_rot.
  - repeat apply affine_mul; try apply seventh_row_edge; apply seventh_row_dip_body.
  - apply sympl_mul.
    + apply affine_mul; [apply seventh_row_dip_body|apply seventh_row_edge].
    + apply sympl_edge.
    + apply sympl_mul; [apply seventh_row_edge|now apply sympl_dip_body|apply sympl_edge].
Qed.

Lemma sympl_rbend L angle k1 re1 re2 tilt gap fint fint_exit E :
  (L = 0 \/ kx2 k1 (dip_hx L angle) <> 0) ->
  symplectic (rbend_map L angle k1 re1 re2 tilt gap fint fint_exit E).
Proof. apply sympl_dipole. Qed.

(* the exclusion is not vacuous-making: for k1 >= 0 (or k1 = 0 -> guard 1e-12) it always holds *)
Lemma kx2_nonneg_k1 k1 hx : 0 <= k1 -> kx2 k1 hx <> 0.
Proof.
  intros H. unfold kx2, k1_guard. pose proof (Rle_0_sqr hx).
  destruct (Req_EM_T k1 0); lra.
Qed.

(* ... and it is needed: at kx2 = 0 with hx <> 0 the model (sx = L, cx = 1, dx = hx/0*0) is not symplectic.
   (The code itself returns NaN there: sin(0)/0.)  Witness: k1 = -1, hx = 1, L = 1. *)
Lemma sympl_base_kx2_zero_refuted E : beta_of E <> 0 -> ~ symplectic (base_untilted 1 (-1) 1 E).
Proof.
  intros Hb Hs. unfold symplectic, symplectic_wrt in Hs.
  apply (f_equal (fun m => c5 (c1 m))) in Hs. revert Hs.
  unfold base_untilted, dx, sx, cx, kx2, k1_guard.
  destruct (Req_EM_T (-1) 0) as [e|_]; [lra|].
  replace (-1 + 1²) with 0 by (unfold Rsqr; ring).
  unfold Sf, Cf. destruct (Rlt_dec 0 0) as [p|_]; [lra|].
  sred. intros Hs. ring_simplify in Hs.
  apply Hb. apply Rinv_neq_0_compat in Hb. 
  assert (/ beta_of E = 0) by lra. contradiction.
Qed.
(** * cavity: transverse block determinant = Ei/Ef *)
Lemma sqrt8_sqrt18 : sqrt 8 * sqrt (1 / 8) = 1.
Proof. rewrite <- sqrt_mult by lra. replace (8 * (1 / 8)) with 1 by field. apply sqrt_1. Qed.
Lemma sqrt8_sqrt2 : sqrt 8 = 2 * sqrt 2.
Proof.
  replace 8 with (2 * 2 * 2) by ring. rewrite sqrt_mult by lra. rewrite sqrt_square by lra. reflexivity.
Qed.
Lemma sqrt2_sq : sqrt 2 * sqrt 2 = 2.
Proof. apply sqrt_sqrt; lra. Qed.

Lemma cavity_block_det L V phi E :
  cos phi <> 0 -> cav_Ep L V phi E <> 0 -> cav_Ef V phi E <> 0 ->
  det2 (cav_r11 V phi E) (cav_r12 L V phi E) (cav_r21 L V phi E) (cav_r22 V phi E) = cav_Ei E / cav_Ef V phi E.
Proof.
  intros Hc Hp Hf. unfold det2, cav_r11, cav_r12, cav_r21, cav_r22.
  set (al := cav_alpha V phi E). set (Ei := cav_Ei E). set (Ef := cav_Ef V phi E) in *. set (Ep := cav_Ep L V phi E) in *.
  pose proof (sin2_cos2 al) as H. unfold Rsqr in H.
  pose proof sqrt8_sqrt18 as H8. pose proof sqrt2_sq as H2. rewrite sqrt8_sqrt2 in *.
  assert (Hs2 : sqrt 2 <> 0) by (intro H0; rewrite H0 in H2; lra).
  set (s2 := sqrt 2) in *. set (s18 := sqrt (1 / 8)) in *. set (ca := cos al) in *. set (sa := sin al) in *.
  set (cp := cos phi) in *.
  transitivity (Ei / Ef * (ca * ca - (s2 * s2) * cp * cp * sa * sa + 2 * cp * cp * sa * sa + (2 * s2 * s18) * sa * sa)).
  - field. repeat split; assumption.
  - rewrite H8, H2. replace (ca * ca - 2 * cp * cp * sa * sa + 2 * cp * cp * sa * sa + 1 * sa * sa) with (sa * sa + ca * ca) by ring.
    rewrite H. ring.
Qed.

(* in terms of the element's parameters *)
Lemma cav_Ep_neq0 L V phi E : L <> 0 -> V <> 0 -> cos phi <> 0 -> cav_Ep L V phi E <> 0.
Proof.
  intros HL HV Hc. unfold cav_Ep, cav_Ef, cav_Ei, cav_dE.
  assert (Hm : m_e <> 0) by (unfold m_e; lra).
  replace ((E + V * cos phi) / m_e - E / m_e) with (V * cos phi / m_e) by (field; exact Hm).
  unfold Rdiv. repeat apply Rmult_integral_contrapositive_currified; try assumption; apply Rinv_neq_0_compat; assumption.
Qed.

Lemma cavity_block_det_params L V phi f E :
  L <> 0 -> V <> 0 -> cos phi <> 0 -> 0 < E -> 0 < E + V * cos phi ->
  xdet (cavity_on_map L V phi f E) = E / (E + V * cos phi) /\
  ydet (cavity_on_map L V phi f E) = E / (E + V * cos phi).
Proof.
  intros HL HV Hc HE HE'.
  assert (Hm : 0 < m_e) by (unfold m_e; lra).
  assert (Hf : cav_Ef V phi E <> 0).
  { unfold cav_Ef, cav_dE. apply Rgt_not_eq. apply Rdiv_lt_0_compat; assumption. }
  pose proof (cavity_block_det L V phi E Hc (cav_Ep_neq0 L V phi E HL HV Hc) Hf) as H.
  assert (R : cav_Ei E / cav_Ef V phi E = E / (E + V * cos phi)).
  { unfold cav_Ei, cav_Ef, cav_dE. field. split; lra. }
  rewrite R in H. split; exact H.
Qed.

(** * emittance under a 2x2 block: eps^2(M Sg M^T) = det(M)^2 eps^2(Sg) *)
Lemma emit2_cong a b c d s11 s12 s22 :
  emit2 (a * (a * s11 + b * s12) + b * (a * s12 + b * s22))
        (a * (c * s11 + d * s12) + b * (c * s12 + d * s22))
        (c * (c * s11 + d * s12) + d * (c * s12 + d * s22))
  = det2 a b c d * det2 a b c d * emit2 s11 s12 s22.
Proof. unfold emit2, det2. ring. Qed.

(* on the 7x7 covariance: if rows x,px of M see only x,px (and the constant), and Sg is a symmetric covariance of
   (x,..,delta,1), then eps_x^2 of M Sg M^T is xdet(M)^2 eps_x^2(Sg) *)
Lemma emit_x_cong M Sg :
  xrows_uncoupled M -> cov7 Sg -> c0 (c1 Sg) = c1 (c0 Sg) ->
  emit_x2 (rcong M Sg) = xdet M * xdet M * emit_x2 Sg.
Proof.
  intros (h1 & h2 & h3 & h4 & h5 & h6 & h7 & h8) (k0 & k1 & k2 & k3 & k4 & k5 & k6) Hsym.
  unfold emit_x2, xdet, emit2, det2.
  destruct M as [m0 m1 m2 m3 m4 m5 m6], Sg as [s0 s1 s2 s3 s4 s5 s6].
  lazy beta iota zeta delta [c0 c1 c2 c3 c4 c5 c6] in h1, h2, h3, h4, h5, h6, h7, h8, k0, k1, k2, k3, k4, k5, k6, Hsym.
  subst s6.
  lazy beta iota zeta delta [cong row mmul transpose col v7map dot c0 c1 c2 c3 c4 c5 c6].
  rewrite h1, h2, h3, h4, h5, h6, h7, h8, k1, k2, Hsym. ring.
Qed.

Lemma emit_y_cong M Sg :
  yrows_uncoupled M -> cov7 Sg -> c2 (c3 Sg) = c3 (c2 Sg) ->
  emit_y2 (rcong M Sg) = ydet M * ydet M * emit_y2 Sg.
Proof.
  intros (h1 & h2 & h3 & h4 & h5 & h6 & h7 & h8) (k0 & k1 & k2 & k3 & k4 & k5 & k6) Hsym.
  unfold emit_y2, ydet, emit2, det2.
  destruct M as [m0 m1 m2 m3 m4 m5 m6], Sg as [s0 s1 s2 s3 s4 s5 s6].
  lazy beta iota zeta delta [c0 c1 c2 c3 c4 c5 c6] in h1, h2, h3, h4, h5, h6, h7, h8, k0, k1, k2, k3, k4, k5, k6, Hsym.
  subst s6.
  lazy beta iota zeta delta [cong row mmul transpose col v7map dot c0 c1 c2 c3 c4 c5 c6].
  rewrite h1, h2, h3, h4, h5, h6, h7, h8, k3, k4, Hsym. ring.
Qed.

(* a symplectic map whose x plane is decoupled has unit block determinant *)
Lemma sympl_xdet M : symplectic M -> xcols_uncoupled M -> xdet M = 1.
Proof.
  intros Hs (h1 & h2 & h3 & h4 & h5 & h6 & h7 & h8).
  unfold symplectic, symplectic_wrt in Hs. apply (f_equal (fun m => c1 (c0 m))) in Hs. revert Hs.
  unfold xdet, det2. destruct M as [m0 m1 m2 m3 m4 m5 m6].
  lazy beta iota zeta delta [c0 c1 c2 c3 c4 c5 c6] in h1, h2, h3, h4, h5, h6, h7, h8.
  sred. rewrite h1, h2, h3, h4, h5, h6, h7, h8. intros Hs. ring_simplify in Hs. ring_simplify. lra.
Qed.
Lemma sympl_ydet M : symplectic M -> ycols_uncoupled M -> ydet M = 1.
Proof.
  intros Hs (h1 & h2 & h3 & h4 & h5 & h6 & h7 & h8).
  unfold symplectic, symplectic_wrt in Hs. apply (f_equal (fun m => c3 (c2 m))) in Hs. revert Hs.
  unfold ydet, det2. destruct M as [m0 m1 m2 m3 m4 m5 m6].
  lazy beta iota zeta delta [c0 c1 c2 c3 c4 c5 c6] in h1, h2, h3, h4, h5, h6, h7, h8.
  sred. rewrite h1, h2, h3, h4, h5, h6, h7, h8. intros Hs. ring_simplify in Hs. ring_simplify. lra.
Qed.

Lemma emit_invariant_x M Sg :
  symplectic M -> xrows_uncoupled M -> xcols_uncoupled M -> cov7 Sg -> c0 (c1 Sg) = c1 (c0 Sg) ->
  emit_x2 (rcong M Sg) = emit_x2 Sg.
Proof. intros Hs Hr Hc Hv Hy. rewrite (emit_x_cong M Sg Hr Hv Hy), (sympl_xdet M Hs Hc). ring. Qed.
Lemma emit_invariant_y M Sg :
  symplectic M -> yrows_uncoupled M -> ycols_uncoupled M -> cov7 Sg -> c2 (c3 Sg) = c3 (c2 Sg) ->
  emit_y2 (rcong M Sg) = emit_y2 Sg.
Proof. intros Hs Hr Hc Hv Hy. rewrite (emit_y_cong M Sg Hr Hv Hy), (sympl_ydet M Hs Hc). ring. Qed.
(** * uncoupled elements: each plane's emittance is invariant; the cavity scales it by (Ei/Ef) *)
Ltac unc := unfold xrows_uncoupled, xcols_uncoupled, yrows_uncoupled, ycols_uncoupled;
            lazy beta iota zeta delta [row c0 c1 c2 c3 c4 c5 c6]; repeat split; try reflexivity.

Lemma drift_uncoupled L E :
  xrows_uncoupled (drift_map L E) /\ xcols_uncoupled (drift_map L E) /\
  yrows_uncoupled (drift_map L E) /\ ycols_uncoupled (drift_map L E).
Proof. unfold drift_map. unc. Qed.

Lemma quad_untilted_eq L k1 E : quad_map L k1 0 0 0 E = base_untilted L k1 0 E.
Proof.
  unfold quad_map, misaligned, base_rmatrix. destruct (Req_EM_T 0 0) as [_|n]; [reflexivity|contradiction n; reflexivity].
Qed.

Lemma quad_untilted_uncoupled L k1 E :
  xrows_uncoupled (quad_map L k1 0 0 0 E) /\ xcols_uncoupled (quad_map L k1 0 0 0 E) /\
  yrows_uncoupled (quad_map L k1 0 0 0 E) /\ ycols_uncoupled (quad_map L k1 0 0 0 E).
Proof.
  rewrite quad_untilted_eq. unfold base_untilted, dx. unc; unfold Rdiv; ring.
Qed.

Lemma cavity_on_uncoupled L V phi f E :
  xrows_uncoupled (cavity_on_map L V phi f E) /\ xcols_uncoupled (cavity_on_map L V phi f E) /\
  yrows_uncoupled (cavity_on_map L V phi f E) /\ ycols_uncoupled (cavity_on_map L V phi f E).
Proof. unfold cavity_on_map. unc. Qed.

Lemma emit_drift L E Sg : cov7 Sg -> c0 (c1 Sg) = c1 (c0 Sg) -> c2 (c3 Sg) = c3 (c2 Sg) ->
  emit_x2 (rcong (drift_map L E) Sg) = emit_x2 Sg /\ emit_y2 (rcong (drift_map L E) Sg) = emit_y2 Sg.
Proof.
  intros Hv Hx Hy. destruct (drift_uncoupled L E) as (a & b & c & d). split.
  - apply emit_invariant_x; auto using sympl_drift.
  - apply emit_invariant_y; auto using sympl_drift.
Qed.

Lemma emit_quad L k1 E Sg : cov7 Sg -> c0 (c1 Sg) = c1 (c0 Sg) -> c2 (c3 Sg) = c3 (c2 Sg) ->
  emit_x2 (rcong (quad_map L k1 0 0 0 E) Sg) = emit_x2 Sg /\ emit_y2 (rcong (quad_map L k1 0 0 0 E) Sg) = emit_y2 Sg.
Proof.
  intros Hv Hx Hy. destruct (quad_untilted_uncoupled L k1 E) as (a & b & c & d). split.
  - apply emit_invariant_x; auto using sympl_quad.
  - apply emit_invariant_y; auto using sympl_quad.
Qed.

Lemma emit_cavity L V phi f E Sg :
  L <> 0 -> V <> 0 -> cos phi <> 0 -> 0 < E -> 0 < E + V * cos phi ->
  cov7 Sg -> c0 (c1 Sg) = c1 (c0 Sg) -> c2 (c3 Sg) = c3 (c2 Sg) ->
  emit_x2 (rcong (cavity_on_map L V phi f E) Sg) = (E / (E + V * cos phi))² * emit_x2 Sg /\
  emit_y2 (rcong (cavity_on_map L V phi f E) Sg) = (E / (E + V * cos phi))² * emit_y2 Sg.
Proof.
  intros HL HV Hc HE HE' Hv Hx Hy. destruct (cavity_on_uncoupled L V phi f E) as (a & b & c & d).
  destruct (cavity_block_det_params L V phi f E HL HV Hc HE HE') as (dx & dy).
  split.
  - rewrite (emit_x_cong _ Sg a Hv Hx), dx. reflexivity.
  - rewrite (emit_y_cong _ Sg c Hv Hy), dy. reflexivity.
Qed.

(* an accelerating/decelerating cavity is NOT symplectic (it damps/anti-damps): this is the property's second clause *)
Lemma cavity_on_not_symplectic L V phi f E :
  L <> 0 -> V <> 0 -> cos phi <> 0 -> 0 < E -> 0 < E + V * cos phi -> ~ symplectic (cavity_on_map L V phi f E).
Proof.
  intros HL HV Hc HE HE' Hs. destruct (cavity_on_uncoupled L V phi f E) as (a & b & c & d).
  pose proof (sympl_xdet _ Hs b) as H1.
  destruct (cavity_block_det_params L V phi f E HL HV Hc HE HE') as (dx & _). rewrite dx in H1.
  assert (V * cos phi <> 0) by (apply Rmult_integral_contrapositive_currified; assumption).
  apply (Rmult_eq_compat_r (E + V * cos phi)) in H1. unfold Rdiv in H1. rewrite Rmult_assoc, Rinv_l in H1; lra.
Qed.

(** * the sign of the tau pair is forced: with +J2 for (tau,delta) the dispersive sector map is not symplectic *)
Lemma sympl_plus_sign_refuted E : 0 < beta_of E -> ~ symplectic_wrt S6plus (base_untilted 1 1 1 E).
Proof.
  intros Hb Hs. unfold symplectic_wrt in Hs.
  apply (f_equal (fun m => c5 (c0 m))) in Hs. revert Hs.
  unfold base_untilted, dx, sx, cx, kx2, k1_guard.
  destruct (Req_EM_T 1 0) as [e|_]; [lra|].
  replace (1 + 1²) with 2 by (unfold Rsqr; ring).
  unfold Sf, Cf. destruct (Rlt_dec 0 2) as [_|n]; [|lra].
  sred. intros Hs.
  assert (H0 : sin (sqrt 2 * 1) / sqrt 2 * / beta_of E = 0).
  { unfold Rdiv in Hs. ring_simplify in Hs. unfold Rdiv. lra. }
  assert (Hq : 0 < sqrt 2) by (apply sqrt_lt_R0; lra).
  assert (Hq2 : sqrt 2 * sqrt 2 = 2) by (apply sqrt_sqrt; lra).
  assert (Hsin : 0 < sin (sqrt 2 * 1)).
  { apply sin_gt_0; [lra|]. assert (sqrt 2 < 2) by nra. pose proof PI_RGT_0. pose proof (PI2_3_2). unfold PI2 in *. nra. }
  assert (0 < sin (sqrt 2 * 1) / sqrt 2 * / beta_of E).
  { apply Rmult_lt_0_compat; [apply Rdiv_lt_0_compat; assumption|apply Rinv_0_lt_compat; assumption]. }
  lra.
Qed.

(** * non-vacuity of the dipole hypotheses *)
Lemma nonvacuous_dipole E :
  symplectic (dip_map 1 (1/2) 0 (1/10) (1/10) (1/5) (1/100) (1/2) (1/2) E) /\
  symplectic (dip_map 0 (1/2) 0 0 0 0 0 0 0 E).
Proof.
  split; apply sympl_dipole.
  - right. apply kx2_nonneg_k1. lra.
  - left. reflexivity.
Qed.
