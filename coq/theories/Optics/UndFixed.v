(** Undulator.transfer_map after the repair of finding F3 ([und_map_fixed] of Optics/Maps.v: R56 is computed as
    `-length / beta**2 * igamma2` from compute_relativistic_factors, as Drift.transfer_map does).
    This file only relates the transcription to [drift_map]; it imports nothing but the model, so that the
    generated correspondence goals (harness/optics.py, harness/props/c03.py, c09.py) can load it cheaply.
    The property theorems for the repaired map are in UndFixedFlow.v (C02), UndFixedSympl.v (C03), UndFixedOff.v (C09).
    [und_map] (the map BEFORE the repair) and its [_refuted] theorems are kept: they stay true and document the defect. *)
From Coq Require Import Reals.
From Cheetah Require Import Base.Mat Optics.Maps.
Open Scope R_scope.

(** the old map's private copy of igamma2 is the same function as compute_relativistic_factors' *)
Lemma und_igamma2_is E : und_igamma2 E = igamma2_of E.
Proof. reflexivity. Qed.

(** the repaired undulator map IS the drift map, for every length and energy (also at E = 0, below the rest
    energy, ...: both sides go through the same compute_relativistic_factors) *)
Lemma und_map_fixed_r56 L E : m7nth (und_map_fixed L E) 4 5 = drift_r56 L E.
Proof. reflexivity. Qed.

Theorem und_map_fixed_is_drift L E : und_map_fixed L E = drift_map L E.
Proof. reflexivity. Qed.

(** ... and it differs from the map before the repair exactly in R56 *)
Lemma und_map_fixed_vs_old L E i j : (i, j) <> (4%nat, 5%nat) -> m7nth (und_map_fixed L E) i j = m7nth (und_map L E) i j.
Proof.
  intros H.
  do 7 (destruct i as [|i]; [do 7 (destruct j as [|j]; [try reflexivity; exfalso; apply H; reflexivity|]); reflexivity|]).
  reflexivity.
Qed.
