(** C02 for the Undulator after the repair of finding F3: the repaired map is the drift map, hence the exact flow of
    the drift Hamiltonian  H = (px^2 + py^2)/2 + igamma2 delta^2/(2 beta^2).  The theorems about the map before the
    repair ([undulator_map_refuted] in FlowProofs.v) are untouched. *)
From Coq Require Import Reals Lra.
From Coquelicot Require Import Coquelicot.
From Cheetah Require Import Base.Mat Optics.Maps Optics.Flow Optics.FlowProofs Optics.ConjProofs Optics.UndFixed.
Open Scope R_scope.

Theorem undulator_fixed_is_drift L E : und_map_fixed L E = drift_map L E.
Proof. exact (und_map_fixed_is_drift L E). Qed.

Theorem undulator_fixed_flow E :
  is_flow (rmmul S6 (hess_sbend 0 0 0 (beta_of E) (igamma2_of E))) (fun L => und_map_fixed L E).
Proof. exact (drift_flow_H E). Qed.

(** R56 of the repaired map in terms of the relativistic factors, and its sign (the opposite of the old map's) *)
Theorem undulator_fixed_r56 L E : m_e < E -> 0 < L ->
  m7nth (und_map_fixed L E) 4 5 = - L / ((beta_of E)² * (gamma_of E)²) /\ m7nth (und_map_fixed L E) 4 5 < 0.
Proof.
  intros HE HL. destruct (undulator_map_refuted L E HE HL) as (_ & _ & Hneg & _).
  destruct (rel_factors E L HE) as (_ & _ & _ & _ & _ & _ & Hr). cbv zeta in Hr.
  rewrite und_map_fixed_r56. split; [exact Hr|]. exact Hneg.
Qed.

(** the repair changes the map: for every L > 0 above the rest energy the two transcriptions differ *)
Theorem undulator_fixed_differs_from_old L E : m_e < E -> 0 < L -> und_map_fixed L E <> und_map L E.
Proof.
  intros HE HL Heq. destruct (undulator_map_refuted L E HE HL) as (_ & _ & _ & Hne).
  apply Hne. rewrite <- Heq. apply und_map_fixed_is_drift.
Qed.
