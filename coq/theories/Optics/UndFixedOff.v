(** C09 for the class table after the repair of finding F3: the Undulator row of [off_map] is replaced by the
    repaired map, and the family statement holds for EVERY class -- no [~ is_undulator] hypothesis.
    [off_map] / [off_is_drift_like] (OffClasses.v, OffMain.v) describe the code before the repair and are untouched. *)
From Coq Require Import Reals Lra.
From Cheetah Require Import Base.Mat Optics.Maps Optics.Off Optics.OffScalar Optics.OffProofs Optics.OffElems Optics.OffRefute
  Optics.OffClasses Optics.OffMain Optics.UndFixed.
Open Scope R_scope.

(** the zero-strength transfer maps per class, Undulator row as repaired; all other rows as in [off_map] *)
Definition off_map_fixed (el : off_elem) (E : R) : M7 R :=
  match el with
  | OffUndulator L => und_map_fixed L E
  | _ => off_map el E
  end.

Theorem undulator_fixed_off L E : und_map_fixed L E = drift_map L E.
Proof. exact (und_map_fixed_is_drift L E). Qed.

Lemma off_map_fixed_other el E : ~ is_undulator el -> off_map_fixed el E = off_map el E.
Proof. destruct el; cbn [is_undulator off_map_fixed]; intros H; [reflexivity..|contradiction H; exact I]. Qed.

Theorem off_is_drift_like_fixed el E : 0 <= off_length el <= 100 -> m_e < E ->
  m7close (guard_eps (off_length el) * (1 + off_mis el)) (off_map_fixed el E) (drift_map (off_length el) E).
Proof.
  intros HL HE.
  assert (Hu : is_undulator el \/ ~ is_undulator el) by (destruct el; cbn; tauto).
  destruct Hu as [Hu|Hu].
  - destruct el; cbn [is_undulator] in Hu; try contradiction.
    cbn [off_map_fixed off_length off_mis] in *. rewrite und_map_fixed_is_drift.
    apply m7close_refl. rewrite Rplus_0_r, Rmult_1_r. apply guard_eps_nonneg; lra.
  - rewrite (off_map_fixed_other el E Hu). apply off_is_drift_like; assumption.
Qed.

Theorem off_tracks_like_drift_fixed el E v : 0 <= off_length el <= 100 -> m_e < E ->
  v7close (guard_eps (off_length el) * (1 + off_mis el) * norm1 v) (rmvec (off_map_fixed el E) v) (rmvec (drift_map (off_length el) E) v).
Proof. intros. apply mvec_close. apply off_is_drift_like_fixed; assumption. Qed.

Theorem off_zero_length_identity_fixed el E : off_length el = 0 -> off_map_fixed el E = rI.
Proof.
  intros H. destruct el; try (apply off_zero_length_identity; exact H).
  cbn [off_length] in H. subst. cbn [off_map_fixed]. rewrite und_map_fixed_is_drift. apply drift_zero_length.
Qed.

(** the undulator row, spelled out: exact equality of the tracked coordinates with the drift's, every particle *)
Theorem undulator_fixed_tracks_like_drift L E v : rmvec (off_map_fixed (OffUndulator L) E) v = rmvec (drift_map L E) v.
Proof. cbn [off_map_fixed]. rewrite und_map_fixed_is_drift. reflexivity. Qed.
