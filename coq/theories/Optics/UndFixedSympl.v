(** C03 for the Undulator after the repair of finding F3: symplectic, affine, planes uncoupled, emittances kept.
    (The map before the repair is symplectic too -- any R56 is -- see [sympl_undulator] in SymplProofs.v; it stays.) *)
From Coq Require Import Reals.
From Cheetah Require Import Base.Mat Optics.Maps Optics.Sympl Optics.SymplProofs Optics.UndFixed.
Open Scope R_scope.

Lemma sympl_undulator_fixed L E : symplectic (und_map_fixed L E).
Proof. rewrite und_map_fixed_is_drift. apply sympl_drift. Qed.

Lemma seventh_row_undulator_fixed L E : affine (und_map_fixed L E).
Proof. rewrite und_map_fixed_is_drift. apply seventh_row_drift. Qed.

Lemma emit_undulator_fixed L E Sg : cov7 Sg -> c0 (c1 Sg) = c1 (c0 Sg) -> c2 (c3 Sg) = c3 (c2 Sg) ->
  emit_x2 (rcong (und_map_fixed L E) Sg) = emit_x2 Sg /\ emit_y2 (rcong (und_map_fixed L E) Sg) = emit_y2 Sg.
Proof. rewrite und_map_fixed_is_drift. apply emit_drift. Qed.
