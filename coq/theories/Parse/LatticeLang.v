(** Parse/LatticeLang.v -- denotational semantics of the lattice language that cheetah's Elegant / Bmad
    importers understand (fortran_namelist.parse_lines + elegant.convert_element / bmad.convert_element).
    Model only; the laws are proved in LatticeLangProofs.v.

    The *statement level* is modelled (the text -> statement step is Python `re`/`eval` behaviour and is tied to
    this model by the program-level correspondence of harness/props/c13.py):
      parse_lines keeps ONE namespace `context` (a dict) holding numbers, strings, element dicts and line lists,
      pre-loaded with the named constants; every statement updates it in file order.
    Numbers are binary64 [PrimFloat] values: Python's float + - * / sqrt abs are IEEE-754 correctly rounded, as
    are Coq's primitives, so the model computes the same bits; Python ints are modelled by the float of the same
    value (exact below 2^53).  The constructors receive `torch.tensor(python_float)` = the value rounded to
    binary32 ([round32], round to nearest even). *)
From Coq Require Import List String Ascii Bool ZArith PrimFloat Uint63 SpecFloat FloatOps.
Import ListNotations.
Open Scope string_scope.

(* ------------------------------------------------------------------ values *)
Inductive pval := PNum (x : float) | PStr (s : string).
Definition props := list (string * pval).            (* newest binding first; "element_type" is an ordinary key, as in the code *)

Inductive cval :=
| VNum (x : float)
| VStr (s : string)
| VElem (ps : props)
| VLine (items : list string).
Definition ctx := list (string * cval).              (* newest binding first *)

Fixpoint get {A} (l : list (string * A)) (k : string) : option A :=
  match l with
  | [] => None
  | (k', v) :: r => if String.eqb k' k then Some v else get r k
  end.

Notation "x <- e ;; k" := (match e with Some x => k | None => None end)
  (at level 61, e at next level, right associativity).

(* ------------------------------------------------------------------ binary32 rounding of a binary64 value *)
Definition round32 (x : float) : float :=
  match Prim2SF x with
  | S754_finite s m e =>
    let mz := Zpos m in
    let nbits := (Z.log2 mz + 1)%Z in
    let e' := Z.max (e + nbits - 24) (-149) in
    let sh := (e' - e)%Z in
    if (sh <=? 0)%Z then x
    else
      let q := Z.shiftr mz sh in
      let r := (mz - Z.shiftl q sh)%Z in
      let half := Z.shiftl 1 (sh - 1) in
      let q' := if ((r >? half) || ((r =? half) && Z.odd q))%Z then (q + 1)%Z else q in
      match q' with
      | Zpos p =>
        if (Z.log2 q' + 1 + e' >? 128)%Z then (if s then neg_infinity else infinity)
        else SF2Prim (S754_finite s p e')
      | _ => if s then neg_zero else zero
      end
  | _ => x
  end.

(* ------------------------------------------------------------------ expressions *)
Inductive expr :=
| ENum (x : float)                   (* int or float literal *)
| EStr (s : string)                  (* quoted string, or one of the bare keywords open/electron/t/f/traveling_wave/full *)
| EVar (n : string)                  (* variable / named constant *)
| EAttr (obj prop : string)          (* q1[k1] *)
| ENeg (a : expr)
| EAdd (a b : expr) | ESub (a b : expr) | EMul (a b : expr) | EDiv (a b : expr)
| EPow (a : expr) (k : Z)            (* a ^ integer *)
| ESqrt (a : expr) | EAbs (a : expr).

Definition fzero := zero.
Definition is_zero (x : float) : bool := PrimFloat.eqb x zero.

Fixpoint pow_pos (x : float) (n : nat) : float :=
  match n with 0 => one | S 0 => x | S m => PrimFloat.mul (pow_pos x m) x end.

(* numeric evaluation; None = Python raises (NameError, KeyError, TypeError, ZeroDivisionError, math domain error) *)
Fixpoint evalf (c : ctx) (e : expr) : option float :=
  match e with
  | ENum x => Some x
  | EStr _ => None
  | EVar n => match get c n with Some (VNum x) => Some x | _ => None end
  | EAttr o p =>
    match get c o with
    | Some (VElem ps) => match get ps p with Some (PNum x) => Some x | _ => None end
    | _ => None
    end
  | ENeg a => x <- evalf c a ;; Some (PrimFloat.opp x)
  | EAdd a b => x <- evalf c a ;; y <- evalf c b ;; Some (PrimFloat.add x y)
  | ESub a b => x <- evalf c a ;; y <- evalf c b ;; Some (PrimFloat.sub x y)
  | EMul a b => x <- evalf c a ;; y <- evalf c b ;; Some (PrimFloat.mul x y)
  | EDiv a b => x <- evalf c a ;; y <- evalf c b ;; if is_zero y then None else Some (PrimFloat.div x y)
  | EPow a k =>
    x <- evalf c a ;;
    match k with
    | Z0 => Some one
    | Zpos p => Some (pow_pos x (Pos.to_nat p))
    | Zneg p => if is_zero x then None else Some (PrimFloat.div one (pow_pos x (Pos.to_nat p)))
    end
  | ESqrt a => x <- evalf c a ;; if PrimFloat.ltb x zero then None else Some (PrimFloat.sqrt x)
  | EAbs a => x <- evalf c a ;; Some (PrimFloat.abs x)
  end.

(* evaluate_expression: a property / variable value is a number or a string *)
Definition eval (c : ctx) (e : expr) : option pval :=
  match e with
  | EStr s => Some (PStr s)
  | EVar n =>
    match get c n with
    | Some (VNum x) => Some (PNum x)
    | Some (VStr s) => Some (PStr s)
    | _ => None
    end
  | EAttr o p =>
    match get c o with
    | Some (VElem ps) => get ps p
    | _ => None
    end
  | _ => x <- evalf c e ;; Some (PNum x)
  end.

(* ------------------------------------------------------------------ statements *)
Inductive target :=
| TName (n : string)                       (* plain target:  q1[k1] = e *)
| TWild (ty : string) (pat : string).      (* wildcard target:  quadrupole::q<star>[k1] = e ; a star matches any run of characters *)

Inductive stmt :=
| SVar (n : string) (e : expr)
| SDef (n : string) (parent : string) (ps : list (string * expr))
| SAssign (t : target) (p : string) (e : expr)
| SLine (n : string) (items : list string)
| SUse (n : string).

Definition star : ascii := "*"%char.
(* re.fullmatch(pattern.replace("*", ".*"), key) *)
Fixpoint glob_fuel (fuel : nat) (pat s : list ascii) : bool :=
  match fuel with
  | 0 => false
  | S f =>
    match pat with
    | [] => match s with [] => true | _ => false end
    | p :: pat' =>
      if Ascii.eqb p star then
        glob_fuel f pat' s || (match s with [] => false | _ :: s' => glob_fuel f pat s' end)
      else match s with
           | [] => false
           | c :: s' => Ascii.eqb p c && glob_fuel f pat' s'
           end
    end
  end.
Definition glob (pat s : string) : bool :=
  let p := list_ascii_of_string pat in
  let l := list_ascii_of_string s in
  glob_fuel (S (List.length p + List.length l)) p l.

Definition cv_of_pval (v : pval) : cval := match v with PNum x => VNum x | PStr s => VStr s end.

Definition has_type (v : cval) (ty : string) : bool :=
  match v with
  | VElem ps => match get ps "element_type" with Some (PStr t) => String.eqb t ty | _ => false end
  | _ => false
  end.

(* keys of the dict, each once (newest binding of a key is the live one) *)
Fixpoint keys {A} (l : list (string * A)) (seen : list string) : list string :=
  match l with
  | [] => []
  | (k, _) :: r => if existsb (String.eqb k) seen then keys r seen else k :: keys r (k :: seen)
  end.

Definition assign_one (c : ctx) (name p : string) (v : pval) : option ctx :=
  match get c name with
  | None => Some ((name, VElem [(p, v)]) :: c)                      (* context[name] = {} ; then the property *)
  | Some (VElem ps) => Some ((name, VElem ((p, v) :: ps)) :: c)
  | Some _ => None                                                  (* float / str / list does not support item assignment *)
  end.

Fixpoint assign_many (c : ctx) (names : list string) (p : string) (v : pval) : option ctx :=
  match names with
  | [] => Some c
  | n :: r => c' <- assign_one c n p v ;; assign_many c' r p v
  end.

Fixpoint eval_props (c : ctx) (base : props) (ps : list (string * expr)) : option props :=
  match ps with
  | [] => Some base
  | (k, e) :: r => v <- eval c e ;; eval_props c ((k, v) :: base) r
  end.

Definition step (c : ctx) (s : stmt) : option ctx :=
  match s with
  | SVar n e => v <- eval c e ;; Some ((n, cv_of_pval v) :: c)
  | SDef n parent ps =>
    match get c parent with
    | Some (VElem base) => ps' <- eval_props c base ps ;; Some ((n, VElem ps') :: c)      (* deepcopy(context[parent]) *)
    | Some other => match ps with [] => Some ((n, other) :: c) | _ => None end
    | None => ps' <- eval_props c [("element_type", PStr parent)] ps ;; Some ((n, VElem ps') :: c)
    end
  | SAssign (TName n) p e => v <- eval c e ;; assign_one c n p v
  | SAssign (TWild ty pat) p e =>
    let names := filter (fun k => glob pat k && match get c k with Some v => has_type v ty | None => false end) (keys c []) in
    v <- eval c e ;; assign_many c names p v
  | SLine n items => Some ((n, VLine items) :: c)
  | SUse n => Some (("__use__", VStr n) :: c)
  end.

Fixpoint run (c : ctx) (ss : list stmt) : option ctx :=
  match ss with
  | [] => Some c
  | s :: r => c' <- step c s ;; run c' r
  end.

(* the constants of parse_lines (scipy.constants values, written as the binary64 they are) *)
Definition c_pi : float := 0x1.921fb54442d18p+1%float.
Definition ctx0 : ctx :=
  [ ("pi", VNum c_pi);
    ("twopi", VNum (PrimFloat.mul two c_pi));
    ("c_light", VNum 299792458%float);
    ("emass", VNum 0x1.0be91e4085197p-11%float);          (* 0.51099895069 * 1e-3 *)
    ("m_electron", VNum 0x1.f305bcd81adebp+18%float);     (* 0.51099895069 * 1e6 *)
    ("raddeg", VNum 0x1.1df46a2529d39p-6%float) ].        (* pi / 180 *)

(* ------------------------------------------------------------------ converted lattice *)
Inductive ctree :=
| CLeaf (cls : string) (name : string) (params : list (string * pval))
| CSeg (name : option string) (children : list ctree).      (* None = auto-generated name (unnamed_element_N) *)

Inductive flavour := Elegant | Bmad.

Definition mem (s : string) (l : list string) : bool := existsb (String.eqb s) l.

(* validate_understood_properties with plain names *)
Definition understood (names : list string) (ps : props) : bool :=
  forallb (fun kv => mem (fst kv) names) ps.

Definition req (ps : props) (k : string) : option float :=
  match get ps k with Some (PNum x) => Some x | _ => None end.
Definition opt (ps : props) (k : string) (d : float) : option float :=
  match get ps k with None => Some d | Some (PNum x) => Some x | Some (PStr _) => None end.
Definition has (ps : props) (k : string) : bool := match get ps k with Some _ => true | None => false end.

Definition f32 (x : float) : pval := PNum (round32 x).
Definition guard (b : bool) : option unit := if b then Some tt else None.

Definition drift (name : string) (l : float) : ctree := CLeaf "Drift" name [("length", f32 l)].
Definition aperture (name : string) (xm ym : float) (shape : string) : ctree :=
  CLeaf "Aperture" name [("x_max", f32 xm); ("y_max", f32 ym); ("shape", PStr shape)].
Definition dipole (cls name : string) (l ang k1 e1 e2 tilt gap fint fintx : float) : ctree :=
  CLeaf cls name [("length", f32 l); ("angle", f32 ang); ("k1", f32 k1); ("e1", f32 e1); ("e2", f32 e2);
                  ("tilt", f32 tilt); ("gap", f32 gap); ("fint", f32 fint); ("fintx", f32 fintx)].
Definition cavity (cls name : string) (l v ph fr : float) : ctree :=
  CLeaf cls name [("length", f32 l); ("voltage", f32 v); ("phase", f32 ph); ("frequency", f32 fr)].
Definition corrector (cls name : string) (l a : float) : ctree :=
  CLeaf cls name [("length", f32 l); ("angle", f32 a)].

Definition half (x : float) : float := PrimFloat.div x two.
Definition ninety : float := 90%float.

(* --- Elegant: elegant.convert_element *)
Definition digit16 (c : ascii) : bool := let n := nat_of_ascii c in (49 <=? n)%nat && (n <=? 54)%nat.   (* '1'..'6' *)
Definition ematrix_key (k : string) : bool :=
  mem k ["element_type"; "l"; "order"; "group"] ||
  match list_ascii_of_string k with
  | [c; d] => Ascii.eqb c "c"%char && digit16 d
  | [r; i; j] => Ascii.eqb r "r"%char && digit16 i && digit16 j
  | _ => false
  end.
Definition idx (i : nat) : string := String (ascii_of_nat (49 + i)) EmptyString.
Definition midx (i : nat) : string := String (ascii_of_nat (48 + i)) EmptyString.

(* entry (i, j) of the 7x7 matrix, i, j = 0..6 *)
Definition ematrix_entry (ps : props) (i j : nat) : option float :=
  if (i <? 6)%nat then
    if (j <? 6)%nat then opt ps ("r" ++ idx i ++ idx j) zero
    else opt ps ("c" ++ idx i) zero
  else Some zero.                                           (* the code leaves the whole 7th row 0, R[6,6] included *)

Fixpoint collect {A} (l : list (option A)) : option (list A) :=
  match l with
  | [] => Some []
  | None :: _ => None
  | Some a :: r => r' <- collect r ;; Some (a :: r')
  end.

Definition ematrix_params (ps : props) : option (list (string * pval)) :=
  collect (map (fun ij => x <- ematrix_entry ps (fst ij) (snd ij) ;; Some ("m" ++ midx (fst ij) ++ midx (snd ij), f32 x))
               (list_prod (seq 0 7) (seq 0 7))).

Definition rfcw_names : list string :=
  ["element_type"; "l"; "phase"; "volt"; "freq"; "change_p0"; "end1_focus"; "end2_focus"; "cell_length"; "zwakefile";
   "trwakefile"; "tcolumn"; "wxcolumn"; "wycolumn"; "wzcolumn"; "interpolate"; "n_kicks"; "smoothing"; "zwake"; "trwake";
   "lsc"; "lsc_bins"; "lsc_high_frequency_cutoff0"; "lsc_high_frequency_cutoff1"; "group"].
Definition csrcsben_names : list string :=
  ["element_type"; "l"; "angle"; "e1"; "e2"; "edge1_effects"; "edge2_effects"; "tilt"; "hgap"; "fint"; "sg_halfwidth";
   "sg_order"; "steady_state"; "bins"; "n_kicks"; "integration_order"; "isr"; "csr"; "group"].

Definition f32add (a b : float) : float := round32 (PrimFloat.add a b).   (* a binary32 addition (exact in binary64, then rounded) *)

Definition convert_elegant (name ty : string) (ps : props) : option ctree :=
  if String.eqb ty "sole" then
    _ <- guard (understood ["element_type"; "l"; "group"] ps) ;; l <- req ps "l" ;;
    Some (CLeaf "Solenoid" name [("length", f32 l); ("k", f32 zero)])
  else if mem ty ["hkick"; "hkic"] then
    _ <- guard (understood ["element_type"; "l"; "kick"; "group"] ps) ;; l <- opt ps "l" zero ;; a <- opt ps "kick" zero ;;
    Some (corrector "HorizontalCorrector" name l a)
  else if mem ty ["vkick"; "vkic"] then
    _ <- guard (understood ["element_type"; "l"; "kick"; "group"] ps) ;; l <- opt ps "l" zero ;; a <- opt ps "kick" zero ;;
    Some (corrector "VerticalCorrector" name l a)
  else if String.eqb ty "mark" then
    _ <- guard (understood ["element_type"; "group"] ps) ;; Some (CLeaf "Marker" name [])
  else if mem ty ["kick"; "drift"; "drif"] then
    _ <- guard (understood ["element_type"; "l"; "group"] ps) ;; l <- opt ps "l" zero ;; Some (drift name l)
  else if mem ty ["csrdrift"; "csrdrif"] then
    _ <- guard (understood ["element_type"; "l"; "group"; "use_stupakov"; "n_kicks"; "csr"] ps) ;; l <- opt ps "l" zero ;;
    Some (drift name l)
  else if mem ty ["lscdrift"; "lscdrif"] then
    _ <- guard (understood ["element_type"; "l"; "group"; "interpolate"; "smoothing"; "bins"; "high_frequency_cutoff0";
                            "high_frequency_cutoff1"; "lsc"] ps) ;; l <- opt ps "l" zero ;;
    Some (drift name l)
  else if mem ty ["ecol"; "rcol"] then
    _ <- guard (understood ["element_type"; "l"; "x_max"; "y_max"] ps) ;;
    l <- opt ps "l" zero ;; xm <- opt ps "x_max" infinity ;; ym <- opt ps "y_max" infinity ;;
    Some (CSeg (Some (name ++ "_segment"))
               [drift (name ++ "_drift") l;
                aperture (name ++ "_aperture") xm ym (if String.eqb ty "ecol" then "elliptical" else "rectangular")])
  else if String.eqb ty "quad" then
    _ <- guard (understood ["element_type"; "l"; "k1"; "tilt"; "group"] ps) ;;
    l <- req ps "l" ;; k1 <- req ps "k1" ;; t <- opt ps "tilt" zero ;;
    Some (CLeaf "Quadrupole" name [("length", f32 l); ("k1", f32 k1); ("tilt", f32 t)])
  else if String.eqb ty "sext" then
    l <- req ps "l" ;; Some (drift name l)
  else if String.eqb ty "moni" then
    _ <- guard (understood ["element_type"; "group"; "l"] ps) ;;
    if has ps "l" then
      l <- req ps "l" ;;
      Some (CSeg (Some (name ++ "_segment"))
                 [drift (name ++ "_predrift") (half l); CLeaf "BPM" name []; drift (name ++ "_postdrift") (half l)])
    else Some (CLeaf "BPM" name [])
  else if String.eqb ty "ematrix" then
    _ <- guard (forallb (fun kv => ematrix_key (fst kv)) ps) ;;
    o <- opt ps "order" one ;; _ <- guard (PrimFloat.eqb o one) ;;
    m <- ematrix_params ps ;; l <- req ps "l" ;;
    Some (CLeaf "CustomTransferMap" name (("length", f32 l) :: m))
  else if String.eqb ty "rfca" then
    _ <- guard (understood ["element_type"; "l"; "phase"; "volt"; "freq"; "change_p0"; "end1_focus"; "end2_focus";
                            "body_focus_model"; "group"] ps) ;;
    l <- req ps "l" ;; ph <- req ps "phase" ;; v <- req ps "volt" ;; f <- req ps "freq" ;;
    Some (cavity "Cavity" name l v (PrimFloat.sub ph ninety) f)
  else if String.eqb ty "rfcw" then
    _ <- guard (understood rfcw_names ps) ;;
    l <- req ps "l" ;; ph <- req ps "phase" ;; v <- req ps "volt" ;; f <- req ps "freq" ;;
    Some (cavity "Cavity" name l v (PrimFloat.sub ph ninety) f)
  else if String.eqb ty "rfdf" then
    _ <- guard (understood ["element_type"; "l"; "phase"; "voltage"; "frequency"; "group"] ps) ;;
    l <- req ps "l" ;; ph <- req ps "phase" ;; v <- req ps "voltage" ;; f <- req ps "frequency" ;;
    Some (cavity "TransverseDeflectingCavity" name l v (PrimFloat.sub ph ninety) f)
  else if String.eqb ty "sben" then
    _ <- guard (understood ["element_type"; "l"; "angle"; "k1"; "e1"; "e2"; "tilt"; "group"] ps) ;;
    l <- req ps "l" ;; a <- opt ps "angle" zero ;; k1 <- opt ps "k1" zero ;; e1 <- opt ps "e1" zero ;;
    e2 <- opt ps "e2" zero ;; t <- opt ps "tilt" zero ;;
    Some (dipole "Dipole" name l a k1 e1 e2 t zero zero zero)
  else if String.eqb ty "rben" then
    _ <- guard (understood ["element_type"; "l"; "angle"; "e1"; "e2"; "tilt"; "group"] ps) ;;
    l <- req ps "l" ;; a <- opt ps "angle" zero ;; e1 <- opt ps "e1" zero ;; e2 <- opt ps "e2" zero ;; t <- opt ps "tilt" zero ;;
    (* RBend.__init__: dipole_e = rbend_e + angle / 2, computed on the binary32 tensors *)
    Some (dipole "RBend" name l a zero (f32add (round32 e1) (half (round32 a))) (f32add (round32 e2) (half (round32 a))) t zero zero zero)
  else if String.eqb ty "csrcsben" then
    _ <- guard (understood csrcsben_names ps) ;;
    l <- req ps "l" ;; a <- opt ps "angle" zero ;; k1 <- opt ps "k1" zero ;; e1 <- opt ps "e1" zero ;;
    e2 <- opt ps "e2" zero ;; t <- opt ps "tilt" zero ;;
    Some (dipole "Dipole" name l a k1 e1 e2 t zero zero zero)
  else if String.eqb ty "watch" then
    _ <- guard (understood ["element_type"; "group"; "filename"] ps) ;; Some (CLeaf "Marker" name [])
  else if mem ty ["charge"; "wake"] then Some (CLeaf "Marker" name [])
  else l <- opt ps "l" zero ;; Some (drift name l).                (* unknown type: Drift (with a printed warning) *)

(* --- Bmad: bmad.convert_element *)
Definition rad2deg : float := 0x1.ca5dc1a63c1f8p+5%float.            (* numpy: 180.0 / pi *)
Definition bmad_phase (phi0 : float) : float :=
  PrimFloat.opp (PrimFloat.mul (PrimFloat.mul (PrimFloat.mul phi0 two) c_pi) rad2deg).   (* -np.degrees(phi0 * 2 * np.pi) *)

Definition convert_bmad (name ty : string) (ps : props) : option ctree :=
  if String.eqb ty "marker" then
    _ <- guard (understood ["element_type"; "alias"; "type"; "sr_wake"; "sr_wake%scale_with_length"; "sr_wake%amp_scale"] ps) ;;
    Some (CLeaf "Marker" name [])
  else if mem ty ["monitor"; "instrument"] then
    _ <- guard (understood ["element_type"; "alias"; "type"; "l"] ps) ;;
    if has ps "l" then l <- req ps "l" ;; Some (drift name l) else Some (CLeaf "Marker" name [])
  else if String.eqb ty "pipe" then
    _ <- guard (understood ["element_type"; "alias"; "type"; "l"; "descrip"] ps) ;; l <- req ps "l" ;; Some (drift name l)
  else if String.eqb ty "drift" then
    _ <- guard (understood ["element_type"; "l"; "type"; "descrip"] ps) ;; l <- req ps "l" ;; Some (drift name l)
  else if String.eqb ty "hkicker" then
    _ <- guard (understood ["element_type"; "type"; "alias"] ps) ;; l <- opt ps "l" zero ;; a <- opt ps "kick" zero ;;
    Some (corrector "HorizontalCorrector" name l a)
  else if String.eqb ty "vkicker" then
    _ <- guard (understood ["element_type"; "type"; "alias"] ps) ;; l <- opt ps "l" zero ;; a <- opt ps "kick" zero ;;
    Some (corrector "VerticalCorrector" name l a)
  else if String.eqb ty "sbend" then
    _ <- guard (understood ["element_type"; "alias"; "type"; "hgap"; "l"; "angle"; "e1"; "e2"; "fint"; "fintx"; "fringe_type";
                            "ref_tilt"; "g"; "dg"] ps) ;;
    l <- req ps "l" ;; hg <- opt ps "hgap" zero ;; a <- opt ps "angle" zero ;; e1 <- req ps "e1" ;; e2 <- opt ps "e2" zero ;;
    t <- opt ps "ref_tilt" zero ;; fi <- opt ps "fint" zero ;; fx <- opt ps "fintx" fi ;;
    Some (dipole "Dipole" name l a zero e1 e2 t (PrimFloat.mul two hg) fi fx)
  else if String.eqb ty "quadrupole" then
    _ <- guard (understood ["element_type"; "l"; "k1"; "type"; "aperture"; "alias"; "tilt"] ps) ;;
    l <- req ps "l" ;; k1 <- req ps "k1" ;; t <- opt ps "tilt" zero ;;
    Some (CLeaf "Quadrupole" name [("length", f32 l); ("k1", f32 k1); ("tilt", f32 t)])
  else if String.eqb ty "solenoid" then
    _ <- guard (understood ["element_type"; "l"; "ks"; "alias"] ps) ;; l <- req ps "l" ;; k <- req ps "ks" ;;
    Some (CLeaf "Solenoid" name [("length", f32 l); ("k", f32 k)])
  else if String.eqb ty "lcavity" then
    _ <- guard (understood ["element_type"; "l"; "type"; "rf_frequency"; "voltage"; "phi0"; "sr_wake"; "cavity_type"; "alias"] ps) ;;
    l <- req ps "l" ;; v <- opt ps "voltage" zero ;; p <- opt ps "phi0" zero ;; f <- req ps "rf_frequency" ;;
    Some (cavity "Cavity" name l v (bmad_phase p) f)
  else if mem ty ["rcollimator"; "ecollimator"] then
    _ <- guard (understood ["element_type"; "l"; "alias"; "type"; "x_limit"; "y_limit"] ps) ;;
    l <- opt ps "l" zero ;; xm <- opt ps "x_limit" infinity ;; ym <- opt ps "y_limit" infinity ;;
    Some (CSeg (if String.eqb ty "rcollimator" then Some name else None)        (* the ecollimator Segment gets no name *)
               [drift (name ++ "_drift") l;
                aperture (name ++ "_aperture") xm ym (if String.eqb ty "ecollimator" then "elliptical" else "rectangular")])
  else if String.eqb ty "wiggler" then
    _ <- guard (understood ["element_type"; "type"; "l_period"; "n_period"; "b_max"; "l"; "alias"; "tilt"; "ds_step"] ps) ;;
    l <- req ps "l" ;; Some (CLeaf "Undulator" name [("length", f32 l)])
  else if String.eqb ty "patch" then
    _ <- guard (understood ["element_type"; "tilt"] ps) ;; l <- opt ps "l" zero ;; Some (drift name l)
  else l <- opt ps "l" zero ;; Some (drift name l).

Definition convert (fl : flavour) (name : string) (ps : props) : option ctree :=
  match get ps "element_type" with
  | Some (PStr ty) => match fl with Elegant => convert_elegant name ty ps | Bmad => convert_bmad name ty ps end
  | Some (PNum _) => l <- opt ps "l" zero ;; Some (drift name l)  (* a numeric "element_type" equals no type name: the Drift fallback
                                                                  (found by the converter translator tie, Gen/ConvGenEquiv.v) *)
  | None => None                                               (* KeyError *)
  end.

(* ------------------------------------------------------------------ line expansion (convert_element on a list) *)
Fixpoint expand (fuel : nat) (fl : flavour) (c : ctx) (name : string) : option ctree :=
  match fuel with
  | 0 => None                                                  (* RecursionError: a line that (indirectly) contains itself *)
  | S f =>
    match get c name with
    | Some (VLine items) => ch <- collect (map (expand f fl c) items) ;; Some (CSeg (Some name) ch)
    | Some (VElem ps) => convert fl name ps
    | _ => None                                                (* KeyError (undefined name) / ValueError (a number or string) *)
    end
  end.

Definition root_of (fl : flavour) (c : ctx) (elegant_root : string) : option string :=
  match fl with
  | Elegant => Some elegant_root
  | Bmad => match get c "__use__" with Some (VStr n) => Some n | _ => None end
  end.

(* the whole importer from the statement list on; [fuel] bounds the nesting depth of lines *)
Definition denote_fuel (fuel : nat) (fl : flavour) (elegant_root : string) (ss : list stmt) : option ctree :=
  c <- run ctx0 ss ;; r <- root_of fl c elegant_root ;; expand fuel fl c r.

Definition denote (fl : flavour) (elegant_root : string) (ss : list stmt) : option ctree :=
  denote_fuel (S (List.length ss)) fl elegant_root ss.

(* ------------------------------------------------------------------ observables *)
Fixpoint leaves (t : ctree) : list ctree :=
  match t with
  | CLeaf _ _ _ => [t]
  | CSeg _ ch => flat_map leaves ch
  end.

Definition leaf_length (t : ctree) : float :=
  match t with
  | CLeaf _ _ ps => match get ps "length" with Some (PNum x) => x | _ => zero end
  | CSeg _ _ => zero
  end.

(* ------------------------------------------------------------------ comparison with an observation (exact) *)
Definition pval_eqb (a b : pval) : bool :=
  match a, b with
  | PNum x, PNum y => PrimFloat.eqb x y
  | PStr s, PStr t => String.eqb s t
  | _, _ => false
  end.
Fixpoint params_eqb (a b : list (string * pval)) : bool :=
  match a, b with
  | [], [] => true
  | (k, v) :: a', (k', v') :: b' => String.eqb k k' && pval_eqb v v' && params_eqb a' b'
  | _, _ => false
  end.
Definition oname_eqb (a b : option string) : bool :=
  match a, b with Some x, Some y => String.eqb x y | None, None => true | _, _ => false end.
Fixpoint ctree_eqb (a b : ctree) : bool :=
  match a, b with
  | CLeaf c n p, CLeaf c' n' p' => String.eqb c c' && String.eqb n n' && params_eqb p p'
  | CSeg n ch, CSeg n' ch' =>
    oname_eqb n n' &&
    (fix go (x y : list ctree) : bool :=
       match x, y with
       | [], [] => true
       | u :: x', v :: y' => ctree_eqb u v && go x' y'
       | _, _ => false
       end) ch ch'
  | _, _ => false
  end.

(* a correspondence case: flavour, root name handed to from_elegant, program, observation (None = the import raised) *)
Definition c13_check (case : flavour * string * list stmt * option ctree) : bool :=
  match case with
  | (fl, root, ss, obs) =>
    match denote fl root ss, obs with
    | Some t, Some o => ctree_eqb t o
    | None, None => true
    | _, _ => false
    end
  end.

(* ================================================================== the Bmad converter after the repairs of F18 (two), F42, F43
   [convert_bmad] above stays: it is the transcription of bmad.convert_element as it was, and the _refuted lemmas are about it.
   [convert_bmad_v fx] is the transcription with the four repairs switched on or off independently; the harness sets every
   switch from the status of its finding in known_findings.json (known -> false, fixed -> true).
   LatticeLangProofs.convert_bmad_v_no_fixes: with all switches off it IS [convert_bmad]. *)
Record fixes := mk_fixes {
  fx_g : bool;        (* F18 (sbend):    angle = bmad_parsed["angle"] if "angle" in bmad_parsed else bmad_parsed.get("g", 0.0) * bmad_parsed["l"] *)
  fx_kick : bool;     (* F18 (kickers):  "l" and "kick" are understood properties of hkicker / vkicker *)
  fx_ecol : bool;     (* F42:            the ecollimator Segment is built with name=name *)
  fx_e1 : bool        (* F43:            dipole_e1 = bmad_parsed.get("e1", 0.0) *)
}.
Definition no_fixes : fixes := mk_fixes false false false false.
Definition all_fixes : fixes := mk_fixes true true true true.

(* the bend angle of a Bmad sbend: [angle] when given, else g * l (binary64 product, before the binary32 cast) *)
Definition sbend_angle (g_fixed : bool) (ps : props) (l : float) : option float :=
  if g_fixed && negb (has ps "angle") then g <- opt ps "g" zero ;; Some (PrimFloat.mul g l)
  else opt ps "angle" zero.

Definition kicker_names (kick_fixed : bool) : list string :=
  if kick_fixed then ["element_type"; "type"; "alias"; "l"; "kick"] else ["element_type"; "type"; "alias"].

Definition convert_bmad_v (fx : fixes) (name ty : string) (ps : props) : option ctree :=
  if String.eqb ty "marker" then
    _ <- guard (understood ["element_type"; "alias"; "type"; "sr_wake"; "sr_wake%scale_with_length"; "sr_wake%amp_scale"] ps) ;;
    Some (CLeaf "Marker" name [])
  else if mem ty ["monitor"; "instrument"] then
    _ <- guard (understood ["element_type"; "alias"; "type"; "l"] ps) ;;
    if has ps "l" then l <- req ps "l" ;; Some (drift name l) else Some (CLeaf "Marker" name [])
  else if String.eqb ty "pipe" then
    _ <- guard (understood ["element_type"; "alias"; "type"; "l"; "descrip"] ps) ;; l <- req ps "l" ;; Some (drift name l)
  else if String.eqb ty "drift" then
    _ <- guard (understood ["element_type"; "l"; "type"; "descrip"] ps) ;; l <- req ps "l" ;; Some (drift name l)
  else if String.eqb ty "hkicker" then
    _ <- guard (understood (kicker_names (fx_kick fx)) ps) ;; l <- opt ps "l" zero ;; a <- opt ps "kick" zero ;;
    Some (corrector "HorizontalCorrector" name l a)
  else if String.eqb ty "vkicker" then
    _ <- guard (understood (kicker_names (fx_kick fx)) ps) ;; l <- opt ps "l" zero ;; a <- opt ps "kick" zero ;;
    Some (corrector "VerticalCorrector" name l a)
  else if String.eqb ty "sbend" then
    _ <- guard (understood ["element_type"; "alias"; "type"; "hgap"; "l"; "angle"; "e1"; "e2"; "fint"; "fintx"; "fringe_type";
                            "ref_tilt"; "g"; "dg"] ps) ;;
    l <- req ps "l" ;; hg <- opt ps "hgap" zero ;; a <- sbend_angle (fx_g fx) ps l ;;
    e1 <- (if fx_e1 fx then opt ps "e1" zero else req ps "e1") ;; e2 <- opt ps "e2" zero ;;
    t <- opt ps "ref_tilt" zero ;; fi <- opt ps "fint" zero ;; fx' <- opt ps "fintx" fi ;;
    Some (dipole "Dipole" name l a zero e1 e2 t (PrimFloat.mul two hg) fi fx')
  else if String.eqb ty "quadrupole" then
    _ <- guard (understood ["element_type"; "l"; "k1"; "type"; "aperture"; "alias"; "tilt"] ps) ;;
    l <- req ps "l" ;; k1 <- req ps "k1" ;; t <- opt ps "tilt" zero ;;
    Some (CLeaf "Quadrupole" name [("length", f32 l); ("k1", f32 k1); ("tilt", f32 t)])
  else if String.eqb ty "solenoid" then
    _ <- guard (understood ["element_type"; "l"; "ks"; "alias"] ps) ;; l <- req ps "l" ;; k <- req ps "ks" ;;
    Some (CLeaf "Solenoid" name [("length", f32 l); ("k", f32 k)])
  else if String.eqb ty "lcavity" then
    _ <- guard (understood ["element_type"; "l"; "type"; "rf_frequency"; "voltage"; "phi0"; "sr_wake"; "cavity_type"; "alias"] ps) ;;
    l <- req ps "l" ;; v <- opt ps "voltage" zero ;; p <- opt ps "phi0" zero ;; f <- req ps "rf_frequency" ;;
    Some (cavity "Cavity" name l v (bmad_phase p) f)
  else if mem ty ["rcollimator"; "ecollimator"] then
    _ <- guard (understood ["element_type"; "l"; "alias"; "type"; "x_limit"; "y_limit"] ps) ;;
    l <- opt ps "l" zero ;; xm <- opt ps "x_limit" infinity ;; ym <- opt ps "y_limit" infinity ;;
    Some (CSeg (if fx_ecol fx || String.eqb ty "rcollimator" then Some name else None)
               [drift (name ++ "_drift") l;
                aperture (name ++ "_aperture") xm ym (if String.eqb ty "ecollimator" then "elliptical" else "rectangular")])
  else if String.eqb ty "wiggler" then
    _ <- guard (understood ["element_type"; "type"; "l_period"; "n_period"; "b_max"; "l"; "alias"; "tilt"; "ds_step"] ps) ;;
    l <- req ps "l" ;; Some (CLeaf "Undulator" name [("length", f32 l)])
  else if String.eqb ty "patch" then
    _ <- guard (understood ["element_type"; "tilt"] ps) ;; l <- opt ps "l" zero ;; Some (drift name l)
  else l <- opt ps "l" zero ;; Some (drift name l).

Definition convert_bmad_fixed : string -> string -> props -> option ctree := convert_bmad_v all_fixes.

Definition convert_v (fx : fixes) (fl : flavour) (name : string) (ps : props) : option ctree :=
  match get ps "element_type" with
  | Some (PStr ty) => match fl with Elegant => convert_elegant name ty ps | Bmad => convert_bmad_v fx name ty ps end
  | Some (PNum _) => l <- opt ps "l" zero ;; Some (drift name l)
  | None => None
  end.

Fixpoint expand_v (fx : fixes) (fuel : nat) (fl : flavour) (c : ctx) (name : string) : option ctree :=
  match fuel with
  | 0 => None
  | S f =>
    match get c name with
    | Some (VLine items) => ch <- collect (map (expand_v fx f fl c) items) ;; Some (CSeg (Some name) ch)
    | Some (VElem ps) => convert_v fx fl name ps
    | _ => None
    end
  end.

Definition denote_fuel_v (fx : fixes) (fuel : nat) (fl : flavour) (elegant_root : string) (ss : list stmt) : option ctree :=
  c <- run ctx0 ss ;; r <- root_of fl c elegant_root ;; expand_v fx fuel fl c r.

Definition denote_v (fx : fixes) (fl : flavour) (elegant_root : string) (ss : list stmt) : option ctree :=
  denote_fuel_v fx (S (List.length ss)) fl elegant_root ss.

Definition c13_check_v (fx : fixes) (case : flavour * string * list stmt * option ctree) : bool :=
  match case with
  | (fl, root, ss, obs) =>
    match denote_v fx fl root ss, obs with
    | Some t, Some o => ctree_eqb t o
    | None, None => true
    | _, _ => false
    end
  end.
