(** Parse/LatticeLangFlat.v -- Segment.flattened() on the converted tree (cheetah/accelerator/segment.py), transcribed as the
    code is written: a sub-segment contributes the elements of ITS OWN flattened copy, any other element itself; the result keeps
    the name of the segment.  Model and exact comparison only; the laws are in LatticeLangFlatProofs.v. *)
From Coq Require Import List String Bool.
From Cheetah Require Import Parse.LatticeLang.
Import ListNotations.

Definition children (t : ctree) : list ctree := match t with CSeg _ ch => ch | CLeaf _ _ _ => [] end.

(* def flattened(self): for element in self.elements: if isinstance(element, Segment): += element.flattened().elements
                                                       else: append(element)  ; Segment(elements=..., name=self.name) *)
Fixpoint flattened (t : ctree) : ctree :=
  match t with
  | CLeaf _ _ _ => t
  | CSeg n ch =>
    CSeg n (flat_map (fun e => match e with CSeg _ _ => children (flattened e) | CLeaf _ _ _ => [e] end) ch)
  end.

(* nesting depth of segments: a leaf 0, a segment 1 + the deepest child *)
Fixpoint seg_depth (t : ctree) : nat :=
  match t with
  | CLeaf _ _ _ => 0
  | CSeg _ ch => S (fold_right Nat.max 0 (map seg_depth ch))
  end.

(* a correspondence case with both observations: the imported tree AND imported.flattened() (None = the import raised) *)
Definition c13_check_flat_v (fx : fixes) (case : flavour * string * list stmt * option ctree * option ctree) : bool :=
  match case with
  | (fl, root, ss, obs, fobs) =>
    match denote_v fx fl root ss, obs, fobs with
    | Some t, Some o, Some fo => ctree_eqb t o && ctree_eqb (flattened t) fo
    | None, None, None => true
    | _, _, _ => false
    end
  end.
