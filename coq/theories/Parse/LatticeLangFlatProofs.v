(** Parse/LatticeLangFlatProofs.v -- laws of Segment.flattened() (Parse/LatticeLangFlat.v): its elements are the in-order
    traversal of the tree at ANY nesting depth, no sub-segment is left over, flattening twice changes nothing. *)
From Coq Require Import List String Bool PrimFloat Lia.
From Cheetah Require Import Parse.LatticeLang Parse.LatticeLangProofs Parse.LatticeLangFlat.
Import ListNotations.

Definition is_leaf (t : ctree) : bool := match t with CLeaf _ _ _ => true | CSeg _ _ => false end.

Lemma flattened_children_leaves : forall t, is_leaf t = false -> children (flattened t) = leaves t.
Proof.
  induction t as [c n p|n ch IH] using ctree_ind2; intros H; [discriminate|].
  simpl. clear H. induction IH as [|x r Hx _ IHr]; simpl; [reflexivity|].
  rewrite IHr. f_equal. destruct x as [c' n' p'|n' ch']; [reflexivity|]. now apply Hx.
Qed.

(* the flattened copy of a segment: same name, elements = the leaves of the tree in order (whatever the nesting depth) *)
Theorem flattened_is_leaves : forall n ch, flattened (CSeg n ch) = CSeg n (leaves (CSeg n ch)).
Proof.
  intros n ch. generalize (flattened_children_leaves (CSeg n ch) eq_refl). simpl. intros E. now rewrite E.
Qed.

Lemma leaves_all_leaf : forall t, forallb is_leaf (leaves t) = true.
Proof.
  induction t as [c n p|n ch IH] using ctree_ind2; [reflexivity|].
  simpl. induction IH as [|x r Hx _ IHr]; simpl; [reflexivity|]. now rewrite forallb_app, Hx, IHr.
Qed.

Theorem flattened_no_subsegment : forall n ch, forallb is_leaf (children (flattened (CSeg n ch))) = true.
Proof. intros n ch. rewrite flattened_is_leaves. apply leaves_all_leaf. Qed.

Lemma flat_map_leaves_of_leaves : forall l, forallb is_leaf l = true -> flat_map leaves l = l.
Proof.
  induction l as [|x r IH]; simpl; [reflexivity|]. intros H. apply andb_prop in H. destruct H as [Hx Hr].
  destruct x; [|discriminate]. simpl. now rewrite IH.
Qed.

Theorem flattened_idempotent : forall t, flattened (flattened t) = flattened t.
Proof.
  destruct t as [c n p|n ch]; [reflexivity|].
  rewrite flattened_is_leaves. rewrite flattened_is_leaves. f_equal.
  change (leaves (CSeg n (leaves (CSeg n ch)))) with (flat_map leaves (leaves (CSeg n ch))).
  apply flat_map_leaves_of_leaves, leaves_all_leaf.
Qed.

(* the imported segment, flattened, lists the in-order expansion [flat] of the selected line *)
Theorem flattened_expand_is_inorder : forall fuel fl c name items t ls,
  get c name = Some (VLine items) -> expand fuel fl c name = Some t -> flat fuel fl c name = Some ls ->
  flattened t = CSeg (Some name) ls.
Proof.
  intros fuel fl c name items t ls G E F.
  pose proof (expand_is_inorder fuel fl c name) as I. rewrite E, F in I. simpl in I. inversion I; subst ls.
  destruct fuel as [|f]; [discriminate|]. simpl in E. rewrite G in E.
  destruct (collect (map (expand f fl c) items)) as [ch|]; [|discriminate]. inversion E; subst t.
  apply flattened_is_leaves.
Qed.

(* what a one-level splice (elements of the sub-segment taken as they are) would give differs at depth 3 *)
Definition splice_once (t : ctree) : ctree :=
  match t with
  | CLeaf _ _ _ => t
  | CSeg n ch => CSeg n (flat_map (fun e => match e with CSeg _ ch' => ch' | CLeaf _ _ _ => [e] end) ch)
  end.

Lemma splice_once_differs :
  let q := CLeaf "Marker" "q" [] in
  let ring := CSeg (Some "ring") [CSeg (Some "arc") [CSeg (Some "cell") [q]]] in
  ctree_eqb (splice_once ring) (flattened ring) = false /\ flattened ring = CSeg (Some "ring") [q].
Proof. split; reflexivity. Qed.
