(** Parse/LatticeLangProofs.v -- laws of the lattice-language semantics of Parse/LatticeLang.v. *)
From Coq Require Import List String Ascii Bool ZArith PrimFloat Lia.
From Cheetah Require Import Parse.LatticeLang.
Import ListNotations.
Open Scope string_scope.

(* ------------------------------------------------------------------ association lists *)
Lemma get_cons_eq : forall A k (v : A) l, get ((k, v) :: l) k = Some v.
Proof. intros. simpl. now rewrite String.eqb_refl. Qed.

Lemma get_cons_neq : forall A k k' (v : A) l, k' <> k -> get ((k', v) :: l) k = get l k.
Proof.
  intros. simpl. destruct (String.eqb k' k) eqn:E; [apply String.eqb_eq in E; contradiction | reflexivity].
Qed.

(* ------------------------------------------------------------------ collect *)
Lemma collect_map_ext : forall A B (f g : A -> option B) l,
  (forall x, In x l -> f x = g x) -> collect (map f l) = collect (map g l).
Proof.
  induction l as [|a l IH]; intros H; simpl; [reflexivity|].
  rewrite (H a (or_introl eq_refl)). rewrite IH; [reflexivity|]. intros x Hx. apply H. now right.
Qed.

Lemma collect_map_mono : forall A B (f g : A -> option B) l r,
  (forall x t, In x l -> f x = Some t -> g x = Some t) ->
  collect (map f l) = Some r -> collect (map g l) = Some r.
Proof.
  induction l as [|a l IH]; intros r H E; simpl in *; [exact E|].
  destruct (f a) as [t|] eqn:Fa; [|discriminate].
  rewrite (H a t (or_introl eq_refl) Fa).
  destruct (collect (map f l)) as [r'|] eqn:C; [|discriminate].
  rewrite (IH r'); [exact E| |reflexivity]. intros x t' Hx. apply H. now right.
Qed.

(* ------------------------------------------------------------------ fuel *)
Theorem expand_fuel_mono : forall n fl c name t,
  expand n fl c name = Some t -> forall m, n <= m -> expand m fl c name = Some t.
Proof.
  induction n as [|n IH]; intros fl c name t H m Hm; simpl in H; [discriminate|].
  destruct m as [|m]; [lia|]. simpl.
  destruct (get c name) as [[x|s|ps|items]|]; try discriminate; try exact H.
  destruct (collect (map (expand n fl c) items)) as [ch|] eqn:C; [|discriminate].
  rewrite (collect_map_mono _ _ (expand n fl c) (expand m fl c) items ch); [exact H| |exact C].
  intros x t' _ Hx. apply (IH fl c x t' Hx). lia.
Qed.

(* a context is acyclic when line membership strictly decreases some rank *)
Definition ranked (c : ctx) (rk : string -> nat) : Prop :=
  forall n items i, get c n = Some (VLine items) -> In i items -> rk i < rk n.

Theorem expand_fuel_suffices : forall c rk fl, ranked c rk ->
  forall n name, rk name < n -> forall m, rk name < m -> expand n fl c name = expand m fl c name.
Proof.
  intros c rk fl R. induction n as [|n IH]; intros name Hn m Hm; [lia|].
  destruct m as [|m]; [lia|]. simpl.
  destruct (get c name) as [[x|s|ps|items]|] eqn:G; try reflexivity.
  rewrite (collect_map_ext _ _ (expand n fl c) (expand m fl c) items); [reflexivity|].
  intros i Hi. pose proof (R name items i G Hi). apply IH; lia.
Qed.

(* ------------------------------------------------------------------ expansion = in-order traversal *)
(* the in-order traversal written directly: the leaves of a line are the concatenation, in order, of the leaves of
   its members; a member that is an element contributes the leaves of its own conversion *)
Fixpoint flat (fuel : nat) (fl : flavour) (c : ctx) (name : string) : option (list ctree) :=
  match fuel with
  | 0 => None
  | S f =>
    match get c name with
    | Some (VLine items) => option_map (@List.concat ctree) (collect (map (flat f fl c) items))
    | Some (VElem ps) => option_map leaves (convert fl name ps)
    | _ => None
    end
  end.

Lemma collect_leaves : forall (f : string -> option ctree) (g : string -> option (list ctree)) items,
  (forall i, option_map leaves (f i) = g i) ->
  option_map (flat_map leaves) (collect (map f items)) = option_map (@List.concat ctree) (collect (map g items)).
Proof.
  intros f g items H. induction items as [|a items IH]; simpl; [reflexivity|].
  rewrite <- (H a). destruct (f a) as [t|]; simpl; [|reflexivity].
  destruct (collect (map f items)) as [ch|]; destruct (collect (map g items)) as [ls|]; simpl in *; try discriminate; try reflexivity.
  now inversion IH.
Qed.

Theorem expand_is_inorder : forall fuel fl c name,
  option_map leaves (expand fuel fl c name) = flat fuel fl c name.
Proof.
  induction fuel as [|f IH]; intros fl c name; simpl; [reflexivity|].
  destruct (get c name) as [[x|s|ps|items]|]; try reflexivity.
  rewrite <- (collect_leaves (expand f fl c) (flat f fl c) items (IH fl c)).
  destruct (collect (map (expand f fl c) items)); reflexivity.
Qed.

(* a line of plain elements: every occurrence is converted, in order, as often as it is listed *)
Corollary expand_flat_line : forall f fl c name items,
  get c name = Some (VLine items) ->
  (forall i, In i items -> exists ps, get c i = Some (VElem ps)) ->
  expand (S (S f)) fl c name =
  option_map (CSeg (Some name))
    (collect (map (fun i => match get c i with Some (VElem ps) => convert fl i ps | _ => None end) items)).
Proof.
  intros f fl c name items G H. remember (S f) as g eqn:Eg. simpl. rewrite G. subst g.
  rewrite (collect_map_ext _ _ (expand (S f) fl c)
             (fun i => match get c i with Some (VElem ps) => convert fl i ps | _ => None end) items).
  - destruct (collect _); reflexivity.
  - intros i Hi. destruct (H i Hi) as [ps E]. simpl. now rewrite E.
Qed.

(* ------------------------------------------------------------------ induction on converted trees *)
Section ctree_ind2.
Variable P : ctree -> Prop.
Hypothesis Hleaf : forall c n p, P (CLeaf c n p).
Hypothesis Hseg : forall n ch, Forall P ch -> P (CSeg n ch).
Fixpoint ctree_ind2 (t : ctree) : P t :=
  match t with
  | CLeaf c n p => Hleaf c n p
  | CSeg n ch =>
    Hseg n ch ((fix go (l : list ctree) : Forall P l :=
                  match l with
                  | [] => Forall_nil P
                  | x :: r => Forall_cons x (ctree_ind2 x) (go r)
                  end) ch)
  end.
End ctree_ind2.

(* ------------------------------------------------------------------ total length = sum over the expansion *)
Section Length.
Variable A : Type.
Variables (add : A -> A -> A) (zero : A).
Hypothesis add_0_l : forall x, add zero x = x.
Hypothesis add_0_r : forall x, add x zero = x.
Hypothesis add_assoc : forall x y z, add (add x y) z = add x (add y z).
Variable llen : ctree -> A.                      (* length of a leaf *)

(* Segment.length: the sum of the children's lengths, children being elements or Segments *)
Fixpoint tlen (t : ctree) : A :=
  match t with
  | CLeaf _ _ _ => llen t
  | CSeg _ ch => (fix go (l : list ctree) : A := match l with [] => zero | x :: r => add (tlen x) (go r) end) ch
  end.

Definition sum (l : list A) : A := fold_right add zero l.

Lemma sum_app : forall a b, sum (a ++ b) = add (sum a) (sum b).
Proof.
  induction a as [|x a IH]; intros b; simpl; [now rewrite add_0_l|]. now rewrite IH, add_assoc.
Qed.

Theorem tlen_leaves : forall t, tlen t = sum (map llen (leaves t)).
Proof.
  induction t as [c n p|n ch IH] using ctree_ind2.
  - simpl. now rewrite add_0_r.
  - simpl. induction IH as [|x r Hx _ IHr]; simpl; [reflexivity|].
    now rewrite map_app, sum_app, <- IHr, <- Hx.
Qed.

(* length_is_sum: the length of the imported segment is the sum, over the in-order expansion of the selected line,
   of the lengths of the converted members *)
Theorem length_is_sum : forall fuel fl c name t ls,
  expand fuel fl c name = Some t -> flat fuel fl c name = Some ls ->
  tlen t = sum (map llen ls).
Proof.
  intros fuel fl c name t ls E F. rewrite <- expand_is_inorder, E in F. simpl in F. inversion F. apply tlen_leaves.
Qed.
End Length.

(* ------------------------------------------------------------------ statements: later assignment wins *)
Theorem later_var_wins : forall c n e1 e2 c1 c2 v,
  step c (SVar n e1) = Some c1 -> step c1 (SVar n e2) = Some c2 -> eval c1 e2 = Some v ->
  get c2 n = Some (cv_of_pval v).
Proof.
  intros c n e1 e2 c1 c2 v _ H2 E. simpl in H2. rewrite E in H2. inversion H2. apply get_cons_eq.
Qed.

Theorem later_prop_wins : forall c n p e c' v,
  step c (SAssign (TName n) p e) = Some c' -> eval c e = Some v ->
  exists ps, get c' n = Some (VElem ps) /\ get ps p = Some v /\
    (forall q, q <> p -> get ps q = match get c n with Some (VElem old) => get old q | _ => None end).
Proof.
  intros c n p e c' v H E. simpl in H. rewrite E in H. unfold assign_one in H.
  destruct (get c n) as [[x|s|old|items]|]; inversion H; subst; eexists; (split; [apply get_cons_eq|split; [apply get_cons_eq|]]);
    intros q Hq; rewrite get_cons_neq by congruence; reflexivity.
Qed.

(* ------------------------------------------------------------------ inheritance *)
(* the expression that a definition's property list finally gives to property p (the last one listed) *)
Fixpoint last_binding (ps : list (string * expr)) (p : string) : option expr :=
  match ps with
  | [] => None
  | (k, e) :: r =>
    match last_binding r p with
    | Some e' => Some e'
    | None => if String.eqb k p then Some e else None
    end
  end.

Lemma eval_props_get : forall c ps base r p,
  eval_props c base ps = Some r ->
  get r p = match last_binding ps p with Some e => eval c e | None => get base p end.
Proof.
  induction ps as [|[k e] ps IH]; intros base r p H; simpl in H.
  - inversion H. reflexivity.
  - destruct (eval c e) as [v|] eqn:E; [|discriminate].
    rewrite (IH _ _ p H). simpl. destruct (last_binding ps p); [reflexivity|].
    simpl. destruct (String.eqb k p); [now rewrite E | reflexivity].
Qed.

(* a child starts from a copy of the parent's properties; the properties it lists itself override them *)
Theorem inherit_then_override : forall c n parent ps base c' p,
  get c parent = Some (VElem base) -> step c (SDef n parent ps) = Some c' ->
  exists r, get c' n = Some (VElem r) /\
            get r p = match last_binding ps p with Some e => eval c e | None => get base p end.
Proof.
  intros c n parent ps base c' p G H. simpl in H. rewrite G in H.
  destruct (eval_props c base ps) as [r|] eqn:E; [|discriminate]. inversion H; subst.
  exists r. split; [apply get_cons_eq | apply (eval_props_get _ _ _ _ _ E)].
Qed.

(* a new element of a built-in type starts from {element_type: type} *)
Theorem define_fresh : forall c n ty ps c' p,
  get c ty = None -> step c (SDef n ty ps) = Some c' ->
  exists r, get c' n = Some (VElem r) /\
            get r p = match last_binding ps p with Some e => eval c e
                                                 | None => if String.eqb "element_type" p then Some (PStr ty) else None end.
Proof.
  intros c n ty ps c' p G H. simpl in H. rewrite G in H.
  destruct (eval_props c [("element_type", PStr ty)] ps) as [r|] eqn:E; [|discriminate]. inversion H; subst.
  exists r. split; [apply get_cons_eq | apply (eval_props_get _ _ _ _ _ E)].
Qed.

(* ------------------------------------------------------------------ frame: what a statement can touch *)
Definition touches (s : stmt) (k : string) : bool :=
  match s with
  | SVar n _ | SDef n _ _ | SLine n _ => String.eqb n k
  | SUse _ => String.eqb "__use__" k
  | SAssign (TName n) _ _ => String.eqb n k
  | SAssign (TWild _ pat) _ _ => glob pat k
  end.

Lemma assign_one_frame : forall c n p v c' k, assign_one c n p v = Some c' -> n <> k -> get c' k = get c k.
Proof.
  intros c n p v c' k H Hk. unfold assign_one in H.
  destruct (get c n) as [[x|s|old|items]|]; inversion H; subst; now apply get_cons_neq.
Qed.

Lemma assign_many_frame : forall names c p v c' k,
  assign_many c names p v = Some c' -> ~ In k names -> get c' k = get c k.
Proof.
  induction names as [|n names IH]; intros c p v c' k H Hk; simpl in H.
  - now inversion H.
  - destruct (assign_one c n p v) as [c1|] eqn:E; [|discriminate].
    rewrite (IH _ _ _ _ _ H); [|intro; apply Hk; now right].
    apply (assign_one_frame _ _ _ _ _ _ E). intro; apply Hk; now left.
Qed.

Theorem step_frame : forall c s c' k, step c s = Some c' -> touches s k = false -> get c' k = get c k.
Proof.
  intros c s c' k H T. destruct s as [n e|n parent ps|[n|ty pat] p e|n items|n]; simpl in H, T.
  - destruct (eval c e); inversion H. apply get_cons_neq. intro; subst; now rewrite String.eqb_refl in T.
  - assert (n <> k) by (intro; subst; now rewrite String.eqb_refl in T).
    destruct (get c parent) as [[x|s|base|its]|].
    + destruct ps; inversion H; now apply get_cons_neq.
    + destruct ps; inversion H; now apply get_cons_neq.
    + destruct (eval_props c base ps); inversion H; now apply get_cons_neq.
    + destruct ps; inversion H; now apply get_cons_neq.
    + destruct (eval_props c _ ps); inversion H; now apply get_cons_neq.
  - destruct (eval c e); [|discriminate]. apply (assign_one_frame _ _ _ _ _ _ H).
    intro; subst; now rewrite String.eqb_refl in T.
  - destruct (eval c e); [|discriminate]. apply (assign_many_frame _ _ _ _ _ _ H).
    intro Hin. apply filter_In in Hin. destruct Hin as [_ Hin]. rewrite T in Hin. discriminate.
  - inversion H. apply get_cons_neq. intro; subst; now rewrite String.eqb_refl in T.
  - inversion H. apply get_cons_neq. intro E0. rewrite <- E0 in T. vm_compute in T. discriminate.
Qed.

Lemma run_frame : forall ss c c' k,
  run c ss = Some c' -> forallb (fun s => negb (touches s k)) ss = true -> get c' k = get c k.
Proof.
  induction ss as [|s ss IH]; intros c c' k H T; simpl in H, T.
  - now inversion H.
  - destruct (step c s) as [c1|] eqn:E; [|discriminate]. apply andb_prop in T. destruct T as [T1 T2].
    rewrite (IH _ _ _ H T2). apply (step_frame _ _ _ _ E). now destruct (touches s k).
Qed.

(* inheritance is a snapshot: whatever later statements do to the parent (or to anything but the child itself),
   the child keeps the properties it copied at definition time *)
Theorem inherit_snapshot : forall c child parent base c1 ss c2,
  get c parent = Some (VElem base) -> step c (SDef child parent []) = Some c1 -> run c1 ss = Some c2 ->
  forallb (fun s => negb (touches s child)) ss = true ->
  get c2 child = Some (VElem base).
Proof.
  intros c child parent base c1 ss c2 G H R T.
  rewrite (run_frame _ _ _ _ R T). simpl in H. rewrite G in H. simpl in H. inversion H. apply get_cons_eq.
Qed.

(* ------------------------------------------------------------------ unused definitions do not matter *)
(* every name the expansion of [name] looks up *)
Fixpoint used (fuel : nat) (c : ctx) (name : string) : list string :=
  match fuel with
  | 0 => []
  | S f => name :: match get c name with Some (VLine items) => flat_map (used f c) items | _ => [] end
  end.

Theorem expand_ext : forall fuel fl c c' name,
  (forall k, In k (used fuel c name) -> get c' k = get c k) -> expand fuel fl c' name = expand fuel fl c name.
Proof.
  induction fuel as [|f IH]; intros fl c c' name H; simpl; [reflexivity|].
  simpl in H. rewrite (H name (or_introl eq_refl)).
  destruct (get c name) as [[x|s|ps|items]|] eqn:G; try reflexivity.
  rewrite (collect_map_ext _ _ (expand f fl c') (expand f fl c) items); [reflexivity|].
  intros i Hi. apply IH. intros k Hk. apply H. right. apply in_flat_map. now exists i.
Qed.

Lemma run_app : forall a b c, run c (a ++ b) = match run c a with Some c1 => run c1 b | None => None end.
Proof.
  induction a as [|s a IH]; intros b c; simpl; [reflexivity|]. destruct (step c s); [apply IH | reflexivity].
Qed.

Theorem denote_insensitive_to_unused : forall fuel fl root ss s c c',
  run ctx0 ss = Some c -> step c s = Some c' ->
  touches s "__use__" = false ->
  (forall r, root_of fl c root = Some r -> forall k, In k (used fuel c r) -> touches s k = false) ->
  denote_fuel fuel fl root (ss ++ [s]) = denote_fuel fuel fl root ss.
Proof.
  intros fuel fl root ss s c c' R S U H. unfold denote_fuel. rewrite run_app, R. simpl. rewrite S.
  assert (Hr : root_of fl c' root = root_of fl c root).
  { destruct fl; simpl; [reflexivity|]. now rewrite (step_frame _ _ _ _ S U). }
  rewrite Hr. destruct (root_of fl c root) as [r|] eqn:Er; [|reflexivity].
  apply expand_ext. intros k Hk. apply (step_frame _ _ _ _ S). now apply (H r).
Qed.

(* ------------------------------------------------------------------ conventions of the converters, as coded *)
Definition leaf_param (t : ctree) (k : string) : option pval :=
  match t with CLeaf _ _ ps => get ps k | CSeg _ _ => None end.

(* Elegant: 90 degrees is the phase of maximum acceleration, cheetah uses 0 *)
Theorem elegant_rfca_phase : forall name ps t,
  convert_elegant name "rfca" ps = Some t ->
  exists ph, req ps "phase" = Some ph /\ leaf_param t "phase" = Some (f32 (PrimFloat.sub ph ninety)).
Proof.
  intros name ps t H. unfold convert_elegant in H. simpl in H.
  destruct (guard _); [|discriminate].
  destruct (req ps "l"); [|discriminate]. destruct (req ps "phase") as [ph|]; [|discriminate].
  destruct (req ps "volt"); [|discriminate]. destruct (req ps "freq"); [|discriminate].
  inversion H. exists ph. split; reflexivity.
Qed.

(* Bmad: phi0 is in units of 2 pi, with the opposite sign; the magnet gap is twice hgap *)
Theorem bmad_lcavity_phase : forall name ps t,
  convert_bmad name "lcavity" ps = Some t ->
  exists p, opt ps "phi0" zero = Some p /\ leaf_param t "phase" = Some (f32 (bmad_phase p)).
Proof.
  intros name ps t H. unfold convert_bmad in H. simpl in H.
  destruct (guard _); [|discriminate].
  destruct (req ps "l"); [|discriminate]. destruct (opt ps "voltage" zero); [|discriminate].
  destruct (opt ps "phi0" zero) as [p|]; [|discriminate]. destruct (req ps "rf_frequency"); [|discriminate].
  inversion H. exists p. split; reflexivity.
Qed.

Theorem bmad_sbend_gap_angle : forall name ps t,
  convert_bmad name "sbend" ps = Some t ->
  exists hg a, opt ps "hgap" zero = Some hg /\ opt ps "angle" zero = Some a /\
    leaf_param t "gap" = Some (f32 (PrimFloat.mul two hg)) /\ leaf_param t "angle" = Some (f32 a).
Proof.
  intros name ps t H. unfold convert_bmad in H. simpl in H.
  destruct (guard _); [|discriminate].
  destruct (req ps "l"); [|discriminate]. destruct (opt ps "hgap" zero) as [hg|]; [|discriminate].
  destruct (opt ps "angle" zero) as [a|]; [|discriminate]. destruct (req ps "e1"); [|discriminate].
  destruct (opt ps "e2" zero); [|discriminate]. destruct (opt ps "ref_tilt" zero); [|discriminate].
  destruct (opt ps "fint" zero) as [fi|]; [|discriminate]. destruct (opt ps "fintx" fi); [|discriminate].
  inversion H. exists hg, a. repeat split; reflexivity.
Qed.

(* ---- where the code does not deliver what the file says (confirmed on the real converters) *)
Definition sbend_g_witness : props :=
  [("e1", PNum 0x1.999999999999ap-4%float); ("g", PNum one); ("l", PNum 0x1p-1%float); ("element_type", PStr "sbend")].

(* F18: b: sbend, l = 0.5, g = 1, e1 = 0.1 bends by g*l = 0.5 rad; the import has angle 0 *)
Theorem bmad_sbend_g_refuted :
  exists t, convert Bmad "b" sbend_g_witness = Some t /\
            leaf_param t "angle" = Some (PNum zero) /\
            PrimFloat.eqb (round32 (PrimFloat.mul one 0x1p-1%float)) zero = false.
Proof. eexists. split; [vm_compute; reflexivity|split; vm_compute; reflexivity]. Qed.

(* F18: a Bmad kicker with its own length / kick is rejected; without them it has no strength *)
Theorem bmad_kicker_refuted :
  convert Bmad "h" [("kick", PNum 0x1.0624dd2f1a9fcp-10%float); ("l", PNum 0x1.999999999999ap-4%float); ("element_type", PStr "hkicker")] = None
  /\ convert Bmad "v" [("kick", PNum 0x1.0624dd2f1a9fcp-10%float); ("element_type", PStr "vkicker")] = None.
Proof. split; vm_compute; reflexivity. Qed.

(* a Bmad sbend without e1 (default 0 in Bmad) is rejected *)
Theorem bmad_sbend_e1_refuted :
  convert Bmad "b" [("angle", PNum 0x1.999999999999ap-3%float); ("l", PNum 0x1p-1%float); ("element_type", PStr "sbend")] = None.
Proof. vm_compute; reflexivity. Qed.

(* the Segment made for a Bmad ecollimator carries no name (rcollimator: the element's name) *)
Theorem bmad_ecollimator_unnamed_refuted : forall name ps ch,
  convert_bmad name "ecollimator" ps = Some (CSeg (Some name) ch) -> False.
Proof.
  intros name ps ch H. unfold convert_bmad in H. simpl in H.
  destruct (guard _); [|discriminate]. destruct (opt ps "l" zero); [|discriminate].
  destruct (opt ps "x_limit" infinity); [|discriminate]. destruct (opt ps "y_limit" infinity); discriminate.
Qed.

(* ------------------------------------------------------------------ worked examples (non-vacuity) *)
Definition n01 : float := 0x1.999999999999ap-4%float.       (* 0.1 *)
Definition n15 : float := 0x1.8p+0%float.                   (* 1.5 *)

(* q1: quad, l=0.1, k1=1.5 / d1: drift, l=1 / m1: mark / fodo: line=(q1,d1,m1,d1) -- the line may come first *)
Definition ex_fodo : list stmt :=
  [ SLine "fodo" ["q1"; "d1"; "m1"; "d1"];
    SDef "q1" "quad" [("l", ENum n01); ("k1", ENum n15)];
    SDef "d1" "drift" [("l", ENum one)];
    SDef "m1" "mark" [] ].

Lemma example_fodo :
  denote Elegant "fodo" ex_fodo =
  Some (CSeg (Some "fodo")
    [ CLeaf "Quadrupole" "q1" [("length", PNum 0x1.99999ap-4%float); ("k1", PNum n15); ("tilt", PNum zero)];
      CLeaf "Drift" "d1" [("length", PNum one)];
      CLeaf "Marker" "m1" [];
      CLeaf "Drift" "d1" [("length", PNum one)] ]).
Proof. vm_compute. reflexivity. Qed.

(* q1: quadrupole, l=1, k1=2 / q2: q1, k1=3 / q1[l]=5 / quadrupole::q*[tilt] = 1.5 / v = q2[k1]*q1[l] / d: drift, l = v^2
   inner: line = (q2, d) / lat: line = (q1, inner, inner) / use, lat
   inheritance is a snapshot, later assignments win, the wildcard reaches both quads *)
Definition ex_inherit : list stmt :=
  [ SDef "q1" "quadrupole" [("l", ENum one); ("k1", ENum two)];
    SDef "q2" "q1" [("k1", ENum 3%float)];
    SAssign (TName "q1") "l" (ENum 5%float);
    SAssign (TWild "quadrupole" "q*") "tilt" (ENum n15);
    SVar "v" (EMul (EAttr "q2" "k1") (EAttr "q1" "l"));
    SDef "d" "drift" [("l", EPow (EVar "v") 2)];
    SLine "inner" ["q2"; "d"];
    SLine "lat" ["q1"; "inner"; "inner"];
    SUse "lat" ].

Lemma example_inherit :
  denote Bmad "" ex_inherit =
  Some (CSeg (Some "lat")
    [ CLeaf "Quadrupole" "q1" [("length", PNum 5%float); ("k1", PNum two); ("tilt", PNum n15)];
      CSeg (Some "inner") [ CLeaf "Quadrupole" "q2" [("length", PNum one); ("k1", PNum 3%float); ("tilt", PNum n15)];
                            CLeaf "Drift" "d" [("length", PNum 225%float)] ];
      CSeg (Some "inner") [ CLeaf "Quadrupole" "q2" [("length", PNum one); ("k1", PNum 3%float); ("tilt", PNum n15)];
                            CLeaf "Drift" "d" [("length", PNum 225%float)] ] ]).
Proof. vm_compute. reflexivity. Qed.

(* a line that contains itself is rejected whatever the fuel (RecursionError in the code) *)
Lemma example_cycle : forall fuel, expand fuel Elegant [("a", VLine ["b"]); ("b", VLine ["a"])] "a" = None.
Proof.
  assert (H : forall fuel, expand fuel Elegant [("a", VLine ["b"]); ("b", VLine ["a"])] "a" = None /\
                           expand fuel Elegant [("a", VLine ["b"]); ("b", VLine ["a"])] "b" = None).
  { induction fuel as [|f [IHa IHb]]; [split; reflexivity|]. split.
    - change (expand (S f) Elegant [("a", VLine ["b"]); ("b", VLine ["a"])] "a")
        with (match collect (map (expand f Elegant [("a", VLine ["b"]); ("b", VLine ["a"])]) ["b"]) with
              | Some ch => Some (CSeg (Some "a") ch) | None => None end).
      simpl. now rewrite IHb.
    - change (expand (S f) Elegant [("a", VLine ["b"]); ("b", VLine ["a"])] "b")
        with (match collect (map (expand f Elegant [("a", VLine ["b"]); ("b", VLine ["a"])]) ["a"]) with
              | Some ch => Some (CSeg (Some "b") ch) | None => None end).
      simpl. now rewrite IHa. }
  intros fuel. apply H.
Qed.

(* F44: the 7th (affine) row of an imported EMATRIX is zero, R[6,6] included: not a homogeneous transfer map *)
Definition ematrix_identity : props :=
  [("r66", PNum one); ("r55", PNum one); ("r44", PNum one); ("r33", PNum one); ("r22", PNum one); ("r11", PNum one);
   ("l", PNum zero); ("element_type", PStr "ematrix")].
Theorem elegant_ematrix_affine_row_refuted :
  exists t, convert Elegant "c" ematrix_identity = Some t /\ leaf_param t "m55" = Some (PNum one) /\ leaf_param t "m66" = Some (PNum zero).
Proof. eexists. split; [vm_compute; reflexivity | split; vm_compute; reflexivity]. Qed.

(* ================================================================== the Bmad converter after the repairs (convert_bmad_v) *)
(* with every switch off the switched transcription IS the transcription of the code as it was (by computation) *)
Theorem convert_bmad_v_no_fixes : forall name ty ps, convert_bmad_v no_fixes name ty ps = convert_bmad name ty ps.
Proof. intros. reflexivity. Qed.

Lemma convert_v_no_fixes : forall fl name ps, convert_v no_fixes fl name ps = convert fl name ps.
Proof. intros. reflexivity. Qed.

Lemma expand_v_no_fixes : forall fuel fl c name, expand_v no_fixes fuel fl c name = expand fuel fl c name.
Proof.
  induction fuel as [|f IH]; intros fl c name; simpl; [reflexivity|].
  destruct (get c name) as [[x|s|ps|items]|]; try reflexivity.
  rewrite (collect_map_ext _ _ (expand_v no_fixes f fl c) (expand f fl c) items); [reflexivity|].
  intros x _. apply IH.
Qed.

Theorem denote_v_no_fixes : forall fl root ss, denote_v no_fixes fl root ss = denote fl root ss.
Proof.
  intros. unfold denote_v, denote, denote_fuel_v, denote_fuel.
  destruct (run ctx0 ss) as [c|]; [|reflexivity]. destruct (root_of fl c root) as [r|]; [|reflexivity].
  apply expand_v_no_fixes.
Qed.

Theorem c13_check_v_no_fixes : forall case, c13_check_v no_fixes case = c13_check case.
Proof. intros [[[fl root] ss] obs]. unfold c13_check_v, c13_check. now rewrite denote_v_no_fixes. Qed.

(* the Elegant importer is untouched by the switches *)
Lemma convert_v_elegant : forall fx name ps, convert_v fx Elegant name ps = convert Elegant name ps.
Proof. intros. reflexivity. Qed.

Ltac sbend_open H :=
  unfold convert_bmad_v in H; simpl in H;
  destruct (guard _); [|discriminate].

(* F18 repaired: a bend given by its curvature g (no angle) bends by g * l *)
Theorem bmad_sbend_g_fixed : forall fx name ps t,
  fx_g fx = true -> has ps "angle" = false ->
  convert_bmad_v fx name "sbend" ps = Some t ->
  exists l g, req ps "l" = Some l /\ opt ps "g" zero = Some g /\ leaf_param t "angle" = Some (f32 (PrimFloat.mul g l)).
Proof.
  intros fx name ps t G A H. sbend_open H.
  destruct (req ps "l") as [l|]; [|discriminate]. destruct (opt ps "hgap" zero); [|discriminate].
  unfold sbend_angle in H. rewrite G, A in H. simpl in H.
  destruct (opt ps "g" zero) as [g|]; [|discriminate].
  destruct (if fx_e1 fx then opt ps "e1" zero else req ps "e1"); [|discriminate].
  destruct (opt ps "e2" zero); [|discriminate]. destruct (opt ps "ref_tilt" zero); [|discriminate].
  destruct (opt ps "fint" zero) as [fi|]; [|discriminate]. destruct (opt ps "fintx" fi); [|discriminate].
  inversion H. exists l, g. repeat split; reflexivity.
Qed.

(* ...and a given angle keeps its precedence (what the code did before for every file it accepted) *)
Theorem bmad_sbend_angle_wins_fixed : forall fx name ps t,
  has ps "angle" = true ->
  convert_bmad_v fx name "sbend" ps = Some t ->
  exists a, opt ps "angle" zero = Some a /\ leaf_param t "angle" = Some (f32 a).
Proof.
  intros fx name ps t A H. sbend_open H.
  destruct (req ps "l") as [l|]; [|discriminate]. destruct (opt ps "hgap" zero); [|discriminate].
  unfold sbend_angle in H. rewrite A in H. rewrite andb_false_r in H.
  destruct (opt ps "angle" zero) as [a|]; [|discriminate].
  destruct (if fx_e1 fx then opt ps "e1" zero else req ps "e1"); [|discriminate].
  destruct (opt ps "e2" zero); [|discriminate]. destruct (opt ps "ref_tilt" zero); [|discriminate].
  destruct (opt ps "fint" zero) as [fi|]; [|discriminate]. destruct (opt ps "fintx" fi); [|discriminate].
  inversion H. exists a. split; reflexivity.
Qed.

(* the witness of bmad_sbend_g_refuted now has angle 0.5 *)
Theorem bmad_sbend_g_fixed_witness :
  exists t, convert_v all_fixes Bmad "b" sbend_g_witness = Some t /\
            leaf_param t "angle" = Some (PNum 0x1p-1%float) /\ leaf_param t "e1" = Some (PNum 0x1.99999ap-4%float).
Proof. eexists. split; [vm_compute; reflexivity|split; vm_compute; reflexivity]. Qed.

(* F18 repaired: a kicker with its own l / kick is a corrector of that length and angle *)
Theorem bmad_kicker_fixed : forall fx name ps l a,
  fx_kick fx = true ->
  understood ["element_type"; "type"; "alias"; "l"; "kick"] ps = true -> opt ps "l" zero = Some l -> opt ps "kick" zero = Some a ->
  convert_bmad_v fx name "hkicker" ps = Some (corrector "HorizontalCorrector" name l a) /\
  convert_bmad_v fx name "vkicker" ps = Some (corrector "VerticalCorrector" name l a).
Proof.
  intros fx name ps l a K U L A. unfold convert_bmad_v. simpl. rewrite K. unfold kicker_names.
  rewrite U, L, A. split; reflexivity.
Qed.

Theorem bmad_kicker_fixed_witness :
  convert_v all_fixes Bmad "h" [("kick", PNum 0x1.0624dd2f1a9fcp-10%float); ("l", PNum 0x1.999999999999ap-4%float); ("element_type", PStr "hkicker")]
    = Some (CLeaf "HorizontalCorrector" "h" [("length", PNum 0x1.99999ap-4%float); ("angle", PNum 0x1.0624dep-10%float)]) /\
  convert_v all_fixes Bmad "v" [("kick", PNum 0x1.0624dd2f1a9fcp-10%float); ("element_type", PStr "vkicker")]
    = Some (CLeaf "VerticalCorrector" "v" [("length", PNum zero); ("angle", PNum 0x1.0624dep-10%float)]).
Proof. split; vm_compute; reflexivity. Qed.

(* F43 repaired: e1 defaults to 0 like every other optional attribute; the witness of bmad_sbend_e1_refuted is accepted *)
Theorem bmad_sbend_e1_default_fixed : forall fx name ps t,
  fx_e1 fx = true -> has ps "e1" = false ->
  convert_bmad_v fx name "sbend" ps = Some t -> leaf_param t "e1" = Some (PNum zero).
Proof.
  intros fx name ps t E1 A H. sbend_open H.
  destruct (req ps "l") as [l|]; [|discriminate]. destruct (opt ps "hgap" zero); [|discriminate].
  destruct (sbend_angle (fx_g fx) ps l); [|discriminate]. rewrite E1 in H.
  unfold has in A. unfold opt in H at 1. destruct (get ps "e1"); [discriminate|].
  destruct (opt ps "e2" zero); [|discriminate]. destruct (opt ps "ref_tilt" zero); [|discriminate].
  destruct (opt ps "fint" zero) as [fi|]; [|discriminate]. destruct (opt ps "fintx" fi); [|discriminate].
  inversion H. vm_compute. reflexivity.
Qed.

Theorem bmad_sbend_e1_fixed_witness :
  exists t, convert_v all_fixes Bmad "b" [("angle", PNum 0x1.999999999999ap-3%float); ("l", PNum 0x1p-1%float); ("element_type", PStr "sbend")] = Some t /\
            leaf_param t "e1" = Some (PNum zero) /\ leaf_param t "angle" = Some (PNum 0x1.99999ap-3%float).
Proof. eexists. split; [vm_compute; reflexivity|split; vm_compute; reflexivity]. Qed.

(* F42 repaired: the Segment of an ecollimator carries the element's name, like that of an rcollimator *)
Theorem bmad_ecollimator_named_fixed : forall fx name ty ps t,
  fx_ecol fx = true -> ty = "ecollimator" \/ ty = "rcollimator" ->
  convert_bmad_v fx name ty ps = Some t -> exists d a, t = CSeg (Some name) [d; a].
Proof.
  intros fx name ty ps t E T H. unfold convert_bmad_v in H.
  destruct T; subst ty; simpl in H; rewrite E in H; simpl in H;
  (destruct (guard _); [|discriminate]); (destruct (opt ps "l" zero); [|discriminate]);
  (destruct (opt ps "x_limit" infinity); [|discriminate]); (destruct (opt ps "y_limit" infinity); [|discriminate]);
  inversion H; eauto.
Qed.

(* a repair switched on changes nothing outside its own element types *)
Theorem convert_bmad_v_other_types : forall fx name ty ps,
  mem ty ["hkicker"; "vkicker"; "sbend"; "ecollimator"] = false ->
  convert_bmad_v fx name ty ps = convert_bmad name ty ps.
Proof.
  intros fx name ty ps M. unfold convert_bmad_v, convert_bmad. unfold mem in M. simpl in M.
  repeat match type of M with (_ || _)%bool = false => apply orb_false_elim in M; destruct M as [? M] end.
  repeat match goal with H : String.eqb ?a ?b = false |- _ => rewrite ?(String.eqb_sym b a) in *; revert H end.
  intros Hh Hv Hs He.
  destruct (String.eqb ty "marker"); [reflexivity|]. destruct (mem ty ["monitor"; "instrument"]); [reflexivity|].
  destruct (String.eqb ty "pipe"); [reflexivity|]. destruct (String.eqb ty "drift"); [reflexivity|].
  rewrite Hh, Hv, Hs.
  destruct (String.eqb ty "quadrupole"); [reflexivity|]. destruct (String.eqb ty "solenoid"); [reflexivity|].
  destruct (String.eqb ty "lcavity"); [reflexivity|].
  unfold mem. simpl. rewrite He. rewrite !orb_false_r.
  destruct (String.eqb ty "rcollimator") eqn:R; [|reflexivity].
  rewrite orb_true_r. reflexivity.
Qed.
