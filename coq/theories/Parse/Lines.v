(** Parse/Lines.v -- model of the line-level front end of the lattice-file readers
    (cheetah/converters/utils/fortran_namelist.py: read_clean_lines, merge_delimiter_continued_lines).
    Model only (no proofs): proofs are in LinesProofs.v.

    A line is a [list ascii] (ASCII text; the generator of the correspondence emits ASCII only).

    read_clean_lines (without `call, file =` inclusion, which is file-system behaviour and not modelled):
        lines = [line.strip() for line in lines]
        lines = [re.sub(r"!.*", "", line) for line in lines]
        lines = [line for line in lines if line]
        lines = [line.lower() for line in lines]
        lines = [line.strip() for line in lines]

    merge_delimiter_continued_lines(lines, delimiter, remove_delimiter):
        merged = deepcopy(lines)
        for i in range(len(merged) - 1):                       # the LAST index is never visited
            if merged[i] is not None and merged[i].endswith(delimiter):
                k = 1
                while merged[i].endswith(delimiter):
                    merged[i] = (merged[i][:-1] if remove else merged[i]) + merged[i + k]   # IndexError when i + k = len
                    merged[i + k] = None
                    k += 1
        merged = [l for l in merged if l is not None]
        merged = [l.strip() for l in merged]
    Lines at positions > i are never None when index i is visited with a non-None line (a visited line only
    blanks a contiguous block directly behind itself), so the array-with-holes is a list traversal:
    [absorb] is the inner while loop (the head keeps swallowing the following lines while it ends with the
    delimiter; running off the end of the list is Python's IndexError = [None]), [merge_raw] the outer loop;
    its clause for a one-element list is `range(len - 1)`: the last line of the file is never examined. *)
From Coq Require Import List Ascii Bool Arith.
Import ListNotations.

Definition str := list ascii.

Definition is_space (c : ascii) : bool :=
  let n := nat_of_ascii c in
  ((9 <=? n) && (n <=? 13)) || ((28 <=? n) && (n <=? 32)).

Fixpoint lstrip (s : str) : str :=
  match s with
  | c :: r => if is_space c then lstrip r else s
  | [] => []
  end.
Definition rstrip (s : str) : str := rev (lstrip (rev s)).
Definition strip (s : str) : str := rstrip (lstrip s).

Definition bang : ascii := "!"%char.
Fixpoint cut_comment (s : str) : str :=
  match s with
  | [] => []
  | c :: r => if Ascii.eqb c bang then [] else c :: cut_comment r
  end.

Definition lower_char (c : ascii) : ascii :=
  let n := nat_of_ascii c in
  if (65 <=? n) && (n <=? 90) then ascii_of_nat (n + 32) else c.
Definition lower (s : str) : str := map lower_char s.

Definition nonempty (s : str) : bool := match s with [] => false | _ => true end.

Definition clean (ls : list str) : list str :=
  map strip (map lower (filter nonempty (map cut_comment (map strip ls)))).

(* ---- continuation lines *)
Definition ends_with (d : ascii) (s : str) : bool :=
  match rev s with c :: _ => Ascii.eqb c d | [] => false end.
Definition drop_last (s : str) : str := removelast s.

(* the inner while loop: [cur] = merged[i], [rest] = the lines behind it *)
Fixpoint absorb (d : ascii) (remove : bool) (cur : str) (rest : list str) : option (str * list str) :=
  if ends_with d cur then
    match rest with
    | [] => None                                                   (* merged[i + k]: IndexError *)
    | x :: rest' => absorb d remove ((if remove then drop_last cur else cur) ++ x) rest'
    end
  else Some (cur, rest).

(* the outer for loop; fuel = number of lines (each step consumes at least one) *)
Fixpoint merge_raw (fuel : nat) (d : ascii) (remove : bool) (ls : list str) : option (list str) :=
  match fuel with
  | 0 => Some ls
  | S f =>
    match ls with
    | [] => Some []
    | [x] => Some [x]                                              (* index len-1 is outside range(len-1) *)
    | x :: rest =>
      match absorb d remove x rest with
      | None => None
      | Some (c, rest') =>
        match merge_raw f d remove rest' with
        | None => None
        | Some out => Some (c :: out)
        end
      end
    end
  end.

Definition merge_continued (d : ascii) (remove : bool) (ls : list str) : option (list str) :=
  match merge_raw (length ls) d remove ls with
  | None => None
  | Some out => Some (map strip out)
  end.

(* the three passes of elegant.convert_lattice_to_cheetah / bmad.convert_lattice_to_cheetah *)
Definition amp : ascii := "&"%char.
Definition comma : ascii := ","%char.
Definition lbrace : ascii := "{"%char.
Definition merge_all (ls : list str) : option (list str) :=
  match merge_continued amp true ls with
  | None => None
  | Some l1 =>
    match merge_continued comma false l1 with
    | None => None
    | Some l2 => merge_continued lbrace false l2
    end
  end.

Definition front_end (ls : list str) : option (list str) := merge_all (clean ls).

(* ---- the inverse direction, used to state merge_split_inverse:
   a statement is cut into pieces; every piece but the last gets the continuation mark appended
   ([remove] = true: the mark is an extra character, e.g. " &" -> the piece itself ends with the mark that is
   removed again; [remove] = false: the piece must itself end with the delimiter, e.g. a ',' of the statement). *)
Definition mark_pieces (d : ascii) (remove : bool) (pieces : list str) : list str :=
  match rev pieces with
  | [] => []
  | last :: front => map (fun p => if remove then p ++ [d] else p) (rev front) ++ [last]
  end.

(* ---- checkers used by the correspondence harness (cases are written with Coq string literals) *)
From Coq Require Import String.
Definition of_s (s : string) : str := list_ascii_of_string s.
Fixpoint str_eqb (a b : str) : bool :=
  match a, b with
  | [], [] => true
  | x :: a', y :: b' => Ascii.eqb x y && str_eqb a' b'
  | _, _ => false
  end.
Fixpoint strs_eqb (a b : list str) : bool :=
  match a, b with
  | [], [] => true
  | x :: a', y :: b' => str_eqb x y && strs_eqb a' b'
  | _, _ => false
  end.
Definition opt_strs_eqb (a : option (list str)) (b : option (list string)) : bool :=
  match a, b with
  | Some x, Some y => strs_eqb x (map of_s y)
  | None, None => true
  | _, _ => false
  end.
(* (raw lines, observed read_clean_lines) *)
Definition clean_check (c : list string * list string) : bool :=
  strs_eqb (clean (map of_s (fst c))) (map of_s (snd c)).
(* (lines, delimiter, remove_delimiter, observed result; None = IndexError) *)
Definition merge_check (c : list string * string * bool * option (list string)) : bool :=
  match c with
  | (ls, d, rm, obs) =>
    match of_s d with
    | [dc] => opt_strs_eqb (merge_continued dc rm (map of_s ls)) obs
    | _ => false
    end
  end.
(* (raw lines, observed merged statements of the whole front end; None = IndexError) *)
Definition front_check (c : list string * option (list string)) : bool :=
  opt_strs_eqb (front_end (map of_s (fst c))) (snd c).

(* ================================================================== the code after the repairs of F41 and F40
   (the definitions above stay: they are the transcription of the code as it was, and the _refuted lemmas are about them;
   the harness picks the variant per finding by its status in known_findings.json) *)

(* ---- F41 repaired:  while merged[i].endswith(delimiter) and i + k < len(merged):
   running off the end of the list ends the loop (the statement keeps its trailing mark) instead of raising IndexError;
   the function is total, hence no option type *)
Fixpoint absorb_fixed (d : ascii) (remove : bool) (cur : str) (rest : list str) : str * list str :=
  if ends_with d cur then
    match rest with
    | [] => (cur, [])                                              (* i + k = len: the guard ends the loop *)
    | x :: rest' => absorb_fixed d remove ((if remove then drop_last cur else cur) ++ x) rest'
    end
  else (cur, rest).

Fixpoint merge_raw_fixed (fuel : nat) (d : ascii) (remove : bool) (ls : list str) : list str :=
  match fuel with
  | 0 => ls
  | S f =>
    match ls with
    | [] => []
    | [x] => [x]                                                   (* index len-1 is outside range(len-1), as before *)
    | x :: rest => let (c, rest') := absorb_fixed d remove x rest in c :: merge_raw_fixed f d remove rest'
    end
  end.

Definition merge_fixed (d : ascii) (remove : bool) (ls : list str) : list str :=
  map strip (merge_raw_fixed (List.length ls) d remove ls).

(* same interface as [merge_continued] (never None) *)
Definition merge_continued_fixed (d : ascii) (remove : bool) (ls : list str) : option (list str) :=
  Some (merge_fixed d remove ls).

Definition merge_all_fixed (ls : list str) : list str :=
  merge_fixed lbrace false (merge_fixed comma false (merge_fixed amp true ls)).
Definition front_end_fixed (ls : list str) : list str := merge_all_fixed (clean ls).

(* variant selection by the status of F41: false = the code as it was, true = the repaired code *)
Definition merge_continued_v (f41_fixed : bool) (d : ascii) (remove : bool) (ls : list str) : option (list str) :=
  if f41_fixed then merge_continued_fixed d remove ls else merge_continued d remove ls.
Definition front_end_v (f41_fixed : bool) (ls : list str) : option (list str) :=
  if f41_fixed then Some (front_end_fixed ls) else front_end ls.

Definition merge_check_v (f41_fixed : bool) (c : list string * string * bool * option (list string)) : bool :=
  match c with
  | (ls, d, rm, obs) =>
    match of_s d with
    | [dc] => opt_strs_eqb (merge_continued_v f41_fixed dc rm (map of_s ls)) obs
    | _ => false
    end
  end.
Definition front_check_v (f41_fixed : bool) (c : list string * option (list string)) : bool :=
  opt_strs_eqb (front_end_v f41_fixed (map of_s (fst c))) (snd c).

(* ---- F40: the head of an element definition, the re.fullmatch of define_element with the pattern
       NAME \s* : \s* TYPE ( , REST )?             NAME = [a-z0-9_.]+   TYPE = [a-z0-9_]+   REST = any characters but newline
   (as it was), and with  \s*  inserted between TYPE and the optional group (repaired).
   The character classes of consecutive pattern items are disjoint (name / white space / colon / type / comma), so the greedy
   match is the only one: backtracking a run to a shorter one leaves a character of the run's own class in front of an item
   that cannot take it.  Result: (name, type, text behind the first comma); None = no match (the code then raises
   AttributeError: NoneType object has no attribute group). *)
Definition between (lo hi n : nat) : bool := (lo <=? n) && (n <=? hi).
Definition type_char (c : ascii) : bool :=
  let n := nat_of_ascii c in between 97 122 n || between 48 57 n || (n =? 95).          (* [a-z0-9_] *)
Definition name_char (c : ascii) : bool := type_char c || (nat_of_ascii c =? 46).         (* [a-z0-9_\.] *)
Definition colon : ascii := ":"%char.
Definition newline (c : ascii) : bool := nat_of_ascii c =? 10.                            (* '.' matches all but \n *)

Fixpoint take_while (p : ascii -> bool) (s : str) : str :=
  match s with c :: r => if p c then c :: take_while p r else [] | [] => [] end.
Fixpoint drop_while (p : ascii -> bool) (s : str) : str :=
  match s with c :: r => if p c then drop_while p r else s | [] => [] end.

Definition define_tail (rest : str) : option (option str) :=
  match rest with
  | [] => Some None
  | c :: props => if Ascii.eqb c comma && negb (existsb newline props) then Some (Some props) else None
  end.

Definition define_header (f40_fixed : bool) (line : str) : option (str * str * option str) :=
  let name := take_while name_char line in
  match name, drop_while is_space (drop_while name_char line) with
  | _ :: _, c :: r2 =>
    if Ascii.eqb c colon then
      let r3 := drop_while is_space r2 in
      let ty := take_while type_char r3 in
      let r4 := drop_while type_char r3 in
      match ty with
      | [] => None
      | _ :: _ =>
        match define_tail (if f40_fixed then drop_while is_space r4 else r4) with
        | Some props => Some (name, ty, props)
        | None => None
        end
      end
    else None
  | _, _ => None
  end.

(* (line, observed (element name, element type) of define_element; None = AttributeError) *)
Definition define_check_v (f40_fixed : bool) (c : string * option (string * string)) : bool :=
  match define_header f40_fixed (of_s (fst c)), snd c with
  | Some (n, t, _), Some (n', t') => str_eqb n (of_s n') && str_eqb t (of_s t')
  | None, None => true
  | _, _ => false
  end.
