(** Parse/LinesProofs.v -- laws of the line front end (Parse/Lines.v). *)
From Coq Require Import List Ascii String Bool Arith Lia.
From Cheetah Require Import Parse.Lines.
Import ListNotations.
Local Notation length := List.length.
Local Notation concat := List.concat.

(* ------------------------------------------------------------------ ends_with / drop_last *)
Lemma ends_with_snoc : forall d s, ends_with d (s ++ [d]) = true.
Proof. intros. unfold ends_with. rewrite rev_app_distr. simpl. apply Ascii.eqb_refl. Qed.

Lemma ends_with_app : forall d x y, ends_with d y = true -> ends_with d (x ++ y) = true.
Proof.
  intros d x y H. unfold ends_with in *. rewrite rev_app_distr.
  destruct (rev y) as [|c r]; [discriminate|]. exact H.
Qed.

Lemma drop_last_snoc : forall (s : str) d, drop_last (s ++ [d]) = s.
Proof. intros. unfold drop_last. apply removelast_last. Qed.

Lemma absorb_stop : forall d rm cur rest, ends_with d cur = false -> absorb d rm cur rest = Some (cur, rest).
Proof. intros d rm cur rest H. destruct rest; simpl; rewrite H; reflexivity. Qed.

(* ------------------------------------------------------------------ split statements *)
(* a statement cut into pieces: the front pieces (each followed by a continuation) and the last piece *)
Definition split_stmt := (list str * str)%type.
Definition stmt_text (p : split_stmt) : str := concat (fst p) ++ snd p.
(* the lines written to the file: with [remove] the mark is an extra character appended to every front piece
   (Elegant/Bmad '&'); without it every front piece must itself end with the delimiter (a ',' of the statement) *)
Definition stmt_lines (d : ascii) (rm : bool) (p : split_stmt) : list str :=
  map (fun x => if rm then x ++ [d] else x) (fst p) ++ [snd p].
Definition well_split (d : ascii) (rm : bool) (p : split_stmt) : Prop :=
  (rm = false -> Forall (fun x => ends_with d x = true) (fst p)) /\ ends_with d (stmt_text p) = false.

Lemma absorb_rm : forall d front acc last tail,
  ends_with d (acc ++ concat front ++ last) = false ->
  absorb d true (acc ++ [d]) (map (fun x => x ++ [d]) front ++ last :: tail) = Some (acc ++ concat front ++ last, tail).
Proof.
  induction front as [|x f IH]; intros acc last tail H; simpl.
  - rewrite ends_with_snoc, drop_last_snoc. simpl in H. now apply absorb_stop.
  - rewrite ends_with_snoc, drop_last_snoc. rewrite app_assoc.
    rewrite IH; [now rewrite <- !app_assoc|]. simpl in H. now rewrite <- !app_assoc in *.
Qed.

Lemma absorb_keep : forall d front acc last tail,
  ends_with d acc = true -> Forall (fun x => ends_with d x = true) front ->
  ends_with d (acc ++ concat front ++ last) = false ->
  absorb d false acc (front ++ last :: tail) = Some (acc ++ concat front ++ last, tail).
Proof.
  induction front as [|x f IH]; intros acc last tail Ha Hf H; simpl.
  - rewrite Ha. simpl in H. now apply absorb_stop.
  - rewrite Ha. inversion Hf as [|? ? Hx Hf']; subst.
    rewrite IH; [now rewrite <- !app_assoc| now apply ends_with_app | exact Hf' |].
    simpl in H. now rewrite <- !app_assoc in *.
Qed.

Lemma absorb_stmt : forall d rm p l0 ls tail,
  well_split d rm p -> stmt_lines d rm p = l0 :: ls ->
  absorb d rm l0 (ls ++ tail) = Some (stmt_text p, tail).
Proof.
  intros d rm [front last] l0 ls tail [Hf He] E. unfold stmt_lines, stmt_text in *. simpl in *.
  destruct front as [|x f]; simpl in *.
  - inversion E; subst. simpl. now apply absorb_stop.
  - inversion E; subst. rewrite <- app_assoc. simpl. rewrite <- (app_assoc x (concat f) last) in *. destruct rm.
    + apply absorb_rm. exact He.
    + rewrite map_id. specialize (Hf eq_refl). inversion Hf; subst. apply absorb_keep; assumption.
Qed.

Lemma stmt_lines_nonempty : forall d rm p, exists l0 ls, stmt_lines d rm p = l0 :: ls.
Proof.
  intros d rm [front last]. unfold stmt_lines. simpl. destruct front as [|x f]; simpl; eauto.
Qed.

Lemma merge_raw_nil : forall fuel d rm, merge_raw fuel d rm [] = Some [].
Proof. destruct fuel; reflexivity. Qed.

Lemma merge_raw_split : forall d rm ps fuel,
  Forall (well_split d rm) ps ->
  length (concat (map (stmt_lines d rm) ps)) <= fuel ->
  merge_raw fuel d rm (concat (map (stmt_lines d rm) ps)) = Some (map stmt_text ps).
Proof.
  induction ps as [|p ps IH]; intros fuel W L; simpl in *.
  - apply merge_raw_nil.
  - inversion W as [|? ? Wp Wps]; subst.
    destruct (stmt_lines_nonempty d rm p) as [l0 [ls E]]. rewrite E in *. simpl in L.
    destruct fuel as [|f]; [lia|]. simpl.
    assert (Lf : length (concat (map (stmt_lines d rm) ps)) <= f) by (rewrite app_length in L; lia).
    destruct (ls ++ concat (map (stmt_lines d rm) ps)) as [|y r] eqn:R.
    + (* the statement is the single last line of the file: never examined *)
      apply app_eq_nil in R. destruct R as [R1 R2]. subst ls.
      assert (ps = []) as ->.
      { destruct ps as [|q qs]; [reflexivity|]. simpl in R2.
        destruct (stmt_lines_nonempty d rm q) as [a [b Eq]]. rewrite Eq in R2. discriminate. }
      simpl. destruct p as [front last]. unfold stmt_lines, stmt_text in *. simpl in *.
      destruct front as [|x fr]; simpl in E; [now inversion E|].
      inversion E as [[E1 E2]]. apply app_eq_nil in E2. destruct E2; discriminate.
    + rewrite <- R. rewrite (absorb_stmt d rm p l0 ls _ Wp E).
      rewrite (IH f Wps Lf). reflexivity.
Qed.

(* merge_split_inverse: cutting statements into continuation lines at arbitrary points and merging them again gives
   the statements back (then stripped), provided no statement itself ends with the delimiter *)
Theorem merge_split_inverse : forall d rm ps,
  Forall (well_split d rm) ps ->
  merge_continued d rm (concat (map (stmt_lines d rm) ps)) = Some (map strip (map stmt_text ps)).
Proof.
  intros d rm ps W. unfold merge_continued. now rewrite (merge_raw_split d rm ps _ W (le_n _)).
Qed.

(* the guard is needed: a continuation mark on the last lines of a file runs off the end of the list (IndexError) *)
Theorem merge_last_line_refuted :
  merge_continued comma false [of_s "a,"%string; of_s "b,"%string] = None /\
  merge_continued comma false [of_s "x"%string; of_s "a,"%string; of_s "b,"%string; of_s "c,"%string] = None /\
  merge_continued amp true [of_s "a &"%string; of_s "b &"%string] = None.
Proof. repeat split; vm_compute; reflexivity. Qed.

(* ...whereas a single last line ending with the mark is silently kept (index len-1 is never visited) *)
Example merge_single_last_kept : merge_continued comma false [of_s "a"%string; of_s "b,"%string] = Some [of_s "a"%string; of_s "b,"%string].
Proof. vm_compute; reflexivity. Qed.

(* ================================================================== cleaning *)
(* ---- characters (256 cases each) *)
Lemma lower_char_idem : forall c, lower_char (lower_char c) = lower_char c.
Proof. destruct c as [[] [] [] [] [] [] [] []]; reflexivity. Qed.
Lemma is_space_lower : forall c, is_space (lower_char c) = is_space c.
Proof. destruct c as [[] [] [] [] [] [] [] []]; reflexivity. Qed.
Lemma lower_char_bang : forall c, Ascii.eqb (lower_char c) bang = Ascii.eqb c bang.
Proof. destruct c as [[] [] [] [] [] [] [] []]; reflexivity. Qed.

(* ---- strip *)
Lemma lstrip_head : forall s c r, lstrip s = c :: r -> is_space c = false.
Proof.
  induction s as [|a s IH]; simpl; intros c r H; [discriminate|].
  destruct (is_space a) eqn:E; [eauto|]. inversion H; subst; exact E.
Qed.
Lemma lstrip_nonspace : forall c r, is_space c = false -> lstrip (c :: r) = c :: r.
Proof. intros c r H. simpl. now rewrite H. Qed.
Lemma lstrip_idem : forall s, lstrip (lstrip s) = lstrip s.
Proof.
  intros s. destruct (lstrip s) as [|c r] eqn:E; [reflexivity|]. apply lstrip_nonspace. eapply lstrip_head; eauto.
Qed.
Lemma lstrip_app_nonspace : forall a c b, is_space c = false -> lstrip (a ++ c :: b) = lstrip a ++ c :: b.
Proof.
  induction a as [|x a IH]; simpl; intros c b H; [now rewrite H|]. destruct (is_space x); auto.
Qed.
Lemma rstrip_app_nonspace : forall y c b, is_space c = false -> rstrip (y ++ c :: b) = y ++ c :: rstrip b.
Proof.
  intros y c b H. unfold rstrip. rewrite rev_app_distr. simpl. rewrite <- app_assoc. simpl.
  rewrite (lstrip_app_nonspace (rev b) c (rev y) H). rewrite rev_app_distr. simpl.
  rewrite rev_involutive. now rewrite <- app_assoc.
Qed.
Lemma rstrip_cons_nonspace : forall c r, is_space c = false -> rstrip (c :: r) = c :: rstrip r.
Proof. intros c r H. exact (rstrip_app_nonspace [] c r H). Qed.
Lemma rstrip_idem : forall s, rstrip (rstrip s) = rstrip s.
Proof. intros. unfold rstrip. now rewrite rev_involutive, lstrip_idem. Qed.
Lemma strip_cons : forall s c r, lstrip s = c :: r -> strip s = c :: rstrip r.
Proof. intros s c r H. unfold strip. rewrite H. apply rstrip_cons_nonspace. eapply lstrip_head; eauto. Qed.
Lemma strip_nil : forall s, lstrip s = [] -> strip s = [].
Proof. intros s H. unfold strip. now rewrite H. Qed.
Lemma strip_head : forall s c r, strip s = c :: r -> is_space c = false.
Proof.
  intros s c r H. destruct (lstrip s) as [|c0 r0] eqn:E.
  - rewrite (strip_nil s E) in H. discriminate.
  - rewrite (strip_cons s c0 r0 E) in H. inversion H; subst. eapply lstrip_head; eauto.
Qed.
Lemma strip_nonspace_cons : forall c r, is_space c = false -> strip (c :: r) = c :: rstrip r.
Proof. intros c r H. apply strip_cons. now apply lstrip_nonspace. Qed.
Theorem strip_idem : forall s, strip (strip s) = strip s.
Proof.
  intros s. destruct (lstrip s) as [|c r] eqn:E.
  - now rewrite (strip_nil s E).
  - rewrite (strip_cons s c r E). rewrite strip_nonspace_cons by (eapply lstrip_head; eauto). now rewrite rstrip_idem.
Qed.

(* ---- lower *)
Lemma lstrip_lower : forall s, lstrip (lower s) = lower (lstrip s).
Proof.
  induction s as [|a s IH]; simpl; [reflexivity|]. rewrite is_space_lower. destruct (is_space a); [exact IH | reflexivity].
Qed.
Lemma rstrip_lower : forall s, rstrip (lower s) = lower (rstrip s).
Proof.
  intros. unfold rstrip. replace (rev (lower s)) with (lower (rev s)) by (unfold lower; apply map_rev).
  rewrite lstrip_lower. unfold lower. now rewrite map_rev.
Qed.
Lemma strip_lower : forall s, strip (lower s) = lower (strip s).
Proof. intros. unfold strip. now rewrite lstrip_lower, rstrip_lower. Qed.
Lemma lower_idem : forall s, lower (lower s) = lower s.
Proof. intros. unfold lower. rewrite map_map. apply map_ext. apply lower_char_idem. Qed.

(* ---- comments *)
Definition nobang (s : str) : bool := forallb (fun c => negb (Ascii.eqb c bang)) s.

Lemma nobang_cut : forall s, nobang (cut_comment s) = true.
Proof. induction s as [|c s IH]; simpl; [reflexivity|]. destruct (Ascii.eqb c bang) eqn:E; simpl; [reflexivity|]. now rewrite E. Qed.
Lemma cut_nobang : forall s, nobang s = true -> cut_comment s = s.
Proof.
  induction s as [|c s IH]; simpl; intros H; [reflexivity|]. apply andb_prop in H. destruct H as [H1 H2].
  destruct (Ascii.eqb c bang); [discriminate|]. now rewrite IH.
Qed.
Lemma cut_app_bang : forall y z, nobang y = true -> cut_comment (y ++ bang :: z) = y.
Proof.
  induction y as [|c y IH]; simpl; intros z H; [reflexivity|]. apply andb_prop in H. destruct H as [H1 H2].
  destruct (Ascii.eqb c bang); [discriminate|]. now rewrite IH.
Qed.
Lemma nobang_lstrip : forall s, nobang s = true -> nobang (lstrip s) = true.
Proof.
  induction s as [|c s IH]; simpl; intros H; [reflexivity|]. apply andb_prop in H. destruct H as [H1 H2].
  destruct (is_space c); [auto|]. simpl. now rewrite H1, H2.
Qed.
Lemma nobang_rev : forall s, nobang s = true -> nobang (rev s) = true.
Proof.
  intros s H. unfold nobang in *. rewrite forallb_forall in *. intros x Hx. apply H. now apply in_rev.
Qed.
Lemma nobang_strip : forall s, nobang s = true -> nobang (strip s) = true.
Proof. intros s H. unfold strip, rstrip. apply nobang_rev, nobang_lstrip, nobang_rev, nobang_lstrip, H. Qed.
Lemma nobang_lower : forall s, nobang s = true -> nobang (lower s) = true.
Proof.
  induction s as [|c s IH]; simpl; intros H; [reflexivity|]. apply andb_prop in H. destruct H as [H1 H2].
  rewrite lower_char_bang, H1. simpl. now apply IH.
Qed.

(* ---- the two per-line passes of read_clean_lines *)
Definition pass1 (s : str) : str := cut_comment (strip s).
Definition pass2 (s : str) : str := strip (lower s).
Lemma clean_passes : forall ls, clean ls = map pass2 (filter nonempty (map pass1 ls)).
Proof. intros. unfold clean. now rewrite !map_map. Qed.

(* what every cleaned line looks like *)
Definition canon (o : str) : Prop := strip o = o /\ nobang o = true /\ lower o = o /\ nonempty o = true.

Lemma pass_canon : forall s, nonempty (pass1 s) = true -> canon (pass2 (pass1 s)).
Proof.
  intros s N. unfold pass2. set (x := pass1 s) in *. repeat split.
  - apply strip_idem.
  - apply nobang_strip, nobang_lower. apply nobang_cut.
  - now rewrite <- strip_lower, lower_idem.
  - unfold x, pass1 in *. destruct (strip s) as [|c r] eqn:E; [discriminate|].
    pose proof (strip_head s c r E) as Hc. simpl in *. destruct (Ascii.eqb c bang); [discriminate|].
    simpl. rewrite strip_nonspace_cons by now rewrite is_space_lower. reflexivity.
Qed.

Lemma canon_fixed : forall o, canon o -> nonempty (pass1 o) = true /\ pass2 (pass1 o) = o.
Proof.
  intros o [S [B [L N]]]. unfold pass1, pass2. rewrite S, (cut_nobang o B), L, S. now split.
Qed.

Lemma clean_canon : forall ls, Forall canon (clean ls).
Proof.
  intros ls. rewrite clean_passes. induction ls as [|s ls IH]; simpl; [constructor|].
  destruct (nonempty (pass1 s)) eqn:N; [|exact IH]. simpl. constructor; [now apply pass_canon | exact IH].
Qed.

Lemma clean_fixed : forall l, Forall canon l -> clean l = l.
Proof.
  intros l H. rewrite clean_passes. induction H as [|o l Ho _ IH]; simpl; [reflexivity|].
  destruct (canon_fixed o Ho) as [N E]. rewrite N. simpl. now rewrite E, IH.
Qed.

Theorem clean_idempotent : forall ls, clean (clean ls) = clean ls.
Proof. intros. apply clean_fixed, clean_canon. Qed.

(* everything from the first '!' of a line on is dropped: the line means what its text before the '!' means *)
Theorem clean_drops_comments : forall a b, nobang a = true -> clean [a ++ bang :: b] = clean [a].
Proof.
  intros a b H. rewrite !clean_passes. simpl.
  assert (E1 : pass1 (a ++ bang :: b) = lstrip a).
  { unfold pass1, strip. rewrite (lstrip_app_nonspace a bang b eq_refl).
    rewrite (rstrip_app_nonspace (lstrip a) bang b eq_refl). apply cut_app_bang. now apply nobang_lstrip. }
  assert (E2 : pass1 a = strip a) by (unfold pass1; apply cut_nobang; now apply nobang_strip).
  rewrite E1, E2. destruct (lstrip a) as [|c r] eqn:E.
  - now rewrite (strip_nil a E).
  - rewrite (strip_cons a c r E). simpl. pose proof (lstrip_head a c r E) as Hc.
    unfold pass2. rewrite !strip_lower. rewrite !strip_nonspace_cons by exact Hc. now rewrite rstrip_idem.
Qed.

(* comment-only and blank lines disappear *)
Theorem clean_drops_blank : forall a b ls, forallb is_space a = true -> clean ((a ++ bang :: b) :: ls) = clean ls /\ clean (a :: ls) = clean ls.
Proof.
  intros a b ls H. rewrite !clean_passes.
  assert (L : forall t, lstrip (a ++ t) = lstrip t).
  { induction a as [|c a IH]; simpl in *; intros t; [reflexivity|]. apply andb_prop in H. destruct H as [H1 H2].
    rewrite H1. now apply IH. }
  split; simpl.
  - unfold pass1 at 1. unfold strip. rewrite L. rewrite (lstrip_nonspace bang b eq_refl).
    rewrite (rstrip_cons_nonspace bang b eq_refl). simpl. reflexivity.
  - unfold pass1 at 1. unfold strip. rewrite <- (app_nil_r a), L. simpl. reflexivity.
Qed.

(* ================================================================== the repaired code (F41: merge_fixed, F40: define_header true) *)
(* ---- F41: wherever the code as it was returns a result, the repaired code returns the same *)
Lemma absorb_fixed_agrees : forall d rm rest cur c r,
  absorb d rm cur rest = Some (c, r) -> absorb_fixed d rm cur rest = (c, r).
Proof.
  induction rest as [|x rest IH]; intros cur c r H; simpl in *.
  - destruct (ends_with d cur); [discriminate|now inversion H].
  - destruct (ends_with d cur); [now apply IH|now inversion H].
Qed.

Lemma merge_raw_fixed_agrees : forall fuel d rm ls out,
  merge_raw fuel d rm ls = Some out -> merge_raw_fixed fuel d rm ls = out.
Proof.
  induction fuel as [|f IH]; intros d rm ls out H; simpl in *; [now inversion H|].
  destruct ls as [|x [|y rest]]; [now inversion H|now inversion H|].
  destruct (absorb d rm x (y :: rest)) as [[c r]|] eqn:A; [|discriminate].
  rewrite (absorb_fixed_agrees _ _ _ _ _ _ A).
  destruct (merge_raw f d rm r) as [o|] eqn:M; [|discriminate].
  inversion H; subst. now rewrite (IH _ _ _ _ M).
Qed.

Theorem merge_fixed_agrees : forall d rm ls out,
  merge_continued d rm ls = Some out -> merge_continued_fixed d rm ls = Some out.
Proof.
  intros d rm ls out H. unfold merge_continued in H. unfold merge_continued_fixed, merge_fixed.
  destruct (merge_raw (length ls) d rm ls) as [o|] eqn:M; [|discriminate].
  inversion H; subst. now rewrite (merge_raw_fixed_agrees _ _ _ _ _ M).
Qed.

(* ...hence the inverse law of continuation splitting carries over *)
Theorem merge_split_inverse_fixed : forall d rm ps,
  Forall (well_split d rm) ps ->
  merge_continued_fixed d rm (concat (map (stmt_lines d rm) ps)) = Some (map strip (map stmt_text ps)).
Proof. intros d rm ps W. apply merge_fixed_agrees. now apply merge_split_inverse. Qed.

(* the repaired loop cannot run off the end: a result for every input (no IndexError) *)
Theorem merge_fixed_total : forall d rm ls, exists out, merge_continued_fixed d rm ls = Some out.
Proof. intros. eexists. reflexivity. Qed.

(* the witnesses of merge_last_line_refuted: the statement that runs into the end of the file is kept, with its mark *)
Theorem merge_last_line_fixed :
  merge_continued_fixed comma false [of_s "a,"%string; of_s "b,"%string] = Some [of_s "a,b,"%string] /\
  merge_continued_fixed comma false [of_s "x"%string; of_s "a,"%string; of_s "b,"%string; of_s "c,"%string]
    = Some [of_s "x"%string; of_s "a,b,c,"%string] /\
  merge_continued_fixed amp true [of_s "a &"%string; of_s "b &"%string] = Some [of_s "a b &"%string] /\
  front_end_fixed [of_s "lat: line = (d, d)"%string; of_s "d: drift,"%string; of_s "L = 1,"%string]
    = [of_s "lat: line = (d, d)"%string; of_s "d: drift,l = 1,"%string].
Proof. repeat split; vm_compute; reflexivity. Qed.

(* ---- F40: characters (256 cases each) *)
Lemma space_not_type : forall c, is_space c = true -> type_char c = false.
Proof. destruct c as [[] [] [] [] [] [] [] []]; intros H; try reflexivity; discriminate H. Qed.
Lemma space_not_name : forall c, is_space c = true -> name_char c = false.
Proof. destruct c as [[] [] [] [] [] [] [] []]; intros H; try reflexivity; discriminate H. Qed.

Lemma take_while_app : forall p (a b : str), forallb p a = true ->
  match b with [] => True | c :: _ => p c = false end -> take_while p (a ++ b) = a.
Proof.
  induction a as [|x a IH]; simpl; intros b Ha Hb.
  - destruct b as [|c r]; [reflexivity|]. simpl. now rewrite Hb.
  - apply andb_prop in Ha. destruct Ha as [Hx Ha]. rewrite Hx. f_equal. now apply IH.
Qed.
Lemma drop_while_app : forall p (a b : str), forallb p a = true ->
  match b with [] => True | c :: _ => p c = false end -> drop_while p (a ++ b) = b.
Proof.
  induction a as [|x a IH]; simpl; intros b Ha Hb.
  - destruct b as [|c r]; [reflexivity|]. simpl. now rewrite Hb.
  - apply andb_prop in Ha. destruct Ha as [Hx Ha]. rewrite Hx. now apply IH.
Qed.

Lemma head_of_spaces_then : forall (p : ascii -> bool) sp c (rest : str),
  (forall x, is_space x = true -> p x = false) -> p c = false -> forallb is_space sp = true ->
  match sp ++ c :: rest with [] => True | x :: _ => p x = false end.
Proof.
  intros p sp c rest Hs Hc H. destruct sp as [|x sp]; simpl; [exact Hc|].
  simpl in H. apply andb_prop in H. apply Hs. tauto.
Qed.

(* the head of a definition written  NAME s1 : s2 TYPE sp , REST  (s1, s2, sp: white space) *)
Definition def_line (name s1 s2 ty sp rest : str) : str := name ++ s1 ++ colon :: s2 ++ ty ++ sp ++ comma :: rest.

Lemma define_header_prefix : forall fx name s1 s2 ty tail,
  name <> [] -> forallb name_char name = true -> ty <> [] -> forallb type_char ty = true ->
  forallb is_space s1 = true -> forallb is_space s2 = true ->
  match tail with [] => True | x :: _ => type_char x = false end ->
  define_header fx (name ++ s1 ++ colon :: s2 ++ ty ++ tail) =
  match define_tail (if fx then drop_while is_space tail else tail) with
  | Some props => Some (name, ty, props)
  | None => None
  end.
Proof.
  intros fx name s1 s2 ty tail Hn Hnc Ht Htc H1 H2 Htail. unfold define_header.
  assert (Hcolon : match s1 ++ colon :: s2 ++ ty ++ tail with [] => True | x :: _ => name_char x = false end).
  { apply head_of_spaces_then; [exact space_not_name|reflexivity|exact H1]. }
  rewrite (take_while_app name_char name _ Hnc Hcolon), (drop_while_app name_char name _ Hnc Hcolon).
  rewrite (drop_while_app is_space s1 (colon :: s2 ++ ty ++ tail) H1 eq_refl).
  destruct name as [|n0 name']; [congruence|].
  change (Ascii.eqb colon colon) with true. cbv iota.
  assert (Hty : match ty ++ tail with [] => True | x :: _ => is_space x = false end).
  { destruct ty as [|t0 ty']; [congruence|]. simpl. simpl in Htc. apply andb_prop in Htc. destruct Htc as [Ht0 _].
    destruct (is_space t0) eqn:E; [|reflexivity]. apply space_not_type in E. congruence. }
  rewrite (drop_while_app is_space s2 (ty ++ tail) H2 Hty).
  rewrite (take_while_app type_char ty tail Htc Htail), (drop_while_app type_char ty tail Htc Htail).
  destruct ty as [|t0 ty']; [congruence|]. reflexivity.
Qed.

(* repaired: white space between the type and the first comma is accepted, the properties are what follows the comma *)
Theorem define_header_fixed_space : forall name s1 s2 ty sp rest,
  name <> [] -> forallb name_char name = true -> ty <> [] -> forallb type_char ty = true ->
  forallb is_space s1 = true -> forallb is_space s2 = true -> forallb is_space sp = true -> existsb newline rest = false ->
  define_header true (def_line name s1 s2 ty sp rest) = Some (name, ty, Some rest).
Proof.
  intros name s1 s2 ty sp rest Hn Hnc Ht Htc H1 H2 Hsp Hr. unfold def_line.
  rewrite (define_header_prefix true name s1 s2 ty (sp ++ comma :: rest) Hn Hnc Ht Htc H1 H2).
  - rewrite (drop_while_app is_space sp (comma :: rest) Hsp eq_refl). simpl. now rewrite Hr.
  - apply head_of_spaces_then; [exact space_not_type|reflexivity|exact Hsp].
Qed.

(* as it was: accepted without white space in front of the comma, and only then (F40) *)
Theorem define_header_nospace : forall name s1 s2 ty rest,
  name <> [] -> forallb name_char name = true -> ty <> [] -> forallb type_char ty = true ->
  forallb is_space s1 = true -> forallb is_space s2 = true -> existsb newline rest = false ->
  define_header false (def_line name s1 s2 ty [] rest) = Some (name, ty, Some rest).
Proof.
  intros name s1 s2 ty rest Hn Hnc Ht Htc H1 H2 Hr. unfold def_line.
  rewrite (define_header_prefix false name s1 s2 ty ([] ++ comma :: rest) Hn Hnc Ht Htc H1 H2); [|reflexivity].
  simpl. now rewrite Hr.
Qed.

Theorem define_header_space_refuted : forall name s1 s2 ty sp rest,
  name <> [] -> forallb name_char name = true -> ty <> [] -> forallb type_char ty = true ->
  forallb is_space s1 = true -> forallb is_space s2 = true -> forallb is_space sp = true -> sp <> [] ->
  define_header false (def_line name s1 s2 ty sp rest) = None.
Proof.
  intros name s1 s2 ty sp rest Hn Hnc Ht Htc H1 H2 Hsp Hne. unfold def_line.
  rewrite (define_header_prefix false name s1 s2 ty (sp ++ comma :: rest) Hn Hnc Ht Htc H1 H2).
  - destruct sp as [|x sp]; [congruence|]. simpl. simpl in Hsp. apply andb_prop in Hsp. destruct Hsp as [Hx _].
    replace (Ascii.eqb x comma) with false; [reflexivity|].
    destruct x as [[] [] [] [] [] [] [] []]; try reflexivity; discriminate Hx.
  - apply head_of_spaces_then; [exact space_not_type|reflexivity|exact Hsp].
Qed.

(* the repair changes nothing where the pattern matched before *)
Lemma drop_space_tail : forall r p, define_tail r = Some p -> drop_while is_space r = r.
Proof.
  intros [|c r] p H; [reflexivity|]. simpl in *. destruct (Ascii.eqb c comma) eqn:E; [|discriminate].
  apply Ascii.eqb_eq in E. subst c. reflexivity.
Qed.
Theorem define_header_fixed_agrees : forall line r, define_header false line = Some r -> define_header true line = Some r.
Proof.
  intros line r H. unfold define_header in *.
  destruct (take_while name_char line) as [|n0 nm]; [discriminate|].
  destruct (drop_while is_space (drop_while name_char line)) as [|c r2]; [discriminate|].
  destruct (Ascii.eqb c colon); [|discriminate].
  destruct (take_while type_char (drop_while is_space r2)) as [|t0 ty]; [discriminate|].
  destruct (define_tail (drop_while type_char (drop_while is_space r2))) as [p|] eqn:T; [|discriminate].
  now rewrite (drop_space_tail _ _ T), T.
Qed.

Example define_header_examples :
  define_header false (of_s "q: quad , l = 0.1, k1 = 2"%string) = None /\
  define_header true (of_s "q: quad , l = 0.1, k1 = 2"%string) = Some (of_s "q"%string, of_s "quad"%string, Some (of_s " l = 0.1, k1 = 2"%string)) /\
  define_header true (of_s "m.1 :mark"%string) = Some (of_s "m.1"%string, of_s "mark"%string, None) /\
  define_header true (of_s "lat: line = (a, b)"%string) = None.
Proof. repeat split; vm_compute; reflexivity. Qed.
