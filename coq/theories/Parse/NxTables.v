(** Parse/NxTables.v -- model of cheetah/converters/nxtables.py : convert_lattice_to_cheetah
    (translate each row, drop ignored classes, stable sort by Z_beam, fill the gaps with drifts, flatten).
    Model only; proofs are in NxTablesProofs.v.

    The layout algorithm is generic in the number types: positions [S] (the tabulated centre) and lengths [N].
      * instance Q / Q : exact arithmetic, used for the theorems (nx_sorted, nx_total_length, nx_centres);
      * instance float / float : the arithmetic the code performs (Python float positions, binary32 tensor lengths:
        drift = f32(f32(f32(s_cur - s_prev) - len_prev / 2) - len_cur / 2)), used for the bit-exact correspondence. *)
From Coq Require Import List String Ascii Bool ZArith QArith PrimFloat.
From Cheetah Require Import Parse.LatticeLang.
Import ListNotations.
Open Scope string_scope.

Section Layout.
Variables S N : Type.
Variable dist : S -> S -> N.             (* centre-to-centre distance  current - previous *)
Variable sub : N -> N -> N.
Variable add : N -> N -> N.
Variable half : N -> N.
Variable is_neg : N -> bool.             (* x < 0 *)
Variable is_pos : N -> bool.             (* x > 0 *)
Variable sleb : S -> S -> bool.          (* a <= b on positions *)
Variable nzero : N.

(* a translated row: the flattened leaves (class, name, length) it contributes, its name, its centre *)
Record nxel := { e_name : string; e_leaves : list (string * string * N); e_s : S }.

Definition e_len (e : nxel) : N := fold_left add (map (fun l => snd l) (tl (e_leaves e)))
                                             (match e_leaves e with l :: _ => snd l | [] => nzero end).

(* sorted(filtered, key = s_position): stable; insertion sort inserting AFTER equal keys *)
Fixpoint insert (e : nxel) (l : list nxel) : list nxel :=
  match l with
  | [] => [e]
  | x :: r => if sleb (e_s x) (e_s e) then x :: insert e r else e :: l
  end.
Fixpoint isort_rev (l : list nxel) (acc : list nxel) : list nxel :=
  match l with
  | [] => acc
  | x :: r => isort_rev r (insert x acc)
  end.
Definition sort_by_s (l : list nxel) : list nxel := isort_rev l [].

Inductive item := IElem (e : nxel) | IDrift (name : string) (len : N).

Definition gap (p c : nxel) : N := sub (sub (dist (e_s c) (e_s p)) (half (e_len p))) (half (e_len c)).

(* the zip(sorted[:-1], sorted[1:]) loop; None = the overlap assertion fails *)
Fixpoint fill (p : nxel) (rest : list nxel) : option (list item) :=
  match rest with
  | [] => Some []
  | c :: rest' =>
    let g := gap p c in
    if is_neg g then None
    else match fill c rest' with
         | None => None
         | Some out =>
           Some (List.app (if is_pos g then [IDrift ("DRIFT_" ++ e_name p ++ "_" ++ e_name c) g] else []) (IElem c :: out))
         end
  end.

Definition layout (els : list nxel) : option (list item) :=
  match sort_by_s els with
  | [] => None                                            (* sorted_filtered[0]: IndexError *)
  | f :: rest => match fill f rest with None => None | Some out => Some (IElem f :: out) end
  end.

Definition item_leaves (i : item) : list (string * string * N) :=
  match i with
  | IElem e => e_leaves e
  | IDrift n l => [("Drift", n, l)]
  end.
Definition flatten (l : list item) : list (string * string * N) := flat_map item_leaves l.
End Layout.

Arguments e_name {_ _}. Arguments e_leaves {_ _}. Arguments e_s {_ _}.
Arguments IElem {_ _}. Arguments IDrift {_ _}. Arguments Build_nxel {_ _}.

(* ------------------------------------------------------------------ exact instance *)
Definition qneg (x : Q) : bool := negb (Qle_bool 0 x).
Definition qpos (x : Q) : bool := negb (Qle_bool x 0).
Definition qhalf (x : Q) : Q := (x / 2)%Q.
Definition qlayout := @layout Q Q Qminus Qminus Qplus qhalf qneg qpos Qle_bool 0%Q.

(* ------------------------------------------------------------------ the arithmetic of the code *)
Definition f32sub (a b : float) : float := round32 (PrimFloat.sub a b).
Definition flayout := @layout float float
                             (fun c p => round32 (PrimFloat.sub c p)) f32sub f32add (fun x => PrimFloat.div x two)
                             (fun x => PrimFloat.ltb x zero) (fun x => PrimFloat.ltb zero x) PrimFloat.leb zero.

(* ------------------------------------------------------------------ translate_element: the class table *)
Definition ignore_classes : list string :=
  ["RSBG"; "MSOB"; "MSOH"; "MSOG"; "VVAG"; "BSCL"; "MIRA"; "BAML"; "SCRL"; "TEMG"; "FCNG"; "SOLE"; "EOLE"; "MSOL"; "BELS";
   "VVAF"; "MIRM"; "SCRY"; "FPSA"; "VPUL"; "SOLC"; "SCRE"; "SOLX"; "ICTB"; "BSCS"].
Definition marker_classes : list string :=
  ["SOLG"; "BCMG"; "EOLG"; "SOLS"; "EOLS"; "SOLA"; "EOLA"; "SOLT"; "BSTB"; "TORF"; "EOLT"; "SOLO"; "EOLO"; "SOLB"; "EOLB";
   "ECHA"; "MKBB"; "MKBE"; "MKPM"; "EOLC"; "SOLM"; "EOLM"; "SOLH"; "BSCD"; "STDE"; "ECHS"; "EOLH"; "WINA"; "LINA"; "EOLX"].

(* class -> (cheetah class, binary32 length) *)
Definition simple_class (cls : string) : option (string * float) :=
  if mem cls ["BSCX"; "BSCR"; "BSCM"; "BSCO"; "BSCA"; "BSCE"; "SCRD"] then Some ("Screen", zero)
  else if mem cls ["BPMG"; "BPML"] then Some ("BPM", zero)
  else if mem cls ["SLHG"; "SLHB"; "SLHS"] then Some ("Aperture", zero)
  else if String.eqb cls "MCHM" then Some ("HorizontalCorrector", 0x1.47ae14p-6%float)     (* 0.02 *)
  else if String.eqb cls "MCVM" then Some ("VerticalCorrector", 0x1.47ae14p-6%float)
  else if String.eqb cls "MBHL" then Some ("Dipole", 0x1.49ba5ep-2%float)                  (* 0.322 *)
  else if String.eqb cls "MBHB" then Some ("Dipole", 0x1.c28f5cp-3%float)                  (* 0.22 *)
  else if String.eqb cls "MBHO" then Some ("Dipole", 0x1.c10cdp-2%float)                   (* 0.43852543421396856 *)
  else if String.eqb cls "MQZM" then Some ("Quadrupole", 0x1.f3b646p-4%float)              (* 0.122 *)
  else if String.eqb cls "RSBL" then Some ("Cavity", 0x1.08e56p+2%float)                   (* 4.139 *)
  else if String.eqb cls "RXBD" then Some ("Cavity", one)
  else if String.eqb cls "UNDA" then Some ("Undulator", 0x1p-2%float)                      (* 0.25 *)
  else if mem cls marker_classes then Some ("Marker", zero)
  else None.

Definition coil_len : float := 0x1.a36e2ep-15%float.                                      (* 5e-05 *)

Fixpoint take (n : nat) (s : string) : string :=
  match n, s with
  | S m, String c r => String c (take m r)
  | _, _ => EmptyString
  end.
Fixpoint drop (n : nat) (s : string) : string :=
  match n, s with
  | S m, String _ r => drop m r
  | _, _ => s
  end.

(* Some None = row dropped; None = the converter raises *)
Definition translate (name cls : string) (s : float) : option (option (nxel float float)) :=
  if mem cls ignore_classes then Some None
  else if String.eqb cls "MCXG" then
    match String.get 6 name with
    | Some c =>
      if Ascii.eqb c "X"%char then
        Some (Some {| e_name := name;
                      e_leaves := [("HorizontalCorrector", take 6 name ++ "H" ++ drop 7 name, coil_len);
                                   ("VerticalCorrector", take 6 name ++ "V" ++ drop 7 name, coil_len)];
                      e_s := s |})
      else None
    | None => None
    end
  else match simple_class cls with
       | Some (c, l) => Some (Some {| e_name := name; e_leaves := [(c, name, l)]; e_s := s |})
       | None => None
       end.

Fixpoint translate_all (rows : list (string * string * float)) : option (list (nxel float float)) :=
  match rows with
  | [] => Some []
  | (n, c, s) :: r =>
    match translate n c s, translate_all r with
    | Some (Some e), Some l => Some (e :: l)
    | Some None, Some l => Some l
    | _, _ => None
    end
  end.

Definition nx_import (rows : list (string * string * float)) : option (list (string * string * float)) :=
  match translate_all rows with
  | None => None
  | Some els => match flayout els with None => None | Some its => Some (@flatten float float its) end
  end.

Definition leaf_eqb (a b : string * string * float) : bool :=
  match a, b with (c, n, l), (c', n', l') => String.eqb c c' && String.eqb n n' && PrimFloat.eqb l l' end.
Fixpoint leaves_eqb (a b : list (string * string * float)) : bool :=
  match a, b with
  | [], [] => true
  | x :: a', y :: b' => leaf_eqb x y && leaves_eqb a' b'
  | _, _ => false
  end.

(* correspondence case: rows (name, class, Z_beam) and the observed flattened segment (None = raised) *)
Definition nx_check (case : list (string * string * float) * option (list (string * string * float))) : bool :=
  match nx_import (fst case), snd case with
  | Some m, Some o => leaves_eqb m o
  | None, None => true
  | _, _ => false
  end.
