(** Parse/NxTablesProofs.v -- laws of the NX-table layout (Parse/NxTables.v) in exact arithmetic (Q instance). *)
From Coq Require Import List String Bool QArith Qfield Sorted Permutation Lia.
From Cheetah Require Import Parse.NxTables.
Import ListNotations.
Local Open Scope Q_scope.

Notation qel := (nxel Q Q).
Notation qitem := (item Q Q).
Definition qlen (e : qel) : Q := @e_len Q Q Qplus 0 e.
Definition qfill := @fill Q Q Qminus Qminus Qplus qhalf qneg qpos 0.
Definition qgap := @gap Q Q Qminus Qminus Qplus qhalf 0.
Definition qsort := @sort_by_s Q Q Qle_bool.
Definition qinsert := @insert Q Q Qle_bool.

Definition ilen (i : qitem) : Q := match i with IElem e => qlen e | IDrift _ l => l end.
Definition total (l : list qitem) : Q := fold_right (fun i acc => ilen i + acc) 0 l.

(* walking along the beam line from longitudinal position [pos]: every tabulated element is centred on its Z_beam *)
Fixpoint centres_ok (pos : Q) (l : list qitem) : Prop :=
  match l with
  | [] => True
  | IDrift _ d :: r => centres_ok (pos + d) r
  | IElem e :: r => pos + qlen e / 2 == e_s e /\ centres_ok (pos + qlen e) r
  end.

Lemma centres_ok_proper : forall l p q, p == q -> centres_ok p l -> centres_ok q l.
Proof.
  induction l as [|[e|n d] l IH]; intros p q E H; simpl in *; [exact I| |].
  - destruct H as [H1 H2]. split; [now rewrite <- E|]. apply (IH (p + qlen e)); [now rewrite E | exact H2].
  - apply (IH (p + d)); [now rewrite E | exact H].
Qed.

Lemma qneg_false : forall x, qneg x = false -> 0 <= x.
Proof. intros x H. unfold qneg in H. apply negb_false_iff in H. now apply Qle_bool_iff. Qed.
Lemma qpos_false : forall x, qpos x = false -> x <= 0.
Proof. intros x H. unfold qpos in H. apply negb_false_iff in H. now apply Qle_bool_iff. Qed.
Lemma qpos_true : forall x, qpos x = true -> 0 < x.
Proof.
  intros x H. unfold qpos in H. apply negb_true_iff in H. apply Qnot_le_lt. intro L.
  apply Qle_bool_iff in L. congruence.
Qed.

Lemma gap_eq : forall p c, qgap p c == (e_s c - e_s p) - qlen p / 2 - qlen c / 2.
Proof. intros. unfold qgap, gap, qhalf, qlen. reflexivity. Qed.

Lemma qfill_cons : forall p c rest,
  qfill p (c :: rest) =
  if qneg (qgap p c) then None
  else match qfill c rest with
       | None => None
       | Some out => Some (List.app (if qpos (qgap p c) then [IDrift (String.append "DRIFT_"%string (String.append (e_name p) (String.append "_"%string (e_name c)))) (qgap p c)] else [])
                                    (IElem c :: out))
       end.
Proof. reflexivity. Qed.

(* nx_centres: if the converter accepts the table (no overlap), every element's centre lies at its tabulated position,
   in the coordinate in which the previous (first) element's centre lies at its own tabulated position *)
Theorem nx_centres_fill : forall rest p out,
  qfill p rest = Some out -> centres_ok (e_s p + qlen p / 2) out.
Proof.
  induction rest as [|c rest IH]; intros p out H.
  - inversion H. exact I.
  - rewrite qfill_cons in H.
    destruct (qneg (qgap p c)) eqn:N; [discriminate|].
    destruct (qfill c rest) as [out'|] eqn:F; [|discriminate].
    specialize (IH c out' F). pose proof (gap_eq p c) as G.
    destruct (qpos (qgap p c)) eqn:P; inversion H; subst; simpl.
    + split.
      * rewrite G. field.
      * apply (centres_ok_proper _ (e_s c + qlen c / 2)); [rewrite G; field | exact IH].
    + assert (Z : qgap p c == 0) by (apply Qle_antisym; [now apply qpos_false | now apply qneg_false]).
      rewrite G in Z. split.
      * setoid_replace (e_s p + qlen p / 2 + qlen c / 2) with (e_s c - (e_s c - e_s p - qlen p / 2 - qlen c / 2)) by field.
        rewrite Z. field.
      * apply (centres_ok_proper _ (e_s c + qlen c / 2)); [|exact IH].
        setoid_replace (e_s p + qlen p / 2 + qlen c) with (e_s c + qlen c / 2 - (e_s c - e_s p - qlen p / 2 - qlen c / 2)) by field.
        rewrite Z. field.
Qed.

(* the whole output, walked from the entrance of the first element placed so that its centre is at its Z_beam *)
Theorem nx_centres : forall els its,
  qlayout els = Some its ->
  match its with
  | IElem f :: _ => centres_ok (e_s f - qlen f / 2) its
  | _ => False
  end.
Proof.
  intros els its H. unfold qlayout, layout in H. fold qsort in H.
  destruct (qsort els) as [|f rest]; [discriminate|].
  fold qfill in H. destruct (qfill f rest) as [out|] eqn:F; [|discriminate]. inversion H; subst.
  simpl. split; [field|].
  apply (centres_ok_proper _ (e_s f + qlen f / 2)); [field | exact (nx_centres_fill rest f out F)].
Qed.

(* nx_total_length: the total length is the span of the tabulated centres plus the two half end elements *)
Theorem nx_total_length_fill : forall rest p out,
  qfill p rest = Some out ->
  e_s p + qlen p / 2 + total out == e_s (last rest p) + qlen (last rest p) / 2.
Proof.
  induction rest as [|c rest IH]; intros p out H.
  - inversion H. simpl. field.
  - rewrite qfill_cons in H.
    destruct (qneg (qgap p c)) eqn:N; [discriminate|].
    destruct (qfill c rest) as [out'|] eqn:F; [|discriminate].
    specialize (IH c out' F). pose proof (gap_eq p c) as G.
    assert (L : last (c :: rest) p = last rest c).
    { clear. revert c p. induction rest as [|a r IHr]; intros c p; [reflexivity|].
      change (last (c :: a :: r) p) with (last (a :: r) p). now rewrite (IHr a p), (IHr a c). }
    rewrite L, <- IH.
    destruct (qpos (qgap p c)) eqn:P; inversion H; subst; simpl.
    + rewrite G. field.
    + assert (Z : qgap p c == 0) by (apply Qle_antisym; [now apply qpos_false | now apply qneg_false]).
      rewrite G in Z.
      setoid_replace (e_s p + qlen p / 2 + (qlen c + total out')) with
        (e_s c + qlen c / 2 + total out' - (e_s c - e_s p - qlen p / 2 - qlen c / 2)) by field.
      rewrite Z. field.
Qed.

Theorem nx_total_length : forall els its,
  qlayout els = Some its ->
  exists f rest, qsort els = f :: rest /\
    total its == (e_s (last rest f) - e_s f) + qlen f / 2 + qlen (last rest f) / 2.
Proof.
  intros els its H. unfold qlayout, layout in H. fold qsort in H.
  destruct (qsort els) as [|f rest]; [discriminate|].
  fold qfill in H. destruct (qfill f rest) as [out|] eqn:F; [|discriminate]. inversion H; subst.
  exists f, rest. split; [reflexivity|]. simpl. pose proof (nx_total_length_fill rest f out F) as T.
  setoid_replace (qlen f + total out) with ((e_s f + qlen f / 2 + total out) - e_s f + qlen f / 2) by field.
  rewrite T. field.
Qed.

(* ------------------------------------------------------------------ nx_sorted *)
Definition elems_of (l : list qitem) : list qel :=
  flat_map (fun i => match i with IElem e => [e] | IDrift _ _ => [] end) l.

Lemma elems_of_fill : forall rest p out, qfill p rest = Some out -> elems_of out = rest.
Proof.
  induction rest as [|c rest IH]; intros p out H.
  - now inversion H.
  - rewrite qfill_cons in H. destruct (qneg (qgap p c)); [discriminate|].
    destruct (qfill c rest) as [out'|] eqn:F; [|discriminate].
    destruct (qpos (qgap p c)); inversion H; subst; simpl; now rewrite (IH c out' F).
Qed.

Definition s_le (a b : qel) : Prop := e_s a <= e_s b.

Lemma insert_perm : forall e l, Permutation (e :: l) (qinsert e l).
Proof.
  induction l as [|x l IH]; simpl; [apply Permutation_refl|].
  destruct (Qle_bool (e_s x) (e_s e)); [|apply Permutation_refl].
  eapply perm_trans; [apply perm_swap|]. now apply perm_skip.
Qed.

Lemma insert_sorted : forall e l, Sorted s_le l -> Sorted s_le (qinsert e l).
Proof.
  induction l as [|x l IH]; intros S; simpl.
  - repeat constructor.
  - destruct (Qle_bool (e_s x) (e_s e)) eqn:C.
    + inversion S as [|? ? S' Hd]; subst. constructor; [now apply IH|].
      destruct l as [|y l]; simpl.
      * constructor. now apply Qle_bool_iff.
      * destruct (Qle_bool (e_s y) (e_s e)); constructor; [now inversion Hd | now apply Qle_bool_iff].
    + constructor; [exact S|]. constructor. unfold s_le.
      apply Qlt_le_weak. apply Qnot_le_lt. intro L. apply Qle_bool_iff in L. congruence.
Qed.

Lemma isort_rev_spec : forall l acc, Sorted s_le acc ->
  Sorted s_le (@isort_rev Q Q Qle_bool l acc) /\ Permutation (l ++ acc) (@isort_rev Q Q Qle_bool l acc).
Proof.
  induction l as [|x l IH]; intros acc S; simpl.
  - split; [exact S | apply Permutation_refl].
  - destruct (IH (qinsert x acc) (insert_sorted x acc S)) as [S' P']. split; [exact S'|].
    eapply perm_trans; [|exact P']. eapply perm_trans; [apply Permutation_middle|].
    apply Permutation_app_head. apply insert_perm.
Qed.

(* nx_sorted: the elements of the output are the rows of the table (each exactly once) in order of Z_beam *)
Theorem nx_sorted : forall els its,
  qlayout els = Some its ->
  Sorted s_le (elems_of its) /\ Permutation els (elems_of its).
Proof.
  intros els its H. unfold qlayout, layout in H. fold qsort in H.
  destruct (isort_rev_spec els [] (Sorted_nil _)) as [S P]. rewrite app_nil_r in P.
  fold (@sort_by_s Q Q Qle_bool els) in S, P. fold qsort in S, P.
  destruct (qsort els) as [|f rest]; [discriminate|].
  fold qfill in H. destruct (qfill f rest) as [out|] eqn:F; [|discriminate]. inversion H; subst.
  simpl. rewrite (elems_of_fill rest f out F). split; assumption.
Qed.

(* the converter refuses overlapping elements: a negative gap anywhere means no output *)
Theorem nx_overlap_rejected : forall p c rest, qgap p c < 0 -> qfill p (c :: rest) = None.
Proof.
  intros p c rest H. rewrite qfill_cons. unfold qneg.
  destruct (Qle_bool 0 (qgap p c)) eqn:E; [|reflexivity].
  apply Qle_bool_iff in E. exfalso. apply (Qlt_not_le _ _ H E).
Qed.
