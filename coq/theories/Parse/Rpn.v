(** Parse/Rpn.v -- reverse Polish notation (Elegant style) for the arithmetic expressions of Parse/LatticeLang.v.
    Model only (laws in RpnProofs.v):
      - a token list and a stack machine [eval_rpn] over it (the usual RPN reading: an operand is pushed; an operator pops
        its RIGHT operand first, then its LEFT operand, and pushes  left op right);
      - [rpn_of]: the post-order rendering of an expression tree;
      - [rpn3]: what cheetah accepts (cheetah/converters/utils/rpn.py): exactly  OPERAND OPERAND OPERATOR  separated by single
        blanks, operator one of + - * /, each operand any blank-free (infix) expression; eval_expression evaluates
        eval(" ".join([splits[0], splits[2], splits[1]])), i.e.  first <op> second.
    Numbers are binary64 as in LatticeLang.evalf; None = Python raises. *)
From Coq Require Import List String Bool ZArith PrimFloat.
From Cheetah Require Import Parse.LatticeLang.
Import ListNotations.

Inductive binop := OAdd | OSub | OMul | ODiv.

Inductive tok :=
| KNum (x : float)                  (* literal (a negative literal is one token: -2) *)
| KVar (n : string)                 (* variable / named constant *)
| KAttr (obj prop : string)         (* q1[k1] *)
| KStr (s : string)                 (* a string is not a number: the machine stops *)
| KOp (o : binop)
| KNeg | KPow (k : Z) | KSqrt | KAbs.   (* unary operations of the expression language, for the post-order rendering of any tree *)

Definition apply_bin (o : binop) (x y : float) : option float :=
  match o with
  | OAdd => Some (PrimFloat.add x y)
  | OSub => Some (PrimFloat.sub x y)
  | OMul => Some (PrimFloat.mul x y)
  | ODiv => if is_zero y then None else Some (PrimFloat.div x y)
  end.

Definition apply_pow (x : float) (k : Z) : option float :=
  match k with
  | Z0 => Some one
  | Zpos p => Some (pow_pos x (Pos.to_nat p))
  | Zneg p => if is_zero x then None else Some (PrimFloat.div one (pow_pos x (Pos.to_nat p)))
  end.

(* one step of the stack machine; the head of the list is the TOP of the stack *)
Definition rpn_step (c : ctx) (t : tok) (st : list float) : option (list float) :=
  match t with
  | KNum x => Some (x :: st)
  | KVar n => match get c n with Some (VNum x) => Some (x :: st) | _ => None end
  | KAttr o p =>
    match get c o with
    | Some (VElem ps) => match get ps p with Some (PNum x) => Some (x :: st) | _ => None end
    | _ => None
    end
  | KStr _ => None
  | KOp o => match st with y :: x :: r => z <- apply_bin o x y ;; Some (z :: r) | _ => None end   (* top = right operand *)
  | KNeg => match st with x :: r => Some (PrimFloat.opp x :: r) | _ => None end
  | KPow k => match st with x :: r => z <- apply_pow x k ;; Some (z :: r) | _ => None end
  | KSqrt => match st with x :: r => if PrimFloat.ltb x zero then None else Some (PrimFloat.sqrt x :: r) | _ => None end
  | KAbs => match st with x :: r => Some (PrimFloat.abs x :: r) | _ => None end
  end.

Fixpoint rpn_run (c : ctx) (ts : list tok) (st : list float) : option (list float) :=
  match ts with
  | [] => Some st
  | t :: r => st' <- rpn_step c t st ;; rpn_run c r st'
  end.

(* the value of an RPN expression: run on the empty stack, exactly one value must remain *)
Definition eval_rpn (c : ctx) (ts : list tok) : option float :=
  match rpn_run c ts [] with Some [x] => Some x | _ => None end.

(* post-order rendering of an expression tree *)
Fixpoint rpn_of (e : expr) : list tok :=
  match e with
  | ENum x => [KNum x]
  | EStr s => [KStr s]
  | EVar n => [KVar n]
  | EAttr o p => [KAttr o p]
  | ENeg a => rpn_of a ++ [KNeg]
  | EAdd a b => rpn_of a ++ rpn_of b ++ [KOp OAdd]
  | ESub a b => rpn_of a ++ rpn_of b ++ [KOp OSub]
  | EMul a b => rpn_of a ++ rpn_of b ++ [KOp OMul]
  | EDiv a b => rpn_of a ++ rpn_of b ++ [KOp ODiv]
  | EPow a k => rpn_of a ++ [KPow k]
  | ESqrt a => rpn_of a ++ [KSqrt]
  | EAbs a => rpn_of a ++ [KAbs]
  end.

Definition ebin (o : binop) (a b : expr) : expr :=
  match o with OAdd => EAdd a b | OSub => ESub a b | OMul => EMul a b | ODiv => EDiv a b end.

(* rpn.eval_expression on  "A B op":  eval("A op B")  -- A and B are blank-free infix expressions (their trees a, b) *)
Definition rpn3 (c : ctx) (a b : expr) (o : binop) : option float :=
  x <- evalf c a ;; y <- evalf c b ;; apply_bin o x y.

(* ------------------------------------------------------------------ comparison with an observation of the code (exact)
   a case: the context as (name, value) pairs, the two operand trees, the operator, and what
   fortran_namelist.evaluate_expression returned for the text  "A B op"  (None = it raised) *)
Definition ctx_of (vars : list (string * float)) : ctx := (map (fun kv => (fst kv, VNum (snd kv))) vars ++ ctx0)%list.

Definition float_same (x y : float) : bool :=
  PrimFloat.eqb x y.     (* as LatticeLang.pval_eqb: a Python int 0 has no sign *)

Definition rpn_check (case : list (string * float) * expr * expr * binop * option float) : bool :=
  match case with
  | (vars, a, b, o, obs) =>
    let c := ctx_of vars in
    match eval_rpn c (rpn_of a ++ rpn_of b ++ [KOp o]), rpn3 c a b o, evalf c (ebin o a b), obs with
    | Some x, Some y, Some z, Some w => float_same x w && float_same y w && float_same z w
    | None, None, None, None => true
    | _, _, _, _ => false
    end
  end.
