(** Parse/RpnProofs.v -- an RPN expression denotes the value of its expression tree, operand order included. *)
From Coq Require Import List String Bool ZArith PrimFloat.
From Cheetah Require Import Parse.LatticeLang Parse.Rpn.
Import ListNotations.

Lemma rpn_run_app : forall c a b st,
  rpn_run c (a ++ b) st = match rpn_run c a st with Some st' => rpn_run c b st' | None => None end.
Proof.
  induction a as [|t a IH]; intros b st; simpl; [reflexivity|].
  destruct (rpn_step c t st) as [st'|]; [apply IH|reflexivity].
Qed.

(* the machine, run on the post-order rendering of e in front of any continuation k, pushes the value of e (or stops where
   Python raises) *)
Lemma rpn_run_of : forall c e k st,
  rpn_run c (rpn_of e ++ k) st = match evalf c e with Some x => rpn_run c k (x :: st) | None => None end.
Proof.
  induction e as [x|s|n|o p|a IHa|a IHa b IHb|a IHa b IHb|a IHa b IHb|a IHa b IHb|a IHa z|a IHa|a IHa]; intros k st; simpl.
  - reflexivity.
  - reflexivity.
  - destruct (get c n) as [[x|s|ps|items]|]; reflexivity.
  - destruct (get c o) as [[x|s|ps|items]|]; try reflexivity. destruct (get ps p) as [[x|s]|]; reflexivity.
  - rewrite <- app_assoc, IHa. destruct (evalf c a); reflexivity.
  - rewrite <- !app_assoc, IHa. destruct (evalf c a) as [x|]; [|reflexivity].
    rewrite IHb. destruct (evalf c b) as [y|]; reflexivity.
  - rewrite <- !app_assoc, IHa. destruct (evalf c a) as [x|]; [|reflexivity].
    rewrite IHb. destruct (evalf c b) as [y|]; reflexivity.
  - rewrite <- !app_assoc, IHa. destruct (evalf c a) as [x|]; [|reflexivity].
    rewrite IHb. destruct (evalf c b) as [y|]; reflexivity.
  - rewrite <- !app_assoc, IHa. destruct (evalf c a) as [x|]; [|reflexivity].
    rewrite IHb. destruct (evalf c b) as [y|]; [|reflexivity]. simpl. destruct (is_zero y); reflexivity.
  - rewrite <- app_assoc, IHa. destruct (evalf c a) as [x|]; [|reflexivity]. simpl.
    destruct z as [|q|q]; simpl; try reflexivity. destruct (is_zero x); reflexivity.
  - rewrite <- app_assoc, IHa. destruct (evalf c a) as [x|]; [|reflexivity]. simpl. destruct (PrimFloat.ltb x zero); reflexivity.
  - rewrite <- app_assoc, IHa. destruct (evalf c a) as [x|]; reflexivity.
Qed.

(* main theorem: evaluating the post-order rendering of an expression tree gives the value of the tree (None where Python raises) *)
Theorem rpn_of_ast_eval : forall c e, eval_rpn c (rpn_of e) = evalf c e.
Proof.
  intros c e. unfold eval_rpn. rewrite <- (app_nil_r (rpn_of e)), rpn_run_of.
  destruct (evalf c e); reflexivity.
Qed.

(* operand order:  A B op  denotes  A op B  (the operator's right operand is the one pushed last) *)
Theorem rpn_binary_order : forall c a b o,
  eval_rpn c (rpn_of a ++ rpn_of b ++ [KOp o]) = (x <- evalf c a ;; y <- evalf c b ;; apply_bin o x y).
Proof.
  intros c a b o. unfold eval_rpn. rewrite rpn_run_of. destruct (evalf c a) as [x|]; [|reflexivity].
  rewrite rpn_run_of. destruct (evalf c b) as [y|]; [|reflexivity]. simpl.
  destruct (apply_bin o x y); reflexivity.
Qed.

Lemma evalf_ebin : forall c o a b, evalf c (ebin o a b) = (x <- evalf c a ;; y <- evalf c b ;; apply_bin o x y).
Proof. intros c [] a b; reflexivity. Qed.

(* cheetah's three-token form is the stack machine's reading and the value of the tree  a op b *)
Theorem rpn3_is_eval_rpn : forall c a b o,
  rpn3 c a b o = eval_rpn c (rpn_of a ++ rpn_of b ++ [KOp o]) /\ rpn3 c a b o = evalf c (ebin o a b).
Proof.
  intros c a b o. split; [now rewrite rpn_binary_order|now rewrite evalf_ebin].
Qed.

(* non-vacuity: subtraction and division are not symmetric -- swapping the operands is visible *)
Example rpn_order_matters :
  eval_rpn ctx0 [KNum 2%float; KNum 0.75%float; KOp OSub] = Some 1.25%float /\
  eval_rpn ctx0 [KNum 0.75%float; KNum 2%float; KOp OSub] = Some (-1.25)%float /\
  eval_rpn ctx0 [KNum 1.5%float; KNum (-2)%float; KOp ODiv] = Some (-0.75)%float /\
  eval_rpn ctx0 [KNum 3%float; KNum 1%float; KNum 2%float; KOp OAdd; KOp OSub] = Some 0%float /\
  eval_rpn ctx0 [KNum 1%float; KOp OAdd] = None /\ eval_rpn ctx0 [KNum 1%float; KNum 2%float] = None.
Proof. repeat split; reflexivity. Qed.
