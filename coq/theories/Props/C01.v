(** C01 -- Segment tracking is the ordered composition of its elements.
    Only property theorems live here: each is closed by [exact] of a lemma proved elsewhere
    and followed by [Print Assumptions]. *)
From Coq Require Import List Bool String ZArith.
From Cheetah Require Import Base.Mat Lattice.Track Lattice.TrackProofs Lattice.ZInst Lattice.ZProofs.
Import ListNotations.

Section C01.
(* any map monoid [M] acting on any beam type [B] (particles or mean/covariance), any leaves *)
Variables (M B E L Len : Type) (one : M) (mul : M -> M -> M) (app : M -> B -> B) (en : B -> E).
Variables (skip : L -> bool) (tmap : L -> E -> M) (ltrack : L -> B -> B) (lname : L -> string).
Variables (llen : L -> Len) (lzero : Len) (ladd : Len -> Len -> Len).
Hypothesis app_one : forall b, app one b = b.
Hypothesis app_mul : forall a c b, app (mul a c) b = app a (app c b).
Hypothesis en_app : forall m b, en (app m b) = en b.
(* leaf contract: a skippable leaf tracks by applying its own transfer map at the beam's energy *)
Hypothesis contract : leaf_contract app en skip tmap ltrack.

Notation Track := (track one mul app en skip tmap ltrack).

(* Segment.track = the elements one after another, for every nesting, ordering and beam *)
Theorem C01_track_eq_fold : forall (e : elem L) (b : B), Track e b = track1 ltrack e b.
Proof. exact (@track_eq_fold M B E L one mul app en skip tmap ltrack app_one app_mul en_app contract). Qed.

(* the two-pass `todos` algorithm of the code: maximal skippable runs, in order, nothing lost *)
Theorem C01_todos_partition : forall (es run : list (elem L)),
  List.concat (map (@todo_elems L) (group skip es run)) = run ++ es.
Proof. exact (@group_concat L skip). Qed.

Theorem C01_todos_wellformed : forall (es run : list (elem L)),
  forallb (skippable skip) run = true -> todos_ok skip (group skip es run) false = true.
Proof. exact (@group_ok L skip). Qed.

Theorem C01_track_is_todo_fold : forall n (es : list (elem L)) b,
  forallb (skippable skip) es = false ->
  Track (Seg n es) b = fold_left (todo_track one mul app en skip tmap ltrack) (group skip es []) b.
Proof. exact (@track_group M B E L one mul app en skip tmap ltrack). Qed.

(* grouping independence *)
Theorem C01_flattened : forall (e : elem L) b, Track (flattened e) b = Track e b.
Proof. exact (@track_flattened M B E L one mul app en skip tmap ltrack app_one app_mul en_app contract). Qed.

Theorem C01_nest : forall n m (es1 es2 es3 : list (elem L)) b,
  Track (Seg n (es1 ++ Seg m es2 :: es3)) b = Track (Seg n (es1 ++ es2 ++ es3)) b.
Proof. exact (@track_nest M B E L one mul app en skip tmap ltrack app_one app_mul en_app contract). Qed.

Theorem C01_subcells_in_turn : forall n n1 n2 (es1 es2 : list (elem L)) b,
  Track (Seg n (es1 ++ es2)) b = Track (Seg n2 es2) (Track (Seg n1 es1) b).
Proof. exact (@track_cut M B E L one mul app en skip tmap ltrack app_one app_mul en_app contract). Qed.

(* lengths *)
Hypothesis ladd_0_l : forall x, ladd lzero x = x.
Hypothesis ladd_0_r : forall x, ladd x lzero = x.
Hypothesis ladd_assoc : forall x y z, ladd (ladd x y) z = ladd x (ladd y z).

Theorem C01_length_flattened : forall (e : elem L),
  elen llen lzero ladd (flattened e) = elen llen lzero ladd e.
Proof. exact (@length_flattened L Len llen lzero ladd ladd_0_l ladd_0_r ladd_assoc). Qed.

Theorem C01_length_cut : forall n n1 n2 (es1 es2 : list (elem L)),
  elen llen lzero ladd (Seg n (es1 ++ es2)) =
  ladd (elen llen lzero ladd (Seg n1 es1)) (elen llen lzero ladd (Seg n2 es2)).
Proof. exact (@length_cut L Len llen lzero ladd ladd_0_l ladd_0_r ladd_assoc). Qed.

Theorem C01_subcell_is_slice : forall start stop (pre : list (elem L)) s mid x post,
  ename lname s = start -> ename lname x = stop ->
  (forall e, In e pre -> ename lname e <> start /\ ename lname e <> stop) ->
  (forall e, In e (s :: mid) -> ename lname e <> stop) ->
  subcell lname (pre ++ s :: mid ++ x :: post) start stop = s :: mid ++ [x].
Proof. exact (@subcell_slice L lname). Qed.
End C01.

(* the hypotheses are satisfiable: the executable integer instance that is run against the
   implementation meets them, so the theorems hold of it *)
Theorem C01_Z_instance : forall e b, ztrack e b = ztrack1 e b.
Proof. exact ztrack_eq_fold. Qed.

Open Scope Z_scope.
Example C01_nonvacuous :
  let m1 := mkleaf "m1" 1 (KMap (sp zI [(0%nat, 1%nat, 2)]) (sp zZ [(4%nat, 5%nat, 1)])) false false in
  let n1 := mkleaf "n1" 2 (KNon 1 1 5) false false in
  let c1 := mkleaf "c1" 0 (KCtm (sp zI [(2%nat, 6%nat, 3)])) false false in
  let t := Seg "root" [Leaf m1; Seg "inner" [Leaf c1; Leaf n1; Leaf m1]; Leaf (mkleaf "mk" 0 KMarker false false)] in
  let b := Parts [mk7 1 2 0 1 0 1 1; mk7 3 (-1) 2 0 1 0 1] 3 [1; 2] [1; 1] in
  ztrack t b = Parts [mk7 13 2 3 1 8 1 1; mk7 0 (-1) 5 0 2 0 1] 4 [1; 2] [0; 1].
Proof. vm_compute. reflexivity. Qed.

Print Assumptions C01_track_eq_fold.
Print Assumptions C01_todos_partition.
Print Assumptions C01_todos_wellformed.
Print Assumptions C01_track_is_todo_fold.
Print Assumptions C01_flattened.
Print Assumptions C01_nest.
Print Assumptions C01_subcells_in_turn.
Print Assumptions C01_length_flattened.
Print Assumptions C01_length_cut.
Print Assumptions C01_subcell_is_slice.
Print Assumptions C01_Z_instance.
Print Assumptions C01_nonvacuous.
