(** C02 -- Linear maps equal the exact flow of each element's linear optics.
    Only property theorems live here: each is closed by [exact] of a lemma proved in Optics/*.v and
    followed by [Print Assumptions].  The maps ([drift_map], [base_untilted], [quad_map], [sol_body],
    [hcor_map], ...) are the formula-by-formula transcription of cheetah in Optics/Maps.v; the
    Hamiltonians / generators are in Optics/Flow.v.
    [is_flow A M] means  M 0 = I  /\  forall s i j, d/ds M(s)[i][j] = (A . M(s))[i][j]  (Coquelicot [is_derive]),
    which characterises M(s) = exp(s A). *)
From Coq Require Import Reals.
From Coquelicot Require Import Coquelicot.
From Cheetah Require Import Base.Mat Optics.Maps Optics.Flow Optics.FlowProofs Optics.SolProofs Optics.ConjProofs Optics.GuardProofs
  Optics.UndFixed Optics.UndFixedFlow.
Open Scope R_scope.

(** the generators are S6 . Hess(H) for the stated quadratic Hamiltonians, with S6 = diag(J2, J2, -J2) *)
Theorem C02_hamiltonian_sbend : forall kx ky h b ig v,
  qform (hess_sbend kx ky h b ig) v =
  (c1 v * c1 v + c3 v * c3 v) / 2 + kx * (c0 v * c0 v) / 2 + ky * (c2 v * c2 v) / 2 - h * c0 v * c5 v / b + ig / b² * (c5 v * c5 v) / 2.
Proof. exact qform_sbend. Qed.
Theorem C02_generator_sbend : forall kx ky h b ig,
  rmmul S6 (hess_sbend kx ky h b ig) =
  mk7 (row 0 1 0 0 0 0 0) (row (- kx) 0 0 0 0 (h / b) 0) (row 0 0 0 1 0 0 0) (row 0 0 (- ky) 0 0 0 0)
      (row (h / b) 0 0 0 0 (- ig / b²) 0) (row 0 0 0 0 0 0 0) (row 0 0 0 0 0 0 0).
Proof. exact generator_sbend. Qed.
Theorem C02_hamiltonian_solenoid : forall k b ig v,
  qform (hess_sol k b ig) v =
  ((c1 v + k * c2 v) * (c1 v + k * c2 v) + (c3 v - k * c0 v) * (c3 v - k * c0 v)) / 2 + ig / b² * (c5 v * c5 v) / 2.
Proof. exact qform_sol. Qed.
Theorem C02_generator_solenoid : forall k b ig, rmmul S6 (hess_sol k b ig) = gen_sol k b ig.
Proof. exact generator_sol. Qed.

(** relativistic factors of the reference energy *)
Theorem C02_rel_factors : forall E L, m_e < E ->
  let g := gamma_of E in let b := beta_of E in
  g = E / m_e /\ 1 < g /\ igamma2_of E = 1 / g² /\ b² = 1 - 1 / g² /\ 0 < b < 1 /\ b² * g² = g² - 1 /\
  drift_r56 L E = - L / (b² * g²).
Proof. exact rel_factors. Qed.

(** drift *)
Theorem C02_drift_flow : forall E,
  is_flow (rmmul S6 (hess_sbend 0 0 0 (beta_of E) (igamma2_of E))) (fun L => drift_map L E).
Proof. exact drift_flow_H. Qed.

(** quadrupole, either sign of k1 (k1 <> 0; at k1 = 0 see the guard bound below) *)
Theorem C02_quad_flow : forall k1 E, k1 <> 0 ->
  is_flow (rmmul S6 (hess_sbend k1 (- k1) 0 (beta_of E) (igamma2_of E))) (fun L => quad_map L k1 0 0 0 E).
Proof. exact quad_map_flow_H. Qed.
Theorem C02_quad_focusing_entries : forall L k1 E, 0 < k1 ->
  m7nth (base_untilted L k1 0 E) 0 0 = cos (sqrt k1 * L) /\ m7nth (base_untilted L k1 0 E) 0 1 = sin (sqrt k1 * L) / sqrt k1 /\
  m7nth (base_untilted L k1 0 E) 2 2 = cosh (sqrt k1 * L) /\ m7nth (base_untilted L k1 0 E) 2 3 = sinh (sqrt k1 * L) / sqrt k1.
Proof. exact quad_entries_pos. Qed.
Theorem C02_quad_defocusing_entries : forall L k1 E, k1 < 0 ->
  m7nth (base_untilted L k1 0 E) 0 0 = cosh (sqrt (- k1) * L) /\ m7nth (base_untilted L k1 0 E) 0 1 = sinh (sqrt (- k1) * L) / sqrt (- k1) /\
  m7nth (base_untilted L k1 0 E) 2 2 = cos (sqrt (- k1) * L) /\ m7nth (base_untilted L k1 0 E) 2 3 = sin (sqrt (- k1) * L) / sqrt (- k1).
Proof. exact quad_entries_neg. Qed.

(** tilt and misalignment: Quadrupole.transfer_map = R_exit . rot(-t) . body . rot(t) . R_entry, the conjugating
    matrices are mutually inverse, and conjugating a flow by them gives the flow of the conjugated generator,
    i.e. of the Hamiltonian expressed in the rotated / shifted coordinates *)
Theorem C02_quad_map_decomposition : forall L k1 mx my t E, t <> 0 -> (mx <> 0 \/ my <> 0) ->
  quad_map L k1 mx my t E =
  rmmul (mis_exit mx my) (rmmul (rmmul (rot (- t)) (rmmul (base_untilted L k1 0 E) (rot t))) (mis_entry mx my)).
Proof. exact quad_map_decomposition. Qed.
Theorem C02_rot_inverse : forall t, rmmul (rot (- t)) (rot t) = rI /\ rmmul (rot t) (rot (- t)) = rI.
Proof. exact (fun t => conj (rot_inv t) (rot_inv' t)). Qed.
Theorem C02_misalignment_inverse : forall mx my,
  rmmul (mis_exit mx my) (mis_entry mx my) = rI /\ rmmul (mis_entry mx my) (mis_exit mx my) = rI.
Proof. exact (fun mx my => conj (mis_inv mx my) (mis_inv' mx my)). Qed.
Theorem C02_conjugated_flow : forall (P Q A : M7 R) (M : R -> M7 R),
  rmmul Q P = rI -> rmmul P Q = rI -> is_flow A M ->
  is_flow (rmmul Q (rmmul A P)) (fun s => rmmul Q (rmmul (M s) P)).
Proof. exact conj_flow. Qed.
Theorem C02_tilted_quad_flow : forall k1 t E, k1 <> 0 -> t <> 0 ->
  is_flow (rmmul (rot (- t)) (rmmul (rmmul S6 (hess_sbend k1 (- k1) 0 (beta_of E) (igamma2_of E))) (rot t)))
          (fun L => quad_map L k1 0 0 t E).
Proof. exact tilted_quad_flow. Qed.
Theorem C02_misaligned_tilted_quad_flow : forall k1 mx my t E, k1 <> 0 -> t <> 0 -> (mx <> 0 \/ my <> 0) ->
  is_flow (rmmul (mis_exit mx my)
            (rmmul (rmmul (rot (- t)) (rmmul (rmmul S6 (hess_sbend k1 (- k1) 0 (beta_of E) (igamma2_of E))) (rot t)))
                   (mis_entry mx my)))
          (fun L => quad_map L k1 mx my t E).
Proof. exact misaligned_tilted_quad_flow. Qed.

(** combined-function sector bend body: curvature h, gradient k1, all sign regimes of kx2 = k1 + h^2 and ky2 = -k1,
    including dispersion (R16, R26), path length (R51, R52) and R56 *)
Theorem C02_sbend_flow : forall k1 h E, k1 <> 0 -> k1 + h² <> 0 ->
  is_flow (rmmul S6 (hess_sbend (k1 + h²) (- k1) h (beta_of E) (igamma2_of E))) (fun L => base_untilted L k1 h E).
Proof. exact sbend_flow_H. Qed.
(* as coded (k1 = 0 replaced by 1e-12) *)
Theorem C02_sbend_flow_as_coded : forall k1 h E, kx2 k1 h <> 0 ->
  is_flow (rmmul S6 (hess_sbend (kx2 k1 h) (ky2 k1) h (beta_of E) (igamma2_of E))) (fun L => base_untilted L k1 h E).
Proof. exact sbend_flow_coded_H. Qed.

(** dipole = rot(-tilt) . Edge2 . Body . Edge1 . rot(tilt); edges are the hard-edge pole-face kicks; RBend edge relation *)
Theorem C02_dipole_decomposition : forall L angle k1 e1 e2 tilt gap fint fint_exit E, L <> 0 ->
  let hx := angle / L in
  dip_map L angle k1 e1 e2 tilt gap fint fint_exit E =
  rmmul (rot (- tilt))
    (rmmul (rmmul (edge_map hx e2 (edge_phi fint_exit hx gap e2))
                  (rmmul (base_untilted L k1 hx E) (edge_map hx e1 (edge_phi fint hx gap e1))))
           (rot tilt)).
Proof. exact dip_map_decomposition. Qed.
Theorem C02_edge_spec : forall h e phi v,
  rmvec (edge_map h e phi) v =
  mk7 (c0 v) (c1 v + h * tan e * c0 v) (c2 v) (c3 v - h * tan (e - phi) * c2 v) (c4 v) (c5 v) (c6 v).
Proof. exact edge_map_spec. Qed.
Theorem C02_rbend_edges : forall L angle k1 re1 re2 tilt gap fint fint_exit E,
  rbend_map L angle k1 re1 re2 tilt gap fint fint_exit E =
  dip_map L angle k1 (re1 + angle / 2) (re2 + angle / 2) tilt gap fint fint_exit E.
Proof. exact rbend_edges. Qed.

(** solenoid *)
Theorem C02_solenoid_flow : forall k E, m_e < E -> k <> 0 ->
  is_flow (rmmul S6 (hess_sol k (beta_of E) (igamma2_of E))) (fun L => sol_body L k E).
Proof. exact solenoid_flow_H. Qed.
Theorem C02_solenoid_k0_is_drift : forall L E, m_e < E -> sol_body L 0 E = drift_map L E.
Proof. exact solenoid_k0_is_drift. Qed.

(** correctors: a drift followed by a kick of exactly the set angle *)
Theorem C02_hcorrector : forall L a E, hcor_map L a E = rmmul (kick_x a) (drift_map L E).
Proof. exact hcor_is_drift_then_kick. Qed.
Theorem C02_vcorrector : forall L a E, vcor_map L a E = rmmul (kick_y a) (drift_map L E).
Proof. exact vcor_is_drift_then_kick. Qed.
Theorem C02_kick_x_adds_angle : forall a v, c6 v = 1 ->
  rmvec (kick_x a) v = mk7 (c0 v) (c1 v + a) (c2 v) (c3 v) (c4 v) (c5 v) (c6 v).
Proof. exact kick_x_spec. Qed.
Theorem C02_kick_y_adds_angle : forall a v, c6 v = 1 ->
  rmvec (kick_y a) v = mk7 (c0 v) (c1 v) (c2 v) (c3 v + a) (c4 v) (c5 v) (c6 v).
Proof. exact kick_y_spec. Qed.

(** markers, BPMs, screens, apertures leave coordinates untouched; a zero-voltage cavity is the k1 = 0 quadrupole *)
Theorem C02_identity_elements : forall v, rmvec identity_map v = v.
Proof. exact identity_elements. Qed.
Theorem C02_cavity_off : forall L E, cavity_off_map L E = quad_map L 0 0 0 0 E.
Proof. exact cavity_off_is_quad_k0. Qed.

(** k1 = 0: the code substitutes k1 := 1e-12, so the switched-off quadrupole / cavity equals the drift only up to
    the explicit bound 2e-12 L (1 + L + L^2), entrywise, for 0 <= L <= 100 (finding F20: scoped, not a defect) *)
Theorem C02_quad_k0_guard_bound : forall L E i j, 0 <= L <= 100 -> (i < 7)%nat -> (j < 7)%nat ->
  Rabs (m7nth (quad_map L 0 0 0 0 E) i j - m7nth (drift_map L E) i j) <= 2e-12 * L * (1 + L + L * L).
Proof. exact quad_k0_guard_bound. Qed.

(** refuted: genuine defects of the code, faithfully modelled *)
(* F3: Undulator R56 = +L/gamma^2 > 0, while the drift has -L/(beta^2 gamma^2) < 0 *)
Theorem C02_undulator_map_refuted : forall L E, m_e < E -> 0 < L ->
  m7nth (und_map L E) 4 5 = L / (gamma_of E)² /\ 0 < m7nth (und_map L E) 4 5 /\
  m7nth (drift_map L E) 4 5 < 0 /\ und_map L E <> drift_map L E.
Proof. exact undulator_map_refuted. Qed.
(* F4: a zero-length dipole with a non-zero angle puts the angle into entry [2][6] (a vertical position offset) *)
Theorem C02_dipole_L0_refuted : forall angle k1 E, angle <> 0 ->
  m7nth (dip_map 0 angle k1 0 0 0 0 0 0 E) 2 6 = angle /\
  m7nth (dip_map 0 angle k1 0 0 0 0 0 0 E) 1 6 = 0 /\
  dip_map 0 angle k1 0 0 0 0 0 0 E <> rI /\ dip_map 0 angle k1 0 0 0 0 0 0 E <> kick_x angle.
Proof. exact dipole_L0_refuted. Qed.

(** non-vacuity: the hypotheses are satisfiable and the flow statement has content *)
Example C02_nonvacuous :
  m_e < 5e6 /\ kx2 (-3) (3 / 5) <> 0 /\
  is_derive (fun L => m7nth (base_untilted L 2 (1 / 2) 5e6) 0 5) 1 (m7nth (base_untilted 1 2 (1 / 2) 5e6) 1 5).
Proof. exact nonvacuous. Qed.

(** Undulator after the repair of finding F3 ([und_map_fixed]: R56 = -length / beta**2 * igamma2 through
    compute_relativistic_factors): it is the drift map, hence the exact flow of the drift Hamiltonian.  Which of
    [und_map] (before) / [und_map_fixed] (after) the working tree computes is checked on every run (harness/optics.py),
    selected by the status of F3 in known_findings.json. *)
Theorem C02_undulator_fixed_is_drift : forall L E, und_map_fixed L E = drift_map L E.
Proof. exact undulator_fixed_is_drift. Qed.
Theorem C02_undulator_fixed_flow : forall E,
  is_flow (rmmul S6 (hess_sbend 0 0 0 (beta_of E) (igamma2_of E))) (fun L => und_map_fixed L E).
Proof. exact undulator_fixed_flow. Qed.
Theorem C02_undulator_fixed_r56 : forall L E, m_e < E -> 0 < L ->
  m7nth (und_map_fixed L E) 4 5 = - L / ((beta_of E)² * (gamma_of E)²) /\ m7nth (und_map_fixed L E) 4 5 < 0.
Proof. exact undulator_fixed_r56. Qed.
(* the repair is not a no-op: the two transcriptions differ for every L > 0 above the rest energy *)
Theorem C02_undulator_fixed_differs_from_old : forall L E, m_e < E -> 0 < L -> und_map_fixed L E <> und_map L E.
Proof. exact undulator_fixed_differs_from_old. Qed.

Print Assumptions C02_hamiltonian_sbend.
Print Assumptions C02_generator_sbend.
Print Assumptions C02_hamiltonian_solenoid.
Print Assumptions C02_generator_solenoid.
Print Assumptions C02_rel_factors.
Print Assumptions C02_drift_flow.
Print Assumptions C02_quad_flow.
Print Assumptions C02_quad_focusing_entries.
Print Assumptions C02_quad_defocusing_entries.
Print Assumptions C02_quad_map_decomposition.
Print Assumptions C02_rot_inverse.
Print Assumptions C02_misalignment_inverse.
Print Assumptions C02_conjugated_flow.
Print Assumptions C02_tilted_quad_flow.
Print Assumptions C02_misaligned_tilted_quad_flow.
Print Assumptions C02_sbend_flow.
Print Assumptions C02_sbend_flow_as_coded.
Print Assumptions C02_dipole_decomposition.
Print Assumptions C02_edge_spec.
Print Assumptions C02_rbend_edges.
Print Assumptions C02_solenoid_flow.
Print Assumptions C02_solenoid_k0_is_drift.
Print Assumptions C02_hcorrector.
Print Assumptions C02_vcorrector.
Print Assumptions C02_kick_x_adds_angle.
Print Assumptions C02_kick_y_adds_angle.
Print Assumptions C02_identity_elements.
Print Assumptions C02_cavity_off.
Print Assumptions C02_quad_k0_guard_bound.
Print Assumptions C02_undulator_map_refuted.
Print Assumptions C02_dipole_L0_refuted.
Print Assumptions C02_nonvacuous.
Print Assumptions C02_undulator_fixed_is_drift.
Print Assumptions C02_undulator_fixed_flow.
Print Assumptions C02_undulator_fixed_r56.
Print Assumptions C02_undulator_fixed_differs_from_old.
