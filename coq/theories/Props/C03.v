(** C03 -- Maps conserve phase-space volume (symplectic; cavity damps by E_in/E_out); seventh component.
    Only property theorems live here: each is closed by [exact] of a lemma proved in Optics/SymplProofs.v
    (linear maps of Optics/Maps.v) or Bmadx/SymplX*.v (non-linear Bmad-X maps), followed by [Print Assumptions]. *)
From Coq Require Import Reals.
From Coquelicot Require Import Coquelicot.
From Cheetah Require Import Base.Mat Optics.Maps Optics.Sympl Optics.SymplProofs Bmadx.SymplX
  Optics.UndFixed Optics.UndFixedSympl.
Open Scope R_scope.

(** what "symplectic" means here: M^T S6 M = S6 on the 6x6 linear part, with
    S6 = diag(J2, J2, -J2) on (x,px | y,py | tau,delta), the tau pair carrying the negative sign *)
Theorem C03_symplectic_means : forall M : M7 R,
  symplectic M <-> rmmul (transpose (lin6 M)) (rmmul S6 (lin6 M)) = S6.
Proof. exact (fun M => iff_refl _). Qed.
Theorem C03_form :
  S6 = mk7 (row 0 1 0 0 0 0 0) (row (-1) 0 0 0 0 0 0) (row 0 0 0 1 0 0 0) (row 0 0 (-1) 0 0 0 0)
           (row 0 0 0 0 0 (-1) 0) (row 0 0 0 0 1 0 0) (row 0 0 0 0 0 0 0).
Proof. exact eq_refl. Qed.
Theorem C03_affine_means : forall M : M7 R, affine M <-> c6 M = row 0 0 0 0 0 0 1.
Proof. exact (fun M => iff_refl _). Qed.
(* the sign of the tau pair is forced by the code's own dispersive map: with +J2 it is not symplectic *)
Theorem C03_tau_sign_forced : forall E, 0 < beta_of E -> ~ symplectic_wrt S6plus (base_untilted 1 1 1 E).
Proof. exact sympl_plus_sign_refuted. Qed.

(** closure under composition (Segment merging, tilt and misalignment conjugation) *)
Theorem C03_sympl_mul : forall A B : M7 R, affine B -> symplectic A -> symplectic B -> symplectic (rmmul A B).
Proof. exact sympl_mul. Qed.
Theorem C03_seventh_row_mul : forall A B : M7 R, affine A -> affine B -> affine (rmmul A B).
Proof. exact affine_mul. Qed.

(** the identities behind base_rmatrix, all three sign regimes of the focusing strength *)
Theorem C03_cos_sin_identity : forall k L, Cf k L * Cf k L + k * Sf k L * Sf k L = 1.
Proof. exact CS_one. Qed.

(** every energy-preserving linear map is symplectic: all lengths, strengths (both signs, zero), tilts,
    misalignments, energies *)
Theorem C03_sympl_drift : forall L E, symplectic (drift_map L E).
Proof. exact sympl_drift. Qed.
Theorem C03_sympl_quadrupole : forall L k1 mx my tilt E, symplectic (quad_map L k1 mx my tilt E).
Proof. exact sympl_quad. Qed.
Theorem C03_sympl_sector_body : forall L k1 hx E, k1_guard k1 + hx² <> 0 -> symplectic (base_untilted L k1 hx E).
Proof. exact sympl_base_untilted. Qed.
Theorem C03_sympl_base_rmatrix : forall L k1 hx tilt E, k1_guard k1 + hx² <> 0 -> symplectic (base_rmatrix L k1 hx tilt E).
Proof. exact sympl_base_rmatrix. Qed.
(* the excluded point kx2 = 0 (where the code returns NaN: sin(0)/0) is really outside: the model is not symplectic there;
   and the exclusion never bites for k1 >= 0 *)
Theorem C03_sector_kx2_zero_refuted : forall E, beta_of E <> 0 -> ~ symplectic (base_untilted 1 (-1) 1 E).
Proof. exact sympl_base_kx2_zero_refuted. Qed.
Theorem C03_sector_exclusion_vacuous_for_k1_nonneg : forall k1 hx, 0 <= k1 -> k1_guard k1 + hx² <> 0.
Proof. exact kx2_nonneg_k1. Qed.
Theorem C03_sympl_dipole : forall L angle k1 e1 e2 tilt gap fint fint_exit E,
  (L = 0 \/ k1_guard k1 + (dip_hx L angle)² <> 0) ->
  symplectic (dip_map L angle k1 e1 e2 tilt gap fint fint_exit E).
Proof. exact sympl_dipole. Qed.
Theorem C03_sympl_rbend : forall L angle k1 re1 re2 tilt gap fint fint_exit E,
  (L = 0 \/ k1_guard k1 + (dip_hx L angle)² <> 0) ->
  symplectic (rbend_map L angle k1 re1 re2 tilt gap fint fint_exit E).
Proof. exact sympl_rbend. Qed.
Theorem C03_sympl_solenoid : forall L k mx my E, symplectic (sol_map L k mx my E).
Proof. exact sympl_solenoid. Qed.
Theorem C03_sympl_hcorrector : forall L angle E, symplectic (hcor_map L angle E).
Proof. exact sympl_hcor. Qed.
Theorem C03_sympl_vcorrector : forall L angle E, symplectic (vcor_map L angle E).
Proof. exact sympl_vcor. Qed.
Theorem C03_sympl_undulator : forall L E, symplectic (und_map L E).
Proof. exact sympl_undulator. Qed.
Theorem C03_sympl_cavity_off : forall L E, symplectic (cavity_off_map L E).
Proof. exact sympl_cavity_off. Qed.
Theorem C03_sympl_identity_elements : symplectic identity_map.
Proof. exact sympl_identity. Qed.
Theorem C03_sympl_rotation : forall a, symplectic (rot a).
Proof. exact sympl_rot. Qed.

(** cavity with voltage: each transverse 2x2 block has determinant exactly E_in/E_out *)
Theorem C03_cavity_block_det : forall L V phi f E,
  L <> 0 -> V <> 0 -> cos phi <> 0 -> 0 < E -> 0 < E + V * cos phi ->
  xdet (cavity_on_map L V phi f E) = E / (E + V * cos phi) /\
  ydet (cavity_on_map L V phi f E) = E / (E + V * cos phi).
Proof. exact cavity_block_det_params. Qed.
Theorem C03_cavity_emittance : forall L V phi f E Sg,
  L <> 0 -> V <> 0 -> cos phi <> 0 -> 0 < E -> 0 < E + V * cos phi ->
  cov7 Sg -> c0 (c1 Sg) = c1 (c0 Sg) -> c2 (c3 Sg) = c3 (c2 Sg) ->
  emit_x2 (rcong (cavity_on_map L V phi f E) Sg) = (E / (E + V * cos phi))² * emit_x2 Sg /\
  emit_y2 (rcong (cavity_on_map L V phi f E) Sg) = (E / (E + V * cos phi))² * emit_y2 Sg.
Proof. exact emit_cavity. Qed.
Theorem C03_cavity_on_not_symplectic : forall L V phi f E,
  L <> 0 -> V <> 0 -> cos phi <> 0 -> 0 < E -> 0 < E + V * cos phi -> ~ symplectic (cavity_on_map L V phi f E).
Proof. exact cavity_on_not_symplectic. Qed.

(** uncoupled planes: geometric emittance (squared, from second moments) under Sg |-> M Sg M^T *)
Theorem C03_emit_2x2 : forall a b c d s11 s12 s22,
  emit2 (a * (a * s11 + b * s12) + b * (a * s12 + b * s22))
        (a * (c * s11 + d * s12) + b * (c * s12 + d * s22))
        (c * (c * s11 + d * s12) + d * (c * s12 + d * s22))
  = det2 a b c d * det2 a b c d * emit2 s11 s12 s22.
Proof. exact emit2_cong. Qed.
Theorem C03_emit_invariant_x : forall M Sg,
  symplectic M -> xrows_uncoupled M -> xcols_uncoupled M -> cov7 Sg -> c0 (c1 Sg) = c1 (c0 Sg) ->
  emit_x2 (rcong M Sg) = emit_x2 Sg.
Proof. exact emit_invariant_x. Qed.
Theorem C03_emit_invariant_y : forall M Sg,
  symplectic M -> yrows_uncoupled M -> ycols_uncoupled M -> cov7 Sg -> c2 (c3 Sg) = c3 (c2 Sg) ->
  emit_y2 (rcong M Sg) = emit_y2 Sg.
Proof. exact emit_invariant_y. Qed.
Theorem C03_emit_drift : forall L E Sg, cov7 Sg -> c0 (c1 Sg) = c1 (c0 Sg) -> c2 (c3 Sg) = c3 (c2 Sg) ->
  emit_x2 (rcong (drift_map L E) Sg) = emit_x2 Sg /\ emit_y2 (rcong (drift_map L E) Sg) = emit_y2 Sg.
Proof. exact emit_drift. Qed.
Theorem C03_emit_quadrupole : forall L k1 E Sg, cov7 Sg -> c0 (c1 Sg) = c1 (c0 Sg) -> c2 (c3 Sg) = c3 (c2 Sg) ->
  emit_x2 (rcong (quad_map L k1 0 0 0 E) Sg) = emit_x2 Sg /\ emit_y2 (rcong (quad_map L k1 0 0 0 E) Sg) = emit_y2 Sg.
Proof. exact emit_quad. Qed.

(** the constant seventh component stays one under every map cheetah constructs *)
Theorem C03_seventh_row_drift : forall L E, affine (drift_map L E).
Proof. exact seventh_row_drift. Qed.
Theorem C03_seventh_row_quadrupole : forall L k1 mx my tilt E, affine (quad_map L k1 mx my tilt E).
Proof. exact seventh_row_quad. Qed.
Theorem C03_seventh_row_dipole : forall L angle k1 e1 e2 tilt gap fint fint_exit E,
  affine (dip_map L angle k1 e1 e2 tilt gap fint fint_exit E).
Proof. exact seventh_row_dipole. Qed.
Theorem C03_seventh_row_rbend : forall L angle k1 e1 e2 tilt gap fint fint_exit E,
  affine (rbend_map L angle k1 e1 e2 tilt gap fint fint_exit E).
Proof. exact seventh_row_rbend. Qed.
Theorem C03_seventh_row_solenoid : forall L k mx my E, affine (sol_map L k mx my E).
Proof. exact seventh_row_solenoid. Qed.
Theorem C03_seventh_row_hcorrector : forall L a E, affine (hcor_map L a E).
Proof. exact seventh_row_hcor. Qed.
Theorem C03_seventh_row_vcorrector : forall L a E, affine (vcor_map L a E).
Proof. exact seventh_row_vcor. Qed.
Theorem C03_seventh_row_undulator : forall L E, affine (und_map L E).
Proof. exact seventh_row_undulator. Qed.
Theorem C03_seventh_row_cavity_off : forall L E, affine (cavity_off_map L E).
Proof. exact seventh_row_cavity_off. Qed.
Theorem C03_seventh_row_cavity_on : forall L V phi f E, affine (cavity_on_map L V phi f E).
Proof. exact seventh_row_cavity_on. Qed.
Theorem C03_seventh_row_identity_elements : affine identity_map.
Proof. exact seventh_row_identity. Qed.

(** non-linear Bmad-X maps (cheetah/utils/bmadx.py), in Bmad coordinates (x,px,y,py,z,pz) where all pairs are positive *)
(* track_a_drift: on the whole paraxial region the code's displacement of (x,y,z) is the gradient form
   L*px/D, L*py/D, L*(g(pz) + 1 - (1+pz)/D), D = sqrt((1+pz)^2 - px^2 - py^2) *)
Theorem C03_driftx_is_gradient_form : forall L p0c mc2 px py pz, 0 < 1 + pz /\ dx_Pxy2 px py pz < 1 ->
  driftx_dx L px py pz = L * px / DD px py pz /\
  driftx_dy L px py pz = L * py / DD px py pz /\
  driftx_dz L p0c mc2 px py pz = L * (driftx_g p0c mc2 pz + 1 - (1 + pz) / DD px py pz).
Proof. exact (fun L p0c mc2 px py pz H => conj (driftx_dx_form L px py pz H) (conj (driftx_dy_form L px py pz H) (driftx_dz_form L p0c mc2 px py pz H))). Qed.
(* the cross derivatives of the displacement w.r.t. the momenta agree pairwise (it is a gradient), at every point *)
Theorem C03_driftx_cross_derivatives : forall L g px py pz, 0 < (1 + pz) * (1 + pz) + - (px * px) + - (py * py) ->
  let D3 := (DD px py pz) ^ 3 in
  is_derive (fun t => gx L px t pz) py (L * px * py / D3) /\ is_derive (fun t => gy L t py pz) px (L * px * py / D3) /\
  is_derive (fun t => gx L px py t) pz (- L * px * (1 + pz) / D3) /\ is_derive (fun t => gz L g t py pz) px (- L * px * (1 + pz) / D3) /\
  is_derive (fun t => gy L px py t) pz (- L * py * (1 + pz) / D3) /\ is_derive (fun t => gz L g px t pz) py (- L * py * (1 + pz) / D3).
Proof. exact driftx_cross_derivatives. Qed.
(* hence the Jacobian (momenta unchanged, positions sheared by that symmetric matrix; any diagonal entries) is symplectic *)
Theorem C03_driftx_jacobian_symplectic : forall L px py pz fxx fyy fzz,
  let D3 := (DD px py pz) ^ 3 in
  symplectic_wrt S6plus (shear fxx (L * px * py / D3) (- L * px * (1 + pz) / D3) fyy (- L * py * (1 + pz) / D3) fzz).
Proof. exact driftx_sympl. Qed.
Theorem C03_shear_symplectic : forall a b c d e f, symplectic_wrt S6plus (shear a b c d e f).
Proof. exact sympl_shear. Qed.
Theorem C03_kick_symplectic : forall a b c d e f, symplectic_wrt S6plus (kick a b c d e f).
Proof. exact sympl_kick. Qed.
(* (tau,delta) -> (z,pz): any longitudinal block of determinant -1 turns the all-positive form into cheetah's S6;
   the code's change has d z/d tau = -beta, d pz/d tau = 0, d pz/d delta = E/p = 1/beta *)
Theorem C03_coords_flip : forall n11 n12 n21 n22, n11 * n22 - n12 * n21 = -1 ->
  rmmul (transpose (lin6 (long_change n11 n12 n21 n22))) (rmmul S6plus (lin6 (long_change n11 n12 n21 n22))) = S6.
Proof. exact coords_flip. Qed.
Theorem C03_dpz_ddelta : forall E0 p0 m delta, 0 < p0 -> 0 < (E0 + delta * p0) * (E0 + delta * p0) - m * m ->
  is_derive (fun d => (sqrt ((E0 + d * p0) * (E0 + d * p0) - m * m) - p0) / p0) delta
            ((E0 + delta * p0) / sqrt ((E0 + delta * p0) * (E0 + delta * p0) - m * m)).
Proof. exact dpz_ddelta. Qed.
Theorem C03_change_coords : forall Jc Jb Nin Nout,
  rmmul (lin6 Nout) (lin6 Jc) = rmmul (lin6 Jb) (lin6 Nin) ->
  rmmul (transpose (lin6 Nin)) (rmmul S6plus (lin6 Nin)) = S6 ->
  rmmul (transpose (lin6 Nout)) (rmmul S6plus (lin6 Nout)) = S6 ->
  symplectic_wrt S6plus Jb -> symplectic Jc.
Proof. exact sympl_change_coords. Qed.
(* Bmad-X quadrupole step: the 2x2 block determinant is 1 -+ eps*sx^2 because of sqrt(|k1|+eps): symplectic up to eps only *)
Theorem C03_quadx_block_det_partial : forall k1 L eps relp, 0 < eps -> relp <> 0 ->
  det2 (qx_cx k1 L eps) (qx_sx k1 L eps / relp) (k1 * qx_sx k1 L eps * relp) (qx_cx k1 L eps)
  = 1 + (if Rle_dec k1 0 then - eps else eps) * (qx_sx k1 L eps * qx_sx k1 L eps).
Proof. exact quadx_block_det_partial. Qed.


(* non-vacuity: the hypotheses of the dipole theorem are met by an ordinary bend, and by a zero-length one *)
Example C03_nonvacuous_dipole : forall E,
  symplectic (dip_map 1 (1/2) 0 (1/10) (1/10) (1/5) (1/100) (1/2) (1/2) E) /\
  symplectic (dip_map 0 (1/2) 0 0 0 0 0 0 0 E).
Proof. exact nonvacuous_dipole. Qed.

(** Undulator after the repair of finding F3 ([und_map_fixed] of Optics/Maps.v; equal to the drift map): symplectic,
    affine, emittances kept.  [C03_sympl_undulator] / [C03_seventh_row_undulator] above are about the map before the
    repair (symplectic as well: every R56 is).  harness/props/c03.py checks on every run which of the two the code computes. *)
Theorem C03_undulator_fixed_is_drift : forall L E, und_map_fixed L E = drift_map L E.
Proof. exact und_map_fixed_is_drift. Qed.
Theorem C03_sympl_undulator_fixed : forall L E, symplectic (und_map_fixed L E).
Proof. exact sympl_undulator_fixed. Qed.
Theorem C03_seventh_row_undulator_fixed : forall L E, affine (und_map_fixed L E).
Proof. exact seventh_row_undulator_fixed. Qed.
Theorem C03_emit_undulator_fixed : forall L E Sg, cov7 Sg -> c0 (c1 Sg) = c1 (c0 Sg) -> c2 (c3 Sg) = c3 (c2 Sg) ->
  emit_x2 (rcong (und_map_fixed L E) Sg) = emit_x2 Sg /\ emit_y2 (rcong (und_map_fixed L E) Sg) = emit_y2 Sg.
Proof. exact emit_undulator_fixed. Qed.

Print Assumptions C03_symplectic_means.
Print Assumptions C03_form.
Print Assumptions C03_affine_means.
Print Assumptions C03_tau_sign_forced.
Print Assumptions C03_sympl_mul.
Print Assumptions C03_seventh_row_mul.
Print Assumptions C03_cos_sin_identity.
Print Assumptions C03_sympl_drift.
Print Assumptions C03_sympl_quadrupole.
Print Assumptions C03_sympl_sector_body.
Print Assumptions C03_sympl_base_rmatrix.
Print Assumptions C03_sector_kx2_zero_refuted.
Print Assumptions C03_sector_exclusion_vacuous_for_k1_nonneg.
Print Assumptions C03_sympl_dipole.
Print Assumptions C03_sympl_rbend.
Print Assumptions C03_sympl_solenoid.
Print Assumptions C03_sympl_hcorrector.
Print Assumptions C03_sympl_vcorrector.
Print Assumptions C03_sympl_undulator.
Print Assumptions C03_sympl_cavity_off.
Print Assumptions C03_sympl_identity_elements.
Print Assumptions C03_sympl_rotation.
Print Assumptions C03_cavity_block_det.
Print Assumptions C03_cavity_emittance.
Print Assumptions C03_cavity_on_not_symplectic.
Print Assumptions C03_emit_2x2.
Print Assumptions C03_emit_invariant_x.
Print Assumptions C03_emit_invariant_y.
Print Assumptions C03_emit_drift.
Print Assumptions C03_emit_quadrupole.
Print Assumptions C03_seventh_row_drift.
Print Assumptions C03_seventh_row_quadrupole.
Print Assumptions C03_seventh_row_dipole.
Print Assumptions C03_seventh_row_rbend.
Print Assumptions C03_seventh_row_solenoid.
Print Assumptions C03_seventh_row_hcorrector.
Print Assumptions C03_seventh_row_vcorrector.
Print Assumptions C03_seventh_row_undulator.
Print Assumptions C03_seventh_row_cavity_off.
Print Assumptions C03_seventh_row_cavity_on.
Print Assumptions C03_seventh_row_identity_elements.
Print Assumptions C03_nonvacuous_dipole.
Print Assumptions C03_driftx_is_gradient_form.
Print Assumptions C03_driftx_cross_derivatives.
Print Assumptions C03_driftx_jacobian_symplectic.
Print Assumptions C03_shear_symplectic.
Print Assumptions C03_kick_symplectic.
Print Assumptions C03_coords_flip.
Print Assumptions C03_dpz_ddelta.
Print Assumptions C03_change_coords.
Print Assumptions C03_quadx_block_det_partial.
Print Assumptions C03_undulator_fixed_is_drift.
Print Assumptions C03_sympl_undulator_fixed.
Print Assumptions C03_seventh_row_undulator_fixed.
Print Assumptions C03_emit_undulator_fixed.
