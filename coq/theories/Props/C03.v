(** C03 -- Maps conserve phase-space volume (symplectic; cavity damps by E_in/E_out); seventh component.
    Only property theorems live here: each is closed by [exact] of a lemma proved in Optics/SymplProofs.v
    (linear maps of Optics/Maps.v) or Bmadx/SymplX*.v (non-linear Bmad-X maps), followed by [Print Assumptions]. *)
From Coq Require Import Reals.
From Coquelicot Require Import Coquelicot.
From Cheetah Require Import Base.Mat Optics.Maps Optics.Sympl Optics.SymplProofs Bmadx.SymplX
  Optics.UndFixed Optics.UndFixedSympl
  Bmadx.DriftX Bmadx.Tdc Bmadx.QuadX Bmadx.QuadXProofs Bmadx.BendX Bmadx.BendXJac Bmadx.BendXFlow
  Bmadx.SymplXJac Bmadx.SymplXQuad Bmadx.SymplXBend Bmadx.SymplXTdc.
Open Scope R_scope.

(** what "symplectic" means here: M^T S6 M = S6 on the 6x6 linear part, with
    S6 = diag(J2, J2, -J2) on (x,px | y,py | tau,delta), the tau pair carrying the negative sign *)
Theorem C03_symplectic_means : forall M : M7 R,
  symplectic M <-> rmmul (transpose (lin6 M)) (rmmul S6 (lin6 M)) = S6.
Proof. exact (fun M => iff_refl _). Qed.
Theorem C03_form :
  S6 = mk7 (row 0 1 0 0 0 0 0) (row (-1) 0 0 0 0 0 0) (row 0 0 0 1 0 0 0) (row 0 0 (-1) 0 0 0 0)
           (row 0 0 0 0 0 (-1) 0) (row 0 0 0 0 1 0 0) (row 0 0 0 0 0 0 0).
Proof. exact eq_refl. Qed.
Theorem C03_affine_means : forall M : M7 R, affine M <-> c6 M = row 0 0 0 0 0 0 1.
Proof. exact (fun M => iff_refl _). Qed.
(* the sign of the tau pair is forced by the code's own dispersive map: with +J2 it is not symplectic *)
Theorem C03_tau_sign_forced : forall E, 0 < beta_of E -> ~ symplectic_wrt S6plus (base_untilted 1 1 1 E).
Proof. exact sympl_plus_sign_refuted. Qed.

(** closure under composition (Segment merging, tilt and misalignment conjugation) *)
Theorem C03_sympl_mul : forall A B : M7 R, affine B -> symplectic A -> symplectic B -> symplectic (rmmul A B).
Proof. exact sympl_mul. Qed.
Theorem C03_seventh_row_mul : forall A B : M7 R, affine A -> affine B -> affine (rmmul A B).
Proof. exact affine_mul. Qed.

(** the identities behind base_rmatrix, all three sign regimes of the focusing strength *)
Theorem C03_cos_sin_identity : forall k L, Cf k L * Cf k L + k * Sf k L * Sf k L = 1.
Proof. exact CS_one. Qed.

(** every energy-preserving linear map is symplectic: all lengths, strengths (both signs, zero), tilts,
    misalignments, energies *)
Theorem C03_sympl_drift : forall L E, symplectic (drift_map L E).
Proof. exact sympl_drift. Qed.
Theorem C03_sympl_quadrupole : forall L k1 mx my tilt E, symplectic (quad_map L k1 mx my tilt E).
Proof. exact sympl_quad. Qed.
Theorem C03_sympl_sector_body : forall L k1 hx E, k1_guard k1 + hx² <> 0 -> symplectic (base_untilted L k1 hx E).
Proof. exact sympl_base_untilted. Qed.
Theorem C03_sympl_base_rmatrix : forall L k1 hx tilt E, k1_guard k1 + hx² <> 0 -> symplectic (base_rmatrix L k1 hx tilt E).
Proof. exact sympl_base_rmatrix. Qed.
(* the excluded point kx2 = 0 (where the code returns NaN: sin(0)/0) is really outside: the model is not symplectic there;
   and the exclusion never bites for k1 >= 0 *)
Theorem C03_sector_kx2_zero_refuted : forall E, beta_of E <> 0 -> ~ symplectic (base_untilted 1 (-1) 1 E).
Proof. exact sympl_base_kx2_zero_refuted. Qed.
Theorem C03_sector_exclusion_vacuous_for_k1_nonneg : forall k1 hx, 0 <= k1 -> k1_guard k1 + hx² <> 0.
Proof. exact kx2_nonneg_k1. Qed.
Theorem C03_sympl_dipole : forall L angle k1 e1 e2 tilt gap fint fint_exit E,
  (L = 0 \/ k1_guard k1 + (dip_hx L angle)² <> 0) ->
  symplectic (dip_map L angle k1 e1 e2 tilt gap fint fint_exit E).
Proof. exact sympl_dipole. Qed.
Theorem C03_sympl_rbend : forall L angle k1 re1 re2 tilt gap fint fint_exit E,
  (L = 0 \/ k1_guard k1 + (dip_hx L angle)² <> 0) ->
  symplectic (rbend_map L angle k1 re1 re2 tilt gap fint fint_exit E).
Proof. exact sympl_rbend. Qed.
Theorem C03_sympl_solenoid : forall L k mx my E, symplectic (sol_map L k mx my E).
Proof. exact sympl_solenoid. Qed.
Theorem C03_sympl_hcorrector : forall L angle E, symplectic (hcor_map L angle E).
Proof. exact sympl_hcor. Qed.
Theorem C03_sympl_vcorrector : forall L angle E, symplectic (vcor_map L angle E).
Proof. exact sympl_vcor. Qed.
Theorem C03_sympl_undulator : forall L E, symplectic (und_map L E).
Proof. exact sympl_undulator. Qed.
Theorem C03_sympl_cavity_off : forall L E, symplectic (cavity_off_map L E).
Proof. exact sympl_cavity_off. Qed.
Theorem C03_sympl_identity_elements : symplectic identity_map.
Proof. exact sympl_identity. Qed.
Theorem C03_sympl_rotation : forall a, symplectic (rot a).
Proof. exact sympl_rot. Qed.

(** cavity with voltage: each transverse 2x2 block has determinant exactly E_in/E_out *)
Theorem C03_cavity_block_det : forall L V phi f E,
  L <> 0 -> V <> 0 -> cos phi <> 0 -> 0 < E -> 0 < E + V * cos phi ->
  xdet (cavity_on_map L V phi f E) = E / (E + V * cos phi) /\
  ydet (cavity_on_map L V phi f E) = E / (E + V * cos phi).
Proof. exact cavity_block_det_params. Qed.
Theorem C03_cavity_emittance : forall L V phi f E Sg,
  L <> 0 -> V <> 0 -> cos phi <> 0 -> 0 < E -> 0 < E + V * cos phi ->
  cov7 Sg -> c0 (c1 Sg) = c1 (c0 Sg) -> c2 (c3 Sg) = c3 (c2 Sg) ->
  emit_x2 (rcong (cavity_on_map L V phi f E) Sg) = (E / (E + V * cos phi))² * emit_x2 Sg /\
  emit_y2 (rcong (cavity_on_map L V phi f E) Sg) = (E / (E + V * cos phi))² * emit_y2 Sg.
Proof. exact emit_cavity. Qed.
Theorem C03_cavity_on_not_symplectic : forall L V phi f E,
  L <> 0 -> V <> 0 -> cos phi <> 0 -> 0 < E -> 0 < E + V * cos phi -> ~ symplectic (cavity_on_map L V phi f E).
Proof. exact cavity_on_not_symplectic. Qed.

(** uncoupled planes: geometric emittance (squared, from second moments) under Sg |-> M Sg M^T *)
Theorem C03_emit_2x2 : forall a b c d s11 s12 s22,
  emit2 (a * (a * s11 + b * s12) + b * (a * s12 + b * s22))
        (a * (c * s11 + d * s12) + b * (c * s12 + d * s22))
        (c * (c * s11 + d * s12) + d * (c * s12 + d * s22))
  = det2 a b c d * det2 a b c d * emit2 s11 s12 s22.
Proof. exact emit2_cong. Qed.
Theorem C03_emit_invariant_x : forall M Sg,
  symplectic M -> xrows_uncoupled M -> xcols_uncoupled M -> cov7 Sg -> c0 (c1 Sg) = c1 (c0 Sg) ->
  emit_x2 (rcong M Sg) = emit_x2 Sg.
Proof. exact emit_invariant_x. Qed.
Theorem C03_emit_invariant_y : forall M Sg,
  symplectic M -> yrows_uncoupled M -> ycols_uncoupled M -> cov7 Sg -> c2 (c3 Sg) = c3 (c2 Sg) ->
  emit_y2 (rcong M Sg) = emit_y2 Sg.
Proof. exact emit_invariant_y. Qed.
Theorem C03_emit_drift : forall L E Sg, cov7 Sg -> c0 (c1 Sg) = c1 (c0 Sg) -> c2 (c3 Sg) = c3 (c2 Sg) ->
  emit_x2 (rcong (drift_map L E) Sg) = emit_x2 Sg /\ emit_y2 (rcong (drift_map L E) Sg) = emit_y2 Sg.
Proof. exact emit_drift. Qed.
Theorem C03_emit_quadrupole : forall L k1 E Sg, cov7 Sg -> c0 (c1 Sg) = c1 (c0 Sg) -> c2 (c3 Sg) = c3 (c2 Sg) ->
  emit_x2 (rcong (quad_map L k1 0 0 0 E) Sg) = emit_x2 Sg /\ emit_y2 (rcong (quad_map L k1 0 0 0 E) Sg) = emit_y2 Sg.
Proof. exact emit_quad. Qed.

(** the constant seventh component stays one under every map cheetah constructs *)
Theorem C03_seventh_row_drift : forall L E, affine (drift_map L E).
Proof. exact seventh_row_drift. Qed.
Theorem C03_seventh_row_quadrupole : forall L k1 mx my tilt E, affine (quad_map L k1 mx my tilt E).
Proof. exact seventh_row_quad. Qed.
Theorem C03_seventh_row_dipole : forall L angle k1 e1 e2 tilt gap fint fint_exit E,
  affine (dip_map L angle k1 e1 e2 tilt gap fint fint_exit E).
Proof. exact seventh_row_dipole. Qed.
Theorem C03_seventh_row_rbend : forall L angle k1 e1 e2 tilt gap fint fint_exit E,
  affine (rbend_map L angle k1 e1 e2 tilt gap fint fint_exit E).
Proof. exact seventh_row_rbend. Qed.
Theorem C03_seventh_row_solenoid : forall L k mx my E, affine (sol_map L k mx my E).
Proof. exact seventh_row_solenoid. Qed.
Theorem C03_seventh_row_hcorrector : forall L a E, affine (hcor_map L a E).
Proof. exact seventh_row_hcor. Qed.
Theorem C03_seventh_row_vcorrector : forall L a E, affine (vcor_map L a E).
Proof. exact seventh_row_vcor. Qed.
Theorem C03_seventh_row_undulator : forall L E, affine (und_map L E).
Proof. exact seventh_row_undulator. Qed.
Theorem C03_seventh_row_cavity_off : forall L E, affine (cavity_off_map L E).
Proof. exact seventh_row_cavity_off. Qed.
Theorem C03_seventh_row_cavity_on : forall L V phi f E, affine (cavity_on_map L V phi f E).
Proof. exact seventh_row_cavity_on. Qed.
Theorem C03_seventh_row_identity_elements : affine identity_map.
Proof. exact seventh_row_identity. Qed.

(** non-linear Bmad-X maps (cheetah/utils/bmadx.py), in Bmad coordinates (x,px,y,py,z,pz) where all pairs are positive *)
(* track_a_drift: on the whole paraxial region the code's displacement of (x,y,z) is the gradient form
   L*px/D, L*py/D, L*(g(pz) + 1 - (1+pz)/D), D = sqrt((1+pz)^2 - px^2 - py^2) *)
Theorem C03_driftx_is_gradient_form : forall L p0c mc2 px py pz, 0 < 1 + pz /\ dx_Pxy2 px py pz < 1 ->
  driftx_dx L px py pz = L * px / DD px py pz /\
  driftx_dy L px py pz = L * py / DD px py pz /\
  driftx_dz L p0c mc2 px py pz = L * (driftx_g p0c mc2 pz + 1 - (1 + pz) / DD px py pz).
Proof. exact (fun L p0c mc2 px py pz H => conj (driftx_dx_form L px py pz H) (conj (driftx_dy_form L px py pz H) (driftx_dz_form L p0c mc2 px py pz H))). Qed.
(* the cross derivatives of the displacement w.r.t. the momenta agree pairwise (it is a gradient), at every point *)
Theorem C03_driftx_cross_derivatives : forall L g px py pz, 0 < (1 + pz) * (1 + pz) + - (px * px) + - (py * py) ->
  let D3 := (DD px py pz) ^ 3 in
  is_derive (fun t => gx L px t pz) py (L * px * py / D3) /\ is_derive (fun t => gy L t py pz) px (L * px * py / D3) /\
  is_derive (fun t => gx L px py t) pz (- L * px * (1 + pz) / D3) /\ is_derive (fun t => gz L g t py pz) px (- L * px * (1 + pz) / D3) /\
  is_derive (fun t => gy L px py t) pz (- L * py * (1 + pz) / D3) /\ is_derive (fun t => gz L g px t pz) py (- L * py * (1 + pz) / D3).
Proof. exact driftx_cross_derivatives. Qed.
(* hence the Jacobian (momenta unchanged, positions sheared by that symmetric matrix; any diagonal entries) is symplectic *)
Theorem C03_driftx_jacobian_symplectic : forall L px py pz fxx fyy fzz,
  let D3 := (DD px py pz) ^ 3 in
  symplectic_wrt S6plus (shear fxx (L * px * py / D3) (- L * px * (1 + pz) / D3) fyy (- L * py * (1 + pz) / D3) fzz).
Proof. exact driftx_sympl. Qed.
Theorem C03_shear_symplectic : forall a b c d e f, symplectic_wrt S6plus (shear a b c d e f).
Proof. exact sympl_shear. Qed.
Theorem C03_kick_symplectic : forall a b c d e f, symplectic_wrt S6plus (kick a b c d e f).
Proof. exact sympl_kick. Qed.
(* (tau,delta) -> (z,pz): any longitudinal block of determinant -1 turns the all-positive form into cheetah's S6;
   the code's change has d z/d tau = -beta, d pz/d tau = 0, d pz/d delta = E/p = 1/beta *)
Theorem C03_coords_flip : forall n11 n12 n21 n22, n11 * n22 - n12 * n21 = -1 ->
  rmmul (transpose (lin6 (long_change n11 n12 n21 n22))) (rmmul S6plus (lin6 (long_change n11 n12 n21 n22))) = S6.
Proof. exact coords_flip. Qed.
Theorem C03_dpz_ddelta : forall E0 p0 m delta, 0 < p0 -> 0 < (E0 + delta * p0) * (E0 + delta * p0) - m * m ->
  is_derive (fun d => (sqrt ((E0 + d * p0) * (E0 + d * p0) - m * m) - p0) / p0) delta
            ((E0 + delta * p0) / sqrt ((E0 + delta * p0) * (E0 + delta * p0) - m * m)).
Proof. exact dpz_ddelta. Qed.
Theorem C03_change_coords : forall Jc Jb Nin Nout,
  rmmul (lin6 Nout) (lin6 Jc) = rmmul (lin6 Jb) (lin6 Nin) ->
  rmmul (transpose (lin6 Nin)) (rmmul S6plus (lin6 Nin)) = S6 ->
  rmmul (transpose (lin6 Nout)) (rmmul S6plus (lin6 Nout)) = S6 ->
  symplectic_wrt S6plus Jb -> symplectic Jc.
Proof. exact sympl_change_coords. Qed.
(* Bmad-X quadrupole step: the 2x2 block determinant is 1 -+ eps*sx^2 because of sqrt(|k1|+eps): symplectic up to eps only *)
Theorem C03_quadx_block_det_partial : forall k1 L eps relp, 0 < eps -> relp <> 0 ->
  det2 (qx_cx k1 L eps) (qx_sx k1 L eps / relp) (k1 * qx_sx k1 L eps * relp) (qx_cx k1 L eps)
  = 1 + (if Rle_dec k1 0 then - eps else eps) * (qx_sx k1 L eps * qx_sx k1 L eps).
Proof. exact quadx_block_det_partial. Qed.


(* non-vacuity: the hypotheses of the dipole theorem are met by an ordinary bend, and by a zero-length one *)
Example C03_nonvacuous_dipole : forall E,
  symplectic (dip_map 1 (1/2) 0 (1/10) (1/10) (1/5) (1/100) (1/2) (1/2) E) /\
  symplectic (dip_map 0 (1/2) 0 0 0 0 0 0 0 E).
Proof. exact nonvacuous_dipole. Qed.

(** Undulator after the repair of finding F3 ([und_map_fixed] of Optics/Maps.v; equal to the drift map): symplectic,
    affine, emittances kept.  [C03_sympl_undulator] / [C03_seventh_row_undulator] above are about the map before the
    repair (symplectic as well: every R56 is).  harness/props/c03.py checks on every run which of the two the code computes. *)
Theorem C03_undulator_fixed_is_drift : forall L E, und_map_fixed L E = drift_map L E.
Proof. exact und_map_fixed_is_drift. Qed.
Theorem C03_sympl_undulator_fixed : forall L E, symplectic (und_map_fixed L E).
Proof. exact sympl_undulator_fixed. Qed.
Theorem C03_seventh_row_undulator_fixed : forall L E, affine (und_map_fixed L E).
Proof. exact seventh_row_undulator_fixed. Qed.
Theorem C03_emit_undulator_fixed : forall L E Sg, cov7 Sg -> c0 (c1 Sg) = c1 (c0 Sg) -> c2 (c3 Sg) = c3 (c2 Sg) ->
  emit_x2 (rcong (und_map_fixed L E) Sg) = emit_x2 Sg /\ emit_y2 (rcong (und_map_fixed L E) Sg) = emit_y2 Sg.
Proof. exact emit_undulator_fixed. Qed.

(** ---------------------------------------------------------------------------------------------------------------------
    Non-linear Bmad-X maps, Jacobian at EVERY phase-space point (models: Bmadx/QuadX.v, Bmadx/BendX.v of C07; proofs:
    Bmadx/SymplXJac.v, SymplXQuad.v, SymplXBend.v).  Bmad coordinates (x,px,y,py,z,pz), form S6plus (all pairs positive). *)
(* what "J is the Jacobian of F at q" means: F has a derivative along EVERY direction v at q, equal to J v
   (the six partial derivatives are the cases v = unit vectors) *)
Theorem C03_jacobian_means : forall (F : bpart -> bpart) (q : bpart) (J : M7 R),
  has_jac F q J <->
  forall v : bpart,
    let line := fun t => mkb (bx q + t * bx v) (bpx q + t * bpx v) (by_ q + t * by_ v) (bpy q + t * bpy v) (bz q + t * bz v) (bpz q + t * bpz v) in
    let Jv := fun r : V7 R => c0 r * bx v + c1 r * bpx v + c2 r * by_ v + c3 r * bpy v + c4 r * bz v + c5 r * bpz v in
    is_derive (fun t => bx (F (line t))) 0 (Jv (c0 J)) /\ is_derive (fun t => bpx (F (line t))) 0 (Jv (c1 J)) /\
    is_derive (fun t => by_ (F (line t))) 0 (Jv (c2 J)) /\ is_derive (fun t => bpy (F (line t))) 0 (Jv (c3 J)) /\
    is_derive (fun t => bz (F (line t))) 0 (Jv (c4 J)) /\ is_derive (fun t => bpz (F (line t))) 0 (Jv (c5 J)).
Proof. exact (fun F q J => iff_refl _). Qed.

(** Quadrupole._track_bmadx, one step with eps := 0 (k = k1/(1+pz), r = 1+pz, C = Cf k l, S = Sf k l; -k for the y plane) *)
(* the Jacobian matrix, written out: blocks [[C, S/r],[-k S r, C]]; pz column = d(block)/dpz applied to the coordinates;
   z row = gradient of the code's quadratic form c1 u^2 + c2 u pu + c3 pu^2 (c1 = -k(l - C S)/4, c2 = k S^2/(2r), c3 = -(C S + l)/(4 r^2)) *)
Theorem C03_quadx_jac_written_out : forall k1 l q dl,
  let r := 1 + bpz q in
  let blk := fun (kap u pu : R) =>
    let k := kap / r in let C := Cf k l in let S := Sf k l in
    let dC := k * l * S / (2 * r) in let dS := - (l * C - S) / (2 * r) in
    (row C (S / r) 0 0 0 (u * dC + pu * (dS / r - S / (r * r))) 0,
     row (- k * S * r) C 0 0 0 (u * (- k * r * dS) + pu * dC) 0,
     (2 * (- k * (l - C * S) / 4) * u + k * (S * S) / (2 * r) * pu,
      k * (S * S) / (2 * r) * u + 2 * (- (C * S + l) / (4 * (r * r))) * pu)) in
  let X := blk k1 (bx q) (bpx q) in let Y := blk (- k1) (by_ q) (bpy q) in
  c0 (quadx_jac k1 l q dl) = fst (fst X) /\ c1 (quadx_jac k1 l q dl) = snd (fst X) /\
  (c2 (c2 (quadx_jac k1 l q dl)), c3 (c2 (quadx_jac k1 l q dl)), c5 (c2 (quadx_jac k1 l q dl))) = (c0 (fst (fst Y)), c1 (fst (fst Y)), c5 (fst (fst Y))) /\
  (c2 (c3 (quadx_jac k1 l q dl)), c3 (c3 (quadx_jac k1 l q dl)), c5 (c3 (quadx_jac k1 l q dl))) = (c0 (snd (fst Y)), c1 (snd (fst Y)), c5 (snd (fst Y))) /\
  c0 (c4 (quadx_jac k1 l q dl)) = fst (snd X) /\ c1 (c4 (quadx_jac k1 l q dl)) = snd (snd X) /\
  c2 (c4 (quadx_jac k1 l q dl)) = fst (snd Y) /\ c3 (c4 (quadx_jac k1 l q dl)) = snd (snd Y) /\ c4 (c4 (quadx_jac k1 l q dl)) = 1 /\
  c5 (quadx_jac k1 l q dl) = row 0 0 0 0 0 1 0.
Proof. exact (fun k1 l q dl => conj eq_refl (conj eq_refl (conj eq_refl (conj eq_refl (conj eq_refl (conj eq_refl (conj eq_refl (conj eq_refl (conj eq_refl eq_refl))))))))). Qed.
(* it IS the derivative of the coded step, at every point with 1+pz > 0, wherever low_energy_z_correction is differentiable in pz
   (its derivative dl only enters the entry dz'/dpz, which symplecticity does not constrain); and it is symplectic: the z row is what the
   pz-dependence of the blocks requires (generating-function condition, SymplXQuad.pl_zu_ok / pl_zpu_ok, uses C^2 + k S^2 = 1) *)
Theorem C03_quadx_step_symplectic : forall Lf k1 l p0c m q dl, Lf <> 0 -> k1 <> 0 -> 0 < 1 + bpz q ->
  is_derive (fun p => lez p p0c m l) (bpz q) dl ->
  has_jac (quadx_step 0 Lf k1 l p0c m) q (quadx_jac k1 l q dl) /\
  rmmul (transpose (lin6 (quadx_jac k1 l q dl))) (rmmul S6plus (lin6 (quadx_jac k1 l q dl))) = S6plus.
Proof. exact (fun Lf k1 l p0c m q dl H1 H2 H3 H4 => conj (quadx_step_has_jac Lf k1 l p0c m q dl H1 H2 H3 H4) (quadx_jac_sympl k1 l q dl H3)). Qed.
(* the element: offset_particle_set ; num_steps steps of length L/num_steps ; offset_particle_unset *)
Theorem C03_quadx_element_symplectic : forall n L k1 ox oy tilt p0c m, L <> 0 -> k1 <> 0 -> n <> O -> forall q dl,
  0 < 1 + bpz q -> is_derive (fun p => lez p p0c m L) (bpz q) dl ->
  let J := rmmul (rmmul (mis_exit ox oy) (rot (- tilt))) (rmmul (quadx_jac k1 L (off_set ox oy tilt q) dl) (rmmul (rot tilt) (mis_entry ox oy))) in
  has_jac (quadx_bmad 0 n L k1 ox oy tilt p0c m) q J /\ rmmul (transpose (lin6 J)) (rmmul S6plus (lin6 J)) = S6plus.
Proof. exact (fun n L k1 ox oy tilt p0c m H1 H2 H3 q dl H4 H5 => conj (quadx_bmad_has_jac n L k1 ox oy tilt p0c m H1 H2 H3 q dl H4 H5) (quadx_bmad_sympl L k1 ox oy tilt q dl H4)). Qed.
(* PARTIAL for the coded eps = 2^-52: the (x,px) entry of J^T S J is the block determinant 1 -+ eps sx^2 *)
Theorem C03_quadx_eps_defect_partial : forall eps kc len relp e11 e12 e21 e22 b0 b1 b2 b3 d, 0 <= eps -> kc <> 0 \/ 0 < eps -> relp <> 0 ->
  let f := le0 kc in
  let M := fib (qc_a11 f eps kc len) (qc_a12 f eps kc len relp) (qc_a21 f eps kc len relp) (qc_a22 f eps kc len) e11 e12 e21 e22 b0 b1 b2 b3 d in
  c1 (c0 (rmmul (transpose (lin6 M)) (rmmul S6plus (lin6 M)))) = 1 - (if Rle_dec kc 0 then eps else - eps) * (qc_sx f eps kc len)².
Proof. exact quadx_eps_defect_partial. Qed.

(** Dipole._track_bmadx: the body is the exact sector map; Jacobian = shear(-F(px')) * Rmat * shear(F(px)) *)
Theorem C03_sect_jac_written_out : forall g th dzc q,
  let F := fun (sg P W phi : R) =>
    let py := bpy q in let pz := bpz q in let N2 := (1 + pz) ^ 2 - py ^ 2 in
    shear (sg * (P / (g * W))) (sg * (py / (g * W))) (sg * (- (1 + pz) / (g * W)))
          (sg * (phi / g + py * py * P / (g * N2 * W))) (sg * (- py * P * (1 + pz) / (g * N2 * W)))
          (sg * (- phi / g + (1 + pz) * (1 + pz) * P / (g * N2 * W))) in
  let P' := sect_px g th (bx q) (bpx q) (bpy q) (bpz q) in
  sect_jac g th dzc q =
  rmmul (F (-1) P' (sect_w P' (bpy q) (bpz q)) (bb_phi1 P' (bpy q) (bpz q)))
        (rmmul (mk7 (row (cos th) (sin th / g) 0 0 0 0 0) (row (- sin th * g) (cos th) 0 0 0 0 0)
                    (row 0 0 1 (th / g) 0 0 0) (row 0 0 0 1 0 0 0) (row 0 0 0 0 1 (dzc - th / g) 0) (row 0 0 0 0 0 1 0) (row 0 0 0 0 0 0 1))
               (F 1 (bpx q) (sect_w (bpx q) (bpy q) (bpz q)) (bb_phi1 (bpx q) (bpy q) (bpz q)))).
Proof. exact (fun g th dzc q => eq_refl). Qed.
(* the exact sector map (x', px' of BendXJac; y', z' of BendXFlow.body_yz_closed), all six coordinates, every direction, every point of
   the open region g <> 0, px_norm^2 > 0, |px| < px_norm, |px'| < px_norm; and its Jacobian is symplectic *)
Theorem C03_sector_map_symplectic : forall g th zc dzc q, g <> 0 ->
  0 < (1 + bpz q) ^ 2 - bpy q ^ 2 -> 0 < (1 + bpz q) ^ 2 - bpy q ^ 2 - bpx q ^ 2 ->
  0 < (1 + bpz q) ^ 2 - bpy q ^ 2 - (sect_px g th (bx q) (bpx q) (bpy q) (bpz q)) ^ 2 ->
  is_derive zc (bpz q) dzc ->
  has_jac (fun q => let x := bx q in let px := bpx q in let y := by_ q in let py := bpy q in let z := bz q in let pz := bpz q in
                    let turn := th + bb_phi1 px py pz - bb_phi1 (sect_px g th x px py pz) py pz in
                    mkb ((sect_w (sect_px g th x px py pz) py pz - (cos th * (sect_w px py pz - (1 + g * x)) - sin th * px) - 1) / g)
                        (sect_px g th x px py pz) (y + py * turn / g) py (z + zc pz - (1 + pz) * turn / g) pz)
          q (sect_jac g th dzc q) /\
  rmmul (transpose (lin6 (sect_jac g th dzc q))) (rmmul S6plus (lin6 (sect_jac g th dzc q))) = S6plus.
Proof. exact (fun g th zc dzc q H1 H2 H3 H4 H5 => conj (nice_map_has_jac g th zc dzc q H1 H2 H3 H4 H5) (sect_jac_sympl g th dzc q H1)). Qed.
(* the element: offset_particle_set(tilt) ; entrance fringe kick ; coded body ; exit fringe kick ; offset_particle_unset, at every point whose
   image q1 at the body entrance has (along every line) a neighbourhood in which the code is defined (bb_defined) and arctan2 does not
   wrap (bb_nowrap; violated only for bend angles below -pi, finding F70).  entr_mat / exit_mat: the fringe kick matrix
   kick (g tan e) 0 0 (hy) 0 0 (SymplXBend.fringe_matrix), or the identity when the fringe is switched off *)
Theorem C03_bendx_element_symplectic : forall fen fex b p0c m, bd_L b <> 0 -> bd_ang b <> 0 -> forall q dzc,
  let q1 := bendx_entrance fen b (off_set 0 0 (bd_tilt b) q) in
  (forall v, locally 0 (fun t => bb_defined (bd_L b) (bd_ang b) (bline q1 v t) /\ bb_nowrap (bd_L b) (bd_ang b) (bline q1 v t))) ->
  0 < (1 + bpz q1) ^ 2 - bpy q1 ^ 2 - (bpx (bendx_body (bd_L b) (bd_ang b) p0c m q1)) ^ 2 ->
  is_derive (fun p => bb_beta p p0c m * bd_L b / bb_beta0 p0c m) (bpz q1) dzc ->
  let J := rmmul (rmmul (rmmul (mis_exit 0 0) (rot (- bd_tilt b))) (exit_mat fex b))
                 (rmmul (sect_jac (bb_g (bd_L b) (bd_ang b)) (bd_ang b) dzc q1) (rmmul (entr_mat fen b) (rmmul (rot (bd_tilt b)) (mis_entry 0 0)))) in
  has_jac (bendx_bmad fen fex b p0c m) q J /\ rmmul (transpose (lin6 J)) (rmmul S6plus (lin6 J)) = S6plus.
Proof. exact (fun fen fex b p0c m H1 H2 q dzc H3 H4 H5 => conj (bendx_bmad_has_jac fen fex b p0c m H1 H2 q dzc H3 H4 H5) (bendx_bmad_sympl fen fex b H1 H2 q dzc)). Qed.
(* in Cheetah coordinates: any Jc tied to the Bmad Jacobian Jb by the chain rule N_out Jc = Jb N_in (N = Jacobian of (tau,delta) -> (z,pz),
   longitudinal block [[-beta, *],[0, 1/beta]]) is symplectic w.r.t. cheetah's S6 = diag(J2,J2,-J2) *)
Theorem C03_bmadx_cheetah_symplectic : forall Jb Jc bin sin_ bout sout, bin <> 0 -> bout <> 0 -> symplectic_wrt S6plus Jb ->
  rmmul (lin6 (long_change (- bout) sout 0 (1 / bout))) (lin6 Jc) = rmmul (lin6 Jb) (lin6 (long_change (- bin) sin_ 0 (1 / bin))) ->
  symplectic Jc.
Proof. exact bmadx_cheetah_sympl. Qed.

(* non-vacuity: the hypotheses of the two Jacobian theorems are met -- quadrupole: every transverse position and momentum at pz = 0 (the series
   branch of low_energy_z_correction), every k1 <> 0, step length, energy; dipole body: the design orbit, every curvature and angle *)
Example C03_quadx_nonvacuous : forall Lf k1 l p0c m x px y py z, 0 < m -> 0 < p0c -> Lf <> 0 -> k1 <> 0 ->
  exists dl, has_jac (quadx_step 0 Lf k1 l p0c m) (mkb x px y py z 0) (quadx_jac k1 l (mkb x px y py z 0) dl)
             /\ symplectic_wrt S6plus (quadx_jac k1 l (mkb x px y py z 0) dl).
Proof. exact quadx_nonvacuous. Qed.
(* ... and at every other pz > -1 off the branch threshold of low_energy_z_correction *)
Theorem C03_quadx_step_symplectic_everywhere : forall Lf k1 l p0c m q, 0 < m -> 0 < p0c -> Lf <> 0 -> k1 <> 0 -> 0 < 1 + bpz q ->
  m * (p0c / sqrt (p0c² + m²) * bpz q)² <> 3e-7 * sqrt (p0c² + m²) ->
  exists dl, has_jac (quadx_step 0 Lf k1 l p0c m) q (quadx_jac k1 l q dl) /\ symplectic_wrt S6plus (quadx_jac k1 l q dl).
Proof. exact quadx_step_sympl_everywhere. Qed.
Example C03_sector_nonvacuous : forall g th L p0c m y z, g <> 0 -> 0 < m -> 0 < p0c ->
  exists dzc, has_jac (nice_map g th (fun p => bb_beta p p0c m * L / bb_beta0 p0c m)) (mkb 0 0 y 0 z 0) (sect_jac g th dzc (mkb 0 0 y 0 z 0))
              /\ symplectic_wrt S6plus (sect_jac g th dzc (mkb 0 0 y 0 z 0)).
Proof. exact sect_nonvacuous. Qed.

(** TransverseDeflectingCavity._track_bmadx, the RF kick (model Bmadx/Tdc.v): in the canonical pairs (x,px), (zeta = z/beta, eps = E/p0c)
    it is  px += dV/dx, eps += dV/dzeta, x and zeta unchanged, V = volt x sin(2 pi (phi0 + zeta f/c)): the gradient of one potential *)
Theorem C03_tdc_kick_canonical : forall V phi0 f cl p0c m, 0 < p0c -> 0 < m -> cl <> 0 -> forall q,
  0 < 1 + bpz q -> m < k_Enew V phi0 f cl p0c m (bx q) (bz q) (bpz q) ->
  let q' := tdc_kick V phi0 f cl p0c m q in
  let zeta := bz q / k_beta p0c m (bpz q) in
  let psi := 2 * PI * (phi0 + zeta * f / cl) in
  bx q' = bx q /\ by_ q' = by_ q /\ bpy q' = bpy q /\
  bpx q' = bpx q + V / p0c * sin psi /\
  k_Eold p0c m (bpz q') / p0c = k_Eold p0c m (bpz q) / p0c + V / p0c * (2 * PI * f / cl) * bx q * cos psi /\
  bz q' / k_beta p0c m (bpz q') = zeta /\ 0 < 1 + bpz q'.
Proof. exact tdc_kick_canonical. Qed.
(* cross derivatives d(px kick)/dzeta = d(eps kick)/dx = volt krf cos psi, so the Jacobian in (x,px,y,py,zeta,eps) is the kick matrix below;
   (z,pz) -> (zeta,eps) has the longitudinal block [[1/beta, *],[0, beta]] (d eps/d pz = beta: SymplXTdc.d_eps_dpz), determinant +1; hence any
   Jacobian Jb in Bmad coordinates tied to it by the chain rule is symplectic *)
Theorem C03_tdc_kick_symplectic : forall volt krf x psi Jb bin sin_ bout sout, bin <> 0 -> bout <> 0 ->
  rmmul (lin6 (long_change (1 / bout) sout 0 bout)) (lin6 Jb)
  = rmmul (lin6 (kick 0 0 (volt * krf * cos psi) 0 0 (- (volt * krf * krf * x * sin psi)))) (lin6 (long_change (1 / bin) sin_ 0 bin)) ->
  symplectic_wrt S6plus Jb.
Proof. exact tdc_bmad_sympl. Qed.

Print Assumptions C03_symplectic_means.
Print Assumptions C03_form.
Print Assumptions C03_affine_means.
Print Assumptions C03_tau_sign_forced.
Print Assumptions C03_sympl_mul.
Print Assumptions C03_seventh_row_mul.
Print Assumptions C03_cos_sin_identity.
Print Assumptions C03_sympl_drift.
Print Assumptions C03_sympl_quadrupole.
Print Assumptions C03_sympl_sector_body.
Print Assumptions C03_sympl_base_rmatrix.
Print Assumptions C03_sector_kx2_zero_refuted.
Print Assumptions C03_sector_exclusion_vacuous_for_k1_nonneg.
Print Assumptions C03_sympl_dipole.
Print Assumptions C03_sympl_rbend.
Print Assumptions C03_sympl_solenoid.
Print Assumptions C03_sympl_hcorrector.
Print Assumptions C03_sympl_vcorrector.
Print Assumptions C03_sympl_undulator.
Print Assumptions C03_sympl_cavity_off.
Print Assumptions C03_sympl_identity_elements.
Print Assumptions C03_sympl_rotation.
Print Assumptions C03_cavity_block_det.
Print Assumptions C03_cavity_emittance.
Print Assumptions C03_cavity_on_not_symplectic.
Print Assumptions C03_emit_2x2.
Print Assumptions C03_emit_invariant_x.
Print Assumptions C03_emit_invariant_y.
Print Assumptions C03_emit_drift.
Print Assumptions C03_emit_quadrupole.
Print Assumptions C03_seventh_row_drift.
Print Assumptions C03_seventh_row_quadrupole.
Print Assumptions C03_seventh_row_dipole.
Print Assumptions C03_seventh_row_rbend.
Print Assumptions C03_seventh_row_solenoid.
Print Assumptions C03_seventh_row_hcorrector.
Print Assumptions C03_seventh_row_vcorrector.
Print Assumptions C03_seventh_row_undulator.
Print Assumptions C03_seventh_row_cavity_off.
Print Assumptions C03_seventh_row_cavity_on.
Print Assumptions C03_seventh_row_identity_elements.
Print Assumptions C03_nonvacuous_dipole.
Print Assumptions C03_driftx_is_gradient_form.
Print Assumptions C03_driftx_cross_derivatives.
Print Assumptions C03_driftx_jacobian_symplectic.
Print Assumptions C03_shear_symplectic.
Print Assumptions C03_kick_symplectic.
Print Assumptions C03_coords_flip.
Print Assumptions C03_dpz_ddelta.
Print Assumptions C03_change_coords.
Print Assumptions C03_quadx_block_det_partial.
Print Assumptions C03_undulator_fixed_is_drift.
Print Assumptions C03_sympl_undulator_fixed.
Print Assumptions C03_seventh_row_undulator_fixed.
Print Assumptions C03_emit_undulator_fixed.
Print Assumptions C03_jacobian_means.
Print Assumptions C03_quadx_jac_written_out.
Print Assumptions C03_quadx_step_symplectic.
Print Assumptions C03_quadx_element_symplectic.
Print Assumptions C03_quadx_eps_defect_partial.
Print Assumptions C03_sect_jac_written_out.
Print Assumptions C03_sector_map_symplectic.
Print Assumptions C03_bendx_element_symplectic.
Print Assumptions C03_bmadx_cheetah_symplectic.
Print Assumptions C03_quadx_nonvacuous.
Print Assumptions C03_quadx_step_symplectic_everywhere.
Print Assumptions C03_sector_nonvacuous.
Print Assumptions C03_tdc_kick_canonical.
Print Assumptions C03_tdc_kick_symplectic.
