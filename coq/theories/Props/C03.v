(** C03 -- Maps conserve phase-space volume (symplectic; cavity damps by E_in/E_out); seventh component.
    Only property theorems live here: each is closed by [exact] of a lemma proved in Optics/SymplProofs.v
    (linear maps of Optics/Maps.v) or Bmadx/SymplX*.v (non-linear Bmad-X maps), followed by [Print Assumptions]. *)
From Coq Require Import Reals.
From Cheetah Require Import Base.Mat Optics.Maps Optics.Sympl Optics.SymplProofs.
Open Scope R_scope.

(** what "symplectic" means here: M^T S6 M = S6 on the 6x6 linear part, with
    S6 = diag(J2, J2, -J2) on (x,px | y,py | tau,delta), the tau pair carrying the negative sign *)
Theorem C03_symplectic_means : forall M : M7 R,
  symplectic M <-> rmmul (transpose (lin6 M)) (rmmul S6 (lin6 M)) = S6.
Proof. exact (fun M => iff_refl _). Qed.
Theorem C03_form :
  S6 = mk7 (row 0 1 0 0 0 0 0) (row (-1) 0 0 0 0 0 0) (row 0 0 0 1 0 0 0) (row 0 0 (-1) 0 0 0 0)
           (row 0 0 0 0 0 (-1) 0) (row 0 0 0 0 1 0 0) (row 0 0 0 0 0 0 0).
Proof. exact eq_refl. Qed.
Theorem C03_affine_means : forall M : M7 R, affine M <-> c6 M = row 0 0 0 0 0 0 1.
Proof. exact (fun M => iff_refl _). Qed.
(* the sign of the tau pair is forced by the code's own dispersive map: with +J2 it is not symplectic *)
Theorem C03_tau_sign_forced : forall E, 0 < beta_of E -> ~ symplectic_wrt S6plus (base_untilted 1 1 1 E).
Proof. exact sympl_plus_sign_refuted. Qed.

(** closure under composition (Segment merging, tilt and misalignment conjugation) *)
Theorem C03_sympl_mul : forall A B : M7 R, affine B -> symplectic A -> symplectic B -> symplectic (rmmul A B).
Proof. exact sympl_mul. Qed.
Theorem C03_seventh_row_mul : forall A B : M7 R, affine A -> affine B -> affine (rmmul A B).
Proof. exact affine_mul. Qed.

(** the identities behind base_rmatrix, all three sign regimes of the focusing strength *)
Theorem C03_cos_sin_identity : forall k L, Cf k L * Cf k L + k * Sf k L * Sf k L = 1.
Proof. exact CS_one. Qed.

(** every energy-preserving linear map is symplectic: all lengths, strengths (both signs, zero), tilts,
    misalignments, energies *)
Theorem C03_sympl_drift : forall L E, symplectic (drift_map L E).
Proof. exact sympl_drift. Qed.
Theorem C03_sympl_quadrupole : forall L k1 mx my tilt E, symplectic (quad_map L k1 mx my tilt E).
Proof. exact sympl_quad. Qed.
Theorem C03_sympl_sector_body : forall L k1 hx E, k1_guard k1 + hx² <> 0 -> symplectic (base_untilted L k1 hx E).
Proof. exact sympl_base_untilted. Qed.
Theorem C03_sympl_base_rmatrix : forall L k1 hx tilt E, k1_guard k1 + hx² <> 0 -> symplectic (base_rmatrix L k1 hx tilt E).
Proof. exact sympl_base_rmatrix. Qed.
(* the excluded point kx2 = 0 (where the code returns NaN: sin(0)/0) is really outside: the model is not symplectic there;
   and the exclusion never bites for k1 >= 0 *)
Theorem C03_sector_kx2_zero_refuted : forall E, beta_of E <> 0 -> ~ symplectic (base_untilted 1 (-1) 1 E).
Proof. exact sympl_base_kx2_zero_refuted. Qed.
Theorem C03_sector_exclusion_vacuous_for_k1_nonneg : forall k1 hx, 0 <= k1 -> k1_guard k1 + hx² <> 0.
Proof. exact kx2_nonneg_k1. Qed.
Theorem C03_sympl_dipole : forall L angle k1 e1 e2 tilt gap fint fint_exit E,
  (L = 0 \/ k1_guard k1 + (dip_hx L angle)² <> 0) ->
  symplectic (dip_map L angle k1 e1 e2 tilt gap fint fint_exit E).
Proof. exact sympl_dipole. Qed.
Theorem C03_sympl_rbend : forall L angle k1 re1 re2 tilt gap fint fint_exit E,
  (L = 0 \/ k1_guard k1 + (dip_hx L angle)² <> 0) ->
  symplectic (rbend_map L angle k1 re1 re2 tilt gap fint fint_exit E).
Proof. exact sympl_rbend. Qed.
Theorem C03_sympl_solenoid : forall L k mx my E, symplectic (sol_map L k mx my E).
Proof. exact sympl_solenoid. Qed.
Theorem C03_sympl_hcorrector : forall L angle E, symplectic (hcor_map L angle E).
Proof. exact sympl_hcor. Qed.
Theorem C03_sympl_vcorrector : forall L angle E, symplectic (vcor_map L angle E).
Proof. exact sympl_vcor. Qed.
Theorem C03_sympl_undulator : forall L E, symplectic (und_map L E).
Proof. exact sympl_undulator. Qed.
Theorem C03_sympl_cavity_off : forall L E, symplectic (cavity_off_map L E).
Proof. exact sympl_cavity_off. Qed.
Theorem C03_sympl_identity_elements : symplectic identity_map.
Proof. exact sympl_identity. Qed.
Theorem C03_sympl_rotation : forall a, symplectic (rot a).
Proof. exact sympl_rot. Qed.

(** cavity with voltage: each transverse 2x2 block has determinant exactly E_in/E_out *)
Theorem C03_cavity_block_det : forall L V phi f E,
  L <> 0 -> V <> 0 -> cos phi <> 0 -> 0 < E -> 0 < E + V * cos phi ->
  xdet (cavity_on_map L V phi f E) = E / (E + V * cos phi) /\
  ydet (cavity_on_map L V phi f E) = E / (E + V * cos phi).
Proof. exact cavity_block_det_params. Qed.
Theorem C03_cavity_emittance : forall L V phi f E Sg,
  L <> 0 -> V <> 0 -> cos phi <> 0 -> 0 < E -> 0 < E + V * cos phi ->
  cov7 Sg -> c0 (c1 Sg) = c1 (c0 Sg) -> c2 (c3 Sg) = c3 (c2 Sg) ->
  emit_x2 (rcong (cavity_on_map L V phi f E) Sg) = (E / (E + V * cos phi))² * emit_x2 Sg /\
  emit_y2 (rcong (cavity_on_map L V phi f E) Sg) = (E / (E + V * cos phi))² * emit_y2 Sg.
Proof. exact emit_cavity. Qed.
Theorem C03_cavity_on_not_symplectic : forall L V phi f E,
  L <> 0 -> V <> 0 -> cos phi <> 0 -> 0 < E -> 0 < E + V * cos phi -> ~ symplectic (cavity_on_map L V phi f E).
Proof. exact cavity_on_not_symplectic. Qed.

(** uncoupled planes: geometric emittance (squared, from second moments) under Sg |-> M Sg M^T *)
Theorem C03_emit_2x2 : forall a b c d s11 s12 s22,
  emit2 (a * (a * s11 + b * s12) + b * (a * s12 + b * s22))
        (a * (c * s11 + d * s12) + b * (c * s12 + d * s22))
        (c * (c * s11 + d * s12) + d * (c * s12 + d * s22))
  = det2 a b c d * det2 a b c d * emit2 s11 s12 s22.
Proof. exact emit2_cong. Qed.
Theorem C03_emit_invariant_x : forall M Sg,
  symplectic M -> xrows_uncoupled M -> xcols_uncoupled M -> cov7 Sg -> c0 (c1 Sg) = c1 (c0 Sg) ->
  emit_x2 (rcong M Sg) = emit_x2 Sg.
Proof. exact emit_invariant_x. Qed.
Theorem C03_emit_invariant_y : forall M Sg,
  symplectic M -> yrows_uncoupled M -> ycols_uncoupled M -> cov7 Sg -> c2 (c3 Sg) = c3 (c2 Sg) ->
  emit_y2 (rcong M Sg) = emit_y2 Sg.
Proof. exact emit_invariant_y. Qed.
Theorem C03_emit_drift : forall L E Sg, cov7 Sg -> c0 (c1 Sg) = c1 (c0 Sg) -> c2 (c3 Sg) = c3 (c2 Sg) ->
  emit_x2 (rcong (drift_map L E) Sg) = emit_x2 Sg /\ emit_y2 (rcong (drift_map L E) Sg) = emit_y2 Sg.
Proof. exact emit_drift. Qed.
Theorem C03_emit_quadrupole : forall L k1 E Sg, cov7 Sg -> c0 (c1 Sg) = c1 (c0 Sg) -> c2 (c3 Sg) = c3 (c2 Sg) ->
  emit_x2 (rcong (quad_map L k1 0 0 0 E) Sg) = emit_x2 Sg /\ emit_y2 (rcong (quad_map L k1 0 0 0 E) Sg) = emit_y2 Sg.
Proof. exact emit_quad. Qed.

(** the constant seventh component stays one under every map cheetah constructs *)
Theorem C03_seventh_row_drift : forall L E, affine (drift_map L E).
Proof. exact seventh_row_drift. Qed.
Theorem C03_seventh_row_quadrupole : forall L k1 mx my tilt E, affine (quad_map L k1 mx my tilt E).
Proof. exact seventh_row_quad. Qed.
Theorem C03_seventh_row_dipole : forall L angle k1 e1 e2 tilt gap fint fint_exit E,
  affine (dip_map L angle k1 e1 e2 tilt gap fint fint_exit E).
Proof. exact seventh_row_dipole. Qed.
Theorem C03_seventh_row_rbend : forall L angle k1 e1 e2 tilt gap fint fint_exit E,
  affine (rbend_map L angle k1 e1 e2 tilt gap fint fint_exit E).
Proof. exact seventh_row_rbend. Qed.
Theorem C03_seventh_row_solenoid : forall L k mx my E, affine (sol_map L k mx my E).
Proof. exact seventh_row_solenoid. Qed.
Theorem C03_seventh_row_hcorrector : forall L a E, affine (hcor_map L a E).
Proof. exact seventh_row_hcor. Qed.
Theorem C03_seventh_row_vcorrector : forall L a E, affine (vcor_map L a E).
Proof. exact seventh_row_vcor. Qed.
Theorem C03_seventh_row_undulator : forall L E, affine (und_map L E).
Proof. exact seventh_row_undulator. Qed.
Theorem C03_seventh_row_cavity_off : forall L E, affine (cavity_off_map L E).
Proof. exact seventh_row_cavity_off. Qed.
Theorem C03_seventh_row_cavity_on : forall L V phi f E, affine (cavity_on_map L V phi f E).
Proof. exact seventh_row_cavity_on. Qed.
Theorem C03_seventh_row_identity_elements : affine identity_map.
Proof. exact seventh_row_identity. Qed.

(* non-vacuity: the hypotheses of the dipole theorem are met by an ordinary bend, and by a zero-length one *)
Example C03_nonvacuous_dipole : forall E,
  symplectic (dip_map 1 (1/2) 0 (1/10) (1/10) (1/5) (1/100) (1/2) (1/2) E) /\
  symplectic (dip_map 0 (1/2) 0 0 0 0 0 0 0 E).
Proof. exact nonvacuous_dipole. Qed.

Print Assumptions C03_symplectic_means.
Print Assumptions C03_form.
Print Assumptions C03_affine_means.
Print Assumptions C03_tau_sign_forced.
Print Assumptions C03_sympl_mul.
Print Assumptions C03_seventh_row_mul.
Print Assumptions C03_cos_sin_identity.
Print Assumptions C03_sympl_drift.
Print Assumptions C03_sympl_quadrupole.
Print Assumptions C03_sympl_sector_body.
Print Assumptions C03_sympl_base_rmatrix.
Print Assumptions C03_sector_kx2_zero_refuted.
Print Assumptions C03_sector_exclusion_vacuous_for_k1_nonneg.
Print Assumptions C03_sympl_dipole.
Print Assumptions C03_sympl_rbend.
Print Assumptions C03_sympl_solenoid.
Print Assumptions C03_sympl_hcorrector.
Print Assumptions C03_sympl_vcorrector.
Print Assumptions C03_sympl_undulator.
Print Assumptions C03_sympl_cavity_off.
Print Assumptions C03_sympl_identity_elements.
Print Assumptions C03_sympl_rotation.
Print Assumptions C03_cavity_block_det.
Print Assumptions C03_cavity_emittance.
Print Assumptions C03_cavity_on_not_symplectic.
Print Assumptions C03_emit_2x2.
Print Assumptions C03_emit_invariant_x.
Print Assumptions C03_emit_invariant_y.
Print Assumptions C03_emit_drift.
Print Assumptions C03_emit_quadrupole.
Print Assumptions C03_seventh_row_drift.
Print Assumptions C03_seventh_row_quadrupole.
Print Assumptions C03_seventh_row_dipole.
Print Assumptions C03_seventh_row_rbend.
Print Assumptions C03_seventh_row_solenoid.
Print Assumptions C03_seventh_row_hcorrector.
Print Assumptions C03_seventh_row_vcorrector.
Print Assumptions C03_seventh_row_undulator.
Print Assumptions C03_seventh_row_cavity_off.
Print Assumptions C03_seventh_row_cavity_on.
Print Assumptions C03_seventh_row_identity_elements.
Print Assumptions C03_nonvacuous_dipole.
