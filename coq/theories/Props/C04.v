(** C04 -- Vectorised tracking equals tracking each setting separately.
    Level: partial.  Proved: the logic -- a vectorised computation containing a whole-tensor Python branch
    (`if torch.any(...)` / `if torch.all(...)`) equals the per-setting runs IF AND ONLY IF the chosen path is
    harmless on the entries that would have chosen the other one; this harmlessness for every such branch of
    the package (the inventory is regenerated from the source on every run and must equal [modelled_sites]),
    or its refutation (cross-talk, known findings F4/F5).  PyTorch's broadcasting kernels are modelled, not
    verified: entry-wise equality of the real code is established by differential runs. *)
From Coq Require Import List Bool String Reals.
From Cheetah Require Import Base.Mat Optics.Maps Ops.Batch Ops.BatchProofs Ops.BatchSites Ops.BatchSitesProofs.
Import ListNotations.

Theorem C04_any_branch_sound : forall (A B : Type) (P : A -> bool) (g1 g2 : A -> B),
  (forall p, P p = false -> g1 p = g2 p) -> forall ps, batched_any P g1 g2 ps = map (scalar_any P g1 g2) ps.
Proof. exact batched_any_sound. Qed.

Theorem C04_all_branch_sound : forall (A B : Type) (P : A -> bool) (g1 g2 : A -> B),
  (forall p, P p = true -> g2 p = g1 p) -> forall ps, batched_all P g1 g2 ps = map (scalar_any P g1 g2) ps.
Proof. exact batched_all_sound. Qed.

Theorem C04_any_branch_crosstalk : forall (A B : Type) (P : A -> bool) (g1 g2 : A -> B) p q,
  P p = false -> P q = true -> g1 p <> g2 p ->
  nth 0 (batched_any P g1 g2 [p; q]) (g2 p) <> nth 0 (batched_any P g1 g2 [p]) (g2 p).
Proof. exact batched_any_crosstalk. Qed.

Theorem C04_all_branch_crosstalk : forall (A B : Type) (P : A -> bool) (g1 g2 : A -> B) p q,
  P p = true -> P q = false -> g1 p <> g2 p ->
  nth 0 (batched_all P g1 g2 [p; q]) (g1 p) <> nth 0 (batched_all P g1 g2 [p]) (g1 p).
Proof. exact batched_all_crosstalk. Qed.

Open Scope R_scope.
(* track_methods.py:97  `if torch.any(tilt != 0)` *)
Theorem C04_site_tilt_harmless : forall Rm : M7 R, rmmul (rot (- 0)) (rmmul Rm (rot 0)) = Rm.
Proof. exact site_tilt_harmless. Qed.
Theorem C04_tilt_batch_equals_scalar : forall (ps : list (R * M7 R)),
  batched_any (fun p => if Req_EM_T (fst p) 0 then false else true)
              (fun p => rmmul (rot (- fst p)) (rmmul (snd p) (rot (fst p)))) (fun p => snd p) ps
  = map (fun p => if Req_EM_T (fst p) 0 then snd p else rmmul (rot (- fst p)) (rmmul (snd p) (rot (fst p)))) ps.
Proof. exact tilt_batch_sound. Qed.
(* quadrupole.py / solenoid.py  `if torch.all(self.misalignment == 0)` *)
Theorem C04_site_misalignment_harmless : forall Rm : M7 R, rmmul (mis_exit 0 0) (rmmul Rm (mis_entry 0 0)) = Rm.
Proof. exact site_misalignment_harmless. Qed.
(* dipole.py `if torch.any(self.length != 0.0)`: refuted (finding F4) *)
Theorem C04_site_dipole_length_refuted : forall angle k1 E, angle <> 0 ->
  m7nth (dip_thin 0 angle) 2 6 <> m7nth (base_untilted 0 k1 (dip_hx 0 angle) E) 2 6.
Proof. exact site_dipole_length_crosstalk. Qed.
(* cavity.py `if torch.any(delta_energy > 0)`: a zero-voltage entry divides by gamma0 - gamma1 = 0 (finding F5) *)
Theorem C04_site_cavity_refuted : forall (L V phi E beta0 beta1 : R), V = 0 ->
  let gamma0 := E / m_e in let gamma1 := (E + V * cos phi) / m_e in
  2 * beta0 * beta1 ^ 3 * gamma0 * (gamma0 - gamma1) * gamma1 ^ 3 = 0.
Proof. exact site_cavity_T566_denominator_zero. Qed.

(* shapes *)
Theorem C04_broadcast_comm : forall s t, broadcast_shapes s t = broadcast_shapes t s.
Proof. exact broadcast_comm. Qed.
Theorem C04_broadcast_idem : forall s, broadcast_shapes s s = Some s.
Proof. exact broadcast_idem. Qed.
Example C04_broadcast_example : broadcast_shapes [2; 1]%nat [3]%nat = Some [2; 3]%nat /\ broadcast_shapes [2]%nat [3]%nat = None.
Proof. split; reflexivity. Qed.

Print Assumptions C04_any_branch_sound.
Print Assumptions C04_all_branch_sound.
Print Assumptions C04_any_branch_crosstalk.
Print Assumptions C04_all_branch_crosstalk.
Print Assumptions C04_site_tilt_harmless.
Print Assumptions C04_tilt_batch_equals_scalar.
Print Assumptions C04_site_misalignment_harmless.
Print Assumptions C04_site_dipole_length_refuted.
Print Assumptions C04_site_cavity_refuted.
Print Assumptions C04_broadcast_comm.
Print Assumptions C04_broadcast_idem.
Print Assumptions C04_broadcast_example.
