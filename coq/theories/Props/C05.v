(** C05 -- Autograd gradients of tracking equal the true derivatives and are finite.      LEVEL: *partial*.

    What Coq carries here (for ALL parameter values in the stated domains):
      - what the TRUE derivative of each modelled transfer-map entry with respect to each continuous parameter IS
        (closed forms of Optics/Deriv.v, proved with Coquelicot [is_derive]); existence of the derivative is the
        finiteness statement: the closed forms have no pole in the stated domain;
      - the product rule for matrix products, i.e. the derivative through a whole segment;
      - at the removable points (k1 -> 0) explicit bounds and hence the limit of the derivative;
      - refutations on the faithful model of the code: the program that reverse-mode AD differentiates at a guarded
        point (k1 = 0: masked in-place write; misalignment = 0 / tilt = 0: shortcuts that return a tensor not depending on the
        parameter) has derivative 0 while the true derivative is not 0; the backward pass of torch.where is undefined
        (NaN) where the unselected branch divides by zero (Solenoid k = 0, Cavity voltage = 0).
    What Coq does NOT carry: that PyTorch's autograd returns these numbers.  That is established only at sampled points, by
    the correspondence (torch.autograd.grad of transfer_map entries vs the closed forms, through `interval`) and by the
    finite-difference oracle of harness/props/c05.py -- both are TESTING.  Bmad-X tracking, Cavity (voltage <> 0),
    TransverseDeflectingCavity, SpaceChargeKick, beam-parameter gradients: finite-difference oracle only.

    Only property theorems live here, each closed by [exact] of a lemma of Optics/Deriv*.v.
    [m7_derive M s D] := forall i j < 7, is_derive (fun t => (M t)[i][j]) s D[i][j]   (Optics/Flow.v). *)
From Coq Require Import Reals.
From Coquelicot Require Import Coquelicot.
From Cheetah Require Import Base.Mat Optics.Maps Optics.Flow Optics.Deriv Optics.DerivProofs Optics.DerivLimits Optics.DerivRefute Optics.DerivBend.
Open Scope R_scope.

(** * the cosine-like / sine-like pair as functions of the strength, both signs *)
Theorem C05_dC_dk : forall k L, k <> 0 -> is_derive (fun t => Cf t L) k (- L / 2 * Sf k L).
Proof. exact is_derive_Cf_dk. Qed.
Theorem C05_dS_dk : forall k L, k <> 0 -> is_derive (fun t => Sf t L) k ((L * Cf k L - Sf k L) / (2 * k)).
Proof. exact is_derive_Sf_dk. Qed.
(* branch-specific closed forms *)
Theorem C05_dcos_dk : forall k L, 0 < k ->
  is_derive (fun t => cos (sqrt t * L)) k (- L / 2 * (sin (sqrt k * L) / sqrt k)).
Proof. exact d_cos_sqrt_dk. Qed.
Theorem C05_dsin_dk : forall k L, 0 < k ->
  is_derive (fun t => sin (sqrt t * L) / sqrt t) k ((L * cos (sqrt k * L) - sin (sqrt k * L) / sqrt k) / (2 * k)).
Proof. exact d_sin_sqrt_dk. Qed.
Theorem C05_dcosh_dk : forall k L, k < 0 ->
  is_derive (fun t => cosh (sqrt (- t) * L)) k (- L / 2 * (sinh (sqrt (- k) * L) / sqrt (- k))).
Proof. exact d_cosh_sqrt_dk. Qed.
Theorem C05_dsinh_dk : forall k L, k < 0 ->
  is_derive (fun t => sinh (sqrt (- t) * L) / sqrt (- t)) k
            ((L * cosh (sqrt (- k) * L) - sinh (sqrt (- k) * L) / sqrt (- k)) / (2 * k)).
Proof. exact d_sinh_sqrt_dk. Qed.

(** * quadrupole: all 49 entries, d/dk1 (k1 <> 0) and d/dL *)
Theorem C05_quad_dk1 : forall L k1 E, k1 <> 0 ->
  forall i j, (i < 7)%nat -> (j < 7)%nat ->
  is_derive (fun k => m7nth (base_untilted L k 0 E) i j) k1
    (m7nth (mk7 (row (dCf_dk k1 L) (dSf_dk k1 L) 0 0 0 0 0)
                (row (- Sf k1 L - k1 * dSf_dk k1 L) (dCf_dk k1 L) 0 0 0 0 0)
                (row 0 0 (- dCf_dk (- k1) L) (- dSf_dk (- k1) L) 0 0 0)
                (row 0 0 (Sf (- k1) L - k1 * dSf_dk (- k1) L) (- dCf_dk (- k1) L) 0 0 0)
                (row 0 0 0 0 0 0 0) (row 0 0 0 0 0 0 0) (row 0 0 0 0 0 0 0)) i j).
Proof. exact deriv_quad_k1. Qed.
Theorem C05_quad_dL : forall L k1 E, k1 <> 0 ->
  m7_derive (fun s => base_untilted s k1 0 E) L
            (rmmul (gen_sbend k1 (- k1) 0 (beta_of E) (igamma2_of E)) (base_untilted L k1 0 E)).
Proof. exact deriv_quad_L. Qed.
Theorem C05_sbend_dL : forall L k1 hx E, k1 <> 0 -> k1 + hx² <> 0 ->
  m7_derive (fun s => base_untilted s k1 hx E) L
            (rmmul (gen_sbend (k1 + hx²) (- k1) hx (beta_of E) (igamma2_of E)) (base_untilted L k1 hx E)).
Proof. exact deriv_sbend_L. Qed.

(** * combined-function sector-bend body (Dipole / RBend, cheetah method): d/dk1, d/dhx, d/dangle (hx = angle / length) *)
Theorem C05_sbend_dk1 : forall L k1 hx E, k1 <> 0 -> k1 + hx² <> 0 ->
  m7_derive (fun k => base_untilted L k hx E) k1 (dsbend_dk1 L k1 hx E).
Proof. exact deriv_sbend_k1. Qed.
Theorem C05_sbend_dhx : forall L k1 hx E, k1 <> 0 -> k1 + hx² <> 0 ->
  m7_derive (fun h => base_untilted L k1 h E) hx (dsbend_dhx L k1 hx E).
Proof. exact deriv_sbend_hx. Qed.
Theorem C05_sbend_dangle : forall L k1 angle E, L <> 0 -> k1 <> 0 -> k1 + (angle / L)² <> 0 ->
  m7_derive (fun a => base_untilted L k1 (a / L) E) angle (rmscale (/ L) (dsbend_dhx L k1 (angle / L) E)).
Proof. exact deriv_sbend_angle. Qed.

(** * finiteness: the derivatives exist in the stated domains; d/dk1 stays bounded on the punctured box around k1 = 0 *)
Theorem C05_quad_dk1_finite : forall L k1 E i j, k1 <> 0 -> (i < 7)%nat -> (j < 7)%nat ->
  ex_derive (fun k => m7nth (base_untilted L k 0 E) i j) k1.
Proof. exact quad_dk1_finite. Qed.
Theorem C05_sol_dk_finite : forall L k E i j, k <> 0 -> (i < 7)%nat -> (j < 7)%nat ->
  ex_derive (fun t => m7nth (sol_body L t E) i j) k.
Proof. exact sol_dk_finite. Qed.
Theorem C05_quad_dk1_bounded_near_0 : forall L k1 E, k1 <> 0 -> 0 <= L -> Rabs k1 * (L * L) <= 1 ->
  Rabs (m7nth (dquad_dk1 L k1 E) 0 0) <= L * L / 2 + L * L / 6 /\
  Rabs (m7nth (dquad_dk1 L k1 E) 0 1) <= L * L * L / 6 + L * L * L / 30.
Proof. exact quad_dk1_R11_R12_bounded. Qed.

(** * drift (incl. R56) and correctors *)
Theorem C05_drift_dL : forall L E,
  m7_derive (fun s => drift_map s E) L
    (mk7 (row 0 1 0 0 0 0 0) (row 0 0 0 0 0 0 0) (row 0 0 0 1 0 0 0) (row 0 0 0 0 0 0 0)
         (row 0 0 0 0 0 (- igamma2_of E / (beta_of E)²) 0) (row 0 0 0 0 0 0 0) (row 0 0 0 0 0 0 0)).
Proof. exact deriv_drift_L. Qed.
Theorem C05_hcor_dangle : forall L a E, m7_derive (fun t => hcor_map L t E) a dhcor_dangle.
Proof. exact deriv_hcor_angle. Qed.
Theorem C05_vcor_dangle : forall L a E, m7_derive (fun t => vcor_map L t E) a dvcor_dangle.
Proof. exact deriv_vcor_angle. Qed.
Theorem C05_hcor_dL : forall L a E, m7_derive (fun s => hcor_map s a E) L (ddrift_dL E).
Proof. exact deriv_hcor_L. Qed.
Theorem C05_vcor_dL : forall L a E, m7_derive (fun s => vcor_map s a E) L (ddrift_dL E).
Proof. exact deriv_vcor_L. Qed.

(** * solenoid *)
Theorem C05_sol_dk : forall L k E, k <> 0 -> m7_derive (fun t => sol_body L t E) k (dsol_dk L k E).
Proof. exact deriv_sol_k. Qed.
Theorem C05_sol_dL : forall L k E, m_e < E -> k <> 0 ->
  m7_derive (fun s => sol_body s k E) L (rmmul (gen_sol k (beta_of E) (igamma2_of E)) (sol_body L k E)).
Proof. exact deriv_sol_L. Qed.

(** * tilt and misalignment conjugations, for any inner map M *)
Theorem C05_rot_dangle : forall a, m7_derive rot a (drot a).
Proof. exact deriv_rot. Qed.
Theorem C05_tilt : forall M t,
  m7_derive (fun t => rmmul (rot (- t)) (rmmul M (rot t))) t
            (rmadd (rmmul (rmscale (-1) (drot (- t))) (rmmul M (rot t))) (rmmul (rot (- t)) (rmmul M (drot t)))).
Proof. exact deriv_tilt_conj. Qed.
Theorem C05_misalignment_x : forall M mx my,
  m7_derive (fun t => rmmul (mis_exit t my) (rmmul M (mis_entry t my))) mx (dmis_dmx M mx my).
Proof. exact deriv_mis_mx. Qed.
Theorem C05_misalignment_y : forall M mx my,
  m7_derive (fun t => rmmul (mis_exit mx t) (rmmul M (mis_entry mx t))) my (dmis_dmy M mx my).
Proof. exact deriv_mis_my. Qed.
(* the affine column of a misaligned element *)
Theorem C05_misalignment_affine_column : forall M mx my i, c6 M = row 0 0 0 0 0 0 1 -> (i < 7)%nat ->
  m7nth (dmis_dmx M mx my) i 6 = (if Nat.eqb i 0 then 1 else 0) - m7nth M i 0 /\
  m7nth (dmis_dmy M mx my) i 6 = (if Nat.eqb i 2 then 1 else 0) - m7nth M i 2.
Proof. exact dmis_col6. Qed.

(** * product rule: derivative through a segment *)
Theorem C05_product_rule : forall (A B : R -> M7 R) s DA DB, m7_derive A s DA -> m7_derive B s DB ->
  m7_derive (fun t => rmmul (A t) (B t)) s (rmadd (rmmul DA (B s)) (rmmul (A s) DB)).
Proof. exact deriv_mmul. Qed.
Theorem C05_segment3 : forall (M1 M2 M3 : R -> M7 R) s D1 D2 D3,
  m7_derive M1 s D1 -> m7_derive M2 s D2 -> m7_derive M3 s D3 ->
  m7_derive (fun t => rmmul (M3 t) (rmmul (M2 t) (M1 t))) s
            (rmadd (rmmul D3 (rmmul (M2 s) (M1 s))) (rmmul (M3 s) (rmadd (rmmul D2 (M1 s)) (rmmul (M2 s) D1)))).
Proof. exact deriv_segment3. Qed.

(** * removable point k1 -> 0: explicit bounds on a box, and the limits *)
Theorem C05_dC_dk_bound : forall k L, k <> 0 -> 0 <= L -> Rabs k * (L * L) <= 1 ->
  Rabs (- L / 2 * Sf k L + L * L / 2) <= Rabs k * (L * L * L * L) / 6.
Proof. exact dCf_dk_bound. Qed.
Theorem C05_dS_dk_bound : forall k L, k <> 0 -> 0 <= L -> Rabs k * (L * L) <= 1 ->
  Rabs ((L * Cf k L - Sf k L) / (2 * k) + L * L * L / 6) <= Rabs k * (L * L * L * L * L) / 30.
Proof. exact dSf_dk_bound. Qed.
Theorem C05_quad_dk1_R11_limit : forall L E, 0 < L ->
  forall eps, 0 < eps -> exists delta, 0 < delta /\
  forall k1, k1 <> 0 -> Rabs k1 < delta -> Rabs (m7nth (dquad_dk1 L k1 E) 0 0 - m7nth (dquad_dk1_lim L) 0 0) < eps.
Proof. exact quad_dk1_R11_limit. Qed.
Theorem C05_quad_dk1_R12_limit : forall L E, 0 < L ->
  forall eps, 0 < eps -> exists delta, 0 < delta /\
  forall k1, k1 <> 0 -> Rabs k1 < delta -> Rabs (m7nth (dquad_dk1 L k1 E) 0 1 - m7nth (dquad_dk1_lim L) 0 1) < eps.
Proof. exact quad_dk1_R12_limit. Qed.
Theorem C05_sol_sk_derivative_at_0 : forall L, is_derive (sol_sk L) 0 0.
Proof. exact sol_sk_derive_0. Qed.

(** * AD on the faithful model: away from the guard the differentiated program is the map ... *)
Theorem C05_trace_is_map : forall L k0 E, quad_trace L k0 E k0 = base_untilted L k0 0 E.
Proof. exact quad_trace_self. Qed.
Theorem C05_trace_deriv_nz : forall L k0 E, k0 <> 0 -> m7_derive (quad_trace L k0 E) k0 (dquad_dk1 L k0 E).
Proof. exact quad_trace_deriv_nz. Qed.
(** ... and at the guard it is not: finding F6 *)
Theorem C05_quad_dk1_guard_refuted : forall L E, 0 < L ->
  m7_derive (quad_trace L 0 E) 0 rZ /\ m7nth rZ 0 0 = 0 /\ m7nth rZ 0 1 = 0 /\
  tends_to_at0 (fun k1 => m7nth (dquad_dk1 L k1 E) 0 0) (- (L * L) / 2) /\
  tends_to_at0 (fun k1 => m7nth (dquad_dk1 L k1 E) 0 1) (- (L * L * L) / 6) /\
  - (L * L) / 2 <> 0 /\ - (L * L * L) / 6 <> 0.
Proof. exact quad_dk1_guard_refuted. Qed.
(** findings F60 / F61: all-zero shortcuts *)
Theorem C05_misalignment_zero_shortcut_refuted : forall M, c6 M = row 0 0 0 0 0 0 1 -> m7nth M 0 0 <> 1 ->
  m7_derive (fun t => mis_trace M 0 0 t 0) 0 rZ /\ m7nth rZ 0 6 = 0 /\
  m7_derive (fun t => mis_conj M t 0) 0 (dmis_dmx M 0 0) /\ m7nth (dmis_dmx M 0 0) 0 6 = 1 - m7nth M 0 0 /\
  m7nth (dmis_dmx M 0 0) 0 6 <> 0.
Proof. exact mis_zero_shortcut_refuted. Qed.
Theorem C05_tilt_zero_shortcut_refuted : forall M, m7nth M 0 0 <> m7nth M 2 2 ->
  m7_derive (tilt_trace M 0) 0 rZ /\ m7nth rZ 0 2 = 0 /\
  m7_derive (tilt_conj M) 0 (dtilt_conj_0 M) /\ m7nth (dtilt_conj_0 M) 0 2 <> 0.
Proof. exact tilt_zero_shortcut_refuted. Qed.
(** finding F7: NaN gradients (definedness in the NaN-propagating partial arithmetic of Deriv.v) *)
Theorem C05_solenoid_dk_defined_nz : forall L k, k <> 0 ->
  sol_sk_grad_ad L k = Some (L * cos (L * k) / k - sin (L * k) / (k * k)) /\
  is_derive (sol_sk L) k (L * cos (L * k) / k - sin (L * k) / (k * k)).
Proof. exact sol_sk_grad_ad_nz. Qed.
Theorem C05_solenoid_dk_at0_refuted : forall L, sol_sk_grad_ad L 0 = None /\ is_derive (sol_sk L) 0 0.
Proof. exact solenoid_dk_at0_refuted. Qed.
Theorem C05_cavity_grad_at_V0_refuted : forall L phi E g_off, cav_r12_grad_ad L 0 phi E g_off = None.
Proof. exact cavity_grad_at_V0_refuted. Qed.
Theorem C05_cavity_grad_on_defined : forall L V phi E g, V <> 0 -> L <> 0 -> cos phi <> 0 ->
  exists d, cav_r12_grad_ad L V phi E (Some g) = Some d.
Proof. exact cavity_grad_on_defined. Qed.

(** * non-vacuity *)
Example C05_ex_limit_value : m7nth (dquad_dk1_lim 1) 0 0 = - (1 / 2) /\ m7nth (dquad_dk1_lim 1) 0 1 = - (1 / 6).
Proof. exact dquad_dk1_lim_at1. Qed.

Print Assumptions C05_dC_dk.
Print Assumptions C05_dS_dk.
Print Assumptions C05_dcos_dk.
Print Assumptions C05_dsin_dk.
Print Assumptions C05_dcosh_dk.
Print Assumptions C05_dsinh_dk.
Print Assumptions C05_quad_dk1.
Print Assumptions C05_quad_dL.
Print Assumptions C05_sbend_dL.
Print Assumptions C05_sbend_dk1.
Print Assumptions C05_sbend_dhx.
Print Assumptions C05_sbend_dangle.
Print Assumptions C05_quad_dk1_finite.
Print Assumptions C05_sol_dk_finite.
Print Assumptions C05_quad_dk1_bounded_near_0.
Print Assumptions C05_drift_dL.
Print Assumptions C05_hcor_dangle.
Print Assumptions C05_vcor_dangle.
Print Assumptions C05_hcor_dL.
Print Assumptions C05_vcor_dL.
Print Assumptions C05_sol_dk.
Print Assumptions C05_sol_dL.
Print Assumptions C05_rot_dangle.
Print Assumptions C05_tilt.
Print Assumptions C05_misalignment_x.
Print Assumptions C05_misalignment_y.
Print Assumptions C05_misalignment_affine_column.
Print Assumptions C05_product_rule.
Print Assumptions C05_segment3.
Print Assumptions C05_dC_dk_bound.
Print Assumptions C05_dS_dk_bound.
Print Assumptions C05_quad_dk1_R11_limit.
Print Assumptions C05_quad_dk1_R12_limit.
Print Assumptions C05_sol_sk_derivative_at_0.
Print Assumptions C05_trace_is_map.
Print Assumptions C05_trace_deriv_nz.
Print Assumptions C05_quad_dk1_guard_refuted.
Print Assumptions C05_misalignment_zero_shortcut_refuted.
Print Assumptions C05_tilt_zero_shortcut_refuted.
Print Assumptions C05_solenoid_dk_defined_nz.
Print Assumptions C05_solenoid_dk_at0_refuted.
Print Assumptions C05_cavity_grad_at_V0_refuted.
Print Assumptions C05_cavity_grad_on_defined.
Print Assumptions C05_ex_limit_value.

(** * finding F64: the value the derivative of the dispersion entries R16 = R52 w.r.t. the bending angle takes at angle = 0,
      k1 = 0 in the program as written (k1 guard 1e-12), in exact arithmetic and with the float64 cosine; the band that the
      harness accepts as F64 and nothing wider (Optics/DerivF64.v) *)
From Cheetah Require Import Optics.DerivF64.
(* the guarded program is differentiable there; its derivative is the closed form at k1 = 1e-12, hx = 0 *)
Theorem C05_F64_guarded_derivative : forall L E, L <> 0 ->
  m7_derive (fun a => base_untilted L 0 (a / L) E) 0 (rmscale (/ L) (dsbend_dhx L 1e-12 0 E)).
Proof. exact sbend_dangle_guard_at0. Qed.
Theorem C05_F64_dispersion_entries : forall L E,
  m7nth (dsbend_dhx L 1e-12 0 E) 0 5 = (1 - cos (1e-6 * L)) / 1e-12 / beta_of E /\
  m7nth (dsbend_dhx L 1e-12 0 E) 4 1 = (1 - cos (1e-6 * L)) / 1e-12 / beta_of E /\
  m7nth (dsbend_dhx L 1e-12 0 E) 1 5 = sin (1e-6 * L) / 1e-6 / beta_of E /\
  m7nth (dsbend_dhx L 1e-12 0 E) 4 0 = sin (1e-6 * L) / 1e-6 / beta_of E /\
  m7nth (dsbend_dhx L 1e-12 0 E) 4 5 = 0 /\ m7nth (dsbend_dhx L 1e-12 0 E) 0 0 = 0 /\ m7nth (dsbend_dhx L 1e-12 0 E) 0 1 = 0.
Proof. exact dsbend_dhx_guard_disp. Qed.
(* exact arithmetic: the guard costs at most 1e-12 L^4 / 24 *)
Theorem C05_F64_exact_arithmetic : forall L, 0 <= L ->
  0 <= L * L / 2 - (1 - cos (1e-6 * L)) / 1e-12 <= 1e-12 * (L * L * L * L) / 24.
Proof. exact disp_guard_bound. Qed.
(* float effect: a cosine stored with absolute error eta moves the quotient by eta / 1e-12 *)
Theorem C05_F64_float_effect : forall L eta, 0 <= L ->
  Rabs ((1 - (cos (1e-6 * L) + eta)) / 1e-12 - L * L / 2) <= 1e-12 * (L * L * L * L) / 24 + Rabs eta / 1e-12.
Proof. exact disp_float_bound. Qed.
Theorem C05_F64_relative_band : forall L eta, 0 < L -> Rabs eta <= / 2 ^ 51 ->
  Rabs ((1 - (cos (1e-6 * L) + eta)) / 1e-12 / (L * L / 2) - 1) <= 1e-12 * (L * L) / 12 + / 2 ^ 50 / 1e-12 / (L * L).
Proof. exact disp_float_rel. Qed.
(* what the harness checks for an observed d R16 / d angle, and what it implies *)
Theorem C05_F64_observation_band : forall L E obs, 0 < L -> 0 < beta_of E ->
  Rabs (1 - cos (1e-6 * L) - obs * L * beta_of E * 1e-12) <= / 2 ^ 51 ->
  Rabs (obs - L / 2 / beta_of E) <= (1e-12 * (L * L * L * L) / 24 + / 2 ^ 51 / 1e-12) / (L * beta_of E).
Proof. exact f64_observation_band. Qed.
(* a derivative that lost the dispersion term altogether (observation 0) is outside the band for 0.05 <= L <= 100 *)
Theorem C05_F64_zero_is_outside_band : forall L E, 0.05 <= L <= 100 ->
  / 2 ^ 51 < Rabs (1 - cos (1e-6 * L) - 0 * L * beta_of E * 1e-12).
Proof. exact f64_zero_observation_outside_band. Qed.

Print Assumptions C05_F64_guarded_derivative.
Print Assumptions C05_F64_dispersion_entries.
Print Assumptions C05_F64_exact_arithmetic.
Print Assumptions C05_F64_float_effect.
Print Assumptions C05_F64_relative_band.
Print Assumptions C05_F64_observation_band.
Print Assumptions C05_F64_zero_is_outside_band.
