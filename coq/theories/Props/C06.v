(** C06 -- ParameterBeam tracking equals the moments of ParticleBeam tracking.
    Only property theorems live here: each is closed by [exact] of a lemma proved elsewhere
    and followed by [Print Assumptions]. *)
From Coq Require Import List Reals Ring.
From Cheetah Require Import Base.Mat Lattice.Track Beam.Moments Beam.MomentsProofs Beam.MomReal
  Beam.MomCavity Beam.MomCavityProofs Beam.WMoments Beam.WMomentsProofs Beam.WMomReal Optics.Maps.
Import ListNotations.

(** * Any commutative ring with any "inverse" function (R, Q, Z...), any 7x7 map, any particles *)
Section C06.
Variable A : Type.
Variables (zero one : A) (add mul sub : A -> A -> A) (opp inv : A -> A).
Hypothesis Rth : ring_theory zero one add mul sub opp (@eq A).

Notation Mean := (mean zero one add mul inv).
Notation Cov := (cov zero one add mul sub inv).
Notation Moments := (moments zero one add mul sub inv).

(* sample mean of the tracked particles = map applied to the sample mean *)
Theorem C06_mean_map : forall (m : M7 A) (xs : list (V7 A)),
  Mean (map (mvec add mul m) xs) = mvec add mul m (Mean xs).
Proof. exact (mean_map inv Rth). Qed.

(* unbiased sample covariance of the tracked particles = M cov M^T (all 49 entries, affine maps included) *)
Theorem C06_cov_map : forall (m : M7 A) (xs : list (V7 A)),
  Cov (map (mvec add mul m) xs) = mmul add mul m (mmul add mul (Cov xs) (transpose m)).
Proof. exact (cov_map inv Rth). Qed.

(* one linear element: Element.track(ParameterBeam of moments) = moments of Element.track(ParticleBeam);
   the records compared contain mean, covariance, reference energy and total charge *)
Theorem C06_element : forall (m : M7 A) (b : PartBeam A),
  Moments (app_part add mul m b) = app_param add mul m (Moments b).
Proof. exact (moments_app inv Rth). Qed.

(* every Segment (any nesting; Segment.track merges the maps of skippable runs) of leaves that track both
   beam types by their own energy-dependent transfer map *)
Theorem C06_segment : forall (L : Type) (skip : L -> bool) (tmap : L -> A -> M7 A)
    (ltrack_part : L -> PartBeam A -> PartBeam A) (ltrack_param : L -> ParamBeam A -> ParamBeam A),
  (forall l b, ltrack_part l b = app_part add mul (tmap l (pE b)) b) ->
  (forall l b, ltrack_param l b = app_param add mul (tmap l (qE b)) b) ->
  forall (e : elem L) (b : PartBeam A),
    Moments (track (I7 zero one) (mmul add mul) (app_part add mul) (@pE A) skip tmap ltrack_part e b)
    = track (I7 zero one) (mmul add mul) (app_param add mul) (@qE A) skip tmap ltrack_param e (Moments b).
Proof. exact (moments_segment inv Rth). Qed.

(* total charge and reference energy are unchanged by a linear element, for both beam types *)
Theorem C06_charge_same : forall (m : M7 A) (b : PartBeam A),
  total_charge zero add mul (app_part add mul m b) = total_charge zero add mul b /\
  qQ (app_param add mul m (Moments b)) = total_charge zero add mul b /\
  pE (app_part add mul m b) = pE b /\ qE (app_param add mul m (Moments b)) = pE b.
Proof. exact (fun m b => conj eq_refl (conj eq_refl (conj eq_refl eq_refl))). Qed.

(* symmetry of the sample covariance and of every congruence image of a symmetric matrix *)
Theorem C06_cov_sym : forall xs : list (V7 A), transpose (Cov xs) = Cov xs.
Proof. exact (cov_sym inv Rth). Qed.
Theorem C06_cong_sym : forall m s : M7 A, transpose s = s ->
  transpose (cong add mul m s) = cong add mul m s.
Proof. exact (cong_sym Rth). Qed.
End C06.

(** * Over the reals *)
Open Scope R_scope.

(* v^T (M S M^T) v = (M^T v)^T S (M^T v) >= 0 when S is positive semi-definite; the sample covariance is *)
Theorem C06_cov_psd : forall (xs : list (V7 R)) (v : V7 R),
  0 <= dot Rplus Rmult v (mvec Rplus Rmult (cov 0 1 Rplus Rmult Rminus Rinv xs) v).
Proof. exact cov_psd. Qed.
Theorem C06_cong_psd : forall m s : M7 R,
  (forall v, 0 <= dot Rplus Rmult v (mvec Rplus Rmult s v)) ->
  forall v, 0 <= dot Rplus Rmult v (mvec Rplus Rmult (cong Rplus Rmult m s) v).
Proof. exact cong_psd. Qed.

(* the affine slot: all particles carry 1 in the 7th component => the mean does and the 7th row and
   column of the covariance vanish; an affine map (last row e6) keeps this *)
Theorem C06_seventh : forall xs : list (V7 R), Forall (fun x => c6 x = 1) xs -> xs <> [] ->
  c6 (mean 0 1 Rplus Rmult Rinv xs) = 1 /\
  c6 (cov 0 1 Rplus Rmult Rminus Rinv xs) = mk7 0 0 0 0 0 0 0 /\
  col (@c6 R) (cov 0 1 Rplus Rmult Rminus Rinv xs) = mk7 0 0 0 0 0 0 0.
Proof. exact (fun xs H Hne => conj (mean_seventh xs H Hne) (cov_seventh xs H Hne)). Qed.
Theorem C06_affine_seventh : forall (m : M7 R) (xs : list (V7 R)), c6 m = mk7 0 0 0 0 0 0 1 ->
  Forall (fun x => c6 x = 1) xs -> Forall (fun x => c6 x = 1) (map (mvec Rplus Rmult m) xs).
Proof. exact affine_seventh. Qed.

(** * Cavity (Cavity._track_beam as coded, any voltage incl. 0, phase, frequency, length) *)
(* means 0-3 and the 4x4 transverse covariance block *)
Theorem C06_cavity_transverse : forall (L V phi f : R) (b : PartBeam R),
  let out_part := moments 0 1 Rplus Rmult Rminus Rinv (cavity_part L V phi f b) in
  let out_param := cavity_param L V phi f (moments 0 1 Rplus Rmult Rminus Rinv b) in
  mu4 (pmu out_part) = mu4 (pmu out_param) /\ cov44 (pcov out_part) = cov44 (pcov out_param).
Proof. exact cavity_transverse. Qed.
Theorem C06_cavity_energy_same : forall (L V phi f : R) (b : PartBeam R),
  qE (moments 0 1 Rplus Rmult Rminus Rinv (cavity_part L V phi f b))
  = qE (cavity_param L V phi f (moments 0 1 Rplus Rmult Rminus Rinv b)).
Proof. exact cavity_energy_same. Qed.
Theorem C06_cavity_energy_gain : forall (L V phi f : R) (b : PartBeam R),
  0 < pE b + V * cos phi -> pE (cavity_part L V phi f b) = pE b + V * cos phi.
Proof. exact cavity_energy_gain. Qed.
Theorem C06_cavity_charge_same : forall (L V phi f : R) (b : PartBeam R),
  qQ (moments 0 1 Rplus Rmult Rminus Rinv (cavity_part L V phi f b))
  = qQ (cavity_param L V phi f (moments 0 1 Rplus Rmult Rminus Rinv b)).
Proof. exact cavity_charge_same. Qed.

(** the "switched-off cavities" clause fails for the code as it is (findings F2, F1) *)
Theorem C06_cavity_off_param_refuted : forall L phi f E q1 q2, 0 < E ->
  let b := mkPart [mk7 0 0 0 0 1 0 1; mk7 0 0 0 0 (-1) 0 1] E [q1; q2] [1; 1] in
  (* var(tau) of the tracked ParameterBeam is 0 ... *)
  c4 (c4 (pcov (cavity_param L 0 phi f (moments 0 1 Rplus Rmult Rminus Rinv b)))) = 0 /\
  (* ... but the tracked particles keep var(tau) = 2 *)
  c4 (c4 (pcov (moments 0 1 Rplus Rmult Rminus Rinv (cavity_part L 0 phi f b)))) = 2.
Proof. exact cavity_off_param_refuted. Qed.

Theorem C06_cavity_off_part_nonlinear_refuted : forall L phi f E q1 q2, m_e < E -> L <> 0 ->
  let b := mkPart [mk7 0 0 0 0 0 1 1; mk7 0 0 0 0 0 (-1) 1] E [q1; q2] [1; 1] in
  let T566 := 1.5 * L * igamma2_of E / (beta_of E) ^ 3 in
  (* mean tau of the tracked particles is T566 ... *)
  c4 (pmu (moments 0 1 Rplus Rmult Rminus Rinv (cavity_part L 0 phi f b))) = T566 /\
  (* ... the cavity's own transfer map sends the mean to tau = 0 ... *)
  c4 (pmu (app_param Rplus Rmult (cav_tm L 0 phi f E) (moments 0 1 Rplus Rmult Rminus Rinv b))) = 0 /\
  T566 <> 0.
Proof. exact cavity_off_part_nonlinear_refuted. Qed.

(* the covariance returned by Cavity.track(ParameterBeam) is not positive semi-definite (F2): with
   c = cx L 0 0 = cos(sqrt(1e-12) L) (the (0,0) entry of the zero-voltage map; c = 1 at L = 0) *)
Theorem C06_cavity_param_not_psd_refuted : forall L phi f E q1 q2, 0 < E ->
  let b := mkPart [mk7 1 0 0 0 1 0 1; mk7 (-1) 0 0 0 (-1) 0 1] E [q1; q2] [1; 1] in
  let c := cx L 0 0 in
  let S := pcov (cavity_param L 0 phi f (moments 0 1 Rplus Rmult Rminus Rinv b)) in
  let v := mk7 1 0 0 0 (- c) 0 0 in
  dot Rplus Rmult v (mvec Rplus Rmult S v) = - 2 * c ^ 2.
Proof. exact cavity_param_not_psd_refuted. Qed.
Example C06_cx_at_zero_length : cx 0 0 0 = 1.
Proof. exact cx_L0. Qed.

(** non-vacuity: the hypotheses of C06_segment are satisfiable (a drift-like leaf type over R) *)
Example C06_nonvacuous :
  let M := mk7 (mk7 1 2 0 0 0 0 0) (mk7 0 1 0 0 0 0 3) (mk7 0 0 1 0 0 0 0) (mk7 0 0 0 1 0 0 0)
               (mk7 0 0 0 0 1 (-1) 0) (mk7 0 0 0 0 0 1 0) (mk7 0 0 0 0 0 0 1) in
  let b := mkPart [mk7 1 0 0 0 0 1 1; mk7 (-1) 2 0 0 0 (-1) 1] 5 [1; 1] [1; 1] in
  c0 (pmu (moments 0 1 Rplus Rmult Rminus Rinv (app_part Rplus Rmult M b))) = 2 /\
  c0 (pmu (app_param Rplus Rmult M (moments 0 1 Rplus Rmult Rminus Rinv b))) = 2.
Proof. exact C06_nonvacuous_proof. Qed.

Print Assumptions C06_mean_map.
Print Assumptions C06_cov_map.
Print Assumptions C06_element.
Print Assumptions C06_segment.
Print Assumptions C06_charge_same.
Print Assumptions C06_cov_sym.
Print Assumptions C06_cong_sym.
Print Assumptions C06_cov_psd.
Print Assumptions C06_cong_psd.
Print Assumptions C06_seventh.
Print Assumptions C06_affine_seventh.
Print Assumptions C06_cavity_transverse.
Print Assumptions C06_cavity_energy_same.
Print Assumptions C06_cavity_energy_gain.
Print Assumptions C06_cavity_charge_same.
Print Assumptions C06_cavity_off_param_refuted.
Print Assumptions C06_cavity_off_part_nonlinear_refuted.
Print Assumptions C06_cavity_param_not_psd_refuted.
Print Assumptions C06_cx_at_zero_length.
Print Assumptions C06_nonvacuous.

(** * Survival-weighted moments (beams that have passed an aperture: survival probabilities other than 1).
    cheetah's getters are sum(x w)/sum(w) and unbiased_weighted_covariance; any ring, ANY weights. *)
Section C06w.
Variable A : Type.
Variables (zero one : A) (add mul sub : A -> A -> A) (opp inv : A -> A).
Hypothesis Rth : ring_theory zero one add mul sub opp (@eq A).
Notation WMean := (wmean zero add mul inv).
Notation WCov := (wcov zero add mul sub inv).
Notation WMoments := (wmoments zero add mul sub inv).

Theorem C06_wmean_map : forall (m : M7 A) (ws : list A) (xs : list (V7 A)),
  WMean ws (map (mvec add mul m) xs) = mvec add mul m (WMean ws xs).
Proof. exact (wmean_map inv Rth). Qed.
Theorem C06_wcov_map : forall (m : M7 A) (ws : list A) (xs : list (V7 A)),
  WCov ws (map (mvec add mul m) xs) = mmul add mul m (mmul add mul (WCov ws xs) (transpose m)).
Proof. exact (wcov_map inv Rth). Qed.
Theorem C06_welement : forall (m : M7 A) (b : PartBeam A),
  WMoments (app_part add mul m b) = app_param add mul m (WMoments b).
Proof. exact (wmoments_app inv Rth). Qed.
Theorem C06_wsegment : forall (L : Type) (skip : L -> bool) (tmap : L -> A -> M7 A)
    (ltrack_part : L -> PartBeam A -> PartBeam A) (ltrack_param : L -> ParamBeam A -> ParamBeam A),
  (forall l b, ltrack_part l b = app_part add mul (tmap l (pE b)) b) ->
  (forall l b, ltrack_param l b = app_param add mul (tmap l (qE b)) b) ->
  forall (e : elem L) (b : PartBeam A),
    WMoments (track (I7 zero one) (mmul add mul) (app_part add mul) (@pE A) skip tmap ltrack_part e b)
    = track (I7 zero one) (mmul add mul) (app_param add mul) (@qE A) skip tmap ltrack_param e (WMoments b).
Proof. exact (wmoments_segment inv Rth). Qed.
Theorem C06_wcov_sym : forall (ws : list A) (xs : list (V7 A)), transpose (WCov ws xs) = WCov ws xs.
Proof. exact (wcov_sym inv Rth). Qed.
End C06w.

(* all survival probabilities 1: the weighted moments ARE the sample moments of the first part *)
Theorem C06_wmoments_ones : forall xs : list (V7 R), (1 <= length xs)%nat ->
  wmean 0 Rplus Rmult Rinv (repeat 1 (length xs)) xs = mean 0 1 Rplus Rmult Rinv xs /\
  wcov 0 Rplus Rmult Rminus Rinv (repeat 1 (length xs)) xs = cov 0 1 Rplus Rmult Rminus Rinv xs.
Proof. exact (fun xs H => conj (wmean_ones xs) (wcov_ones xs H)). Qed.
(* non-negative weights: the weighted covariance is positive semi-definite *)
Theorem C06_wcov_psd : forall (ws : list R) (xs : list (V7 R)) (v : V7 R), Forall (fun w => 0 <= w) ws ->
  0 <= dot Rplus Rmult v (mvec Rplus Rmult (wcov 0 Rplus Rmult Rminus Rinv ws xs) v).
Proof. exact wcov_psd. Qed.
Example C06_w_nonvacuous :
  let ws := [1; / 2; 0] in
  Forall (fun w => 0 <= w) ws /\ wcorr 0 Rplus Rmult Rminus Rinv ws = 2 / 3 /\
  c0 (wmean 0 Rplus Rmult Rinv ws [mk7 3 0 0 0 0 0 1; mk7 6 0 0 0 0 0 1; mk7 100 0 0 0 0 0 1]) = 4.
Proof. exact wexample. Qed.
Print Assumptions C06_wmean_map.
Print Assumptions C06_wcov_map.
Print Assumptions C06_welement.
Print Assumptions C06_wsegment.
Print Assumptions C06_wcov_sym.
Print Assumptions C06_wmoments_ones.
Print Assumptions C06_wcov_psd.
Print Assumptions C06_w_nonvacuous.
