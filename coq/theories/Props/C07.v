(** C07 -- Bmad-X tracking agrees with the linear map to first order and is an exact flow.
    Proved here: the Bmad-X drift (all clauses), the zero-voltage transverse deflecting cavity, and the Bmad-X quadrupole
    (transverse block = linear map at delta = 0, exact flow incl. z and num_steps independence for eps := 0, determinant defect
    of the coded eps = 2^-52, on-axis particle = Bmad-X drift, offset round trip, R56), and the Bmad-X dipole (fringe kicks = edge
    matrices of the linear map, body = exact motion in a uniform field = closed-form sector map, its Jacobian at the design orbit,
    flow law in all six coordinates, closed design orbit, equality of the two exit-position branches; section at the end).
    Models: Bmadx/DriftX.v (sqrt_one, track_a_drift, Drift._track_bmadx), Bmadx/Tdc.v, Bmadx/Coords.v, Bmadx/QuadX.v
    (calculate_quadrupole_coefficients, low_energy_z_correction, Quadrupole._track_bmadx), Bmadx/BendX.v (Dipole._track_bmadx,
    _bmadx_fringe_linear, _bmadx_body, sinc, cosc); linear map: Optics/Maps.v. *)
From Coq Require Import Reals.
From Coquelicot Require Import Coquelicot.
From Cheetah Require Import Base.Mat Optics.Maps Bmadx.Coords Bmadx.DriftX Bmadx.DriftXProofs Bmadx.DriftXJac Bmadx.Tdc Bmadx.TdcProofs
  Bmadx.QuadX Bmadx.QuadXProofs Bmadx.QuadXFlow Bmadx.QuadXJac
  Bmadx.BendX Bmadx.BendXProofs Bmadx.BendXGeom Bmadx.BendXOrbit Bmadx.BendXJac Bmadx.BendXJacLoc Bmadx.BendXFlow Bmadx.BendXFixed Bmadx.BendXRefuted.
Open Scope R_scope.

(** sqrt_one(x) = sqrt(1+x) - 1 *)
Theorem C07_sqrt_one_spec : forall x, -1 <= x -> sqrt_one x = sqrt (1 + x) - 1.
Proof. exact sqrt_one_spec. Qed.

(** the "numerically accurate" dz of track_a_drift is the documented  L*(beta/beta_ref - 1/Pl) *)
Theorem C07_driftx_dz : forall p0c m, 0 < p0c -> 0 < m -> forall L px py pz, 0 < 1 + pz -> dr_Pxy2 px py pz < 1 ->
  dr_dz L px py pz p0c m = L * (bc_beta pz p0c m / (p0c / bc_refE p0c m) - 1 / dr_Pl px py pz).
Proof. exact driftx_dz. Qed.

(** straight-line motion: x, y advance along the ray with direction (px, py, ps), ps = sqrt(P^2 - px^2 - py^2); the path
    length is L*P/ps and z advances by beta*(L/beta_ref - path/beta), i.e. by -beta*c*(difference of times of flight) *)
Theorem C07_driftx_straight_line : forall p0c m, 0 < p0c -> 0 < m -> forall L x y px py pz,
  0 < 1 + pz -> dr_Pxy2 px py pz < 1 ->
  let P := 1 + pz in let ps := sqrt (P² - px² - py²) in let path := L * P / ps in
  0 < ps /\
  dr_x L x px py pz = x + L * px / ps /\ dr_y L y px py pz = y + L * py / ps /\
  (dr_x L x px py pz - x)² + (dr_y L y px py pz - y)² + L² = path² /\
  dr_dz L px py pz p0c m = bc_beta pz p0c m * (L / (p0c / bc_refE p0c m) - path / bc_beta pz p0c m).
Proof. exact driftx_straight_line. Qed.

(** exact flow: two consecutive Bmad-X drifts are one drift of the total length (every particle, every lengths) *)
Theorem C07_driftx_flow : forall p0c m L1 L2 q, driftx L2 p0c m (driftx L1 p0c m q) = driftx (L1 + L2) p0c m q.
Proof. exact driftx_flow. Qed.

(** Drift._track_bmadx (conversions included) in closed form; the reference energy is returned unchanged *)
Theorem C07_drift_bmadx_closed_form : forall L E0 m, 0 < m -> m < E0 -> forall v,
  phys (cdelta v) E0 m -> dr_ok (to_bmad E0 m v) ->
  let pz := cb_pz (cdelta v) E0 m in
  drift_bmadx_track L E0 m v =
    mkc (dr_x L (cx v) (cpx v) (cpy v) pz) (cpx v) (dr_y L (cy v) (cpx v) (cpy v) pz) (cpy v)
        (ctau v + L * (1 / (cb_beta (cdelta v) E0 m * dr_Pl (cpx v) (cpy v) pz) - E0 / cb_p0c E0 m)) (cdelta v)
  /\ drift_bmadx_energy E0 m = E0.
Proof. exact drift_bmadx_closed. Qed.

(** first-order agreement with Drift.transfer_map at the design orbit: the two non-trivial Jacobian entries,
    d x'/d px = L = drift_map[0][1] and d tau'/d delta = R56 = drift_map[4][5] = -L/(beta0^2 gamma0^2),
    differentiating THROUGH cheetah_to_bmad_z_pz, track_a_drift and bmad_to_cheetah_z_pz.
    (_partial: the remaining entries -- identity rows of px, py, delta and vanishing cross terms -- are not spelled out as
    derivative statements; they are covered by the autograd-Jacobian oracle on the implementation.) *)
Theorem C07_driftx_jacobian_at_0_partial : forall L E0, m_e < E0 ->
  is_derive (fun t => cx (drift_bmadx_track L E0 m_e (mkc 0 t 0 0 0 0))) 0 (c1 (c0 (drift_map L E0))) /\
  is_derive (fun t => ctau (drift_bmadx_track L E0 m_e (mkc 0 0 0 0 0 t))) 0 (c5 (c4 (drift_map L E0))) /\
  (forall v, cpx (drift_bmadx_track L E0 m_e v) = cpx v /\ cpy (drift_bmadx_track L E0 m_e v) = cpy v).
Proof. exact drift_jacobian_entries. Qed.

(** a transverse deflecting cavity at zero voltage is exactly a Bmad-X drift of its length, for every misalignment, tilt,
    phase and frequency and every forward-moving particle *)
Theorem C07_tdc_off_is_driftx : forall phi0 f cl p0c m, 0 < p0c -> 0 < m -> forall L ox oy tilt q, 0 < 1 + bpz q ->
  tdc_bmad L 0 phi0 f cl ox oy tilt p0c m q = driftx L p0c m q.
Proof. exact tdc_off_is_driftx. Qed.

(* ================================================================== Bmad-X quadrupole (model: Bmadx/QuadX.v) *)

(** (a) transverse block at delta = 0.  For pz = 0 and eps := 0 one pass of the loop body of Quadrupole._track_bmadx over a
    length l acts on (x, px) and on (y, py) EXACTLY by the 2x2 blocks of base_untilted l k1 0 E, the linear quadrupole map
    (rows 0-3 of Quadrupole.transfer_map before tilt/misalignment), for every k1 <> 0: the map is linear in the transverse
    coordinates, so this is its transverse Jacobian about the design orbit. *)
Theorem C07_quadx_step_linear_block : forall Lf k1 l p0c m E q, Lf <> 0 -> k1 <> 0 -> bpz q = 0 ->
  let M := base_untilted l k1 0 E in let q' := quadx_step 0 Lf k1 l p0c m q in
  bx q' = c0 (c0 M) * bx q + c1 (c0 M) * bpx q /\ bpx q' = c0 (c1 M) * bx q + c1 (c1 M) * bpx q /\
  by_ q' = c2 (c2 M) * by_ q + c3 (c2 M) * bpy q /\ bpy q' = c2 (c3 M) * by_ q + c3 (c3 M) * bpy q.
Proof. exact quadx_step_linear_block. Qed.

(** with the coded eps (any eps >= 0; the code uses 2^-52) the values cx, sx of calculate_quadrupole_coefficients are the
    cosine-like / sine-like functions Cf, Sf of the linear map at the strength |k| + eps: k_eff = -k + eps (k <= 0), -k - eps (k > 0) *)
Theorem C07_quadx_coefficients_are_Cf_Sf : forall eps kc len, 0 <= eps -> kc <> 0 \/ 0 < eps ->
  qc_cx (le0 kc) eps kc len = Cf (qc_keff eps kc) len /\ qc_sx (le0 kc) eps kc len = Sf (qc_keff eps kc) len.
Proof. exact qc_cx_sx_Cf_Sf. Qed.

(** ... but a21 = k1*sx*rel_p uses the strength k, not |k| + eps: the coded 2x2 block has determinant 1 -/+ eps*sx^2, i.e. it is
    symplectic exactly only for eps = 0 (explicit defect; <= 2^-52 * sx^2 for the coded eps) *)
Theorem C07_quadx_block_determinant : forall eps kc len relp, 0 <= eps -> kc <> 0 \/ 0 < eps -> relp <> 0 ->
  let f := le0 kc in
  qc_a11 f eps kc len * qc_a22 f eps kc len - qc_a12 f eps kc len relp * qc_a21 f eps kc len relp
  = 1 - (if Rle_dec kc 0 then eps else - eps) * (qc_sx f eps kc len)².
Proof. exact qc_det. Qed.

(** (a) with the coded eps: for pz = 0 and ANY eps >= 0 (the code: qx_eps = 2^-52) one step acts on (x,px), (y,py) by the 2x2 blocks of
    the linear map of the quadrupole of strength ke = k1 + eps (k1 > 0) / k1 - eps (k1 < 0), except for the two entries a21, which
    use k1: the deviation from that linear map is EXACTLY (ke - k1) sx x resp. -(ke - k1) sy y, and |ke - k1| = eps *)
Theorem C07_quadx_step_block_eps : forall eps Lf k1 l p0c m E q, 0 <= eps -> Lf <> 0 -> k1 <> 0 -> bpz q = 0 ->
  let ke := qx_ke eps k1 in let M := base_untilted l ke 0 E in let q' := quadx_step eps Lf k1 l p0c m q in
  bx q' = c0 (c0 M) * bx q + c1 (c0 M) * bpx q /\
  bpx q' = c0 (c1 M) * bx q + c1 (c1 M) * bpx q + (ke - k1) * c1 (c0 M) * bx q /\
  by_ q' = c2 (c2 M) * by_ q + c3 (c2 M) * bpy q /\
  bpy q' = c2 (c3 M) * by_ q + c3 (c3 M) * bpy q - (ke - k1) * c3 (c2 M) * by_ q.
Proof. exact quadx_step_block_eps. Qed.
Theorem C07_quadx_ke_distance : forall eps k1, 0 <= eps -> Rabs (qx_ke eps k1 - k1) = eps.
Proof. exact qx_ke_dist. Qed.

(** (b) exact flow for eps := 0, ALL six coordinates (x, px, y, py, z, pz), every particle with 1 + pz > 0: a step of length l1
    followed by a step of length l2 is the step of length l1 + l2 (z included: the quadratic forms c1 x^2 + c2 x px + c3 px^2
    compose exactly and low_energy_z_correction is linear in the length) *)
Theorem C07_quadx_flow_eps0 : forall k1 p0c m, k1 <> 0 -> forall Lf1 Lf2 Lf3 l1 l2 q,
  Lf1 <> 0 -> Lf2 <> 0 -> Lf3 <> 0 -> 0 < 1 + bpz q ->
  quadx_step 0 Lf2 k1 l2 p0c m (quadx_step 0 Lf1 k1 l1 p0c m q) = quadx_step 0 Lf3 k1 (l1 + l2) p0c m q.
Proof. exact quadx_flow_eps0. Qed.

(** corollary: independence of num_steps (n steps of length L/n = one step of length L), with misalignment and tilt *)
Theorem C07_quadx_num_steps_eps0 : forall k1 p0c m, k1 <> 0 -> forall n L ox oy t q, L <> 0 -> n <> O -> 0 < 1 + bpz q ->
  quadx_bmad 0 n L k1 ox oy t p0c m q = quadx_bmad 0 1 L k1 ox oy t p0c m q.
Proof. exact quadx_num_steps_eps0. Qed.

(** corollary: two consecutive Bmad-X quadrupoles of equal strength, misalignment and tilt are one of the total length *)
Theorem C07_quadx_element_flow_eps0 : forall k1 p0c m, k1 <> 0 -> forall n1 n2 n3 L1 L2 ox oy t q,
  L1 <> 0 -> L2 <> 0 -> L1 + L2 <> 0 -> n1 <> O -> n2 <> O -> n3 <> O -> 0 < 1 + bpz q ->
  quadx_bmad 0 n2 L2 k1 ox oy t p0c m (quadx_bmad 0 n1 L1 k1 ox oy t p0c m q) = quadx_bmad 0 n3 (L1 + L2) k1 ox oy t p0c m q.
Proof. exact quadx_element_flow_eps0. Qed.

(** (c) a particle on the axis of an aligned quadrupole (x = px = y = py = 0): for EVERY eps, k1 (0 included), tilt and number
    of steps the quadratic forms vanish and z only receives low_energy_z_correction over the whole length ... *)
Theorem C07_quadx_onaxis : forall eps n L k1 t p0c m q, onaxis q -> n <> O ->
  quadx_bmad eps n L k1 0 0 t p0c m q = mkb 0 0 0 0 (bz q + lez (bpz q) p0c m L) (bpz q).
Proof. exact quadx_onaxis. Qed.

(** ... which in its exact branch (evaluation >= 3e-7 e_tot) is precisely the Bmad-X drift of the same length *)
Theorem C07_quadx_onaxis_is_driftx : forall eps n L k1 t p0c m q, 0 < p0c -> 0 < m -> 0 < 1 + bpz q -> onaxis q -> n <> O ->
  lez_small (bpz q) p0c m = false ->
  quadx_bmad eps n L k1 0 0 t p0c m q = driftx L p0c m q.
Proof. exact quadx_onaxis_is_driftx. Qed.

(** (c), series branch (evaluation < 3e-7 e_tot, the branch taken for small |pz|): the series is the degree-3 Taylor polynomial of the
    exact branch; explicit remainder 4 |ds| (m/E)^2 beta0^4 pz^4 for |pz| <= 0.1 ... *)
Theorem C07_lez_series_close : forall p0c m, 0 < p0c -> 0 < m -> forall pz ds, -1/10 <= pz <= 1/10 ->
  Rabs (lez_series pz p0c m ds - lez_exact pz p0c m ds)
  <= 4 * Rabs ds * (m / lez_etot p0c m)² * ((lez_beta0 p0c m)² * (lez_beta0 p0c m)²) * (pz * pz * pz * pz).
Proof. exact lez_series_close. Qed.

(** ... so that, whenever the code takes the series branch, an on-axis particle is moved like the Bmad-X drift of the same length:
    x, px, y, py, pz exactly and z up to 3.6e-13 |L|, at every energy *)
Theorem C07_quadx_onaxis_series_close : forall p0c m, 0 < p0c -> 0 < m -> forall eps n L k1 t q,
  0 < 1 + bpz q -> -1/10 <= bpz q <= 1/10 -> onaxis q -> n <> O -> lez_small (bpz q) p0c m = true ->
  let a := quadx_bmad eps n L k1 0 0 t p0c m q in let d := driftx L p0c m q in
  bx a = bx d /\ bpx a = bpx d /\ by_ a = by_ d /\ bpy a = bpy d /\ bpz a = bpz d /\ Rabs (bz a - bz d) <= 3.6e-13 * Rabs L.
Proof. exact quadx_onaxis_series_close. Qed.

(** (e) R56: d tau'/d delta at the origin THROUGH cheetah_to_bmad_z_pz, the n coded steps (coded eps, any k1, tilt, num_steps) and
    bmad_to_cheetah_z_pz equals entry [4][5] of the linear quadrupole map (= Drift R56 = -L/(beta0 gamma0)^2) *)
Theorem C07_quadx_r56 : forall n L k1 tilt E0, m_e < E0 -> n <> O ->
  is_derive (fun t => ctau (quad_bmadx_track n L k1 0 0 tilt E0 m_e (mkc 0 0 0 0 0 t))) 0 (c5 (c4 (base_untilted L k1 0 E0))).
Proof. exact quadx_r56. Qed.

(** (d) offset_particle_unset o offset_particle_set = id (and the other way round); as affine maps on (x,px,y,py,z,pz,1) they are
    rot(tilt) * misalignment_entry and misalignment_exit * rot(-tilt), the matrices Quadrupole.transfer_map conjugates with *)
Theorem C07_quadx_offset_roundtrip : forall ox oy t q,
  off_unset ox oy t (off_set ox oy t q) = q /\ off_set ox oy t (off_unset ox oy t q) = q.
Proof. exact off_roundtrip_both. Qed.
Theorem C07_quadx_offset_linear_part : forall ox oy t q,
  bvec (off_set ox oy t q) = rmvec (rmmul (rot t) (mis_entry ox oy)) (bvec q) /\
  bvec (off_unset ox oy t q) = rmvec (rmmul (mis_exit ox oy) (rot (- t))) (bvec q).
Proof. exact off_matrices. Qed.

(** the masks of the code depend on pz only: once they are known for the particle, the coded tracking IS the branch-free model
    (this is the lemma the generated correspondence goals use to select the branch, side conditions proved by interval) *)
Theorem C07_quadx_branches_resolved : forall fx fy ser n L k1 ox oy tilt E0 m v,
  le0 (- qs_k1 L k1 (cb_pz (cdelta v) E0 m)) = fx -> le0 (qs_k1 L k1 (cb_pz (cdelta v) E0 m)) = fy ->
  lez_small (cb_pz (cdelta v) E0 m) (cb_p0c E0 m) m = ser ->
  quad_bmadx_track n L k1 ox oy tilt E0 m v = quad_bmadx_track_b fx fy ser n L k1 ox oy tilt E0 m v.
Proof. exact quad_track_resolved. Qed.

(* ================================================================== Bmad-X dipole (model: Bmadx/BendX.v) *)

(** (a) Dipole._bmadx_fringe_linear is linear in (x, y): as a map on (x,px,y,py,z,pz,1) it is the edge matrix of the linear map,
    edge_map g e phi with g = angle/length and phi = edge_phi fint g gap e, for the e, fint, gap the code selects for the location ... *)
Theorem C07_bendx_fringe_is_edge_map : forall L ang e fint gap q, cos e <> 0 ->
  bvec (bendx_fringe L ang e fint gap q) = rmvec (edge_map (ang / L) e (edge_phi fint (ang / L) gap e)) (bvec q).
Proof. exact fringe_is_edge_map. Qed.

(** ... entrance: (_e1, fringe_integral, gap), exactly the matrix R_enter of Dipole.transfer_map (hx = angle/length for length <> 0) *)
Theorem C07_bendx_fringe_entrance_jacobian : forall b q, bd_L b <> 0 -> cos (bd_e1 b) <> 0 ->
  let hx := dip_hx (bd_L b) (bd_ang b) in
  bvec (bendx_entrance true b q) = rmvec (edge_map hx (bd_e1 b) (edge_phi (bd_fint b) hx (bd_gap b) (bd_e1 b))) (bvec q).
Proof. exact fringe_entrance_is_linear_edge. Qed.

(** ... exit: (_e2, fringe_integral_exit, gap_exit) in the Bmad-X code, (_e2, fringe_integral_exit, gap) in Dipole._transfer_map_exit:
    the exit kick is the matrix R_exit of Dipole.transfer_map provided gap_exit = gap *)
Theorem C07_bendx_fringe_exit_jacobian : forall b q, bd_L b <> 0 -> cos (bd_e2 b) <> 0 -> bd_gapx b = bd_gap b ->
  let hx := dip_hx (bd_L b) (bd_ang b) in
  bvec (bendx_exit true b q) = rmvec (edge_map hx (bd_e2 b) (edge_phi (bd_fintx b) hx (bd_gap b) (bd_e2 b))) (bvec q).
Proof. exact fringe_exit_is_linear_edge. Qed.

(** with gap_exit <> gap the two differ at first order (witness: g = 1, e2 = 0, fint_exit = 1/2, gap = 0, gap_exit = 1/10: the
    Bmad-X vertical exit kick strength is tan(1/20), the entry [3][2] of the linear exit matrix is 0) *)
Theorem C07_bendx_fringe_exit_gap_refuted :
  let b := mkbend 1 1 0 0 (1 / 2) (1 / 2) 0 (1 / 10) 0 in
  fr_hy (bd_L b) (bd_ang b) (bd_e2 b) (bd_fintx b) (bd_gapx b)
  <> c2 (c3 (edge_map (dip_hx (bd_L b) (bd_ang b)) (bd_e2 b) (edge_phi (bd_fintx b) (dip_hx (bd_L b) (bd_ang b)) (bd_gap b) (bd_e2 b)))).
Proof. exact fringe_exit_gap_refuted. Qed.

(** (b) the body never touches py and pz; y advances by py * Lp / px_norm and z by beta*L/beta0 - (1+pz) * Lp / px_norm, where Lp
    is the value the code computes as Lc / sinc(theta_p/2) *)
Theorem C07_bendx_body_py_pz : forall L ang p0c m q,
  bpy (bendx_body L ang p0c m q) = bpy q /\ bpz (bendx_body L ang p0c m q) = bpz q.
Proof. exact body_py_pz. Qed.
Theorem C07_bendx_body_y_z_advance : forall L ang p0c m q,
  let x2 := bb_x2 L ang (bx q) (bpx q) (bpy q) (bpz q) in
  let Lp := bb_Lp_b L ang x2 (bx q) (bpx q) (bpy q) (bpz q) (bb_quadrant L ang q) (bb_zero L ang q) in
  by_ (bendx_body L ang p0c m q) = by_ q + bpy q * Lp / bb_n (bpy q) (bpz q) /\
  bz (bendx_body L ang p0c m q) = bz q + bb_beta (bpz q) p0c m * L / bb_beta0 p0c m - (1 + bpz q) * Lp / bb_n (bpy q) (bpz q).
Proof. exact body_y_advance. Qed.

(** ... and that Lp is the arc length: radius px_norm/g times the angle theta_p by which the direction of motion turns -- for every
    particle for which the code is defined (length, angle <> 0, real px_norm and phi1, real x2_t2, x2_t2 + x2_t3 <> 0, chord <> 0) *)
Theorem C07_bendx_body_arc_length : forall L ang, L <> 0 -> ang <> 0 -> forall q, bb_defined L ang q ->
  let x2 := bb_x2 L ang (bx q) (bpx q) (bpy q) (bpz q) in
  bb_Lp_b L ang x2 (bx q) (bpx q) (bpy q) (bpz q) (bb_quadrant L ang q) (bb_zero L ang q)
  = bb_n (bpy q) (bpz q) / bb_g L ang * bb_thp_b L ang x2 (bx q) (bpx q) (bpy q) (bpz q) (bb_quadrant L ang q).
Proof. exact body_arc_length. Qed.

(** (b) closed orbit: for 0 < length and 0 < |angle| < pi the design particle (0,0,0,0,z,0) is mapped to itself, z included
    (theta_p = angle, Lp = length) *)
Theorem C07_bendx_body_design_orbit : forall L ang p0c m z, 0 < L -> ang <> 0 -> - PI < ang -> ang < PI -> 0 < p0c ->
  bendx_body L ang p0c m (mkb 0 0 0 0 z 0) = mkb 0 0 0 0 z 0.
Proof. exact body_design_orbit. Qed.

(** ... but NOT for bend angles below -pi: arctan2 returns the chord's polar angle in (-pi, pi], theta_p is off by 4 pi and
    sinc(theta_p/2) is evaluated 2 pi away.  Witness: length 1, angle -4 (p0c = mc2 = 1): the design particle is displaced by more
    than 3 m in z (finding F70; reproduced on the implementation by the harness) *)
Theorem C07_bendx_body_design_orbit_refuted : bz (bendx_body 1 (-4) 1 1 (mkb 0 0 0 0 0 0)) < -3.
Proof. exact body_design_orbit_refuted. Qed.

(** (d) exact motion in a uniform field.  Frame: reference orbit = circle of radius 1/g about the origin, a particle at (x, px) sits at
    distance R = 1/g + x from the origin and moves at the angle phi (sin phi = px/px_norm) to the tangent; its orbit has radius
    r = px_norm/g and centre C = (R - r cos phi) e + r sin phi t (e radial, t tangential).  For every particle for which the code
    is defined: px' = px_norm sin(phi2) with phi2 = angle + phi1 - theta_p; px' has the closed form of the exact sector map
    px_norm sin(angle + phi1) - (1 + g x) sin(angle); the exit point lies on the circle of radius r about the centre defined by the
    ENTRANCE coordinates; and the centre defined by the EXIT coordinates (expressed in the entrance frame: rotation by `angle`) is that
    same centre: the trajectory is an arc of one circle of radius px_norm/g, which is the motion in a uniform field *)
Theorem C07_bendx_body_uniform_field : forall L ang, L <> 0 -> ang <> 0 -> forall p0c m q, bb_defined L ang q ->
  let g := bb_g L ang in let n := bb_n (bpy q) (bpz q) in let r := n / g in
  let phi1 := bb_phi1 (bpx q) (bpy q) (bpz q) in
  let x2 := bb_x2 L ang (bx q) (bpx q) (bpy q) (bpz q) in
  let thp := bb_thp_b L ang x2 (bx q) (bpx q) (bpy q) (bpz q) (bb_quadrant L ang q) in
  let phi2 := ang + phi1 - thp in
  let R1 := 1 / g + bx q in let R2 := 1 / g + x2 in
  let q' := bendx_body L ang p0c m q in
  bpx q' = n * sin phi2 /\
  bpx q' = n * sin (ang + phi1) - (1 + g * bx q) * sin ang /\
  bx q' = x2 /\
  R2 * R2 - 2 * R2 * (R1 * cos ang - r * cos (ang + phi1)) + R1 * R1 - 2 * R1 * r * cos phi1 = 0 /\
  (R2 - r * cos phi2) * cos ang - r * sin phi2 * sin ang = R1 - r * cos phi1 /\
  (R2 - r * cos phi2) * sin ang + r * sin phi2 * cos ang = r * sin phi1.
Proof. exact body_uniform_field. Qed.

(** (c) the body is the exact sector-bend map in closed form (no arcsin / arctan2): with w = sqrt((1+pz)^2 - py^2 - px^2),
      px' = px cos(angle) + sin(angle) (w - (1 + g x))
      x'  = ((1 + g x) cos(angle) - (w cos(angle) - px sin(angle)) + sqrt(D) - 1) / g,
      D   = (w cos - px sin)^2 + 2 (w sin + px cos)(1 + g x) sin - ((1 + g x) sin)^2
    for every particle for which the code is defined ... *)
Theorem C07_bendx_body_is_sector_map : forall L ang, L <> 0 -> ang <> 0 -> forall p0c m q, bb_defined L ang q ->
  bpx (bendx_body L ang p0c m q) = sect_px (bb_g L ang) ang (bx q) (bpx q) (bpy q) (bpz q) /\
  bx (bendx_body L ang p0c m q) = sect_x (bb_g L ang) ang (bx q) (bpx q) (bpy q) (bpz q).
Proof. exact body_is_sector_map. Qed.

(** ... the Jacobian of that closed-form map at the design orbit w.r.t. (x, px, pz) is
      [ cos th        sin th / g    (1 - cos th)/g ]
      [ -g sin th     cos th        sin th         ] *)
Theorem C07_bendx_sector_map_jacobian : forall g th, g <> 0 ->
  is_derive (fun t => sect_x g th t 0 0 0) 0 (cos th) /\
  is_derive (fun t => sect_x g th 0 t 0 0) 0 (sin th / g) /\
  is_derive (fun t => sect_x g th 0 0 0 t) 0 ((1 - cos th) / g) /\
  is_derive (fun t => sect_px g th t 0 0 0) 0 (- g * sin th) /\
  is_derive (fun t => sect_px g th 0 t 0 0) 0 (cos th) /\
  is_derive (fun t => sect_px g th 0 0 0 t) 0 (sin th).
Proof. exact sect_jacobian. Qed.

(** ... and, the code being defined on a neighbourhood of the design orbit along each axis (proved: continuity of the radicands), these ARE
    the partial derivatives of the CODED body (arcsin, both c1/c2 masks, arctan2 and all) at the design orbit, for every length <> 0 and
    every angle that is not a multiple of pi: rows x', px' / columns x, px, pz of the linear sector bend (column pz times
    d pz/d delta = 1/beta0 gives the dispersion entries dx/beta, sx hx/beta of base_untilted).
    _partial w.r.t. the full 6x6: the rows y' (d y'/d py = Lp/px_norm = L) and z' (R51, R52, R56) and the conversion delta <-> pz are not
    differentiated in Coq (autograd oracle on the implementation, 1e-9); py' = py and pz' = pz are C07_bendx_body_py_pz;
    Dipole.transfer_map evaluates base_rmatrix at k1 = 0 whose guard sets kx2 = hx^2 + 1e-12, see C07_sector_entries_vs_base *)
Theorem C07_bendx_body_jacobian_at_0_partial : forall L ang p0c m z, L <> 0 -> ang <> 0 -> sin ang <> 0 -> -1 < cos ang ->
  is_derive (fun t => bx (bendx_body L ang p0c m (mkb t 0 0 0 z 0))) 0 (cos ang) /\
  is_derive (fun t => bx (bendx_body L ang p0c m (mkb 0 t 0 0 z 0))) 0 (sin ang / bb_g L ang) /\
  is_derive (fun t => bx (bendx_body L ang p0c m (mkb 0 0 0 0 z t))) 0 ((1 - cos ang) / bb_g L ang) /\
  is_derive (fun t => bpx (bendx_body L ang p0c m (mkb t 0 0 0 z 0))) 0 (- bb_g L ang * sin ang) /\
  is_derive (fun t => bpx (bendx_body L ang p0c m (mkb 0 t 0 0 z 0))) 0 (cos ang) /\
  is_derive (fun t => bpx (bendx_body L ang p0c m (mkb 0 0 0 0 z t))) 0 (sin ang).
Proof. exact body_jacobian_at_0. Qed.

(** the entries of base_untilted at kx2 = hx^2 are those numbers (th = hx L); Dipole.transfer_map uses kx2 = hx^2 + 1e-12 *)
Theorem C07_sector_entries_vs_base : forall hx L, 0 < hx ->
  Cf (hx²) L = cos (hx * L) /\ Sf (hx²) L = sin (hx * L) / hx /\
  hx / hx² * (1 - Cf (hx²) L) = (1 - cos (hx * L)) / hx /\ - hx² * Sf (hx²) L = - hx * sin (hx * L) /\
  kx2 0 hx = hx² + 1e-12.
Proof. exact sector_entries_vs_base. Qed.

(** (f) flow law.  In the variables (px, U), U = w - (1 + g x), the exact sector map is the rotation by the bend angle and
    w' = sqrt(px_norm^2 - px'^2): two consecutive sector maps of the same curvature are the sector map of the total angle ... *)
Theorem C07_bendx_sector_map_flow : forall g py pz, g <> 0 -> forall th1 th2 x px,
  0 <= (1 + pz) ^ 2 - py ^ 2 - px ^ 2 -> 0 <= sect_D g th1 x px py pz ->
  sect_px g th2 (sect_x g th1 x px py pz) (sect_px g th1 x px py pz) py pz = sect_px g (th1 + th2) x px py pz /\
  sect_x g th2 (sect_x g th1 x px py pz) (sect_px g th1 x px py pz) py pz = sect_x g (th1 + th2) x px py pz.
Proof. exact sect_flow. Qed.

(** ... and so are two consecutive CODED bodies of equal curvature angle1/length1 = angle2/length2, in ALL six coordinates: body(L1, a1)
    followed by body(L2, a2) is body(L1 + L2, a1 + a2), wherever the code is defined (first piece, second piece at the intermediate
    particle, whole) and arctan2 does not wrap, i.e. the exit angle as computed, angle + phi1 - theta_p, lies in [-pi/2, pi/2]
    (it does not for angle < -pi: finding F70) *)
Theorem C07_bendx_body_flow : forall L1 a1 L2 a2 p0c m q,
  L1 <> 0 -> a1 <> 0 -> L2 <> 0 -> a2 <> 0 -> L1 + L2 <> 0 -> a1 + a2 <> 0 ->
  bb_g L2 a2 = bb_g L1 a1 -> bb_g (L1 + L2) (a1 + a2) = bb_g L1 a1 ->
  bb_defined L1 a1 q -> bb_defined L2 a2 (bendx_body L1 a1 p0c m q) -> bb_defined (L1 + L2) (a1 + a2) q ->
  bb_nowrap L1 a1 q -> bb_nowrap L2 a2 (bendx_body L1 a1 p0c m q) -> bb_nowrap (L1 + L2) (a1 + a2) q ->
  bendx_body L2 a2 p0c m (bendx_body L1 a1 p0c m q) = bendx_body (L1 + L2) (a1 + a2) p0c m q.
Proof. exact body_flow. Qed.

(** x, px (and py, pz) alone need no condition on arctan2 *)
Theorem C07_bendx_body_flow_x_px : forall L1 a1 L2 a2 p0c m q,
  L1 <> 0 -> a1 <> 0 -> L2 <> 0 -> a2 <> 0 -> L1 + L2 <> 0 -> a1 + a2 <> 0 ->
  bb_g L2 a2 = bb_g L1 a1 -> bb_g (L1 + L2) (a1 + a2) = bb_g L1 a1 ->
  bb_defined L1 a1 q -> bb_defined L2 a2 (bendx_body L1 a1 p0c m q) -> bb_defined (L1 + L2) (a1 + a2) q ->
  let q2 := bendx_body L2 a2 p0c m (bendx_body L1 a1 p0c m q) in let qw := bendx_body (L1 + L2) (a1 + a2) p0c m q in
  bx q2 = bx qw /\ bpx q2 = bpx qw /\ bpy q2 = bpy qw /\ bpz q2 = bpz qw.
Proof. exact body_flow_x_px. Qed.

(** closed form of y' and z' (no wrap): the arc length is px_norm (angle + phi1 - phi1')/g with phi1' = arcsin(px'/px_norm) *)
Theorem C07_bendx_body_y_z_closed_form : forall L ang p0c m q, L <> 0 -> ang <> 0 -> bb_defined L ang q -> bb_nowrap L ang q ->
  let q' := bendx_body L ang p0c m q in
  let turn := ang + bb_phi1 (bpx q) (bpy q) (bpz q) - bb_phi1 (bpx q') (bpy q) (bpz q) in
  by_ q' = by_ q + bpy q * turn / bb_g L ang /\
  bz q' = bz q + bb_beta (bpz q) p0c m * L / bb_beta0 p0c m - (1 + bpz q) * turn / bb_g L ang.
Proof. exact body_yz_closed. Qed.

(** torch.arctan2 as modelled returns the polar angle: cos = x/|.|, sin = y/|.| away from the origin *)
Theorem C07_atan2_polar : forall y x, 0 < x ^ 2 + y ^ 2 ->
  cos (atan2 y x) = x / sqrt (x ^ 2 + y ^ 2) /\ sin (atan2 y x) = y / sqrt (x ^ 2 + y ^ 2).
Proof. exact atan2_polar. Qed.

(** cosc(x) = (cos x - 1)/x^2 as documented *)
Theorem C07_cosc_spec : forall x, x <> 0 -> bx_cosc x = (cos x - 1) / x ^ 2.
Proof. exact bx_cosc_spec. Qed.

(** (e) the two exit-position formulas c1 and c2 are the same number wherever both are defined, so the mask (|angle + phi1| < pi/2)
    is a numerical choice, not a semantic one ... *)
Theorem C07_bendx_c1_eq_c2 : forall L ang x px py pz,
  bb_gp L ang py pz <> 0 -> bb_t2 L ang x px py pz + bb_t3 ang px py pz <> 0 ->
  0 <= (cos (ang + bb_phi1 px py pz)) ^ 2 + bb_gp L ang py pz * bb_alpha L ang x px py pz ->
  bb_c1 L ang x px py pz = bb_c2 L ang x px py pz.
Proof. exact bb_c1_eq_c2. Qed.

(** ... whereas c2 with the divisor g instead of gp = g/px_norm (the seeded change C07-1) is a different number whenever px_norm <> 1
    and the two roots differ *)
Theorem C07_bendx_c2_wrong_divisor_differs : forall L ang x px py pz,
  bb_g L ang <> 0 -> bb_n py pz <> 0 -> bb_n py pz <> 1 -> bb_t2 L ang x px py pz <> bb_t3 ang px py pz ->
  bb_t1 L ang x + (bb_t2 L ang x px py pz - bb_t3 ang px py pz) / bb_g L ang <> bb_c2 L ang x px py pz.
Proof. exact bb_c2_wrong_divisor. Qed.

(** the evaluation chain used by the generated correspondence goals is sound: a property of the values computed step by step (branches
    given as data, justified by side conditions; arcsin via arctan; sinc, cosc unfolded for angle <> 0) is a property of the literal model *)
Theorem C07_bendx_chain_sound : forall sel qd fen fex b E0 m x px y py tau delta P,
  bend_chain sel qd fen fex b E0 m x px y py tau delta P -> P (bend_bmadx_track fen fex b E0 m (mkc x px y py tau delta)).
Proof. exact bend_chain_sound. Qed.

(* ================================================================== Bmad-X dipole after the repair of finding F70
   (model: [bendx_body_fixed], [bend_bmadx_track_fixed] in Bmadx/BendX.v:  theta_p <- theta_p - 4 pi round((theta_p - angle)/(4 pi));
   the theorems above are about the code before the repair and stay true of that definition; the harness selects the variant by the
   status of F70 in known_findings.json) *)

(** torch.round as modelled (nearest integer, ties to even): any integer within 1/2 is the result *)
Theorem C07_round_spec : forall x k, Rabs (x - IZR k) < 1 / 2 -> rnd x = IZR k.
Proof. exact rnd_unique. Qed.

(** the repair changes y and z only: x', px', py', pz' of the repaired body are those of the old body for EVERY particle (sin has period
    2 pi), so the uniform-field geometry, the sector map, its Jacobian and the x/px flow law carry over verbatim *)
Theorem C07_bendx_fixed_changes_y_z_only : forall L ang p0c m q,
  bx (bendx_body_fixed L ang p0c m q) = bx (bendx_body L ang p0c m q) /\
  bpx (bendx_body_fixed L ang p0c m q) = bpx (bendx_body L ang p0c m q) /\
  bpy (bendx_body_fixed L ang p0c m q) = bpy (bendx_body L ang p0c m q) /\
  bpz (bendx_body_fixed L ang p0c m q) = bpz (bendx_body L ang p0c m q).
Proof. exact body_fixed_x_px. Qed.

(** the repaired body IS the old body wherever the old theta_p is within 2 pi of the bend angle ... *)
Theorem C07_bendx_fixed_eq_old : forall L ang p0c m q,
  Rabs (bb_thp_b L ang (bb_x2 L ang (bx q) (bpx q) (bpy q) (bpz q)) (bx q) (bpx q) (bpy q) (bpz q) (bb_quadrant L ang q) - ang) < 2 * PI ->
  bendx_body_fixed L ang p0c m q = bendx_body L ang p0c m q.
Proof. exact body_fixed_eq_old. Qed.

(** ... in particular wherever arctan2 did not wrap (exit angle as computed, angle + phi1 - theta_p, in [-pi/2, pi/2]), i.e. wherever the
    code before the repair was right: all six coordinates agree, so every theorem above that assumes [bb_nowrap] holds of the repaired code *)
Theorem C07_bendx_fixed_eq_old_nowrap : forall L ang p0c m q, bb_nowrap L ang q ->
  bendx_body_fixed L ang p0c m q = bendx_body L ang p0c m q.
Proof. exact body_fixed_eq_old_nowrap. Qed.

(** the path length of the repaired body is radius * (repaired theta_p) wherever the code is defined, for every bend angle *)
Theorem C07_bendx_body_arc_length_fixed : forall L ang, L <> 0 -> ang <> 0 -> forall q, bb_defined L ang q ->
  let x2 := bb_x2 L ang (bx q) (bpx q) (bpy q) (bpz q) in
  bb_Lpf_b L ang x2 (bx q) (bpx q) (bpy q) (bpz q) (bb_quadrant L ang q) (bb_krq L ang q) (bb_zerof L ang q)
  = bb_n (bpy q) (bpz q) / bb_g L ang * bb_thpf_b L ang x2 (bx q) (bpx q) (bpy q) (bpz q) (bb_quadrant L ang q) (bb_krq L ang q).
Proof. exact body_arc_length_fixed. Qed.

(** closed orbit of the repaired body: the design particle (0,0,0,0,z,0) is mapped to itself, z included, for 0 < length and EVERY
    0 < |angle| < 2 pi except +-pi (where x2_t2 + x2_t3 = 0: the unselected c1 is 0/0); compare C07_bendx_body_design_orbit
    (|angle| < pi) and C07_bendx_body_design_orbit_refuted (angle = -4) for the code before the repair *)
Theorem C07_bendx_body_design_orbit_fixed : forall L ang p0c m z,
  0 < L -> ang <> 0 -> - (2 * PI) < ang -> ang < 2 * PI -> ang <> PI -> ang <> - PI -> 0 < p0c ->
  bendx_body_fixed L ang p0c m (mkb 0 0 0 0 z 0) = mkb 0 0 0 0 z 0.
Proof. exact body_design_orbit_fixed. Qed.

(** soundness of the evaluation chain of the repaired code (correspondence goals while F70 is listed as fixed) *)
Theorem C07_bendx_chain_fixed_sound : forall sel qd k fen fex b E0 m x px y py tau delta P,
  bend_chain_fixed sel qd k fen fex b E0 m x px y py tau delta P -> P (bend_bmadx_track_fixed fen fex b E0 m (mkc x px y py tau delta)).
Proof. exact bend_chain_fixed_sound. Qed.

Print Assumptions C07_sqrt_one_spec.
Print Assumptions C07_driftx_dz.
Print Assumptions C07_driftx_straight_line.
Print Assumptions C07_driftx_flow.
Print Assumptions C07_drift_bmadx_closed_form.
Print Assumptions C07_driftx_jacobian_at_0_partial.
Print Assumptions C07_tdc_off_is_driftx.
Print Assumptions C07_quadx_step_linear_block.
Print Assumptions C07_quadx_coefficients_are_Cf_Sf.
Print Assumptions C07_quadx_block_determinant.
Print Assumptions C07_quadx_step_block_eps.
Print Assumptions C07_quadx_ke_distance.
Print Assumptions C07_quadx_flow_eps0.
Print Assumptions C07_quadx_num_steps_eps0.
Print Assumptions C07_quadx_element_flow_eps0.
Print Assumptions C07_quadx_onaxis.
Print Assumptions C07_quadx_onaxis_is_driftx.
Print Assumptions C07_lez_series_close.
Print Assumptions C07_quadx_onaxis_series_close.
Print Assumptions C07_quadx_r56.
Print Assumptions C07_quadx_offset_roundtrip.
Print Assumptions C07_quadx_offset_linear_part.
Print Assumptions C07_quadx_branches_resolved.
Print Assumptions C07_bendx_fringe_is_edge_map.
Print Assumptions C07_bendx_fringe_entrance_jacobian.
Print Assumptions C07_bendx_fringe_exit_jacobian.
Print Assumptions C07_bendx_fringe_exit_gap_refuted.
Print Assumptions C07_bendx_body_py_pz.
Print Assumptions C07_bendx_body_y_z_advance.
Print Assumptions C07_bendx_body_arc_length.
Print Assumptions C07_bendx_body_design_orbit.
Print Assumptions C07_bendx_body_design_orbit_refuted.
Print Assumptions C07_bendx_body_uniform_field.
Print Assumptions C07_atan2_polar.
Print Assumptions C07_cosc_spec.
Print Assumptions C07_bendx_c1_eq_c2.
Print Assumptions C07_bendx_c2_wrong_divisor_differs.
Print Assumptions C07_bendx_chain_sound.
Print Assumptions C07_bendx_body_is_sector_map.
Print Assumptions C07_bendx_sector_map_jacobian.
Print Assumptions C07_bendx_body_jacobian_at_0_partial.
Print Assumptions C07_bendx_sector_map_flow.
Print Assumptions C07_bendx_body_flow.
Print Assumptions C07_bendx_body_flow_x_px.
Print Assumptions C07_bendx_body_y_z_closed_form.
Print Assumptions C07_sector_entries_vs_base.
Print Assumptions C07_round_spec.
Print Assumptions C07_bendx_fixed_changes_y_z_only.
Print Assumptions C07_bendx_fixed_eq_old.
Print Assumptions C07_bendx_fixed_eq_old_nowrap.
Print Assumptions C07_bendx_body_arc_length_fixed.
Print Assumptions C07_bendx_body_design_orbit_fixed.
Print Assumptions C07_bendx_chain_fixed_sound.
