(** C07 -- Bmad-X tracking agrees with the linear map to first order and is an exact flow.
    Proved here: the Bmad-X drift (all clauses) and the zero-voltage transverse deflecting cavity.  Quadrupole and dipole
    Bmad-X tracking are NOT modelled in Coq: their clauses are tested on the implementation only (harness/props/c07.py).
    Models: Bmadx/DriftX.v (sqrt_one, track_a_drift, Drift._track_bmadx), Bmadx/Tdc.v, Bmadx/Coords.v; linear map: Optics/Maps.v. *)
From Coq Require Import Reals.
From Coquelicot Require Import Coquelicot.
From Cheetah Require Import Base.Mat Optics.Maps Bmadx.Coords Bmadx.DriftX Bmadx.DriftXProofs Bmadx.DriftXJac Bmadx.Tdc Bmadx.TdcProofs.
Open Scope R_scope.

(** sqrt_one(x) = sqrt(1+x) - 1 *)
Theorem C07_sqrt_one_spec : forall x, -1 <= x -> sqrt_one x = sqrt (1 + x) - 1.
Proof. exact sqrt_one_spec. Qed.

(** the "numerically accurate" dz of track_a_drift is the documented  L*(beta/beta_ref - 1/Pl) *)
Theorem C07_driftx_dz : forall p0c m, 0 < p0c -> 0 < m -> forall L px py pz, 0 < 1 + pz -> dr_Pxy2 px py pz < 1 ->
  dr_dz L px py pz p0c m = L * (bc_beta pz p0c m / (p0c / bc_refE p0c m) - 1 / dr_Pl px py pz).
Proof. exact driftx_dz. Qed.

(** straight-line motion: x, y advance along the ray with direction (px, py, ps), ps = sqrt(P^2 - px^2 - py^2); the path
    length is L*P/ps and z advances by beta*(L/beta_ref - path/beta), i.e. by -beta*c*(difference of times of flight) *)
Theorem C07_driftx_straight_line : forall p0c m, 0 < p0c -> 0 < m -> forall L x y px py pz,
  0 < 1 + pz -> dr_Pxy2 px py pz < 1 ->
  let P := 1 + pz in let ps := sqrt (P² - px² - py²) in let path := L * P / ps in
  0 < ps /\
  dr_x L x px py pz = x + L * px / ps /\ dr_y L y px py pz = y + L * py / ps /\
  (dr_x L x px py pz - x)² + (dr_y L y px py pz - y)² + L² = path² /\
  dr_dz L px py pz p0c m = bc_beta pz p0c m * (L / (p0c / bc_refE p0c m) - path / bc_beta pz p0c m).
Proof. exact driftx_straight_line. Qed.

(** exact flow: two consecutive Bmad-X drifts are one drift of the total length (every particle, every lengths) *)
Theorem C07_driftx_flow : forall p0c m L1 L2 q, driftx L2 p0c m (driftx L1 p0c m q) = driftx (L1 + L2) p0c m q.
Proof. exact driftx_flow. Qed.

(** Drift._track_bmadx (conversions included) in closed form; the reference energy is returned unchanged *)
Theorem C07_drift_bmadx_closed_form : forall L E0 m, 0 < m -> m < E0 -> forall v,
  phys (cdelta v) E0 m -> dr_ok (to_bmad E0 m v) ->
  let pz := cb_pz (cdelta v) E0 m in
  drift_bmadx_track L E0 m v =
    mkc (dr_x L (cx v) (cpx v) (cpy v) pz) (cpx v) (dr_y L (cy v) (cpx v) (cpy v) pz) (cpy v)
        (ctau v + L * (1 / (cb_beta (cdelta v) E0 m * dr_Pl (cpx v) (cpy v) pz) - E0 / cb_p0c E0 m)) (cdelta v)
  /\ drift_bmadx_energy E0 m = E0.
Proof. exact drift_bmadx_closed. Qed.

(** first-order agreement with Drift.transfer_map at the design orbit: the two non-trivial Jacobian entries,
    d x'/d px = L = drift_map[0][1] and d tau'/d delta = R56 = drift_map[4][5] = -L/(beta0^2 gamma0^2),
    differentiating THROUGH cheetah_to_bmad_z_pz, track_a_drift and bmad_to_cheetah_z_pz.
    (_partial: the remaining entries -- identity rows of px, py, delta and vanishing cross terms -- are not spelled out as
    derivative statements; they are covered by the autograd-Jacobian oracle on the implementation.) *)
Theorem C07_driftx_jacobian_at_0_partial : forall L E0, m_e < E0 ->
  is_derive (fun t => cx (drift_bmadx_track L E0 m_e (mkc 0 t 0 0 0 0))) 0 (c1 (c0 (drift_map L E0))) /\
  is_derive (fun t => ctau (drift_bmadx_track L E0 m_e (mkc 0 0 0 0 0 t))) 0 (c5 (c4 (drift_map L E0))) /\
  (forall v, cpx (drift_bmadx_track L E0 m_e v) = cpx v /\ cpy (drift_bmadx_track L E0 m_e v) = cpy v).
Proof. exact drift_jacobian_entries. Qed.

(** a transverse deflecting cavity at zero voltage is exactly a Bmad-X drift of its length, for every misalignment, tilt,
    phase and frequency and every forward-moving particle *)
Theorem C07_tdc_off_is_driftx : forall phi0 f cl p0c m, 0 < p0c -> 0 < m -> forall L ox oy tilt q, 0 < 1 + bpz q ->
  tdc_bmad L 0 phi0 f cl ox oy tilt p0c m q = driftx L p0c m q.
Proof. exact tdc_off_is_driftx. Qed.

Print Assumptions C07_sqrt_one_spec.
Print Assumptions C07_driftx_dz.
Print Assumptions C07_driftx_straight_line.
Print Assumptions C07_driftx_flow.
Print Assumptions C07_drift_bmadx_closed_form.
Print Assumptions C07_driftx_jacobian_at_0_partial.
Print Assumptions C07_tdc_off_is_driftx.
