(** C08 -- Lattice speed optimisations do not change tracking results.
    Only property theorems live here: each is closed by [exact] of a lemma proved elsewhere
    and followed by [Print Assumptions]. *)
From Coq Require Import List Bool String ZArith.
From Cheetah Require Import Base.Mat Lattice.Track Lattice.TrackProofs Lattice.ZInst Lattice.ZProofs
  Lattice.Merge Lattice.MergeProofs Lattice.Filter Lattice.FilterProofs Lattice.ZOps.
Import ListNotations.

Section C08.
(* any map monoid [M] acting on any beam type [B] (particles or mean/covariance), any leaves *)
Variables (M B E L Len : Type) (one : M) (mul : M -> M -> M) (app : M -> B -> B) (en : B -> E).
Variables (skip : L -> bool) (tmap : L -> E -> M) (ltrack : L -> B -> B) (lname : L -> string).
Variables (llen : L -> Len) (lzero : Len) (ladd : Len -> Len -> Len).
Hypothesis app_one : forall b, app one b = b.
Hypothesis app_mul : forall a c b, app (mul a c) b = app a (app c b).
Hypothesis en_app : forall m b, en (app m b) = en b.
(* leaf contract: a skippable leaf tracks by applying its own transfer map at the beam's energy *)
Hypothesis contract : leaf_contract app en skip tmap ltrack.
Hypothesis ladd_0_l : forall x, ladd lzero x = x.
Hypothesis ladd_0_r : forall x, ladd x lzero = x.
Hypothesis ladd_assoc : forall x y z, ladd (ladd x y) z = ladd x (ladd y z).

Notation Track := (track one mul app en skip tmap ltrack).
Notation Len_of := (elen llen lzero ladd).

(** ---- transfer_maps_merged *)
(* CustomTransferMap(matrix, length, name): skippable, its map is the stored matrix *)
Variable mkctm : M -> Len -> string -> L.
Hypothesis ctm_skip : forall m len nm, skip (mkctm m len nm) = true.
Hypothesis ctm_map : forall m len nm x, tmap (mkctm m len nm) x = m.
Hypothesis ctm_name : forall m len nm, lname (mkctm m len nm) = nm.
Hypothesis ctm_len : forall m len nm, llen (mkctm m len nm) = len.

Notation Merge_of := (merged one mul app en skip tmap ltrack lname llen lzero ladd mkctm).
Notation From_merging := (from_merging one mul app en skip tmap ltrack lname llen lzero ladd mkctm).

(* tracking the merged segment with the beam it was merged for = tracking the original *)
Theorem C08_merged_track : forall n (ex : list string) (es : list (elem L)) (b : B),
  Track (Seg n (Merge_of ex es [] b)) b = Track (Seg n es) b.
Proof. exact (@merged_track M B E L Len one mul app en skip tmap ltrack lname llen lzero ladd mkctm
                app_one app_mul en_app contract ctm_skip ctm_map). Qed.

Theorem C08_merged_length : forall n (ex : list string) (es : list (elem L)) (b : B),
  Len_of (Seg n (Merge_of ex es [] b)) = Len_of (Seg n es).
Proof. exact (@merged_length M B E L Len one mul app en skip tmap ltrack lname llen lzero ladd mkctm
                ctm_len ladd_0_l ladd_0_r ladd_assoc). Qed.

(* an element named in except_for is still there, as the same element *)
Theorem C08_merged_keeps_excepted : forall (ex : list string) (es : list (elem L)) (b : B) (e : elem L),
  In e es -> existsb (String.eqb (ename lname e)) ex = true -> In e (Merge_of ex es [] b).
Proof. exact (@merged_keeps_excepted M B E L Len one mul app en skip tmap ltrack lname llen lzero ladd mkctm). Qed.

(* so is every non-skippable element *)
Theorem C08_merged_keeps_nonskippable : forall (ex : list string) (es : list (elem L)) (b : B) (e : elem L),
  In e es -> skippable skip e = false -> In e (Merge_of ex es [] b).
Proof.
  exact (fun ex es b e Hin Hs =>
    @merged_keeps_nonmergeable M B E L Len one mul app en skip tmap ltrack lname llen lzero ladd mkctm ex es [] b e Hin
      (eq_trans (f_equal (fun x => andb x (negb (inex ex (ename lname e)))) Hs) eq_refl)).
Qed.

(* every CustomTransferMap produced stands for a non-empty contiguous run of original elements,
   all skippable and none named in except_for; expanding the merged elements back gives the
   original list in order: a merge never spans a non-skippable (energy-changing) element *)
Theorem C08_merged_runs_skippable : forall (ex : list string) (es : list (elem L)) (b : B),
  exists blocks : list (block B L),
    map (@block_out B L) blocks = Merge_of ex es [] b /\
    List.concat (map (@block_src B L) blocks) = es /\
    Forall (fun k => match k with
                     | Kept _ => True
                     | Merged c src b' =>
                       src <> [] /\ c = From_merging src b' /\
                       forall e, In e src -> skippable skip e = true /\ existsb (String.eqb (ename lname e)) ex = false
                     end) blocks.
Proof. exact (@merged_runs_skippable M B E L Len one mul app en skip tmap ltrack lname llen lzero ladd mkctm). Qed.

(* name and length of a merged element *)
Theorem C08_merged_element_name_length : forall (run : list (elem L)) (b : B),
  ename lname (From_merging run b) = ("combined_" ++ join_us (map (ename lname) run))%string /\
  Len_of (From_merging run b) = fold_left (fun a e => ladd a (Len_of e)) run lzero.
Proof.
  exact (fun run b => conj
    (@from_merging_name M B E L Len one mul app en skip tmap ltrack lname llen lzero ladd mkctm ctm_name run b)
    (@from_merging_len M B E L Len one mul app en skip tmap ltrack lname llen lzero ladd mkctm ctm_len run b)).
Qed.

(** ---- without_inactive_markers *)
Variable lmarker : L -> bool.
Hypothesis marker_id : forall l b, lmarker l = true -> ltrack l b = b.
Hypothesis marker_len : forall l, lmarker l = true -> llen l = lzero.

Theorem C08_markers_removed_track : forall n (ex : list string) (es : list (elem L)) (b : B),
  Track (Seg n (filter (fun e => negb (is_marker lmarker e) || existsb (String.eqb (ename lname e)) ex) es)) b
  = Track (Seg n es) b.
Proof. exact (@markers_removed_track M B E L one mul app en skip tmap ltrack lname lmarker
                app_one app_mul en_app contract marker_id). Qed.

Theorem C08_markers_removed_length : forall n (ex : list string) (es : list (elem L)),
  Len_of (Seg n (markers_removed lname lmarker ex es)) = Len_of (Seg n es).
Proof. exact (@markers_removed_length L Len lname llen lzero ladd lmarker marker_len ladd_0_l ladd_0_r ladd_assoc). Qed.

Theorem C08_markers_removed_keeps_excepted : forall (ex : list string) (es : list (elem L)) (e : elem L),
  In e es -> existsb (String.eqb (ename lname e)) ex = true -> In e (markers_removed lname lmarker ex es).
Proof. exact (@markers_removed_keeps_excepted L lname lmarker). Qed.

Theorem C08_markers_removed_keeps_nonmarkers : forall (ex : list string) (es : list (elem L)) (e : elem L),
  In e es -> is_marker lmarker e = false -> In e (markers_removed lname lmarker ex es).
Proof. exact (@markers_removed_keeps_nonmarkers L lname lmarker). Qed.

(** ---- without_inactive_zero_length_elements / inactive_elements_as_drifts *)
Variables (lhas_active lactive : L -> bool) (len_anypos len_allzero : Len -> bool).
Variable mkdrift : Len -> string -> L.
Hypothesis drift_len : forall len nm, llen (mkdrift len nm) = len.
Hypothesis drift_name : forall len nm, lname (mkdrift len nm) = nm.

(* an element is removed iff its length is nowhere positive, it has no truthy `is_active`, and
   its name is not in except_for.  If everything that is removed tracks as the identity, the
   result is unchanged. *)
Theorem C08_zero_length_removed_track : forall n (ex : list string) (es : list (elem L)),
  (forall e, In e es ->
     len_anypos (Len_of e) || eactive lhas_active lactive e || existsb (String.eqb (ename lname e)) ex = false ->
     forall b, track1 ltrack e b = b) ->
  forall b, Track (Seg n (zero_length_removed lname llen lzero ladd lhas_active lactive len_anypos ex es)) b
            = Track (Seg n es) b.
Proof. exact (@zero_length_removed_track M B E L Len one mul app en skip tmap ltrack lname llen lzero ladd
                lhas_active lactive len_anypos app_one app_mul en_app contract). Qed.

Theorem C08_zero_length_removed_length : forall n (ex : list string) (es : list (elem L)),
  (forall x, len_anypos x = false -> x = lzero) ->
  Len_of (Seg n (zero_length_removed lname llen lzero ladd lhas_active lactive len_anypos ex es)) = Len_of (Seg n es).
Proof. exact (@zero_length_removed_length L Len lname llen lzero ladd lhas_active lactive len_anypos
                ladd_0_l ladd_0_r ladd_assoc). Qed.

Theorem C08_zero_length_removed_keeps_excepted : forall (ex : list string) (es : list (elem L)) (e : elem L),
  In e es -> existsb (String.eqb (ename lname e)) ex = true ->
  In e (zero_length_removed lname llen lzero ladd lhas_active lactive len_anypos ex es).
Proof. exact (@zero_length_removed_keeps_excepted L Len lname llen lzero ladd lhas_active lactive len_anypos). Qed.

(* an element is replaced by Drift(length, name) iff it has no truthy `is_active`, its length is
   not identically zero and its name is not in except_for.  If everything that is replaced
   tracks like that Drift, the result is unchanged. *)
Theorem C08_as_drifts_track : forall n (ex : list string) (es : list (elem L)),
  (forall e, In e es ->
     eactive lhas_active lactive e || len_allzero (Len_of e) || existsb (String.eqb (ename lname e)) ex = false ->
     forall b, track1 ltrack e b = ltrack (mkdrift (Len_of e) (ename lname e)) b) ->
  forall b, Track (Seg n (as_drifts lname llen lzero ladd lhas_active lactive len_allzero mkdrift ex es)) b
            = Track (Seg n es) b.
Proof. exact (@as_drifts_track M B E L Len one mul app en skip tmap ltrack lname llen lzero ladd
                lhas_active lactive len_allzero mkdrift app_one app_mul en_app contract). Qed.

Theorem C08_as_drifts_length_names : forall n (ex : list string) (es : list (elem L)),
  Len_of (Seg n (as_drifts lname llen lzero ladd lhas_active lactive len_allzero mkdrift ex es)) = Len_of (Seg n es) /\
  map (ename lname) (as_drifts lname llen lzero ladd lhas_active lactive len_allzero mkdrift ex es) = map (ename lname) es.
Proof.
  exact (fun n ex es => conj
    (@as_drifts_length L Len lname llen lzero ladd lhas_active lactive len_allzero mkdrift
       ladd_0_l ladd_0_r ladd_assoc drift_len n ex es)
    (@as_drifts_names L Len lname llen lzero ladd lhas_active lactive len_allzero mkdrift drift_name ex es)).
Qed.

Theorem C08_as_drifts_keeps_excepted : forall (ex : list string) (es : list (elem L)) (e : elem L),
  In e es -> existsb (String.eqb (ename lname e)) ex = true ->
  In e (as_drifts lname llen lzero ladd lhas_active lactive len_allzero mkdrift ex es).
Proof. exact (@as_drifts_keeps_excepted L Len lname llen lzero ladd lhas_active lactive len_allzero mkdrift). Qed.
End C08.

(** The hypotheses are satisfiable: the executable integer instance that is run against the
    implementation meets them. *)
Theorem C08_Z_instance : forall n ex es b,
  ztrack (Seg n (zmerged ex es [] b)) b = ztrack (Seg n es) b /\
  zelen (Seg n (zmerged ex es [] b)) = zelen (Seg n es) /\
  ztrack (Seg n (zmarkers_removed ex es)) b = ztrack (Seg n es) b.
Proof. exact (fun n ex es b => conj (zmerged_track n ex es b) (conj (zmerged_length n ex es b) (zmarkers_removed_track n ex es b))). Qed.

(** Findings F9 / F10: the hypotheses of C08_zero_length_removed_track / C08_as_drifts_track are
    FALSE for element classes that have no `is_active` attribute (class table in Filter.v,
    compared with the live classes on every run): such elements count as inactive whatever they do. *)
Open Scope Z_scope.
Open Scope string_scope.
Theorem C08_removable_contract_refuted :
  ~ (forall e, zkeep_zero [] e = false -> forall b, ztrack1 e b = b).
Proof. exact removable_contract_refuted. Qed.

Theorem C08_zero_length_removed_refuted :
  Forall (fun e => zzero_removed [] [e] = [] /\
                   ztrack (Seg "s" (zzero_removed [] [e])) probe_beam <> ztrack (Seg "s" [e]) probe_beam)
         [Leaf sck_like; Leaf ctm0_like; Seg "sub" [Leaf aperture_like]].
Proof. exact zero_length_removed_refuted. Qed.

Theorem C08_replaceable_contract_refuted :
  ~ (forall e, zkeep_as_is [] e = false -> forall b, ztrack1 e b = zltrack (zmkdrift (zelen e) (zename e)) b).
Proof. exact replaceable_contract_refuted. Qed.

Theorem C08_as_drifts_refuted :
  Forall (fun e => zas_drifts [] [e] = [Leaf (zmkdrift 1 (zename e))] /\
                   ztrack (Seg "s" (zas_drifts [] [e])) probe_beam <> ztrack (Seg "s" [e]) probe_beam)
         [Leaf ctm_like; Seg "sub" [Leaf quad_like]].
Proof. exact as_drifts_refuted. Qed.

(* non-vacuity: a lattice with a run of three, an excepted element, a single kept unmerged, an
   energy-changing element and a trailing single; merged names and lengths *)
Example C08_nonvacuous :
  let m nm := Leaf (mkleaf nm 1 (KMap (sp zI [(0%nat, 1%nat, 1)]) (sp zZ [(4%nat, 5%nat, 1)])) false false) in
  let non := Leaf (mkleaf "cav" 2 (KNon 1 1 50) false false) in
  let b := Parts [mk7 1 2 0 1 0 1 1] 3 [1] [1] in
  map (fun e => (zename e, zelen e)) (zmerged ["x"] [m "a"; m "b"; m "c"; m "x"; m "d"; non; m "e"] [] b)
  = [("combined_a_b_c", 3); ("x", 1); ("d", 1); ("cav", 2); ("combined_e", 1)].
Proof. vm_compute. reflexivity. Qed.

(** ---- Finding F28 and its repair: the length of an empty segment.
    Before the repair Segment.length was `reduce(torch.add, lengths)` ([elen_pinned]: None where the
    code raised TypeError); the repaired code is `reduce(torch.add, lengths, torch.tensor(0.0))`
    ([elen_fixed]).  The length theorems above are about the total sum [elen]; the theorems below say
    that this sum IS what the repaired code returns, for every lattice -- empty, holding empty
    sub-segments, or filtered down to nothing -- and what the code before the repair did instead. *)
Section C08_F28.
Variables (M B E L Len : Type) (one : M) (mul : M -> M -> M) (app : M -> B -> B) (en : B -> E).
Variables (skip : L -> bool) (tmap : L -> E -> M) (ltrack : L -> B -> B) (lname : L -> string).
Variables (llen : L -> Len) (lzero : Len) (ladd : Len -> Len -> Len).
Variable mkctm : M -> Len -> string -> L.
Variables (lmarker lhas_active lactive : L -> bool) (len_anypos len_allzero : Len -> bool).
Variable mkdrift : Len -> string -> L.
Hypothesis ladd_0_l : forall x, ladd lzero x = x.
Hypothesis ladd_0_r : forall x, ladd x lzero = x.
Hypothesis ladd_assoc : forall x y z, ladd (ladd x y) z = ladd x (ladd y z).
Hypothesis ctm_len : forall m len nm, llen (mkctm m len nm) = len.
Hypothesis marker_len : forall l, lmarker l = true -> llen l = lzero.
Hypothesis drift_len : forall len nm, llen (mkdrift len nm) = len.

Notation Len_of := (elen llen lzero ladd).
Notation Length_fixed := (elen_fixed L Len llen lzero ladd).     (* Segment.length after the repair (None: raises) *)
Notation Length_pinned := (elen_pinned L Len llen ladd).         (* Segment.length before the repair (None: raises) *)

(* the repaired Segment.length returns for EVERY element tree, and returns the sum of the leaf lengths *)
Theorem C08_length_fixed_total : forall e : elem L, Length_fixed e = Some (Len_of e).
Proof. exact (elen_fixed_total L Len llen lzero ladd). Qed.

(* in particular the empty segment has length zero *)
Theorem C08_empty_segment_length_fixed : forall n, Length_fixed (Seg n []) = Some lzero.
Proof. exact (fun n => eq_refl). Qed.

(* before the repair: no length exactly for the trees that hold an empty segment, the same sum elsewhere *)
Theorem C08_length_pinned_spec : forall e : elem L,
  Length_pinned e = if has_empty L e then None else Some (Len_of e).
Proof. exact (elen_pinned_spec L Len llen lzero ladd ladd_0_l). Qed.

(* the repair changes no length that the code returned before *)
Theorem C08_length_repair_conservative : forall (e : elem L) (x : Len),
  Length_pinned e = Some x -> Length_fixed e = Some x.
Proof. exact (elen_repair_conservative L Len llen lzero ladd ladd_0_l). Qed.

(* the four transformations keep the repaired length; no side condition on the lattice (it may be empty, hold
   empty sub-segments, and the result may be empty) *)
Theorem C08_merged_length_fixed : forall n (ex : list string) (es : list (elem L)) (b : B),
  Length_fixed (Seg n (merged one mul app en skip tmap ltrack lname llen lzero ladd mkctm ex es [] b))
  = Length_fixed (Seg n es).
Proof. exact (@merged_length_fixed M B E L Len one mul app en skip tmap ltrack lname llen lzero ladd mkctm
                ladd_0_l ladd_0_r ladd_assoc ctm_len). Qed.

Theorem C08_markers_removed_length_fixed : forall n (ex : list string) (es : list (elem L)),
  Length_fixed (Seg n (markers_removed lname lmarker ex es)) = Length_fixed (Seg n es).
Proof. exact (@markers_removed_length_fixed L Len lname llen lzero ladd lmarker ladd_0_l ladd_0_r ladd_assoc marker_len). Qed.

Theorem C08_zero_length_removed_length_fixed : forall n (ex : list string) (es : list (elem L)),
  (forall x, len_anypos x = false -> x = lzero) ->
  Length_fixed (Seg n (zero_length_removed lname llen lzero ladd lhas_active lactive len_anypos ex es))
  = Length_fixed (Seg n es).
Proof. exact (@zero_length_removed_length_fixed L Len lname llen lzero ladd lhas_active lactive len_anypos
                ladd_0_l ladd_0_r ladd_assoc). Qed.

Theorem C08_as_drifts_length_fixed : forall n (ex : list string) (es : list (elem L)),
  Length_fixed (Seg n (as_drifts lname llen lzero ladd lhas_active lactive len_allzero mkdrift ex es))
  = Length_fixed (Seg n es).
Proof. exact (@as_drifts_length_fixed L Len lname llen lzero ladd lhas_active lactive len_allzero mkdrift
                ladd_0_l ladd_0_r ladd_assoc drift_len). Qed.

(* a marker filter that removes every element: the empty result has length zero, and that IS the original's length *)
Theorem C08_all_markers_removed_length_fixed : forall n (ex : list string) (es : list (elem L)),
  markers_removed lname lmarker ex es = [] ->
  Length_fixed (Seg n (markers_removed lname lmarker ex es)) = Some lzero /\ Length_fixed (Seg n es) = Some lzero.
Proof. exact (@all_markers_removed_length_fixed L Len lname llen lzero ladd lmarker ladd_0_l ladd_0_r ladd_assoc marker_len). Qed.

(* F28, the code before the repair: a lattice of one marker has a length, the marker-free lattice has none *)
Theorem C08_length_pinned_refuted : forall n (m : L), lmarker m = true ->
  Length_pinned (Seg n [Leaf m]) = Some (llen m) /\
  Length_pinned (Seg n (markers_removed lname lmarker [] [Leaf m])) = None.
Proof. exact (@length_pinned_refuted L Len lname llen ladd lmarker). Qed.

(* ... and a lattice holding an empty sub-segment anywhere at top level had none to begin with *)
Theorem C08_length_pinned_empty_subsegment_refuted : forall n n' (es1 es2 : list (elem L)),
  Length_pinned (Seg n (es1 ++ Seg n' [] :: es2)) = None.
Proof. exact (@length_pinned_empty_subsegment_refuted L Len llen lzero ladd ladd_0_l). Qed.
End C08_F28.

(* the integer instance run against the repaired implementation: merging and the drift replacement keep the
   repaired length of every integer lattice *)
Theorem C08_Z_lengths_fixed : forall n ex es b,
  zlen_fixed (Seg n (zmerged ex es [] b)) = zlen_fixed (Seg n es) /\
  zlen_fixed (Seg n (zas_drifts ex es)) = zlen_fixed (Seg n es).
Proof. exact zlengths_fixed. Qed.

(* non-vacuity: two markers around an empty sub-segment.  Before the repair the lattice has no length; after it the
   length is 0, the merged lattice is one CustomTransferMap of length 0 named after all three, and the marker /
   zero-length filters leave [empty sub-segment] / nothing, of length 0 *)
Example C08_F28_nonvacuous :
  let mk nm := Leaf (mkleaf nm 0 KMarker false false) in
  let es := [mk "m1"; Seg "sub" []; mk "m2"] in
  let b := Parts [mk7 1 2 0 1 0 1 1] 3 [1] [1] in
  zlen_pinned (Seg "s" es) = None /\ zlen_fixed (Seg "s" es) = Some 0 /\
  map (fun e => (zename e, zlen_fixed e)) (zmerged [] es [] b) = [("combined_m1_sub_m2", Some 0)] /\
  zmarkers_removed [] es = [Seg "sub" []] /\ zlen_fixed (Seg "s" (zmarkers_removed [] es)) = Some 0 /\
  zzero_removed [] es = [] /\ zlen_fixed (Seg "s" (zzero_removed [] es)) = Some 0 /\
  zas_drifts [] es = es.
Proof. vm_compute. repeat split; reflexivity. Qed.

Print Assumptions C08_merged_track.
Print Assumptions C08_merged_length.
Print Assumptions C08_merged_keeps_excepted.
Print Assumptions C08_merged_keeps_nonskippable.
Print Assumptions C08_merged_runs_skippable.
Print Assumptions C08_merged_element_name_length.
Print Assumptions C08_markers_removed_track.
Print Assumptions C08_markers_removed_length.
Print Assumptions C08_markers_removed_keeps_excepted.
Print Assumptions C08_markers_removed_keeps_nonmarkers.
Print Assumptions C08_zero_length_removed_track.
Print Assumptions C08_zero_length_removed_length.
Print Assumptions C08_zero_length_removed_keeps_excepted.
Print Assumptions C08_as_drifts_track.
Print Assumptions C08_as_drifts_length_names.
Print Assumptions C08_as_drifts_keeps_excepted.
Print Assumptions C08_Z_instance.
Print Assumptions C08_removable_contract_refuted.
Print Assumptions C08_zero_length_removed_refuted.
Print Assumptions C08_replaceable_contract_refuted.
Print Assumptions C08_as_drifts_refuted.
Print Assumptions C08_nonvacuous.
Print Assumptions C08_length_fixed_total.
Print Assumptions C08_empty_segment_length_fixed.
Print Assumptions C08_length_pinned_spec.
Print Assumptions C08_length_repair_conservative.
Print Assumptions C08_merged_length_fixed.
Print Assumptions C08_markers_removed_length_fixed.
Print Assumptions C08_zero_length_removed_length_fixed.
Print Assumptions C08_as_drifts_length_fixed.
Print Assumptions C08_all_markers_removed_length_fixed.
Print Assumptions C08_length_pinned_refuted.
Print Assumptions C08_length_pinned_empty_subsegment_refuted.
Print Assumptions C08_Z_lengths_fixed.
Print Assumptions C08_F28_nonvacuous.
