(** C09 -- A switched-off element behaves as a drift of the same length.
    Only property theorems live here: each is closed by [exact] of a lemma proved in Optics/Off*.v or Bmadx/Off*.v
    and followed by [Print Assumptions].  The maps (quad_map, dip_map, sol_map, ..., drift_map) are the
    transcriptions of the code in Optics/Maps.v, guards included (k1 = 0 is replaced by 1e-12: [k1_guard]).
    [m7close eps A B] : all 49 entries of A and B differ by at most eps (spelled out by C09_m7close_means).
    [guard_eps L] = 1.02e-12 * (L + L^2 + L^3);  [off_eps kappa L] = 1.02 * kappa * (L + L^2 + L^3). *)
From Coq Require Import Reals.
From Cheetah Require Import Base.Mat Optics.Maps Optics.Off Optics.OffScalar Optics.OffProofs Optics.OffElems Optics.OffRefute
  Optics.OffClasses Optics.OffMain Optics.OffCorr Bmadx.Off Bmadx.OffProofs Optics.UndFixed Optics.UndFixedOff.
Open Scope R_scope.

Theorem C09_m7close_means : forall eps A B,
  m7close eps A B <-> (forall i j, (i < 7)%nat -> (j < 7)%nat -> Rabs (m7nth A i j - m7nth B i j) <= eps).
Proof. exact m7close_nth. Qed.

(* ---- a drift commutes with tilt and misalignment, exactly *)
Theorem C09_drift_commutes_rot : forall t L E, rmmul (rot (- t)) (rmmul (drift_map L E) (rot t)) = drift_map L E.
Proof. exact drift_commutes_rot. Qed.
Theorem C09_drift_commutes_shift : forall mx my L E,
  rmmul (mis_exit mx my) (rmmul (drift_map L E) (mis_entry mx my)) = drift_map L E.
Proof. exact drift_commutes_shift. Qed.

(* ---- exact: Solenoid(k=0) with any misalignment (incl. r56 = L/(1-gamma^2) = -L igamma2/beta^2), correctors at angle 0 *)
Theorem C09_solenoid_off : forall L mx my E, m_e < E -> sol_map L 0 mx my E = drift_map L E.
Proof. exact solenoid_off. Qed.
Theorem C09_hcor_off : forall L E, hcor_map L 0 E = drift_map L E.
Proof. exact hcor_off. Qed.
Theorem C09_vcor_off : forall L E, vcor_map L 0 E = drift_map L E.
Proof. exact vcor_off. Qed.

(* ---- up to the 1e-12 guard: Quadrupole(k1=0) for every tilt and misalignment; Dipole/RBend(angle=0,k1=0) for every
        e1,e2,tilt,gap,fringe integrals; Cavity(voltage=0).transfer_map *)
Theorem C09_quad_off_bound : forall L mx my t E, 0 <= L <= 100 ->
  m7close (1.02 * 1e-12 * (L + L * L + L * L * L) * (1 + Rabs mx + Rabs my)) (quad_map L 0 mx my t E) (drift_map L E).
Proof. exact quad_off_bound. Qed.
Theorem C09_dipole_off_bound : forall L e1 e2 t gap fint fintx E, 0 <= L <= 100 ->
  m7close (1.02 * 1e-12 * (L + L * L + L * L * L)) (dip_map L 0 0 e1 e2 t gap fint fintx E) (drift_map L E).
Proof. exact dipole_off_bound. Qed.
Theorem C09_dipole_off_edges_vanish : forall L k1 e1 e2 t gap fint fintx E,
  dip_map L 0 k1 e1 e2 t gap fint fintx E
  = rmmul (rot (- t)) (rmmul (if Req_EM_T L 0 then drift_map L E else base_untilted L k1 0 E) (rot t)).
Proof. exact dip_off_form. Qed.
Theorem C09_rbend_off_bound : forall L re1 re2 t gap fint fintx E, 0 <= L <= 100 ->
  m7close (1.02 * 1e-12 * (L + L * L + L * L * L)) (rbend_map L 0 0 re1 re2 t gap fint fintx E) (drift_map L E).
Proof. exact rbend_off_bound. Qed.
Theorem C09_cavity_off_map_bound : forall L E, 0 <= L <= 100 ->
  m7close (1.02 * 1e-12 * (L + L * L + L * L * L)) (cavity_off_map L E) (drift_map L E).
Proof. exact cavity_off_bound. Qed.

(* ---- the family statement (undulator excluded, see C09_undulator_off_refuted) and its effect on a particle *)
Theorem C09_off_is_drift_like : forall el E, ~ is_undulator el -> 0 <= off_length el <= 100 -> m_e < E ->
  m7close (guard_eps (off_length el) * (1 + off_mis el)) (off_map el E) (drift_map (off_length el) E).
Proof. exact off_is_drift_like. Qed.
Theorem C09_off_tracks_like_drift : forall el E v, ~ is_undulator el -> 0 <= off_length el <= 100 -> m_e < E ->
  v7close (guard_eps (off_length el) * (1 + off_mis el) * norm1 v) (rmvec (off_map el E) v) (rmvec (drift_map (off_length el) E) v).
Proof. exact off_tracks_like_drift. Qed.

(* ---- zero length and zero strength = identity, every class (undulator included) *)
Theorem C09_zero_len_zero_strength_identity : forall el E, off_length el = 0 -> off_map el E = rI.
Proof. exact off_zero_length_identity. Qed.
Theorem C09_drift_zero_length : forall E, drift_map 0 E = rI.
Proof. exact drift_zero_length. Qed.

(* ---- continuity at strength -> 0 (both signs): Lipschitz-type bounds, linear in |k1| *)
Theorem C09_Cf_lipschitz : forall k L, 0 <= L -> Rabs k * (L * L) <= 1 / 100 -> Rabs (Cf k L - 1) <= 1.02 * Rabs k * (L * L).
Proof. exact Cf_near_1. Qed.
Theorem C09_Sf_lipschitz : forall k L, 0 <= L -> Rabs k * (L * L) <= 1 / 100 -> Rabs (Sf k L - L) <= 1.02 * Rabs k * (L * L * L).
Proof. exact Sf_near_L. Qed.
Theorem C09_quad_small_k1 : forall L k1 mx my t E, 0 <= L -> k1 <> 0 -> Rabs k1 * (L * L) <= 1 / 100 ->
  m7close (1.02 * Rabs k1 * (L + L * L + L * L * L) * (1 + Rabs mx + Rabs my)) (quad_map L k1 mx my t E) (drift_map L E).
Proof. exact quad_small_k1_bound. Qed.
Theorem C09_quad_continuous_at_0 : forall L k1 mx my t E, 0 <= L <= 100 -> k1 <> 0 -> Rabs k1 * (L * L) <= 1 / 100 ->
  m7close ((off_eps (Rabs k1) L + guard_eps L) * (1 + Rabs mx + Rabs my)) (quad_map L k1 mx my t E) (quad_map L 0 mx my t E).
Proof. exact quad_continuous_at_0. Qed.

(* ---- refuted with witnesses (genuine defects of the code as written) *)
(* F3: Undulator R56 = +L/gamma^2, drift R56 = -L/(beta^2 gamma^2): opposite signs for every L > 0 *)
Theorem C09_undulator_off_refuted : forall L E, 0 < L -> m_e < E ->
  c5 (c4 (drift_map L E)) < 0 < c5 (c4 (und_map L E)) /\ und_map L E <> drift_map L E.
Proof. exact (fun L E HL HE => conj (undulator_r56_sign L E HL HE) (undulator_off_refuted L E HL HE)). Qed.
(* F1: Cavity(voltage=0).track adds T566 delta^2, T566 = 1.5 L igamma2/beta^3 > 0, to tau: not a drift for any particle with delta <> 0 *)
Theorem C09_cavity_off_track_refuted : forall L E k phi v, 0 < L -> m_e < E -> c5 v <> 0 ->
  c4 (rmvec (drift_map L E) v) < c4 (cavity_off_track L E k phi v).
Proof. exact cavity_off_track_refuted. Qed.
Theorem C09_cavity_off_track_tau : forall L E k phi v,
  c4 (cavity_off_track L E k phi v) = c4 (rmvec (drift_map L E) v) + 1.5 * L * igamma2_of E / (beta_of E) ^ 3 * (c5 v) ^ 2.
Proof. exact cavity_off_track_tau. Qed.
Theorem C09_cavity_off_track_delta : forall E k phi tau delta, m_e < E -> cav_off_delta E k phi tau delta = delta.
Proof. exact cavity_off_track_delta. Qed.
(* F2: ParameterBeam: cov[4,4], cov[4,5], cov[5,4] are overwritten; at L = 0 a drift keeps S44, the cavity writes 0 *)
Theorem C09_cavity_off_cov_refuted : forall E S, c4 (c4 S) <> 0 -> cavity_off_track_cov 0 E S <> rcong (drift_map 0 E) S.
Proof. exact cavity_off_cov_refuted. Qed.
(* F8: Bmad-X definedness guards are false at the switched-off / zero-length points *)
Theorem C09_bendx_off_nan_refuted : forall L py pz, ~ bendx_defined L 0 py pz.
Proof. exact bendx_off_undefined. Qed.
Theorem C09_dipolex_L0_nan_refuted : forall angle py pz, ~ bendx_defined 0 angle py pz.
Proof. exact bendx_L0_undefined. Qed.
Theorem C09_quadx_L0_nan_refuted : forall relp, ~ quadx_defined 0 relp.
Proof. exact quadx_L0_undefined. Qed.

(* ---- non-vacuity *)
Example C09_guard_example : guard_eps 1 = 3.06e-12.
Proof. exact guard_eps_example. Qed.
Example C09_bendx_defined_somewhere : bendx_defined 1 (1/10) 0 0.
Proof. exact bendx_defined_example. Qed.

(* ---- after the repair of finding F3 (Undulator R56 = -length / beta**2 * igamma2, [und_map_fixed] of Optics/Maps.v):
        the Undulator IS the drift, exactly, and the family statement holds for every class WITHOUT the [~ is_undulator]
        exclusion.  [off_map_fixed] is [off_map] with the Undulator row replaced by the repaired map.  Which row the working
        tree implements is checked on every run (harness/props/c09.py), selected by the status of F3 in known_findings.json;
        the theorems above about [und_map] describe the code before the repair. *)
Theorem C09_undulator_fixed_off : forall L E, und_map_fixed L E = drift_map L E.
Proof. exact undulator_fixed_off. Qed.
Theorem C09_off_map_fixed_rows : forall el E,
  off_map_fixed el E = match el with OffUndulator L => und_map_fixed L E | _ => off_map el E end.
Proof. exact (fun el E => eq_refl). Qed.
Theorem C09_off_is_drift_like_fixed : forall el E, 0 <= off_length el <= 100 -> m_e < E ->
  m7close (guard_eps (off_length el) * (1 + off_mis el)) (off_map_fixed el E) (drift_map (off_length el) E).
Proof. exact off_is_drift_like_fixed. Qed.
Theorem C09_off_tracks_like_drift_fixed : forall el E v, 0 <= off_length el <= 100 -> m_e < E ->
  v7close (guard_eps (off_length el) * (1 + off_mis el) * norm1 v) (rmvec (off_map_fixed el E) v) (rmvec (drift_map (off_length el) E) v).
Proof. exact off_tracks_like_drift_fixed. Qed.
Theorem C09_undulator_fixed_tracks_like_drift : forall L E v,
  rmvec (off_map_fixed (OffUndulator L) E) v = rmvec (drift_map L E) v.
Proof. exact undulator_fixed_tracks_like_drift. Qed.
Theorem C09_zero_len_zero_strength_identity_fixed : forall el E, off_length el = 0 -> off_map_fixed el E = rI.
Proof. exact off_zero_length_identity_fixed. Qed.

Print Assumptions C09_m7close_means.
Print Assumptions C09_drift_commutes_rot.
Print Assumptions C09_drift_commutes_shift.
Print Assumptions C09_solenoid_off.
Print Assumptions C09_hcor_off.
Print Assumptions C09_vcor_off.
Print Assumptions C09_quad_off_bound.
Print Assumptions C09_dipole_off_bound.
Print Assumptions C09_dipole_off_edges_vanish.
Print Assumptions C09_rbend_off_bound.
Print Assumptions C09_cavity_off_map_bound.
Print Assumptions C09_off_is_drift_like.
Print Assumptions C09_off_tracks_like_drift.
Print Assumptions C09_zero_len_zero_strength_identity.
Print Assumptions C09_drift_zero_length.
Print Assumptions C09_Cf_lipschitz.
Print Assumptions C09_Sf_lipschitz.
Print Assumptions C09_quad_small_k1.
Print Assumptions C09_quad_continuous_at_0.
Print Assumptions C09_undulator_off_refuted.
Print Assumptions C09_cavity_off_track_refuted.
Print Assumptions C09_cavity_off_track_tau.
Print Assumptions C09_cavity_off_track_delta.
Print Assumptions C09_cavity_off_cov_refuted.
Print Assumptions C09_bendx_off_nan_refuted.
Print Assumptions C09_dipolex_L0_nan_refuted.
Print Assumptions C09_quadx_L0_nan_refuted.
Print Assumptions C09_guard_example.
Print Assumptions C09_bendx_defined_somewhere.
Print Assumptions C09_undulator_fixed_off.
Print Assumptions C09_off_map_fixed_rows.
Print Assumptions C09_off_is_drift_like_fixed.
Print Assumptions C09_off_tracks_like_drift_fixed.
Print Assumptions C09_undulator_fixed_tracks_like_drift.
Print Assumptions C09_zero_len_zero_strength_identity_fixed.
