(** C10 -- Energy, charge and particle survival are accounted for exactly.
    Only property theorems live here: each is closed by [exact] of a lemma proved elsewhere
    and followed by [Print Assumptions]. *)
From Coq Require Import List Bool String QArith Reals.
From Cheetah Require Import Lattice.Track Lattice.TrackProofs Lattice.Energy Lattice.EnergyProofs Lattice.EnergyInstProofs
  Diag.Aperture Diag.ApertureProofs Beam.Stats Beam.StatsProofs.
Import ListNotations.

(** * 1. Along any lattice (generic Segment model, any leaves meeting the stated leaf contract) *)
Section C10_lattice.
(* any map monoid [M] acting on any beam type [B] (ParticleBeam or ParameterBeam), any leaves *)
Variables (M B E L : Type) (one : M) (mul : M -> M -> M) (app : M -> B -> B) (en : B -> E).
Variables (skip : L -> bool) (tmap : L -> E -> M) (ltrack : L -> B -> B).
Notation Track := (track one mul app en skip tmap ltrack).

(* Segment.track performs the leaf transitions of the flattened lattice in order, up to steps that
   are neutral (relation N) -- given only that applying a merged linear map is neutral and that a
   skippable leaf tracked alone is neutral *)
Theorem C10_track_is_chain_of_leaf_steps : forall (N : B -> B -> Prop),
  (forall b, N b b) -> (forall a b c, N a b -> N b c -> N a c) ->
  (forall m b, N b (app m b)) -> (forall l b, skip l = true -> N b (ltrack l b)) ->
  forall (e : elem L) b, Chain skip ltrack N (leaves e) b (Track e b).
Proof. exact (@track_chain M B E L one mul app en skip tmap ltrack). Qed.

(* reference energy (real-valued): out = in + sum over the cavities, in flattened order, of V cos(phi);
   [B] is arbitrary, so the statement is the same for both beam types *)
Section energy.
Variable kind : L -> ekind.        (* KCavity voltage phase_deg | KOther *)
Variable enR : B -> R.
Hypothesis linear_maps_keep_energy : forall m b, enR (app m b) = enR b.
Hypothesis non_cavity_keeps_energy : forall l b, kind l = KOther -> enR (ltrack l b) = enR b.
Hypothesis cavity_adds_V_cos_phi : forall l b V ph, kind l = KCavity V ph ->
  enR (ltrack l b) = (enR b + V * cos (ph * PI / 180))%R.
Hypothesis skippable_cavity_is_off : forall l V ph, skip l = true -> kind l = KCavity V ph -> V = 0%R.

Theorem C10_energy_accounting : forall (e : elem L) b,
  enR (Track e b) =
  (enR b + sumR (map (fun l => match kind l with KCavity V ph => V * cos (ph * PI / 180) | KOther => 0 end) (leaves e)))%R.
Proof.
  exact (@energy_accounting M B E L one mul app en skip tmap ltrack kind enR linear_maps_keep_energy
           non_cavity_keeps_energy cavity_adds_V_cos_phi skippable_cavity_is_off).
Qed.

End energy.

(* number of macro-particles, individual charges: any observable that every leaf and every linear
   map forwards is constant along every lattice *)
Theorem C10_count_charges_const : forall (X : Type) (f : B -> X),
  (forall m b, f (app m b) = f b) -> (forall l b, f (ltrack l b) = f b) ->
  forall (e : elem L) b, f (Track e b) = f b.
Proof. exact (@obs_const M B E L one mul app en skip tmap ltrack). Qed.

Section survival.
Variable sv : B -> list Q.          (* beam.survival_probabilities *)
Hypothesis linear_maps_keep_survival : forall m b, sv (app m b) = sv b.
(* every leaf: a probability within [0,1] stays within [0,1] and does not increase *)
Hypothesis leaf_survival : forall l b,
  Forall2 (fun s' s => (0 <= s /\ s <= 1 -> (0 <= s' /\ s' <= 1) /\ s' <= s)%Q) (sv (ltrack l b)) (sv b).
Hypothesis skippable_keeps_survival : forall l b, skip l = true -> sv (ltrack l b) = sv b.

Theorem C10_surv_range : forall (e : elem L) b,
  Forall (fun s => 0 <= s /\ s <= 1)%Q (sv b) -> Forall (fun s => 0 <= s /\ s <= 1)%Q (sv (Track e b)).
Proof.
  exact (@lattice_surv_range M B E L one mul app en skip tmap ltrack sv linear_maps_keep_survival leaf_survival
           skippable_keeps_survival).
Qed.

Theorem C10_surv_monotone : forall (e : elem L) b,
  Forall (fun s => 0 <= s /\ s <= 1)%Q (sv b) -> Forall2 Qle (sv (Track e b)) (sv b).
Proof.
  exact (@lattice_surv_monotone M B E L one mul app en skip tmap ltrack sv linear_maps_keep_survival leaf_survival
           skippable_keeps_survival).
Qed.

(* a blocking active screen anywhere in the lattice: every survival probability is 0 at the end,
   whatever follows the screen *)
Variable blocks : L -> bool.
Hypothesis blocking_is_not_skippable : forall l, blocks l = true -> skip l = false.
Hypothesis blocking_zeroes_survival : forall l b, blocks l = true -> Forall (fun s => s == 0)%Q (sv (ltrack l b)).

Theorem C10_blocking_screen_all_lost_downstream : forall (e : elem L) b,
  existsb blocks (leaves e) = true -> Forall (fun s => s == 0)%Q (sv (Track e b)).
Proof.
  exact (@lattice_blocking_screen M B E L one mul app en skip tmap ltrack sv linear_maps_keep_survival leaf_survival
           skippable_keeps_survival blocks blocking_is_not_skippable blocking_zeroes_survival).
Qed.
End survival.
End C10_lattice.

(** the leaf contracts are discharged for the executable instance that is run against cheetah
    (Aperture, Screen, Drift, energy kick, Marker; both beam types) *)
Theorem C10_instance_surv_range : forall e b, Forall (fun s => 0 <= s /\ s <= 1)%Q (bsurv b) ->
  Forall (fun s => 0 <= s /\ s <= 1)%Q (bsurv (qtrack e b)).
Proof. exact qtrack_surv_range. Qed.
Theorem C10_instance_surv_monotone : forall e b, Forall (fun s => 0 <= s /\ s <= 1)%Q (bsurv b) ->
  Forall2 Qle (bsurv (qtrack e b)) (bsurv b).
Proof. exact qtrack_surv_monotone. Qed.
Theorem C10_instance_charges_const : forall e b, bcharges (qtrack e b) = bcharges b.
Proof. exact qtrack_charges_const. Qed.
Theorem C10_instance_count_const : forall e b, bcount (qtrack e b) = bcount b.
Proof. exact qtrack_count_const. Qed.
Theorem C10_instance_energy : forall e b,
  qen (qtrack e b) =
  fold_left (fun x k => match k with QCav V c => if Qeq_bool V 0 then x else (x + V * c)%Q | _ => x end) (leaves e) (qen b).
Proof. exact qtrack_energy. Qed.
(* blocking active screen: total surviving charge 0 downstream, both beam types *)
Theorem C10_instance_blocking_no_charge_particles : forall e pb,
  existsb qblocks (leaves e) = true -> (btotal (qtrack e (PBeam pb)) == 0)%Q.
Proof. exact qtrack_blocking_no_charge. Qed.
Theorem C10_instance_parameter_beam_charge : forall e qb,
  ptotal (qtrack e (QBeam qb)) = if existsb qblocks (leaves e) then 0%Q else qb_charge qb.
Proof. exact qtrack_param_charge. Qed.

(** * 2. Aperture (model of Aperture.track over Q; half-sizes may be infinite) *)
Open Scope Q_scope.
Theorem C10_aperture_zero_outside : forall a b, List.length (parts b) = List.length (surv b) ->
  forall i, (i < List.length (parts b))%nat -> strictly_outside a (nth i (parts b) []) ->
  nth i (surv (ap_track_p a b)) 0 == 0.
Proof. exact aperture_zero_outside. Qed.

Theorem C10_aperture_inside_kept : forall a b, List.length (parts b) = List.length (surv b) ->
  forall i, (i < List.length (parts b))%nat -> strictly_inside a (nth i (parts b) []) ->
  nth i (surv (ap_track_p a b)) 0 == nth i (surv b) 0.
Proof. exact aperture_inside_kept. Qed.

(* the rectangular test is exactly "strictly within both half-sizes" *)
Theorem C10_aperture_rect_exact : forall x y xm ym,
  rect_in x y xm ym = true <->
  (match xm with Fin q => - q < x /\ x < q | Inf => True end) /\ (match ym with Fin q => - q < y /\ y < q | Inf => True end).
Proof. exact rect_in_iff. Qed.

Theorem C10_aperture_coords_untouched : forall a b,
  parts (ap_track_p a b) = parts b /\ energy (ap_track_p a b) = energy b /\ charges (ap_track_p a b) = charges b.
Proof. exact aperture_coords_untouched. Qed.

Theorem C10_aperture_active : forall a b, ap_active a = true -> ap_track a (PBeam b) = PBeam (ap_track_p a b).
Proof. exact aperture_active. Qed.

Theorem C10_aperture_inactive_identity : forall a b, ap_active a = false -> ap_track a b = b.
Proof. exact aperture_inactive_identity. Qed.

Theorem C10_aperture_parameter_beam_passthrough : forall a qb, ap_track a (QBeam qb) = QBeam qb.
Proof. exact aperture_parameter_passthrough. Qed.

Theorem C10_aperture_surv_range : forall a b, List.length (parts b) = List.length (surv b) ->
  Forall (fun s => 0 <= s /\ s <= 1) (surv b) -> Forall (fun s => 0 <= s /\ s <= 1) (surv (ap_track_p a b)).
Proof. exact surv_range. Qed.

Theorem C10_aperture_surv_monotone : forall a b, List.length (parts b) = List.length (surv b) ->
  Forall (fun s => 0 <= s /\ s <= 1) (surv b) -> Forall2 Qle (surv (ap_track_p a b)) (surv b).
Proof. exact surv_monotone. Qed.

Theorem C10_aperture_charges_const : forall a b,
  match ap_track a (PBeam b) with
  | PBeam o => charges o = charges b /\ List.length (parts o) = List.length (parts b)
  | QBeam _ => False
  end.
Proof. exact charges_const. Qed.

(** * 3. Statistics count lost particles as absent *)
Theorem C10_wstats_eq_filtered : forall xs ys ws,
  Forall (fun w => w == 0 \/ w == 1) ws -> List.length xs = List.length ws -> List.length ys = List.length ws ->
  (2 <= List.length (keep xs ws))%nat ->
  wmean xs ws == mean (keep xs ws) /\ wvar xs ws == var (keep xs ws) /\
  wcov xs ys ws == cov (keep xs ws) (keep ys ws).
Proof. exact wstats_eq_filtered. Qed.

Theorem C10_total_charge_filtered : forall qs ss,
  Forall (fun w => w == 0 \/ w == 1) ss -> List.length qs = List.length ss -> total_charge qs ss == qsum (keep qs ss).
Proof. exact total_charge_filtered. Qed.

Theorem C10_total_charge_all_lost : forall qs ss, Forall (fun s => s == 0) ss -> total_charge qs ss == 0.
Proof. exact total_charge_all_lost. Qed.

(** * non-vacuity *)
Example C10_nonvacuous_lattice :
  let ap := QAp (mkap (Fin (1#2)) Inf Rect true) in
  let t := Seg "root" [Leaf (QDrift 1); Seg "inner" [Leaf ap; Leaf (QCav 0 1); Leaf (QCav 3 (1#2))]; Leaf QMark] in
  let b := PBeam (mkpb [[1#4; 1#8; 0; 0; 0; 0; 1]; [1#4; 1#2; 5; 0; 0; 0; 1]] 10 [1; 2] [1; 1#2]) in
  match qtrack t b with
  | PBeam o => pbeam_eqb o (mkpb [[3#8; 1#8; 0; 0; 0; 0; 1]; [3#4; 1#2; 5; 0; 0; 0; 1]] (23#2) [1; 2] [1; 0])
  | _ => false
  end = true.
Proof. vm_compute. reflexivity. Qed.

Example C10_nonvacuous_stats :
  (* x = 1,2,9,4 with the third particle lost: mean 7/3, variance 7/3; total charge 1+1+1 *)
  Qeq_bool (wmean [1;2;9;4] [1;1;0;1]) (7#3) && Qeq_bool (wvar [1;2;9;4] [1;1;0;1]) (7#3) &&
  Qeq_bool (var (keep [1;2;9;4] [1;1;0;1])) (7#3) && Qeq_bool (total_charge [1;1;5;1] [1;1;0;1]) 3 = true.
Proof. vm_compute. reflexivity. Qed.

Print Assumptions C10_track_is_chain_of_leaf_steps.
Print Assumptions C10_energy_accounting.
Print Assumptions C10_count_charges_const.
Print Assumptions C10_surv_range.
Print Assumptions C10_surv_monotone.
Print Assumptions C10_blocking_screen_all_lost_downstream.
Print Assumptions C10_instance_surv_range.
Print Assumptions C10_instance_surv_monotone.
Print Assumptions C10_instance_charges_const.
Print Assumptions C10_instance_count_const.
Print Assumptions C10_instance_energy.
Print Assumptions C10_instance_blocking_no_charge_particles.
Print Assumptions C10_instance_parameter_beam_charge.
Print Assumptions C10_aperture_zero_outside.
Print Assumptions C10_aperture_inside_kept.
Print Assumptions C10_aperture_rect_exact.
Print Assumptions C10_aperture_coords_untouched.
Print Assumptions C10_aperture_active.
Print Assumptions C10_aperture_inactive_identity.
Print Assumptions C10_aperture_parameter_beam_passthrough.
Print Assumptions C10_aperture_surv_range.
Print Assumptions C10_aperture_surv_monotone.
Print Assumptions C10_aperture_charges_const.
Print Assumptions C10_wstats_eq_filtered.
Print Assumptions C10_total_charge_filtered.
Print Assumptions C10_total_charge_all_lost.
Print Assumptions C10_nonvacuous_lattice.
Print Assumptions C10_nonvacuous_stats.

(** * 4. Vectorised apertures (appended, round 4): half sizes with a batch shape, finite and infinite entries side by side.
    Model: entry k of the outgoing survival tensor = the scalar aperture with the half sizes of entry k (Diag/ApertureVec.v). *)
From Cheetah Require Import Diag.ApertureVec.
Open Scope Q_scope.

(* the survival tensor has the batch shape of the half sizes (one beam broadcast against the batch) *)
Theorem C10_vec_aperture_shape : forall v b, List.length (vap_track v b) = List.length (v_halves v).
Proof. exact vap_length. Qed.

(* entry by entry: zero strictly outside the opening of THAT entry, kept strictly inside it *)
Theorem C10_vec_aperture_zero_outside : forall v b k i, List.length (parts b) = List.length (surv b) ->
  (k < List.length (v_halves v))%nat -> (i < List.length (parts b))%nat ->
  strictly_outside (mkap (fst (nth k (v_halves v) (Inf, Inf))) (snd (nth k (v_halves v) (Inf, Inf))) (v_shape v) (v_active v))
                   (nth i (parts b) []) ->
  nth i (surv (nth k (vap_track v b) b)) 0 == 0.
Proof. exact vap_entry_zero_outside. Qed.

Theorem C10_vec_aperture_inside_kept : forall v b k i, List.length (parts b) = List.length (surv b) ->
  (k < List.length (v_halves v))%nat -> (i < List.length (parts b))%nat ->
  strictly_inside (mkap (fst (nth k (v_halves v) (Inf, Inf))) (snd (nth k (v_halves v) (Inf, Inf))) (v_shape v) (v_active v))
                  (nth i (parts b) []) ->
  nth i (surv (nth k (vap_track v b) b)) 0 == nth i (surv b) 0.
Proof. exact vap_entry_inside_kept. Qed.

(* coordinates, energy and charges of every entry are those of the incoming beam; the particle count is unchanged *)
Theorem C10_vec_aperture_untouched : forall v b k, (k < List.length (v_halves v))%nat ->
  parts (nth k (vap_track v b) b) = parts b /\ energy (nth k (vap_track v b) b) = energy b /\
  charges (nth k (vap_track v b) b) = charges b /\ List.length (surv (nth k (vap_track v b) b)) = List.length (surv b).
Proof. exact vap_entry_untouched. Qed.

(* an entry whose half sizes are both infinite is fully open (rectangular) ... *)
Theorem C10_vec_aperture_open_entry : forall b k v, v_shape v = Rect -> List.length (parts b) = List.length (surv b) ->
  (k < List.length (v_halves v))%nat -> nth k (v_halves v) (Inf, Inf) = (Inf, Inf) ->
  forall i, (i < List.length (parts b))%nat -> nth i (surv (nth k (vap_track v b) b)) 0 == nth i (surv b) 0.
Proof. exact vap_open_entry. Qed.

(* ... but does not open its finite neighbours: x_max = [inf, 1/2], y_max = inf; the particle at x = 1 survives entry 0, not entry 1 *)
Example C10_vec_aperture_inf_next_to_finite :
  map surv (vap_track (mkvap [(Inf, Inf); (Fin (1#2), Inf)] Rect true)
                      (mkpb [[1; 0; 0; 0; 0; 0; 1]; [(1#4); 0; 3; 0; 0; 0; 1]] 100 [1; 1] [1; (1#2)]))
  = [[1 * 1; (1#2) * 1]; [1 * 0; (1#2) * 1]].
Proof. exact vec_witness. Qed.

(* every beam of a batch against every entry of the half sizes (outer broadcast): shape (beams, entries) *)
Theorem C10_vec_aperture_outer_shape : forall v bs, List.length (vap_track_outer v bs) = List.length bs /\
  Forall (fun row => List.length row = List.length (v_halves v)) (vap_track_outer v bs).
Proof. exact vap_outer_shape. Qed.

Print Assumptions C10_vec_aperture_shape.
Print Assumptions C10_vec_aperture_zero_outside.
Print Assumptions C10_vec_aperture_inside_kept.
Print Assumptions C10_vec_aperture_untouched.
Print Assumptions C10_vec_aperture_open_entry.
Print Assumptions C10_vec_aperture_inf_next_to_finite.
Print Assumptions C10_vec_aperture_outer_shape.
