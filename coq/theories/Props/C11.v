(** C11 -- Tracking has no side effects on its inputs and no hidden state (state-machine model).
    Level: partial.  In the functional model purity holds by construction; what is proved is that the
    bookkeeping state that DOES exist (parameters, activity flags, recorded beams, reading caches)
    cannot leak into tracking results and that read-outs are coherent.  The tie to the code is the
    history correspondence run by harness/props/c11.py. *)
From Coq Require Import List Bool ZArith.
From Cheetah Require Import Ops.History Ops.HistoryProofs.
Import ListNotations.
Open Scope Z_scope.

(* after any history of assignments, tracks, read-outs, clones and optimisations, a track returns what a
   freshly built lattice with the final parameter values and activity flags returns *)
Theorem C11_track_equals_fresh : forall (p : list Z) (a : list bool) (h : list op) (b : Z),
  snd (step (fst (run (init p a) h)) (Track b)) =
  snd (step (init (fold_left apply_param h p) (fold_left apply_act h a)) (Track b)).
Proof. exact track_equals_fresh. Qed.

Theorem C11_repeat_track_same : forall s b,
  snd (step (fst (step s (Track b))) (Track b)) = snd (step s (Track b)).
Proof. exact repeat_track_same. Qed.

Theorem C11_clone_and_optimise_leave_original : forall s b k,
  snd (step s (CloneTrack b)) = snd (step s (Track b))
  /\ fst (step s (CloneTrack b)) = s
  /\ params (fst (step s (Optim k b))) = params s /\ act (fst (step s (Optim k b))) = act s
  /\ fst (step s (Optim k b)) = fst (step s (Track b)).
Proof. exact clone_and_optim_track_like_original. Qed.

(* parameters change by assignment only *)
Theorem C11_params_changed_only_by_assign : forall s ops,
  params (fst (run s ops)) = fold_left apply_param ops (params s).
Proof. exact run_params. Qed.

(* cache coherence for every reachable state, hence a read-out is the most recently recorded beam *)
Theorem C11_cache_invariant : forall p a h, cache_inv (fst (run (init p a) h)).
Proof. exact (fun p a h => run_inv (init p a) h (init_inv p a)). Qed.

Theorem C11_read_returns_recorded : forall p a h d,
  let s := fst (run (init p a) h) in snd (step s (Read d)) = ORead d (nth d (recd s) None).
Proof. exact read_returns_recorded. Qed.

Theorem C11_track_records_when_active : forall s b d, (d < length (recd s))%nat ->
  nth d (recd (fst (step s (Track b)))) None = if nth d (act s) false then Some (tok s b) else nth d (recd s) None.
Proof. exact track_records_when_active. Qed.

Theorem C11_only_track_changes_recorded : forall s o,
  (forall b, o <> Track b) -> (forall k b, o <> Optim k b) -> recd (fst (step s o)) = recd s.
Proof. exact only_track_changes_recorded. Qed.

Example C11_nonvacuous :
  let h := [Track 1; Read 0%nat; Assign 1%nat 7; SetActive 1%nat true; Track 2; Read 0%nat; Read 1%nat; CloneTrack 2; Read 1%nat] in
  snd (run (init [3; 4] [true; false]) h) =
  [OTrack ([3; 4], [true; false], 1); ORead 0 (Some ([3; 4], [true; false], 1)); ONone; ONone;
   OTrack ([3; 7], [true; true], 2); ORead 0 (Some ([3; 7], [true; true], 2)); ORead 1 (Some ([3; 7], [true; true], 2));
   OTrack ([3; 7], [true; true], 2); ORead 1 (Some ([3; 7], [true; true], 2))].
Proof. vm_compute. reflexivity. Qed.

Print Assumptions C11_track_equals_fresh.
Print Assumptions C11_repeat_track_same.
Print Assumptions C11_clone_and_optimise_leave_original.
Print Assumptions C11_params_changed_only_by_assign.
Print Assumptions C11_cache_invariant.
Print Assumptions C11_read_returns_recorded.
Print Assumptions C11_track_records_when_active.
Print Assumptions C11_only_track_changes_recorded.
Print Assumptions C11_nonvacuous.
