(** C12 -- dtype is preserved and float64 simulations are float64-accurate.
    Level: partial.  Proved for all inputs: the dtype-selection logic of cheetah/utils/argument_verification.py
    and PyTorch's promotion rule for the two floating dtypes.  Re-checked against the source on every run:
    every tensor creation that does not take the simulation's dtype is in the reviewed inventory
    (Ops/DtypeSites.v; generated obligation `dtype_sites_reviewed_now`).  The dtype of actual results and
    float64 accuracy are observed on the real code (both dtypes, every class and operation; 40-digit references). *)
From Coq Require Import List Bool.
From Cheetah Require Import Ops.Dtype Ops.DtypeProofs.
Import ListNotations.

Theorem C12_requested_dtype_wins : forall default ts d, verify default ts (Some d) = Some d.
Proof. exact verify_desired. Qed.

Theorem C12_inferred_dtype_is_common_dtype : forall default ts d,
  not_nones ts <> [] -> (forall x, In x (not_nones ts) -> x = d) -> verify default ts None = Some d.
Proof. exact verify_inferred. Qed.

Theorem C12_no_tensors_default : forall default ts, not_nones ts = [] -> verify default ts None = Some default.
Proof. exact verify_no_tensors. Qed.

Theorem C12_conflict_rejected : forall default ts a b,
  In a (not_nones ts) -> In b (not_nones ts) -> a <> b -> verify default ts None = None.
Proof. exact verify_conflict_rejected. Qed.

Theorem C12_verify_sound : forall default ts d, verify default ts None = Some d ->
  forall x, In x (not_nones ts) -> x = d.
Proof. exact verify_sound. Qed.

Theorem C12_same_dtype_closed : forall d z1 z2, result_type (mkop d z1) (mkop d z2) = d.
Proof. exact result_type_closed. Qed.

Theorem C12_demotion_iff : forall a b,
  (od a = F64 \/ od b = F64) -> (result_type a b = F32 <->
  (od a = F32 /\ zero_dim a = false /\ zero_dim b = true) \/ (od b = F32 /\ zero_dim b = false /\ zero_dim a = true)).
Proof. exact result_type_demotion_iff. Qed.

Example C12_nonvacuous :
  verify F32 [None; Some F64; Some F64] None = Some F64 /\ verify F32 [Some F32; Some F64] None = None
  /\ verify F32 [Some F32] (Some F64) = Some F64 /\ result_type (mkop F32 false) (mkop F64 true) = F32.
Proof. repeat split. Qed.

Print Assumptions C12_requested_dtype_wins.
Print Assumptions C12_inferred_dtype_is_common_dtype.
Print Assumptions C12_no_tensors_default.
Print Assumptions C12_conflict_rejected.
Print Assumptions C12_verify_sound.
Print Assumptions C12_same_dtype_closed.
Print Assumptions C12_demotion_iff.
Print Assumptions C12_nonvacuous.
