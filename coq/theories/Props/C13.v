(** C13 -- Imported lattices mean what the lattice file says.   LEVEL: partial.
    Proved here: the laws of the denotational semantics of the supported lattice language (Parse/LatticeLang.v: statement
    execution, inheritance, line expansion, conversion conventions), of the line front end (Parse/Lines.v: cleaning, continuation
    merging -- a transcription of fortran_namelist.py) and of the NX-table layout (Parse/NxTables.v, exact arithmetic).
    NOT proved: that cheetah's regular-expression / eval text front end computes these models; that is tied on every run by the
    program-level correspondence of harness/props/c13.py over a generator of lattice files (testing).
    Only property theorems live here: each is closed by [exact] of a lemma proved elsewhere and followed by [Print Assumptions]. *)
From Coq Require Import List Bool String Ascii ZArith QArith Sorted Permutation.
From Coq Require PrimFloat.
From Cheetah Require Import Parse.Lines Parse.LinesProofs Parse.LatticeLang Parse.LatticeLangProofs Parse.NxTables Parse.NxTablesProofs.
Import ListNotations.
Local Close Scope Q_scope.
Local Open Scope string_scope.

(* the theorems live in a module so that PrimFloat is imported only there: Print Assumptions (outside) then lists the kernel's
   float primitives under their qualified names *)
Module T.
Import PrimFloat.

(* ================================================================== line expansion *)
(* the leaves of the imported tree are the in-order traversal [flat] of the selected line: the concatenation, member by member and
   as often as a member is listed, of the leaves of the members' own conversions (nested and repeated lines included) *)
Theorem C13_expand_is_inorder : forall fuel fl c name,
  option_map leaves (expand fuel fl c name) = flat fuel fl c name.
Proof. exact expand_is_inorder. Qed.

Theorem C13_expand_flat_line : forall f fl c name items,
  get c name = Some (VLine items) ->
  (forall i, In i items -> exists ps, get c i = Some (VElem ps)) ->
  expand (S (S f)) fl c name =
  option_map (CSeg (Some name))
    (collect (map (fun i => match get c i with Some (VElem ps) => convert fl i ps | _ => None end) items)).
Proof. exact expand_flat_line. Qed.

(* more fuel never changes a result; for acyclic line definitions (some rank decreases along membership) fuel above the rank
   of the root is enough, whatever the result *)
Theorem C13_expand_fuel_mono : forall n fl c name t,
  expand n fl c name = Some t -> forall m, n <= m -> expand m fl c name = Some t.
Proof. exact expand_fuel_mono. Qed.

Theorem C13_expand_fuel_suffices : forall c (rk : string -> nat) fl,
  (forall n items i, get c n = Some (VLine items) -> In i items -> rk i < rk n) ->
  forall n name, rk name < n -> forall m, rk name < m -> expand n fl c name = expand m fl c name.
Proof. exact expand_fuel_suffices. Qed.

Theorem C13_cyclic_line_rejected : forall fuel,
  expand fuel Elegant [("a", VLine ["b"]); ("b", VLine ["a"])] "a" = None.
Proof. exact example_cycle. Qed.

(* total length (Segment.length: nested sums) = sum of the lengths of the expanded members, in any additive monoid *)
Theorem C13_length_is_sum : forall (A : Type) (add : A -> A -> A) (zero : A),
  (forall x, add zero x = x) -> (forall x, add x zero = x) -> (forall x y z, add (add x y) z = add x (add y z)) ->
  forall (llen : ctree -> A) fuel fl c name t ls,
  expand fuel fl c name = Some t -> flat fuel fl c name = Some ls ->
  tlen A add zero llen t = fold_right add zero (map llen ls).
Proof. exact length_is_sum. Qed.

(* ================================================================== statements *)
Theorem C13_later_assignment_wins_var : forall c n e1 e2 c1 c2 v,
  step c (SVar n e1) = Some c1 -> step c1 (SVar n e2) = Some c2 -> eval c1 e2 = Some v ->
  get c2 n = Some (cv_of_pval v).
Proof. exact later_var_wins. Qed.

Theorem C13_later_assignment_wins_prop : forall c n p e c' v,
  step c (SAssign (TName n) p e) = Some c' -> eval c e = Some v ->
  exists ps, get c' n = Some (VElem ps) /\ get ps p = Some v /\
    (forall q, q <> p -> get ps q = match get c n with Some (VElem old) => get old q | _ => None end).
Proof. exact later_prop_wins. Qed.

(* child: parent, p1 = e1, ...   copies the parent's properties and overrides the listed ones (the last listing of p counts) *)
Theorem C13_inherit_then_override : forall c n parent ps base c' p,
  get c parent = Some (VElem base) -> step c (SDef n parent ps) = Some c' ->
  exists r, get c' n = Some (VElem r) /\
            get r p = match last_binding ps p with Some e => eval c e | None => get base p end.
Proof. exact inherit_then_override. Qed.

(* ...and the copy is a snapshot: no later statement that does not name (or wildcard-match) the child changes it *)
Theorem C13_inherit_snapshot : forall c child parent base c1 ss c2,
  get c parent = Some (VElem base) -> step c (SDef child parent []) = Some c1 -> run c1 ss = Some c2 ->
  forallb (fun s => negb (touches s child)) ss = true ->
  get c2 child = Some (VElem base).
Proof. exact inherit_snapshot. Qed.

Theorem C13_step_frame : forall c s c' k, step c s = Some c' -> touches s k = false -> get c' k = get c k.
Proof. exact step_frame. Qed.

(* the import depends only on the names the expansion looks up; a further definition of anything else changes nothing *)
Theorem C13_expand_depends_on_used_only : forall fuel fl c c' name,
  (forall k, In k (used fuel c name) -> get c' k = get c k) -> expand fuel fl c' name = expand fuel fl c name.
Proof. exact expand_ext. Qed.

Theorem C13_denote_insensitive_to_unused : forall fuel fl root ss s c c',
  run ctx0 ss = Some c -> step c s = Some c' ->
  touches s "__use__" = false ->
  (forall r, root_of fl c root = Some r -> forall k, In k (used fuel c r) -> touches s k = false) ->
  denote_fuel fuel fl root (ss ++ [s])%list = denote_fuel fuel fl root ss.
Proof. exact denote_insensitive_to_unused. Qed.

(* ================================================================== unit and phase conventions, as coded *)
Theorem C13_elegant_rfca_phase : forall name ps t,
  convert_elegant name "rfca" ps = Some t ->
  exists ph, req ps "phase" = Some ph /\ leaf_param t "phase" = Some (PNum (round32 (PrimFloat.sub ph 90%float))).
Proof. exact elegant_rfca_phase. Qed.

Theorem C13_bmad_lcavity_phase : forall name ps t,
  convert_bmad name "lcavity" ps = Some t ->
  exists p, opt ps "phi0" zero = Some p /\
    leaf_param t "phase" = Some (PNum (round32 (PrimFloat.opp (PrimFloat.mul (PrimFloat.mul (PrimFloat.mul p two) c_pi) rad2deg)))).
Proof. exact bmad_lcavity_phase. Qed.

Theorem C13_bmad_sbend_gap_angle : forall name ps t,
  convert_bmad name "sbend" ps = Some t ->
  exists hg a, opt ps "hgap" zero = Some hg /\ opt ps "angle" zero = Some a /\
    leaf_param t "gap" = Some (PNum (round32 (PrimFloat.mul two hg))) /\ leaf_param t "angle" = Some (PNum (round32 a)).
Proof. exact bmad_sbend_gap_angle. Qed.

(* ---- refuted: the converter does not deliver what the file says (each reproduced on the real code, known findings) *)
(* b: sbend, l = 0.5, g = 1, e1 = 0.1  has bend angle g*l = 0.5; the import has angle 0 *)
Theorem C13_bmad_sbend_g_refuted :
  exists t, convert Bmad "b" [("e1", PNum 0x1.999999999999ap-4%float); ("g", PNum one); ("l", PNum 0x1p-1%float); ("element_type", PStr "sbend")] = Some t /\
            leaf_param t "angle" = Some (PNum zero) /\
            PrimFloat.eqb (round32 (PrimFloat.mul one 0x1p-1%float)) zero = false.
Proof. exact bmad_sbend_g_refuted. Qed.

Theorem C13_bmad_kicker_refuted :
  convert Bmad "h" [("kick", PNum 0x1.0624dd2f1a9fcp-10%float); ("l", PNum 0x1.999999999999ap-4%float); ("element_type", PStr "hkicker")] = None
  /\ convert Bmad "v" [("kick", PNum 0x1.0624dd2f1a9fcp-10%float); ("element_type", PStr "vkicker")] = None.
Proof. exact bmad_kicker_refuted. Qed.

Theorem C13_bmad_sbend_e1_refuted :
  convert Bmad "b" [("angle", PNum 0x1.999999999999ap-3%float); ("l", PNum 0x1p-1%float); ("element_type", PStr "sbend")] = None.
Proof. exact bmad_sbend_e1_refuted. Qed.

Theorem C13_bmad_ecollimator_unnamed_refuted : forall name ps ch,
  convert_bmad name "ecollimator" ps = Some (CSeg (Some name) ch) -> False.
Proof. exact bmad_ecollimator_unnamed_refuted. Qed.

(* an EMATRIX with R = identity is imported with R[6,6] = 0 (the affine row is left zero) *)
Theorem C13_elegant_ematrix_affine_row_refuted :
  exists t, convert Elegant "c"
              [("r66", PNum one); ("r55", PNum one); ("r44", PNum one); ("r33", PNum one); ("r22", PNum one); ("r11", PNum one);
               ("l", PNum zero); ("element_type", PStr "ematrix")] = Some t /\
            leaf_param t "m55" = Some (PNum one) /\ leaf_param t "m66" = Some (PNum zero).
Proof. exact elegant_ematrix_affine_row_refuted. Qed.

(* ================================================================== line front end *)
(* statements cut into continuation lines at arbitrary points ([fst p] = the pieces that are continued, [snd p] = the last
   piece; with [rm] the mark is an extra character, e.g. '&'; without, each continued piece ends with the statement's own
   delimiter, e.g. ',') merge back into the statements -- provided no statement itself ends with the delimiter *)
Theorem C13_merge_split_inverse : forall (d : ascii) (rm : bool) (ps : list (list str * str)),
  Forall (fun p => (rm = false -> Forall (fun x => ends_with d x = true) (fst p)) /\
                   ends_with d (List.concat (fst p) ++ snd p)%list = false) ps ->
  merge_continued d rm (List.concat (map (fun p => (map (fun x => if rm then (x ++ [d])%list else x) (fst p) ++ [snd p])%list) ps))
  = Some (map strip (map (fun p => (List.concat (fst p) ++ snd p)%list) ps)).
Proof. exact merge_split_inverse. Qed.

(* without the guard: a mark on the last lines indexes past the end of the list (IndexError) *)
Theorem C13_merge_last_line_refuted :
  merge_continued comma false [of_s "a,"; of_s "b,"] = None /\
  merge_continued comma false [of_s "x"; of_s "a,"; of_s "b,"; of_s "c,"] = None /\
  merge_continued amp true [of_s "a &"; of_s "b &"] = None.
Proof. exact merge_last_line_refuted. Qed.

Theorem C13_clean_idempotent : forall ls, clean (clean ls) = clean ls.
Proof. exact clean_idempotent. Qed.

Theorem C13_clean_drops_comments : forall a b,
  forallb (fun c => negb (Ascii.eqb c "!"%char)) a = true -> clean [(a ++ "!"%char :: b)%list] = clean [a].
Proof. exact clean_drops_comments. Qed.

Theorem C13_clean_drops_blank : forall a b ls, forallb is_space a = true ->
  clean ((a ++ "!"%char :: b)%list :: ls) = clean ls /\ clean (a :: ls) = clean ls.
Proof. exact clean_drops_blank. Qed.

(* ================================================================== NX tables (exact arithmetic) *)
(* if the table is accepted, walking the output from the entrance of the first element (placed so that its centre is at its
   Z_beam) finds the centre of every tabulated element at its Z_beam *)
Theorem C13_nx_centres : forall els its,
  qlayout els = Some its ->
  match its with
  | IElem f :: _ => centres_ok (e_s f - qlen f / 2) its
  | _ => False
  end.
Proof. exact nx_centres. Qed.

Theorem C13_nx_sorted : forall els its,
  qlayout els = Some its ->
  Sorted (fun a b => (e_s a <= e_s b)%Q) (elems_of its) /\ Permutation els (elems_of its).
Proof. exact nx_sorted. Qed.

Theorem C13_nx_total_length : forall els its,
  qlayout els = Some its ->
  exists f rest, qsort els = f :: rest /\
    (total its == (e_s (last rest f) - e_s f) + qlen f / 2 + qlen (last rest f) / 2)%Q.
Proof. exact nx_total_length. Qed.

Theorem C13_nx_overlap_rejected : forall p c rest, (qgap p c < 0)%Q -> qfill p (c :: rest) = None.
Proof. exact nx_overlap_rejected. Qed.

(* ================================================================== non-vacuity *)
Example C13_example_fodo :
  denote Elegant "fodo"
    [ SLine "fodo" ["q1"; "d1"; "m1"; "d1"];
      SDef "q1" "quad" [("l", ENum 0x1.999999999999ap-4%float); ("k1", ENum 0x1.8p+0%float)];
      SDef "d1" "drift" [("l", ENum one)];
      SDef "m1" "mark" [] ] =
  Some (CSeg (Some "fodo")
    [ CLeaf "Quadrupole" "q1" [("length", PNum 0x1.99999ap-4%float); ("k1", PNum 0x1.8p+0%float); ("tilt", PNum zero)];
      CLeaf "Drift" "d1" [("length", PNum one)];
      CLeaf "Marker" "m1" [];
      CLeaf "Drift" "d1" [("length", PNum one)] ]).
Proof. exact example_fodo. Qed.

Example C13_example_inherit :
  denote Bmad "" ex_inherit =
  Some (CSeg (Some "lat")
    [ CLeaf "Quadrupole" "q1" [("length", PNum 5%float); ("k1", PNum two); ("tilt", PNum 0x1.8p+0%float)];
      CSeg (Some "inner") [ CLeaf "Quadrupole" "q2" [("length", PNum one); ("k1", PNum 3%float); ("tilt", PNum 0x1.8p+0%float)];
                            CLeaf "Drift" "d" [("length", PNum 225%float)] ];
      CSeg (Some "inner") [ CLeaf "Quadrupole" "q2" [("length", PNum one); ("k1", PNum 3%float); ("tilt", PNum 0x1.8p+0%float)];
                            CLeaf "Drift" "d" [("length", PNum 225%float)] ] ]).
Proof. exact example_inherit. Qed.

(* ================================================================== the importers after the repairs of F18, F40, F41, F42, F43
   The theorems above are about the transcription of the code as it was ([convert_bmad], [merge_continued], [define_header false]):
   the _refuted ones document the defects.  Those below are about the transcription of the repaired code
   ([convert_bmad_v fx] with a switch per repair, [merge_continued_fixed], [define_header true]); harness/props/c13.py compares the
   implementation with the variant selected, finding by finding, by the status in known_findings.json (known: as it was; fixed:
   repaired). *)
(* with every switch off the switched transcription is the transcription of the code as it was *)
Theorem C13_variant_no_fixes_is_old : forall name ty ps fl root ss,
  convert_bmad_v no_fixes name ty ps = convert_bmad name ty ps /\ denote_v no_fixes fl root ss = denote fl root ss.
Proof. exact (fun name ty ps fl root ss => conj (convert_bmad_v_no_fixes name ty ps) (denote_v_no_fixes fl root ss)). Qed.

(* a repair changes nothing outside the element types it is about *)
Theorem C13_repairs_are_local : forall fx name ty ps,
  mem ty ["hkicker"; "vkicker"; "sbend"; "ecollimator"] = false ->
  convert_bmad_v fx name ty ps = convert_bmad name ty ps.
Proof. exact convert_bmad_v_other_types. Qed.

(* F18 (sbend) repaired: a bend given by its curvature g, without an angle, bends by g * l ... *)
Theorem C13_bmad_sbend_g_fixed : forall fx name ps t,
  fx_g fx = true -> has ps "angle" = false ->
  convert_bmad_v fx name "sbend" ps = Some t ->
  exists l g, req ps "l" = Some l /\ opt ps "g" zero = Some g /\
    leaf_param t "angle" = Some (PNum (round32 (PrimFloat.mul g l))).
Proof. exact bmad_sbend_g_fixed. Qed.

(* ... a given angle keeps its precedence, whatever the switches ... *)
Theorem C13_bmad_sbend_angle_wins_fixed : forall fx name ps t,
  has ps "angle" = true ->
  convert_bmad_v fx name "sbend" ps = Some t ->
  exists a, opt ps "angle" zero = Some a /\ leaf_param t "angle" = Some (PNum (round32 a)).
Proof. exact bmad_sbend_angle_wins_fixed. Qed.

(* ... and the witness of C13_bmad_sbend_g_refuted (l = 0.5, g = 1, e1 = 0.1) has angle 0.5 *)
Theorem C13_bmad_sbend_g_fixed_witness :
  exists t, convert_v all_fixes Bmad "b" [("e1", PNum 0x1.999999999999ap-4%float); ("g", PNum one); ("l", PNum 0x1p-1%float); ("element_type", PStr "sbend")] = Some t /\
            leaf_param t "angle" = Some (PNum 0x1p-1%float) /\ leaf_param t "e1" = Some (PNum 0x1.99999ap-4%float).
Proof. exact bmad_sbend_g_fixed_witness. Qed.

(* F18 (kickers) repaired: a kicker with its own l / kick is a corrector of that length and angle *)
Theorem C13_bmad_kicker_fixed : forall fx name ps l a,
  fx_kick fx = true ->
  understood ["element_type"; "type"; "alias"; "l"; "kick"] ps = true -> opt ps "l" zero = Some l -> opt ps "kick" zero = Some a ->
  convert_bmad_v fx name "hkicker" ps = Some (CLeaf "HorizontalCorrector" name [("length", PNum (round32 l)); ("angle", PNum (round32 a))]) /\
  convert_bmad_v fx name "vkicker" ps = Some (CLeaf "VerticalCorrector" name [("length", PNum (round32 l)); ("angle", PNum (round32 a))]).
Proof. exact bmad_kicker_fixed. Qed.

Theorem C13_bmad_kicker_fixed_witness :
  convert_v all_fixes Bmad "h" [("kick", PNum 0x1.0624dd2f1a9fcp-10%float); ("l", PNum 0x1.999999999999ap-4%float); ("element_type", PStr "hkicker")]
    = Some (CLeaf "HorizontalCorrector" "h" [("length", PNum 0x1.99999ap-4%float); ("angle", PNum 0x1.0624dep-10%float)]) /\
  convert_v all_fixes Bmad "v" [("kick", PNum 0x1.0624dd2f1a9fcp-10%float); ("element_type", PStr "vkicker")]
    = Some (CLeaf "VerticalCorrector" "v" [("length", PNum zero); ("angle", PNum 0x1.0624dep-10%float)]).
Proof. exact bmad_kicker_fixed_witness. Qed.

(* F43 repaired: e1 defaults to 0; the witness of C13_bmad_sbend_e1_refuted is accepted *)
Theorem C13_bmad_sbend_e1_default_fixed : forall fx name ps t,
  fx_e1 fx = true -> has ps "e1" = false ->
  convert_bmad_v fx name "sbend" ps = Some t -> leaf_param t "e1" = Some (PNum zero).
Proof. exact bmad_sbend_e1_default_fixed. Qed.

Theorem C13_bmad_sbend_e1_fixed_witness :
  exists t, convert_v all_fixes Bmad "b" [("angle", PNum 0x1.999999999999ap-3%float); ("l", PNum 0x1p-1%float); ("element_type", PStr "sbend")] = Some t /\
            leaf_param t "e1" = Some (PNum zero) /\ leaf_param t "angle" = Some (PNum 0x1.99999ap-3%float).
Proof. exact bmad_sbend_e1_fixed_witness. Qed.

(* F42 repaired: the Segment of an ecollimator carries the element's name, like that of an rcollimator *)
Theorem C13_bmad_ecollimator_named_fixed : forall fx name ty ps t,
  fx_ecol fx = true -> ty = "ecollimator" \/ ty = "rcollimator" ->
  convert_bmad_v fx name ty ps = Some t -> exists d a, t = CSeg (Some name) [d; a].
Proof. exact bmad_ecollimator_named_fixed. Qed.

(* F41 repaired: the merging loop has a result for every list of lines (no IndexError) ... *)
Theorem C13_merge_fixed_total : forall d rm ls, exists out, merge_continued_fixed d rm ls = Some out.
Proof. exact merge_fixed_total. Qed.

(* ... the same result as before wherever there was one ... *)
Theorem C13_merge_fixed_agrees : forall d rm ls out,
  merge_continued d rm ls = Some out -> merge_continued_fixed d rm ls = Some out.
Proof. exact merge_fixed_agrees. Qed.

(* ... so that the inverse law of C13_merge_split_inverse carries over ... *)
Theorem C13_merge_split_inverse_fixed : forall (d : ascii) (rm : bool) (ps : list (list str * str)),
  Forall (fun p => (rm = false -> Forall (fun x => ends_with d x = true) (fst p)) /\
                   ends_with d (List.concat (fst p) ++ snd p)%list = false) ps ->
  merge_continued_fixed d rm (List.concat (map (fun p => (map (fun x => if rm then (x ++ [d])%list else x) (fst p) ++ [snd p])%list) ps))
  = Some (map strip (map (fun p => (List.concat (fst p) ++ snd p)%list) ps)).
Proof. exact merge_split_inverse_fixed. Qed.

(* ... and on the witnesses of C13_merge_last_line_refuted the statement that runs into the end of the file is kept (with its mark) *)
Theorem C13_merge_last_line_fixed :
  merge_continued_fixed comma false [of_s "a,"; of_s "b,"] = Some [of_s "a,b,"] /\
  merge_continued_fixed comma false [of_s "x"; of_s "a,"; of_s "b,"; of_s "c,"] = Some [of_s "x"; of_s "a,b,c,"] /\
  merge_continued_fixed amp true [of_s "a &"; of_s "b &"] = Some [of_s "a b &"] /\
  front_end_fixed [of_s "lat: line = (d, d)"; of_s "d: drift,"; of_s "L = 1,"] = [of_s "lat: line = (d, d)"; of_s "d: drift,l = 1,"].
Proof. exact merge_last_line_fixed. Qed.

(* F40: the head  NAME s1 : s2 TYPE sp , REST  of an element definition (s1, s2, sp white space; define_element's pattern).
   As it was, it is matched without white space in front of the comma and rejected (AttributeError) with any ... *)
Theorem C13_define_header_space_refuted : forall name s1 s2 ty sp rest,
  name <> [] -> forallb name_char name = true -> ty <> [] -> forallb type_char ty = true ->
  forallb is_space s1 = true -> forallb is_space s2 = true -> forallb is_space sp = true -> sp <> [] ->
  define_header false (name ++ s1 ++ ":"%char :: s2 ++ ty ++ sp ++ ","%char :: rest)%list = None.
Proof. exact define_header_space_refuted. Qed.

Theorem C13_define_header_nospace : forall name s1 s2 ty rest,
  name <> [] -> forallb name_char name = true -> ty <> [] -> forallb type_char ty = true ->
  forallb is_space s1 = true -> forallb is_space s2 = true -> existsb newline rest = false ->
  define_header false (name ++ s1 ++ ":"%char :: s2 ++ ty ++ [] ++ ","%char :: rest)%list = Some (name, ty, Some rest).
Proof. exact define_header_nospace. Qed.

(* ... repaired, white space there is accepted and the properties are what follows the comma; nothing else changes *)
Theorem C13_define_header_fixed_space : forall name s1 s2 ty sp rest,
  name <> [] -> forallb name_char name = true -> ty <> [] -> forallb type_char ty = true ->
  forallb is_space s1 = true -> forallb is_space s2 = true -> forallb is_space sp = true -> existsb newline rest = false ->
  define_header true (name ++ s1 ++ ":"%char :: s2 ++ ty ++ sp ++ ","%char :: rest)%list = Some (name, ty, Some rest).
Proof. exact define_header_fixed_space. Qed.

Theorem C13_define_header_fixed_agrees : forall line r,
  define_header false line = Some r -> define_header true line = Some r.
Proof. exact define_header_fixed_agrees. Qed.

Example C13_define_header_examples :
  define_header false (of_s "q: quad , l = 0.1, k1 = 2") = None /\
  define_header true (of_s "q: quad , l = 0.1, k1 = 2") = Some (of_s "q", of_s "quad", Some (of_s " l = 0.1, k1 = 2")) /\
  define_header true (of_s "m.1 :mark") = Some (of_s "m.1", of_s "mark", None) /\
  define_header true (of_s "lat: line = (a, b)") = None.
Proof. exact define_header_examples. Qed.


End T.

Print Assumptions T.C13_expand_is_inorder.
Print Assumptions T.C13_expand_flat_line.
Print Assumptions T.C13_expand_fuel_mono.
Print Assumptions T.C13_expand_fuel_suffices.
Print Assumptions T.C13_cyclic_line_rejected.
Print Assumptions T.C13_length_is_sum.
Print Assumptions T.C13_later_assignment_wins_var.
Print Assumptions T.C13_later_assignment_wins_prop.
Print Assumptions T.C13_inherit_then_override.
Print Assumptions T.C13_inherit_snapshot.
Print Assumptions T.C13_step_frame.
Print Assumptions T.C13_expand_depends_on_used_only.
Print Assumptions T.C13_denote_insensitive_to_unused.
Print Assumptions T.C13_elegant_rfca_phase.
Print Assumptions T.C13_bmad_lcavity_phase.
Print Assumptions T.C13_bmad_sbend_gap_angle.
Print Assumptions T.C13_bmad_sbend_g_refuted.
Print Assumptions T.C13_bmad_kicker_refuted.
Print Assumptions T.C13_bmad_sbend_e1_refuted.
Print Assumptions T.C13_bmad_ecollimator_unnamed_refuted.
Print Assumptions T.C13_elegant_ematrix_affine_row_refuted.
Print Assumptions T.C13_merge_split_inverse.
Print Assumptions T.C13_merge_last_line_refuted.
Print Assumptions T.C13_clean_idempotent.
Print Assumptions T.C13_clean_drops_comments.
Print Assumptions T.C13_clean_drops_blank.
Print Assumptions T.C13_nx_centres.
Print Assumptions T.C13_nx_sorted.
Print Assumptions T.C13_nx_total_length.
Print Assumptions T.C13_nx_overlap_rejected.
Print Assumptions T.C13_example_fodo.
Print Assumptions T.C13_example_inherit.
Print Assumptions T.C13_variant_no_fixes_is_old.
Print Assumptions T.C13_repairs_are_local.
Print Assumptions T.C13_bmad_sbend_g_fixed.
Print Assumptions T.C13_bmad_sbend_angle_wins_fixed.
Print Assumptions T.C13_bmad_sbend_g_fixed_witness.
Print Assumptions T.C13_bmad_kicker_fixed.
Print Assumptions T.C13_bmad_kicker_fixed_witness.
Print Assumptions T.C13_bmad_sbend_e1_default_fixed.
Print Assumptions T.C13_bmad_sbend_e1_fixed_witness.
Print Assumptions T.C13_bmad_ecollimator_named_fixed.
Print Assumptions T.C13_merge_fixed_total.
Print Assumptions T.C13_merge_fixed_agrees.
Print Assumptions T.C13_merge_split_inverse_fixed.
Print Assumptions T.C13_merge_last_line_fixed.
Print Assumptions T.C13_define_header_space_refuted.
Print Assumptions T.C13_define_header_nospace.
Print Assumptions T.C13_define_header_fixed_space.
Print Assumptions T.C13_define_header_fixed_agrees.
Print Assumptions T.C13_define_header_examples.

(* ================================================================== round 6: Segment.flattened() at any depth; RPN expressions *)
From Cheetah Require Import Parse.LatticeLangFlat Parse.LatticeLangFlatProofs Parse.Rpn Parse.RpnProofs.

Module T2.
Import PrimFloat.

(* Segment.flattened() (transcribed as the code is written: a sub-segment contributes the elements of its own flattened copy) of a
   converted segment keeps the name and lists the leaves of the tree in order, at ANY nesting depth ... *)
Theorem C13_flattened_is_leaves : forall n ch, flattened (CSeg n ch) = CSeg n (leaves (CSeg n ch)).
Proof. exact flattened_is_leaves. Qed.

(* ... so no sub-line is left over among its elements, flattening twice changes nothing ... *)
Theorem C13_flattened_no_subsegment : forall n ch,
  forallb (fun t => match t with CLeaf _ _ _ => true | CSeg _ _ => false end) (children (flattened (CSeg n ch))) = true.
Proof. exact flattened_no_subsegment. Qed.

Theorem C13_flattened_idempotent : forall t, flattened (flattened t) = flattened t.
Proof. exact flattened_idempotent. Qed.

(* ... and the imported line, flattened, is the in-order traversal [flat] of the selected line (nested and repeated lines included) *)
Theorem C13_flattened_expand_is_inorder : forall fuel fl c name items t ls,
  get c name = Some (VLine items) -> expand fuel fl c name = Some t -> flat fuel fl c name = Some ls ->
  flattened t = CSeg (Some name) ls.
Proof. exact flattened_expand_is_inorder. Qed.

(* a one-level splice (the elements of a sub-segment taken as they are) is a different function from depth 3 on *)
Example C13_flattened_depth3 :
  let q := CLeaf "Marker" "q" [] in
  let ring := CSeg (Some "ring") [CSeg (Some "arc") [CSeg (Some "cell") [q]]] in
  ctree_eqb (splice_once ring) (flattened ring) = false /\ flattened ring = CSeg (Some "ring") [q].
Proof. exact splice_once_differs. Qed.

(* RPN: the stack machine, run on the post-order rendering of an expression tree, yields the value of the tree
   (None exactly where the evaluation of the tree raises) *)
Theorem C13_rpn_of_ast_eval : forall c e, eval_rpn c (rpn_of e) = evalf c e.
Proof. exact rpn_of_ast_eval. Qed.

(* operand order:  A B op  is  A op B  -- the right operand of the operator is the one pushed last *)
Theorem C13_rpn_binary_order : forall c a b o,
  eval_rpn c (rpn_of a ++ rpn_of b ++ [KOp o])%list =
  match evalf c a with
  | Some x => match evalf c b with Some y => apply_bin o x y | None => None end
  | None => None
  end.
Proof. exact rpn_binary_order. Qed.

(* the three-token form cheetah accepts (rpn.eval_expression: eval("A op B")) is that reading and the value of the tree a op b *)
Theorem C13_rpn3_is_eval_rpn : forall c a b o,
  rpn3 c a b o = eval_rpn c (rpn_of a ++ rpn_of b ++ [KOp o])%list /\ rpn3 c a b o = evalf c (ebin o a b).
Proof. exact rpn3_is_eval_rpn. Qed.

Example C13_rpn_order_matters :
  eval_rpn ctx0 [KNum 2%float; KNum 0.75%float; KOp OSub] = Some 1.25%float /\
  eval_rpn ctx0 [KNum 0.75%float; KNum 2%float; KOp OSub] = Some (-1.25)%float /\
  eval_rpn ctx0 [KNum 1.5%float; KNum (-2)%float; KOp ODiv] = Some (-0.75)%float /\
  eval_rpn ctx0 [KNum 3%float; KNum 1%float; KNum 2%float; KOp OAdd; KOp OSub] = Some 0%float /\
  eval_rpn ctx0 [KNum 1%float; KOp OAdd] = None /\ eval_rpn ctx0 [KNum 1%float; KNum 2%float] = None.
Proof. exact rpn_order_matters. Qed.

End T2.

Print Assumptions T2.C13_flattened_is_leaves.
Print Assumptions T2.C13_flattened_no_subsegment.
Print Assumptions T2.C13_flattened_idempotent.
Print Assumptions T2.C13_flattened_expand_is_inorder.
Print Assumptions T2.C13_flattened_depth3.
Print Assumptions T2.C13_rpn_of_ast_eval.
Print Assumptions T2.C13_rpn_binary_order.
Print Assumptions T2.C13_rpn3_is_eval_rpn.
Print Assumptions T2.C13_rpn_order_matters.
