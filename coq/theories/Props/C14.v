(** C14 -- Saving a lattice to LatticeJSON and loading it back reproduces the lattice.
    Only property theorems: each closed by [exact] of a lemma proved in Ops/JsonProofs.v or
    Ops/CloneProofs.v, followed by [Print Assumptions].
    Vocabulary (Ops/Json.v): a lattice is a [tree] of named leaves [Lf n p] and sub-segments [Sg n ts];
    [conv_buggy] is convert_segment AS CODED (a sub-segment child is written under the stale name of the
    previous leaf; [None] = UnboundLocalError), [conv] the repaired converter, [parse] parse_segment,
    [save]/[load] the documents.  (Ops/ClassTableSpec.v): [class_ok c] = every constructor parameter of c
    except name/device/dtype is a defining feature and every defining feature is a constructor parameter. *)
From Coq Require Import List Bool String Arith.
From Cheetah Require Import Ops.ClassTableSpec Ops.Json Ops.JsonProofs Ops.Clone Ops.CloneProofs.
Import ListNotations.
Open Scope string_scope.

Section C14_trees.
(* any element payload P, any JSON representation J, any element writer/loader *)
Variables (P J : Type) (sv : P -> J) (ld : string -> J -> option P).

(* repaired writer: every uniquely named lattice of loadable elements, any nesting, comes back *)
Theorem C14_roundtrip_repaired : forall n ts,
  NoDup (names (Sg n ts)) ->
  (forall m p, In (m, p) (payloads (Sg n ts)) -> ld m (sv p) = Some p) ->
  forall fuel, depth (Sg n ts) <= fuel ->
  let '(E, LL) := conv P J sv (Sg n ts) in parse P J ld fuel E LL n = Some (Sg n ts).
Proof. exact (roundtrip P J sv ld). Qed.

(* the code as it is, on flat segments (no sub-segment child): saving succeeds and loading returns the lattice *)
Theorem C14_roundtrip_pinned_flat : forall n ts,
  flat (Sg n ts) = true -> NoDup (names (Sg n ts)) ->
  (forall m p, In (m, p) (payloads (Sg n ts)) -> ld m (sv p) = Some p) ->
  forall fuel, 1 <= fuel ->
  exists E LL, conv_buggy P J sv (Sg n ts) = Some (E, LL) /\ parse P J ld fuel E LL n = Some (Sg n ts).
Proof. exact (roundtrip_faithful_flat P J sv ld). Qed.

(* the same through the written document (root/elements/lattices keys, Python's ordered dictionaries) *)
Theorem C14_save_load_pinned_flat : forall n ts title info fuel,
  flat (Sg n ts) = true -> NoDup (names (Sg n ts)) ->
  (forall m p, In (m, p) (payloads (Sg n ts)) -> ld m (sv p) = Some p) -> 1 <= fuel ->
  match snd (save P J sv (Sg n ts) title info) with
  | Some doc => load P J ld fuel doc = Some (Sg n ts)
  | None => False
  end.
Proof. exact (save_load_flat P J sv ld). Qed.

Theorem C14_save_load_repaired : forall n ts title info fuel,
  NoDup (names (Sg n ts)) ->
  (forall m p, In (m, p) (payloads (Sg n ts)) -> ld m (sv p) = Some p) -> depth (Sg n ts) <= fuel ->
  match snd (save_repaired P J sv (Sg n ts) title info) with
  | Some doc => load P J ld fuel doc = Some (Sg n ts)
  | None => False
  end.
Proof. exact (save_load_repaired P J sv ld). Qed.

(* finding F11, universally: the code as it is mis-saves EVERY lattice whose root has a sub-segment child:
   if saving does not raise, the root's cell list differs from the children's names and omits the sub-segment *)
Theorem C14_pinned_nested_always_wrong : forall n ts m us,
  In (Sg m us) ts -> NoDup (names (Sg n ts)) ->
  forall E LL, conv_buggy P J sv (Sg n ts) = Some (E, LL) ->
  exists cell, In (n, cell) LL /\ cell <> map tname ts /\ ~ In m cell.
Proof. exact (conv_buggy_nested_wrong P J sv). Qed.

Theorem C14_pinned_nested_never_roundtrips : forall n ts m us,
  In (Sg m us) ts -> NoDup (names (Sg n ts)) ->
  forall E LL, conv_buggy P J sv (Sg n ts) = Some (E, LL) -> NoDup (map fst LL) ->
  forall fuel, parse P J ld fuel E LL n <> Some (Sg n ts).
Proof. exact (roundtrip_faithful_nested_fails P J sv ld). Qed.

(* saving does not alter the segment (the writer returns it untouched, whatever converter is used) *)
Theorem C14_convert_pure : forall cv (t : tree P) title info, fst (save_with P J cv t title info) = t.
Proof. exact (convert_pure P J). Qed.

(* documented top-level layout of the file *)
Theorem C14_top_level_layout : forall (t : tree P) title info doc,
  snd (save P J sv t title info) = Some doc ->
  map fst doc = ["version"; "title"; "info"; "root"; "elements"; "lattices"] /\
  lookup doc "root" = Some (JStr J (tname t)) /\
  lookup doc "version" = Some (JStr J "cheetah-0.7") /\
  lookup doc "title" = Some (JStr J (match title with Some s => s | None => tname t end)).
Proof. exact (top_level_layout P J sv). Qed.
End C14_trees.

(* the measured witnesses of finding F11 (payload = class name) *)
Theorem C14_roundtrip_refuted_later_child :
  exists E LL, sk_conv_buggy (Sg "outer" [Lf "d2" "Drift"; Sg "inner" [Lf "d1" "Drift"]; Lf "d3" "Drift"]) = Some (E, LL) /\
    lookup LL "outer" = Some ["d2"; "d2"; "d3"] /\
    sk_parse [] 5 E LL "outer" = Some (Sg "outer" [Lf "d2" "Drift"; Lf "d2" "Drift"; Lf "d3" "Drift"]) /\
    sk_parse [] 5 E LL "outer" <> Some (Sg "outer" [Lf "d2" "Drift"; Sg "inner" [Lf "d1" "Drift"]; Lf "d3" "Drift"]) /\
    NoDup (names (Sg "outer" [Lf "d2" "Drift"; Sg "inner" [Lf "d1" "Drift"]; Lf "d3" "Drift"])).
Proof. exact roundtrip_refuted_later. Qed.

Theorem C14_roundtrip_refuted_first_child :
  sk_conv_buggy (Sg "outer" [Sg "inner" [Lf "d1" "Drift"]; Lf "d2" "Drift"]) = None /\
  NoDup (names (Sg "outer" [Sg "inner" [Lf "d1" "Drift"]; Lf "d2" "Drift"])).
Proof. exact roundtrip_refuted_first. Qed.

Example C14_repaired_on_witnesses :
  (let '(E, LL) := sk_conv witness_later in sk_parse [] 5 E LL "outer") = Some witness_later /\
  (let '(E, LL) := sk_conv witness_first in sk_parse [] 5 E LL "outer") = Some witness_first.
Proof. exact roundtrip_repaired_witness. Qed.

Section C14_elements.
(* attribute values V with constructor defaults, JSON values JV with tolist()/torch.tensor() as enc/dec,
   the class table of the running code *)
Variables (V : Type) (dflt : cls_rec -> string -> V) (other : cls_rec -> list (string * V) -> string -> V).
Variables (JV : Type) (enc : V -> JV) (dec : JV -> V) (table : list cls_rec).

(* one element: class_ok => every constructor-settable attribute (tracking method, flags ...) survives *)
Theorem C14_elem_roundtrip : forall (e : element V) n,
  class_ok (ecls e) = true -> required_passed (ecls e) = true ->
  (map fst (eattrs e) = settable (ecls e) /\ NoDup (map fst (eattrs e))) ->
  (forall f v, In (f, v) (eattrs e) -> dec (enc v) = v) ->
  find_class table (cname (ecls e)) = Some (ecls e) ->
  load_elem V dflt JV dec table n (save_elem V other JV enc e) = Some e.
Proof. exact (elem_roundtrip V dflt other JV enc dec table). Qed.

(* a constructor parameter missing from defining_features is reset to its default by save/load *)
Theorem C14_elem_roundtrip_drops : forall (e : element V) n p v,
  subset (features (ecls e)) (ctor_params (ecls e)) = true -> required_passed (ecls e) = true ->
  find_class table (cname (ecls e)) = Some (ecls e) ->
  In p (settable (ecls e)) -> mem p (features (ecls e)) = false ->
  alookup (eattrs e) p = Some v -> v <> dflt (ecls e) p ->
  exists e', load_elem V dflt JV dec table n (save_elem V other JV enc e) = Some e' /\
             alookup (eattrs e') p = Some (dflt (ecls e) p) /\ e' <> e.
Proof. exact (elem_roundtrip_drops V dflt other JV enc dec table). Qed.

(* a defining feature that is no constructor parameter makes loading raise *)
Theorem C14_elem_roundtrip_raises : forall (e : element V) n f,
  find_class table (cname (ecls e)) = Some (ecls e) ->
  In f (features (ecls e)) -> f <> "name" -> mem f (ctor_params (ecls e)) = false ->
  load_elem V dflt JV dec table n (save_elem V other JV enc e) = None.
Proof. exact (elem_roundtrip_raises V dflt other JV enc dec table). Qed.

(* whole lattices of real elements through the document, code as it is, flat segments *)
Theorem C14_lattice_roundtrip_pinned_flat : forall n ts title info fuel,
  flat (Sg n ts) = true -> NoDup (names (Sg n ts)) ->
  (forall ne, In ne (payloads (Sg n ts)) ->
     class_ok (ecls (snd ne)) = true /\ required_passed (ecls (snd ne)) = true /\ wf (snd ne) /\
     (forall f v, In (f, v) (eattrs (snd ne)) -> dec (enc v) = v) /\
     find_class table (cname (ecls (snd ne))) = Some (ecls (snd ne))) ->
  1 <= fuel ->
  match snd (save (element V) _ (save_elem V other JV enc) (Sg n ts) title info) with
  | Some doc => load (element V) _ (load_elem V dflt JV dec table) fuel doc = Some (Sg n ts)
  | None => False
  end.
Proof. exact (lattice_roundtrip_flat V dflt other JV enc dec table). Qed.

Theorem C14_lattice_roundtrip_repaired : forall n ts title info fuel,
  NoDup (names (Sg n ts)) ->
  (forall ne, In ne (payloads (Sg n ts)) ->
     class_ok (ecls (snd ne)) = true /\ required_passed (ecls (snd ne)) = true /\ wf (snd ne) /\
     (forall f v, In (f, v) (eattrs (snd ne)) -> dec (enc v) = v) /\
     find_class table (cname (ecls (snd ne))) = Some (ecls (snd ne))) ->
  depth (Sg n ts) <= fuel ->
  match snd (save_repaired (element V) _ (save_elem V other JV enc) (Sg n ts) title info) with
  | Some doc => load (element V) _ (load_elem V dflt JV dec table) fuel doc = Some (Sg n ts)
  | None => False
  end.
Proof. exact (lattice_roundtrip_repaired V dflt other JV enc dec table). Qed.
End C14_elements.

(* finding F12 on the rows of the pinned tree; the table of the RUNNING code is re-checked on every run
   (build/C14/ClassCheck.v proves [table_ok class_table = true] for the regenerated table) *)
Theorem C14_classes_ok_refuted :
  class_ok quadrupole_cls = false /\ class_ok screen_cls = false /\ class_ok undulator_cls = false /\
  class_ok spacechargekick_cls = false /\ class_ok drift_cls = true /\
  missing quadrupole_cls = ["num_steps"; "tracking_method"] /\ missing screen_cls = ["is_blocking"] /\
  missing undulator_cls = ["is_active"] /\ extra spacechargekick_cls = ["grid_shape"].
Proof. exact classes_ok_refuted. Qed.

Theorem C14_exception_list_is_exact :
  class_accepted (mkcls "Quadrupole" (ctor_params quadrupole_cls) (required quadrupole_cls)
                        ["name"; "length"; "misalignment"; "tilt"]
                        [("name", "str"); ("length", "tensor"); ("misalignment", "tensor"); ("tilt", "tensor")]
                        (echoed quadrupole_cls) "ok") = false /\
  class_accepted (mkcls "Drift" (ctor_params drift_cls) (required drift_cls) ["name"; "length"]
                        [("name", "str"); ("length", "tensor")] (echoed drift_cls) "ok") = false.
Proof. exact exception_list_is_exact. Qed.

Print Assumptions C14_roundtrip_repaired.
Print Assumptions C14_roundtrip_pinned_flat.
Print Assumptions C14_save_load_pinned_flat.
Print Assumptions C14_save_load_repaired.
Print Assumptions C14_pinned_nested_always_wrong.
Print Assumptions C14_pinned_nested_never_roundtrips.
Print Assumptions C14_convert_pure.
Print Assumptions C14_top_level_layout.
Print Assumptions C14_roundtrip_refuted_later_child.
Print Assumptions C14_roundtrip_refuted_first_child.
Print Assumptions C14_repaired_on_witnesses.
Print Assumptions C14_elem_roundtrip.
Print Assumptions C14_elem_roundtrip_drops.
Print Assumptions C14_elem_roundtrip_raises.
Print Assumptions C14_lattice_roundtrip_pinned_flat.
Print Assumptions C14_lattice_roundtrip_repaired.
Print Assumptions C14_classes_ok_refuted.
Print Assumptions C14_exception_list_is_exact.

(** ---- names as dictionary KEYS of the file (model: Ops/JsonKeys.v; added after seeded change C14-6).
    Every element / segment name reaches the file through the hand-written line of CompactJSONEncoder.encode,
    [json.dumps(key)], and comes back through the JSON string-literal parser.  [save_text enc] is the converter followed
    by writing every key of the "elements" and "lattices" tables as the text [enc key]; [load_text dec] reads every key
    text back with [dec] ([None] = not valid JSON) and then parses as before.  Strings are byte strings. *)
From Coq Require Import Ascii NArith.
From Cheetah Require Import Ops.JsonKeys Ops.JsonKeysProofs.

Section C14_keys.
(* ANY key writer and key reader such that the reader inverts the writer *)
Variables (encode_key : string -> string) (decode_key : string -> option string).
Hypothesis decode_encode : forall k, decode_key (encode_key k) = Some k.
Variables (P J : Type) (sv : P -> J) (ld : string -> J -> option P).

(* what is assumed of the key writer is exactly that hypothesis: then every uniquely named lattice, whatever characters its
   names contain, comes back from the written file *)
Theorem C14_text_roundtrip : forall n ts fuel,
  NoDup (names (Sg n ts)) ->
  (forall m p, In (m, p) (payloads (Sg n ts)) -> ld m (sv p) = Some p) ->
  depth (Sg n ts) <= fuel ->
  load_text decode_key P J ld fuel (save_text encode_key P J sv (Sg n ts)) = Some (Sg n ts).
Proof. exact (text_roundtrip encode_key decode_key decode_encode P J sv ld). Qed.

(* in particular two different names never get the same key text *)
Theorem C14_encode_key_injective : forall a b, encode_key a = encode_key b -> a = b.
Proof. exact (encode_key_injective encode_key decode_key decode_encode). Qed.
End C14_keys.

(* the transcription of json.dumps(key) / of the JSON string-literal parser satisfies the hypothesis for EVERY byte string:
   quotes, backslashes, control characters, non-ASCII bytes, the empty string, JSON keywords, any length *)
Theorem C14_json_key_codec_roundtrip : forall s : string, json_decode_key (json_encode_key s) = Some s.
Proof. exact json_codec_roundtrip. Qed.

Theorem C14_text_roundtrip_json : forall (P J : Type) (sv : P -> J) (ld : string -> J -> option P) n ts fuel,
  NoDup (names (Sg n ts)) ->
  (forall m p, In (m, p) (payloads (Sg n ts)) -> ld m (sv p) = Some p) ->
  depth (Sg n ts) <= fuel ->
  load_text json_decode_key P J ld fuel (save_text json_encode_key P J sv (Sg n ts)) = Some (Sg n ts).
Proof. exact text_roundtrip_json. Qed.

(* the writer of seeded change C14-6 ([raw_key k] = the key between two quotes, nothing escaped) does not satisfy it:
   B,P,M,backslash,t,1 is read back as B,P,M,TAB,1 and  arc "A"  is not a JSON string at all *)
Theorem C14_raw_key_refuted :
  json_decode_key (raw_key (sb [66; 80; 77; 92; 116; 49]%N)) = Some (sb [66; 80; 77; 9; 49]%N) /\
  sb [66; 80; 77; 9; 49]%N <> sb [66; 80; 77; 92; 116; 49]%N /\
  json_decode_key (raw_key (sb [97; 114; 99; 32; 34; 65; 34]%N)) = None /\
  json_decode_key (json_encode_key (sb [66; 80; 77; 92; 116; 49]%N)) = Some (sb [66; 80; 77; 92; 116; 49]%N) /\
  json_decode_key (json_encode_key (sb [97; 114; 99; 32; 34; 65; 34]%N)) = Some (sb [97; 114; 99; 32; 34; 65; 34]%N).
Proof. exact raw_key_refuted. Qed.

(* ... and whole lattices with such names are not reproduced through it, while the escaping writer reproduces them *)
Example C14_raw_key_roundtrip_refuted :
  NoDup (names witness_names) /\ NoDup (names witness_backslash) /\
  sk_load_text json_decode_key 5 (sk_save_text raw_key witness_names) = None /\
  (let '(_, Etxt, _) := sk_save_text raw_key witness_backslash in
   option_map (map fst) (read_keys json_decode_key Etxt)) = Some ["D1"; name_tab] /\
  sk_load_text json_decode_key 5 (sk_save_text raw_key witness_backslash) = None /\
  sk_load_text json_decode_key 5 (sk_save_text json_encode_key witness_names) = Some witness_names /\
  sk_load_text json_decode_key 5 (sk_save_text json_encode_key witness_backslash) = Some witness_backslash.
Proof. exact raw_key_roundtrip_refuted. Qed.

Print Assumptions C14_text_roundtrip.
Print Assumptions C14_encode_key_injective.
Print Assumptions C14_json_key_codec_roundtrip.
Print Assumptions C14_text_roundtrip_json.
Print Assumptions C14_raw_key_refuted.
Print Assumptions C14_raw_key_roundtrip_refuted.
