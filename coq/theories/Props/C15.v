(** C15 -- clone() yields an equal, independent, identically behaving copy.
    Only property theorems, each closed by [exact] of a lemma of Ops/CloneProofs.v.
    Model (Ops/Clone.v, Ops/ClassTableSpec.v): an element is its class-table row plus one value per
    constructor-settable attribute; [clone_elem e] calls the constructor of e's class with one keyword per
    defining feature ([None] = TypeError); values are compared as data ([copy v = v]).
    NOT modelled: tensor storage identity (independence under later mutation) -- that clause of the
    property is established by the harness only (tested-only / partial). *)
From Coq Require Import List Bool String.
From Cheetah Require Import Ops.ClassTableSpec Ops.Json Ops.Clone Ops.CloneProofs.
Import ListNotations.
Open Scope string_scope.

Section C15.
Variables (V : Type) (dflt : cls_rec -> string -> V) (other : cls_rec -> list (string * V) -> string -> V).
Variable autoname : string.
Variable copy : V -> V.
Hypothesis copy_eq : forall v, copy v = v.    (* tensor.clone() / deepcopy carry the same data *)

(* every constructor-settable attribute (tracking method, number of steps, flags, grid settings ...) is equal:
   the clone IS the same class row with the same attribute list *)
Theorem C15_clone_equal : forall e : element V,
  class_ok (ecls e) = true -> required_passed (ecls e) = true ->
  (map fst (eattrs e) = settable (ecls e) /\ NoDup (map fst (eattrs e))) ->
  clone_elem V dflt other copy e = Some e.
Proof. exact (clone_equal V dflt other copy copy_eq). Qed.

(* ... and therefore behaves identically under ANY tracking function of the element *)
Theorem C15_clone_tracks_same : forall (B : Type) (track : element V -> B -> B) (e e' : element V) b,
  class_ok (ecls e) = true -> required_passed (ecls e) = true -> wf e ->
  clone_elem V dflt other copy e = Some e' -> track e' b = track e b.
Proof. exact (clone_tracks_same V dflt other copy copy_eq). Qed.

(* Segment.clone, any nesting *)
Theorem C15_clone_segment : forall t : tree (element V),
  (forall ne, In ne (payloads t) ->
     class_ok (ecls (snd ne)) = true /\ required_passed (ecls (snd ne)) = true /\ wf (snd ne) /\
     mem "name" (features (ecls (snd ne))) = true) ->
  clone_tree V dflt other autoname copy t = Some t.
Proof. exact (clone_segment V dflt other autoname copy copy_eq). Qed.

(* both beam types: every buffer is passed on *)
Theorem C15_clone_beam :
  (forall b : pbeam V, clone_pbeam V copy b = b) /\ (forall b : mbeam V, clone_mbeam V copy b = b).
Proof. exact (clone_beam V copy copy_eq). Qed.

(* what goes wrong for a class that is not class_ok, in general ... *)
Theorem C15_clone_drops : forall (e : element V) p v,
  subset (features (ecls e)) (ctor_params (ecls e)) = true -> required_passed (ecls e) = true ->
  In p (settable (ecls e)) -> mem p (features (ecls e)) = false ->
  alookup (eattrs e) p = Some v -> v <> dflt (ecls e) p ->
  exists e', clone_elem V dflt other copy e = Some e' /\ alookup (eattrs e') p = Some (dflt (ecls e) p) /\ e' <> e.
Proof. exact (clone_drops V dflt other copy). Qed.

Theorem C15_clone_raises : forall (e : element V) f,
  In f (features (ecls e)) -> f <> "name" -> mem f (ctor_params (ecls e)) = false ->
  clone_elem V dflt other copy e = None.
Proof. exact (clone_raises V dflt other copy). Qed.

(* ... and for the offending classes of the pinned tree (finding F12) *)
Theorem C15_clone_refuted_quadrupole_method : forall e v, ecls e = quadrupole_cls ->
  alookup (eattrs e) "tracking_method" = Some v -> v <> dflt quadrupole_cls "tracking_method" ->
  exists e', clone_elem V dflt other copy e = Some e' /\
    alookup (eattrs e') "tracking_method" = Some (dflt quadrupole_cls "tracking_method") /\ e' <> e.
Proof. exact (clone_refuted_quadrupole V dflt other copy). Qed.

Theorem C15_clone_refuted_quadrupole_steps : forall e v, ecls e = quadrupole_cls ->
  alookup (eattrs e) "num_steps" = Some v -> v <> dflt quadrupole_cls "num_steps" ->
  exists e', clone_elem V dflt other copy e = Some e' /\
    alookup (eattrs e') "num_steps" = Some (dflt quadrupole_cls "num_steps") /\ e' <> e.
Proof. exact (clone_refuted_quadrupole_steps V dflt other copy). Qed.

Theorem C15_clone_refuted_screen : forall e v, ecls e = screen_cls ->
  alookup (eattrs e) "is_blocking" = Some v -> v <> dflt screen_cls "is_blocking" ->
  exists e', clone_elem V dflt other copy e = Some e' /\
    alookup (eattrs e') "is_blocking" = Some (dflt screen_cls "is_blocking") /\ e' <> e.
Proof. exact (clone_refuted_screen V dflt other copy). Qed.

Theorem C15_clone_refuted_undulator : forall e v, ecls e = undulator_cls ->
  alookup (eattrs e) "is_active" = Some v -> v <> dflt undulator_cls "is_active" ->
  exists e', clone_elem V dflt other copy e = Some e' /\
    alookup (eattrs e') "is_active" = Some (dflt undulator_cls "is_active") /\ e' <> e.
Proof. exact (clone_refuted_undulator V dflt other copy). Qed.

Theorem C15_clone_spacecharge_raises : forall e, ecls e = spacechargekick_cls ->
  clone_elem V dflt other copy e = None.
Proof. exact (clone_spacecharge_raises V dflt other copy). Qed.
End C15.

(* non-vacuity: a Bmad-X drift (class_ok row) clones to itself; a Bmad-X quadrupole clones into a default one *)
Example C15_nonvacuous :
  let d := fun (_ : cls_rec) (p : string) => if String.eqb p "tracking_method" then "cheetah" else if String.eqb p "num_steps" then "1" else "-" in
  let o := fun (_ : cls_rec) (_ : list (string * string)) (_ : string) => "?" in
  clone_elem string d o (fun v => v) (mkel drift_cls [("length", "0.5"); ("tracking_method", "bmadx")])
    = Some (mkel drift_cls [("length", "0.5"); ("tracking_method", "bmadx")]) /\
  clone_elem string d o (fun v => v)
    (mkel quadrupole_cls [("length", "0.2"); ("k1", "1.0"); ("misalignment", "[0,0]"); ("tilt", "0"); ("num_steps", "5"); ("tracking_method", "bmadx")])
    = Some (mkel quadrupole_cls [("length", "0.2"); ("k1", "1.0"); ("misalignment", "[0,0]"); ("tilt", "0"); ("num_steps", "1"); ("tracking_method", "cheetah")]).
Proof. exact (conj eq_refl eq_refl). Qed.

Theorem C15_classes_ok_refuted :
  class_ok quadrupole_cls = false /\ class_ok screen_cls = false /\ class_ok undulator_cls = false /\
  class_ok spacechargekick_cls = false /\ class_ok drift_cls = true /\
  missing quadrupole_cls = ["num_steps"; "tracking_method"] /\ missing screen_cls = ["is_blocking"] /\
  missing undulator_cls = ["is_active"] /\ extra spacechargekick_cls = ["grid_shape"].
Proof. exact classes_ok_refuted. Qed.

Print Assumptions C15_clone_equal.
Print Assumptions C15_clone_tracks_same.
Print Assumptions C15_clone_segment.
Print Assumptions C15_clone_beam.
Print Assumptions C15_clone_drops.
Print Assumptions C15_clone_raises.
Print Assumptions C15_clone_refuted_quadrupole_method.
Print Assumptions C15_clone_refuted_quadrupole_steps.
Print Assumptions C15_clone_refuted_screen.
Print Assumptions C15_clone_refuted_undulator.
Print Assumptions C15_clone_spacecharge_raises.
Print Assumptions C15_nonvacuous.
Print Assumptions C15_classes_ok_refuted.

(* ================================================================ clone() after a HISTORY of assignments
   (added after seeded changes C15-3/-4).  Model: Ops/CloneHistory.v -- an object is its stored state, public attributes
   and properties are getter/setter views of it, clone() = constructor applied to the current values of the features. *)
From Coq Require Import ZArith.
From Cheetah Require Import Ops.CloneHistory Ops.CloneHistoryProofs.

(* generic: if the constructor rebuilds every (invariant-satisfying) state from the feature values read through the getters,
   then after ANY list of assignments the clone is the current state: no history can be told apart *)
Theorem C15_clone_after_history_generic :
  forall (S A V : Type) (get : A -> S -> V) (set : A -> V -> S -> S) (init : (A -> V) -> S) (copy : V -> V),
  (forall v, copy v = v) ->
  (forall k k' : A -> V, (forall a, k a = k' a) -> init k = init k') ->
  forall inv : S -> Prop,
  (forall a v s, inv s -> inv (set a v s)) ->
  (forall s, inv s -> init (fun f => get f s) = s) ->
  forall (ops : list (A * V)) (s : S), inv s ->
  init (fun f => copy (get f (fold_left (fun s op => set (fst op) (snd op) s) ops s)))
  = fold_left (fun s op => set (fst op) (snd op) s) ops s.
Proof. exact clone_after_history_gen. Qed.

(* every class of the class table that is class_ok: assignments to constructor-settable attributes, then clone *)
Theorem C15_clone_after_history :
  forall (V : Type) (dflt : cls_rec -> string -> V) (other : cls_rec -> list (string * V) -> string -> V) (copy : V -> V),
  (forall v, copy v = v) ->
  forall (ops : list (string * V)) (e : element V),
  class_ok (ecls e) = true -> required_passed (ecls e) = true ->
  (map fst (eattrs e) = settable (ecls e) /\ NoDup (map fst (eattrs e))) ->
  clone_elem V dflt other copy (fold_left (fun e op => mkel (ecls e) (aupdate V (eattrs e) (fst op) (snd op))) ops e)
  = Some (fold_left (fun e op => mkel (ecls e) (aupdate V (eattrs e) (fst op) (snd op))) ops e).
Proof. exact clone_after_history_elem. Qed.

(* ... in particular the clone carries the value assigned last *)
Theorem C15_clone_sees_last_assignment :
  forall (V : Type) (dflt : cls_rec -> string -> V) (other : cls_rec -> list (string * V) -> string -> V) (copy : V -> V),
  (forall v, copy v = v) ->
  forall (ops : list (string * V)) (e : element V) (p : string) (v : V) (e' : element V),
  class_ok (ecls e) = true -> required_passed (ecls e) = true -> wf e -> In p (settable (ecls e)) ->
  clone_elem V dflt other copy (run_elem V (ops ++ [(p, v)]) e) = Some e' -> alookup (eattrs e') p = Some v.
Proof. exact clone_sees_last_assignment. Qed.

(* RBend: stored angle, dipole_e1, dipole_e2; rbend_e = dipole_e - angle/2 is DERIVED (getter subtracts, setter and constructor
   add angle/2).  In exact arithmetic ((x - h) + h = x) the clone after any history of assignments through
   angle / dipole_e1 / dipole_e2 / rbend_e1 / rbend_e2 has the same stored state, hence the same value of all five attributes.
   (In floating point (x - h) + h is x up to one rounding: finding F80.) *)
Theorem C15_rbend_clone_after_history :
  forall (V : Type) (add sub : V -> V -> V) (half : V -> V) (copy : V -> V),
  (forall v, copy v = v) -> (forall x h, add (sub x h) h = x) ->
  forall (ops : list (battr * V)) (s : bend V),
  rbend_init V add half (fun f => copy (bget V sub half f (run (bend V) battr V (bset V add half) ops s)))
  = run (bend V) battr V (bset V add half) ops s.
Proof. exact rbend_clone_after_history. Qed.

Theorem C15_dipole_clone_after_history :
  forall (V : Type) (add sub : V -> V -> V) (half : V -> V) (copy : V -> V),
  (forall v, copy v = v) ->
  forall (ops : list (battr * V)) (s : bend V),
  dipole_init V (fun f => copy (bget V sub half f (run (bend V) battr V (bset V add half) ops s)))
  = run (bend V) battr V (bset V add half) ops s.
Proof. exact (fun V add sub half copy H => dipole_clone_after_history V add sub half copy H). Qed.

(* REFUTED for a class that stores a copy of a derived attribute (an RBend remembering rbend_e1/2 "as given"): fresh objects and
   objects changed through rbend_e1 clone correctly, but after ONE assignment to the underlying angle (resp. dipole_e1) the
   clone has a different dipole_e1 although the defining feature rbend_e1 compares equal *)
Theorem C15_cached_derived_attribute_refuted :
  (forall kw, hclone (cbend Z) battr Z (cget Z) (cbend_init Z Z.add zhalf) (fun v => v) (cbend_init Z Z.add zhalf kw)
              = cbend_init Z Z.add zhalf kw) /\
  (forall kw a', zhalf a' <> zhalf (kw Angle) ->
     let s := cset Z Z.add zhalf Angle a' (cbend_init Z Z.add zhalf kw) in
     let c := hclone (cbend Z) battr Z (cget Z) (cbend_init Z Z.add zhalf) (fun v => v) s in
     cget Z DipoleE1 c <> cget Z DipoleE1 s /\ cget Z RbendE1 c = cget Z RbendE1 s) /\
  (forall kw v, (v <> kw RbendE1 + zhalf (kw Angle))%Z ->
     let s := cset Z Z.add zhalf DipoleE1 v (cbend_init Z Z.add zhalf kw) in
     cget Z DipoleE1 (hclone (cbend Z) battr Z (cget Z) (cbend_init Z Z.add zhalf) (fun v => v) s) <> cget Z DipoleE1 s).
Proof. exact (conj cached_rbend_fresh_ok (conj cached_rbend_refuted_angle cached_rbend_refuted_dipole_e1)). Qed.

(* non-vacuity (units of 2^-10 rad): RBend(angle=200, rbend_e1=50); angle := 320.  The real class: dipole_e1 = 150 on both;
   the caching class: 150 on the original, 210 on the clone *)
Example C15_history_nonvacuous :
  (let kw := fun a => match a with Angle => 200 | RbendE1 => 50 | _ => 0 end in
   let s := run (bend Z) battr Z zset [(Angle, 320)] (rbend_init Z Z.add zhalf kw) in
   stored s = [320; 150; 100] /\
   stored (hclone (bend Z) battr Z zget (rbend_init Z Z.add zhalf) (fun v => v) s) = [320; 150; 100])%Z /\
  (let kw := fun a => match a with Angle => 200 | RbendE1 => 50 | _ => 0 end in
   cget Z DipoleE1 (run (cbend Z) battr Z (cset Z Z.add zhalf) [(Angle, 320)] (cbend_init Z Z.add zhalf kw)) = 150 /\
   cget Z DipoleE1 (hclone (cbend Z) battr Z (cget Z) (cbend_init Z Z.add zhalf) (fun v => v)
                      (run (cbend Z) battr Z (cset Z Z.add zhalf) [(Angle, 320)] (cbend_init Z Z.add zhalf kw))) = 210)%Z.
Proof. exact (conj rbend_witness cached_rbend_witness). Qed.

Print Assumptions C15_clone_after_history_generic.
Print Assumptions C15_clone_after_history.
Print Assumptions C15_clone_sees_last_assignment.
Print Assumptions C15_rbend_clone_after_history.
Print Assumptions C15_dipole_clone_after_history.
Print Assumptions C15_cached_derived_attribute_refuted.
Print Assumptions C15_history_nonvacuous.

(* ======================================================================================================================
   Round 5: "identical copy" also means that EQUAL OBJECTS STAY EQUAL UNDER EQUAL OPERATIONS.  The clone after a history
   equals the original in STATE (theorems above), so any later assignment list applied to both leaves them equal -- in state,
   in every observation and in tracking, after every step.  A clone that is only OBSERVABLY equal (every public attribute
   reads the same, the beam is treated the same) need not stay equal: refuted for a class whose constructor argument is read
   back through a getter that depends on another attribute (Ops/CloneHistoryStay.v; the shape of seeded change C15-6).
   ====================================================================================================================== *)
From Cheetah Require Import Ops.CloneHistoryStay Ops.CloneHistoryStayProofs.

(* generic: history [pre], clone, then the same assignments [post] on both *)
Theorem C15_clone_stays_equal_generic :
  forall (S A V : Type) (get : A -> S -> V) (set : A -> V -> S -> S) (init : (A -> V) -> S) (copy : V -> V),
  (forall v, copy v = v) ->
  (forall k k' : A -> V, (forall a, k a = k' a) -> init k = init k') ->
  forall inv : S -> Prop,
  (forall a v s, inv s -> inv (set a v s)) ->
  (forall s, inv s -> init (fun f => get f s) = s) ->
  forall (pre post : list (A * V)) (s : S), inv s ->
  fold_left (fun s op => set (fst op) (snd op) s) post
    (init (fun f => copy (get f (fold_left (fun s op => set (fst op) (snd op) s) pre s))))
  = fold_left (fun s op => set (fst op) (snd op) s) post (fold_left (fun s op => set (fst op) (snd op) s) pre s).
Proof. exact clone_stays_equal_gen. Qed.

(* ... hence equal observations and equal tracking after EVERY prefix of the later assignments *)
Theorem C15_clone_stays_equal_stepwise :
  forall (S A V : Type) (get : A -> S -> V) (set : A -> V -> S -> S) (init : (A -> V) -> S) (copy : V -> V),
  (forall v, copy v = v) ->
  (forall k k' : A -> V, (forall a, k a = k' a) -> init k = init k') ->
  forall inv : S -> Prop,
  (forall a v s, inv s -> inv (set a v s)) ->
  (forall s, inv s -> init (fun f => get f s) = s) ->
  forall (B : Type) (track : S -> B -> B) (pub : list A) (pre post : list (A * V)) (k : nat) (s : S), inv s ->
  map (fun a => get a (run S A V set (firstn k post) (hclone S A V get init copy (run S A V set pre s)))) pub
  = map (fun a => get a (run S A V set (firstn k post) (run S A V set pre s))) pub
  /\ forall b, track (run S A V set (firstn k post) (hclone S A V get init copy (run S A V set pre s))) b
               = track (run S A V set (firstn k post) (run S A V set pre s)) b.
Proof. exact clone_stays_equal_stepwise. Qed.

(* every class_ok class of the class table *)
Theorem C15_clone_stays_equal :
  forall (V : Type) (dflt : cls_rec -> string -> V) (other : cls_rec -> list (string * V) -> string -> V) (copy : V -> V),
  (forall v, copy v = v) ->
  forall (pre post : list (string * V)) (e c : element V),
  class_ok (ecls e) = true -> required_passed (ecls e) = true -> wf e ->
  clone_elem V dflt other copy (run_elem V pre e) = Some c ->
  run_elem V post c = run_elem V post (run_elem V pre e).
Proof. exact clone_stays_equal_elem. Qed.

(* two stored flags (cheetah's Screen: is_blocking, is_active are plain attributes): the clone is the state, whatever came before
   and whatever comes after *)
Theorem C15_plain_flags_stay_equal :
  forall (pre post : list (gattr * bool)) (s : gstate),
  run gstate gattr bool gset post (hclone gstate gattr bool pget ginit (fun v => v) (run gstate gattr bool gset pre s))
  = run gstate gattr bool gset post (run gstate gattr bool gset pre s).
Proof. exact plain_stays_equal. Qed.

(* REFUTED for the gated getter  blocking = property(_blocking and active):  the clone of (blocking, not active) reads equal on
   every public attribute and treats the beam alike, is a different state, and after the SAME assignment active := True on both
   the original blocks the beam and the clone does not *)
Theorem C15_gated_getter_refuted :
  let s := mkg true false in
  let c := hclone gstate gattr bool gget ginit (fun v => v) s in
  map (fun a => gget a c) [Blocking; Active] = map (fun a => gget a s) [Blocking; Active] /\ stops c = stops s
  /\ c <> s
  /\ gget Blocking (run gstate gattr bool gset [(Active, true)] s) = true
  /\ gget Blocking (run gstate gattr bool gset [(Active, true)] c) = false
  /\ stops (run gstate gattr bool gset [(Active, true)] s) = true
  /\ stops (run gstate gattr bool gset [(Active, true)] c) = false.
Proof. exact gated_refuted. Qed.

(* exactly which states of the gated class clone faithfully: all but (blocking, not active) *)
Theorem C15_gated_getter_stays_equal_iff :
  forall s : gstate,
  (forall post, map (fun a => gget a (run gstate gattr bool gset post (hclone gstate gattr bool gget ginit (fun v => v) s))) [Blocking; Active]
                = map (fun a => gget a (run gstate gattr bool gset post s)) [Blocking; Active])
  <-> (g_blocking s = false \/ g_active s = true).
Proof. exact gated_stays_equal_iff. Qed.

(* non-vacuity: the plain class on the witness history keeps blocking *)
Example C15_stays_equal_nonvacuous :
  let s := mkg true false in
  pget Blocking (run gstate gattr bool gset [(Active, true)] (hclone gstate gattr bool pget ginit (fun v => v) s)) = true
  /\ stops (run gstate gattr bool gset [(Active, true)] (hclone gstate gattr bool pget ginit (fun v => v) s)) = true.
Proof. exact plain_witness. Qed.

Print Assumptions C15_clone_stays_equal_generic.
Print Assumptions C15_clone_stays_equal_stepwise.
Print Assumptions C15_clone_stays_equal.
Print Assumptions C15_plain_flags_stay_equal.
Print Assumptions C15_gated_getter_refuted.
Print Assumptions C15_gated_getter_stays_equal_iff.
Print Assumptions C15_stays_equal_nonvacuous.
