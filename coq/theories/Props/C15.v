(** C15 -- clone() yields an equal, independent, identically behaving copy.
    Only property theorems, each closed by [exact] of a lemma of Ops/CloneProofs.v.
    Model (Ops/Clone.v, Ops/ClassTableSpec.v): an element is its class-table row plus one value per
    constructor-settable attribute; [clone_elem e] calls the constructor of e's class with one keyword per
    defining feature ([None] = TypeError); values are compared as data ([copy v = v]).
    NOT modelled: tensor storage identity (independence under later mutation) -- that clause of the
    property is established by the harness only (tested-only / partial). *)
From Coq Require Import List Bool String.
From Cheetah Require Import Ops.ClassTableSpec Ops.Json Ops.Clone Ops.CloneProofs.
Import ListNotations.
Open Scope string_scope.

Section C15.
Variables (V : Type) (dflt : cls_rec -> string -> V) (other : cls_rec -> list (string * V) -> string -> V).
Variable autoname : string.
Variable copy : V -> V.
Hypothesis copy_eq : forall v, copy v = v.    (* tensor.clone() / deepcopy carry the same data *)

(* every constructor-settable attribute (tracking method, number of steps, flags, grid settings ...) is equal:
   the clone IS the same class row with the same attribute list *)
Theorem C15_clone_equal : forall e : element V,
  class_ok (ecls e) = true -> required_passed (ecls e) = true ->
  (map fst (eattrs e) = settable (ecls e) /\ NoDup (map fst (eattrs e))) ->
  clone_elem V dflt other copy e = Some e.
Proof. exact (clone_equal V dflt other copy copy_eq). Qed.

(* ... and therefore behaves identically under ANY tracking function of the element *)
Theorem C15_clone_tracks_same : forall (B : Type) (track : element V -> B -> B) (e e' : element V) b,
  class_ok (ecls e) = true -> required_passed (ecls e) = true -> wf e ->
  clone_elem V dflt other copy e = Some e' -> track e' b = track e b.
Proof. exact (clone_tracks_same V dflt other copy copy_eq). Qed.

(* Segment.clone, any nesting *)
Theorem C15_clone_segment : forall t : tree (element V),
  (forall ne, In ne (payloads t) ->
     class_ok (ecls (snd ne)) = true /\ required_passed (ecls (snd ne)) = true /\ wf (snd ne) /\
     mem "name" (features (ecls (snd ne))) = true) ->
  clone_tree V dflt other autoname copy t = Some t.
Proof. exact (clone_segment V dflt other autoname copy copy_eq). Qed.

(* both beam types: every buffer is passed on *)
Theorem C15_clone_beam :
  (forall b : pbeam V, clone_pbeam V copy b = b) /\ (forall b : mbeam V, clone_mbeam V copy b = b).
Proof. exact (clone_beam V copy copy_eq). Qed.

(* what goes wrong for a class that is not class_ok, in general ... *)
Theorem C15_clone_drops : forall (e : element V) p v,
  subset (features (ecls e)) (ctor_params (ecls e)) = true -> required_passed (ecls e) = true ->
  In p (settable (ecls e)) -> mem p (features (ecls e)) = false ->
  alookup (eattrs e) p = Some v -> v <> dflt (ecls e) p ->
  exists e', clone_elem V dflt other copy e = Some e' /\ alookup (eattrs e') p = Some (dflt (ecls e) p) /\ e' <> e.
Proof. exact (clone_drops V dflt other copy). Qed.

Theorem C15_clone_raises : forall (e : element V) f,
  In f (features (ecls e)) -> f <> "name" -> mem f (ctor_params (ecls e)) = false ->
  clone_elem V dflt other copy e = None.
Proof. exact (clone_raises V dflt other copy). Qed.

(* ... and for the offending classes of the pinned tree (finding F12) *)
Theorem C15_clone_refuted_quadrupole_method : forall e v, ecls e = quadrupole_cls ->
  alookup (eattrs e) "tracking_method" = Some v -> v <> dflt quadrupole_cls "tracking_method" ->
  exists e', clone_elem V dflt other copy e = Some e' /\
    alookup (eattrs e') "tracking_method" = Some (dflt quadrupole_cls "tracking_method") /\ e' <> e.
Proof. exact (clone_refuted_quadrupole V dflt other copy). Qed.

Theorem C15_clone_refuted_quadrupole_steps : forall e v, ecls e = quadrupole_cls ->
  alookup (eattrs e) "num_steps" = Some v -> v <> dflt quadrupole_cls "num_steps" ->
  exists e', clone_elem V dflt other copy e = Some e' /\
    alookup (eattrs e') "num_steps" = Some (dflt quadrupole_cls "num_steps") /\ e' <> e.
Proof. exact (clone_refuted_quadrupole_steps V dflt other copy). Qed.

Theorem C15_clone_refuted_screen : forall e v, ecls e = screen_cls ->
  alookup (eattrs e) "is_blocking" = Some v -> v <> dflt screen_cls "is_blocking" ->
  exists e', clone_elem V dflt other copy e = Some e' /\
    alookup (eattrs e') "is_blocking" = Some (dflt screen_cls "is_blocking") /\ e' <> e.
Proof. exact (clone_refuted_screen V dflt other copy). Qed.

Theorem C15_clone_refuted_undulator : forall e v, ecls e = undulator_cls ->
  alookup (eattrs e) "is_active" = Some v -> v <> dflt undulator_cls "is_active" ->
  exists e', clone_elem V dflt other copy e = Some e' /\
    alookup (eattrs e') "is_active" = Some (dflt undulator_cls "is_active") /\ e' <> e.
Proof. exact (clone_refuted_undulator V dflt other copy). Qed.

Theorem C15_clone_spacecharge_raises : forall e, ecls e = spacechargekick_cls ->
  clone_elem V dflt other copy e = None.
Proof. exact (clone_spacecharge_raises V dflt other copy). Qed.
End C15.

(* non-vacuity: a Bmad-X drift (class_ok row) clones to itself; a Bmad-X quadrupole clones into a default one *)
Example C15_nonvacuous :
  let d := fun (_ : cls_rec) (p : string) => if String.eqb p "tracking_method" then "cheetah" else if String.eqb p "num_steps" then "1" else "-" in
  let o := fun (_ : cls_rec) (_ : list (string * string)) (_ : string) => "?" in
  clone_elem string d o (fun v => v) (mkel drift_cls [("length", "0.5"); ("tracking_method", "bmadx")])
    = Some (mkel drift_cls [("length", "0.5"); ("tracking_method", "bmadx")]) /\
  clone_elem string d o (fun v => v)
    (mkel quadrupole_cls [("length", "0.2"); ("k1", "1.0"); ("misalignment", "[0,0]"); ("tilt", "0"); ("num_steps", "5"); ("tracking_method", "bmadx")])
    = Some (mkel quadrupole_cls [("length", "0.2"); ("k1", "1.0"); ("misalignment", "[0,0]"); ("tilt", "0"); ("num_steps", "1"); ("tracking_method", "cheetah")]).
Proof. exact (conj eq_refl eq_refl). Qed.

Theorem C15_classes_ok_refuted :
  class_ok quadrupole_cls = false /\ class_ok screen_cls = false /\ class_ok undulator_cls = false /\
  class_ok spacechargekick_cls = false /\ class_ok drift_cls = true /\
  missing quadrupole_cls = ["num_steps"; "tracking_method"] /\ missing screen_cls = ["is_blocking"] /\
  missing undulator_cls = ["is_active"] /\ extra spacechargekick_cls = ["grid_shape"].
Proof. exact classes_ok_refuted. Qed.

Print Assumptions C15_clone_equal.
Print Assumptions C15_clone_tracks_same.
Print Assumptions C15_clone_segment.
Print Assumptions C15_clone_beam.
Print Assumptions C15_clone_drops.
Print Assumptions C15_clone_raises.
Print Assumptions C15_clone_refuted_quadrupole_method.
Print Assumptions C15_clone_refuted_quadrupole_steps.
Print Assumptions C15_clone_refuted_screen.
Print Assumptions C15_clone_refuted_undulator.
Print Assumptions C15_clone_spacecharge_raises.
Print Assumptions C15_nonvacuous.
Print Assumptions C15_classes_ok_refuted.
