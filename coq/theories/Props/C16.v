(** C16 -- Splitting an element preserves its length and its action.
    Only property theorems live here: each is closed by [exact] of a lemma proved elsewhere
    and followed by [Print Assumptions]. *)
From Coq Require Import List String ZArith QArith Qround Reals.
From Cheetah Require Import Base.Mat Optics.Maps Lattice.Split Lattice.SplitProofs.
Import ListNotations.

(** ---- lengths, counts, angles: exact, over the rationals (num_splits = ceil(length/resolution)) *)
Open Scope Q_scope.

(* the pieces' lengths add up to the length, for every element and every nesting of segments
   (length 0: no pieces at all) *)
Theorem C16_split_sum : forall (res : Q) (e : sel), 0 < res -> nonneg e ->
  fold_right (fun p a => slen p + a) 0 (split res e) == slen e.
Proof. exact split_sum. Qed.

(* no piece of a Drift / Quadrupole / corrector is longer than the resolution *)
Theorem C16_split_bound : forall (res : Q) (e : sel), 0 < res -> nonneg e ->
  Forall (fun p => splittable p = true -> slen p <= res) (split res e).
Proof. exact split_bound. Qed.

(* the count is minimal: one piece fewer would make the pieces longer than the resolution *)
Theorem C16_split_count_minimal : forall (res L : Q), 0 < res -> 0 < L ->
  (0 < nsplit L res)%nat /\ (inject_Z (Z.of_nat (nsplit L res)) - 1) * res < L.
Proof. exact split_count_minimal. Qed.

(* resolution >= length: one piece of the same length *)
Theorem C16_split_coarse : forall (res L : Q) (m : string), 0 < L -> L <= res ->
  exists L', split res (SDrift L m) = [SDrift L' m] /\ L' == L.
Proof. exact split_coarse. Qed.

(* vectorised lengths: count from the longest entry; every entry within the resolution, sums exact *)
Theorem C16_vectorised : forall (res Lmax L : Q), 0 < res -> 0 < Lmax -> L <= Lmax ->
  L / inject_Z (Z.of_nat (nsplit Lmax res)) <= res /\
  inject_Z (Z.of_nat (nsplit Lmax res)) * (L / inject_Z (Z.of_nat (nsplit Lmax res))) == L.
Proof. exact (fun res Lmax L Hr Hm Hle => conj (vsplit_bound res Lmax L Hr Hm Hle) (vsplit_sum res Lmax L Hr Hm)). Qed.

(* correctors: the angles of the pieces add up to the angle, if the corrector has a length *)
Theorem C16_corrector_split_angle : forall (res L a : Q), 0 < res -> 0 < L ->
  fold_right (fun p s => sangle p + s) 0 (split res (SHCor L a)) == a /\
  fold_right (fun p s => sangle p + s) 0 (split res (SVCor L a)) == a.
Proof. exact corrector_split_angle. Qed.

(* ... but a zero-length (thin) corrector is split into NO pieces: its deflection is lost *)
Theorem C16_corrector_split_angle_refuted : forall (res a : Q), ~ a == 0 ->
  split res (SHCor 0 a) = [] /\ split res (SVCor 0 a) = [] /\
  ~ fold_right (fun p s => sangle p + s) 0 (split res (SHCor 0 a)) == a.
Proof. exact corrector_split_angle_refuted. Qed.

Theorem C16_quad_pieces_keep_attributes : forall res L k1 mx my t s m,
  Forall (fun p => exists L', p = SQuad L' k1 mx my t s m) (split res (SQuad L k1 mx my t s m)).
Proof. exact quad_pieces_keep_attributes. Qed.

Theorem C16_unsplittable_identity : forall res cls L, split res (SOther cls L) = [SOther cls L].
Proof. exact unsplittable_identity. Qed.

Theorem C16_segment_split_concat : forall res e es1 es2,
  split res (SSeg (e :: es1)) = split res e ++ split res (SSeg es1) /\
  split res (SSeg (es1 ++ es2)) = split res (SSeg es1) ++ split res (SSeg es2).
Proof. exact (fun res e es1 es2 => conj (segment_split_cons res e es1) (segment_split_concat res es1 es2)). Qed.
Close Scope Q_scope.

(** ---- action: over the reals, for the linear maps transcribed in Optics/Maps.v *)
Open Scope R_scope.

(* n Drift pieces of length L/n tracked in turn = the Drift of length L, for every energy *)
Theorem C16_drift_split_track : forall (L E : R) (n : nat), n <> O ->
  mpow (drift_map (L / INR n) E) n = drift_map L E.
Proof. exact drift_split_track. Qed.

(* n Quadrupole pieces (same k1, misalignment, tilt) tracked in turn = the whole Quadrupole,
   for every strength (focusing, defocusing, k1 = 0 with its 1e-12 guard), tilt, misalignment, energy *)
Theorem C16_quad_split_track : forall (L k1 mx my tilt E : R) (n : nat), n <> O ->
  mpow (quad_map (L / INR n) k1 mx my tilt E) n = quad_map L k1 mx my tilt E.
Proof. exact quad_split_track. Qed.

(* [mpow A n] is what tracking through n identical pieces in sequence applies to a particle *)
Theorem C16_pieces_in_sequence : forall (A : M7 R) (n : nat) (v : V7 R),
  fold_left (fun v M => rmvec M v) (repeat A n) v = rmvec (mpow A n) v.
Proof. exact track_repeat. Qed.

(* non-vacuity: 0.7 m at resolution 0.25 m gives three pieces of 7/30 m *)
Open Scope Q_scope.
Example C16_nonvacuous :
  split (1#4) (SSeg [SDrift (7#10) "cheetah"; SOther "Marker" 0; SHCor (1#2) (1#100)])
  = [SDrift ((7#10) / 3) "cheetah"; SDrift ((7#10) / 3) "cheetah"; SDrift ((7#10) / 3) "cheetah"; SOther "Marker" 0;
     SHCor ((1#2) / 2) ((1#100) / 2); SHCor ((1#2) / 2) ((1#100) / 2)].
Proof. vm_compute. reflexivity. Qed.

Print Assumptions C16_split_sum.
Print Assumptions C16_split_bound.
Print Assumptions C16_split_count_minimal.
Print Assumptions C16_split_coarse.
Print Assumptions C16_vectorised.
Print Assumptions C16_corrector_split_angle.
Print Assumptions C16_corrector_split_angle_refuted.
Print Assumptions C16_quad_pieces_keep_attributes.
Print Assumptions C16_unsplittable_identity.
Print Assumptions C16_segment_split_concat.
Print Assumptions C16_drift_split_track.
Print Assumptions C16_quad_split_track.
Print Assumptions C16_pieces_in_sequence.
Print Assumptions C16_nonvacuous.

(** ---- finding F29 repaired: [split_fixed] is the model of the code in which HorizontalCorrector.split /
    VerticalCorrector.split return [self] when num_splits < 1 (a zero-length corrector cannot be split).  [split] above stays
    the model of the code as it was; which one is the faithful model is decided by the status of F29 in known_findings.json. *)

(* the angles of the pieces add up to the angle for EVERY length (incl. 0) and every resolution: no hypothesis is left *)
Theorem C16_corrector_split_angle_fixed : forall (res L a : Q),
  fold_right (fun p s => sangle p + s) 0 (split_fixed res (SHCor L a)) == a /\
  fold_right (fun p s => sangle p + s) 0 (split_fixed res (SVCor L a)) == a.
Proof. exact corrector_split_angle_fixed. Qed.

(* a corrector never splits into nothing; the thin one is returned as it is *)
Theorem C16_split_nonempty_fixed : forall (res L a : Q),
  split_fixed res (SHCor L a) <> [] /\ split_fixed res (SVCor L a) <> [].
Proof. exact split_nonempty_fixed. Qed.

Theorem C16_thin_corrector_split_fixed : forall (res a : Q),
  split_fixed res (SHCor 0 a) = [SHCor 0 a] /\ split_fixed res (SVCor 0 a) = [SVCor 0 a].
Proof. exact thin_corrector_split_fixed. Qed.

(* Segment.split never loses a kick: over every nesting of segments the angles of all pieces add up to the total angle set
   on the correctors, for all lengths and resolutions ... *)
Theorem C16_split_fixed_total_angle : forall (res : Q) (e : sel),
  fold_right (fun p s => sangle p + s) 0 (split_fixed res e) == tot_angle e.
Proof. exact split_fixed_total_angle. Qed.

(* ... which the code before the repair did not achieve *)
Theorem C16_split_total_angle_refuted : forall (res : Q) (m : string) (a : Q), 0 < res -> ~ a == 0 ->
  ~ fold_right (fun p s => sangle p + s) 0 (split res (SSeg [SDrift 1 m; SHCor 0 a])) == tot_angle (SSeg [SDrift 1 m; SHCor 0 a]).
Proof. exact split_total_angle_refuted. Qed.

(* lengths add up and no piece is longer than the resolution, as before (the kept thin corrector has length 0) *)
Theorem C16_split_sum_fixed : forall (res : Q) (e : sel), 0 < res -> nonneg e ->
  fold_right (fun p a => slen p + a) 0 (split_fixed res e) == slen e.
Proof. exact split_fixed_sum. Qed.

Theorem C16_split_bound_fixed : forall (res : Q) (e : sel), 0 < res -> nonneg e ->
  Forall (fun p => splittable p = true -> slen p <= res) (split_fixed res e).
Proof. exact split_fixed_bound. Qed.

(* where every corrector has a length (cor_pos) the repair changes nothing: every theorem about [split] carries over *)
Theorem C16_split_fixed_eq_split : forall (res : Q) (e : sel), 0 < res -> cor_pos e -> split_fixed res e = split res e.
Proof. exact split_fixed_eq_split. Qed.

Theorem C16_segment_split_concat_fixed : forall res e es1 es2,
  split_fixed res (SSeg (e :: es1)) = split_fixed res e ++ split_fixed res (SSeg es1) /\
  split_fixed res (SSeg (es1 ++ es2)) = split_fixed res (SSeg es1) ++ split_fixed res (SSeg es2).
Proof. exact (fun res e es1 es2 => conj (segment_split_fixed_cons res e es1) (segment_split_fixed_concat res es1 es2)). Qed.

(* non-vacuity: a zero-length drift still gives no piece, the thin corrector is kept, the thick one is split *)
Example C16_nonvacuous_fixed :
  split_fixed (1#4) (SSeg [SDrift 0 "cheetah"; SHCor 0 (1#100); SVCor (1#2) (1#100)])
  = [SHCor 0 (1#100); SVCor ((1#2) / 2) ((1#100) / 2); SVCor ((1#2) / 2) ((1#100) / 2)]
  /\ split (1#4) (SSeg [SDrift 0 "cheetah"; SHCor 0 (1#100); SVCor (1#2) (1#100)])
  = [SVCor ((1#2) / 2) ((1#100) / 2); SVCor ((1#2) / 2) ((1#100) / 2)].
Proof. vm_compute. split; reflexivity. Qed.

Print Assumptions C16_corrector_split_angle_fixed.
Print Assumptions C16_split_nonempty_fixed.
Print Assumptions C16_thin_corrector_split_fixed.
Print Assumptions C16_split_fixed_total_angle.
Print Assumptions C16_split_total_angle_refuted.
Print Assumptions C16_split_sum_fixed.
Print Assumptions C16_split_bound_fixed.
Print Assumptions C16_split_fixed_eq_split.
Print Assumptions C16_segment_split_concat_fixed.
Print Assumptions C16_nonvacuous_fixed.

(** ---- the ACTION of whatever split() returns, for every class (added after seeded change C16-5; Lattice/SplitActionProofs.v).
    For the classes the model does not slice (Dipole, RBend, Solenoid, Cavity, TransverseDeflectingCavity, Undulator, Marker,
    BPM, Screen, Aperture, SpaceChargeKick, CustomTransferMap: [SOther]) split returns the element itself, so tracking the
    pieces in turn IS tracking the element, for any tracking function; that the running code agrees on WHICH classes these are
    is checked on every run (Lattice/SplitClasses.c16_class_check). *)
From Cheetah Require Import Lattice.SplitClasses Lattice.SplitActionProofs.

Theorem C16_unsplittable_track : forall (B : Type) (trk : sel -> B -> B) (res : Q) (c : string) (L : Q) (b : B),
  fold_left (fun b p => trk p b) (split_fixed res (SOther c L)) b = trk (SOther c L) b /\
  fold_left (fun b p => trk p b) (split res (SOther c L)) b = trk (SOther c L) b.
Proof. exact unsplittable_track. Qed.

(* the class-level correspondence checker accepts a Dipole returned as it is and rejects one sliced into drifts *)
Example C16_class_check_nonvacuous :
  c16_class_check (mkc16c "Dipole" (1#2) (1#10) 0 true [("Dipole"%string, 1#2)]) = true /\
  c16_class_check (mkc16c "Dipole" (1#2) (1#10) 0 false
     [("Drift"%string, 1#10); ("Drift"%string, 1#10); ("Drift"%string, 1#10); ("Drift"%string, 1#10); ("Drift"%string, 1#10)]) = false /\
  c16_class_check (mkc16c "Drift" (1#2) (1#4) 0 false [("Drift"%string, 1#4); ("Drift"%string, 1#4)]) = true.
Proof. vm_compute. repeat split; reflexivity. Qed.

Close Scope Q_scope.
Open Scope R_scope.

(* n drift slices of total length L act like one drift of length L ... *)
Theorem C16_drift_slices_track : forall (L E : R) (n : nat) (v : V7 R), n <> O ->
  fold_left (fun v M => rmvec M v) (repeat (drift_map (L / INR n) E) n) v = rmvec (drift_map L E) v.
Proof. exact drift_slices_track. Qed.

(* ... so replacing an element (map M) by drift slices of the same total length preserves tracking ONLY IF M acts as the drift map *)
Theorem C16_drift_replacement_only_if_drift_map : forall (M : M7 R) (L E : R) (n : nat), n <> O ->
  (forall v, fold_left (fun v A => rmvec A v) (repeat (drift_map (L / INR n) E) n) v = rmvec M v) ->
  forall v, rmvec M v = rmvec (drift_map L E) v.
Proof. exact drift_replacement_only_if_drift_map. Qed.

(* a dipole whose bending angle is switched off is NOT a drift when it has a gradient: with angle = 0 and no tilt its map is
   base_rmatrix with its k1 (pole-face angles, gap and fringe integrals drop out) ... *)
Theorem C16_dip_map_angle0 : forall L k1 e1 e2 gap fint fint_exit E : R, L <> 0 ->
  dip_map L 0 k1 e1 e2 0 gap fint fint_exit E = base_untilted L k1 0 E.
Proof. exact dip_map_angle0. Qed.

(* ... which kicks a unit x-offset (R21 = -sqrt(k1) sin(sqrt(k1) L) <> 0), while a drift does not *)
Theorem C16_gradient_dipole_not_drift_refuted : forall L k1 e1 e2 gap fint fint_exit E : R,
  0 < k1 -> 0 < L -> sqrt k1 * L < PI ->
  rmvec (dip_map L 0 k1 e1 e2 0 gap fint fint_exit E) (mk7 1 0 0 0 0 0 0) <> rmvec (drift_map L E) (mk7 1 0 0 0 0 0 0).
Proof. exact gradient_dipole_not_drift. Qed.

(* hence slicing a switched-off gradient dipole into drifts (seeded change C16-5) changes the tracking result *)
Theorem C16_gradient_dipole_split_into_drifts_refuted : forall (L k1 e1 e2 gap fint fint_exit E : R) (n : nat),
  n <> O -> 0 < k1 -> 0 < L -> sqrt k1 * L < PI ->
  ~ (forall v, fold_left (fun v A => rmvec A v) (repeat (drift_map (L / INR n) E) n) v
               = rmvec (dip_map L 0 k1 e1 e2 0 gap fint fint_exit E) v).
Proof. exact gradient_dipole_split_into_drifts_refuted. Qed.

(* non-vacuity: length 1/2, k1 = 3, five slices *)
Example C16_gradient_dipole_instance : forall e1 e2 gap fint fint_exit E : R,
  ~ (forall v, fold_left (fun v A => rmvec A v) (repeat (drift_map (/ 2 / INR 5) E) 5) v
               = rmvec (dip_map (/ 2) 0 3 e1 e2 0 gap fint fint_exit E) v).
Proof. exact gradient_dipole_instance. Qed.

Print Assumptions C16_unsplittable_track.
Print Assumptions C16_drift_slices_track.
Print Assumptions C16_drift_replacement_only_if_drift_map.
Print Assumptions C16_dip_map_angle0.
Print Assumptions C16_gradient_dipole_not_drift_refuted.
Print Assumptions C16_gradient_dipole_split_into_drifts_refuted.
Print Assumptions C16_gradient_dipole_instance.
Print Assumptions C16_class_check_nonvacuous.
