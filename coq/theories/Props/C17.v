(** C17 -- Beam moments and Twiss parameters are mutually consistent.
    Only property theorems live here: each is closed by [exact] of a lemma proved elsewhere
    and followed by [Print Assumptions].  [tiny] is torch.finfo(dtype).tiny (any positive real). *)
From Coq Require Import Reals List Permutation.
From Cheetah Require Import Beam.Twiss Beam.TwissProofs Beam.WStats Beam.WStatsProofs.
Import ListNotations.
Open Scope R_scope.

Section C17.
Variable tiny : R.
Hypothesis tiny_pos : 0 < tiny.

(* emittance = sqrt(clamp_min(sigma_x^2 sigma_px^2 - sigma_xpx^2, tiny)) >= 0 for every beam *)
Theorem C17_emit_nonneg : forall sx spx sxpx, 0 <= sqrt (Rmax (sx ^ 2 * spx ^ 2 - sxpx ^ 2) tiny).
Proof. exact (emit_nonneg tiny tiny_pos). Qed.

(* beta = sigma_x^2 / emittance > 0 for every non-degenerate beam (D > tiny) *)
Theorem C17_beta_pos : forall sx spx sxpx, tiny < sx ^ 2 * spx ^ 2 - sxpx ^ 2 ->
  0 < sx ^ 2 / sqrt (Rmax (sx ^ 2 * spx ^ 2 - sxpx ^ 2) tiny).
Proof. exact (beta_pos tiny tiny_pos). Qed.

(* beta * gamma - alpha^2 = 1 with gamma = sigma_px^2 / emittance, for every non-degenerate beam *)
Theorem C17_twiss_identity : forall sx spx sxpx, tiny <= sx ^ 2 * spx ^ 2 - sxpx ^ 2 ->
  let eps := sqrt (Rmax (sx ^ 2 * spx ^ 2 - sxpx ^ 2) tiny) in
  (sx ^ 2 / eps) * (spx ^ 2 / eps) - (- sxpx / eps) ^ 2 = 1.
Proof. exact (twiss_identity tiny tiny_pos). Qed.

(* limit of the statement (F19): in the clamped regime the identity gives D/tiny <> 1 *)
Theorem C17_twiss_identity_clamped_refuted : forall sx spx sxpx, sx ^ 2 * spx ^ 2 - sxpx ^ 2 < tiny ->
  let eps := sqrt (Rmax (sx ^ 2 * spx ^ 2 - sxpx ^ 2) tiny) in
  (sx ^ 2 / eps) * (spx ^ 2 / eps) - (- sxpx / eps) ^ 2 = (sx ^ 2 * spx ^ 2 - sxpx ^ 2) / tiny /\
  (sx ^ 2 * spx ^ 2 - sxpx ^ 2) / tiny <> 1.
Proof. exact (twiss_identity_clamped_refuted tiny tiny_pos). Qed.

(* ParameterBeam (sigma getters clamp variances at 1e-20): all three clauses from the covariance entries *)
Theorem C17_param_beam : forall c00 c01 c11, 1e-20 <= c00 -> 1e-20 <= c11 -> tiny <= c00 * c11 - c01 ^ 2 ->
  pbeta tiny c00 c01 c11 * pgamma tiny c00 c01 c11 - palpha tiny c00 c01 c11 ^ 2 = 1 /\
  0 < pbeta tiny c00 c01 c11 /\ 0 <= pemittance tiny c00 c01 c11.
Proof. exact (twiss_identity_param tiny tiny_pos). Qed.

(* ParameterBeam.from_twiss then the getters: exactly the same emittance, beta, alpha *)
Theorem C17_from_twiss_roundtrip_param : forall beta alpha eps, 0 < beta -> 0 < eps ->
  1e-20 <= eps * beta -> 1e-20 <= eps * (1 + alpha ^ 2) / beta -> tiny <= eps ^ 2 ->
  let c00 := (sqrt (eps * beta)) ^ 2 in            (* cov[0,0] = sigma_x^2 *)
  let c01 := - eps * alpha in                      (* cov[0,1] = cor_x *)
  let c11 := (sqrt (eps * (1 + alpha ^ 2) / beta)) ^ 2 in
  pemittance tiny c00 c01 c11 = eps /\ pbeta tiny c00 c01 c11 = beta /\ palpha tiny c00 c01 c11 = alpha.
Proof. exact (from_twiss_roundtrip_param tiny). Qed.

(* Twiss transport through any 2x2 block of determinant 1: the standard 3x3 law; emittance invariant *)
Theorem C17_twiss_transport : forall a b c d, a * d - b * c = 1 ->
  forall s11 s12 s22, 0 <= s11 -> 0 <= s22 -> tiny <= s11 * s22 - s12 ^ 2 ->
  let B := tbeta tiny (sqrt s11) (sqrt s22) s12 in
  let Al := talpha tiny (sqrt s11) (sqrt s22) s12 in
  let G := tgamma tiny (sqrt s11) (sqrt s22) s12 in
  let s11' := a * a * s11 + 2 * a * b * s12 + b * b * s22 in
  let s12' := a * c * s11 + (a * d + b * c) * s12 + b * d * s22 in
  let s22' := c * c * s11 + 2 * c * d * s12 + d * d * s22 in
  tbeta tiny (sqrt s11') (sqrt s22') s12' = a * a * B - 2 * a * b * Al + b * b * G /\
  talpha tiny (sqrt s11') (sqrt s22') s12' = - a * c * B + (a * d + b * c) * Al - b * d * G /\
  tgamma tiny (sqrt s11') (sqrt s22') s12' = c * c * B - 2 * c * d * Al + d * d * G /\
  emittance tiny (sqrt s11') (sqrt s22') s12' = emittance tiny (sqrt s11) (sqrt s22) s12.
Proof. exact (twiss_transport tiny tiny_pos). Qed.

Theorem C17_twiss_transport_drift : forall L s11 s12 s22, 0 <= s11 -> 0 <= s22 -> tiny <= s11 * s22 - s12 ^ 2 ->
  let B := tbeta tiny (sqrt s11) (sqrt s22) s12 in
  let Al := talpha tiny (sqrt s11) (sqrt s22) s12 in
  let G := tgamma tiny (sqrt s11) (sqrt s22) s12 in
  let s11' := tr11 1 L s11 s12 s22 in let s12' := tr12 1 L 0 1 s11 s12 s22 in let s22' := tr22 0 1 s11 s12 s22 in
  tbeta tiny (sqrt s11') (sqrt s22') s12' = B - 2 * L * Al + L * L * G /\
  talpha tiny (sqrt s11') (sqrt s22') s12' = Al - L * G /\
  tgamma tiny (sqrt s11') (sqrt s22') s12' = G.
Proof. exact (twiss_transport_drift tiny tiny_pos). Qed.

Theorem C17_twiss_transport_quad : forall C S k s11 s12 s22, C * C + k * S * S = 1 ->
  0 <= s11 -> 0 <= s22 -> tiny <= s11 * s22 - s12 ^ 2 ->
  let B := tbeta tiny (sqrt s11) (sqrt s22) s12 in
  let Al := talpha tiny (sqrt s11) (sqrt s22) s12 in
  let G := tgamma tiny (sqrt s11) (sqrt s22) s12 in
  let s11' := tr11 C S s11 s12 s22 in let s12' := tr12 C S (- k * S) C s11 s12 s22 in let s22' := tr22 (- k * S) C s11 s12 s22 in
  tbeta tiny (sqrt s11') (sqrt s22') s12' = C * C * B - 2 * C * S * Al + S * S * G /\
  talpha tiny (sqrt s11') (sqrt s22') s12' = k * C * S * B + (C * C - k * S * S) * Al - C * S * G /\
  tgamma tiny (sqrt s11') (sqrt s22') s12' = k * k * S * S * B + 2 * k * C * S * Al + C * C * G.
Proof. exact (twiss_transport_quad tiny tiny_pos). Qed.
End C17.

(** survival-weighted statistics (cheetah/utils/statistics.py); a sample is (x, y, weight) *)
Theorem C17_wstats_perm : forall l l' : list smp, Permutation l l' ->
  wmean_x l = wmean_x l' /\ wvar l = wvar l' /\ wcov l = wcov l' /\ wstd l = wstd l'.
Proof. exact wstats_perm. Qed.

Theorem C17_wstats_shift : forall a (l : list smp), wtot l <> 0 ->
  let l' := map (fun p => (sx p + a, sy p, sw p)) l in
  wmean_x l' = wmean_x l + a /\ wvar l' = wvar l /\ wcov l' = wcov l /\ wstd l' = wstd l.
Proof. exact wstats_shift. Qed.

Theorem C17_wstats_scale : forall k (l : list smp),
  let l' := map (fun p => (k * sx p, sy p, sw p)) l in
  wmean_x l' = k * wmean_x l /\ wvar l' = k ^ 2 * wvar l /\ wcov l' = k * wcov l /\
  (0 <= wvar l -> wstd l' = Rabs k * wstd l).
Proof. exact wstats_scale. Qed.

Theorem C17_wstats_ones : forall l : list smp, Forall (fun p => sw p = 1) l -> l <> [] ->
  let n := INR (length l) in
  let mx := sumf sx l / n in let my := sumf sy l / n in
  wmean_x l = mx /\
  wvar l = sumf (fun p => (sx p - mx) ^ 2) l / (n - 1) /\
  wcov l = sumf (fun p => (sx p - mx) * (sy p - my)) l / (n - 1).
Proof. exact wstats_ones. Qed.

(* the float64 / float32 clamp constants are positive, so the section hypotheses are satisfiable *)
Example C17_tiny64_pos : 0 < / 2 ^ 1022.
Proof. exact tiny64_pos. Qed.
Example C17_clamped_witness : forall tiny, 0 < tiny ->
  tbeta tiny 1 1 1 * tgamma tiny 1 1 1 - talpha tiny 1 1 1 ^ 2 = 0.
Proof. exact twiss_identity_clamped_witness. Qed.

Print Assumptions C17_emit_nonneg.
Print Assumptions C17_beta_pos.
Print Assumptions C17_twiss_identity.
Print Assumptions C17_twiss_identity_clamped_refuted.
Print Assumptions C17_param_beam.
Print Assumptions C17_from_twiss_roundtrip_param.
Print Assumptions C17_twiss_transport.
Print Assumptions C17_twiss_transport_drift.
Print Assumptions C17_twiss_transport_quad.
Print Assumptions C17_wstats_perm.
Print Assumptions C17_wstats_shift.
Print Assumptions C17_wstats_scale.
Print Assumptions C17_wstats_ones.
Print Assumptions C17_tiny64_pos.
Print Assumptions C17_clamped_witness.
