(** C17 -- Beam moments and Twiss parameters are mutually consistent.
    Only property theorems live here: each is closed by [exact] of a lemma proved elsewhere
    and followed by [Print Assumptions].  [tiny] is torch.finfo(dtype).tiny (any positive real). *)
From Coq Require Import Reals List Permutation.
From Cheetah Require Import Beam.Twiss Beam.TwissProofs Beam.WStats Beam.WStatsProofs.
Import ListNotations.
Open Scope R_scope.

Section C17.
Variable tiny : R.
Hypothesis tiny_pos : 0 < tiny.

(* emittance = sqrt(clamp_min(sigma_x^2 sigma_px^2 - sigma_xpx^2, tiny)) >= 0 for every beam *)
Theorem C17_emit_nonneg : forall sx spx sxpx, 0 <= sqrt (Rmax (sx ^ 2 * spx ^ 2 - sxpx ^ 2) tiny).
Proof. exact (emit_nonneg tiny tiny_pos). Qed.

(* beta = sigma_x^2 / emittance > 0 for every non-degenerate beam (D > tiny) *)
Theorem C17_beta_pos : forall sx spx sxpx, tiny < sx ^ 2 * spx ^ 2 - sxpx ^ 2 ->
  0 < sx ^ 2 / sqrt (Rmax (sx ^ 2 * spx ^ 2 - sxpx ^ 2) tiny).
Proof. exact (beta_pos tiny tiny_pos). Qed.

(* beta * gamma - alpha^2 = 1 with gamma = sigma_px^2 / emittance, for every non-degenerate beam *)
Theorem C17_twiss_identity : forall sx spx sxpx, tiny <= sx ^ 2 * spx ^ 2 - sxpx ^ 2 ->
  let eps := sqrt (Rmax (sx ^ 2 * spx ^ 2 - sxpx ^ 2) tiny) in
  (sx ^ 2 / eps) * (spx ^ 2 / eps) - (- sxpx / eps) ^ 2 = 1.
Proof. exact (twiss_identity tiny tiny_pos). Qed.

(* limit of the statement (F19): in the clamped regime the identity gives D/tiny <> 1 *)
Theorem C17_twiss_identity_clamped_refuted : forall sx spx sxpx, sx ^ 2 * spx ^ 2 - sxpx ^ 2 < tiny ->
  let eps := sqrt (Rmax (sx ^ 2 * spx ^ 2 - sxpx ^ 2) tiny) in
  (sx ^ 2 / eps) * (spx ^ 2 / eps) - (- sxpx / eps) ^ 2 = (sx ^ 2 * spx ^ 2 - sxpx ^ 2) / tiny /\
  (sx ^ 2 * spx ^ 2 - sxpx ^ 2) / tiny <> 1.
Proof. exact (twiss_identity_clamped_refuted tiny tiny_pos). Qed.

(* ParameterBeam (sigma getters clamp variances at 1e-20): all three clauses from the covariance entries *)
Theorem C17_param_beam : forall c00 c01 c11, 1e-20 <= c00 -> 1e-20 <= c11 -> tiny <= c00 * c11 - c01 ^ 2 ->
  pbeta tiny c00 c01 c11 * pgamma tiny c00 c01 c11 - palpha tiny c00 c01 c11 ^ 2 = 1 /\
  0 < pbeta tiny c00 c01 c11 /\ 0 <= pemittance tiny c00 c01 c11.
Proof. exact (twiss_identity_param tiny tiny_pos). Qed.

(* ParameterBeam.from_twiss then the getters: exactly the same emittance, beta, alpha *)
Theorem C17_from_twiss_roundtrip_param : forall beta alpha eps, 0 < beta -> 0 < eps ->
  1e-20 <= eps * beta -> 1e-20 <= eps * (1 + alpha ^ 2) / beta -> tiny <= eps ^ 2 ->
  let c00 := (sqrt (eps * beta)) ^ 2 in            (* cov[0,0] = sigma_x^2 *)
  let c01 := - eps * alpha in                      (* cov[0,1] = cor_x *)
  let c11 := (sqrt (eps * (1 + alpha ^ 2) / beta)) ^ 2 in
  pemittance tiny c00 c01 c11 = eps /\ pbeta tiny c00 c01 c11 = beta /\ palpha tiny c00 c01 c11 = alpha.
Proof. exact (from_twiss_roundtrip_param tiny). Qed.

(* Twiss transport through any 2x2 block of determinant 1: the standard 3x3 law; emittance invariant *)
Theorem C17_twiss_transport : forall a b c d, a * d - b * c = 1 ->
  forall s11 s12 s22, 0 <= s11 -> 0 <= s22 -> tiny <= s11 * s22 - s12 ^ 2 ->
  let B := tbeta tiny (sqrt s11) (sqrt s22) s12 in
  let Al := talpha tiny (sqrt s11) (sqrt s22) s12 in
  let G := tgamma tiny (sqrt s11) (sqrt s22) s12 in
  let s11' := a * a * s11 + 2 * a * b * s12 + b * b * s22 in
  let s12' := a * c * s11 + (a * d + b * c) * s12 + b * d * s22 in
  let s22' := c * c * s11 + 2 * c * d * s12 + d * d * s22 in
  tbeta tiny (sqrt s11') (sqrt s22') s12' = a * a * B - 2 * a * b * Al + b * b * G /\
  talpha tiny (sqrt s11') (sqrt s22') s12' = - a * c * B + (a * d + b * c) * Al - b * d * G /\
  tgamma tiny (sqrt s11') (sqrt s22') s12' = c * c * B - 2 * c * d * Al + d * d * G /\
  emittance tiny (sqrt s11') (sqrt s22') s12' = emittance tiny (sqrt s11) (sqrt s22) s12.
Proof. exact (twiss_transport tiny tiny_pos). Qed.

Theorem C17_twiss_transport_drift : forall L s11 s12 s22, 0 <= s11 -> 0 <= s22 -> tiny <= s11 * s22 - s12 ^ 2 ->
  let B := tbeta tiny (sqrt s11) (sqrt s22) s12 in
  let Al := talpha tiny (sqrt s11) (sqrt s22) s12 in
  let G := tgamma tiny (sqrt s11) (sqrt s22) s12 in
  let s11' := tr11 1 L s11 s12 s22 in let s12' := tr12 1 L 0 1 s11 s12 s22 in let s22' := tr22 0 1 s11 s12 s22 in
  tbeta tiny (sqrt s11') (sqrt s22') s12' = B - 2 * L * Al + L * L * G /\
  talpha tiny (sqrt s11') (sqrt s22') s12' = Al - L * G /\
  tgamma tiny (sqrt s11') (sqrt s22') s12' = G.
Proof. exact (twiss_transport_drift tiny tiny_pos). Qed.

Theorem C17_twiss_transport_quad : forall C S k s11 s12 s22, C * C + k * S * S = 1 ->
  0 <= s11 -> 0 <= s22 -> tiny <= s11 * s22 - s12 ^ 2 ->
  let B := tbeta tiny (sqrt s11) (sqrt s22) s12 in
  let Al := talpha tiny (sqrt s11) (sqrt s22) s12 in
  let G := tgamma tiny (sqrt s11) (sqrt s22) s12 in
  let s11' := tr11 C S s11 s12 s22 in let s12' := tr12 C S (- k * S) C s11 s12 s22 in let s22' := tr22 (- k * S) C s11 s12 s22 in
  tbeta tiny (sqrt s11') (sqrt s22') s12' = C * C * B - 2 * C * S * Al + S * S * G /\
  talpha tiny (sqrt s11') (sqrt s22') s12' = k * C * S * B + (C * C - k * S * S) * Al - C * S * G /\
  tgamma tiny (sqrt s11') (sqrt s22') s12' = k * k * S * S * B + 2 * k * C * S * Al + C * C * G.
Proof. exact (twiss_transport_quad tiny tiny_pos). Qed.
End C17.

(** survival-weighted statistics (cheetah/utils/statistics.py); a sample is (x, y, weight) *)
Theorem C17_wstats_perm : forall l l' : list smp, Permutation l l' ->
  wmean_x l = wmean_x l' /\ wvar l = wvar l' /\ wcov l = wcov l' /\ wstd l = wstd l'.
Proof. exact wstats_perm. Qed.

Theorem C17_wstats_shift : forall a (l : list smp), wtot l <> 0 ->
  let l' := map (fun p => (sx p + a, sy p, sw p)) l in
  wmean_x l' = wmean_x l + a /\ wvar l' = wvar l /\ wcov l' = wcov l /\ wstd l' = wstd l.
Proof. exact wstats_shift. Qed.

Theorem C17_wstats_scale : forall k (l : list smp),
  let l' := map (fun p => (k * sx p, sy p, sw p)) l in
  wmean_x l' = k * wmean_x l /\ wvar l' = k ^ 2 * wvar l /\ wcov l' = k * wcov l /\
  (0 <= wvar l -> wstd l' = Rabs k * wstd l).
Proof. exact wstats_scale. Qed.

Theorem C17_wstats_ones : forall l : list smp, Forall (fun p => sw p = 1) l -> l <> [] ->
  let n := INR (length l) in
  let mx := sumf sx l / n in let my := sumf sy l / n in
  wmean_x l = mx /\
  wvar l = sumf (fun p => (sx p - mx) ^ 2) l / (n - 1) /\
  wcov l = sumf (fun p => (sx p - mx) * (sy p - my)) l / (n - 1).
Proof. exact wstats_ones. Qed.

(* the float64 / float32 clamp constants are positive, so the section hypotheses are satisfiable *)
Example C17_tiny64_pos : 0 < / 2 ^ 1022.
Proof. exact tiny64_pos. Qed.
Example C17_clamped_witness : forall tiny, 0 < tiny ->
  tbeta tiny 1 1 1 * tgamma tiny 1 1 1 - talpha tiny 1 1 1 ^ 2 = 0.
Proof. exact twiss_identity_clamped_witness. Qed.

Print Assumptions C17_emit_nonneg.
Print Assumptions C17_beta_pos.
Print Assumptions C17_twiss_identity.
Print Assumptions C17_twiss_identity_clamped_refuted.
Print Assumptions C17_param_beam.
Print Assumptions C17_from_twiss_roundtrip_param.
Print Assumptions C17_twiss_transport.
Print Assumptions C17_twiss_transport_drift.
Print Assumptions C17_twiss_transport_quad.
Print Assumptions C17_wstats_perm.
Print Assumptions C17_wstats_shift.
Print Assumptions C17_wstats_scale.
Print Assumptions C17_wstats_ones.
Print Assumptions C17_tiny64_pos.
Print Assumptions C17_clamped_witness.

(* ---- round 4 (appended): vectorised settings and survival-weighted statistics of every coordinate *)
From Cheetah Require Import Beam.TwissVec Beam.WStatsCoord Beam.WStatsCoordProofs.

(* the textbook block of an upright quadrupole plane (cos/sin for k > 0, cosh/sinh for k < 0, the drift for k = 0)
   has C^2 + k S^2 = 1 for EVERY strength, so C17_twiss_transport_quad applies to it; zero strength is the drift *)
Theorem C17_quad_block_det : forall k L, quad_C k L * quad_C k L + k * quad_S k L * quad_S k L = 1.
Proof. exact quad_block_det. Qed.
Theorem C17_quad_block_zero_is_drift : forall L, quad_C 0 L = 1 /\ quad_S 0 L = L.
Proof. exact quad_block_zero. Qed.

(* vectorised tracking (entry i of the result = setting i tracked on its own): EVERY entry obeys the matrix law of
   its own block and its own incoming moments, with invariant emittance *)
Theorem C17_twiss_transport_vectorised : forall tiny, 0 < tiny -> forall l : list setting,
  Forall (fun s => blk_a s * blk_d s - blk_b s * blk_c s = 1 /\ 0 <= in11 s /\ 0 <= in22 s /\
                   tiny <= in11 s * in22 s - in12 s ^ 2) l ->
  Forall2 (fun s o =>
    let '(o11, o12, o22) := o in
    let B := tbeta tiny (sqrt (in11 s)) (sqrt (in22 s)) (in12 s) in
    let Al := talpha tiny (sqrt (in11 s)) (sqrt (in22 s)) (in12 s) in
    let G := tgamma tiny (sqrt (in11 s)) (sqrt (in22 s)) (in12 s) in
    tbeta tiny (sqrt o11) (sqrt o22) o12 = blk_a s * blk_a s * B - 2 * blk_a s * blk_b s * Al + blk_b s * blk_b s * G /\
    talpha tiny (sqrt o11) (sqrt o22) o12 =
      - blk_a s * blk_c s * B + (blk_a s * blk_d s + blk_b s * blk_c s) * Al - blk_b s * blk_d s * G /\
    emittance tiny (sqrt o11) (sqrt o22) o12 = emittance tiny (sqrt (in11 s)) (sqrt (in22 s)) (in12 s))
    l (map (fun s => (out11 s, out12 s, out22 s)) l).
Proof. exact twiss_transport_batch. Qed.

(* a quadrupole scan of one beam through strengths of any sign, exact zeros included, and any lengths *)
Theorem C17_quad_scan_transport : forall tiny, 0 < tiny -> forall s11 s12 s22 (scan : list (R * R)),
  0 <= s11 -> 0 <= s22 -> tiny <= s11 * s22 - s12 ^ 2 ->
  Forall2 (law_holds tiny) (map (quad_setting s11 s12 s22) scan) (track_batch (map (quad_setting s11 s12 s22) scan)).
Proof. exact quad_scan_transport. Qed.

(* a macro-particle: six coordinates (index 0..5 = x, px, y, py, tau, p) and a survival probability; mu i, sigma i, cov i j are
   the survival-weighted statistics of column i / columns (i, j).  Translation of coordinate i (total weight non-zero): *)
Theorem C17_stats_shift_every_coordinate : forall i a (l : list part6), wsum l <> 0 ->
  let l' := map (shift_coord i a) l in
  mu i l' = mu i l + a /\ sigma i l' = sigma i l /\ variance i l' = variance i l /\
  (forall j, j <> i -> cov i j l' = cov i j l /\ cov j i l' = cov j i l /\
                       mu j l' = mu j l /\ sigma j l' = sigma j l /\
                       forall k, k <> i -> cov j k l' = cov j k l).
Proof. exact stats_shift. Qed.

Theorem C17_stats_scale_every_coordinate : forall i k (l : list part6),
  let l' := map (scale_coord i k) l in
  mu i l' = k * mu i l /\ variance i l' = k ^ 2 * variance i l /\
  (0 <= variance i l -> sigma i l' = Rabs k * sigma i l) /\
  (forall j, j <> i -> cov i j l' = k * cov i j l /\ cov j i l' = k * cov j i l /\
                       mu j l' = mu j l /\ sigma j l' = sigma j l).
Proof. exact stats_scale. Qed.

Theorem C17_stats_perm_every_coordinate : forall l l' : list part6, Permutation l l' ->
  forall i j, mu i l = mu i l' /\ sigma i l = sigma i l' /\ cov i j l = cov i j l'.
Proof. exact stats_perm. Qed.

(* lost particles are absent: particles with survival probability exactly 0 can be deleted, whatever the other weights *)
Theorem C17_stats_lost_particles_absent : forall (l : list part6) i j,
  mu i (filter alive l) = mu i l /\ sigma i (filter alive l) = sigma i l /\ cov i j (filter alive l) = cov i j l /\
  wsum (filter alive l) = wsum l.
Proof. exact stats_lost_absent. Qed.

(* all particles survive: the ordinary sample mean and unbiased sample covariance of the columns *)
Theorem C17_stats_ones_every_coordinate : forall l : list part6, Forall (fun p => pw p = 1) l -> l <> [] ->
  let n := INR (length l) in
  forall i j,
  let mi := sumf (fun p => sx p) (map (cols i j) l) / n in
  let mj := sumf (fun p => sy p) (map (cols i j) l) / n in
  mu i l = mi /\
  cov i j l = sumf (fun p => (sx p - mi) * (sy p - mj)) (map (cols i j) l) / (n - 1).
Proof. exact stats_ones. Qed.

Print Assumptions C17_quad_block_det.
Print Assumptions C17_quad_block_zero_is_drift.
Print Assumptions C17_twiss_transport_vectorised.
Print Assumptions C17_quad_scan_transport.
Print Assumptions C17_stats_shift_every_coordinate.
Print Assumptions C17_stats_scale_every_coordinate.
Print Assumptions C17_stats_perm_every_coordinate.
Print Assumptions C17_stats_lost_particles_absent.
Print Assumptions C17_stats_ones_every_coordinate.
