(** C18 -- Coordinate conversions are mutually inverse and match the documented definitions.
    Only property theorems live here, each closed by [exact] of a lemma proved in Bmadx/CoordsProofs.v or
    Beam/SIProofs.v and followed by [Print Assumptions].  Models: Bmadx/Coords.v (cheetah_to_bmad_z_pz,
    bmad_to_cheetah_z_pz), Beam/SI.v (relativistic factors, p0c, energies, momenta, to_xyz_pxpypz, from_xyz_pxpypz). *)
From Coq Require Import Reals List.
From Cheetah Require Import Bmadx.Coords Bmadx.CoordsProofs Beam.SI Beam.SIProofs.
Import ListNotations.
Open Scope R_scope.

(** cheetah_to_bmad_z_pz implements the documented definitions: for the momenta p, p0 (times c) that belong to the
    particle energy E = E0 + delta*p0 and to the reference energy E0:  z = -beta*tau with beta = p/E of the PARTICLE,
    pz = (p - p0)/p0, and the returned p0c is p0. *)
Theorem C18_to_bmad_def : forall tau delta E0 m p p0 E,
  0 < m -> m < E0 -> 0 <= p0 -> p0² + m² = E0² ->
  E = E0 + delta * p0 -> m < E -> 0 <= p -> p² + m² = E² ->
  cb_z tau delta E0 m = - (p / E) * tau /\ cb_pz delta E0 m = (p - p0) / p0 /\ cb_p0c E0 m = p0.
Proof. exact to_bmad_def. Qed.

(** bmad_to_cheetah_z_pz: tau = -z/beta, delta = (E - E0)/(p0 c), returned reference energy E0 = sqrt(p0c^2 + m^2) *)
Theorem C18_to_cheetah_def : forall z pz p0c m E E0,
  0 < m -> 0 < p0c -> 0 < 1 + pz ->
  0 <= E -> E² = ((1 + pz) * p0c)² + m² -> 0 <= E0 -> E0² = p0c² + m² ->
  bc_tau z pz p0c m = - z / (((1 + pz) * p0c) / E) /\ bc_delta pz p0c m = (E - E0) / p0c /\ bc_refE p0c m = E0.
Proof. exact to_cheetah_def. Qed.

(** delta = (E - E0)/(p0 c) where E is the particle energy the conversion works with *)
Theorem C18_delta_def : forall delta E0 m, 0 < m /\ m < E0 /\ m < cb_energy delta E0 m ->
  delta = (cb_energy delta E0 m - E0) / cb_p0c E0 m.
Proof. exact delta_def. Qed.

(** Cheetah -> Bmad -> Cheetah is the identity on (tau, delta) and returns the reference energy, for every physical input
    (rest energy m > 0, reference energy E0 > m, particle energy E0 + delta*p0c > m) *)
Theorem C18_bmad_roundtrip : forall tau delta E0 m, 0 < m /\ m < E0 /\ m < cb_energy delta E0 m ->
  let z := cb_z tau delta E0 m in let pz := cb_pz delta E0 m in let p0c := cb_p0c E0 m in
  bc_tau z pz p0c m = tau /\ bc_delta pz p0c m = delta /\ bc_refE p0c m = E0.
Proof. exact bmad_roundtrip. Qed.

(** Bmad -> Cheetah -> Bmad is the identity on (z, pz) and returns the reference momentum, for p0c > 0 and 1 + pz > 0 *)
Theorem C18_cheetah_roundtrip : forall z pz p0c m, 0 < m /\ 0 < p0c /\ 0 < 1 + pz ->
  let tau := bc_tau z pz p0c m in let delta := bc_delta pz p0c m in let E0 := bc_refE p0c m in
  cb_z tau delta E0 m = z /\ cb_pz delta E0 m = pz /\ cb_p0c E0 m = p0c.
Proof. exact cheetah_roundtrip. Qed.

(** both conversions map physical inputs to physical inputs (so the round trips compose) *)
Theorem C18_conversions_stay_physical :
  (forall delta E0 m, phys delta E0 m -> bphys (cb_pz delta E0 m) (cb_p0c E0 m) m) /\
  (forall pz p0c m, bphys pz p0c m -> phys (bc_delta pz p0c m) (bc_refE p0c m) m).
Proof. exact (conj cb_bphys bc_phys). Qed.

(** energy-momentum relation of the energies and momenta the conversions compute; 0 < beta < 1 *)
Theorem C18_conversion_energy_momentum : forall delta E0 m, 0 < m /\ m < E0 /\ m < cb_energy delta E0 m ->
  ((cb_energy delta E0 m)² = (cb_p delta E0 m)² + m² /\ E0² = (cb_p0c E0 m)² + m²) /\ 0 < cb_beta delta E0 m < 1.
Proof. exact (fun delta E0 m H => conj (cb_energy_momentum delta E0 m H) (cb_beta_range delta E0 m H)). Qed.

(** Beam.p0c = beta0*gamma0*m_eV is the reference momentum sqrt(E0^2 - m^2) (the one the Bmad conversion uses) *)
Theorem C18_p0c_def : forall E0 meV, 0 < meV -> meV < E0 ->
  beam_p0c E0 meV = cb_p0c E0 meV /\ (beam_p0c E0 meV)² + meV² = E0².
Proof. exact p0c_def. Qed.

(** ParticleBeam.energies (one setting): E = E0 + delta*p0c, i.e. delta = (E - E0)/p0c; ParticleBeam.momenta: E^2 = (pc)^2 + m^2 *)
Theorem C18_energies_def : forall delta E0 meV, 0 < meV -> meV < E0 ->
  energies delta E0 meV = cb_energy delta E0 meV /\ delta = (energies delta E0 meV - E0) / beam_p0c E0 meV.
Proof. exact energies_def. Qed.

Theorem C18_energy_momentum : forall delta E0 meV, meV <= Rabs (energies delta E0 meV) -> 0 <= meV ->
  (energies delta E0 meV)² = (momenta delta E0 meV)² + meV² /\ 0 <= momenta delta E0 meV.
Proof. exact energy_momentum. Qed.

(** to_xyz_pxpypz implements: px_SI = px*p0 with p0 = p0c[eV]/m[eV] * (m[kg] c), z = -beta0*tau,
    |p_SI|^2 = px^2 + py^2 + pz^2 = (gamma^2 - 1)(m c)^2 with gamma = E/m of the particle, pz >= 0 *)
Theorem C18_si_def : forall E0 meV mkg c, 0 < meV -> 0 < mkg -> 0 < c -> meV < E0 ->
  forall px py tau delta, si_phys px py delta E0 meV mkg c ->
  to_px px E0 meV mkg c = px * (beam_p0c E0 meV / meV * (mkg * c)) /\
  to_z tau E0 meV = - si_beta0 E0 meV * tau /\
  0 <= to_pz px py delta E0 meV mkg c /\
  (to_px px E0 meV mkg c)² + (to_px py E0 meV mkg c)² + (to_pz px py delta E0 meV mkg c)²
    = ((energies delta E0 meV / meV)² - 1) * (mkg * c)².
Proof. exact (fun E0 meV mkg c Hm Hk Hc _ => si_def E0 meV mkg c Hm Hk Hc). Qed.

(** from_xyz_pxpypz: delta = (gamma*m - E0)/p0c with gamma = sqrt(1 + (p/(mc))^2) *)
Theorem C18_from_si_def : forall E0 meV mkg c, 0 < meV -> 0 < mkg -> 0 < c -> meV < E0 -> forall PX PY PZ,
  fr_delta PX PY PZ E0 meV (mkg * c) = (fr_gamma PX PY PZ (mkg * c) * meV - E0) / beam_p0c E0 meV /\
  (fr_gamma PX PY PZ (mkg * c))² = 1 + (PX² + PY² + PZ²) / (mkg * c)².
Proof. exact (fun E0 meV mkg c Hm _ _ HE => fr_delta_def E0 meV mkg c Hm HE). Qed.

(** Cheetah -> SI -> Cheetah is the identity PROVIDED from_xyz uses the same constant product m*c as to_xyz ... *)
Theorem C18_si_roundtrip : forall E0 meV mkg c, 0 < meV -> 0 < mkg -> 0 < c -> meV < E0 ->
  forall px py tau delta, si_phys px py delta E0 meV mkg c ->
  let PX := to_px px E0 meV mkg c in let PY := to_px py E0 meV mkg c in
  let Z := to_z tau E0 meV in let PZ := to_pz px py delta E0 meV mkg c in
  fr_px PX E0 meV mkg c = px /\ fr_px PY E0 meV mkg c = py /\ fr_tau Z E0 meV = tau /\
  fr_delta PX PY PZ E0 meV (mkg * c) = delta.
Proof. exact si_roundtrip. Qed.

(** ... and is NOT the identity otherwise (finding F16: in the code the product is rounded to float32 in from_xyz only):
    for every moving particle delta is not restored when mc <> mkg*c. *)
Theorem C18_si_roundtrip_refuted : forall E0 meV mkg c, 0 < meV -> 0 < mkg -> 0 < c -> meV < E0 ->
  forall px py delta mc, si_phys px py delta E0 meV mkg c -> 1 < si_gamma delta E0 meV -> 0 < mc -> mc <> mkg * c ->
  fr_delta (to_px px E0 meV mkg c) (to_px py E0 meV mkg c) (to_pz px py delta E0 meV mkg c) E0 meV mc <> delta.
Proof. exact si_roundtrip_refuted. Qed.

(** SI -> Cheetah -> SI is the identity for forward-moving particles (pz >= 0) and loses the sign of pz otherwise *)
Theorem C18_si_roundtrip_back : forall E0 meV mkg c, 0 < meV -> 0 < mkg -> 0 < c -> meV < E0 ->
  forall PX PY Z PZ, 0 <= PZ ->
  let px := fr_px PX E0 meV mkg c in let py := fr_px PY E0 meV mkg c in
  let tau := fr_tau Z E0 meV in let delta := fr_delta PX PY PZ E0 meV (mkg * c) in
  to_px px E0 meV mkg c = PX /\ to_px py E0 meV mkg c = PY /\ to_z tau E0 meV = Z /\
  to_pz px py delta E0 meV mkg c = PZ.
Proof. exact si_roundtrip_back. Qed.

(** finding F17: ParticleBeam.energies of a vectorised beam pairs particle i with batch entry i (trailing-axis broadcast) *)
Theorem C18_energies_vectorised_refuted : exists ps p0c E, energies_coded ps p0c E <> energies_spec ps p0c E.
Proof. exact energies_vectorised_refuted. Qed.

(** non-vacuity: a 10 MeV reference, 1% energy offset is physical *)
Example C18_phys_inhabited : phys (1/100) 10000000 510998.95.
Proof. exact phys_example. Qed.

Print Assumptions C18_to_bmad_def.
Print Assumptions C18_to_cheetah_def.
Print Assumptions C18_delta_def.
Print Assumptions C18_bmad_roundtrip.
Print Assumptions C18_cheetah_roundtrip.
Print Assumptions C18_conversions_stay_physical.
Print Assumptions C18_conversion_energy_momentum.
Print Assumptions C18_p0c_def.
Print Assumptions C18_energies_def.
Print Assumptions C18_energy_momentum.
Print Assumptions C18_si_def.
Print Assumptions C18_from_si_def.
Print Assumptions C18_si_roundtrip.
Print Assumptions C18_si_roundtrip_refuted.
Print Assumptions C18_si_roundtrip_back.
Print Assumptions C18_energies_vectorised_refuted.
Print Assumptions C18_phys_inhabited.
