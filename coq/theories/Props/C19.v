(** C19 -- Space-charge kicks change momenta only and scale with charge and length.   Level: PARTIAL.
    Proved here, part 1 (model SpaceCharge/Cic.v, proofs SpaceCharge/CicProofs.v): the algebraic clauses, for every grid
    geometry, particle list, charge, survival value and length, with the field solve taken as an ARBITRARY LINEAR operator on grids.
    Part 2 (model SpaceCharge/Hockney.v, proofs SpaceCharge/HockneyProofs.v; appended below): the STRUCTURE of the field solve
    -- zero padding to the doubled grid, the mirrored layout of the doubled Green array, cyclic convolution, crop, central
    differences with zero boundary planes, -1/gamma^2 -- for every grid size, every Green data G and every density: the cropped
    cyclic convolution is the open-boundary sum; the solve is linear, so the kick theorems of part 1 hold for the concrete solve;
    mirror symmetry; Newton's third law on the grid.
    Not proved (tested on the implementation only): that torch's irfftn(rfftn a * rfftn b) is the cyclic convolution, the VALUES of
    the integrated Green function (data here), the numerical accuracy (uniform sphere), the outward push for general bunches, the
    first-order behaviour of delta, and that the grid geometry (sigma-based) is itself invariant under the operations below.
    Only property theorems live here: each is closed by [exact] and followed by [Print Assumptions]. *)
From Coq Require Import List Bool ZArith QArith Permutation.
From Cheetah Require Import SpaceCharge.Cic SpaceCharge.CicProofs.
Import ListNotations.
Open Scope Q_scope.

(* the 8 cloud-in-cell weights of a particle sum to one and lie in [0, 1] *)
Theorem C19_cic_weights_sum1 : forall n : q3, sumQ (map (cw n) (corners (cell_of n))) == 1.
Proof. exact cic_weights_sum1. Qed.

Theorem C19_cic_weights_range : forall (n : q3) c, In c (corners (cell_of n)) -> 0 <= cw n c <= 1.
Proof. exact cic_weights_range. Qed.

(* deposited charge density: linear in the charges, additive, order independent, blind to lost particles *)
Theorem C19_deposit_linear_in_charge : forall g a ps k,
  rho g (map (fun p => mksp (s_x p) (s_px p) (s_y p) (s_py p) (s_z p) (s_pz p) (a * s_q p) (s_s p)) ps) k == a * rho g ps k.
Proof. exact deposit_linear_in_charge. Qed.

Theorem C19_deposit_additive : forall g ps1 ps2 k, rho g (ps1 ++ ps2) k == rho g ps1 k + rho g ps2 k.
Proof. exact deposit_app. Qed.

Theorem C19_deposit_perm : forall g ps ps' k, Permutation ps ps' -> rho g ps k == rho g ps' k.
Proof. exact deposit_perm. Qed.

Theorem C19_deposit_ignores_lost : forall g ps k,
  rho g ps k == rho g (filter (fun p => negb (Qeq_bool (s_s p) 0)) ps) k.
Proof. exact deposit_ignores_lost. Qed.

Theorem C19_deposit_only_on_grid : forall g p k, valid (g_shape g) k = false -> contrib g p k == 0.
Proof. exact contrib_invalid. Qed.

(* charge conservation: particles whose 8 surrounding grid points exist put exactly charge * survival on the grid *)
Theorem C19_deposit_conserves_charge : forall g ps,
  (forall p, In p ps -> forall c, In c (corners (cell_of (nrm g p))) -> valid (g_shape g) c = true) ->
  sumQ (map (rho g ps) (all_idx (g_shape g))) == sumQ (map (fun p => s_q p * s_s p) ps) * inv_vol g.
Proof. exact deposit_conserves_charge. Qed.

(* gathering reproduces a uniform field exactly (weights sum to one) *)
Theorem C19_gather_uniform : forall g e f p,
  (forall c, In c (corners (cell_of (nrm g p))) -> valid (g_shape g) c = true) ->
  gather g e (fun _ => f) p == e * f.
Proof. exact gather_uniform. Qed.

Section C19.
(* the field solve: component -> charge-density grid -> force-per-charge grid; any linear operator *)
Variable solve : nat -> (idx -> Q) -> idx -> Q.
Hypothesis solve_ext : forall c r r', (forall k, r k == r' k) -> forall k, solve c r k == solve c r' k.
Hypothesis solve_scale : forall c a r k, solve c (fun i => a * r i) k == a * solve c r k.

(* the momentum change of every particle is the same whichever order the bunch is stored in *)
Theorem C19_gather_perm_equivariant : forall g e dt ps ps' comp p, Permutation ps ps' ->
  dP solve g e dt ps' comp p == dP solve g e dt ps comp p.
Proof. exact (gather_perm_equivariant solve solve_ext). Qed.

Theorem C19_kick_perm : forall g e dt ps ps', Permutation ps ps' ->
  Permutation (kick solve g e dt ps) (map (kick_one solve g e dt ps) ps') /\
  forall p comp, dP solve g e dt ps' comp p == dP solve g e dt ps comp p.
Proof. exact (kick_perm solve solve_ext). Qed.

(* scaling every charge by a scales every momentum change by a *)
Theorem C19_kick_linear_in_charge : forall g e dt a ps comp p,
  dP solve g e dt (map (scale_q a) ps) comp (scale_q a p) == a * dP solve g e dt ps comp p.
Proof. exact (kick_linear_in_charge solve solve_ext solve_scale). Qed.

(* scaling the effect length by a scales every momentum change by a (dt = L / (c beta)) *)
Theorem C19_kick_linear_in_length : forall g e a L c beta ps comp p,
  dP solve g e (dt_of (a * L) c beta) ps comp p == a * dP solve g e (dt_of L c beta) ps comp p.
Proof. exact (kick_linear_in_length solve). Qed.

Theorem C19_zero_charge_no_kick : forall g e dt ps comp p, (forall x, In x ps -> s_q x == 0) ->
  dP solve g e dt ps comp p == 0.
Proof. exact (zero_charge_no_kick solve solve_ext solve_scale). Qed.

Theorem C19_lost_particles_not_sources : forall g e dt ps comp p,
  dP solve g e dt ps comp p == dP solve g e dt (filter (fun p => negb (Qeq_bool (s_s p) 0)) ps) comp p.
Proof. exact (lost_particles_not_sources solve solve_ext). Qed.

(* F50 (genuine defect): the grid is centred on the axis, not on the bunch.  A bunch none of whose particles has an
   existing surrounding grid point deposits nothing and is not kicked, however large its charge ... *)
Theorem C19_off_grid_bunch_no_kick : forall g e dt ps comp p,
  (forall x, In x ps -> forall c, In c (corners (cell_of (nrm g x))) -> valid (g_shape g) c = false) ->
  dP solve g e dt ps comp p == 0.
Proof. exact (off_grid_bunch_no_kick solve solve_ext solve_scale). Qed.

(* the kick leaves SI positions, charges and survival probabilities alone *)
Theorem C19_kick_keeps_rest : forall g e dt ps,
  map s_x (kick solve g e dt ps) = map s_x ps /\ map s_y (kick solve g e dt ps) = map s_y ps /\
  map s_z (kick solve g e dt ps) = map s_z ps /\ map s_q (kick solve g e dt ps) = map s_q ps /\
  map s_s (kick solve g e dt ps) = map s_s ps.
Proof. exact (kick_keeps_rest solve). Qed.

(* SpaceChargeKick.track in cheetah coordinates; pz_SI and delta conversions abstract (C18) *)
Variable pzf : Q -> cpart -> Q.
Variable dlf : Q -> Q -> Q -> Q -> Q.

Theorem C19_track_is_per_particle : forall g e c p0 beta0 L b,
  b_parts (sc_track solve pzf dlf g e c p0 beta0 L b) = map (track_one solve pzf dlf g e c p0 beta0 L b) (b_parts b).
Proof. exact (sc_track_parts solve pzf dlf). Qed.

(* x and y are returned untouched, tau through -(-beta0 tau)/beta0 *)
Theorem C19_positions_unchanged : forall g e c p0 beta0 L b p, ~ beta0 == 0 ->
  c_x (track_one solve pzf dlf g e c p0 beta0 L b p) = c_x p /\
  c_y (track_one solve pzf dlf g e c p0 beta0 L b p) = c_y p /\
  c_tau (track_one solve pzf dlf g e c p0 beta0 L b p) == c_tau p.
Proof. exact (positions_unchanged solve pzf dlf). Qed.

Theorem C19_charges_surv_energy_unchanged : forall g e c p0 beta0 L b,
  b_energy (sc_track solve pzf dlf g e c p0 beta0 L b) = b_energy b /\
  map c_q (b_parts (sc_track solve pzf dlf g e c p0 beta0 L b)) = map c_q (b_parts b) /\
  map c_s (b_parts (sc_track solve pzf dlf g e c p0 beta0 L b)) = map c_s (b_parts b) /\
  length (b_parts (sc_track solve pzf dlf g e c p0 beta0 L b)) = length (b_parts b).
Proof. exact (charges_surv_energy_unchanged solve pzf dlf). Qed.

(* px, py change by (SI momentum change)/p0 -- hence proportionally to charge and length *)
Theorem C19_px_change : forall g e c p0 beta0 L b p, ~ p0 == 0 ->
  c_px (track_one solve pzf dlf g e c p0 beta0 L b p) ==
    c_px p + dP solve g e (dt_of L c beta0) (si_of pzf p0 beta0 b) 0 (to_si pzf p0 beta0 (b_energy b) p) / p0 /\
  c_py (track_one solve pzf dlf g e c p0 beta0 L b p) ==
    c_py p + dP solve g e (dt_of L c beta0) (si_of pzf p0 beta0 b) 1 (to_si pzf p0 beta0 (b_energy b) p) / p0.
Proof. exact (px_change solve pzf dlf). Qed.

Theorem C19_zero_charge_px : forall g e c p0 beta0 L b p, ~ p0 == 0 ->
  (forall x, In x (b_parts b) -> c_q x == 0) ->
  c_px (track_one solve pzf dlf g e c p0 beta0 L b p) == c_px p /\
  c_py (track_one solve pzf dlf g e c p0 beta0 L b p) == c_py p.
Proof. exact (zero_charge_px solve solve_ext solve_scale pzf dlf). Qed.
End C19.

(* ... and such bunches exist: two unit charges around x = 10 on the 4^3 grid of half extent 1 (refutes "a charged bunch is
   pushed apart" for off-axis bunches) *)
Theorem C19_offaxis_bunch_refuted :
  (forall p, In p f50_bunch -> forall c, In c (corners (cell_of (nrm f50_geom p))) -> valid (g_shape f50_geom) c = false) /\
  (forall p, In p f50_bunch -> ~ s_q p * s_s p == 0).
Proof. exact offaxis_bunch_refuted. Qed.

(* non-vacuity: the hypotheses on [solve] are satisfiable (e.g. by a local linear stencil), and a concrete deposit *)
Example C19_solve_exists :
  let solve := fun (c : nat) (r : idx -> Q) (k : idx) => let '(i, j, l) := k in r (i + 1, j, l)%Z - r (i - 1, j, l)%Z in
  (forall c r r', (forall k, r k == r' k) -> forall k, solve c r k == solve c r' k) /\
  (forall c a r k, solve c (fun i => a * r i) k == a * solve c r k).
Proof.
  split.
  - intros c r r' H [[i j] l]. simpl. rewrite !H. reflexivity.
  - intros c a r [[i j] l]. simpl. ring.
Qed.

Example C19_nonvacuous :
  let g := mkgeom (1, 1, 1) (1#2, 1#2, 1#2) (4, 4, 4)%Z in
  let p := mksp (1#8) 0 (-(1#4)) 0 0 0 2 (1#2) in
  Qred (rho g [p] (2, 1, 2)%Z) = 3 /\ Qred (rho g [p] (3, 1, 2)%Z) = 1 /\ Qred (rho g [p] (0, 0, 0)%Z) = 0.
Proof. vm_compute. repeat split. Qed.

Print Assumptions C19_cic_weights_sum1.
Print Assumptions C19_cic_weights_range.
Print Assumptions C19_deposit_linear_in_charge.
Print Assumptions C19_deposit_additive.
Print Assumptions C19_deposit_perm.
Print Assumptions C19_deposit_ignores_lost.
Print Assumptions C19_deposit_only_on_grid.
Print Assumptions C19_deposit_conserves_charge.
Print Assumptions C19_gather_uniform.
Print Assumptions C19_gather_perm_equivariant.
Print Assumptions C19_kick_perm.
Print Assumptions C19_kick_linear_in_charge.
Print Assumptions C19_kick_linear_in_length.
Print Assumptions C19_zero_charge_no_kick.
Print Assumptions C19_lost_particles_not_sources.
Print Assumptions C19_off_grid_bunch_no_kick.
Print Assumptions C19_offaxis_bunch_refuted.
Print Assumptions C19_kick_keeps_rest.
Print Assumptions C19_track_is_per_particle.
Print Assumptions C19_positions_unchanged.
Print Assumptions C19_charges_surv_energy_unchanged.
Print Assumptions C19_px_change.
Print Assumptions C19_zero_charge_px.
Print Assumptions C19_solve_exists.
Print Assumptions C19_nonvacuous.

(* ======================================================================================================================
   Part 2: the Hockney field solve (zero padding, doubled Green array, cyclic convolution, crop, central differences)
   ====================================================================================================================== *)
From Coq Require Import Arith.
From Cheetah Require Import SpaceCharge.Hockney SpaceCharge.HockneyProofs.

(* where every entry of the doubled Green array comes from: index n of an axis is never written (0), indices below n hold G,
   indices above n the mirrored copy G[2n - m] *)
Theorem C19_green_layout : forall nx ny nz (G : grid) a b c,
  green3 (nx, ny, nz) G a b c =
  if ((a =? nx) || (b =? ny) || (c =? nz))%nat then 0
  else G (if (a <? nx)%nat then a else (2 * nx - a)%nat) (if (b <? ny)%nat then b else (2 * ny - b)%nat)
         (if (c <? nz)%nat then c else (2 * nz - c)%nat).
Proof. exact green3_layout. Qed.

(* one axis: the cyclic convolution (indices modulo 2n) of the zero-padded density with the doubled Green array, read at a
   physical index m < n, is the aperiodic sum over the physical grid with G(|m - p|) *)
Theorem C19_hockney1_is_open_convolution : forall n (G r : nat -> Q) m, (m < n)%nat ->
  sumN (2 * n) (fun p => pad1 n r p * green1 n G ((m + 2 * n - p) mod (2 * n))%nat) == sumN n (fun p => r p * G (dist m p)).
Proof. exact hockney1_is_open_convolution. Qed.

(* three axes, every grid size, every G, every density: the cropped cyclic convolution on the doubled grid is the open-boundary
   sum over the physical grid -- no periodic image contributes.  (dist a b = |a - b|) *)
Theorem C19_hockney_is_open_convolution : forall nx ny nz k0 (G r : grid) i j k, (i < nx)%nat -> (j < ny)%nat -> (k < nz)%nat ->
  k0 * sum3 (2 * nx) (2 * ny) (2 * nz) (fun p q s =>
         pad3 (nx, ny, nz) r p q s *
         green3 (nx, ny, nz) G ((i + 2 * nx - p) mod (2 * nx))%nat ((j + 2 * ny - q) mod (2 * ny))%nat ((k + 2 * nz - s) mod (2 * nz))%nat)
  == k0 * sum3 nx ny nz (fun p q s => r p q s * G (dist i p) (dist j q) (dist k s)).
Proof. exact hockney_is_open_convolution. Qed.

(* cells without charge are not sources: the potential is the sum over any set of cells that contains the charged ones *)
Theorem C19_hockney_zero_cells_not_sources : forall nx ny nz (G r : grid) (keep : nat -> nat -> nat -> bool) i j k,
  (forall p q s, keep p q s = false -> r p q s == 0) ->
  open3 (nx, ny, nz) G r i j k ==
  sum3 nx ny nz (fun p q s => if keep p q s then r p q s * G (dist i p) (dist j q) (dist k s) else 0).
Proof. exact open3_support. Qed.

(* the whole solve density -> potential -> force per charge (hsolve: pad, convolve, crop, central differences, -1/gamma^2) respects
   equality of densities (it reads existing grid points only), is homogeneous and additive, and equals the same stencil applied to
   the open-boundary sum *)
Theorem C19_hockney_solve_linear : forall sh cell k0 ig2 (G : grid) comp,
  (forall r r', (forall k, valid sh k = true -> r k == r' k) ->
     forall k, hsolve sh cell k0 ig2 G comp r k == hsolve sh cell k0 ig2 G comp r' k) /\
  (forall a r k, hsolve sh cell k0 ig2 G comp (fun i => a * r i) k == a * hsolve sh cell k0 ig2 G comp r k) /\
  (forall r r' k, hsolve sh cell k0 ig2 G comp (fun i => r i + r' i) k ==
                  hsolve sh cell k0 ig2 G comp r k + hsolve sh cell k0 ig2 G comp r' k) /\
  (forall r k, hsolve sh cell k0 ig2 G comp r k == hsolve_open sh cell k0 ig2 G comp r k).
Proof.
  exact (fun sh cell k0 ig2 G comp =>
           conj (hsolve_ext_valid sh cell k0 ig2 G comp)
          (conj (hsolve_scale sh cell k0 ig2 G comp)
          (conj (hsolve_add sh cell k0 ig2 G comp) (hsolve_open_eq sh cell k0 ig2 G comp)))).
Qed.

(* the code's "0 boundary conditions": no force on the two boundary planes of the differentiated axis *)
Theorem C19_field_boundary_zero : forall nx ny nz cell ig2 phi i j k,
  (i = 0%nat \/ (nx <= i + 1)%nat -> field (nx, ny, nz) cell ig2 0 phi i j k == 0) /\
  (j = 0%nat \/ (ny <= j + 1)%nat -> field (nx, ny, nz) cell ig2 1 phi i j k == 0) /\
  (k = 0%nat \/ (nz <= k + 1)%nat -> field (nx, ny, nz) cell ig2 2 phi i j k == 0).
Proof. exact field_boundary_zero. Qed.

(* ---------------- the kick theorems of part 1, now for the CONCRETE solve: no hypothesis on the field solve is left.
   k0 = 1/(4 pi eps0), ig2 = 1/gamma^2 and the integrated-Green-function values G are arbitrary *)
Theorem C19_hockney_kick_perm : forall k0 ig2 (G : grid) g e dt ps ps' comp p, Permutation ps ps' ->
  dP (hsolve (g_shape g) (g_cell g) k0 ig2 G) g e dt ps' comp p == dP (hsolve (g_shape g) (g_cell g) k0 ig2 G) g e dt ps comp p.
Proof. exact hockney_kick_perm. Qed.

Theorem C19_hockney_kick_linear_in_charge : forall k0 ig2 (G : grid) g e dt a ps comp p,
  dP (hsolve (g_shape g) (g_cell g) k0 ig2 G) g e dt (map (scale_q a) ps) comp (scale_q a p) ==
  a * dP (hsolve (g_shape g) (g_cell g) k0 ig2 G) g e dt ps comp p.
Proof. exact hockney_kick_linear_in_charge. Qed.

Theorem C19_hockney_zero_charge_no_kick : forall k0 ig2 (G : grid) g e dt ps comp p, (forall x, In x ps -> s_q x == 0) ->
  dP (hsolve (g_shape g) (g_cell g) k0 ig2 G) g e dt ps comp p == 0.
Proof. exact hockney_zero_charge_no_kick. Qed.

Theorem C19_hockney_lost_particles_not_sources : forall k0 ig2 (G : grid) g e dt ps comp p,
  dP (hsolve (g_shape g) (g_cell g) k0 ig2 G) g e dt ps comp p ==
  dP (hsolve (g_shape g) (g_cell g) k0 ig2 G) g e dt (filter (fun p => negb (Qeq_bool (s_s p) 0)) ps) comp p.
Proof. exact hockney_lost_particles_not_sources. Qed.

Theorem C19_hockney_off_grid_bunch_no_kick : forall k0 ig2 (G : grid) g e dt ps comp p,
  (forall x, In x ps -> forall c, In c (corners (cell_of (nrm g x))) -> valid (g_shape g) c = false) ->
  dP (hsolve (g_shape g) (g_cell g) k0 ig2 G) g e dt ps comp p == 0.
Proof. exact hockney_off_grid_bunch_no_kick. Qed.

(* superposition: the kick a particle receives from two sub-bunches is the sum of the kicks from each *)
Theorem C19_hockney_kick_superposition : forall k0 ig2 (G : grid) g e dt ps1 ps2 comp p,
  dP (hsolve (g_shape g) (g_cell g) k0 ig2 G) g e dt (ps1 ++ ps2) comp p ==
  dP (hsolve (g_shape g) (g_cell g) k0 ig2 G) g e dt ps1 comp p + dP (hsolve (g_shape g) (g_cell g) k0 ig2 G) g e dt ps2 comp p.
Proof. exact hockney_kick_superposition. Qed.

(* ---------------- symmetry: "pushes particles away from the bunch centre" at model level.  A density that is mirror symmetric
   about the centre plane of the x axis gives a potential with that symmetry, an x-force that is ODD under the mirror and y-, tau-
   forces that are even; on the centre plane of a grid with an odd number of points the x-force is exactly 0 *)
Theorem C19_hockney_potential_mirror_x : forall nx ny nz k0 (G r : grid),
  (forall p q s, (p < nx)%nat -> (q < ny)%nat -> (s < nz)%nat -> r (nx - 1 - p)%nat q s == r p q s) ->
  forall i j k, (i < nx)%nat -> (j < ny)%nat -> (k < nz)%nat ->
  potential (nx, ny, nz) k0 G r (nx - 1 - i)%nat j k == potential (nx, ny, nz) k0 G r i j k.
Proof. exact hockney_potential_mirror_x. Qed.

Theorem C19_hockney_potential_mirror_y : forall nx ny nz k0 (G r : grid),
  (forall p q s, (p < nx)%nat -> (q < ny)%nat -> (s < nz)%nat -> r p (ny - 1 - q)%nat s == r p q s) ->
  forall i j k, (i < nx)%nat -> (j < ny)%nat -> (k < nz)%nat ->
  potential (nx, ny, nz) k0 G r i (ny - 1 - j)%nat k == potential (nx, ny, nz) k0 G r i j k.
Proof. exact hockney_potential_mirror_y. Qed.

Theorem C19_hockney_potential_mirror_tau : forall nx ny nz k0 (G r : grid),
  (forall p q s, (p < nx)%nat -> (q < ny)%nat -> (s < nz)%nat -> r p q (nz - 1 - s)%nat == r p q s) ->
  forall i j k, (i < nx)%nat -> (j < ny)%nat -> (k < nz)%nat ->
  potential (nx, ny, nz) k0 G r i j (nz - 1 - k)%nat == potential (nx, ny, nz) k0 G r i j k.
Proof. exact hockney_potential_mirror_z. Qed.

Theorem C19_hockney_force_mirror_x : forall nx ny nz cell k0 ig2 (G r : grid),
  (forall p q s, (p < nx)%nat -> (q < ny)%nat -> (s < nz)%nat -> r (nx - 1 - p)%nat q s == r p q s) ->
  forall i j k, (i < nx)%nat -> (j < ny)%nat -> (k < nz)%nat ->
  let F := fun comp => field (nx, ny, nz) cell ig2 comp (potential (nx, ny, nz) k0 G r) in
  F 0%nat (nx - 1 - i)%nat j k == - F 0%nat i j k /\ F 1%nat (nx - 1 - i)%nat j k == F 1%nat i j k /\
  F 2%nat (nx - 1 - i)%nat j k == F 2%nat i j k.
Proof. exact hockney_force_mirror_x. Qed.

Theorem C19_hockney_force_centre_plane_x : forall c ny nz cell k0 ig2 (G r : grid),
  let nx := (2 * c + 1)%nat in
  (forall p q s, (p < nx)%nat -> (q < ny)%nat -> (s < nz)%nat -> r (nx - 1 - p)%nat q s == r p q s) ->
  forall j k, (j < ny)%nat -> (k < nz)%nat ->
  field (nx, ny, nz) cell ig2 0 (potential (nx, ny, nz) k0 G r) c j k == 0.
Proof. exact hockney_force_centre_plane_x. Qed.

(* ---------------- Newton's third law on the grid ("near-vanishing net self-force"): if the density leaves the two boundary planes
   of the x axis empty, the total x-force of the charge distribution on itself, sum over cells of rho * F_x, is EXACTLY zero --
   every grid, every Green data, every density ... *)
Theorem C19_hockney_third_law_x : forall nx ny nz cell k0 ig2 (G r : grid),
  (forall q s, r 0%nat q s == 0) -> (forall q s, r (nx - 1)%nat q s == 0) ->
  sum3 nx ny nz (fun i j k => r i j k * field (nx, ny, nz) cell ig2 0 (potential (nx, ny, nz) k0 G r) i j k) == 0.
Proof. exact hockney_third_law_x. Qed.

(* ... and the hypothesis is needed: the code zeroes the force on the boundary planes, so a charge sitting there pushes without being
   pushed back (two unit charges at i = 0, 1 of a 3x1x1 grid, G(d) = 1/(1+d)) *)
Theorem C19_third_law_boundary_refuted :
  let G : grid := fun a _ _ => 1 / inject_Z (Z.of_nat (1 + a)) in
  let r : grid := fun a _ _ => if (a <? 2)%nat then 1 else 0 in
  ~ sum3 3 1 1 (fun i j k => r i j k * field (3, 1, 1)%nat (1, 1, 1) 1 0 (potential (3, 1, 1)%nat 1 G r) i j k) == 0.
Proof. exact third_law_boundary_refuted. Qed.

(* ---------------- F51 (genuine defect): the code's grid nodes are not mirror symmetric about the axis.  With cell_size = 2 gd / n
   (the code's rule: cx * n == 2 dx) the mirror image of normalized position u is n - u, so node 0 is mapped to the missing node n ... *)
Theorem C19_code_grid_mirror_image : forall dx cx n x, ~ cx == 0 -> cx * n == 2 * dx -> (x + dx) * / cx + (- x + dx) * / cx == n.
Proof. exact nrm_mirror. Qed.

(* ... and a charge in the top cell loses part of its charge on deposit while its mirror partner in the bottom cell does not
   (half extent 1, 4 points, cell 1/2; unit charges at x = +7/8 and x = -7/8, both inside [-1, 1]) *)
Theorem C19_code_grid_not_mirror_symmetric_refuted :
  let g := mkgeom (1, 1, 1) (1 # 2, 1 # 2, 1 # 2) (4, 4, 4)%Z in
  let up := mksp (7 # 8) 0 0 0 0 0 1 1 in
  let dn := mksp (- (7 # 8)) 0 0 0 0 0 1 1 in
  sumQ (map (contrib g up) (all_idx (g_shape g))) == 1 # 4 /\ sumQ (map (contrib g dn) (all_idx (g_shape g))) == 1.
Proof. exact code_grid_not_mirror_symmetric_refuted. Qed.

(* non-vacuity: the model's pipeline on a 2x1x1 grid with G(0) = 5, G(1) = 3 and density (1, 2): potential (5 + 6, 3 + 10) *)
Example C19_hockney_nonvacuous :
  let G : grid := fun a _ _ => if (a =? 0)%nat then 5 else 3 in
  let r : grid := fun a _ _ => if (a =? 0)%nat then 1 else 2 in
  Qred (potential (2, 1, 1)%nat 1 G r 0%nat 0%nat 0%nat) = 11 /\ Qred (potential (2, 1, 1)%nat 1 G r 1%nat 0%nat 0%nat) = 13.
Proof. vm_compute. split; reflexivity. Qed.

(* ======================================================================================================================
   Part 3 (real numbers; model SpaceCharge/Igf.v): the formula of _integrated_potential and the 8-corner sum G_values
   ====================================================================================================================== *)
From Coq Require Import Reals.
From Cheetah Require Import SpaceCharge.Igf.

(* _integrated_potential is odd in each argument (all reals) ... *)
Theorem C19_integrated_potential_odd : forall x y t : R,
  (ipot (- x) y t = - ipot x y t /\ ipot x (- y) t = - ipot x y t /\ ipot x y (- t) = - ipot x y t)%R.
Proof. exact (fun x y t => conj (ipot_odd_x x y t) (conj (ipot_odd_y x y t) (ipot_odd_t x y t))). Qed.

(* ... hence the integrated Green function (alternating sum over the 8 corners of the cell at offset (i, j, k)) depends on the
   absolute offsets only: what the mirrored layout of the doubled array relies on *)
Theorem C19_igf_depends_on_abs_offsets : forall dx dy dt i j k : R,
  igf dx dy dt i j k = igf dx dy dt (Rabs i) (Rabs j) (Rabs k).
Proof. exact igf_abs. Qed.

(* the 1/gamma^2 applied to all three gradients: electric force minus the magnetic force of the co-moving bunch *)
Theorem C19_lorentz_cancellation : forall E beta gamma : R, (gamma ^ 2 * (1 - beta ^ 2) = 1)%R ->
  (E - beta * (beta * E) = E * / gamma ^ 2)%R.
Proof. exact lorentz_cancellation. Qed.

Print Assumptions C19_green_layout.
Print Assumptions C19_hockney1_is_open_convolution.
Print Assumptions C19_hockney_is_open_convolution.
Print Assumptions C19_hockney_zero_cells_not_sources.
Print Assumptions C19_hockney_solve_linear.
Print Assumptions C19_field_boundary_zero.
Print Assumptions C19_hockney_kick_perm.
Print Assumptions C19_hockney_kick_linear_in_charge.
Print Assumptions C19_hockney_zero_charge_no_kick.
Print Assumptions C19_hockney_lost_particles_not_sources.
Print Assumptions C19_hockney_off_grid_bunch_no_kick.
Print Assumptions C19_hockney_kick_superposition.
Print Assumptions C19_hockney_potential_mirror_x.
Print Assumptions C19_hockney_potential_mirror_y.
Print Assumptions C19_hockney_potential_mirror_tau.
Print Assumptions C19_hockney_force_mirror_x.
Print Assumptions C19_hockney_force_centre_plane_x.
Print Assumptions C19_hockney_third_law_x.
Print Assumptions C19_third_law_boundary_refuted.
Print Assumptions C19_hockney_nonvacuous.
Print Assumptions C19_code_grid_mirror_image.
Print Assumptions C19_code_grid_not_mirror_symmetric_refuted.
Print Assumptions C19_integrated_potential_odd.
Print Assumptions C19_igf_depends_on_abs_offsets.
Print Assumptions C19_lorentz_cancellation.
