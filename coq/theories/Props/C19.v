(** C19 -- Space-charge kicks change momenta only and scale with charge and length.   Level: PARTIAL.
    Proved here (model SpaceCharge/Cic.v, proofs SpaceCharge/CicProofs.v): the algebraic clauses, for every grid
    geometry, particle list, charge, survival value and length, with the field solve (Hockney FFT convolution with
    the integrated Green function, central differences) taken as an ARBITRARY LINEAR operator on grids.
    Not proved (tested on the implementation only): the numerical accuracy of that operator (uniform sphere),
    the outward push, the first-order behaviour of delta, and that the grid geometry (sigma-based) is itself
    invariant under the operations below.
    Only property theorems live here: each is closed by [exact] and followed by [Print Assumptions]. *)
From Coq Require Import List Bool ZArith QArith Permutation.
From Cheetah Require Import SpaceCharge.Cic SpaceCharge.CicProofs.
Import ListNotations.
Open Scope Q_scope.

(* the 8 cloud-in-cell weights of a particle sum to one and lie in [0, 1] *)
Theorem C19_cic_weights_sum1 : forall n : q3, sumQ (map (cw n) (corners (cell_of n))) == 1.
Proof. exact cic_weights_sum1. Qed.

Theorem C19_cic_weights_range : forall (n : q3) c, In c (corners (cell_of n)) -> 0 <= cw n c <= 1.
Proof. exact cic_weights_range. Qed.

(* deposited charge density: linear in the charges, additive, order independent, blind to lost particles *)
Theorem C19_deposit_linear_in_charge : forall g a ps k,
  rho g (map (fun p => mksp (s_x p) (s_px p) (s_y p) (s_py p) (s_z p) (s_pz p) (a * s_q p) (s_s p)) ps) k == a * rho g ps k.
Proof. exact deposit_linear_in_charge. Qed.

Theorem C19_deposit_additive : forall g ps1 ps2 k, rho g (ps1 ++ ps2) k == rho g ps1 k + rho g ps2 k.
Proof. exact deposit_app. Qed.

Theorem C19_deposit_perm : forall g ps ps' k, Permutation ps ps' -> rho g ps k == rho g ps' k.
Proof. exact deposit_perm. Qed.

Theorem C19_deposit_ignores_lost : forall g ps k,
  rho g ps k == rho g (filter (fun p => negb (Qeq_bool (s_s p) 0)) ps) k.
Proof. exact deposit_ignores_lost. Qed.

Theorem C19_deposit_only_on_grid : forall g p k, valid (g_shape g) k = false -> contrib g p k == 0.
Proof. exact contrib_invalid. Qed.

(* charge conservation: particles whose 8 surrounding grid points exist put exactly charge * survival on the grid *)
Theorem C19_deposit_conserves_charge : forall g ps,
  (forall p, In p ps -> forall c, In c (corners (cell_of (nrm g p))) -> valid (g_shape g) c = true) ->
  sumQ (map (rho g ps) (all_idx (g_shape g))) == sumQ (map (fun p => s_q p * s_s p) ps) * inv_vol g.
Proof. exact deposit_conserves_charge. Qed.

(* gathering reproduces a uniform field exactly (weights sum to one) *)
Theorem C19_gather_uniform : forall g e f p,
  (forall c, In c (corners (cell_of (nrm g p))) -> valid (g_shape g) c = true) ->
  gather g e (fun _ => f) p == e * f.
Proof. exact gather_uniform. Qed.

Section C19.
(* the field solve: component -> charge-density grid -> force-per-charge grid; any linear operator *)
Variable solve : nat -> (idx -> Q) -> idx -> Q.
Hypothesis solve_ext : forall c r r', (forall k, r k == r' k) -> forall k, solve c r k == solve c r' k.
Hypothesis solve_scale : forall c a r k, solve c (fun i => a * r i) k == a * solve c r k.

(* the momentum change of every particle is the same whichever order the bunch is stored in *)
Theorem C19_gather_perm_equivariant : forall g e dt ps ps' comp p, Permutation ps ps' ->
  dP solve g e dt ps' comp p == dP solve g e dt ps comp p.
Proof. exact (gather_perm_equivariant solve solve_ext). Qed.

Theorem C19_kick_perm : forall g e dt ps ps', Permutation ps ps' ->
  Permutation (kick solve g e dt ps) (map (kick_one solve g e dt ps) ps') /\
  forall p comp, dP solve g e dt ps' comp p == dP solve g e dt ps comp p.
Proof. exact (kick_perm solve solve_ext). Qed.

(* scaling every charge by a scales every momentum change by a *)
Theorem C19_kick_linear_in_charge : forall g e dt a ps comp p,
  dP solve g e dt (map (scale_q a) ps) comp (scale_q a p) == a * dP solve g e dt ps comp p.
Proof. exact (kick_linear_in_charge solve solve_ext solve_scale). Qed.

(* scaling the effect length by a scales every momentum change by a (dt = L / (c beta)) *)
Theorem C19_kick_linear_in_length : forall g e a L c beta ps comp p,
  dP solve g e (dt_of (a * L) c beta) ps comp p == a * dP solve g e (dt_of L c beta) ps comp p.
Proof. exact (kick_linear_in_length solve). Qed.

Theorem C19_zero_charge_no_kick : forall g e dt ps comp p, (forall x, In x ps -> s_q x == 0) ->
  dP solve g e dt ps comp p == 0.
Proof. exact (zero_charge_no_kick solve solve_ext solve_scale). Qed.

Theorem C19_lost_particles_not_sources : forall g e dt ps comp p,
  dP solve g e dt ps comp p == dP solve g e dt (filter (fun p => negb (Qeq_bool (s_s p) 0)) ps) comp p.
Proof. exact (lost_particles_not_sources solve solve_ext). Qed.

(* F50 (genuine defect): the grid is centred on the axis, not on the bunch.  A bunch none of whose particles has an
   existing surrounding grid point deposits nothing and is not kicked, however large its charge ... *)
Theorem C19_off_grid_bunch_no_kick : forall g e dt ps comp p,
  (forall x, In x ps -> forall c, In c (corners (cell_of (nrm g x))) -> valid (g_shape g) c = false) ->
  dP solve g e dt ps comp p == 0.
Proof. exact (off_grid_bunch_no_kick solve solve_ext solve_scale). Qed.

(* the kick leaves SI positions, charges and survival probabilities alone *)
Theorem C19_kick_keeps_rest : forall g e dt ps,
  map s_x (kick solve g e dt ps) = map s_x ps /\ map s_y (kick solve g e dt ps) = map s_y ps /\
  map s_z (kick solve g e dt ps) = map s_z ps /\ map s_q (kick solve g e dt ps) = map s_q ps /\
  map s_s (kick solve g e dt ps) = map s_s ps.
Proof. exact (kick_keeps_rest solve). Qed.

(* SpaceChargeKick.track in cheetah coordinates; pz_SI and delta conversions abstract (C18) *)
Variable pzf : Q -> cpart -> Q.
Variable dlf : Q -> Q -> Q -> Q -> Q.

Theorem C19_track_is_per_particle : forall g e c p0 beta0 L b,
  b_parts (sc_track solve pzf dlf g e c p0 beta0 L b) = map (track_one solve pzf dlf g e c p0 beta0 L b) (b_parts b).
Proof. exact (sc_track_parts solve pzf dlf). Qed.

(* x and y are returned untouched, tau through -(-beta0 tau)/beta0 *)
Theorem C19_positions_unchanged : forall g e c p0 beta0 L b p, ~ beta0 == 0 ->
  c_x (track_one solve pzf dlf g e c p0 beta0 L b p) = c_x p /\
  c_y (track_one solve pzf dlf g e c p0 beta0 L b p) = c_y p /\
  c_tau (track_one solve pzf dlf g e c p0 beta0 L b p) == c_tau p.
Proof. exact (positions_unchanged solve pzf dlf). Qed.

Theorem C19_charges_surv_energy_unchanged : forall g e c p0 beta0 L b,
  b_energy (sc_track solve pzf dlf g e c p0 beta0 L b) = b_energy b /\
  map c_q (b_parts (sc_track solve pzf dlf g e c p0 beta0 L b)) = map c_q (b_parts b) /\
  map c_s (b_parts (sc_track solve pzf dlf g e c p0 beta0 L b)) = map c_s (b_parts b) /\
  length (b_parts (sc_track solve pzf dlf g e c p0 beta0 L b)) = length (b_parts b).
Proof. exact (charges_surv_energy_unchanged solve pzf dlf). Qed.

(* px, py change by (SI momentum change)/p0 -- hence proportionally to charge and length *)
Theorem C19_px_change : forall g e c p0 beta0 L b p, ~ p0 == 0 ->
  c_px (track_one solve pzf dlf g e c p0 beta0 L b p) ==
    c_px p + dP solve g e (dt_of L c beta0) (si_of pzf p0 beta0 b) 0 (to_si pzf p0 beta0 (b_energy b) p) / p0 /\
  c_py (track_one solve pzf dlf g e c p0 beta0 L b p) ==
    c_py p + dP solve g e (dt_of L c beta0) (si_of pzf p0 beta0 b) 1 (to_si pzf p0 beta0 (b_energy b) p) / p0.
Proof. exact (px_change solve pzf dlf). Qed.

Theorem C19_zero_charge_px : forall g e c p0 beta0 L b p, ~ p0 == 0 ->
  (forall x, In x (b_parts b) -> c_q x == 0) ->
  c_px (track_one solve pzf dlf g e c p0 beta0 L b p) == c_px p /\
  c_py (track_one solve pzf dlf g e c p0 beta0 L b p) == c_py p.
Proof. exact (zero_charge_px solve solve_ext solve_scale pzf dlf). Qed.
End C19.

(* ... and such bunches exist: two unit charges around x = 10 on the 4^3 grid of half extent 1 (refutes "a charged bunch is
   pushed apart" for off-axis bunches) *)
Theorem C19_offaxis_bunch_refuted :
  (forall p, In p f50_bunch -> forall c, In c (corners (cell_of (nrm f50_geom p))) -> valid (g_shape f50_geom) c = false) /\
  (forall p, In p f50_bunch -> ~ s_q p * s_s p == 0).
Proof. exact offaxis_bunch_refuted. Qed.

(* non-vacuity: the hypotheses on [solve] are satisfiable (e.g. by a local linear stencil), and a concrete deposit *)
Example C19_solve_exists :
  let solve := fun (c : nat) (r : idx -> Q) (k : idx) => let '(i, j, l) := k in r (i + 1, j, l)%Z - r (i - 1, j, l)%Z in
  (forall c r r', (forall k, r k == r' k) -> forall k, solve c r k == solve c r' k) /\
  (forall c a r k, solve c (fun i => a * r i) k == a * solve c r k).
Proof.
  split.
  - intros c r r' H [[i j] l]. simpl. rewrite !H. reflexivity.
  - intros c a r [[i j] l]. simpl. ring.
Qed.

Example C19_nonvacuous :
  let g := mkgeom (1, 1, 1) (1#2, 1#2, 1#2) (4, 4, 4)%Z in
  let p := mksp (1#8) 0 (-(1#4)) 0 0 0 2 (1#2) in
  Qred (rho g [p] (2, 1, 2)%Z) = 3 /\ Qred (rho g [p] (3, 1, 2)%Z) = 1 /\ Qred (rho g [p] (0, 0, 0)%Z) = 0.
Proof. vm_compute. repeat split. Qed.

Print Assumptions C19_cic_weights_sum1.
Print Assumptions C19_cic_weights_range.
Print Assumptions C19_deposit_linear_in_charge.
Print Assumptions C19_deposit_additive.
Print Assumptions C19_deposit_perm.
Print Assumptions C19_deposit_ignores_lost.
Print Assumptions C19_deposit_only_on_grid.
Print Assumptions C19_deposit_conserves_charge.
Print Assumptions C19_gather_uniform.
Print Assumptions C19_gather_perm_equivariant.
Print Assumptions C19_kick_perm.
Print Assumptions C19_kick_linear_in_charge.
Print Assumptions C19_kick_linear_in_length.
Print Assumptions C19_zero_charge_no_kick.
Print Assumptions C19_lost_particles_not_sources.
Print Assumptions C19_off_grid_bunch_no_kick.
Print Assumptions C19_offaxis_bunch_refuted.
Print Assumptions C19_kick_keeps_rest.
Print Assumptions C19_track_is_per_particle.
Print Assumptions C19_positions_unchanged.
Print Assumptions C19_charges_surv_energy_unchanged.
Print Assumptions C19_px_change.
Print Assumptions C19_zero_charge_px.
Print Assumptions C19_solve_exists.
Print Assumptions C19_nonvacuous.
