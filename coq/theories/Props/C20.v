(** C20 -- Screen and BPM readings show the beam that passed them.
    Only property theorems live here: each is closed by [exact] of a lemma proved in Diag/ScreenProofs.v
    and followed by [Print Assumptions].  Model: Diag/Screen.v (the code as it is, findings F14/F15 included). *)
From Coq Require Import List Bool ZArith QArith.
From Cheetah Require Import Diag.Screen Diag.ScreenProofs.
Import ListNotations.
Open Scope Q_scope.

(* a screen with at least one pixel after binning, positive pixel sizes and resolution *)
Definition good_screen (s : screen) : Prop :=
  (0 < nbx s)%nat /\ (0 < nby s)%nat /\ 0 < spx s /\ 0 < spy s /\ (0 < sW s)%Z /\ (0 < sH s)%Z.

(* the histogram image has shape (vertical pixels, horizontal pixels) after binning *)
Theorem C20_image_shape : forall s ps,
  length (to_lists (hist_image s ps)) = Z.to_nat (sH s / sbin s) /\
  Forall (fun row => length row = Z.to_nat (sW s / sbin s)) (to_lists (hist_image s ps)).
Proof. exact image_shape. Qed.

Theorem C20_reading_shape : forall s rd, (rd = None \/ exists ps, rd = Some (Particles ps)) ->
  reading_shape s rd = (Z.to_nat (sH s / sbin s), Z.to_nat (sW s / sbin s)).
Proof. exact reading_shape_ok. Qed.

(* the bin edges are strictly increasing and every pixel has the same width *)
Theorem C20_edges_increasing : forall s i j, good_screen s -> (i < j)%nat ->
  edge (xlo s) (xhi s) (nbx s) i < edge (xlo s) (xhi s) (nbx s) j.
Proof. exact edges_x_sorted. Qed.

(* histogramdd along one axis: half-open bins, the last one closed *)
Theorem C20_bin_index : forall lo hi n v c,
  (0 < n)%nat -> lo < hi -> (c < n)%nat ->
  edge lo hi n c <= v -> (v < edge lo hi n (S c) \/ (S c = n /\ v <= hi)) ->
  bin_index (linspace lo hi n) v = Some c.
Proof. exact bin_index_spec. Qed.

(* a particle at (x, y) strictly inside pixel (r, c) of the grid centred on the misaligned screen centre
   (dx, dy) is recorded in pixel (r, c) -- for the code as it is: when the y-misalignment is zero *)
Theorem C20_pixel_contains : forall s p r c, good_screen s -> sdy s == 0 ->
  ((c < nbx s)%nat /\ (r < nby s)%nat /\
   edge (xlo s) (xhi s) (nbx s) c < p_x p - sdx s < edge (xlo s) (xhi s) (nbx s) (S c) /\
   edge (ylo s) (yhi s) (nby s) (nby s - 1 - r) < p_y p - sdy s < edge (ylo s) (yhi s) (nby s) (nby s - r)) ->
  pixel_of s (read_particle s p) = Some (r, c).
Proof. exact pixel_contains. Qed.

(* ... and being recorded in pixel (r, c) means: counted in image[r][c] with charge * survival, nowhere else *)
Theorem C20_image_counts : forall s p ps r c, (0 < nbx s)%nat -> (0 < nby s)%nat -> (r < nby s)%nat ->
  pixel_of s p = Some (r, c) ->
  at2 (hist_image s (p :: ps)) r c == p_q p * p_s p + at2 (hist_image s ps) r c.
Proof. exact image_counts. Qed.

Theorem C20_image_counts_not : forall s p ps r c, (0 < nbx s)%nat -> (0 < nby s)%nat -> (r < nby s)%nat ->
  pixel_of s p <> Some (r, c) ->
  at2 (hist_image s (p :: ps)) r c == at2 (hist_image s ps) r c.
Proof. exact image_counts_not. Qed.

(* F14 (genuine defect): Screen.track(ParticleBeam) subtracts the y-misalignment from px.
   Witness: 6x4 screen, pixels 1/2 x 1/4, misalignment (0, 1/4), particle at (1/4, 1/8): it lies in
   pixel (2, 3) of the misaligned screen, is recorded in (1, 3), and its px became -1/4. *)
Theorem C20_misalign_y_refuted :
  good_screen f14_screen /\
  in_pixel f14_screen (sdx f14_screen) (sdy f14_screen) (p_x f14_particle) (p_y f14_particle) 2 3 /\
  pixel_of f14_screen (read_particle f14_screen f14_particle) = Some (1%nat, 3%nat) /\
  p_px (read_particle f14_screen f14_particle) == - (1#4).
Proof. exact misalign_y_refuted. Qed.

(* with the repair (subtract from index 2) the clause holds for every misalignment *)
Theorem C20_pixel_contains_after_fix : forall s p r c, good_screen s ->
  in_pixel s (sdx s) (sdy s) (p_x p) (p_y p) r c ->
  pixel_of s (read_particle_fixed s p) = Some (r, c).
Proof. exact pixel_contains_fixed. Qed.

(* row 0 is the top: the highest y-bin (closed at the top edge) goes to row 0; rows descend / columns ascend *)
Theorem C20_row0_is_top : forall s p c, good_screen s -> (c < nbx s)%nat ->
  edge (xlo s) (xhi s) (nbx s) c <= p_x p < edge (xlo s) (xhi s) (nbx s) (S c) ->
  edge (ylo s) (yhi s) (nby s) (nby s - 1) <= p_y p <= yhi s ->
  pixel_of s p = Some (0%nat, c).
Proof. exact row0_is_top. Qed.

Theorem C20_rows_descend : forall s p1 p2 r1 c1 r2 c2, (0 < nbx s)%nat -> (0 < nby s)%nat ->
  pixel_of s p1 = Some (r1, c1) -> pixel_of s p2 = Some (r2, c2) -> p_y p1 <= p_y p2 -> (r2 <= r1)%nat.
Proof. exact rows_descend. Qed.

Theorem C20_cols_ascend : forall s p1 p2 r1 c1 r2 c2,
  pixel_of s p1 = Some (r1, c1) -> pixel_of s p2 = Some (r2, c2) -> p_x p1 <= p_x p2 -> (c1 <= c2)%nat.
Proof. exact cols_ascend. Qed.

(* the histogram image sums to the surviving charge inside the screen *)
Theorem C20_hist_sum : forall s ps, good_screen s ->
  sumQ (map (fun i => sumQ (map (fun j => at2 (hist_image s ps) i j) (seq 0 (cols (hist_image s ps)))))
            (seq 0 (rows (hist_image s ps))))
  == sumQ (map (fun p => if inside s p then p_q p * p_s p else 0) ps).
Proof. exact hist_sum. Qed.

(* BPM: passes the beam on unchanged and reads the survival-weighted centroid *)
Theorem C20_bpm_centroid : forall active ps, ~ sumQ (map p_s ps) == 0 ->
  let '(out, (rx, ry)) := bpm_track active (Particles ps) in
  out = Particles ps /\
  sumQ (map (fun p => (p_x p - rx) * p_s p) ps) == 0 /\
  sumQ (map (fun p => (p_y p - ry) * p_s p) ps) == 0.
Proof. exact bpm_centroid. Qed.

Theorem C20_bpm_param : forall active mx mpx my mpy q,
  bpm_track active (Params mx mpx my mpy q) = (Params mx mpx my mpy q, (mx, my)).
Proof. exact bpm_param. Qed.

(* inactive diagnostics let the beam pass unchanged (and record nothing) *)
Theorem C20_inactive_passthrough : forall s b, sactive s = false -> screen_track s b = (b, None).
Proof. exact inactive_passthrough. Qed.

Theorem C20_bpm_passthrough : forall active b, fst (bpm_track active b) = b.
Proof. exact bpm_passthrough. Qed.

Theorem C20_active_nonblocking_passthrough : forall s b, sactive s = true -> sblocking s = false ->
  screen_track s b = (b, Some (read_beam s b)).
Proof. exact active_nonblocking_passthrough. Qed.

Theorem C20_blocking_kills : forall s ps, sactive s = true -> sblocking s = true ->
  exists ps', fst (screen_track s (Particles ps)) = Particles ps' /\
    map p_x ps' = map p_x ps /\ map p_y ps' = map p_y ps /\ map p_q ps' = map p_q ps /\ map p_s ps' = map (fun _ => 0) ps.
Proof. exact blocking_kills. Qed.

(* F15 (genuine defect): the ParameterBeam image of a 6x4 screen has shape (6, 4) instead of (4, 6),
   and its samples sit on the left pixel edges, not on the pixel centres *)
Theorem C20_param_image_shape_refuted :
  good_screen f15_screen /\
  reading_shape f15_screen (Some (Params 0 0 0 0 1)) = (6%nat, 4%nat) /\
  (Z.to_nat (sH f15_screen / sbin f15_screen), Z.to_nat (sW f15_screen / sbin f15_screen)) = (4%nat, 6%nat) /\
  param_sample_x f15_screen 3 == edge (xlo f15_screen) (xhi f15_screen) (nbx f15_screen) 3 /\
  ~ param_sample_x f15_screen 3 == nth 3 (centers_x f15_screen) 0.
Proof. exact param_image_shape_refuted. Qed.

Theorem C20_param_peak_refuted :
  reading_shape f15b_screen (Some (Params 0 0 0 0 1)) = reading_shape f15b_screen (Some (Particles [])) /\
  pixel_of f15b_screen (mkP (21#16) 0 (-(11#16)) 0 1 1) = Some (5%nat, 6%nat) /\
  param_peak f15b_screen (21#16) (-(11#16)) = (7%nat, 4%nat).
Proof. exact param_peak_refuted. Qed.

Theorem C20_param_samples_at_left_edges : forall s i, (0 < nbx s)%nat -> (0 < sbin s)%Z ->
  (sW s = sbin s * (sW s / sbin s))%Z ->
  param_sample_x s i == edge (xlo s) (xhi s) (nbx s) i.
Proof. exact param_samples_at_left_edges. Qed.

(* non-vacuity: a concrete image, evaluated *)
Example C20_nonvacuous :
  let s := mkscreen 6 4 1 (1#2) (1#4) (1#2) 0 true false in
  let ps := [mkP (1#4) 0 (1#8) 0 1 1; mkP (-(5#4)) 0 (-(3#8)) 0 2 (1#2)] in
  map (map Qred) (to_lists (hist_image s (map (read_particle s) ps))) =
  [[0;0;0;0;0;0]; [0;0;1;0;0;0]; [0;0;0;0;0;0]; [0;0;0;0;0;0]].
Proof. vm_compute. reflexivity. Qed.

Print Assumptions C20_image_shape.
Print Assumptions C20_reading_shape.
Print Assumptions C20_edges_increasing.
Print Assumptions C20_bin_index.
Print Assumptions C20_pixel_contains.
Print Assumptions C20_image_counts.
Print Assumptions C20_image_counts_not.
Print Assumptions C20_misalign_y_refuted.
Print Assumptions C20_pixel_contains_after_fix.
Print Assumptions C20_row0_is_top.
Print Assumptions C20_rows_descend.
Print Assumptions C20_cols_ascend.
Print Assumptions C20_hist_sum.
Print Assumptions C20_bpm_centroid.
Print Assumptions C20_bpm_param.
Print Assumptions C20_inactive_passthrough.
Print Assumptions C20_bpm_passthrough.
Print Assumptions C20_active_nonblocking_passthrough.
Print Assumptions C20_blocking_kills.
Print Assumptions C20_param_image_shape_refuted.
Print Assumptions C20_param_peak_refuted.
Print Assumptions C20_param_samples_at_left_edges.
Print Assumptions C20_nonvacuous.

(* ---- survival weights (appended): a histogram screen weighs every particle with charge * survival probability *)
From Cheetah Require Import Diag.ScreenWeights.

(* a pixel of the image is the weighted count (weight = charge * survival) of the particles recorded in it *)
Theorem C20_pixel_weighted_count : forall s ps r c,
  at2 (hist_image s ps) r c ==
  sumQ (map (fun p => if hits (bins_of s p) c (nby s - 1 - r) then p_q p * p_s p else 0) ps).
Proof. exact pixel_weighted_count. Qed.

(* a lost particle (survival probability 0) is invisible: in every pixel, wherever it is *)
Theorem C20_lost_particle_invisible : forall s p ps r c, p_s p == 0 ->
  at2 (hist_image s (p :: ps)) r c == at2 (hist_image s ps) r c.
Proof. exact lost_invisible. Qed.

(* the image shows the beam with the lost particles deleted *)
Theorem C20_image_of_survivors : forall s ps r c,
  at2 (hist_image s ps) r c == at2 (hist_image s (filter (fun p => negb (Qeq_bool (p_s p) 0)) ps)) r c.
Proof. exact lost_deleted. Qed.

(* fractional survival: only the product charge * survival matters *)
Theorem C20_weight_is_charge_times_survival : forall s ps r c,
  at2 (hist_image s ps) r c ==
  at2 (hist_image s (map (fun p => mkP (p_x p) (p_px p) (p_y p) (p_py p) (p_q p * p_s p) 1) ps)) r c.
Proof. exact weight_folded. Qed.

(* non-vacuity with fractional and zero survival: charge 2 at survival 1/4 shows as 1/2; the lost particle does not show *)
Example C20_weighted_nonvacuous :
  let s := mkscreen 6 4 1 (1#2) (1#4) 0 0 true false in
  let ps := [mkP (1#4) 0 (1#8) 0 2 (1#4); mkP (1#4) 0 (1#8) 0 1 1; mkP (-(5#4)) 0 (-(3#8)) 0 3 0] in
  map (map Qred) (to_lists (hist_image s ps)) =
  [[0;0;0;0;0;0]; [0;0;0;(3#2);0;0]; [0;0;0;0;0;0]; [0;0;0;0;0;0]].
Proof. vm_compute. reflexivity. Qed.

Print Assumptions C20_pixel_weighted_count.
Print Assumptions C20_lost_particle_invisible.
Print Assumptions C20_image_of_survivors.
Print Assumptions C20_weight_is_charge_times_survival.
Print Assumptions C20_weighted_nonvacuous.
