(** Model of cheetah/accelerator/space_charge_kick.py over Q:
      _deposit_charge_on_grid   cloud-in-cell deposition (floor, 8 corners, product of 1 - |.|, valid mask,
                                charge * survival, division by the cell volume)
      _compute_forces           gathering with the same weights (invalid corners contribute 0), times e
      track                     SI coordinates, p += F * dt with dt = L / (c * beta), back to cheetah coordinates
    The field solve in between (_array_rho, _integrated_green_function, FFT convolution, central
    differences, -1/gamma^2) is NOT modelled formula by formula: the proofs (CicProofs.v) take it as an
    arbitrary LINEAR operator from charge grids to force grids (Section variable + linearity hypotheses).
    The grid geometry (grid_dimensions = extend * sigma, cell_size = 2 * grid_dimensions / shape) is an
    input of the model: in the code it is a function of positions and survival probabilities only.
    Nothing is proved here. *)
From Coq Require Import List Bool ZArith QArith Qabs Qround.
Import ListNotations.
Open Scope Q_scope.

Definition idx := (Z * Z * Z)%type.
Definition q3 := (Q * Q * Q)%type.

Definition sumQ (l : list Q) : Q := fold_right Qplus 0 l.

(* ------------------------------------------------------------------ grid geometry *)
Record geom := mkgeom {
  g_dim : q3;       (* grid_dimensions (half extent per axis) *)
  g_cell : q3;      (* cell_size *)
  g_shape : idx }.  (* self.grid_shape *)

(* a macro-particle in SI coordinates (x, px, y, py, z, pz) with charge and survival probability *)
Record spart := mksp { s_x : Q; s_px : Q; s_y : Q; s_py : Q; s_z : Q; s_pz : Q; s_q : Q; s_s : Q }.

(* normalized_positions = (positions + grid_dimensions) * inv_cell_size      (gather: ... / cell_size) *)
Definition nrm (g : geom) (p : spart) : q3 :=
  let '(dx, dy, dz) := g_dim g in let '(cx, cy, cz) := g_cell g in
  ((s_x p + dx) * / cx, (s_y p + dy) * / cy, (s_z p + dz) * / cz).

(* cell_indices = floor(normalized_positions) *)
Definition cell_of (n : q3) : idx := let '(a, b, c) := n in (Qfloor a, Qfloor b, Qfloor c).

(* the 8 surrounding grid points, in the order of the `offsets` tensor *)
Definition offsets : list idx :=
  [(0,0,0); (0,0,1); (0,1,0); (0,1,1); (1,0,0); (1,0,1); (1,1,0); (1,1,1)]%Z.
Definition corners (c : idx) : list idx :=
  let '(i, j, k) := c in map (fun o => let '(a, b, d) := o in (i + a, j + b, k + d)%Z) offsets.

(* weights = 1 - |normalized_positions - surrounding_indices| ; cell_weights = prod over the 3 axes *)
Definition w1 (n : Q) (i : Z) : Q := 1 - Qabs (n - inject_Z i).
Definition cw (n : q3) (c : idx) : Q :=
  let '(a, b, d) := n in let '(i, j, k) := c in w1 a i * w1 b j * w1 d k.

(* valid_mask: the grid point exists *)
Definition valid (sh : idx) (c : idx) : bool :=
  let '(nx, ny, nz) := sh in let '(i, j, k) := c in
  ((0 <=? i) && (i <? nx) && (0 <=? j) && (j <? ny) && (0 <=? k) && (k <? nz))%Z.

Definition idx_eqb (a b : idx) : bool :=
  let '(i, j, k) := a in let '(i', j', k') := b in ((i =? i') && (j =? j') && (k =? k'))%Z.

(* what a unit charge at p puts on grid point k (index_put_ with accumulate=True over the valid corners) *)
Definition contrib (g : geom) (p : spart) (k : idx) : Q :=
  sumQ (map (fun c => if idx_eqb c k && valid (g_shape g) c then cw (nrm g p) c else 0)
            (corners (cell_of (nrm g p)))).

Definition inv_vol (g : geom) : Q := let '(cx, cy, cz) := g_cell g in / cx * / cy * / cz.

(* _deposit_charge_on_grid: charge density on the grid *)
Definition rho (g : geom) (ps : list spart) (k : idx) : Q :=
  sumQ (map (fun p => contrib g p k * (s_q p * s_s p)) ps) * inv_vol g.

(* _compute_forces for one particle and one force component given on the grid:
   sum over the 8 corners of cell_weight * e * (F at the corner, or 0 where the corner is not valid) *)
Definition gather (g : geom) (e : Q) (F : idx -> Q) (p : spart) : Q :=
  sumQ (map (fun c => cw (nrm g p) c * e * (if valid (g_shape g) c then F c else 0))
            (corners (cell_of (nrm g p)))).

(* dt = effect_length / (speed_of_light * relativistic_beta) *)
Definition dt_of (L c beta : Q) : Q := L / (c * beta).

Section Kick.
(* the field solve: component (0 = x, 1 = y, 2 = z) -> charge density grid -> force-per-charge grid *)
Variable solve : nat -> (idx -> Q) -> idx -> Q.

(* momentum change of particle p of the SI beam ps (component comp) *)
Definition dP (g : geom) (e dt : Q) (ps : list spart) (comp : nat) (p : spart) : Q :=
  gather g e (solve comp (rho g ps)) p * dt.

(* xp[..., 1] += F_x dt ; xp[..., 3] += F_y dt ; xp[..., 5] += F_z dt *)
Definition kick_one (g : geom) (e dt : Q) (ps : list spart) (p : spart) : spart :=
  mksp (s_x p) (s_px p + dP g e dt ps 0 p) (s_y p) (s_py p + dP g e dt ps 1 p)
       (s_z p) (s_pz p + dP g e dt ps 2 p) (s_q p) (s_s p).
Definition kick (g : geom) (e dt : Q) (ps : list spart) : list spart := map (kick_one g e dt ps) ps.

(* ---------------- cheetah coordinates around the kick *)
Record cpart := mkcp { c_x : Q; c_px : Q; c_y : Q; c_py : Q; c_tau : Q; c_delta : Q; c_q : Q; c_s : Q }.
Record cbeam := mkcb { b_parts : list cpart; b_energy : Q }.

(* to_xyz_pxpypz: px_SI = px * p0, z = tau * -beta0; the longitudinal momentum involves square roots and is kept
   abstract here ([pzf]; its definition and round trip are the subject of C18) *)
Variable pzf : Q -> cpart -> Q.          (* energy -> particle -> pz_SI *)
Variable dlf : Q -> Q -> Q -> Q -> Q.    (* energy -> PX -> PY -> PZ -> delta : from_xyz_pxpypz *)

Definition to_si (p0 beta0 E : Q) (p : cpart) : spart :=
  mksp (c_x p) (c_px p * p0) (c_y p) (c_py p * p0) (c_tau p * - beta0) (pzf E p) (c_q p) (c_s p).
Definition from_si (p0 beta0 E : Q) (p : spart) : cpart :=
  mkcp (s_x p) (s_px p / p0) (s_y p) (s_py p / p0) (- s_z p / beta0) (dlf E (s_px p) (s_py p) (s_pz p)) (s_q p) (s_s p).

(* SpaceChargeKick.track for a non-vectorised beam; [g] is the geometry the code derives from the beam,
   [p0], [beta0] the reference momentum and velocity at energy E, [c] the speed of light *)
Definition sc_track (g : geom) (e c p0 beta0 L : Q) (b : cbeam) : cbeam :=
  let si := map (to_si p0 beta0 (b_energy b)) (b_parts b) in
  mkcb (map (from_si p0 beta0 (b_energy b)) (kick g e (dt_of L c beta0) si)) (b_energy b).
End Kick.

(* ------------------------------------------------------------------ for the correspondence: a whole grid as lists *)
Definition zrange (n : Z) : list Z := map Z.of_nat (seq 0 (Z.to_nat n)).
(* every index of a grid of shape sh, in storage order *)
Definition all_idx (sh : idx) : list idx :=
  let '(nx, ny, nz) := sh in
  flat_map (fun i => flat_map (fun j => map (fun k => (i, j, k)) (zrange nz)) (zrange ny)) (zrange nx).
Definition grid_lists (sh : idx) (f : idx -> Q) : list (list (list Q)) :=
  let '(nx, ny, nz) := sh in
  map (fun i => map (fun j => map (fun k => f (i, j, k)) (zrange nz)) (zrange ny)) (zrange nx).
