(** Case checkers for the C19 correspondence (vm_compute): the harness calls the real
    SpaceChargeKick._deposit_charge_on_grid / _compute_forces on dyadic inputs and writes inputs and
    observed outputs as Coq terms; the model of Cic.v is evaluated on the same inputs. *)
From Coq Require Import List Bool ZArith QArith Qabs.
From Cheetah Require Import SpaceCharge.Cic.
Import ListNotations.
Open Scope Q_scope.

Definition lookup (l : list (idx * Q)) (k : idx) : Q :=
  match find (fun e => idx_eqb (fst e) k) l with Some e => snd e | None => 0 end.

(* ---------------- deposition: the whole grid, exactly *)
Record c19case := mkc19 {
  d_g : geom; d_ps : list spart;
  d_obs : list (idx * Q) }.            (* the non-zero entries of the returned charge-density grid *)

Definition c19_check (c : c19case) : bool :=
  forallb (fun k => Qeq_bool (rho (d_g c) (d_ps c) k) (lookup (d_obs c) k)) (all_idx (g_shape (d_g c))) &&
  forallb (fun e => valid (g_shape (d_g c)) (fst e)) (d_obs c).

(* ---------------- gathering: forces on the particles from a given integer-valued force grid, to round-off *)
(* F_comp(i,j,k) = ((a i + b j + c k + d i j k + comp) mod m) - h *)
Definition test_field (a b c d m h : Z) (comp : nat) (k : idx) : Q :=
  let '(i, j, l) := k in inject_Z ((a * i + b * j + c * l + d * i * j * l + Z.of_nat comp) mod m - h).

Record c19gcase := mkc19g {
  f_g : geom; f_ps : list spart; f_e : Q;
  f_coef : Z * Z * Z * Z * Z * Z;
  f_obs : list (Q * Q * Q);             (* observed forces (x, y, z) per particle *)
  f_tol : Q }.

Definition close (tol a b : Q) : bool := Qle_bool (Qabs (a - b)) tol.

Definition c19_gcheck (c : c19gcase) : bool :=
  let '(a, b, cc, d, m, h) := f_coef c in
  Nat.eqb (length (f_ps c)) (length (f_obs c)) &&
  forallb (fun po => let '(p, (ox, oy, oz)) := po in
             close (f_tol c) (gather (f_g c) (f_e c) (test_field a b cc d m h 0) p) ox &&
             close (f_tol c) (gather (f_g c) (f_e c) (test_field a b cc d m h 1) p) oy &&
             close (f_tol c) (gather (f_g c) (f_e c) (test_field a b cc d m h 2) p) oz)
          (combine (f_ps c) (f_obs c)).
