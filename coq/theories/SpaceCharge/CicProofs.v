(** Proofs about the cloud-in-cell / kick model of Cic.v.  The field solve is an arbitrary linear operator. *)
From Coq Require Import List Bool ZArith QArith Qabs Qround Lia Lqa Permutation.
From Cheetah Require Import SpaceCharge.Cic.
Import ListNotations.
Open Scope Q_scope.

(* ------------------------------------------------------------------ sums *)
Lemma sumQ_app : forall a b, sumQ (a ++ b) == sumQ a + sumQ b.
Proof. induction a; intros; simpl; [ring | rewrite IHa; ring]. Qed.

Lemma sumQ_map_ext : forall (A : Type) (f g : A -> Q) l,
  (forall x, In x l -> f x == g x) -> sumQ (map f l) == sumQ (map g l).
Proof.
  induction l; intros; simpl; [reflexivity|].
  rewrite (H a (or_introl eq_refl)), IHl; [reflexivity|]. intros; apply H; right; assumption.
Qed.

Lemma sumQ_map_add : forall (A : Type) (f g : A -> Q) l,
  sumQ (map (fun x => f x + g x) l) == sumQ (map f l) + sumQ (map g l).
Proof. induction l; simpl; [ring | rewrite IHl; ring]. Qed.

Lemma sumQ_map_scale : forall (A : Type) (f : A -> Q) k l,
  sumQ (map (fun x => k * f x) l) == k * sumQ (map f l).
Proof. induction l; simpl; [ring | rewrite IHl; ring]. Qed.

Lemma sumQ_map_zero : forall (A : Type) (f : A -> Q) l, (forall x, In x l -> f x == 0) -> sumQ (map f l) == 0.
Proof.
  induction l; intros; simpl; [reflexivity|].
  rewrite (H a (or_introl eq_refl)), IHl; [ring|]. intros; apply H; right; assumption.
Qed.

Lemma sumQ_map_perm : forall (A : Type) (f : A -> Q) l l', Permutation l l' -> sumQ (map f l) == sumQ (map f l').
Proof.
  intros A f l l' H. induction H; simpl.
  - reflexivity.
  - rewrite IHPermutation; reflexivity.
  - ring.
  - rewrite IHPermutation1; assumption.
Qed.

(* ------------------------------------------------------------------ the cloud-in-cell weights *)
Lemma w1_floor : forall n, w1 n (Qfloor n) == 1 - (n - inject_Z (Qfloor n)).
Proof.
  intros. unfold w1. rewrite Qabs_pos; [reflexivity|]. pose proof (Qfloor_le n). lra.
Qed.

Lemma w1_floor1 : forall n, w1 n (Qfloor n + 1) == n - inject_Z (Qfloor n).
Proof.
  intros. unfold w1. pose proof (Qlt_floor n). rewrite inject_Z_plus in *.
  rewrite Qabs_neg by (change (inject_Z 1) with 1 in *; lra). change (inject_Z 1) with 1. ring.
Qed.

Lemma w1_pair : forall n, w1 n (Qfloor n) + w1 n (Qfloor n + 1) == 1.
Proof. intros. rewrite w1_floor, w1_floor1. ring. Qed.

Lemma w1_floor_range : forall n, 0 < w1 n (Qfloor n) <= 1.
Proof.
  intros. rewrite w1_floor. pose proof (Qfloor_le n). pose proof (Qlt_floor n).
  rewrite inject_Z_plus in H0. change (inject_Z 1) with 1 in H0. lra.
Qed.

Lemma w1_floor1_range : forall n, 0 <= w1 n (Qfloor n + 1) < 1.
Proof.
  intros. rewrite w1_floor1. pose proof (Qfloor_le n). pose proof (Qlt_floor n).
  rewrite inject_Z_plus in H0. change (inject_Z 1) with 1 in H0. lra.
Qed.

(* the 8 weights of a particle add up to one: nothing is lost or created by the interpolation *)
Lemma cic_weights_sum1 : forall n : q3, sumQ (map (cw n) (corners (cell_of n))) == 1.
Proof.
  intros [[a b] d]. unfold cell_of, corners, offsets. simpl map. unfold cw, sumQ, fold_right.
  rewrite !Z.add_0_r.
  pose proof (w1_pair a) as Ha. pose proof (w1_pair b) as Hb. pose proof (w1_pair d) as Hd.
  set (a0 := w1 a (Qfloor a)) in *. set (a1 := w1 a (Qfloor a + 1)) in *.
  set (b0 := w1 b (Qfloor b)) in *. set (b1 := w1 b (Qfloor b + 1)) in *.
  set (d0 := w1 d (Qfloor d)) in *. set (d1 := w1 d (Qfloor d + 1)) in *.
  assert (E : a0 * b0 * d0 + (a0 * b0 * d1 + (a0 * b1 * d0 + (a0 * b1 * d1 + (a1 * b0 * d0 + (a1 * b0 * d1 + (a1 * b1 * d0 + (a1 * b1 * d1 + 0)))))))
              == (a0 + a1) * (b0 + b1) * (d0 + d1)) by ring.
  rewrite E, Ha, Hb, Hd. ring.
Qed.

(* each of them lies in [0, 1] *)
Lemma cic_weights_range : forall (n : q3) c, In c (corners (cell_of n)) -> 0 <= cw n c <= 1.
Proof.
  intros [[a b] d] c H. unfold cell_of, corners, offsets in H. simpl in H. rewrite !Z.add_0_r in H.
  pose proof (w1_floor_range a). pose proof (w1_floor1_range a).
  pose proof (w1_floor_range b). pose proof (w1_floor1_range b).
  pose proof (w1_floor_range d). pose proof (w1_floor1_range d).
  assert (P : forall u v w, 0 <= u <= 1 -> 0 <= v <= 1 -> 0 <= w <= 1 -> 0 <= u * v * w <= 1).
  { intros u v w Hu Hv Hw. assert (0 <= u * v <= 1) by nra. nra. }
  repeat (destruct H as [<- | H]; [unfold cw; apply P; lra|]). contradiction.
Qed.

(* ------------------------------------------------------------------ deposition *)
Definition scale_q (a : Q) (p : spart) : spart :=
  mksp (s_x p) (s_px p) (s_y p) (s_py p) (s_z p) (s_pz p) (a * s_q p) (s_s p).

Lemma contrib_scale_q : forall g a p k, contrib g (scale_q a p) k = contrib g p k.
Proof. reflexivity. Qed.

(* the deposited density is linear in the charges ... *)
Lemma deposit_linear_in_charge : forall g a ps k, rho g (map (scale_q a) ps) k == a * rho g ps k.
Proof.
  intros. unfold rho. rewrite map_map.
  rewrite sumQ_map_ext with (g := fun p => a * (contrib g p k * (s_q p * s_s p))).
  - rewrite sumQ_map_scale. ring.
  - intros p _. rewrite contrib_scale_q. simpl. ring.
Qed.

(* ... additive over sub-bunches ... *)
Lemma deposit_app : forall g ps1 ps2 k, rho g (ps1 ++ ps2) k == rho g ps1 k + rho g ps2 k.
Proof. intros. unfold rho. rewrite map_app, sumQ_app. ring. Qed.

(* ... and does not depend on the order in which the particles are stored *)
Lemma deposit_perm : forall g ps ps' k, Permutation ps ps' -> rho g ps k == rho g ps' k.
Proof. intros. unfold rho. rewrite (sumQ_map_perm _ _ ps ps' H). reflexivity. Qed.

(* lost particles (survival probability 0) are not sources *)
Definition alive (p : spart) : bool := negb (Qeq_bool (s_s p) 0).
Lemma deposit_ignores_lost : forall g ps k, rho g ps k == rho g (filter alive ps) k.
Proof.
  intros. unfold rho. apply Qmult_comp; [|reflexivity].
  induction ps as [|p ps IH]; [reflexivity|]. simpl. unfold alive at 1.
  destruct (Qeq_bool (s_s p) 0) eqn:E; simpl.
  - apply Qeq_bool_iff in E. rewrite E, IH. ring.
  - rewrite IH. reflexivity.
Qed.

Lemma deposit_lost_head : forall g p ps k, s_s p == 0 -> rho g (p :: ps) k == rho g ps k.
Proof. intros. unfold rho. simpl. rewrite H. ring. Qed.

Lemma deposit_zero_charge : forall g ps k, (forall p, In p ps -> s_q p == 0) -> rho g ps k == 0.
Proof.
  intros. unfold rho. rewrite sumQ_map_zero; [ring|]. intros p Hp. rewrite (H p Hp). ring.
Qed.

(* a grid point only receives charge if it exists *)
Lemma contrib_invalid : forall g p k, valid (g_shape g) k = false -> contrib g p k == 0.
Proof.
  intros. unfold contrib. apply sumQ_map_zero. intros c _.
  destruct (idx_eqb c k) eqn:E; [|reflexivity].
  assert (c = k).
  { destruct c as [[i j] l], k as [[i' j'] l']. simpl in E.
    apply andb_true_iff in E. destruct E as [E E3]. apply andb_true_iff in E. destruct E as [E1 E2].
    apply Z.eqb_eq in E1, E2, E3. subst. reflexivity. }
  subst. rewrite H. reflexivity.
Qed.

(* a particle none of whose 8 surrounding grid points exists deposits nothing; the grid is centred on the AXIS
   (normalized position = (x + grid_dimensions) / cell_size, no subtraction of the bunch mean): finding F50 *)
Definition off_grid (g : geom) (p : spart) : Prop :=
  forall c, In c (corners (cell_of (nrm g p))) -> valid (g_shape g) c = false.

Lemma contrib_off_grid : forall g p k, off_grid g p -> contrib g p k == 0.
Proof.
  intros g p k H. unfold contrib. apply sumQ_map_zero. intros c Hc.
  rewrite (H c Hc), andb_false_r. reflexivity.
Qed.

Lemma deposit_off_grid : forall g ps k, (forall p, In p ps -> off_grid g p) -> rho g ps k == 0.
Proof.
  intros. unfold rho. rewrite sumQ_map_zero; [ring|]. intros p Hp. rewrite (contrib_off_grid g p k (H p Hp)). ring.
Qed.

Lemma gather_off_grid : forall g e F p, off_grid g p -> gather g e F p == 0.
Proof.
  intros g e F p H. unfold gather. apply sumQ_map_zero. intros c Hc. rewrite (H c Hc). ring.
Qed.

(* ------------------------------------------------------------------ charge conservation of the deposition *)
Lemma sumQ_flat_map : forall (A B : Type) (f : A -> list B) (h : B -> Q) l,
  sumQ (map h (flat_map f l)) == sumQ (map (fun i => sumQ (map h (f i))) l).
Proof. induction l; simpl; [reflexivity|]. rewrite map_app, sumQ_app, IHl. reflexivity. Qed.

Lemma sumQ_swap : forall (A B : Type) (f : A -> B -> Q) la lb,
  sumQ (map (fun a => sumQ (map (fun b => f a b) lb)) la) == sumQ (map (fun b => sumQ (map (fun a => f a b) la)) lb).
Proof.
  induction la; intros; simpl.
  - symmetry. apply sumQ_map_zero. reflexivity.
  - rewrite IHla. rewrite <- sumQ_map_add. reflexivity.
Qed.

Lemma seq_ind_sum : forall (v : Q) (a : Z) m,
  sumQ (map (fun i => if (Z.of_nat i =? a)%Z then v else 0) (seq 0 m)) ==
  if ((0 <=? a) && (a <? Z.of_nat m))%Z then v else 0.
Proof.
  induction m.
  - simpl. destruct (0 <=? a)%Z eqn:E; simpl; [|reflexivity].
    replace (a <? 0)%Z with false; [reflexivity|]. symmetry. apply Z.ltb_ge. apply Z.leb_le in E. lia.
  - rewrite seq_S, map_app, sumQ_app, IHm. cbn [map fold_right sumQ Nat.add].
    destruct (Z.eqb_spec (Z.of_nat m) a).
    + subst. replace (0 <=? Z.of_nat m)%Z with true by (symmetry; apply Z.leb_le; lia).
      replace (Z.of_nat m <? Z.of_nat m)%Z with false by (symmetry; apply Z.ltb_ge; lia).
      replace (Z.of_nat m <? Z.of_nat (S m))%Z with true by (symmetry; apply Z.ltb_lt; lia). cbn [andb]. ring.
    + destruct (0 <=? a)%Z; cbn [andb]; [|ring].
      destruct (Z.ltb_spec a (Z.of_nat m)); destruct (Z.ltb_spec a (Z.of_nat (S m))); try lia; ring.
Qed.

Lemma zrange_ind_sum : forall (v : Q) (a n : Z),
  sumQ (map (fun i => if (a =? i)%Z then v else 0) (zrange n)) == if ((0 <=? a) && (a <? n))%Z then v else 0.
Proof.
  intros. unfold zrange. rewrite map_map.
  rewrite sumQ_map_ext with (g := fun i => if (Z.of_nat i =? a)%Z then v else 0) by (intros; rewrite Z.eqb_sym; reflexivity).
  rewrite seq_ind_sum. destruct (Z.leb_spec 0 n).
  - rewrite Z2Nat.id by assumption. reflexivity.
  - replace (Z.to_nat n) with 0%nat by lia. simpl.
    destruct (0 <=? a)%Z eqn:E; simpl; [|reflexivity]. apply Z.leb_le in E.
    replace (a <? 0)%Z with false by (symmetry; apply Z.ltb_ge; lia).
    replace (a <? n)%Z with false by (symmetry; apply Z.ltb_ge; lia). reflexivity.
Qed.

(* summing an indicator of grid point c over the whole grid *)
Lemma all_idx_ind_sum : forall sh c (v : Q),
  sumQ (map (fun k => if idx_eqb c k then v else 0) (all_idx sh)) == if valid sh c then v else 0.
Proof.
  intros [[nx ny] nz] [[ci cj] cl] v. unfold all_idx.
  rewrite sumQ_flat_map.
  rewrite sumQ_map_ext with (g := fun i => if (ci =? i)%Z then (if ((0 <=? cj) && (cj <? ny) && ((0 <=? cl) && (cl <? nz)))%Z then v else 0) else 0).
  - rewrite zrange_ind_sum. unfold valid.
    destruct (0 <=? ci)%Z, (ci <? nx)%Z, (0 <=? cj)%Z, (cj <? ny)%Z, (0 <=? cl)%Z, (cl <? nz)%Z; reflexivity.
  - intros i _. rewrite sumQ_flat_map.
    rewrite sumQ_map_ext with (g := fun j => if (cj =? j)%Z then (if (ci =? i)%Z && ((0 <=? cl) && (cl <? nz))%Z then v else 0) else 0).
    + rewrite zrange_ind_sum.
      destruct (ci =? i)%Z, (0 <=? cj)%Z, (cj <? ny)%Z, (0 <=? cl)%Z, (cl <? nz)%Z; reflexivity.
    + intros j _. rewrite map_map. simpl idx_eqb.
      rewrite sumQ_map_ext with (g := fun l => if (cl =? l)%Z then (if (ci =? i)%Z && (cj =? j)%Z then v else 0) else 0).
      * rewrite zrange_ind_sum.
        destruct (ci =? i)%Z, (cj =? j)%Z, (0 <=? cl)%Z, (cl <? nz)%Z; reflexivity.
      * intros l _. destruct (ci =? i)%Z, (cj =? j)%Z, (cl =? l)%Z; reflexivity.
Qed.

Definition on_grid (g : geom) (p : spart) : Prop :=
  forall c, In c (corners (cell_of (nrm g p))) -> valid (g_shape g) c = true.

(* a particle whose 8 surrounding grid points exist puts exactly its own weight on the grid *)
Lemma contrib_total : forall g p, on_grid g p -> sumQ (map (contrib g p) (all_idx (g_shape g))) == 1.
Proof.
  intros g p H. unfold contrib.
  rewrite (sumQ_swap _ _ (fun k c => if idx_eqb c k && valid (g_shape g) c then cw (nrm g p) c else 0)).
  rewrite sumQ_map_ext with (g := cw (nrm g p)).
  - apply cic_weights_sum1.
  - intros c Hc. rewrite (H c Hc).
    rewrite sumQ_map_ext with (g := fun k => if idx_eqb c k then cw (nrm g p) c else 0)
      by (intros; rewrite andb_true_r; reflexivity).
    rewrite all_idx_ind_sum, (H c Hc). reflexivity.
Qed.

(* charge conservation: the grid holds (sum of charge * survival) / cell volume *)
Lemma deposit_conserves_charge : forall g ps, (forall p, In p ps -> on_grid g p) ->
  sumQ (map (rho g ps) (all_idx (g_shape g))) == sumQ (map (fun p => s_q p * s_s p) ps) * inv_vol g.
Proof.
  intros g ps H. unfold rho.
  rewrite sumQ_map_ext with (g := fun k => inv_vol g * sumQ (map (fun p => contrib g p k * (s_q p * s_s p)) ps))
    by (intros; ring).
  rewrite sumQ_map_scale.
  rewrite (sumQ_swap _ _ (fun k p => contrib g p k * (s_q p * s_s p))).
  rewrite sumQ_map_ext with (g := fun p => s_q p * s_s p).
  - ring.
  - intros p Hp.
    rewrite sumQ_map_ext with (g := fun k => (s_q p * s_s p) * contrib g p k) by (intros; ring).
    rewrite sumQ_map_scale, (contrib_total g p (H p Hp)). ring.
Qed.

(* ------------------------------------------------------------------ gathering *)
Lemma gather_ext : forall g e F F' p, (forall k, F k == F' k) -> gather g e F p == gather g e F' p.
Proof.
  intros. unfold gather. apply sumQ_map_ext. intros c _.
  destruct (valid (g_shape g) c); [rewrite H|]; reflexivity.
Qed.

Lemma gather_scale : forall g e a F p, gather g e (fun k => a * F k) p == a * gather g e F p.
Proof.
  intros. unfold gather. rewrite <- sumQ_map_scale. apply sumQ_map_ext. intros c _.
  destruct (valid (g_shape g) c); ring.
Qed.

Lemma gather_zero : forall g e F p, (forall k, F k == 0) -> gather g e F p == 0.
Proof.
  intros. unfold gather. apply sumQ_map_zero. intros c _.
  destruct (valid (g_shape g) c); [rewrite H|]; ring.
Qed.

(* a uniform field is gathered without distortion when all 8 corners exist *)
Lemma gather_uniform : forall g e f p,
  (forall c, In c (corners (cell_of (nrm g p))) -> valid (g_shape g) c = true) ->
  gather g e (fun _ => f) p == e * f.
Proof.
  intros. unfold gather.
  rewrite sumQ_map_ext with (g := fun c => (e * f) * cw (nrm g p) c).
  - rewrite sumQ_map_scale, cic_weights_sum1. ring.
  - intros c Hc. rewrite (H c Hc). ring.
Qed.

(* ------------------------------------------------------------------ the kick *)
Section Kick.
Variable solve : nat -> (idx -> Q) -> idx -> Q.
(* the field solve respects equality of grids and is homogeneous (it is linear: FFT convolution with a fixed Green
   function, central differences, a constant factor) *)
Hypothesis solve_ext : forall c r r', (forall k, r k == r' k) -> forall k, solve c r k == solve c r' k.
Hypothesis solve_scale : forall c a r k, solve c (fun i => a * r i) k == a * solve c r k.

Lemma solve_zero : forall c r k, (forall i, r i == 0) -> solve c r k == 0.
Proof.
  intros. rewrite (solve_ext c r (fun i => 0 * r i)).
  - rewrite solve_scale. ring.
  - intros i. rewrite H. ring.
Qed.

(* the momentum change of a particle does not depend on the storage order of the bunch *)
Lemma gather_perm_equivariant : forall g e dt ps ps' comp p, Permutation ps ps' ->
  dP solve g e dt ps' comp p == dP solve g e dt ps comp p.
Proof.
  intros. unfold dP. apply Qmult_comp; [|reflexivity]. apply gather_ext.
  apply solve_ext. intros k. symmetry. apply deposit_perm. assumption.
Qed.

Lemma kick_perm : forall g e dt ps ps', Permutation ps ps' ->
  Permutation (kick solve g e dt ps) (map (kick_one solve g e dt ps) ps') /\
  forall p comp, dP solve g e dt ps' comp p == dP solve g e dt ps comp p.
Proof.
  intros. split.
  - unfold kick. apply Permutation_map. assumption.
  - intros. apply gather_perm_equivariant. assumption.
Qed.

(* proportional to the bunch charge *)
Lemma kick_linear_in_charge : forall g e dt a ps comp p,
  dP solve g e dt (map (scale_q a) ps) comp (scale_q a p) == a * dP solve g e dt ps comp p.
Proof.
  intros. unfold dP.
  assert (gather g e (solve comp (rho g (map (scale_q a) ps))) (scale_q a p) ==
          a * gather g e (solve comp (rho g ps)) p).
  { change (gather g e (solve comp (rho g (map (scale_q a) ps))) (scale_q a p))
      with (gather g e (solve comp (rho g (map (scale_q a) ps))) p).
    rewrite <- gather_scale. apply gather_ext. intros k.
    rewrite <- solve_scale. apply solve_ext. intros i. apply deposit_linear_in_charge. }
  rewrite H. ring.
Qed.

(* proportional to the effect length (dt = L / (c beta)) *)
Lemma kick_linear_in_length : forall g e a L c beta ps comp p,
  dP solve g e (dt_of (a * L) c beta) ps comp p == a * dP solve g e (dt_of L c beta) ps comp p.
Proof. intros. unfold dP, dt_of, Qdiv. ring. Qed.

Lemma zero_length_no_kick : forall g e c beta ps comp p, dP solve g e (dt_of 0 c beta) ps comp p == 0.
Proof. intros. unfold dP, dt_of, Qdiv. ring. Qed.

(* no charge, no kick *)
Lemma zero_charge_no_kick : forall g e dt ps comp p, (forall x, In x ps -> s_q x == 0) ->
  dP solve g e dt ps comp p == 0.
Proof.
  intros. unfold dP. rewrite gather_zero; [ring|]. intros k. apply solve_zero.
  intros i. apply deposit_zero_charge. assumption.
Qed.

(* lost particles do not act on the others *)
Lemma lost_particles_not_sources : forall g e dt ps comp p,
  dP solve g e dt ps comp p == dP solve g e dt (filter alive ps) comp p.
Proof.
  intros. unfold dP. apply Qmult_comp; [|reflexivity]. apply gather_ext. apply solve_ext.
  intros k. apply deposit_ignores_lost.
Qed.

(* F50: a bunch that lies off the axis-centred grid is not kicked at all, whatever its charge *)
Lemma off_grid_bunch_no_kick : forall g e dt ps comp p, (forall x, In x ps -> off_grid g x) ->
  dP solve g e dt ps comp p == 0.
Proof.
  intros. unfold dP. rewrite gather_zero; [ring|]. intros k. apply solve_zero.
  intros i. apply deposit_off_grid. assumption.
Qed.

(* the kick touches momenta only *)
Lemma kick_keeps_rest : forall g e dt ps,
  map s_x (kick solve g e dt ps) = map s_x ps /\ map s_y (kick solve g e dt ps) = map s_y ps /\
  map s_z (kick solve g e dt ps) = map s_z ps /\ map s_q (kick solve g e dt ps) = map s_q ps /\
  map s_s (kick solve g e dt ps) = map s_s ps.
Proof. intros. unfold kick. rewrite !map_map. simpl. repeat split. Qed.

(* ---------------- SpaceChargeKick.track in cheetah coordinates *)
Variable pzf : Q -> cpart -> Q.
Variable dlf : Q -> Q -> Q -> Q -> Q.

Definition si_of (p0 beta0 : Q) (b : cbeam) : list spart := map (to_si pzf p0 beta0 (b_energy b)) (b_parts b).
Definition track_one (g : geom) (e c p0 beta0 L : Q) (b : cbeam) (p : cpart) : cpart :=
  from_si dlf p0 beta0 (b_energy b)
    (kick_one solve g e (dt_of L c beta0) (si_of p0 beta0 b) (to_si pzf p0 beta0 (b_energy b) p)).

Lemma sc_track_parts : forall g e c p0 beta0 L b,
  b_parts (sc_track solve pzf dlf g e c p0 beta0 L b) = map (track_one g e c p0 beta0 L b) (b_parts b).
Proof. intros. unfold sc_track, kick, track_one, si_of. simpl. rewrite !map_map. reflexivity. Qed.

Lemma positions_unchanged : forall g e c p0 beta0 L b p, ~ beta0 == 0 ->
  c_x (track_one g e c p0 beta0 L b p) = c_x p /\ c_y (track_one g e c p0 beta0 L b p) = c_y p /\
  c_tau (track_one g e c p0 beta0 L b p) == c_tau p.
Proof. intros. repeat split. simpl. field. assumption. Qed.

Lemma charges_surv_energy_unchanged : forall g e c p0 beta0 L b,
  b_energy (sc_track solve pzf dlf g e c p0 beta0 L b) = b_energy b /\
  map c_q (b_parts (sc_track solve pzf dlf g e c p0 beta0 L b)) = map c_q (b_parts b) /\
  map c_s (b_parts (sc_track solve pzf dlf g e c p0 beta0 L b)) = map c_s (b_parts b) /\
  length (b_parts (sc_track solve pzf dlf g e c p0 beta0 L b)) = length (b_parts b).
Proof.
  intros. rewrite sc_track_parts. rewrite !map_map, map_length. simpl. repeat split.
Qed.

(* the transverse momenta change by (SI momentum change) / p0 *)
Lemma px_change : forall g e c p0 beta0 L b p, ~ p0 == 0 ->
  c_px (track_one g e c p0 beta0 L b p) ==
    c_px p + dP solve g e (dt_of L c beta0) (si_of p0 beta0 b) 0 (to_si pzf p0 beta0 (b_energy b) p) / p0 /\
  c_py (track_one g e c p0 beta0 L b p) ==
    c_py p + dP solve g e (dt_of L c beta0) (si_of p0 beta0 b) 1 (to_si pzf p0 beta0 (b_energy b) p) / p0.
Proof. intros. split; simpl; field; assumption. Qed.

(* without charge the element is the SI round trip (whose exactness is C18's subject): px, py exactly restored *)
Lemma zero_charge_px : forall g e c p0 beta0 L b p, ~ p0 == 0 ->
  (forall x, In x (b_parts b) -> c_q x == 0) ->
  c_px (track_one g e c p0 beta0 L b p) == c_px p /\ c_py (track_one g e c p0 beta0 L b p) == c_py p.
Proof.
  intros g e c p0 beta0 L b p Hp0 Hq.
  destruct (px_change g e c p0 beta0 L b p Hp0) as [Hx Hy].
  assert (Z : forall comp, dP solve g e (dt_of L c beta0) (si_of p0 beta0 b) comp (to_si pzf p0 beta0 (b_energy b) p) == 0).
  { intros. apply zero_charge_no_kick. intros x Hx'. unfold si_of in Hx'. apply in_map_iff in Hx'.
    destruct Hx' as [y [<- Hy']]. simpl. apply Hq. assumption. }
  rewrite Hx, Hy, !Z. split; field; assumption.
Qed.
End Kick.

(* F50 witness: two unit charges 1/8 apart, centred at x = 10, on the grid the code builds for a bunch of that size
   (half extent 1, 4 cells of 1/2 per axis): both are off the grid *)
Definition f50_geom : geom := mkgeom (1, 1, 1) (1#2, 1#2, 1#2) (4, 4, 4)%Z.
Definition f50_bunch : list spart := [mksp (10 - (1#16)) 0 0 0 0 0 1 1; mksp (10 + (1#16)) 0 0 0 0 0 1 1].
Lemma offaxis_bunch_refuted :
  (forall p, In p f50_bunch -> off_grid f50_geom p) /\ (forall p, In p f50_bunch -> ~ s_q p * s_s p == 0).
Proof.
  split; intros p [<- | [<- | []]].
  - intros c Hc. vm_compute in Hc. repeat (destruct Hc as [<- | Hc]; [vm_compute; reflexivity|]). contradiction.
  - intros c Hc. vm_compute in Hc. repeat (destruct Hc as [<- | Hc]; [vm_compute; reflexivity|]). contradiction.
  - vm_compute. discriminate.
  - vm_compute. discriminate.
Qed.
