(** Model of the field solve of cheetah/accelerator/space_charge_kick.py over Q (nothing is proved here):
      _array_rho                     the charge density zero-padded to the doubled grid (2nx, 2ny, 2nz), stored in the
                                     corner [:nx, :ny, :nz]
      _integrated_green_function     the doubled Green-function array: G in [:n], the entry [n] never written (stays 0 from
                                     torch.zeros), [n+1:] = G[1:].flip(), per axis, in all 8 combinations
      _solve_poisson_equation        irfftn(rfftn(rho2) * rfftn(green2)) is taken by its MATHEMATICAL MEANING, the cyclic
                                     convolution on the doubled grid (sum over all doubled-grid indices, index arithmetic modulo
                                     2n) -- the convolution theorem for torch's FFT is the one step that is modelled, not verified
                                     (tied to the code by the correspondence check only); factor 1/(4 pi eps0); crop [:nx,:ny,:nz]
      _E_plus_vB_field               central differences on [1:-1] per axis (the two boundary planes keep the 0 of zeros_like),
                                     factor 0.5 / cell_size[axis], then -igamma2 with igamma2 = 1/gamma^2 (0 where gamma = 0)
    The integrated-potential values G(i,j,k) (first octant, _integrated_potential differences) stay ABSTRACT DATA: an arbitrary
    function nat -> nat -> nat -> Q.  Indices on the grids are natural numbers.  The proofs are in HockneyProofs.v. *)
From Coq Require Import List Bool Arith ZArith QArith Qabs.
From Cheetah Require Import SpaceCharge.Cic.
Import ListNotations.
Open Scope Q_scope.

(* sum_{p < n} f p *)
Definition sumN (n : nat) (f : nat -> Q) : Q := sumQ (map f (seq 0 n)).
Definition sum3 (a b c : nat) (f : nat -> nat -> nat -> Q) : Q :=
  sumN a (fun p => sumN b (fun q => sumN c (fun s => f p q s))).

(* |a - b| on natural numbers *)
Definition dist (a b : nat) : nat := ((a - b) + (b - a))%nat.

(* ------------------------------------------------------------------ one axis *)
(* new_charge_density[:n] = charge_density, the rest stays 0 *)
Definition pad1 (n : nat) (r : nat -> Q) (p : nat) : Q := if (p <? n)%nat then r p else 0.

(* which entry of G the doubled Green array holds at index m of an axis with n grid points:
     green[:n]   = G                   -> G[m]
     green[n]                          -> never assigned: the 0 of torch.zeros (None)
     green[n+1:] = G[1:].flip()        -> entry n+1+t holds G[1:][(n-1)-1-t] = G[n-1-t], i.e. entry m holds G[2n-m] *)
Definition fold1 (n m : nat) : option nat :=
  if (m <? n)%nat then Some m else if (m =? n)%nat then None else Some (2 * n - m)%nat.

Definition green1 (n : nat) (G : nat -> Q) (m : nat) : Q :=
  match fold1 n m with Some i => G i | None => 0 end.

(* (m - p) mod 2n *)
Definition cidx (n m p : nat) : nat := ((m + 2 * n - p) mod (2 * n))%nat.

(* cyclic convolution of two arrays of length 2n: what irfft(rfft(a) * rfft(b)) means *)
Definition cconv1 (n : nat) (a b : nat -> Q) (m : nat) : Q := sumN (2 * n) (fun p => a p * b (cidx n m p)).

(* the one-axis Hockney solve; the physical part is m < n (the crop [:n]) *)
Definition hockney1 (n : nat) (G r : nat -> Q) (m : nat) : Q := cconv1 n (pad1 n r) (green1 n G) m.

(* the aperiodic (open-boundary) convolution on the physical grid *)
Definition open1 (n : nat) (G r : nat -> Q) (m : nat) : Q := sumN n (fun p => r p * G (dist m p)).

(* ------------------------------------------------------------------ three axes *)
Definition shape := (nat * nat * nat)%type.
Definition grid := nat -> nat -> nat -> Q.

(* _array_rho *)
Definition pad3 (sh : shape) (r : grid) : grid := fun a b c =>
  let '(nx, ny, nz) := sh in if ((a <? nx) && (b <? ny) && (c <? nz))%nat then r a b c else 0.

(* _integrated_green_function: the 8 slice assignments are the 8 combinations of [:n] / [n+1:] per axis;
   an index equal to n on any axis is in none of them *)
Definition green3 (sh : shape) (G : grid) : grid := fun a b c =>
  let '(nx, ny, nz) := sh in
  match fold1 nx a, fold1 ny b, fold1 nz c with
  | Some i, Some j, Some k => G i j k
  | _, _, _ => 0
  end.

(* cyclic convolution on the doubled grid *)
Definition cconv3 (sh : shape) (u v : grid) : grid := fun a b c =>
  let '(nx, ny, nz) := sh in
  sum3 (2 * nx) (2 * ny) (2 * nz) (fun p q s => u p q s * v (cidx nx a p) (cidx ny b q) (cidx nz c s)).

(* potential[..., :nx, :ny, :nz]: entry (i,j,k) of the crop is entry (i,j,k) of the doubled array *)
Definition crop (f : grid) : grid := fun i j k => f i j k.

(* _solve_poisson_equation; k0 = 1 / (4 pi eps0).  Meaningful for i < nx, j < ny, k < nz *)
Definition potential (sh : shape) (k0 : Q) (G r : grid) : grid := fun i j k =>
  k0 * crop (cconv3 sh (pad3 sh r) (green3 sh G)) i j k.

(* the open-boundary sum over the physical grid *)
Definition open3 (sh : shape) (G r : grid) : grid := fun i j k =>
  let '(nx, ny, nz) := sh in
  sum3 nx ny nz (fun p q s => r p q s * G (dist i p) (dist j q) (dist k s)).

(* ------------------------------------------------------------------ potential -> force per charge *)
(* igamma2 *)
Definition ig2_of (gamma : Q) : Q := if Qeq_bool gamma 0 then 0 else / (gamma * gamma).

(* the slice [1:-1] of an axis with n points *)
Definition interior (n i : nat) : bool := ((1 <=? i) && (i + 1 <? n))%nat.

(* grad_x[1:-1] = (potential[2:] - potential[:-2]) * (0.5 * inv_cell_size[0]), boundary planes 0; same for y, tau *)
Definition grad (sh : shape) (cell : q3) (comp : nat) (phi : grid) : grid := fun i j k =>
  let '(nx, ny, nz) := sh in let '(cx, cy, cz) := cell in
  match comp with
  | O => if interior nx i then (phi (i + 1)%nat j k - phi (i - 1)%nat j k) * ((1 # 2) * / cx) else 0
  | S O => if interior ny j then (phi i (j + 1)%nat k - phi i (j - 1)%nat k) * ((1 # 2) * / cy) else 0
  | S (S _) => if interior nz k then (phi i j (k + 1)%nat - phi i j (k - 1)%nat) * ((1 # 2) * / cz) else 0
  end.

(* grad_c = -igamma2 * grad_c : E + v x B per unit charge *)
Definition field (sh : shape) (cell : q3) (ig2 : Q) (comp : nat) (phi : grid) : grid := fun i j k =>
  - ig2 * grad sh cell comp phi i j k.

(* ------------------------------------------------------------------ as the [solve] of Cic.v *)
Definition to_grid (r : idx -> Q) : grid := fun i j k => r (Z.of_nat i, Z.of_nat j, Z.of_nat k).
Definition shape_of (sh : idx) : shape := let '(nx, ny, nz) := sh in (Z.to_nat nx, Z.to_nat ny, Z.to_nat nz).

(* component -> charge-density grid -> force-per-charge grid (read by the gathering at existing grid points only) *)
Definition hsolve (sh : idx) (cell : q3) (k0 ig2 : Q) (G : grid) (comp : nat) (r : idx -> Q) (k : idx) : Q :=
  if valid sh k then
    let '(i, j, l) := k in
    field (shape_of sh) cell ig2 comp (potential (shape_of sh) k0 G (to_grid r)) (Z.to_nat i) (Z.to_nat j) (Z.to_nat l)
  else 0.

(* the same solve with the potential written as the open-boundary sum (equal to hsolve: HockneyProofs.hsolve_open) *)
Definition hsolve_open (sh : idx) (cell : q3) (k0 ig2 : Q) (G : grid) (comp : nat) (r : idx -> Q) (k : idx) : Q :=
  if valid sh k then
    let '(i, j, l) := k in
    field (shape_of sh) cell ig2 comp (fun a b c => k0 * open3 (shape_of sh) G (to_grid r) a b c)
          (Z.to_nat i) (Z.to_nat j) (Z.to_nat l)
  else 0.
