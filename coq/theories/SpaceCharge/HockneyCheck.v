(** Case checkers for the correspondence of the Hockney field-solve model (Hockney.v) with the real code (vm_compute):
    the harness calls SpaceChargeKick._integrated_green_function / _solve_poisson_equation / _E_plus_vB_field of /repo on small
    grids and writes inputs and observed arrays as Coq terms (floats as exact rationals); the model is evaluated on them. *)
From Coq Require Import List Bool Arith ZArith QArith Qabs.
From Cheetah Require Import SpaceCharge.Cic SpaceCharge.Hockney.
Import ListNotations.
Open Scope Q_scope.

Definition arr3 := list (list (list Q)).
Definition nth3 (d : arr3) : grid := fun i j k => nth k (nth j (nth i d []) []) 0.

Definition dims_ok (sh : shape) (d : arr3) : bool :=
  let '(nx, ny, nz) := sh in
  Nat.eqb (length d) nx && forallb (fun pl => Nat.eqb (length pl) ny && forallb (fun row => Nat.eqb (length row) nz) pl) d.

Definition forall3 (sh : shape) (f : nat -> nat -> nat -> bool) : bool :=
  let '(nx, ny, nz) := sh in
  forallb (fun i => forallb (fun j => forallb (fun k => f i j k) (seq 0 nz)) (seq 0 ny)) (seq 0 nx).

Definition dbl (sh : shape) : shape := let '(nx, ny, nz) := sh in (2 * nx, 2 * ny, 2 * nz)%nat.

Definition closeq (tol a b : Q) : bool := Qle_bool (Qabs (a - b)) tol.

(* ---------------- (a) layout of the doubled Green array, exactly: with G := the array's own first octant as data,
   EVERY entry of the (2nx, 2ny, 2nz) array sits where green3 says (mirrored copies, zero planes at index n) *)
Record hgcase := mkhg { hg_sh : shape; hg_obs : arr3 }.
Definition hg_check (c : hgcase) : bool :=
  dims_ok (dbl (hg_sh c)) (hg_obs c) &&
  forall3 (dbl (hg_sh c)) (fun a b d => Qeq_bool (green3 (hg_sh c) (nth3 (hg_obs c)) a b d) (nth3 (hg_obs c) a b d)).

(* ---------------- (b) _solve_poisson_equation on an integer-valued density: the model's literal pipeline
   (pad, doubled Green array from the data G, cyclic convolution, factor, crop) against the observed potential *)
Record hpcase := mkhp { hp_sh : shape; hp_k0 : Q; hp_G : arr3; hp_rho : arr3; hp_obs : arr3; hp_tol : Q }.
Definition hp_check (c : hpcase) : bool :=
  dims_ok (hp_sh c) (hp_obs c) && dims_ok (hp_sh c) (hp_G c) && dims_ok (hp_sh c) (hp_rho c) &&
  forall3 (hp_sh c) (fun i j k =>
    closeq (hp_tol c) (potential (hp_sh c) (hp_k0 c) (nth3 (hp_G c)) (nth3 (hp_rho c)) i j k) (nth3 (hp_obs c) i j k)).

(* the same potential through the open-boundary sum (what hockney_is_open_convolution proves equal): used for larger grids *)
Definition hp_check_open (c : hpcase) : bool :=
  dims_ok (hp_sh c) (hp_obs c) && dims_ok (hp_sh c) (hp_G c) && dims_ok (hp_sh c) (hp_rho c) &&
  forall3 (hp_sh c) (fun i j k =>
    closeq (hp_tol c) (hp_k0 c * open3 (hp_sh c) (nth3 (hp_G c)) (nth3 (hp_rho c)) i j k) (nth3 (hp_obs c) i j k)).

(* ---------------- (c) _E_plus_vB_field on a known potential: central differences, boundary planes, cell sizes, -1/gamma^2 *)
Record hfcase := mkhf { hf_sh : shape; hf_cell : q3; hf_gamma : Q; hf_phi : arr3;
                        hf_obs : arr3 * arr3 * arr3; hf_tol : q3 }.
Definition hf_check (c : hfcase) : bool :=
  let '(ox, oy, oz) := hf_obs c in let '(tx, ty, tz) := hf_tol c in
  dims_ok (hf_sh c) ox && dims_ok (hf_sh c) oy && dims_ok (hf_sh c) oz && dims_ok (hf_sh c) (hf_phi c) &&
  forall3 (hf_sh c) (fun i j k =>
    closeq tx (field (hf_sh c) (hf_cell c) (ig2_of (hf_gamma c)) 0 (nth3 (hf_phi c)) i j k) (nth3 ox i j k) &&
    closeq ty (field (hf_sh c) (hf_cell c) (ig2_of (hf_gamma c)) 1 (nth3 (hf_phi c)) i j k) (nth3 oy i j k) &&
    closeq tz (field (hf_sh c) (hf_cell c) (ig2_of (hf_gamma c)) 2 (nth3 (hf_phi c)) i j k) (nth3 oz i j k)).

(* ---------------- (d) the whole solve density -> force, as the [solve] of Cic.v (hsolve), against _E_plus_vB_field with only
   the deposition replaced by a known integer density *)
Record hscase := mkhs { hs_sh : shape; hs_cell : q3; hs_k0 : Q; hs_gamma : Q; hs_G : arr3; hs_rho : arr3;
                        hs_obs : arr3 * arr3 * arr3; hs_tol : q3 }.
Definition hs_check (c : hscase) : bool :=
  let '(ox, oy, oz) := hs_obs c in let '(tx, ty, tz) := hs_tol c in let '(nx, ny, nz) := hs_sh c in
  let shz := (Z.of_nat nx, Z.of_nat ny, Z.of_nat nz) in
  let r := fun k : idx => let '(i, j, l) := k in nth3 (hs_rho c) (Z.to_nat i) (Z.to_nat j) (Z.to_nat l) in
  let s := fun comp i j k => hsolve shz (hs_cell c) (hs_k0 c) (ig2_of (hs_gamma c)) (nth3 (hs_G c)) comp r
                                    (Z.of_nat i, Z.of_nat j, Z.of_nat k) in
  dims_ok (hs_sh c) ox && dims_ok (hs_sh c) oy && dims_ok (hs_sh c) oz && dims_ok (hs_sh c) (hs_G c) && dims_ok (hs_sh c) (hs_rho c) &&
  forall3 (hs_sh c) (fun i j k =>
    closeq tx (s 0%nat i j k) (nth3 ox i j k) && closeq ty (s 1%nat i j k) (nth3 oy i j k) && closeq tz (s 2%nat i j k) (nth3 oz i j k)).
