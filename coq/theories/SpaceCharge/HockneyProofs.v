(** Proofs about the Hockney field-solve model of Hockney.v: for every grid size, every Green-function data G and every
    density, the cropped cyclic convolution on the doubled grid IS the open-boundary convolution on the physical grid
    (1-D and 3-D); the whole solve density -> potential -> force is linear; it instantiates the Section hypotheses of
    CicProofs.v's kick theorems; mirror symmetry; Newton's third law on the grid. *)
From Coq Require Import List Bool Arith ZArith QArith Qabs Lia Lqa Permutation.
From Cheetah Require Import SpaceCharge.Cic SpaceCharge.CicProofs SpaceCharge.Hockney.
Import ListNotations.
Open Scope Q_scope.

(* ------------------------------------------------------------------ sums over index ranges *)
Lemma sumN_ext : forall n f g, (forall p, (p < n)%nat -> f p == g p) -> sumN n f == sumN n g.
Proof. intros. unfold sumN. apply sumQ_map_ext. intros x Hx. apply in_seq in Hx. apply H. lia. Qed.

Lemma sumN_zero : forall n f, (forall p, (p < n)%nat -> f p == 0) -> sumN n f == 0.
Proof. intros. unfold sumN. apply sumQ_map_zero. intros x Hx. apply in_seq in Hx. apply H. lia. Qed.

Lemma sumN_add : forall n f g, sumN n (fun p => f p + g p) == sumN n f + sumN n g.
Proof. intros. unfold sumN. apply sumQ_map_add. Qed.

Lemma sumN_scale : forall n k f, sumN n (fun p => k * f p) == k * sumN n f.
Proof. intros. unfold sumN. apply sumQ_map_scale. Qed.

Lemma sumN_opp : forall n f, sumN n (fun p => - f p) == - sumN n f.
Proof.
  intros. rewrite (sumN_ext n _ (fun p => (-1 # 1) * f p)) by (intros; ring). rewrite sumN_scale. ring.
Qed.

Lemma sumN_S : forall n f, sumN (S n) f == sumN n f + f n.
Proof. intros. unfold sumN. rewrite seq_S, map_app, sumQ_app. simpl. ring. Qed.

Lemma sumN_app : forall n m f, sumN (n + m) f == sumN n f + sumN m (fun p => f (n + p)%nat).
Proof.
  intros. induction m.
  - rewrite Nat.add_0_r. unfold sumN at 3. simpl. ring.
  - rewrite Nat.add_succ_r, !sumN_S, IHm. ring.
Qed.

(* a sum over the doubled range whose upper half vanishes *)
Lemma sumN_pad : forall n f g, (forall p, (p < n)%nat -> f p == g p) -> (forall p, (n <= p)%nat -> f p == 0) ->
  sumN (2 * n) f == sumN n g.
Proof.
  intros. replace (2 * n)%nat with (n + n)%nat by lia. rewrite sumN_app.
  rewrite (sumN_zero n (fun p => f (n + p)%nat)) by (intros; apply H0; lia).
  rewrite (sumN_ext n f g H). ring.
Qed.

(* reversal of the summation order *)
Lemma sumN_rev : forall n f, sumN n f == sumN n (fun p => f (n - 1 - p)%nat).
Proof.
  induction n; intros; [reflexivity|].
  rewrite sumN_S.
  pose proof (sumN_app 1 n (fun p => f (S n - 1 - p)%nat)) as E. change (1 + n)%nat with (S n) in E. rewrite E.
  unfold sumN at 2. simpl map. unfold sumQ at 1. simpl fold_right.
  rewrite (IHn f). rewrite !Nat.sub_0_r.
  rewrite (sumN_ext n (fun p => f (S n - 1 - (1 + p))%nat) (fun p => f (n - 1 - p)%nat)).
  - ring.
  - intros. replace (S n - 1 - (1 + p))%nat with (n - 1 - p)%nat by lia. reflexivity.
Qed.

Lemma sumN_swap : forall n m (f : nat -> nat -> Q),
  sumN n (fun p => sumN m (fun q => f p q)) == sumN m (fun q => sumN n (fun p => f p q)).
Proof. intros. unfold sumN. apply sumQ_swap. Qed.

Lemma sum3_ext : forall a b c f g,
  (forall p q s, (p < a)%nat -> (q < b)%nat -> (s < c)%nat -> f p q s == g p q s) -> sum3 a b c f == sum3 a b c g.
Proof.
  intros. unfold sum3. apply sumN_ext; intros p Hp. apply sumN_ext; intros q Hq. apply sumN_ext; intros s Hs. auto.
Qed.

Lemma sum3_zero : forall a b c f,
  (forall p q s, (p < a)%nat -> (q < b)%nat -> (s < c)%nat -> f p q s == 0) -> sum3 a b c f == 0.
Proof.
  intros. unfold sum3. apply sumN_zero; intros p Hp. apply sumN_zero; intros q Hq. apply sumN_zero; intros s Hs. auto.
Qed.

Lemma sum3_scale : forall a b c k f, sum3 a b c (fun p q s => k * f p q s) == k * sum3 a b c f.
Proof.
  intros. unfold sum3. rewrite <- sumN_scale. apply sumN_ext; intros p _.
  rewrite <- sumN_scale. apply sumN_ext; intros q _. apply sumN_scale.
Qed.

Lemma sum3_add : forall a b c f g, sum3 a b c (fun p q s => f p q s + g p q s) == sum3 a b c f + sum3 a b c g.
Proof.
  intros. unfold sum3. rewrite <- sumN_add. apply sumN_ext; intros p _.
  rewrite <- sumN_add. apply sumN_ext; intros q _. apply sumN_add.
Qed.

(* a triple sum over the doubled grid whose terms vanish outside the physical octant *)
Lemma sum3_pad : forall a b c f g,
  (forall p q s, (p < a)%nat -> (q < b)%nat -> (s < c)%nat -> f p q s == g p q s) ->
  (forall p q s, (a <= p)%nat \/ (b <= q)%nat \/ (c <= s)%nat -> f p q s == 0) ->
  sum3 (2 * a) (2 * b) (2 * c) f == sum3 a b c g.
Proof.
  intros a b c f g Hin Hout. unfold sum3. apply sumN_pad.
  - intros p Hp. apply sumN_pad.
    + intros q Hq. apply sumN_pad; intros s Hs; [apply Hin; assumption | apply Hout; auto].
    + intros q Hq. apply sumN_zero. intros s _. apply Hout; auto.
  - intros p Hp. apply sumN_zero. intros q _. apply sumN_zero. intros s _. apply Hout; auto.
Qed.

(* ------------------------------------------------------------------ the index lemma behind Hockney's trick *)
(* for two PHYSICAL indices m, p < n the doubled Green array, read at (m - p) mod 2n, holds G(|m - p|):
   differences 0..n-1 land in [:n], differences -(n-1)..-1 land in [n+1:], where the flipped copy sits *)
Lemma fold1_cidx : forall n m p, (m < n)%nat -> (p < n)%nat -> fold1 n (cidx n m p) = Some (dist m p).
Proof.
  intros n m p Hm Hp. unfold cidx, fold1, dist.
  destruct (le_lt_dec p m) as [L | L].
  - replace (m + 2 * n - p)%nat with ((m - p) + 1 * (2 * n))%nat by lia.
    rewrite Nat.mod_add by lia. rewrite Nat.mod_small by lia.
    destruct (Nat.ltb_spec (m - p) n); [|lia]. f_equal. lia.
  - rewrite Nat.mod_small by lia.
    destruct (Nat.ltb_spec (m + 2 * n - p) n); [lia|].
    destruct (Nat.eqb_spec (m + 2 * n - p) n); [lia|]. f_equal. lia.
Qed.

Lemma cidx_lt : forall n m p, (0 < n)%nat -> (cidx n m p < 2 * n)%nat.
Proof. intros. unfold cidx. apply Nat.mod_upper_bound. lia. Qed.

(* the unused entry [n] is read exactly when the (cyclic) index difference is n: never between physical indices *)
Lemma fold1_unused : forall n m, fold1 n m = None <-> m = n.
Proof.
  intros. unfold fold1. destruct (Nat.ltb_spec m n); [split; [discriminate | lia]|].
  destruct (Nat.eqb_spec m n); split; try discriminate; auto; lia.
Qed.

(* ------------------------------------------------------------------ 1-D: Hockney = open convolution *)
Theorem hockney1_is_open_convolution : forall n (G r : nat -> Q) m, (m < n)%nat ->
  hockney1 n G r m == open1 n G r m.
Proof.
  intros n G r m Hm. unfold hockney1, cconv1, open1. apply sumN_pad.
  - intros p Hp. unfold pad1, green1. rewrite (fold1_cidx n m p Hm Hp).
    destruct (Nat.ltb_spec p n); [reflexivity | lia].
  - intros p Hp. unfold pad1. destruct (Nat.ltb_spec p n); [lia | ring].
Qed.

(* ------------------------------------------------------------------ 3-D *)
Lemma pad3_in : forall nx ny nz r a b c, (a < nx)%nat -> (b < ny)%nat -> (c < nz)%nat -> pad3 (nx, ny, nz) r a b c = r a b c.
Proof.
  intros. unfold pad3.
  destruct (Nat.ltb_spec a nx); [|lia]. destruct (Nat.ltb_spec b ny); [|lia]. destruct (Nat.ltb_spec c nz); [|lia]. reflexivity.
Qed.

Lemma pad3_out : forall nx ny nz r a b c, (nx <= a)%nat \/ (ny <= b)%nat \/ (nz <= c)%nat -> pad3 (nx, ny, nz) r a b c = 0.
Proof.
  intros. unfold pad3.
  destruct (Nat.ltb_spec a nx); destruct (Nat.ltb_spec b ny); destruct (Nat.ltb_spec c nz); simpl; try reflexivity; lia.
Qed.

Lemma green3_phys : forall nx ny nz G i j k p q s,
  (i < nx)%nat -> (j < ny)%nat -> (k < nz)%nat -> (p < nx)%nat -> (q < ny)%nat -> (s < nz)%nat ->
  green3 (nx, ny, nz) G (cidx nx i p) (cidx ny j q) (cidx nz k s) = G (dist i p) (dist j q) (dist k s).
Proof. intros. unfold green3. rewrite !fold1_cidx by assumption. reflexivity. Qed.

(* THE reason for the doubling and mirroring: on the physical grid the cropped cyclic convolution of the zero-padded density
   with the doubled Green array is the aperiodic sum over the physical grid -- no wrap-around image contributes *)
Theorem cconv_is_open_convolution : forall nx ny nz (G r : grid) i j k, (i < nx)%nat -> (j < ny)%nat -> (k < nz)%nat ->
  crop (cconv3 (nx, ny, nz) (pad3 (nx, ny, nz) r) (green3 (nx, ny, nz) G)) i j k == open3 (nx, ny, nz) G r i j k.
Proof.
  intros nx ny nz G r i j k Hi Hj Hk. unfold crop, cconv3, open3. apply sum3_pad.
  - intros p q s Hp Hq Hs. rewrite pad3_in by assumption. rewrite green3_phys by assumption. reflexivity.
  - intros p q s H. rewrite pad3_out by assumption. ring.
Qed.

Theorem hockney_is_open_convolution : forall nx ny nz k0 (G r : grid) i j k, (i < nx)%nat -> (j < ny)%nat -> (k < nz)%nat ->
  potential (nx, ny, nz) k0 G r i j k == k0 * open3 (nx, ny, nz) G r i j k.
Proof. intros. unfold potential. rewrite cconv_is_open_convolution by assumption. reflexivity. Qed.

(* the potential does not depend on the Green data at displacements from empty cells: only cells that hold charge are sources *)
Lemma open3_support : forall nx ny nz (G r : grid) (keep : nat -> nat -> nat -> bool) i j k,
  (forall p q s, keep p q s = false -> r p q s == 0) ->
  open3 (nx, ny, nz) G r i j k ==
  sum3 nx ny nz (fun p q s => if keep p q s then r p q s * G (dist i p) (dist j q) (dist k s) else 0).
Proof.
  intros. unfold open3. apply sum3_ext. intros p q s _ _ _.
  destruct (keep p q s) eqn:E; [reflexivity|]. rewrite (H p q s E). ring.
Qed.

(* ------------------------------------------------------------------ linearity of density -> potential *)
Lemma cconv3_ext_l : forall sh u u' v, (forall p q s, u p q s == u' p q s) ->
  forall a b c, cconv3 sh u v a b c == cconv3 sh u' v a b c.
Proof. intros [[nx ny] nz] u u' v H a b c. unfold cconv3. apply sum3_ext. intros. rewrite H. reflexivity. Qed.

Lemma cconv3_scale_l : forall sh t u v a b c, cconv3 sh (fun p q s => t * u p q s) v a b c == t * cconv3 sh u v a b c.
Proof. intros [[nx ny] nz] t u v a b c. unfold cconv3. rewrite <- sum3_scale. apply sum3_ext. intros. ring. Qed.

Lemma cconv3_add_l : forall sh u u' v a b c,
  cconv3 sh (fun p q s => u p q s + u' p q s) v a b c == cconv3 sh u v a b c + cconv3 sh u' v a b c.
Proof. intros [[nx ny] nz] u u' v a b c. unfold cconv3. rewrite <- sum3_add. apply sum3_ext. intros. ring. Qed.

(* only the physical cells of the density are read *)
Lemma pad3_ext : forall nx ny nz r r', (forall a b c, (a < nx)%nat -> (b < ny)%nat -> (c < nz)%nat -> r a b c == r' a b c) ->
  forall a b c, pad3 (nx, ny, nz) r a b c == pad3 (nx, ny, nz) r' a b c.
Proof.
  intros. unfold pad3.
  destruct (Nat.ltb_spec a nx); destruct (Nat.ltb_spec b ny); destruct (Nat.ltb_spec c nz); simpl; try reflexivity. auto.
Qed.

Lemma potential_ext : forall nx ny nz k0 G r r',
  (forall a b c, (a < nx)%nat -> (b < ny)%nat -> (c < nz)%nat -> r a b c == r' a b c) ->
  forall i j k, potential (nx, ny, nz) k0 G r i j k == potential (nx, ny, nz) k0 G r' i j k.
Proof.
  intros. unfold potential, crop. apply Qmult_comp; [reflexivity|]. apply cconv3_ext_l. apply pad3_ext. assumption.
Qed.

Lemma potential_scale : forall sh k0 G t r i j k,
  potential sh k0 G (fun a b c => t * r a b c) i j k == t * potential sh k0 G r i j k.
Proof.
  intros. unfold potential, crop.
  rewrite (cconv3_ext_l sh _ (fun p q s => t * pad3 sh r p q s)).
  - rewrite cconv3_scale_l. ring.
  - intros p q s. destruct sh as [[nx ny] nz]. unfold pad3. destruct ((p <? nx)%nat && (q <? ny)%nat && (s <? nz)%nat); ring.
Qed.

Lemma potential_add : forall sh k0 G r r' i j k,
  potential sh k0 G (fun a b c => r a b c + r' a b c) i j k == potential sh k0 G r i j k + potential sh k0 G r' i j k.
Proof.
  intros. unfold potential, crop.
  rewrite (cconv3_ext_l sh _ (fun p q s => pad3 sh r p q s + pad3 sh r' p q s)).
  - rewrite cconv3_add_l. ring.
  - intros p q s. destruct sh as [[nx ny] nz]. unfold pad3. destruct ((p <? nx)%nat && (q <? ny)%nat && (s <? nz)%nat); ring.
Qed.

(* ------------------------------------------------------------------ linearity of potential -> force *)
Lemma interior_lt : forall n i, interior n i = true -> (1 <= i /\ i + 1 < n)%nat.
Proof.
  intros n i H. unfold interior in H. apply andb_true_iff in H. destruct H as [H1 H2].
  apply Nat.leb_le in H1. apply Nat.ltb_lt in H2. lia.
Qed.

Lemma grad_ext : forall sh cell comp phi phi', (forall a b c, phi a b c == phi' a b c) ->
  forall i j k, grad sh cell comp phi i j k == grad sh cell comp phi' i j k.
Proof.
  intros [[nx ny] nz] [[cx cy] cz] comp phi phi' H i j k. unfold grad.
  destruct comp as [|[|c]]; match goal with |- context [interior ?n ?x] => destruct (interior n x) end;
    rewrite ?H; reflexivity.
Qed.

(* the force at a physical grid point reads the potential at physical grid points only *)
Lemma grad_ext_phys : forall nx ny nz cell comp phi phi',
  (forall a b c, (a < nx)%nat -> (b < ny)%nat -> (c < nz)%nat -> phi a b c == phi' a b c) ->
  forall i j k, (i < nx)%nat -> (j < ny)%nat -> (k < nz)%nat ->
  grad (nx, ny, nz) cell comp phi i j k == grad (nx, ny, nz) cell comp phi' i j k.
Proof.
  intros nx ny nz [[cx cy] cz] comp phi phi' H i j k Hi Hj Hk. unfold grad.
  destruct comp as [|[|c]];
    match goal with |- context [interior ?n ?x] => destruct (interior n x) eqn:E end; try reflexivity;
    apply interior_lt in E; rewrite !H by lia; reflexivity.
Qed.

Lemma grad_scale : forall sh cell comp t phi i j k,
  grad sh cell comp (fun a b c => t * phi a b c) i j k == t * grad sh cell comp phi i j k.
Proof.
  intros [[nx ny] nz] [[cx cy] cz] comp t phi i j k. unfold grad.
  destruct comp as [|[|c]]; match goal with |- context [interior ?n ?x] => destruct (interior n x) end; ring.
Qed.

Lemma grad_add : forall sh cell comp phi phi' i j k,
  grad sh cell comp (fun a b c => phi a b c + phi' a b c) i j k == grad sh cell comp phi i j k + grad sh cell comp phi' i j k.
Proof.
  intros [[nx ny] nz] [[cx cy] cz] comp phi phi' i j k. unfold grad.
  destruct comp as [|[|c]]; match goal with |- context [interior ?n ?x] => destruct (interior n x) end; ring.
Qed.

Lemma field_ext : forall sh cell ig2 comp phi phi', (forall a b c, phi a b c == phi' a b c) ->
  forall i j k, field sh cell ig2 comp phi i j k == field sh cell ig2 comp phi' i j k.
Proof. intros. unfold field. rewrite (grad_ext sh cell comp phi phi' H). reflexivity. Qed.

Lemma field_scale : forall sh cell ig2 comp t phi i j k,
  field sh cell ig2 comp (fun a b c => t * phi a b c) i j k == t * field sh cell ig2 comp phi i j k.
Proof. intros. unfold field. rewrite grad_scale. ring. Qed.

Lemma field_add : forall sh cell ig2 comp phi phi' i j k,
  field sh cell ig2 comp (fun a b c => phi a b c + phi' a b c) i j k ==
  field sh cell ig2 comp phi i j k + field sh cell ig2 comp phi' i j k.
Proof. intros. unfold field. rewrite grad_add. ring. Qed.

(* the boundary planes of each component carry no force ("0 boundary conditions" of the code) *)
Lemma field_boundary_zero : forall nx ny nz cell ig2 phi i j k,
  (i = 0%nat \/ (nx <= i + 1)%nat -> field (nx, ny, nz) cell ig2 0 phi i j k == 0) /\
  (j = 0%nat \/ (ny <= j + 1)%nat -> field (nx, ny, nz) cell ig2 1 phi i j k == 0) /\
  (k = 0%nat \/ (nz <= k + 1)%nat -> field (nx, ny, nz) cell ig2 2 phi i j k == 0).
Proof.
  intros nx ny nz [[cx cy] cz] ig2 phi i j k. unfold field, grad.
  repeat split; intros H;
    match goal with |- context [interior ?n ?x] => destruct (interior n x) eqn:E end; try ring;
    apply interior_lt in E; lia.
Qed.

(* ------------------------------------------------------------------ the whole solve as the [solve] of Cic.v *)
Lemma shape_of_eq : forall sh, exists nx ny nz, shape_of sh = (nx, ny, nz).
Proof. intros [[a b] c]. simpl. eauto. Qed.

Lemma to_grid_ext : forall r r' : idx -> Q, (forall k, r k == r' k) -> forall a b c, to_grid r a b c == to_grid r' a b c.
Proof. intros. unfold to_grid. apply H. Qed.

(* the Hockney solve respects equality of grids ... *)
Lemma hsolve_ext : forall sh cell k0 ig2 G c r r', (forall k, r k == r' k) ->
  forall k, hsolve sh cell k0 ig2 G c r k == hsolve sh cell k0 ig2 G c r' k.
Proof.
  intros sh cell k0 ig2 G c r r' H k. unfold hsolve. destruct (valid sh k); [|reflexivity].
  destruct k as [[i j] l]. destruct (shape_of_eq sh) as [nx [ny [nz E]]]. rewrite E.
  apply field_ext. intros a b d. apply potential_ext. intros. apply to_grid_ext. assumption.
Qed.

(* ... is homogeneous ... *)
Lemma hsolve_scale : forall sh cell k0 ig2 G c a r k,
  hsolve sh cell k0 ig2 G c (fun i => a * r i) k == a * hsolve sh cell k0 ig2 G c r k.
Proof.
  intros sh cell k0 ig2 G c a r k. unfold hsolve. destruct (valid sh k); [|ring].
  destruct k as [[i j] l].
  rewrite (field_ext (shape_of sh) cell ig2 c _ (fun x y z => a * potential (shape_of sh) k0 G (to_grid r) x y z)).
  - apply field_scale.
  - intros x y z. apply (potential_scale (shape_of sh) k0 G a (to_grid r)).
Qed.

(* ... and additive: superposition *)
Lemma hsolve_add : forall sh cell k0 ig2 G c r r' k,
  hsolve sh cell k0 ig2 G c (fun i => r i + r' i) k == hsolve sh cell k0 ig2 G c r k + hsolve sh cell k0 ig2 G c r' k.
Proof.
  intros sh cell k0 ig2 G c r r' k. unfold hsolve. destruct (valid sh k); [|ring].
  destruct k as [[i j] l].
  rewrite (field_ext (shape_of sh) cell ig2 c _
             (fun x y z => potential (shape_of sh) k0 G (to_grid r) x y z + potential (shape_of sh) k0 G (to_grid r') x y z)).
  - apply field_add.
  - intros x y z. apply (potential_add (shape_of sh) k0 G (to_grid r) (to_grid r')).
Qed.

Lemma hsolve_zero : forall sh cell k0 ig2 G c r k, (forall i, r i == 0) -> hsolve sh cell k0 ig2 G c r k == 0.
Proof. intros. apply (solve_zero (hsolve sh cell k0 ig2 G) (hsolve_ext sh cell k0 ig2 G) (hsolve_scale sh cell k0 ig2 G)). assumption. Qed.

(* the force only depends on the density at existing grid points *)
Lemma hsolve_ext_valid : forall sh cell k0 ig2 G c r r', (forall k, valid sh k = true -> r k == r' k) ->
  forall k, hsolve sh cell k0 ig2 G c r k == hsolve sh cell k0 ig2 G c r' k.
Proof.
  intros sh cell k0 ig2 G c r r' H k. unfold hsolve. destruct (valid sh k); [|reflexivity].
  destruct k as [[i j] l]. destruct sh as [[zx zy] zz]. simpl shape_of.
  apply field_ext. intros a b d. apply potential_ext. intros x y z Hx Hy Hz. unfold to_grid. apply H.
  unfold valid.
  destruct (Z.leb_spec 0 (Z.of_nat x)); [|lia]. destruct (Z.ltb_spec (Z.of_nat x) zx); [|lia].
  destruct (Z.leb_spec 0 (Z.of_nat y)); [|lia]. destruct (Z.ltb_spec (Z.of_nat y) zy); [|lia].
  destruct (Z.leb_spec 0 (Z.of_nat z)); [|lia]. destruct (Z.ltb_spec (Z.of_nat z) zz); [|lia]. reflexivity.
Qed.

(* the solve with the literal cyclic convolution equals the solve with the open-boundary sum *)
Lemma valid_nat : forall zx zy zz i j l, valid (zx, zy, zz) (i, j, l) = true ->
  (Z.to_nat i < Z.to_nat zx /\ Z.to_nat j < Z.to_nat zy /\ Z.to_nat l < Z.to_nat zz)%nat.
Proof.
  intros. unfold valid in H. repeat (apply andb_true_iff in H; destruct H as [H ?]).
  repeat match goal with
  | h : (_ <=? _)%Z = true |- _ => apply Z.leb_le in h
  | h : (_ <? _)%Z = true |- _ => apply Z.ltb_lt in h
  end. lia.
Qed.

Theorem hsolve_open_eq : forall sh cell k0 ig2 G c r k,
  hsolve sh cell k0 ig2 G c r k == hsolve_open sh cell k0 ig2 G c r k.
Proof.
  intros [[zx zy] zz] cell k0 ig2 G c r [[i j] l]. unfold hsolve, hsolve_open.
  destruct (valid (zx, zy, zz) (i, j, l)) eqn:V; [|reflexivity].
  apply valid_nat in V. destruct V as [Vi [Vj Vl]]. simpl shape_of. unfold field. apply Qmult_comp; [reflexivity|].
  apply grad_ext_phys; try assumption. intros a b d Ha Hb Hd. apply hockney_is_open_convolution; assumption.
Qed.

(* ------------------------------------------------------------------ the kick theorems of CicProofs.v for the concrete solve *)
Lemma gather_add : forall g e F F' p, gather g e (fun k => F k + F' k) p == gather g e F p + gather g e F' p.
Proof.
  intros. unfold gather. rewrite <- sumQ_map_add. apply sumQ_map_ext. intros c _.
  destruct (valid (g_shape g) c); ring.
Qed.

Section HockneyKick.
Variables (k0 ig2 : Q) (G : grid).
(* the solve on the grid of geometry g: shape and cell sizes are the geometry's; k0 = 1/(4 pi eps0), ig2 = 1/gamma^2 and the
   integrated-Green-function values G are arbitrary *)
Definition hs (g : geom) := hsolve (g_shape g) (g_cell g) k0 ig2 G.

Lemma hockney_kick_perm : forall g e dt ps ps' comp p, Permutation ps ps' ->
  dP (hs g) g e dt ps' comp p == dP (hs g) g e dt ps comp p.
Proof. intros. apply gather_perm_equivariant; [apply hsolve_ext | assumption]. Qed.

Lemma hockney_kick_linear_in_charge : forall g e dt a ps comp p,
  dP (hs g) g e dt (map (scale_q a) ps) comp (scale_q a p) == a * dP (hs g) g e dt ps comp p.
Proof. intros. apply kick_linear_in_charge; [apply hsolve_ext | apply hsolve_scale]. Qed.

Lemma hockney_zero_charge_no_kick : forall g e dt ps comp p, (forall x, In x ps -> s_q x == 0) ->
  dP (hs g) g e dt ps comp p == 0.
Proof. intros. apply zero_charge_no_kick; [apply hsolve_ext | apply hsolve_scale | assumption]. Qed.

Lemma hockney_lost_particles_not_sources : forall g e dt ps comp p,
  dP (hs g) g e dt ps comp p == dP (hs g) g e dt (filter alive ps) comp p.
Proof. intros. apply lost_particles_not_sources. apply hsolve_ext. Qed.

Lemma hockney_off_grid_bunch_no_kick : forall g e dt ps comp p, (forall x, In x ps -> off_grid g x) ->
  dP (hs g) g e dt ps comp p == 0.
Proof. intros. apply off_grid_bunch_no_kick; [apply hsolve_ext | apply hsolve_scale | assumption]. Qed.

(* superposition: the kick from two sub-bunches is the sum of the kicks from each *)
Lemma hockney_kick_superposition : forall g e dt ps1 ps2 comp p,
  dP (hs g) g e dt (ps1 ++ ps2) comp p == dP (hs g) g e dt ps1 comp p + dP (hs g) g e dt ps2 comp p.
Proof.
  intros. unfold dP.
  rewrite (gather_ext g e (hs g comp (rho g (ps1 ++ ps2))) (fun k => hs g comp (rho g ps1) k + hs g comp (rho g ps2) k)).
  - rewrite gather_add. ring.
  - intros k. unfold hs. rewrite <- hsolve_add. apply hsolve_ext. intros i. apply deposit_app.
Qed.
End HockneyKick.

(* ------------------------------------------------------------------ mirror symmetry about the grid centre *)
Lemma dist_rev : forall n i p, (i < n)%nat -> (p < n)%nat -> dist (n - 1 - i) (n - 1 - p) = dist i p.
Proof. intros. unfold dist. lia. Qed.

Lemma dist_sym : forall a b, dist a b = dist b a.
Proof. intros. unfold dist. lia. Qed.

(* the Green data enter through |i - i'| only, so they are automatically even: a density that is mirror symmetric about the
   centre plane of an axis produces a potential with the same symmetry (open-boundary sum, hence the Hockney potential) *)
Lemma open3_mirror_x : forall nx ny nz (G r : grid),
  (forall p q s, (p < nx)%nat -> (q < ny)%nat -> (s < nz)%nat -> r (nx - 1 - p)%nat q s == r p q s) ->
  forall i j k, (i < nx)%nat -> open3 (nx, ny, nz) G r (nx - 1 - i)%nat j k == open3 (nx, ny, nz) G r i j k.
Proof.
  intros nx ny nz G r H i j k Hi. unfold open3, sum3. rewrite sumN_rev. apply sumN_ext. intros p Hp.
  apply sumN_ext. intros q Hq. apply sumN_ext. intros s Hs.
  rewrite (dist_rev nx i p Hi Hp). rewrite H by assumption. reflexivity.
Qed.

Lemma open3_mirror_y : forall nx ny nz (G r : grid),
  (forall p q s, (p < nx)%nat -> (q < ny)%nat -> (s < nz)%nat -> r p (ny - 1 - q)%nat s == r p q s) ->
  forall i j k, (j < ny)%nat -> open3 (nx, ny, nz) G r i (ny - 1 - j)%nat k == open3 (nx, ny, nz) G r i j k.
Proof.
  intros nx ny nz G r H i j k Hj. unfold open3, sum3. apply sumN_ext. intros p Hp.
  rewrite sumN_rev. apply sumN_ext. intros q Hq. apply sumN_ext. intros s Hs.
  rewrite (dist_rev ny j q Hj Hq). rewrite H by assumption. reflexivity.
Qed.

Lemma open3_mirror_z : forall nx ny nz (G r : grid),
  (forall p q s, (p < nx)%nat -> (q < ny)%nat -> (s < nz)%nat -> r p q (nz - 1 - s)%nat == r p q s) ->
  forall i j k, (k < nz)%nat -> open3 (nx, ny, nz) G r i j (nz - 1 - k)%nat == open3 (nx, ny, nz) G r i j k.
Proof.
  intros nx ny nz G r H i j k Hk. unfold open3, sum3. apply sumN_ext. intros p Hp.
  apply sumN_ext. intros q Hq. rewrite sumN_rev. apply sumN_ext. intros s Hs.
  rewrite (dist_rev nz k s Hk Hs). rewrite H by assumption. reflexivity.
Qed.

Theorem hockney_potential_mirror_x : forall nx ny nz k0 (G r : grid),
  (forall p q s, (p < nx)%nat -> (q < ny)%nat -> (s < nz)%nat -> r (nx - 1 - p)%nat q s == r p q s) ->
  forall i j k, (i < nx)%nat -> (j < ny)%nat -> (k < nz)%nat ->
  potential (nx, ny, nz) k0 G r (nx - 1 - i)%nat j k == potential (nx, ny, nz) k0 G r i j k.
Proof.
  intros. rewrite !hockney_is_open_convolution by (assumption || lia). rewrite open3_mirror_x by assumption. reflexivity.
Qed.

Theorem hockney_potential_mirror_y : forall nx ny nz k0 (G r : grid),
  (forall p q s, (p < nx)%nat -> (q < ny)%nat -> (s < nz)%nat -> r p (ny - 1 - q)%nat s == r p q s) ->
  forall i j k, (i < nx)%nat -> (j < ny)%nat -> (k < nz)%nat ->
  potential (nx, ny, nz) k0 G r i (ny - 1 - j)%nat k == potential (nx, ny, nz) k0 G r i j k.
Proof.
  intros. rewrite !hockney_is_open_convolution by (assumption || lia). rewrite open3_mirror_y by assumption. reflexivity.
Qed.

Theorem hockney_potential_mirror_z : forall nx ny nz k0 (G r : grid),
  (forall p q s, (p < nx)%nat -> (q < ny)%nat -> (s < nz)%nat -> r p q (nz - 1 - s)%nat == r p q s) ->
  forall i j k, (i < nx)%nat -> (j < ny)%nat -> (k < nz)%nat ->
  potential (nx, ny, nz) k0 G r i j (nz - 1 - k)%nat == potential (nx, ny, nz) k0 G r i j k.
Proof.
  intros. rewrite !hockney_is_open_convolution by (assumption || lia). rewrite open3_mirror_z by assumption. reflexivity.
Qed.

Lemma interior_rev : forall n i, (i < n)%nat -> interior n (n - 1 - i) = interior n i.
Proof.
  intros. unfold interior.
  destruct (Nat.leb_spec 1 (n - 1 - i)); destruct (Nat.ltb_spec (n - 1 - i + 1) n);
  destruct (Nat.leb_spec 1 i); destruct (Nat.ltb_spec (i + 1) n); simpl; try reflexivity; lia.
Qed.

(* a potential that is mirror symmetric in x gives a force whose x-component is ODD under the mirror (boundary planes included:
   both carry 0) and whose y- and tau-components are EVEN *)
Lemma field_mirror_x : forall nx ny nz cell ig2 (phi : grid),
  (forall a b c, (a < nx)%nat -> (b < ny)%nat -> (c < nz)%nat -> phi (nx - 1 - a)%nat b c == phi a b c) ->
  forall i j k, (i < nx)%nat -> (j < ny)%nat -> (k < nz)%nat ->
  field (nx, ny, nz) cell ig2 0 phi (nx - 1 - i)%nat j k == - field (nx, ny, nz) cell ig2 0 phi i j k /\
  field (nx, ny, nz) cell ig2 1 phi (nx - 1 - i)%nat j k == field (nx, ny, nz) cell ig2 1 phi i j k /\
  field (nx, ny, nz) cell ig2 2 phi (nx - 1 - i)%nat j k == field (nx, ny, nz) cell ig2 2 phi i j k.
Proof.
  intros nx ny nz [[cx cy] cz] ig2 phi H i j k Hi Hj Hk. unfold field, grad. repeat split.
  - rewrite (interior_rev nx i Hi). destruct (interior nx i) eqn:E; [|ring]. apply interior_lt in E.
    replace (nx - 1 - i + 1)%nat with (nx - 1 - (i - 1))%nat by lia.
    replace (nx - 1 - i - 1)%nat with (nx - 1 - (i + 1))%nat by lia.
    rewrite !H by lia. ring.
  - destruct (interior ny j) eqn:E; [|ring]. apply interior_lt in E. rewrite !H by lia. reflexivity.
  - destruct (interior nz k) eqn:E; [|ring]. apply interior_lt in E. rewrite !H by lia. reflexivity.
Qed.

(* "pushes particles away from the bunch centre", model level: for a density that is mirror symmetric about the centre plane of
   the x axis the Hockney force is odd in x; on the centre plane of a grid with an odd number of points it vanishes *)
Theorem hockney_force_mirror_x : forall nx ny nz cell k0 ig2 (G r : grid),
  (forall p q s, (p < nx)%nat -> (q < ny)%nat -> (s < nz)%nat -> r (nx - 1 - p)%nat q s == r p q s) ->
  forall i j k, (i < nx)%nat -> (j < ny)%nat -> (k < nz)%nat ->
  let F := fun comp => field (nx, ny, nz) cell ig2 comp (potential (nx, ny, nz) k0 G r) in
  F 0%nat (nx - 1 - i)%nat j k == - F 0%nat i j k /\ F 1%nat (nx - 1 - i)%nat j k == F 1%nat i j k /\
  F 2%nat (nx - 1 - i)%nat j k == F 2%nat i j k.
Proof.
  intros. apply field_mirror_x; try assumption. intros. apply hockney_potential_mirror_x; assumption.
Qed.

Theorem hockney_force_centre_plane_x : forall c ny nz cell k0 ig2 (G r : grid),
  let nx := (2 * c + 1)%nat in
  (forall p q s, (p < nx)%nat -> (q < ny)%nat -> (s < nz)%nat -> r (nx - 1 - p)%nat q s == r p q s) ->
  forall j k, (j < ny)%nat -> (k < nz)%nat ->
  field (nx, ny, nz) cell ig2 0 (potential (nx, ny, nz) k0 G r) c j k == 0.
Proof.
  intros c ny nz cell k0 ig2 G r nx H j k Hj Hk.
  destruct (hockney_force_mirror_x nx ny nz cell k0 ig2 G r H c j k) as [E _]; try assumption; [unfold nx; lia|].
  cbv zeta in E. replace (nx - 1 - c)%nat with c in E by (unfold nx; lia). lra.
Qed.

(* ------------------------------------------------------------------ Newton's third law on the grid *)
Lemma sumN_sum3_swap : forall n a b c (f : nat -> nat -> nat -> nat -> Q),
  sumN n (fun i => sum3 a b c (fun p q s => f i p q s)) == sum3 a b c (fun p q s => sumN n (fun i => f i p q s)).
Proof.
  intros. unfold sum3. rewrite sumN_swap. apply sumN_ext. intros p _.
  rewrite sumN_swap. apply sumN_ext. intros q _. apply sumN_swap.
Qed.

Lemma sum3_swap : forall a b c a' b' c' (f : nat -> nat -> nat -> nat -> nat -> nat -> Q),
  sum3 a b c (fun i j k => sum3 a' b' c' (fun p q s => f i j k p q s)) ==
  sum3 a' b' c' (fun p q s => sum3 a b c (fun i j k => f i j k p q s)).
Proof.
  intros. unfold sum3 at 1.
  rewrite (sumN_ext a _ (fun i => sum3 a' b' c' (fun p q s => sumN b (fun j => sumN c (fun k => f i j k p q s))))).
  - rewrite (sumN_sum3_swap a a' b' c' (fun i p q s => sumN b (fun j => sumN c (fun k => f i j k p q s)))). reflexivity.
  - intros i _.
    rewrite (sumN_ext b _ (fun j => sum3 a' b' c' (fun p q s => sumN c (fun k => f i j k p q s)))).
    + apply (sumN_sum3_swap b a' b' c' (fun j p q s => sumN c (fun k => f i j k p q s))).
    + intros j _. apply (sumN_sum3_swap c a' b' c' (fun k p q s => f i j k p q s)).
Qed.

(* a double sum over the grid of an antisymmetric pair term vanishes: actio = reactio *)
Lemma sum3_antisym : forall a b c (f : nat -> nat -> nat -> nat -> nat -> nat -> Q),
  (forall i j k p q s, (i < a)%nat -> (j < b)%nat -> (k < c)%nat -> (p < a)%nat -> (q < b)%nat -> (s < c)%nat ->
     f i j k p q s == - f p q s i j k) ->
  sum3 a b c (fun i j k => sum3 a b c (fun p q s => f i j k p q s)) == 0.
Proof.
  intros a b c f H.
  assert (E : sum3 a b c (fun i j k => sum3 a b c (fun p q s => f i j k p q s)) ==
              - sum3 a b c (fun i j k => sum3 a b c (fun p q s => f i j k p q s))).
  { rewrite (sum3_ext a b c _ (fun i j k => (-1 # 1) * sum3 a b c (fun p q s => f p q s i j k))) at 1.
    - rewrite sum3_scale. rewrite (sum3_swap a b c a b c (fun i j k p q s => f p q s i j k)). ring.
    - intros i j k Hi Hj Hk. rewrite <- sum3_scale. apply sum3_ext. intros p q s Hp Hq Hs.
      rewrite (H i j k p q s) by assumption. ring. }
  lra.
Qed.

Lemma sum3_sub : forall a b c f g, sum3 a b c (fun p q s => f p q s - g p q s) == sum3 a b c f - sum3 a b c g.
Proof.
  intros. rewrite (sum3_ext a b c _ (fun p q s => f p q s + (-1 # 1) * g p q s)) by (intros; ring).
  rewrite sum3_add, sum3_scale. ring.
Qed.

(* the pair force along x between cell (i,j,k) and cell (p,q,s): central difference of the Green data *)
Definition pair_x (G : grid) (i j k p q s : nat) : Q :=
  G (dist (i + 1) p) (dist j q) (dist k s) - G (dist (i - 1) p) (dist j q) (dist k s).

Lemma pair_x_antisym : forall G i j k p q s, (1 <= i)%nat -> (1 <= p)%nat ->
  pair_x G i j k p q s == - pair_x G p q s i j k.
Proof.
  intros. unfold pair_x.
  replace (dist (p + 1) i) with (dist (i - 1) p) by (unfold dist; lia).
  replace (dist (p - 1) i) with (dist (i + 1) p) by (unfold dist; lia).
  rewrite (dist_sym q j), (dist_sym s k). ring.
Qed.

(* the x-force on cell (i,j,k) times its charge, as a sum over source cells *)
Lemma force_x_as_pair_sum : forall nx ny nz cx cy cz k0 ig2 (G r : grid) i j k,
  (i < nx)%nat -> (j < ny)%nat -> (k < nz)%nat ->
  (forall q s, r 0%nat q s == 0) -> (forall q s, r (nx - 1)%nat q s == 0) ->
  r i j k * field (nx, ny, nz) (cx, cy, cz) ig2 0 (potential (nx, ny, nz) k0 G r) i j k ==
  sum3 nx ny nz (fun p q s =>
    if interior nx i && interior nx p
    then (- ig2 * k0 * ((1 # 2) * / cx)) * (r i j k * r p q s * pair_x G i j k p q s) else 0).
Proof.
  intros nx ny nz cx cy cz k0 ig2 G r i j k Hi Hj Hk H0 H1. unfold field.
  rewrite (grad_ext_phys nx ny nz (cx, cy, cz) 0 (potential (nx, ny, nz) k0 G r)
             (fun a b c => k0 * open3 (nx, ny, nz) G r a b c)) by
    (try assumption; intros; apply hockney_is_open_convolution; assumption).
  unfold grad. destruct (interior nx i) eqn:E.
  - apply interior_lt in E. simpl andb.
    rewrite (sum3_ext nx ny nz _
      (fun p q s => (- ig2 * k0 * ((1 # 2) * / cx) * r i j k) *
                    (r p q s * G (dist (i + 1) p) (dist j q) (dist k s) - r p q s * G (dist (i - 1) p) (dist j q) (dist k s)))).
    + rewrite sum3_scale, sum3_sub. unfold open3. ring.
    + intros p q s Hp Hq Hs. destruct (interior nx p) eqn:Ep.
      * unfold pair_x. ring.
      * assert (Z : r p q s == 0).
        { unfold interior in Ep. apply andb_false_iff in Ep. destruct Ep as [Ep | Ep].
          - apply Nat.leb_gt in Ep. replace p with 0%nat by lia. apply H0.
          - apply Nat.ltb_ge in Ep. replace p with (nx - 1)%nat by lia. apply H1. }
        rewrite Z. ring.
  - simpl andb. rewrite sum3_zero by (intros; reflexivity). ring.
Qed.

(* Newton's third law on the grid: for a density that leaves the two boundary planes of the x axis empty (where the code's
   "0 boundary conditions" put the force to zero) the total x-force  sum_cells rho * F_x  of the bunch on itself is EXACTLY zero,
   for every Green data G, every grid and every density.  (Same statement per axis; x is proved here.) *)
Theorem hockney_third_law_x : forall nx ny nz cell k0 ig2 (G r : grid),
  (forall q s, r 0%nat q s == 0) -> (forall q s, r (nx - 1)%nat q s == 0) ->
  sum3 nx ny nz (fun i j k => r i j k * field (nx, ny, nz) cell ig2 0 (potential (nx, ny, nz) k0 G r) i j k) == 0.
Proof.
  intros nx ny nz [[cx cy] cz] k0 ig2 G r H0 H1.
  rewrite (sum3_ext nx ny nz _ (fun i j k => sum3 nx ny nz (fun p q s =>
     if interior nx i && interior nx p
     then (- ig2 * k0 * ((1 # 2) * / cx)) * (r i j k * r p q s * pair_x G i j k p q s) else 0))).
  - apply sum3_antisym. intros i j k p q s _ _ _ _ _ _.
    rewrite (andb_comm (interior nx p) (interior nx i)).
    destruct (interior nx i) eqn:Ei; destruct (interior nx p) eqn:Ep; simpl andb; cbv iota; try ring.
    apply interior_lt in Ei. apply interior_lt in Ep.
    rewrite (pair_x_antisym G i j k p q s) by lia. ring.
  - intros i j k Hi Hj Hk. apply force_x_as_pair_sum; assumption.
Qed.

(* the boundary treatment does break it: a charge on the boundary plane feels no force but exerts one.  Two unit charges at
   i = 0 and i = 1 of a 3x1x1 grid, G(d) = 1/(1+d): the cell at i = 1 is pushed, nothing pushes back *)
Lemma third_law_boundary_refuted :
  let G : grid := fun a _ _ => 1 / inject_Z (Z.of_nat (1 + a)) in
  let r : grid := fun a _ _ => if (a <? 2)%nat then 1 else 0 in
  ~ sum3 3 1 1 (fun i j k => r i j k * field (3, 1, 1)%nat (1, 1, 1) 1 0 (potential (3, 1, 1)%nat 1 G r) i j k) == 0.
Proof. vm_compute. discriminate. Qed.

(* ------------------------------------------------------------------ the layout of the doubled Green array in closed form *)
Lemma green3_layout : forall nx ny nz (G : grid) a b c,
  green3 (nx, ny, nz) G a b c =
  if ((a =? nx) || (b =? ny) || (c =? nz))%nat then 0
  else G (if (a <? nx)%nat then a else (2 * nx - a)%nat) (if (b <? ny)%nat then b else (2 * ny - b)%nat)
         (if (c <? nz)%nat then c else (2 * nz - c)%nat).
Proof.
  intros. unfold green3, fold1.
  destruct (Nat.ltb_spec a nx); destruct (Nat.eqb_spec a nx); try lia;
  destruct (Nat.ltb_spec b ny); destruct (Nat.eqb_spec b ny); try lia;
  destruct (Nat.ltb_spec c nz); destruct (Nat.eqb_spec c nz); try lia; reflexivity.
Qed.

(* ------------------------------------------------------------------ F51: the grid nodes are not mirror symmetric about the axis *)
(* SpaceChargeKick.track sets cell_size = 2 * grid_dimensions / n for n grid points per axis, and node i sits at
   -grid_dimensions + i * cell_size: the nodes run from -grid_dimensions to +grid_dimensions - cell_size.  In normalized
   coordinates the mirror image of position u is n - u (not n - 1 - u): the image of node 0 is node n, which does not exist.
   (With cell_size = 2 * grid_dimensions / (n - 1) the image of node i would be node n - 1 - i, the symmetry of
   hockney_force_mirror_x.) *)
Lemma nrm_mirror : forall dx cx m x, ~ cx == 0 -> cx * m == 2 * dx -> (x + dx) * / cx + (- x + dx) * / cx == m.
Proof.
  intros dx cx m x Hc H. assert (E : dx == cx * m / 2) by (rewrite H; field). rewrite E. field. assumption.
Qed.

(* witness on the geometry the code builds for half extent 1 and 4 points (cell 1/2): a unit charge at x = +7/8, inside the
   nominal extent [-1, 1], lies between node 3 and the missing node 4 and puts only 1/4 of its charge on the grid; its mirror
   partner at x = -7/8 lies between nodes 0 and 1 and deposits all of it *)
Lemma code_grid_not_mirror_symmetric_refuted :
  let g := mkgeom (1, 1, 1) (1 # 2, 1 # 2, 1 # 2) (4, 4, 4)%Z in
  let up := mksp (7 # 8) 0 0 0 0 0 1 1 in
  let dn := mksp (- (7 # 8)) 0 0 0 0 0 1 1 in
  sumQ (map (contrib g up) (all_idx (g_shape g))) == 1 # 4 /\ sumQ (map (contrib g dn) (all_idx (g_shape g))) == 1.
Proof. vm_compute. split; reflexivity. Qed.
