(** The integrated Green function of cheetah/accelerator/space_charge_kick.py as a formula over R:
      _integrated_potential(x, y, tau)   the antiderivative F of 1/r (up to integration constants)
      G_values                           the alternating sum of F over the 8 corners of the cell centred at (i dx, j dy, k dtau)
    Proved: F is ODD in each argument (for all reals, no side condition: Coq's total division), hence G is EVEN in each index:
    G(-i, j, k) = G(i, j, k).  This is what justifies storing G(|i|,|j|,|k|) in the mirrored half of the doubled array.
    Also: the 1/gamma^2 of _E_plus_vB_field is the cancellation between the electric force and v x B.
    (In Hockney.v the VALUES of G stay abstract data; nothing here is used there.) *)
From Coq Require Import Reals Lra.
Open Scope R_scope.

Definition ipot (x y t : R) : R :=
  let r := sqrt (x ^ 2 + y ^ 2 + t ^ 2) in
  - (1 / 2) * t ^ 2 * atan (x * y / (t * r))
  - (1 / 2) * y ^ 2 * atan (x * t / (y * r))
  - (1 / 2) * x ^ 2 * atan (y * t / (x * r))
  + y * t * arcsinh (x / sqrt (y ^ 2 + t ^ 2))
  + x * t * arcsinh (y / sqrt (x ^ 2 + t ^ 2))
  + x * y * arcsinh (t / sqrt (x ^ 2 + y ^ 2)).

(* G_values at the (real-valued) grid offset (i, j, k): x_grid = i dx etc., corners at +- 0.5 cell *)
Definition igf (dx dy dt i j k : R) : R :=
    ipot (i * dx + / 2 * dx) (j * dy + / 2 * dy) (k * dt + / 2 * dt)
  - ipot (i * dx - / 2 * dx) (j * dy + / 2 * dy) (k * dt + / 2 * dt)
  - ipot (i * dx + / 2 * dx) (j * dy - / 2 * dy) (k * dt + / 2 * dt)
  - ipot (i * dx + / 2 * dx) (j * dy + / 2 * dy) (k * dt - / 2 * dt)
  + ipot (i * dx + / 2 * dx) (j * dy - / 2 * dy) (k * dt - / 2 * dt)
  + ipot (i * dx - / 2 * dx) (j * dy + / 2 * dy) (k * dt - / 2 * dt)
  + ipot (i * dx - / 2 * dx) (j * dy - / 2 * dy) (k * dt + / 2 * dt)
  - ipot (i * dx - / 2 * dx) (j * dy - / 2 * dy) (k * dt - / 2 * dt).

Lemma sinh_opp : forall a, sinh (- a) = - sinh a.
Proof. intros. unfold sinh. rewrite Ropp_involutive. lra. Qed.

Lemma arcsinh_opp : forall x, arcsinh (- x) = - arcsinh x.
Proof.
  intros. rewrite <- (arcsinh_sinh (- arcsinh x)). f_equal. rewrite sinh_opp, sinh_arcsinh. reflexivity.
Qed.

Lemma div_opp_l : forall a b, (- a) / b = - (a / b).
Proof. intros. unfold Rdiv. ring. Qed.

Lemma div_opp_r : forall a b c, a / (- b * c) = - (a / (b * c)).
Proof. intros. unfold Rdiv. replace (- b * c) with (- (b * c)) by ring. rewrite Rinv_opp. ring. Qed.

Lemma sq_opp : forall a, (- a) ^ 2 = a ^ 2.
Proof. intros. ring. Qed.

Theorem ipot_odd_x : forall x y t, ipot (- x) y t = - ipot x y t.
Proof.
  intros. unfold ipot. rewrite !sq_opp.
  replace (- x * y) with (- (x * y)) by ring. replace (- x * t) with (- (x * t)) by ring.
  rewrite !div_opp_l, div_opp_r, !atan_opp, !arcsinh_opp. ring.
Qed.

Theorem ipot_odd_y : forall x y t, ipot x (- y) t = - ipot x y t.
Proof.
  intros. unfold ipot. rewrite !sq_opp.
  replace (x * - y) with (- (x * y)) by ring. replace (- y * t) with (- (y * t)) by ring.
  rewrite !div_opp_l, div_opp_r, !atan_opp, !arcsinh_opp. ring.
Qed.

Theorem ipot_odd_t : forall x y t, ipot x y (- t) = - ipot x y t.
Proof.
  intros. unfold ipot. rewrite !sq_opp.
  replace (x * - t) with (- (x * t)) by ring. replace (y * - t) with (- (y * t)) by ring.
  rewrite !div_opp_l, div_opp_r, !atan_opp, !arcsinh_opp. ring.
Qed.

(* the integrated Green function only depends on the absolute index offsets *)
Theorem igf_even_x : forall dx dy dt i j k, igf dx dy dt (- i) j k = igf dx dy dt i j k.
Proof.
  intros. unfold igf.
  replace (- i * dx + / 2 * dx) with (- (i * dx - / 2 * dx)) by ring.
  replace (- i * dx - / 2 * dx) with (- (i * dx + / 2 * dx)) by ring.
  rewrite !ipot_odd_x. ring.
Qed.

Theorem igf_even_y : forall dx dy dt i j k, igf dx dy dt i (- j) k = igf dx dy dt i j k.
Proof.
  intros. unfold igf.
  replace (- j * dy + / 2 * dy) with (- (j * dy - / 2 * dy)) by ring.
  replace (- j * dy - / 2 * dy) with (- (j * dy + / 2 * dy)) by ring.
  rewrite !ipot_odd_y. ring.
Qed.

Theorem igf_even_t : forall dx dy dt i j k, igf dx dy dt i j (- k) = igf dx dy dt i j k.
Proof.
  intros. unfold igf.
  replace (- k * dt + / 2 * dt) with (- (k * dt - / 2 * dt)) by ring.
  replace (- k * dt - / 2 * dt) with (- (k * dt + / 2 * dt)) by ring.
  rewrite !ipot_odd_t. ring.
Qed.

Theorem igf_abs : forall dx dy dt i j k, igf dx dy dt i j k = igf dx dy dt (Rabs i) (Rabs j) (Rabs k).
Proof.
  intros. unfold Rabs. destruct (Rcase_abs i); destruct (Rcase_abs j); destruct (Rcase_abs k);
    rewrite ?igf_even_x, ?igf_even_y, ?igf_even_t; reflexivity.
Qed.

(* E + v x B for a bunch moving along z with velocity beta c: the transverse magnetic force is -beta^2 times the electric
   one, which leaves the factor 1 - beta^2 = 1/gamma^2 that _E_plus_vB_field applies *)
Theorem lorentz_cancellation : forall E beta gamma, gamma ^ 2 * (1 - beta ^ 2) = 1 ->
  E - beta * (beta * E) = E * / gamma ^ 2.
Proof.
  intros E beta gamma H.
  assert (gamma ^ 2 <> 0) by (intro Z; rewrite Z in H; lra).
  assert (K : 1 - beta ^ 2 = / gamma ^ 2).
  { apply (Rmult_eq_reg_l (gamma ^ 2)); [|assumption]. rewrite Rinv_r by assumption. lra. }
  replace (E - beta * (beta * E)) with (E * (1 - beta ^ 2)) by ring. rewrite K. reflexivity.
Qed.
