"""AST inventories regenerated from /repo on every run (fail-closed translators):

* dtype_sites(): every call of a torch tensor factory (torch.tensor/ones/zeros/full/eye/arange/linspace/empty/
  rand/randn/as_tensor/...) in the cheetah package that passes neither `dtype=` nor a `**kwargs` splat -- i.e. every
  place where a tensor is created in the *default* dtype (or the dtype of a Python/numpy argument) rather than the
  dtype of the simulation (C12).
* branch_sites(): every `if`/conditional expression whose test calls torch.any / torch.all (or Tensor.any()/all()) --
  i.e. every place where a whole-tensor predicate selects one code path for a whole batch (C04).

A site is identified by (file, enclosing function, normalised source text of the call / test), NOT by line number,
so harmless edits elsewhere do not change the inventory.
"""
import ast
import re
from pathlib import Path

FACTORIES = {"tensor", "ones", "zeros", "full", "eye", "arange", "linspace", "empty", "rand", "randn", "as_tensor",
             "logspace", "randint", "normal", "from_numpy"}
LIKE = {"ones_like", "zeros_like", "full_like", "empty_like", "rand_like", "randn_like"}   # inherit dtype: not listed


def _norm(src: str) -> str:
    return re.sub(r"\s+", " ", src).strip()


def _files(repo: Path):
    return sorted((repo / "cheetah").rglob("*.py"))


class _V(ast.NodeVisitor):
    def __init__(self, src, rel):
        self.src, self.rel = src, rel
        self.stack = []
        self.dtype, self.branch = [], []

    def visit_FunctionDef(self, node):
        self.stack.append(node.name)
        self.generic_visit(node)
        self.stack.pop()
    visit_AsyncFunctionDef = visit_FunctionDef

    def visit_ClassDef(self, node):
        self.stack.append(node.name)
        self.generic_visit(node)
        self.stack.pop()

    def _fn(self):
        return ".".join(self.stack) or "<module>"

    def visit_Call(self, node):
        f = node.func
        if isinstance(f, ast.Attribute) and isinstance(f.value, ast.Name) and f.value.id == "torch" and f.attr in FACTORIES:
            has_dtype = any(k.arg == "dtype" for k in node.keywords)
            has_splat = any(k.arg is None for k in node.keywords)
            if not has_dtype and not has_splat:
                self.dtype.append((self.rel, self._fn(), _norm(ast.get_source_segment(self.src, node))))
        self.generic_visit(node)

    def _test(self, test):
        for n in ast.walk(test):
            if isinstance(n, ast.Call) and isinstance(n.func, ast.Attribute) and n.func.attr in ("any", "all"):
                self.branch.append((self.rel, self._fn(), _norm(ast.get_source_segment(self.src, test))))
                return

    def visit_If(self, node):
        self._test(node.test)
        self.generic_visit(node)

    def visit_IfExp(self, node):
        self._test(node.test)
        self.generic_visit(node)

    def visit_While(self, node):
        self._test(node.test)
        self.generic_visit(node)

    def visit_comprehension(self, node):
        for t in node.ifs:
            self._test(t)
        self.generic_visit(node)

    def visit_Return(self, node):
        # boolean properties such as is_active / is_skippable that reduce a whole tensor and are branched on elsewhere
        if node.value is not None and self.stack and self.stack[-1].startswith("is_"):
            self._test(node.value)
        self.generic_visit(node)

    def visit_Assert(self, node):
        self.generic_visit(node)     # assertions reject inputs, they do not select a code path: not listed


def scan(repo: Path):
    dtype, branch = [], []
    for f in _files(repo):
        src = f.read_text()
        v = _V(src, str(f.relative_to(repo)))
        v.visit(ast.parse(src))       # a syntax error aborts the check: fail closed
        dtype += v.dtype
        branch += v.branch
    return sorted(set(dtype)), sorted(set(branch))


def coq_sites(name: str, sites) -> str:
    from common import coq_string
    rows = ["(%s, %s, %s)" % (coq_string(a), coq_string(b), coq_string(c)) for a, b, c in sites]
    return f"Definition {name} : list (string * string * string) :=\n  [" + ";\n   ".join(rows) + "]."


if __name__ == "__main__":
    import sys
    d, b = scan(Path(sys.argv[1] if len(sys.argv) > 1 else "/repo"))
    for s in d:
        print("DTYPE ", s)
    for s in b:
        print("BRANCH", s)
