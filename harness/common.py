"""Shared machinery of the /verif checks: paths, environment, Coq driver, evidence,
known findings, violation reporting.  Run with /venv/bin/python, PYTHONPATH=/repo."""
import fcntl
import hashlib
import json
import os
import random
import re
import subprocess
import sys
import time
from pathlib import Path

VERIF = Path(__file__).resolve().parent.parent
REPO = Path(os.environ.get("VERIF_REPO", "/repo"))
COQ = VERIF / "coq"
BUILD_ROOT = VERIF / "build"
# every process gets its own scratch directory, so that concurrent runs (even of the same property) never share generated files
BUILD = BUILD_ROOT / f"run_{os.getpid()}"
EVIDENCE = Path(os.environ.get("VERIF_EVIDENCE_DIR") or (VERIF / "evidence"))   # runs against seeded mutants write elsewhere
CORPUS = VERIF / "corpus"
OCAMLRUNPARAM = "s=4M,h=256M"   # measured here: coqc spends >90% of its time in heap growth without it

AXIOM_WHITELIST = {
    # axioms declared by Coq's standard library (Reals, classical logic, funext); none of ours
    "ClassicalDedekindReals.sig_not_dec",
    "ClassicalDedekindReals.sig_forall_dec",
    "FunctionalExtensionality.functional_extensionality_dep",
    "Classical_Prop.classic",
    "functional_extensionality_dep",
    "sig_not_dec",
    "sig_forall_dec",
    "classic",
}
# primitives of the kernel (machine floats / ints) that Print Assumptions lists for the Interval library
PRIMITIVE_PREFIXES = ("PrimFloat.", "Uint63.", "PrimInt63.", "FloatAxioms.", "Float64", "Int63", "PrimArray", "FloatOps", "SpecFloat")


def env_seed() -> int:
    try:
        return int(os.environ.get("VERIF_SEED", "0"))
    except ValueError:
        return 0


def env_tier(default="quick") -> str:
    t = os.environ.get("VERIF_TIER", default)
    return t if t in ("quick", "thorough") else default


def setup_python_env():
    """Make `import cheetah` resolve to /repo's working tree, deterministically."""
    sys.path.insert(0, str(REPO))
    os.environ.setdefault("PYTHONHASHSEED", "0")
    os.environ.setdefault("MPLBACKEND", "Agg")
    import torch
    torch.manual_seed(env_seed())
    torch.set_num_threads(1)
    import cheetah  # noqa
    p = Path(cheetah.__file__).resolve()
    if not str(p).startswith(str(REPO.resolve())):
        raise RuntimeError(f"cheetah imported from {p}, expected under {REPO}")
    return cheetah


def coq_env():
    e = dict(os.environ)
    e["OCAMLRUNPARAM"] = OCAMLRUNPARAM
    return e


def _cleanup_build():
    import shutil
    if not os.environ.get("VERIF_KEEP_BUILD"):
        shutil.rmtree(BUILD, ignore_errors=True)


import atexit  # noqa: E402
atexit.register(_cleanup_build)


class Lock:
    def __init__(self, name):
        BUILD_ROOT.mkdir(exist_ok=True)
        self.path = BUILD_ROOT / (name + ".lock")

    def __enter__(self):
        self.f = open(self.path, "w")
        fcntl.flock(self.f, fcntl.LOCK_EX)
        return self

    def __exit__(self, *a):
        fcntl.flock(self.f, fcntl.LOCK_UN)
        self.f.close()


def _regen_makefile():
    vs = sorted(str(p.relative_to(COQ)) for p in (COQ / "theories").rglob("*.v"))
    need = not (COQ / "Makefile").exists() or not (COQ / "Makefile.conf").exists()
    if not need:
        conf = (COQ / "Makefile.conf").read_text()
        m = re.search(r"COQMF_VFILES = (.*)", conf)
        have = set(m.group(1).split()) if m else set()
        need = set(vs) != have
    if need:
        r = subprocess.run(["coq_makefile", "-f", "_CoqProject", "-o", "Makefile"] + vs, cwd=COQ,
                           capture_output=True, text=True, env=coq_env())
        if r.returncode != 0:
            return False, r.stdout + r.stderr
    return True, ""


RESOURCE_RETRIES = []      # (what, return code, stderr tail) of coqc / make runs that were repeated because they were killed / timed out


def coq_build(target=None, timeout=3000):
    """.vo build (never -vos) of coq/theories, or of one target (e.g. theories/Props/C01.vo) and its
    dependency closure.  Serialised by a lock.  Returns (ok, log)."""
    with Lock("coqmake"):
        ok, log = _regen_makefile()
        if not ok:
            return False, log
        log = ""
        for jobs in ("-j16", "-j4"):
            # second round only after a failure that looks like a resource problem (killed, out of memory, stack, time)
            cmd = ["make", jobs] + ([target] if target else [])
            try:
                r = subprocess.run(cmd, cwd=COQ, capture_output=True, text=True, env=coq_env(), timeout=timeout)
            except subprocess.TimeoutExpired:
                log = "make timed out"
                RESOURCE_RETRIES.append(("make " + str(target), 124, log))
                continue
            log = r.stdout[-4000:] + r.stderr[-4000:]
            if r.returncode == 0:
                return True, log
            if not re.search(r"Killed|Error 137|Error 139|Out of memory|Stack overflow|Cannot allocate|Segmentation", log):
                return False, log
            RESOURCE_RETRIES.append(("make " + str(target), r.returncode, log[-200:]))
        return False, log


def vo_closure(target_v: str):
    """Source files (relative to coq/) in the dependency closure of a theory file, from coq_makefile's .Makefile.d."""
    dfile = COQ / ".Makefile.d"
    deps = {}
    if dfile.exists():
        for line in dfile.read_text().splitlines():
            if ":" not in line:
                continue
            lhs, rhs = line.split(":", 1)
            outs = [x for x in lhs.split() if x.endswith(".vo")]
            ins = [x for x in rhs.split() if x.endswith(".vo") and x.startswith("theories/")]
            for o in outs:
                deps[o] = ins
    start = target_v[:-2] + ".vo"
    seen, todo = set(), [start]
    while todo:
        x = todo.pop()
        if x in seen:
            continue
        seen.add(x)
        todo += deps.get(x, [])
    return sorted(x[:-3] + ".v" for x in seen)


def coqc(path: Path, extra=(), timeout=600):
    """Compile one .v file against the built theories. Returns (rc, stdout, stderr)."""
    cmd = ["coqc", "-R", str(COQ / "theories"), "Cheetah", "-w", "-notation-overridden,-deprecated-hint-without-locality,-deprecated-instance-without-locality"] + list(extra) + [str(path)]
    try:
        r = subprocess.run(cmd, cwd=path.parent, capture_output=True, text=True, env=coq_env(), timeout=timeout)
    except subprocess.TimeoutExpired:
        return 124, "", "coqc timed out"
    return r.returncode, r.stdout, r.stderr


def parse_assumptions(out: str):
    """Parse the output of `Print Assumptions` commands.  Returns (n_closed, axioms set).  An axiom's name may be followed
    by its type on the same line or on the next (indented) lines."""
    closed = len(re.findall(r"Closed under the global context", out))
    axioms, inside = set(), False
    for ln in out.splitlines():
        if ln.startswith("Axioms:"):
            inside = True
            continue
        if not inside:
            continue
        m = re.match(r"^([A-Za-z_][\w.']*)\s*(:.*)?$", ln)
        if m:
            axioms.add(m.group(1))
        elif ln and not ln[0].isspace():
            inside = False
    return closed, axioms


def audit_props(pid: str):
    """Re-compile Props/<pid>.v (fresh Print Assumptions), count theorems, audit axioms and
    forbidden vernacular in the whole development.  Returns dict(ok, theorems, axioms, problems, cmd)."""
    src = COQ / "theories" / "Props" / f"{pid}.v"
    problems = []
    if not src.exists():
        return dict(ok=False, theorems=0, axioms=[], problems=[f"missing {src}"], cmd="")
    text = src.read_text()
    theorems = re.findall(r"^\s*(?:Theorem|Lemma|Corollary|Example)\s+([\w']+)", text, flags=re.M)
    bdir = BUILD / pid
    bdir.mkdir(parents=True, exist_ok=True)
    tmp = bdir / f"Audit_{pid}.v"
    tmp.write_text(text)
    rc, out, err = coqc(tmp, timeout=1800)
    if rc != 0:
        problems.append(f"coqc Props/{pid}.v failed: {err[-1500:]}")
    closed, axioms = parse_assumptions(out)
    bad = sorted(a for a in axioms if a not in AXIOM_WHITELIST and not a.startswith(PRIMITIVE_PREFIXES)
                 and a.split(".")[-1] not in AXIOM_WHITELIST)
    if bad:
        problems.append(f"axioms outside the whitelist: {bad}")
    n_pa = len(re.findall(r"Print Assumptions", text))
    if n_pa < len(theorems):
        problems.append(f"{len(theorems)} theorems but only {n_pa} Print Assumptions")
    # forbidden vernacular anywhere in the development
    pat = re.compile(r"\b(Admitted|admit|Axiom|Axioms|Parameter|Parameters|Conjecture|Unset Guard Checking|bypass_check|Admit Obligations|Unset Positivity Checking|Unset Universe Checking)\b")
    closure = vo_closure(f"theories/Props/{pid}.v")
    for rel in closure:
        v = COQ / rel
        if not v.exists():
            continue
        body = re.sub(r"\(\*.*?\*\)", "", v.read_text(), flags=re.S)
        for m in pat.finditer(body):
            problems.append(f"forbidden vernacular {m.group(1)!r} in {rel}")
    return dict(ok=not problems, theorems=theorems, n_closed=closed, axioms=sorted(axioms), problems=problems, closure=closure,
                cmd=f"make -C coq -j16 theories/Props/{pid}.vo && coqc -R coq/theories Cheetah coq/theories/Props/{pid}.v")


# ---------------------------------------------------------------- Coq literals
def zlit(n: int) -> str:
    n = int(n)
    return str(n) if n >= 0 else f"({n})"


def coq_list(items) -> str:
    return "[" + "; ".join(items) + "]"


def coq_string(s: str) -> str:
    return '"' + s.replace('"', '""') + '"'


def dyadic(x: float) -> str:
    """Exact Coq real literal (IZR m * / IZR (2^e)) of a finite float, as a term of type R."""
    m, e = float(x).as_integer_ratio()
    if e == 1:
        return f"(IZR ({m}))" if m < 0 else f"(IZR {m})"
    return f"(IZR ({m}) / IZR {e})"


def qlit(x: float) -> str:
    """Exact Coq Q literal of a finite float."""
    m, e = float(x).as_integer_ratio()
    return f"(({m}) # {e})"


# ---------------------------------------------------------------- running generated case files
def run_vm_cases(pid: str, shard_name: str, preamble: str, case_terms: list, checker: str, timeout=900):
    """Write a cases file with `Definition cases := [...]` of the given Coq terms and evaluate
    `checker` (a function from case to bool) on each with vm_compute; returns list of failing indices,
    or raises RuntimeError with the coqc error."""
    bdir = BUILD / pid
    bdir.mkdir(parents=True, exist_ok=True)
    path = bdir / f"{shard_name}.v"
    lines = [preamble, ""]
    for i, t in enumerate(case_terms):
        lines.append(f"Definition case_{i} := {t}.")
    lines.append("Definition results : list bool := " + coq_list([f"{checker} case_{i}" for i in range(len(case_terms))]) + ".")
    lines.append("Definition failing : list nat := List.map fst (List.filter (fun p => negb (snd p)) (List.combine (List.seq 0 (List.length results)) results)).")
    lines.append("Eval vm_compute in (List.length results, failing).")
    path.write_text("\n".join(lines) + "\n")
    rc, out, err = coqc(path, timeout=timeout)
    attempts = 0
    while (rc == 124 or rc < 0) and attempts < 2:      # killed / timed out on a loaded machine: repeat before concluding anything
        attempts += 1
        RESOURCE_RETRIES.append((str(path), rc, (err or "")[-200:]))
        time.sleep(5 * attempts)
        rc, out, err = coqc(path, timeout=timeout * 2)
    if rc != 0:
        raise RuntimeError(f"coqc {path} failed (rc={rc}): {err[-2000:]}")
    flat = re.sub(r"\s+", " ", out)
    m = re.search(r"= \((\d+)%?n?a?t?, \[(.*?)\]\)", flat)
    if not m:
        raise RuntimeError(f"could not parse coqc output of {path}: {out[-500:]}")
    n = int(m.group(1))
    if n != len(case_terms):
        raise RuntimeError(f"{path}: evaluated {n} cases, expected {len(case_terms)}")
    body = m.group(2).strip()
    failing = [int(re.sub(r"%nat", "", x)) for x in body.split(";")] if body else []
    return failing


def run_shards(pid, name, preamble, case_terms, checker, shard=250, jobs=8, timeout=900):
    """Shard run_vm_cases over several coqc processes.  Returns sorted failing indices (global)."""
    from concurrent.futures import ThreadPoolExecutor
    chunks = [(k, case_terms[k:k + shard]) for k in range(0, len(case_terms), shard)]
    failing = []

    def work(ch):
        k, terms = ch
        return [k + i for i in run_vm_cases(pid, f"{name}_{k}", preamble, terms, checker, timeout)]
    with ThreadPoolExecutor(max_workers=jobs) as ex:
        for res in ex.map(work, chunks):
            failing += res
    return sorted(failing)


def run_real_goals(pid, name, preamble, goals, shard=40, jobs=16, timeout=1200, max_fail=8):
    """goals: list of (statement, tactic) strings, each proved by `Lemma g_i : statement. Proof. tactic. Qed.`
    (one per line, so that a coqc error line identifies the goal).  Returns (failing_indices, errors) where
    errors maps index -> coqc message.  A failing goal is removed and the shard re-run, up to max_fail per shard;
    if more fail the remaining ones of that shard are all reported failing."""
    from concurrent.futures import ThreadPoolExecutor
    bdir = BUILD / pid
    bdir.mkdir(parents=True, exist_ok=True)
    pre_lines = preamble.count("\n") + 1
    chunks = [(k, list(range(k, min(k + shard, len(goals))))) for k in range(0, len(goals), shard)]

    def work(ch):
        k, idxs = ch
        failing, errors = [], {}
        path = bdir / f"{name}_{k}.v"
        while idxs:
            body = [f"Lemma g_{i} : {goals[i][0]}. Proof. {goals[i][1]} Qed." for i in idxs]
            path.write_text(preamble + "\n" + "\n".join(body) + "\n")
            rc, out, err = coqc(path, timeout=timeout)
            # a coqc that was killed (negative return code: signal, e.g. out of memory on a loaded machine), timed out, or died
            # without naming a line says nothing about the goals: run it again (alone in this worker, longer limit) before
            # concluding anything
            attempts = 0
            while rc != 0 and (rc == 124 or rc < 0 or not re.search(r'line (\d+), characters', err)) and attempts < 2:
                attempts += 1
                RESOURCE_RETRIES.append((str(path), rc, (err or "")[-200:]))
                time.sleep(5 * attempts)
                rc, out, err = coqc(path, timeout=timeout * 2)
            if rc == 0:
                break
            m = re.search(r'line (\d+), characters', err)
            if rc == 124 or not m or len(failing) >= max_fail:
                for i in idxs:
                    failing.append(i)
                    errors[i] = err[-600:] if err else "timeout"
                break
            ln = int(m.group(1)) - pre_lines - 1
            if ln < 0 or ln >= len(idxs):
                raise RuntimeError(f"coqc failed outside the goals of {path}: {err[-1500:]}")
            bad = idxs[ln]
            failing.append(bad)
            errors[bad] = err[-600:]
            idxs = idxs[:ln] + idxs[ln + 1:]
        return failing, errors
    allf, alle = [], {}
    with ThreadPoolExecutor(max_workers=jobs) as ex:
        for f, e in ex.map(work, chunks):
            allf += f
            alle.update(e)
    return sorted(allf), alle


# ---------------------------------------------------------------- known findings
def load_known_findings(pid: str):
    # VERIF_KNOWN_FINDINGS=<path>: read that file instead of the committed known_findings.json (used to rehearse a
    # status flip known -> fixed against a scratch copy of /repo before the lead commits it; never set in normal runs)
    p = Path(os.environ.get("VERIF_KNOWN_FINDINGS") or (VERIF / "known_findings.json"))
    entries = []
    if os.environ.get("VERIF_KNOWN_FINDINGS") and not p.exists():
        raise FileNotFoundError(f"VERIF_KNOWN_FINDINGS={p} does not exist")
    if p.exists():
        entries += json.loads(p.read_text()).get("findings", [])
    # fragments written while a check is being developed; merged into known_findings.json before release
    for frag in sorted((VERIF / "known_findings.d").glob("*.json")) if (VERIF / "known_findings.d").exists() else []:
        d = json.loads(frag.read_text())
        entries += d if isinstance(d, list) else d.get("findings", [d])
    return [f for f in entries if pid in f.get("properties", [f.get("property")])]


def known_signature_match(pid: str, pred):
    """First listed (status known) finding of `pid` whose entry satisfies pred(entry), else None."""
    for f in load_known_findings(pid):
        if f.get("status") == "known" and pred(f):
            return f
    return None


# ---------------------------------------------------------------- evidence / verdict
class Run:
    """One invocation of a check: collects coverage, known findings, violations; writes evidence."""

    def __init__(self, pid: str, tier: str):
        self.pid = pid
        self.tier = tier
        self.seed = env_seed()
        self.rng = random.Random(f"{pid}:{self.seed}")
        self.t0 = time.time()
        self.cov = dict(evaluations=0, distinct_nontrivial=0, rule="", samples=[], traces_validated_against_impl=0,
                        obligations=0, discharged=0, checker_cmd="", trusted_base=[], distribution={}, tested_only=[],
                        known_findings_observed=[], known_findings_not_reproduced=[])
        self.assumptions = []
        self.violations = []       # list of (replay_path, no_input)
        self.distinct = set()
        self.notes = []
        self._unlisted_reported = set()
        (BUILD / pid).mkdir(parents=True, exist_ok=True)

    def count(self, key, n=1):
        d = self.cov["distribution"]
        d[key] = d.get(key, 0) + n

    def add_case(self, canonical, nontrivial: bool):
        self.cov["evaluations"] += 1
        if nontrivial:
            h = hashlib.sha1(json.dumps(canonical, sort_keys=True, default=str).encode()).hexdigest()
            self.distinct.add(h)

    def sample(self, obj, limit=4):
        if len(self.cov["samples"]) < limit:
            self.cov["samples"].append(obj)

    def known(self, what: str, replay=None):
        """Report a listed known finding.  The text must end with its tag, e.g. "... [F11]".  A finding is only
        suppressed while the committed known-findings file lists that id for this property with status "known":
        if it is absent or listed as fixed, the failure is reported as a VIOLATION (a fixed defect that returns,
        or a defect nobody recorded)."""
        tags = re.findall(r"\[(F\w+)[^\]]*\]", what)
        listed = {f["id"] for f in load_known_findings(self.pid) if f.get("status") == "known"}
        if tags and tags[-1] not in listed:
            key = "unlisted:" + what
            if key not in self._unlisted_reported:
                self._unlisted_reported.add(key)
                r = {"kind": "finding_not_listed_as_known", "what": what,
                     "note": f"{tags[-1]} is not listed with status 'known' for {self.pid} in known_findings.json (fixed entries suppress nothing)"}
                if replay is not None:
                    r["input"] = replay
                self.violation(r, no_input=replay is None)
            return
        line = f"KNOWN-FINDING: property={self.pid} {what}"
        if what not in self.cov["known_findings_observed"]:
            self.cov["known_findings_observed"].append(what)
            print(line, flush=True)

    def violation(self, replay: dict, no_input=False):
        rdir = VERIF / "replays"
        rdir.mkdir(exist_ok=True)
        k = len(self.violations)
        path = rdir / f"{self.pid}_{self.tier}_{self.seed}_{k}.json"
        replay = dict(replay)
        replay.setdefault("property", self.pid)
        replay.setdefault("seed", self.seed)
        replay["failing_input_found"] = not no_input
        path.write_text(json.dumps(replay, indent=1, default=str))
        self.violations.append((str(path), no_input))
        print(f"VIOLATION property={self.pid} replay={path}" + (" no-failing-input-found" if no_input else ""), flush=True)

    def finish(self, level="proof") -> int:
        if level not in ("exploration", "fault_enumeration", "model_checking", "proof", "translation_validation", "other"):
            self.cov["level_detail"] = level      # e.g. "partial": proof-level for the part proved, the rest listed under tested_only
            level = "proof"
        self.cov["distinct_nontrivial"] = len(self.distinct)
        ev = dict(property_id=self.pid, tier=self.tier, seed=self.seed, level=level, coverage=self.cov,
                  assumptions=self.assumptions, wall_s=round(time.time() - self.t0, 2), violations=len(self.violations))
        if self.notes:
            ev["coverage"]["notes"] = self.notes
        if RESOURCE_RETRIES:
            ev["coverage"]["coqc_runs_repeated_after_kill_or_timeout"] = [list(x) for x in RESOURCE_RETRIES[:20]]
        EVIDENCE.mkdir(exist_ok=True)
        (EVIDENCE / f"{self.pid}.json").write_text(json.dumps(ev, indent=1, default=str))
        print(f"{self.pid} [{self.tier}] evaluations={self.cov['evaluations']} distinct_nontrivial={self.cov['distinct_nontrivial']} "
              f"obligations={self.cov['obligations']} discharged={self.cov['discharged']} violations={len(self.violations)} "
              f"known_findings={len(self.cov['known_findings_observed'])} wall={ev['wall_s']}s", flush=True)
        return 1 if self.violations else 0

    def proof_stage(self) -> bool:
        """make + audit of Props/<pid>.v.  On failure reports a violation (no failing input yet: caller may search)."""
        ok, log = coq_build(f"theories/Props/{self.pid}.vo")
        if not ok:
            self.proof_problem = f"coq build failed: {log[-1500:]}"
            return False
        a = audit_props(self.pid)
        self.cov["obligations"] = len(a["theorems"])
        self.cov["checker_cmd"] = a["cmd"]
        self.cov["theorems"] = a["theorems"]
        self.cov["axioms"] = a["axioms"]
        self.cov["trusted_base"] = [
            "Coq 8.16.1 kernel incl. vm_compute (no native_compute)",
            "stdlib axioms reported by Print Assumptions: " + (", ".join(a["axioms"]) if a["axioms"] else "none (closed under the global context)"),
            "correspondence harness in /verif/harness (generators, literal printer, comparison), which ties the hand-written model to /repo",
            "PyTorch, Python stdlib: modelled, not verified",
        ]
        if not a["ok"]:
            self.proof_problem = "; ".join(a["problems"])
            return False
        self.cov["discharged"] = len(a["theorems"])
        return True
