"""Writes /verif/MANIFEST.json from the table below (run: /venv/bin/python harness/gen_manifest.py)."""
import json
from pathlib import Path

VERIF = Path(__file__).resolve().parent.parent

TB_STRUCT = ("Coq 8.16.1 kernel + vm_compute; theorems closed under the global context (no axioms); hand-written Coq model tied to /repo by the "
             "correspondence harness (exact integer comparison via vm_compute of the model on the same inputs); leaf contract of real element classes "
             "checked against the code numerically; PyTorch modelled, not verified")
TB_REAL = ("Coq 8.16.1 kernel + vm_compute (also inside the `interval` tactic); stdlib axioms of the classical reals (sig_not_dec, sig_forall_dec, "
           "functional_extensionality_dep, classic) as printed by Print Assumptions; hand-written Coq model over R tied to /repo by the correspondence "
           "harness (float64 outputs vs the exact model, rigorous interval enclosure in Coq); IEEE round-off and libm not modelled; PyTorch modelled, not verified")

def load_checks():
    """one JSON fragment per claimed property: harness/manifest.d/<id>.json with keys
    category, text, design_ref, note, technique"""
    out = {}
    # only properties the lead has integrated and run on the unchanged tree are claimed
    enabled = (VERIF / "harness" / "manifest.d" / "ENABLED").read_text().split()
    for f in sorted((VERIF / "harness" / "manifest.d").glob("C*.json")):
        if f.stem in enabled:
            out[f.stem] = json.loads(f.read_text())
    return out


CHECKS = load_checks()

NOT_YET = "check not built yet in this revision of /verif (see DESIGN.md section 5 for the planned proof); not claimed"


def main():
    props = [json.loads(l)["id"] for l in open(VERIF / "properties.jsonl")]
    checks = []
    for pid in props:
        if pid not in CHECKS:
            continue
        c = CHECKS[pid]
        checks.append(dict(
            property_id=pid,
            quick_cmd=f"./check {pid} --tier quick",
            thorough_cmd=f"./check {pid} --tier thorough",
            evidence_file=f"/verif/evidence/{pid}.json",
            replay_cmd_template=f"./check {pid} --replay {{path}}",
            engine="coq-correspondence",
            level_claimed=dict(category=c["category"], text=c["text"], design_ref=c["design_ref"]),
            level_note=c["note"],
            technique=c["technique"],
        ))
    na = [dict(property_id=p, reason=CHECKS_NA.get(p, NOT_YET)) for p in props if p not in CHECKS]
    m = dict(
        version=1,
        setup_cmd="cd /verif && ./setup.sh",
        hooks=dict(guard="CHEETAH_VERIF", enable="none needed: every observable is public API (no hooks in /repo)",
                   baseline_off_cmd="cd /repo && /venv/bin/python -m pytest -ra -q -p no:cacheprovider --timeout=900 --continue-on-collection-errors",
                   source_commits=[], add_only=True),
        engines=[dict(name="coq-correspondence", path="/verif/check", serves_properties=[c["property_id"] for c in checks],
                      kind_free_text="Coq 8.16 development (coq/theories) + Python correspondence harness (harness/) driving /repo's working tree")],
        checks=checks,
        notes="See DESIGN.md. Known findings: known_findings.json. All checks honour VERIF_SEED / VERIF_TIER.",
        not_applicable=na,
    )
    assert all(c["level_claimed"]["category"] in ("exploration", "fault_enumeration", "model_checking", "proof", "translation_validation", "other")
               for c in checks), "invalid level category in a manifest fragment"
    (VERIF / "MANIFEST.json").write_text(json.dumps(m, indent=1) + "\n")
    print(f"MANIFEST.json: {len(checks)} checks, {len(na)} not claimed")


CHECKS_NA = {}
_na = VERIF / "harness" / "manifest.d" / "not_applicable.json"
if _na.exists():
    CHECKS_NA = json.loads(_na.read_text())

if __name__ == "__main__":
    main()
