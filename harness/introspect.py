"""Regenerates the class table of cheetah's Element subclasses from the LIVE code (C14, C15).

For every Element subclass exported by `cheetah`:
  * constructor signature (inspect.signature),
  * a probe instance built with a NON-default value for every constructor parameter that has one
    (values are chosen from the parameter's annotation / default / name; anything not understood is recorded
    in the row's `probe` field and makes the Coq obligation fail -- fail closed),
  * `defining_features` of the probe, the kind of each feature value, and which parameters are stored
    unchanged under their own name (`echoed`).
The table is written as build/<pid>/ClassTable.v (a Coq list of `mkcls` records with string fields) and
build/<pid>/ClassCheck.v proves `table_ok class_table = true` by vm_compute (Ops/ClassTableSpec.v).
"""
import inspect
import re
import typing

import torch

import common
from common import coq_list, coq_string

INFRA = ("name", "device", "dtype")
# mirror of Ops/ClassTableSpec.v known_offenders (the Coq side is authoritative for the verdict; this copy is
# used for classification of failing inputs and is compared with the Coq list by run_obligation)
# Empty since fix b273117 in /repo (the four classes of finding F12 were repaired); the list of offenders before that fix is
# kept in Ops/ClassTableSpec.v as offenders_before_fix.
KNOWN_OFFENDERS = {}


def element_classes(cheetah):
    from cheetah.accelerator.element import Element
    """Concrete Element subclasses exported by the cheetah package, by name."""
    out = []
    for n, c in sorted(vars(cheetah).items()):
        if inspect.isclass(c) and issubclass(c, Element) and c is not Element:
            out.append((n, c))
    return out


def signature(cls):
    sig = inspect.signature(cls.__init__)
    return [p for p in list(sig.parameters.values())[1:]]


class Unrecognised(Exception):
    pass


def _ann_str(p):
    a = p.annotation
    if a is inspect.Parameter.empty:
        return ""
    return a if isinstance(a, str) else (getattr(a, "__name__", None) and a.__module__ == "builtins" and a.__name__) or str(a)


def _literal_choices(p):
    a = p.annotation
    if typing.get_origin(a) is typing.Literal:
        return list(typing.get_args(a))
    for arg in typing.get_args(a) or ():
        if typing.get_origin(arg) is typing.Literal:
            return list(typing.get_args(arg))
    return None


def tensor_shape_for(pname):
    if pname in ("misalignment", "pixel_size"):
        return (2,)
    if pname == "predefined_transfer_map":
        return (7, 7)
    return ()


def value_for(cheetah, cls, p, variant=0, dtype=torch.float32, vector_shape=None, k=0):
    """A non-default value for constructor parameter `p` of `cls`.  Returns (value, is_nondefault).
    `variant` selects among alternatives; `vector_shape` adds leading (vectorised) dimensions to scalar tensors."""
    name, ann, default = p.name, _ann_str(p), p.default
    if p.kind not in (p.POSITIONAL_OR_KEYWORD, p.KEYWORD_ONLY):
        raise Unrecognised(f"parameter {name} of kind {p.kind.name}")
    if name == "name":
        return f"probe_{cls.__name__}_{variant}", True
    if name == "elements":
        return [cheetah.Drift(length=torch.tensor(0.3, dtype=dtype), name="probe_d"), cheetah.Marker(name="probe_m")], True
    lit = _literal_choices(p)
    if lit is not None:
        alts = [x for x in lit if x != default]
        if alts:
            return alts[variant % len(alts)], True
        return lit[0], False                      # a one-valued Literal has no non-default value
    if "Tensor" in ann:
        shape = tensor_shape_for(name)
        base = 0.11 + 0.07 * k + 0.013 * variant
        if name == "predefined_transfer_map":
            m = torch.eye(7, dtype=dtype)
            m[0, 1] = 0.5 + 0.1 * variant
            m[2, 3] = 0.5 + 0.1 * variant
            m[1, 0] = -0.25
            return m, True
        if name in ("frequency",):
            base = 1.3e9 + 1e6 * variant
        if name in ("voltage",):
            base = 1.0e5 * (1 + variant)
        if name in ("phase",):
            base = 30.0 + variant
        if name in ("x_max", "y_max"):
            base = 2e-3 * (1 + variant)
        if name in ("pixel_size", "kde_bandwidth"):
            base = 4e-4 * (1 + variant)
        if name.startswith("grid_extend"):
            base = 2.0 + 0.5 * variant
        if name in ("misalignment",):
            base = 1e-4 * (1 + variant)
        t = torch.full(shape, base, dtype=dtype)
        if shape == (2,):
            t = t * torch.tensor([1.0, -0.5], dtype=dtype)
        if vector_shape and shape == () and name not in ("frequency",):
            t = t * torch.linspace(1.0, 1.5, int(torch.tensor(vector_shape).prod()), dtype=dtype).reshape(vector_shape)
        return t, True
    if ann == "bool" or isinstance(default, bool):
        return (not default) if isinstance(default, bool) else True, True
    if ann == "int" or (isinstance(default, int) and not isinstance(default, bool)):
        d = default if isinstance(default, int) else 1
        return (8 + variant if d > 16 else d + 1 + variant), True
    if "tuple" in ann.lower():
        return (6 + variant, 4 + variant), True
    if ann == "str":
        return f"v{variant}", True
    if name in ("device",):
        return None, False
    if name in ("dtype",):
        return dtype, False
    raise Unrecognised(f"parameter {name}: annotation {ann!r}, default {default!r}")


def probe_kwargs(cheetah, cls, variant=0, dtype=torch.float32, vector_shape=None, only=None):
    """kwargs giving every constructor parameter (or only those in `only`, plus required ones) a non-default value."""
    kw, nondefault = {}, []
    for k, p in enumerate(signature(cls)):
        if p.name == "device":
            continue
        if p.name == "dtype":
            kw["dtype"] = dtype
            continue
        if only is not None and p.name not in only and p.default is not inspect.Parameter.empty and p.name != "name":
            continue
        v, nd = value_for(cheetah, cls, p, variant, dtype, vector_shape, k)
        kw[p.name] = v
        if nd:
            nondefault.append(p.name)
    return kw, nondefault


def kind_of(v):
    if isinstance(v, torch.Tensor):
        return "tensor"
    if isinstance(v, bool):
        return "bool"
    if isinstance(v, str):
        return "str"
    if isinstance(v, int):
        return "int"
    if isinstance(v, tuple):
        return "tuple"
    if isinstance(v, torch.nn.ModuleList):
        return "elements"
    return "?" + type(v).__name__


def same_value(a, b):
    """Bit-level equality of two attribute values (tensors: shape, dtype, values incl. inf; NaN equals NaN)."""
    if isinstance(a, torch.Tensor) and isinstance(b, torch.Tensor):
        return a.shape == b.shape and a.dtype == b.dtype and bool(torch.equal(torch.nan_to_num(a, nan=12345.0), torch.nan_to_num(b, nan=12345.0))) \
            and bool(torch.equal(torch.isnan(a), torch.isnan(b)))
    if isinstance(a, torch.Tensor) or isinstance(b, torch.Tensor):
        return False
    if isinstance(a, torch.nn.ModuleList) or isinstance(b, torch.nn.ModuleList) or isinstance(a, list) and a and isinstance(a[0], torch.nn.Module):
        la, lb = list(a), list(b)
        return len(la) == len(lb) and all(x is y or (type(x) is type(y) and x.name == y.name) for x, y in zip(la, lb))
    return type(a) is type(b) and a == b


def introspect_class(cheetah, name, cls):
    row = {"cname": name, "ctor_params": [], "required": [], "features": [], "kinds": [], "echoed": [], "probe": "ok"}
    try:
        params = signature(cls)
    except Exception as ex:
        row["probe"] = f"no signature: {type(ex).__name__}"
        return row
    row["ctor_params"] = [p.name for p in params]
    row["required"] = [p.name for p in params if p.default is inspect.Parameter.empty]
    problems = []
    for p in params:
        if p.kind not in (p.POSITIONAL_OR_KEYWORD, p.KEYWORD_ONLY):
            problems.append(f"{p.name} is {p.kind.name}")
    try:
        kw, _ = probe_kwargs(cheetah, cls, 0)
        inst = cls(**kw)
    except Unrecognised as ex:
        row["probe"] = f"unrecognised: {ex}"
        return row
    except Exception as ex:
        row["probe"] = f"probe construction failed: {type(ex).__name__}: {ex}"[:200]
        return row
    try:
        feats = list(inst.defining_features)
    except Exception as ex:
        row["probe"] = f"defining_features failed: {type(ex).__name__}"
        return row
    if not all(isinstance(f, str) for f in feats):
        problems.append("non-string feature")
        feats = [str(f) for f in feats]
    row["features"] = feats
    for f in feats:
        try:
            row["kinds"].append((f, kind_of(getattr(inst, f))))
        except Exception as ex:
            row["kinds"].append((f, "?missing-attribute"))
    for pn, v in kw.items():
        if pn in ("device", "dtype"):
            continue
        try:
            if same_value(getattr(inst, pn), v):
                row["echoed"].append(pn)
        except Exception:
            pass
    if problems:
        row["probe"] = "; ".join(problems)
    return row


def table(cheetah):
    return [introspect_class(cheetah, n, c) for n, c in element_classes(cheetah)]


def settable(row):
    return [p for p in row["ctor_params"] if p not in INFRA]


def missing(row):
    return [p for p in settable(row) if p not in row["features"]]


def extra(row):
    return [f for f in row["features"] if f not in row["ctor_params"]]


def coq_row(r):
    sl = lambda xs: coq_list([coq_string(x) for x in xs])  # noqa: E731
    kinds = coq_list([f"({coq_string(a)}, {coq_string(b)})" for a, b in r["kinds"]])
    return (f"mkcls {coq_string(r['cname'])} {sl(r['ctor_params'])} {sl(r['required'])} {sl(r['features'])} {kinds} "
            f"{sl(r['echoed'])} {coq_string(r['probe'])}")


HEADER = """From Coq Require Import List Bool String.
From Cheetah Require Import Ops.ClassTableSpec.
Import ListNotations. Open Scope string_scope.
"""


def _strings(block):
    return re.findall(r'"((?:[^"]|"")*)"', block)


def run_obligation(pid, rows):
    """Write ClassTable.v / ClassReport.v / ClassCheck.v under build/<pid>/ and compile them.
    Returns dict(ok, rejected, offenders_present, offenders_gone, pinned_differ, log)."""
    bdir = common.BUILD / pid
    bdir.mkdir(parents=True, exist_ok=True)
    (bdir / "ClassTable.v").write_text(HEADER + "Definition class_table : list cls_rec :=\n  [ " +
                                       ";\n    ".join(coq_row(r) for r in rows) + " ].\n")
    rep = bdir / "ClassReport.v"
    rep.write_text('Load "ClassTable".\n'
                   "Eval vm_compute in (\"REJECTED\", List.map cname (List.filter (fun c => negb (class_accepted c)) class_table)).\n"
                   "Eval vm_compute in (\"PRESENT\", offenders_present class_table).\n"
                   "Eval vm_compute in (\"GONE\", offenders_gone class_table).\n"
                   "Eval vm_compute in (\"DIFFER\", pinned_differ class_table).\n"
                   "Eval vm_compute in (\"OFFENDERS\", List.map (fun o => (oname o, omissing o, oextra o)) known_offenders).\n")
    res = dict(ok=False, rejected=None, offenders_present=[], offenders_gone=[], pinned_differ=[], log="")
    rc, out, err = common.coqc(rep, timeout=300)
    if rc != 0:
        res["log"] = "ClassReport.v failed: " + err[-1500:]
        return res
    flat = re.sub(r"\s+", " ", out)
    for key, field in (("REJECTED", "rejected"), ("PRESENT", "offenders_present"), ("GONE", "offenders_gone"), ("DIFFER", "pinned_differ")):
        m = re.search(r'= \("%s", (\[.*?\]|nil)\)' % key, flat)
        if not m:
            res["log"] = f"could not parse {key} in ClassReport output: {out[-400:]}"
            return res
        res[field] = _strings(m.group(1))
    # the Python copy of the exception list must be the Coq one
    m = re.search(r'= \("OFFENDERS", (.*?)\) : ', flat)
    coq_off = sorted(set(_strings(m.group(1)))) if m else []
    py_off = sorted(set(list(KNOWN_OFFENDERS) + [x for v in KNOWN_OFFENDERS.values() for x in v["missing"] + v["extra"]]))
    if coq_off != py_off:
        res["log"] = f"exception list of introspect.py differs from Ops/ClassTableSpec.v: {py_off} vs {coq_off}"
        return res
    chk = bdir / "ClassCheck.v"
    chk.write_text('Load "ClassTable".\n'
                   "Lemma classes_ok : table_ok class_table = true.\nProof. vm_compute. reflexivity. Qed.\n"
                   "Print Assumptions classes_ok.\n")
    rc, out, err = common.coqc(chk, timeout=300)
    res["ok"] = rc == 0 and "Closed under the global context" in out
    if not res["ok"]:
        res["log"] = "ClassCheck.v: table_ok class_table = true is NOT provable: " + err[-600:]
    return res


def find_lost_attribute(cheetah, row, how):
    """Search: build an element of the (rejected) class with a non-default value for each parameter that is not a
    defining feature and show that `how(element)` (clone or save/load) loses it or raises.  Returns a replay dict or None."""
    cls = getattr(cheetah, row["cname"])
    for variant in range(3):
        for p, only in [(p, o) for p in (missing(row) or [None]) for o in (([p], None) if p else (None,))]:
            try:
                kw, nd = probe_kwargs(cheetah, cls, variant, only=only)
                e = cls(**kw)
            except Exception:
                continue
            try:
                c = how(e)
            except Exception as ex:
                return {"cls": row["cname"], "kwargs": describe_kwargs(kw), "parameter": p, "raised": f"{type(ex).__name__}: {ex}"[:300]}
            for q in settable(row):
                if q in kw and hasattr(e, q):
                    if not hasattr(c, q) or not same_value(getattr(e, q), getattr(c, q)):
                        return {"cls": row["cname"], "kwargs": describe_kwargs(kw), "parameter": q,
                                "original": describe(getattr(e, q)), "copy": describe(getattr(c, q, "<no attribute>"))}
    return None


def describe(v):
    if isinstance(v, torch.Tensor):
        return {"tensor": v.tolist(), "dtype": str(v.dtype)}
    if isinstance(v, (torch.nn.ModuleList, list)) and len(v) and isinstance(list(v)[0], torch.nn.Module):
        return [f"{type(x).__name__}({x.name})" for x in v]
    if isinstance(v, torch.dtype):
        return str(v)
    if isinstance(v, tuple):
        return list(v)
    return v


def describe_kwargs(kw):
    return {k: describe(v) for k, v in kw.items()}


def kwargs_from_description(d):
    """Inverse of describe_kwargs for replay files (elements lists are not replayable and are dropped)."""
    kw = {}
    for k, v in d.items():
        if isinstance(v, dict) and "tensor" in v:
            kw[k] = torch.tensor(v["tensor"], dtype=getattr(torch, v["dtype"].split(".")[-1]))
        elif k == "dtype":
            kw[k] = getattr(torch, str(v).split(".")[-1])
        elif k == "resolution":
            kw[k] = tuple(v)
        else:
            kw[k] = v
    return kw


if __name__ == "__main__":
    ch = common.setup_python_env()
    rows = table(ch)
    for r in rows:
        print(r["cname"], "missing", missing(r), "extra", extra(r), "probe", r["probe"], "echoed", r["echoed"], "kinds", r["kinds"])
    print(run_obligation("C14", rows))
